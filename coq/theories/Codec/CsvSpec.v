(** C31 — the SPECIFICATION side: what a faithful and safe import/export has to satisfy.

    (1) An RFC 4180 writer/reader pair over records of fields.  [rfc_read (rfc_write rows) = Some rows]
        is proved for all rows (CsvLaws.rfc4180_roundtrip); it is the contract a repaired
        export_csv/import_csv pair must meet.
    (2) A small self-contained scanner for the statement shape
          INSERT INTO <table> (<identifier list>) VALUES (<'string literal' | NULL>, ...);
        with SQL's quote doubling.  "import only inserts data" = every generated statement is accepted by
        this scanner and the scanned literals are the file's values.
    Executable definitions only. *)
From Coq Require Import Ascii String.
From Coq Require Import List ZArith Bool.
From VibeSQL Require Import Codec.Csv.
Import ListNotations.
Open Scope Z_scope.

(** ------------------------------------------------------------------------------------------------
    RFC 4180 *)

Definition needs_quote (f : str) : bool :=
  contains COMMA f || contains DQ f || contains LF f || contains CR f.
Definition rfc_field (f : str) : str :=
  if needs_quote f then DQ :: replace_char DQ [DQ; DQ] f ++ [DQ] else f.
(** record = field *(COMMA field) CRLF; a record has at least one field *)
Definition rfc_row (r : list str) : str := join [COMMA] (map rfc_field r) ++ [CR; LF].
Definition rfc_write (rows : list (list str)) : str := flat_map rfc_row rows.

(** reader: RS = at the start of a record, FS = after a comma, UQ = inside a non-escaped field,
    QT = inside an escaped field, QQ = just after a double quote inside an escaped field.
    [f] = current field reversed, [row] = fields of the current record reversed, [acc] = records reversed.
    [None] = not RFC 4180 (quote inside a non-escaped field, text after a closing quote, unterminated
    escaped field, CR not followed by LF).  A bare LF is accepted as a record terminator; the last
    record may lack its terminator. *)
Inductive rst := RS | FS | UQ | QT | QQ.

Fixpoint rd (s : str) (st : rst) (f : str) (row : list str) (acc : list (list str))
  : option (list (list str)) :=
  match s with
  | [] =>
      match st with
      | RS => Some (rev acc)
      | QT => None
      | _ => Some (rev (rev (rev f :: row) :: acc))
      end
  | c :: r =>
      match st with
      | QT => if c =? DQ then rd r QQ f row acc else rd r QT (c :: f) row acc
      | _ =>
          if c =? DQ then
            match st with
            | QQ => rd r QT (DQ :: f) row acc
            | UQ => None
            | _ => rd r QT [] row acc
            end
          else if c =? COMMA then rd r FS [] (rev f :: row) acc
          else if c =? LF then rd r RS [] [] (rev (rev f :: row) :: acc)
          else if c =? CR then
            match r with
            | c2 :: r' => if c2 =? LF then rd r' RS [] [] (rev (rev f :: row) :: acc) else None
            | [] => None
            end
          else
            match st with
            | QQ => None
            | _ => rd r UQ (c :: f) row acc
            end
      end
  end.

Definition rfc_read (s : str) : option (list (list str)) := rd s RS [] [] [].

(** the writer of fixes/C31-csv-rfc4180-reader.patch: escape_csv_value extended by CR, LF record ends, and a
    record consisting of one empty field written as two double quotes (readers skip blank lines) *)
Definition fixed_row (r : list str) : str :=
  match r with
  | [[]] => [DQ; DQ; LF]
  | _ => join [COMMA] (map rfc_field r) ++ [LF]
  end.
Definition fixed_write (rows : list (list str)) : str := flat_map fixed_row rows.

(** ------------------------------------------------------------------------------------------------
    statement scanner *)

Inductive lit := LStr (s : str) | LNull.

(** body of a string literal after the opening quote: [''] is one quote, a single quote ends it;
    returns the value and the rest of the input *)
Fixpoint scan_lit_body (s : str) (acc : str) : option (str * str) :=
  match s with
  | [] => None
  | c :: r =>
      if c =? SQ then
        match r with
        | c2 :: r' => if c2 =? SQ then scan_lit_body r' (SQ :: acc) else Some (rev acc, r)
        | [] => Some (rev acc, [])
        end
      else scan_lit_body r (c :: acc)
  end.

Fixpoint strip_prefix (p s : str) : option str :=
  match p with
  | [] => Some s
  | x :: p' => match s with
               | y :: s' => if x =? y then strip_prefix p' s' else None
               | [] => None
               end
  end.

Definition scan_value (s : str) : option (lit * str) :=
  match s with
  | c :: r =>
      if c =? SQ then
        match scan_lit_body r [] with Some (v, rest) => Some (LStr v, rest) | None => None end
      else match strip_prefix NULL_text s with Some rest => Some (LNull, rest) | None => None end
  | [] => None
  end.

(** value ("," " " value)* up to (not including) the closing parenthesis; fuel bounds the number of values *)
Fixpoint scan_values (fuel : nat) (s : str) : option (list lit * str) :=
  match fuel with
  | O => None
  | S f =>
      match scan_value s with
      | None => None
      | Some (v, rest) =>
          match strip_prefix (s_of ", ") rest with
          | Some rest' =>
              match scan_values f rest' with
              | Some (vs, rest'') => Some (v :: vs, rest'')
              | None => None
              end
          | None => Some ([v], rest)
          end
      end
  end.

Definition is_ident_start (c : Z) : bool :=
  ((65 <=? c) && (c <=? 90)) || ((97 <=? c) && (c <=? 122)) || (c =? 95).
Definition is_ident_char (c : Z) : bool := is_ident_start c || ((48 <=? c) && (c <=? 57)).
(** a plain SQL identifier *)
Definition is_ident (s : str) : bool :=
  match s with
  | c :: r => is_ident_start c && forallb is_ident_char r
  | [] => false
  end.

(** text up to the first [)] and the text after it *)
Fixpoint until_rparen (s : str) : option (str * str) :=
  match s with
  | [] => None
  | c :: r => if c =? 41 then Some ([], r)
              else match until_rparen r with Some (a, b) => Some (c :: a, b) | None => None end
  end.

(** [Some (columns, values)] iff the statement is exactly
    INSERT INTO <table> (<c1>, <c2>, ...) VALUES (<v1>, <v2>, ...);
    with every <ci> an identifier surrounded by optional white space and every <vi> a string literal or
    NULL.  [columns] are the identifiers. *)
Definition scan_insert (table stmt : str) : option (list str * list lit) :=
  match strip_prefix (s_of "INSERT INTO " ++ table ++ s_of " (") stmt with
  | None => None
  | Some s1 =>
      match until_rparen s1 with
      | None => None
      | Some (colstext, s2) =>
          let cols := map trim (split_on COMMA colstext) in
          if forallb is_ident cols then
            match strip_prefix (s_of " VALUES (") s2 with
            | None => None
            | Some s3 =>
                match scan_values (length s3) s3 with
                | Some (vals, s4) => if str_eqb s4 (s_of ");") then Some (cols, vals) else None
                | None => None
                end
            end
          else None
      end
  end.

(** how a literal is written *)
Definition render_lit (l : lit) : str :=
  match l with LStr s => sql_quote s | LNull => NULL_text end.

(** the intended reading of a JSON member value: JSON null is SQL NULL, everything else is its text *)
Definition json_lit (v : jval) : lit :=
  match v with JNull => LNull | _ => LStr (value_text v) end.

(** the "fixed" validation the property needs: every object's keys are checked, not only the first's *)
Fixpoint validate_all_objects (schema : list str) (objs : list jobj) : res unit :=
  match objs with
  | [] => Ok tt
  | o :: r =>
      match validate_columns schema (map fst (to_map o)) with
      | Ok _ => validate_all_objects schema r
      | Err e => Err e
      end
  end.
