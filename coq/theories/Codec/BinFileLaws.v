(** Laws of the file-level decoder (BinValue.read_value, BinExpr, BinFile): totality, the resource
    bounds that hold and the ones that do not, header/tag rejection, and the save/load round trip. *)
From Coq Require Import String List ZArith Bool Lia.
From VibeSQL Require Import Generated.Consts Value.SqlValue Codec.BinUtf8 Codec.BinDec Codec.BinPrim
  Codec.BinValue Codec.BinType Codec.BinExpr Codec.BinFile Codec.BinCanon
  Codec.BinPrimLaws Codec.BinDecLaws Codec.BinValueLaws.
Import ListNotations.
Open Scope Z_scope.

(** * which outcomes each phase can produce *)
(** some temporal oracle panics on some text (what property C22 is about) *)
Definition temporal_panics (E : env) : Prop :=
  exists s, parse_date E s = PPanic \/ parse_time E s = PPanic
            \/ parse_timestamp E s = PPanic \/ parse_interval E s = PPanic.
(** panics that come out of a temporal parser *)
Definition pT (E : env) (p : panic) : Prop := (exists k, p = PTemporal k) /\ temporal_panics E.
(** ... or out of the CHAR padding of [Table::insert] (format width above u16::MAX) *)
Definition pData (E : env) (p : panic) : Prop := p = PFmtWidth \/ pT E p.

Section Goodness.
  Variable E : env.
  Variable allowS : Prop.      (* whether StackOverflow is tolerated in this context *)

  Notation goodT := (good (pT E) False allowS).

  Lemma good_of_presult {A B} k (r : presult A) (f : A -> B) :
    (r = PPanic -> temporal_panics E) -> goodT (of_presult k r f).
  Proof.
    intros H. destruct r; cbn [of_presult].
    - apply good_ret.
    - apply good_fail.
    - apply good_stop; [reflexivity|]. cbn. split; [eexists; reflexivity | auto].
    - apply good_unmodelled.
  Qed.

  Lemma good_read_value : goodT (read_value E).
  Proof.
    unfold read_value. apply good_bind; [apply good_read_u8|]. intros tag.
    destruct (tag_from_u8 tag) as [k|]; [|apply good_fail].
    destruct k; try apply good_ret;
      try (apply good_map; first [apply good_read_i16 | apply good_read_i64 | apply good_read_u64
                                 | apply good_read_f64 | apply good_read_f32 | apply good_read_string
                                 | apply good_read_bool]).
    - apply good_bind; [apply good_read_string|]. intros s. apply good_of_presult.
      intros H. exists s. auto.
    - apply good_bind; [apply good_read_string|]. intros s. apply good_of_presult.
      intros H. exists s. auto.
    - apply good_bind; [apply good_read_string|]. intros s. apply good_of_presult.
      intros H. exists s. auto.
    - apply good_bind; [apply good_read_string|]. intros s. apply good_of_presult.
      intros H. exists s. auto.
  Qed.

  Lemma strict_read_value : strict (read_value E).
  Proof.
    unfold read_value. apply (strict_bind_l (pT E) False allowS); [apply (strict_read_u8 (pT E) False allowS)|]. intros tag.
    destruct (tag_from_u8 tag) as [k|]; [|apply good_fail].
    pose proof good_read_value as G. unfold read_value in G.
    (* reuse: every continuation is good *)
    destruct k; try apply good_ret;
      try (apply good_map; first [apply good_read_i16 | apply good_read_i64 | apply good_read_u64
                                 | apply good_read_f64 | apply good_read_f32 | apply good_read_string
                                 | apply good_read_bool]);
      (apply good_bind; [apply good_read_string|]; intros s; apply good_of_presult; intros H; exists s; auto).
  Qed.

  (** ** expression skeleton *)
  Lemma good_read_enum what tags : goodT (read_enum what tags).
  Proof.
    unfold read_enum. apply good_bind; [apply good_read_u8|]. intros b.
    destruct (existsb (Z.eqb b) tags); [apply good_ret | apply good_fail].
  Qed.
  Lemma strict_read_enum what tags : strict (read_enum what tags).
  Proof.
    unfold read_enum. apply (strict_bind_l (pT E) False allowS); [apply (strict_read_u8 (pT E) False allowS)|]. intros b.
    destruct (existsb (Z.eqb b) tags); [apply good_ret | apply good_fail].
  Qed.
  Lemma good_skip {A} (m : dec A) : goodT m -> goodT (skip m).
  Proof. intros G. unfold skip. apply good_bind; [exact G|]. intros; apply good_ret. Qed.
  Lemma strict_skip {A} (m : dec A) : strict m -> strict (skip m).
  Proof. intros S0. unfold skip. apply (strict_bind_l (pT E) False allowS); [exact S0|]. intros; apply good_ret. Qed.
  Lemma good_opt m : goodT m -> goodT (opt m).
  Proof.
    intros G. unfold opt, when_. apply good_bind; [apply good_read_bool|]. intros b.
    destruct b; [exact G | apply good_ret].
  Qed.
  Lemma strict_opt m : goodT m -> strict (opt m).
  Proof.
    intros G. unfold opt, when_. apply (strict_bind_l (pT E) False allowS); [apply (strict_read_bool (pT E) False allowS)|]. intros b.
    destruct b; [exact G | apply good_ret].
  Qed.
  Lemma good_seq {A B} (m : dec A) (k : dec B) : goodT m -> goodT k -> goodT (m ;;; k).
  Proof. intros G1 G2. apply good_bind; auto. Qed.
  Lemma strict_seq_l {A B} (m : dec A) (k : dec B) : strict m -> goodT k -> strict (m ;;; k).
  Proof. intros S1 G2. apply (strict_bind_l (pT E) False allowS); eauto. Qed.
  Lemma good_counted {A} (item : dec A) : goodT item -> strict item -> goodT (n <- read_u32 ;; skip (loop n item)).
  Proof.
    intros G S0. apply good_bind; [apply good_read_u32|]. intros n. apply good_skip, good_loop; assumption.
  Qed.
  Lemma strict_counted {A} (item : dec A) : goodT item -> strict item -> strict (n <- read_u32 ;; skip (loop n item)).
  Proof.
    intros G S0. apply (strict_bind_l (pT E) False allowS); [apply (strict_read_u32 (pT E) False allowS)|]. intros n. apply good_skip, good_loop; assumption.
  Qed.
End Goodness.

Create HintDb gooddb discriminated.
#[export] Hint Resolve good_ret good_fail good_unmodelled good_read_u8 good_read_u32 good_read_u64
  good_read_i16 good_read_i64 good_read_f32 good_read_f64 good_read_bool good_read_string
  good_read_value good_read_enum good_skip good_opt good_seq good_counted good_bind good_loop
  good_map : gooddb.

Section ExprGood.
  Variable E : env.
  Variable allowS : Prop.     (* is StackOverflow tolerated?  If not, the nesting must fit: see [fits] *)
  Notation goodX := (good (pT E) False allowS).
  Notation glt := (good_lt (pT E) False allowS).
  (** either overflow is tolerated, or [depth] plus the remaining fuel (= an upper bound of the levels
      still to come) stays within the stack, or the stack holds one frame more than the depth guard admits *)
  Definition fits (depth : Z) (fuel : nat) : Prop :=
    allowS \/ depth + Z.of_nat fuel <= stack_limit E + 1
    \/ (bin_max_expr_depth + 1 <= stack_limit E /\ depth <= bin_max_expr_depth + 1).

  Lemma strict_read_string' : strict read_string.
  Proof. apply (strict_read_string (pT E) False allowS). Qed.

  Lemma glt_of F {A} (m : dec A) : goodX m -> glt F m.
  Proof. apply good_lt_of_good. Qed.
  Lemma glt_bind F {A B} (m : dec A) (f : A -> dec B) : glt F m -> (forall a, glt F (f a)) -> glt F (bind m f).
  Proof. apply good_lt_bind. Qed.
  Lemma glt_seq F {A B} (m : dec A) (k : dec B) : glt F m -> glt F k -> glt F (m ;;; k).
  Proof. intros G1 G2. apply glt_bind; auto. Qed.
  Lemma glt_skip F {A} (m : dec A) : glt F m -> glt F (skip m).
  Proof. intros G. unfold skip. apply glt_bind; [exact G|]. intros; apply glt_of, good_ret. Qed.
  Lemma glt_opt F m : glt F m -> glt F (opt m).
  Proof.
    intros G. unfold opt, when_. apply glt_bind; [apply glt_of, good_read_bool|]. intros b.
    destruct b; [exact G | apply glt_of, good_ret].
  Qed.
  Lemma glt_counted F {A} (item : dec A) : glt F item -> strict_lt F item -> glt F (n <- read_u32 ;; skip (loop n item)).
  Proof.
    intros G S0. apply glt_bind; [apply glt_of, good_read_u32|]. intros n.
    apply glt_skip, good_lt_loop; assumption.
  Qed.
  Lemma slt_counted F {A} (item : dec A) : glt F item -> strict_lt F item -> strict_lt F (n <- read_u32 ;; skip (loop n item)).
  Proof.
    intros G S0. apply (strict_lt_bind_l (pT E) False allowS).
    - apply glt_of, good_read_u32.
    - apply strict_lt_of_strict, (strict_read_u32 (pT E) False allowS).
    - intros n. apply glt_skip, good_lt_loop; assumption.
  Qed.
  Lemma slt_seq_l F {A B} (m : dec A) (k : dec B) : glt F m -> strict_lt F m -> glt F k -> strict_lt F (m ;;; k).
  Proof. intros G1 S1 G2. apply (strict_lt_bind_l (pT E) False allowS); auto. Qed.

  Lemma good_strict_read_expr fuel :
    forall depth, fits depth fuel ->
      glt (Z.of_nat fuel) (read_expr E fuel depth) /\ strict_lt (Z.of_nat fuel) (read_expr E fuel depth).
  Proof.
    induction fuel as [|f IH]; intros depth Hfit.
    - split; intros bs Hb; pose proof (blen_nonneg bs); change (Z.of_nat 0) with 0 in Hb; lia.
    - cbn [read_expr].
      assert (Hso : stack_limit E < depth -> allowS) by (intros Hlt; destruct Hfit as [Ha|[Hd|[Hd1 Hd2]]]; [exact Ha | lia | lia]).
      destruct (Z.ltb_spec bin_max_expr_depth depth) as [Hdeep|Hshallow].
      { (* beyond the depth guard: rejected without reading anything *)
        split.
        - intros bs Hb. destruct (Z.ltb_spec (stack_limit E) depth) as [Hlt|Hge];
            [apply good_stop; [reflexivity | exact (Hso Hlt)] | apply good_fail].
        - intros bs Hb. destruct (stack_limit E <? depth); [apply strict_stop; reflexivity | apply strict_fail]. }
      assert (Hfit' : fits (depth + 1) f).
      { destruct Hfit as [Ha|[Hd|[Hd1 Hd2]]]; [left; exact Ha | right; left; lia | right; right; split; lia]. }
      destruct (IH (depth + 1) Hfit') as [Gs Ss].
      set (sub := read_expr E f (depth + 1)) in *.
      set (F := Z.of_nat f) in *.
      assert (Gsubs : glt F (n <- read_u32 ;; skip (loop n sub))) by (apply glt_counted; assumption).
      assert (Ssubs : strict_lt F (n <- read_u32 ;; skip (loop n sub))) by (apply slt_counted; assumption).
      assert (Gcw : glt F ((n <- read_u32 ;; skip (loop n sub)) ;;; sub)) by (apply glt_seq; assumption).
      assert (Scw : strict_lt F ((n <- read_u32 ;; skip (loop n sub)) ;;; sub))
        by (apply slt_seq_l; assumption).
      assert (Gbody : forall tag : Z, glt F (
        if tag =? bin_expr_Literal then skip (read_value E)
        else if tag =? bin_expr_ColumnRef then opt (skip read_string) ;;; skip read_string
        else if tag =? bin_expr_BinaryOp then read_enum 10 bin_binop_tags ;;; sub ;;; sub
        else if tag =? bin_expr_UnaryOp then read_enum 11 bin_unop_tags ;;; sub
        else if tag =? bin_expr_Function then
          skip read_string ;;; (n <- read_u32 ;; skip (loop n sub)) ;;; opt (read_enum 12 bin_charunit_tags)
        else if tag =? bin_expr_AggregateFunction then skip read_string ;;; skip read_bool ;;; (n <- read_u32 ;; skip (loop n sub))
        else if tag =? bin_expr_IsNull then sub ;;; skip read_bool
        else if tag =? bin_expr_Wildcard then ret tt
        else if tag =? bin_expr_Case then
          opt sub ;;;
          (n <- read_u32 ;; skip (loop n ((n <- read_u32 ;; skip (loop n sub)) ;;; sub))) ;;;
          opt sub
        else if tag =? bin_expr_ScalarSubquery then fail ENotImpl
        else if tag =? bin_expr_In then fail ENotImpl
        else if tag =? bin_expr_InList then sub ;;; (n <- read_u32 ;; skip (loop n sub)) ;;; skip read_bool
        else if tag =? bin_expr_Between then sub ;;; sub ;;; sub ;;; skip read_bool ;;; skip read_bool
        else if tag =? bin_expr_Cast then
          sub ;;; (s <- read_string ;;
                   match parse_data_type s with
                   | POk _ => ret tt
                   | PErr => fail EDataType
                   | _ => stop Unmodelled
                   end)
        else if tag =? bin_expr_Position then sub ;;; sub ;;; opt (read_enum 12 bin_charunit_tags)
        else if tag =? bin_expr_Trim then
          opt (read_enum 13 bin_trimpos_tags) ;;; opt sub ;;; sub
        else if tag =? bin_expr_Like then sub ;;; sub ;;; skip read_bool
        else if tag =? bin_expr_Exists then fail ENotImpl
        else if tag =? bin_expr_QuantifiedComparison then fail ENotImpl
        else if tag =? bin_expr_CurrentDate then ret tt
        else if tag =? bin_expr_CurrentTime then opt (skip read_u32)
        else if tag =? bin_expr_CurrentTimestamp then opt (skip read_u32)
        else if tag =? bin_expr_Interval then
          sub ;;; read_enum 14 bin_intervalunit_tags ;;; opt (skip read_u32) ;;; opt (skip read_u32)
        else if tag =? bin_expr_Default then ret tt
        else if tag =? bin_expr_DuplicateKeyValue then skip read_string
        else if tag =? bin_expr_WindowFunction then
          read_enum 15 [0; 1; 2] ;;; skip read_string ;;; (n <- read_u32 ;; skip (loop n sub)) ;;;
          opt (n <- read_u32 ;; skip (loop n sub)) ;;;
          (ob <- read_bool ;; if ob then fail ENotImpl else ret tt) ;;;
          opt (let bound := (t <- read_u8 ;;
                              if (t =? 1) || (t =? 3) then sub
                              else if (t =? 0) || (t =? 2) || (t =? 4) then ret tt
                              else fail (EEnum 17 t)) in
                read_enum 16 [0; 1] ;;; bound ;;; opt bound)
        else if tag =? bin_expr_NextValue then skip read_string
        else if tag =? bin_expr_MatchAgainst then
          (n <- read_u32 ;; skip (loop n read_string)) ;;; sub ;;; read_enum 18 bin_fulltext_tags
        else if tag =? bin_expr_PseudoVariable then read_enum 19 bin_pseudotable_tags ;;; skip read_string
        else if tag =? bin_expr_SessionVariable then skip read_string
        else fail (ETag tag))).
      { intros tag.
        assert (Gb : glt F (t <- read_u8 ;;
                            if (t =? 1) || (t =? 3) then sub
                            else if (t =? 0) || (t =? 2) || (t =? 4) then ret tt
                            else fail (EEnum 17 t))).
        { apply glt_bind; [apply glt_of, good_read_u8|]. intros t.
          destruct ((t =? 1) || (t =? 3)); [exact Gs|].
          destruct ((t =? 0) || (t =? 2) || (t =? 4)); apply glt_of; auto with gooddb. }
        repeat match goal with
               | |- good_lt _ _ _ _ (if ?c then _ else _) => destruct c
               end;
        repeat first [ exact Gs | exact Gsubs | exact Gcw | exact Gb
                     | apply glt_skip | apply glt_opt | apply glt_seq
                     | (apply glt_counted; [| first [exact Ss | exact Scw
                                                     | apply strict_lt_of_strict, strict_read_string']])
                     | (apply glt_of; first [ apply good_ret | apply good_fail | apply good_read_string
                                            | apply good_read_bool | apply good_read_u32 | apply good_read_value
                                            | apply good_read_enum | apply good_unmodelled ])
                     | match goal with |- good_lt _ _ _ _ (match ?x with _ => _ end) => destruct x end
                     | (apply glt_bind; [|intros ?]) ]. }
      assert (Hr : forall bs t tag r, blen bs < Z.of_nat (S f) -> read_u8 bs = (t, Ok tag r) -> blen r < F).
      { intros bs t tag r Hb Er. pose proof (strict_read_u8 (pT E) False allowS _ _ _ _ Er). unfold F. lia. }
      split.
      + intros bs Hb. destruct (Z.ltb_spec (stack_limit E) depth) as [Hlt|Hge].
        * apply good_stop; [reflexivity | exact (Hso Hlt)].
        * apply good_at_bind; [apply good_read_u8|]. intros t tag r Er. apply Gbody. eapply Hr; eauto.
      + intros bs Hb. destruct (stack_limit E <? depth); [apply strict_stop; reflexivity|].
        intros t a rest.
        destruct (read_u8 bs) as [t1 o1] eqn:Er. rewrite (bind_run _ _ _ _ _ Er).
        destruct o1 as [tag r| | | | | |]; [| intros H; inversion H ..].
        pose proof (Hr _ _ _ _ Hb Er) as Hlt.
        pose proof (strict_read_u8 (pT E) False allowS _ _ _ _ Er) as Hs.
        match goal with |- (let '(t2, o) := ?body r in _) = _ -> _ => destruct (body r) as [t2 o2] eqn:Eb end.
        intros [= <- ->].
        pose proof (g_consumes _ _ _ _ _ (Gbody tag r Hlt) _ _ _ Eb). lia.
  Qed.

  (** on inputs shorter than [F]: fine when overflow is tolerated, or the stack holds [F] levels, or it
      holds one frame more than the depth guard admits *)
  Lemma good_read_expression F :
    allowS \/ F <= stack_limit E \/ bin_max_expr_depth + 1 <= stack_limit E -> glt F (read_expression E).
  Proof.
    intros HF bs Hb. unfold read_expression.
    assert (Hlt : blen bs < Z.of_nat (S (length bs))) by (unfold blen; lia).
    assert (Hfit : fits 1 (S (length bs))).
    { destruct HF as [Ha|[Hd|Hd]]; [left; exact Ha | right; left; unfold blen in *; lia |].
      right; right. split; [exact Hd|]. change bin_max_expr_depth with 128. lia. }
    destruct (proj1 (good_strict_read_expr (S (length bs)) 1 Hfit) bs Hlt) as [h1 h2 h3]. split; assumption.
  Qed.
End ExprGood.

(** * catalog and data sections *)
Definition pure_out {A} (o : outcome A) : Prop :=
  match o with Ok _ _ | Err _ | Unmodelled => True | _ => False end.

Lemma good_lift {A} P H S (o : outcome A) : pure_out o -> good P H S (lift o).
Proof.
  intros Hp bs. unfold lift. split.
  - intros t a rest. destruct o; intros [= <- ? ?]; subst; lia.
  - intros t o' [= <- _]. constructor.
  - intros t o' [= _ <-]. destruct o; cbn in *; auto; contradiction.
Qed.

Lemma pure_fold_out {A St} (f : St -> A -> outcome St) l s :
  (forall s x, pure_out (f s x)) -> pure_out (fold_out f l s).
Proof.
  intros Hf. revert s. induction l as [|x l IH]; intros s; cbn [fold_out]; [exact I|].
  specialize (Hf s x). destruct (f s x); cbn in *; auto.
Qed.

Lemma pure_add_unique w l n : pure_out (add_unique w l n).
Proof. unfold add_unique. destruct (existsb (bytes_eqb n) l); exact I. Qed.
Lemma pure_create_table d t : pure_out (create_table d t).
Proof. unfold create_table. destruct (existsb _ _); exact I. Qed.
Lemma pure_create_index d n tn u cols : pure_out (create_index d n tn u cols).
Proof.
  unfold create_index. destruct (index_table_idx d tn); [|exact I].
  destruct (negb (is_ascii n)); [exact I|]. destruct (existsb _ _); [exact I|].
  destruct (nth_error _ _); [|exact I]. destruct (columns_idx _ _); try exact I.
  destruct (index_unique_ok _ _ _); exact I.
Qed.

Section FileGood.
  Variable E : env.
  Variable allowS : Prop.
  Notation goodC := (good (pT E) False allowS).
  Notation gltC := (good_lt (pT E) False allowS).
  Let sbl {A B} := @strict_bind_l (pT E) False allowS A B.
  (** the catalog decoders containing [read_expression] are stated on inputs shorter than [F] under [okF] *)
  Variable F : Z.
  Hypothesis okF : allowS \/ F <= stack_limit E \/ bin_max_expr_depth + 1 <= stack_limit E.

  Lemma good_read_column : goodC read_column /\ strict read_column.
  Proof.
    unfold read_column. split.
    - apply good_bind; [apply good_read_string|]. intros n.
      apply good_bind; [apply good_read_string|]. intros ts.
      apply good_bind; [apply good_read_bool|]. intros nl.
      destruct (parse_data_type ts); auto with gooddb.
    - apply sbl; [apply (strict_read_string (pT E) False allowS)|]. intros n.
      apply good_bind; [apply good_read_string|]. intros ts.
      apply good_bind; [apply good_read_bool|]. intros nl.
      destruct (parse_data_type ts); auto with gooddb.
  Qed.

  Lemma good_read_table_schema : goodC read_table_schema /\ strict read_table_schema.
  Proof.
    destruct good_read_column as [Gc Sc]. unfold read_table_schema. split.
    - apply good_bind; [apply good_read_string|]. intros n.
      apply good_bind; [apply good_read_u32|]. intros cc.
      apply good_bind; [apply good_loop; assumption|]. intros; apply good_ret.
    - apply sbl; [apply (strict_read_string (pT E) False allowS)|]. intros n.
      apply good_bind; [apply good_read_u32|]. intros cc.
      apply good_bind; [apply good_loop; assumption|]. intros; apply good_ret.
  Qed.

  Lemma good_read_index_col :
    goodC (c <- read_string ;; dirb <- read_u8 ;;
           if existsb (Z.eqb dirb) bin_direction_tags then ret (c, dirb) else fail (EEnum 0 dirb))
    /\ strict (c <- read_string ;; dirb <- read_u8 ;;
           if existsb (Z.eqb dirb) bin_direction_tags then ret (c, dirb) else fail (EEnum 0 dirb)).
  Proof.
    split.
    - apply good_bind; [apply good_read_string|]. intros c.
      apply good_bind; [apply good_read_u8|]. intros dirb. destruct (existsb _ _); auto with gooddb.
    - apply sbl; [apply (strict_read_string (pT E) False allowS)|]. intros c.
      apply good_bind; [apply good_read_u8|]. intros dirb. destruct (existsb _ _); auto with gooddb.
  Qed.

  Lemma good_read_index_spec : goodC read_index_spec /\ strict read_index_spec.
  Proof.
    destruct good_read_index_col as [Gc Sc]. unfold read_index_spec. split.
    - apply good_bind; [apply good_read_string|]. intros n.
      apply good_bind; [apply good_read_string|]. intros tn.
      apply good_bind; [apply good_read_bool|]. intros u.
      apply good_bind; [apply good_read_u32|]. intros cc.
      apply good_bind; [apply good_loop; assumption|]. intros; apply good_ret.
    - apply sbl; [apply (strict_read_string (pT E) False allowS)|]. intros n.
      apply good_bind; [apply good_read_string|]. intros tn.
      apply good_bind; [apply good_read_bool|]. intros u.
      apply good_bind; [apply good_read_u32|]. intros cc.
      apply good_bind; [apply good_loop; assumption|]. intros; apply good_ret.
  Qed.

  Lemma good_trigger_event :
    goodC (ev <- read_u8 ;;
           if ev =? 3 then (cn <- read_u32 ;; skip (loop cn read_string))
           else if existsb (Z.eqb ev) bin_event_tags then ret tt
           else fail (EEnum 2 ev)).
  Proof.
    apply good_bind; [apply good_read_u8|]. intros ev.
    destruct (ev =? 3).
    - apply good_counted; [apply good_read_string | apply (strict_read_string (pT E) False allowS)].
    - destruct (existsb _ _); auto with gooddb.
  Qed.

  Lemma glt_seqC {A B} (m : dec A) (k : dec B) : gltC F m -> gltC F k -> gltC F (m ;;; k).
  Proof. intros G1 G2. apply good_lt_bind; auto. Qed.
  Lemma gofC {A} (m : dec A) : goodC m -> gltC F m.
  Proof. apply good_lt_of_good. Qed.

  Lemma good_read_trigger_k (n : bytes) :
    gltC F (skip read_string ;;;
           read_enum 1 bin_timing_tags ;;;
           (ev <- read_u8 ;;
            if ev =? 3 then (cn <- read_u32 ;; skip (loop cn read_string))
            else if existsb (Z.eqb ev) bin_event_tags then ret tt
            else fail (EEnum 2 ev)) ;;;
           read_enum 3 bin_granularity_tags ;;;
           opt (read_expression E) ;;;
           read_enum 4 bin_action_tags ;;;
           skip read_string ;;;
           ret n).
  Proof.
    apply glt_seqC; [apply gofC, good_skip, good_read_string|].
    apply glt_seqC; [apply gofC, good_read_enum|].
    apply glt_seqC; [apply gofC, good_trigger_event|].
    apply glt_seqC; [apply gofC, good_read_enum|].
    apply glt_seqC; [apply glt_opt, good_read_expression; exact okF|].
    apply glt_seqC; [apply gofC, good_read_enum|].
    apply glt_seqC; [apply gofC, good_skip, good_read_string|].
    apply gofC, good_ret.
  Qed.

  Lemma good_read_trigger : gltC F (read_trigger E) /\ strict_lt F (read_trigger E).
  Proof.
    unfold read_trigger. split.
    - apply good_lt_bind; [apply gofC, good_read_string|]. intros n. apply good_read_trigger_k.
    - apply (strict_lt_bind_l (pT E) False allowS).
      + apply gofC, good_read_string.
      + apply strict_lt_of_strict, (strict_read_string (pT E) False allowS).
      + intros n. apply good_read_trigger_k.
  Qed.

  Lemma good_read_catalog : gltC F (read_catalog E).
  Proof.
    destruct good_read_table_schema as [Gt St]. destruct good_read_index_spec as [Gi Si].
    destruct good_read_trigger as [Gr Sr].
    unfold read_catalog.
    apply good_lt_bind; [apply gofC, good_read_u32|]. intros sc.
    apply good_lt_bind.
    { apply gofC, good_iter.
      - intros l. apply good_bind; [apply good_read_string|]. intros n. apply good_lift.
        destruct (bytes_eqb n (lit "public")); [exact I | apply pure_add_unique].
      - intros l. apply sbl; [apply (strict_read_string (pT E) False allowS)|]. intros n. apply good_lift.
        destruct (bytes_eqb n (lit "public")); [exact I | apply pure_add_unique]. }
    intros schemas.
    apply good_lt_bind; [apply gofC, good_read_u32|]. intros rc.
    apply good_lt_bind.
    { apply gofC, good_iter.
      - intros l. apply good_bind; [apply good_read_string|]. intros n. apply good_lift, pure_add_unique.
      - intros l. apply sbl; [apply (strict_read_string (pT E) False allowS)|]. intros n.
        apply good_lift, pure_add_unique. }
    intros roles.
    apply good_lt_bind; [apply gofC, good_read_u32|]. intros tc.
    apply good_lt_bind; [apply gofC, good_loop; assumption|]. intros tschemas.
    apply good_lt_bind; [apply gofC, good_lift, pure_fold_out; intros; apply pure_create_table|]. intros d1.
    apply good_lt_bind; [apply gofC, good_read_u32|]. intros ic.
    apply good_lt_bind; [apply gofC, good_loop; assumption|]. intros specs.
    apply good_lt_bind.
    { apply gofC, good_lift, pure_fold_out. intros d [[[n tn] u] cols]. apply pure_create_index. }
    intros d2.
    apply good_lt_bind; [apply gofC, good_read_u32|]. intros trc.
    apply good_lt_bind.
    { apply good_lt_iter.
      - intros l. apply good_lt_bind; [exact Gr|]. intros n. apply gofC, good_lift, pure_add_unique.
      - intros l. apply (strict_lt_bind_l (pT E) False allowS); [exact Gr | exact Sr |].
        intros n. apply gofC, good_lift, pure_add_unique. }
    intros trigs. apply gofC, good_ret.
  Qed.

  Lemma good_read_header : goodC read_header.
  Proof.
    unfold read_header.
    apply good_bind; [apply good_read_exact|]. intros magic.
    destruct (negb (bytes_eqb magic bin_magic)); [apply good_fail|].
    apply good_bind; [apply good_read_exact|]. intros v.
    destruct (version_rejected (le_val v)); [apply good_fail|].
    apply good_seq; apply good_skip, good_read_exact.
  Qed.
End FileGood.

(** * data section: which columns can make [Table::insert] panic, which tables can make it spin *)
Definition limited_ty (ty : dtype) : bool :=
  match ty with TChar _ => true | _ => false end.
Definition limited_cols (cols : list column) : bool := existsb (fun c => limited_ty (c_type c)) cols.
Definition limited (ts : list table) : bool := existsb (fun t => limited_cols (t_cols t)) ts.
Definition zero_cols (ts : list table) : bool := existsb (fun t => (length (t_cols t) =? 0)%nat) ts.

Section DataGood.
  Variable E : env.

  Definition pCols (cols : list column) (p : panic) : Prop :=
    pT E p \/ (p = PFmtWidth /\ limited_cols cols = true).
  Definition pTabs (ts : list table) (p : panic) : Prop :=
    pT E p \/ (p = PFmtWidth /\ limited ts = true).

  Lemma of_parse_panic {A} k (r : presult A) f p :
    of_parse k r f = NPanic p -> r = PPanic /\ p = PTemporal k.
  Proof. destruct r; cbn; intros H; inversion H; auto. Qed.

  Lemma normalize_value_spec ty v t r :
    normalize_value E ty v = (t, r) ->
    Forall (ev_le 65535) t /\
    (forall p, r = NPanic p -> pT E p \/ (p = PFmtWidth /\ limited_ty ty = true)).
  Proof.
    intros H. unfold normalize_value, keep_if in H.
    destruct ty as [| | | |pr| | |[n|]|n| | |tz|tz|dbg|p1 s1|p1 s1| | | |bl|ud|];
      try (inversion H; subst; split; [constructor|]; intros p Hp;
           repeat match goal with
                  | _ : context [match ?x with _ => _ end] |- _ => destruct x
                  end; discriminate).
    - (* varchar n *)
      destruct v as [[]|]; inversion H; subst; clear H; (split; [constructor|]); intros p Hp; try discriminate.
      unfold truncate_varchar in Hp. destruct (n <? blen s); discriminate.
    - (* char n *)
      destruct v as [[]|]; try (inversion H; subst; split; [constructor|]; intros p Hp; discriminate).
      unfold normalize_char in H.
      destruct (char_count s <? n).
      + destruct (Z.ltb_spec u16_max n).
        * inversion H; subst. split; [constructor|]. intros p [= <-]. right. auto.
        * inversion H; subst. split; [constructor; [cbn; unfold u16_max in *; lia | constructor]|].
          intros p Hp. discriminate.
      + destruct (n <? char_count s); inversion H; subst; (split; [constructor|]); intros p Hp; discriminate.
    - (* date *)
      destruct v as [[]|]; inversion H; subst; clear H; (split; [constructor|]); intros p Hp; try discriminate;
        apply of_parse_panic in Hp; destruct Hp as [Hr ->]; left; (split; [eexists; reflexivity|]); exists s; auto.
    - destruct v as [[]|]; inversion H; subst; clear H; (split; [constructor|]); intros p Hp; try discriminate;
        apply of_parse_panic in Hp; destruct Hp as [Hr ->]; left; (split; [eexists; reflexivity|]); exists s; auto.
    - destruct v as [[]|]; inversion H; subst; clear H; (split; [constructor|]); intros p Hp; try discriminate;
        apply of_parse_panic in Hp; destruct Hp as [Hr ->]; left; (split; [eexists; reflexivity|]); exists s; auto.
    - (* name *)
      destruct v as [[]|]; inversion H; subst; clear H; (split; [constructor|]); intros p Hp; try discriminate.
      unfold truncate_varchar in Hp. destruct (128 <? blen s); discriminate.
  Qed.

  Definition out_spec {A} (cols : list column) (o : outcome A) : Prop :=
    match o with
    | Panic p => pCols cols p
    | Hang | StackOverflow | OutOfFuel => False
    | _ => True
    end.

  Lemma pCols_tail c cs p : pCols cs p -> pCols (c :: cs) p.
  Proof.
    intros [H|[H1 H2]]; [left; exact H|]. right. split; [exact H1|].
    unfold limited_cols in *. cbn [existsb]. rewrite H2. apply orb_true_r.
  Qed.

  Lemma normalize_cols_spec cols vals t o :
    normalize_cols E cols vals = (t, o) -> Forall (ev_le 65535) t /\ out_spec cols o.
  Proof.
    revert vals t o. induction cols as [|c cs IH]; intros vals t o H.
    - destruct vals; inversion H; subst; split; try constructor; exact I.
    - destruct vals as [|v vs]; [inversion H; subst; split; [constructor | exact I]|].
      cbn [normalize_cols] in H. destruct (is_null v).
      + destruct (negb (c_nullable c)); [inversion H; subst; split; [constructor | exact I]|].
        destruct (normalize_cols E cs vs) as [t' o'] eqn:En. specialize (IH _ _ _ En). destruct IH as [IH1 IH2].
        destruct o'; inversion H; subst; (split; [exact IH1|]); cbn in *; try exact I; try contradiction.
        apply pCols_tail. exact IH2.
      + destruct (normalize_value E (c_type c) v) as [t1 r] eqn:Ev.
        destruct (normalize_value_spec _ _ _ _ Ev) as [Ht1 Hp].
        destruct r as [v'| |p|].
        * destruct (normalize_cols E cs vs) as [t' o'] eqn:En. specialize (IH _ _ _ En). destruct IH as [IH1 IH2].
          destruct o'; inversion H; subst; (split; [apply Forall_app; split; assumption|]); cbn in *;
            try exact I; try contradiction.
          apply pCols_tail. exact IH2.
        * inversion H; subst. split; [exact Ht1 | exact I].
        * inversion H; subst. split; [exact Ht1|]. cbn.
          destruct (Hp p eq_refl) as [Hl|[Hl1 Hl2]]; [left; exact Hl|]. right. split; [exact Hl1|].
          unfold limited_cols. cbn [existsb]. rewrite Hl2. reflexivity.
        * inversion H; subst. split; [exact Ht1 | exact I].
  Qed.

  Lemma normalize_row_spec cols vals t o :
    normalize_row E cols vals = (t, o) -> Forall (ev_le 65535) t /\ out_spec cols o.
  Proof.
    unfold normalize_row. destruct (negb _).
    - intros [= <- <-]. split; [constructor | exact I].
    - apply normalize_cols_spec.
  Qed.

  Lemma Forall_ev_le_bound t bs : Forall (ev_le 65535) t -> Forall (ev_le (bound bs)) t.
  Proof. apply Forall_ev_le_mono. unfold bound. lia. Qed.

  Lemma good_table_insert t vals : good (pCols (t_cols t)) False False (table_insert E t vals).
  Proof.
    intros bs. unfold table_insert.
    destruct (normalize_row E (t_cols t) vals) as [tr o] eqn:En.
    destruct (normalize_row_spec _ _ _ _ En) as [Ht Ho].
    destruct o; split;
      try (intros t0 a0 rest0 H; inversion H; subst; lia);
      try (intros t0 o0 H; inversion H; subst; first [apply Forall_ev_le_bound; exact Ht | exact Ho | exact I]).
  Qed.

  Lemma table_insert_cols t vals bs tr t' r :
    table_insert E t vals bs = (tr, Ok t' r) -> t_cols t' = t_cols t /\ t_name t' = t_name t.
  Proof.
    unfold table_insert. destruct (normalize_row E (t_cols t) vals) as [tr0 o].
    destruct o; intros H; inversion H; subst. split; reflexivity.
  Qed.
End DataGood.

Lemma bind_assoc {A B C} (m : dec A) (f : A -> dec B) (g : B -> dec C) bs :
  bind (bind m f) g bs = bind m (fun x => bind (f x) g) bs.
Proof.
  unfold bind. destruct (m bs) as [t1 o1]. destruct o1 as [a r| | | | | |]; try reflexivity.
  destruct (f a r) as [t2 o2]. destruct o2 as [b r2| | | | | |]; try reflexivity.
  destruct (g b r2) as [t3 o3]. rewrite app_assoc. reflexivity.
Qed.

Lemma limited_map ts : limited ts = existsb limited_cols (map t_cols ts).
Proof. unfold limited. induction ts as [|t ts IH]; cbn; [reflexivity|]. now rewrite IH. Qed.
Lemma map_replace_nth {A B} (f : A -> B) n x (l : list A) y :
  nth_error l n = Some y -> f x = f y -> map f (replace_nth n x l) = map f l.
Proof.
  revert n. induction l as [|z l IH]; intros n; destruct n; cbn; try discriminate.
  - intros [= ->] ->. reflexivity.
  - intros H1 H2. f_equal. apply IH; assumption.
Qed.

Lemma nth_error_limited ts i t : nth_error ts i = Some t -> limited_cols (t_cols t) = true -> limited ts = true.
Proof.
  intros Hn Hl. unfold limited. apply existsb_exists. exists t. split; [|exact Hl].
  eapply nth_error_In; eauto.
Qed.
Section DataGood2.
  Variable E : env.

  Lemma good_read_rows t n :
    good (pCols E (t_cols t)) False False (read_rows E t n).
  Proof.
    unfold read_rows.
    destruct (Z.eqb_spec (Z.of_nat (length (t_cols t))) 0) as [Hz|Hnz].
    - destruct (n <=? 0); [apply good_ret | apply good_fail].
    - set (ncols := Z.of_nat (length (t_cols t))) in *.
      assert (Hpos : 0 < ncols) by (unfold ncols in *; lia).
      assert (Gv : good (pCols E (t_cols t)) False False (read_value E)).
      { eapply good_weaken; [| | |apply (good_read_value E False)]; [intros p Hp; left; exact Hp | tauto | tauto]. }
      apply (good_iter_inv _ _ _ (fun t' => t_cols t' = t_cols t)).
      + intros t' Ht'. apply good_bind; [apply good_loop; [exact Gv | apply (strict_read_value E False)]|].
        intros vals. eapply good_weaken; [| | |apply good_table_insert]; [rewrite Ht'; auto | tauto | tauto].
      + intros t' Ht'. apply (strict_bind_l (pCols E (t_cols t)) False False).
        * apply (strict_loop_pos (pCols E (t_cols t)) False False);
            [exact Hpos | exact Gv | apply (strict_read_value E False)].
        * intros vals. eapply good_weaken; [| | |apply good_table_insert]; [rewrite Ht'; auto | tauto | tauto].
      + intros t' bs tr t'' r Ht' Hb.
        destruct (loop ncols (read_value E) bs) as [t1 o1] eqn:El. rewrite (bind_run _ _ _ _ _ El) in Hb.
        destruct o1 as [vals r1| | | | | |]; try (inversion Hb; fail).
        destruct (table_insert E t' vals r1) as [t2 o2] eqn:Ei. inversion Hb; subst.
        apply table_insert_cols in Ei. destruct Ei as [Ec _]. congruence.
      + reflexivity.
  Qed.

  Lemma read_rows_cols t n bs tr t' r : read_rows E t n bs = (tr, Ok t' r) -> t_cols t' = t_cols t.
  Proof.
    unfold read_rows. destruct (Z.of_nat (length (t_cols t)) =? 0).
    - destruct (n <=? 0); intros H; inversion H; reflexivity.
    - unfold iter. apply (iter_fuel_inv (fun t' => t_cols t' = t_cols t)); [|reflexivity].
      intros t0 bs0 tr0 t1 r0 Ht0 Hb.
      destruct (loop (Z.of_nat (length (t_cols t))) (read_value E) bs0) as [t1' o1] eqn:El.
      rewrite (bind_run _ _ _ _ _ El) in Hb.
      destruct o1 as [vals r1| | | | | |]; try (inversion Hb; fail).
      destruct (table_insert E t0 vals r1) as [t2 o2] eqn:Ei. inversion Hb; subst.
      apply table_insert_cols in Ei. destruct Ei as [Ec _]. congruence.
  Qed.

  Lemma good_read_table_data d :
    good (pTabs E (d_tables d)) False False (read_table_data E d)
    /\ strict (read_table_data E d).
  Proof.
    assert (Gk : forall name row_count,
      good (pTabs E (d_tables d)) False False
        (match get_table_idx (d_tables d) name with
         | POk i =>
             match nth_error (d_tables d) i with
             | Some t => t' <- read_rows E t row_count ;; ret (set_tables d (replace_nth i t' (d_tables d)))
             | None => fail ETableNotFound
             end
         | PErr => fail ETableNotFound
         | _ => stop Unmodelled
         end)).
    { intros name row_count. destruct (get_table_idx (d_tables d) name) as [i| | |];
        try apply good_fail; try apply good_unmodelled.
      destruct (nth_error (d_tables d) i) as [t|] eqn:En; [|apply good_fail].
      apply good_bind; [|intros; apply good_ret].
      eapply good_weaken; [| | |apply good_read_rows]; [|tauto|tauto].
      intros p [Hp|[Hp Hl]]; [left; exact Hp|]. right. split; [exact Hp|]. eapply nth_error_limited; eauto. }
    unfold read_table_data. split.
    - apply good_bind; [apply good_read_string|]. intros name.
      apply good_bind; [apply good_read_u64|]. intros rc. apply Gk.
    - apply (strict_bind_l (pTabs E (d_tables d)) False False);
        [apply (strict_read_string (pT E) False False)|].
      intros name. apply good_bind; [apply good_read_u64|]. intros rc. apply Gk.
  Qed.

  Lemma read_table_data_cols d bs tr d' r :
    read_table_data E d bs = (tr, Ok d' r) -> map t_cols (d_tables d') = map t_cols (d_tables d).
  Proof.
    unfold read_table_data. intros H.
    destruct (read_string bs) as [t1 o1] eqn:E1. rewrite (bind_run _ _ _ _ _ E1) in H.
    destruct o1 as [name r1| | | | | |]; try (inversion H; fail).
    destruct (read_u64 r1) as [t2 o2] eqn:E2.
    match type of H with (let '(_, _) := ?X in _) = _ => destruct X as [t3 o3] eqn:E3 end.
    rewrite (bind_run _ _ _ _ _ E2) in E3.
    destruct o2 as [rc r2| | | | | |]; try (inversion E3; subst; inversion H; fail).
    destruct (get_table_idx (d_tables d) name) as [i| | |];
      try (unfold fail, stop in E3; inversion E3; subst; inversion H; fail).
    destruct (nth_error (d_tables d) i) as [t|] eqn:En;
      [|unfold fail in E3; inversion E3; subst; inversion H; fail].
    destruct (read_rows E t rc r2) as [t4 o4] eqn:E4.
    rewrite (bind_run _ _ _ _ _ E4) in E3.
    destruct o4 as [t' r4| | | | | |]; try (inversion E3; subst; inversion H; fail).
    unfold ret in E3. inversion E3; subst. inversion H; subst. cbn [d_tables set_tables].
    apply (map_replace_nth t_cols _ _ _ t En). eapply read_rows_cols; eauto.
  Qed.

  Lemma pure_rebuild_indexes d : pure_out (rebuild_indexes d).
  Proof.
    unfold rebuild_indexes.
    assert (H : pure_out (rebuild_all d (d_indexes d))).
    { induction (d_indexes d) as [|i l IH]; cbn [rebuild_all]; [exact I|].
      unfold rebuild_index. destruct (index_table_idx d (i_table i)); [|exact I].
      destruct (nth_error (d_tables d) n); [|exact I].
      destruct (columns_idx (t_cols t) (i_cols i)); try exact I.
      destruct (index_unique_ok (i_unique i) (t_rows t) a); try exact I.
      destruct (rebuild_all d l); cbn in *; auto. }
    destruct (rebuild_all d (d_indexes d)); cbn in *; auto.
  Qed.

  Lemma good_read_data d :
    good (pTabs E (d_tables d)) False False (read_data E d).
  Proof.
    unfold read_data. apply good_bind; [|intros d'; apply good_lift, pure_rebuild_indexes].
    apply (good_iter_inv _ _ _ (fun d' => map t_cols (d_tables d') = map t_cols (d_tables d))).
    - intros d' Hd'. eapply good_weaken; [| | |apply (proj1 (good_read_table_data d'))]; [|tauto|tauto].
      intros p [Hp|[Hp Hl]]; [left; exact Hp|]. right. split; [exact Hp|].
      rewrite limited_map in *. rewrite <- Hd'. exact Hl.
    - intros d' _. apply (proj2 (good_read_table_data d')).
    - intros d1 bs t d2 r Hd1 Hb. apply read_table_data_cols in Hb. congruence.
    - reflexivity.
  Qed.
End DataGood2.

(** * the whole loader *)
Definition catalog_phase (E : env) : dec db := read_header ;;; read_catalog E.

Lemma load_split E bs : load_binary E bs = bind (catalog_phase E) (read_data E) bs.
Proof. unfold load_binary, catalog_phase. symmetry. apply bind_assoc. Qed.

(** the catalog phase on inputs shorter than [F]: never [Hang]; panics only from temporal parsers;
    [StackOverflow] only if it is tolerated or the stack is too small for [F] nesting levels *)
Theorem catalog_phase_good_lt E allowS F :
  allowS \/ F <= stack_limit E \/ bin_max_expr_depth + 1 <= stack_limit E ->
  good_lt (pT E) False allowS F (catalog_phase E).
Proof.
  intros HF. unfold catalog_phase. apply good_lt_bind; [apply good_lt_of_good, good_read_header|].
  intros _. apply good_read_catalog. exact HF.
Qed.

Theorem catalog_phase_good E : good (pT E) False True (catalog_phase E).
Proof. apply good_of_good_lt. intros F. apply catalog_phase_good_lt. left. exact I. Qed.

Lemma load_good_lt E allowS F :
  allowS \/ F <= stack_limit E \/ bin_max_expr_depth + 1 <= stack_limit E ->
  good_lt (pData E) False allowS F (load_binary E).
Proof.
  intros HF bs Hb.
  assert (G : good_at (pData E) False allowS (bind (catalog_phase E) (read_data E)) bs).
  { apply good_at_bind.
    - pose proof (catalog_phase_good_lt E allowS F HF bs Hb) as [g1 g2 g3]. split; auto.
      intros t o Ho. specialize (g3 t o Ho). destruct o; cbn in *; auto. right. exact g3.
    - intros t d r _. eapply good_weaken; [| | |apply good_read_data]; [|tauto|tauto].
      intros p [Hp|[-> _]]; [right; exact Hp | left; reflexivity]. }
  destruct G as [g1 g2 g3]. split; intros *; rewrite load_split; [apply g1 | apply g2 | apply g3].
Qed.

Theorem load_good E : good (pData E) False True (load_binary E).
Proof. apply good_of_good_lt. intros F. apply load_good_lt. left. exact I. Qed.

(** a file shorter than the nesting depth the stack can hold cannot overflow it *)
Theorem no_stack_overflow_when_shallow E bs : blen bs < stack_limit E -> load_result E bs <> StackOverflow.
Proof.
  intros Hb Hr. unfold load_result in Hr. destruct (load_binary E bs) as [t o] eqn:El. cbn [snd] in Hr. subst o.
  assert (HF : False \/ blen bs + 1 <= stack_limit E \/ bin_max_expr_depth + 1 <= stack_limit E) by (right; left; lia).
  exact (g_tol _ _ _ _ _ (load_good_lt E False (blen bs + 1) HF bs ltac:(lia)) _ _ El).
Qed.

(** with the depth guard: a stack that holds one frame more than the guard admits is never overflowed,
    by ANY byte string *)
Theorem no_stack_overflow E bs : bin_max_expr_depth + 1 <= stack_limit E -> load_result E bs <> StackOverflow.
Proof.
  intros Hs Hr. unfold load_result in Hr. destruct (load_binary E bs) as [t o] eqn:El. cbn [snd] in Hr. subst o.
  assert (HF : False \/ blen bs + 1 <= stack_limit E \/ bin_max_expr_depth + 1 <= stack_limit E) by (right; right; exact Hs).
  exact (g_tol _ _ _ _ _ (load_good_lt E False (blen bs + 1) HF bs ltac:(lia)) _ _ El).
Qed.

(** no byte string makes the loop fuel of the model run out: every count-driven loop of the loader
    terminates because each iteration consumes input *)
Theorem load_never_out_of_fuel E bs : load_result E bs <> OutOfFuel.
Proof.
  unfold load_result. destruct (load_binary E bs) as [t o] eqn:El. cbn [snd]. intros ->.
  exact (g_tol _ _ _ _ _ (load_good E bs) _ _ El).
Qed.

(** ... and no byte string makes it spin: the only input-free loop (rows of a table without columns)
    is rejected *)
Theorem decode_never_hangs E bs : load_result E bs <> Hang.
Proof.
  unfold load_result. destruct (load_binary E bs) as [t o] eqn:El. cbn [snd]. intros ->.
  exact (g_tol _ _ _ _ _ (load_good E bs) _ _ El).
Qed.

(** every buffer the loader fills is within max(file size, 65535), whatever the outcome *)
Theorem alloc_bounded E bs : Forall (ev_le (bound bs)) (load_trace E bs).
Proof.
  unfold load_trace. destruct (load_binary E bs) as [t o] eqn:El. cbn [fst].
  exact (g_alloc _ _ _ _ _ (load_good E bs) _ _ El).
Qed.

(** which panics can come out of [load_binary], and from where *)
Theorem load_panic_classified E bs t p :
  load_binary E bs = (t, Panic p) ->
  pT E p \/ (p = PFmtWidth /\
             exists t1 d r, catalog_phase E bs = (t1, Ok d r) /\ limited (d_tables d) = true).
Proof.
  rewrite load_split. intros H.
  destruct (catalog_phase E bs) as [t1 o1] eqn:Ec. rewrite (bind_run _ _ _ _ _ Ec) in H.
  destruct o1 as [d r| | | | | |]; try (inversion H; fail).
  - destruct (read_data E d r) as [t2 o2] eqn:Ed. inversion H; subst.
    destruct (g_tol _ _ _ _ _ (good_read_data E d r) _ _ Ed) as [Hp|[Hp Hl]]; [left; exact Hp|].
    right. split; [exact Hp|]. exists t1, d, r. split; [reflexivity | exact Hl].
  - inversion H; subst. left. exact (g_tol _ _ _ _ _ (catalog_phase_good E bs) _ _ Ec).
Qed.

(** the side-conditioned totality statement: with total temporal parsers, a file whose catalog has
    no CHAR(n) column never panics *)
Theorem decode_total E bs :
  ~ temporal_panics E ->
  (forall t1 d r, catalog_phase E bs = (t1, Ok d r) -> limited (d_tables d) = false) ->
  forall p, load_result E bs <> Panic p.
Proof.
  intros HT Hl p Hr. unfold load_result in Hr. destruct (load_binary E bs) as [t o] eqn:El. cbn [snd] in Hr. subst o.
  destruct (load_panic_classified _ _ _ _ El) as [[_ Hp]|[_ (t1 & d & r & Hc & Hlim)]]; [exact (HT Hp)|].
  rewrite (Hl _ _ _ Hc) in Hlim. discriminate.
Qed.

(** * witnesses: the unconditional no-panic statement is false of the faithful model *)
Definition E0 : env := canon_env 1000 65536.

(** [VARCHAR(1)] column, value "e-acute" (2 bytes): used to panic on [&s[..1]] inside [Table::insert];
    the value is now cut at the last character boundary at or below byte 1 (the empty string) *)
Definition file_varchar_slice : bytes :=
  write_header ++ w_u32 0 ++ w_u32 0 ++ w_u32 1
  ++ w_string (lit "T") ++ w_u32 1 ++ w_string (lit "A") ++ w_string (lit "VARCHAR(1)") ++ w_bool true
  ++ w_u32 0 ++ w_u32 0
  ++ w_string (lit "T") ++ w_u64 1 ++ [bin_tag_Varchar] ++ w_string [195; 169].

Lemma varchar_cut_on_boundary :
  load_result E0 file_varchar_slice
  = Ok (mkDb [] [] [mkTable (lit "T") [mkCol (lit "A") (TVarchar (Some 1)) true] [[BV (VVarchar [])]] 0] [] []) [].
Proof. vm_compute. reflexivity. Qed.

(** [CHAR(70000)] column and a shorter value: [format!("{:width$}")] with width > u16::MAX panics *)
Definition file_char_width : bytes :=
  write_header ++ w_u32 0 ++ w_u32 0 ++ w_u32 1
  ++ w_string (lit "T") ++ w_u32 1 ++ w_string (lit "A") ++ w_string (lit "CHAR(70000)") ++ w_bool true
  ++ w_u32 0 ++ w_u32 0
  ++ w_string (lit "T") ++ w_u64 1 ++ [bin_tag_Character] ++ w_string (lit "x").

Lemma decode_total_refuted_width : load_result E0 file_char_width = Panic PFmtWidth.
Proof. vm_compute. reflexivity. Qed.

(** the two files that used to defeat the loader are now rejected cleanly:
    a table without columns claiming 2^64-1 rows, and a 4 GiB string prefix in a 24-byte file *)
Definition file_zero_cols : bytes :=
  write_header ++ w_u32 0 ++ w_u32 0 ++ w_u32 1
  ++ w_string (lit "Z") ++ w_u32 0
  ++ w_u32 0 ++ w_u32 0
  ++ w_string (lit "Z") ++ w_u64 18446744073709551615.

Lemma zero_cols_rejected : load_result E0 file_zero_cols = Err (ECatalog 7) /\ blen file_zero_cols = 58.
Proof. vm_compute. split; reflexivity. Qed.

Definition file_big_prefix : bytes := write_header ++ w_u32 1 ++ w_u32 4294967295.

Lemma big_prefix_rejected :
  blen file_big_prefix = 24 /\ load_trace E0 file_big_prefix = [Alloc 0]
  /\ load_result E0 file_big_prefix = Err EEof.
Proof. vm_compute. repeat split; reflexivity. Qed.

(** satisfiability of the hypotheses of [decode_total]: a file with a plain INTEGER column *)
Definition file_plain : bytes :=
  write_header ++ w_u32 0 ++ w_u32 0 ++ w_u32 1
  ++ w_string (lit "T") ++ w_u32 1 ++ w_string (lit "A") ++ w_string (lit "INTEGER") ++ w_bool true
  ++ w_u32 0 ++ w_u32 0
  ++ w_string (lit "T") ++ w_u64 1 ++ [bin_tag_Integer] ++ w_i64 5.
Example file_plain_loads :
  load_result E0 file_plain
  = Ok (mkDb [] [] [mkTable (lit "T") [mkCol (lit "A") TInteger true] [[BV (VInteger 5)]] 0] [] []) [].
Proof. vm_compute. reflexivity. Qed.

(** * header rejection *)
Lemma skip_read_exact n r :
  skip (read_exact n) r = if blen r <? n then ([], Err EEof) else ([], Ok tt (skipn (Z.to_nat n) r)).
Proof. unfold skip, bind, read_exact, ret. destruct (blen r <? n); reflexivity. Qed.

Lemma blen_skipn n (bs : bytes) : 0 <= n <= blen bs -> blen (skipn (Z.to_nat n) bs) = blen bs - n.
Proof. intros H. unfold blen in *. rewrite skipn_length. lia. Qed.

Lemma read_header_short bs : blen bs < 16 -> exists e, read_header bs = ([], Err e).
Proof.
  intros Hl. unfold read_header. change (nth 0 bin_header_read_sizes 0) with 5.
  change (nth 1 bin_header_read_sizes 0) with 1. change (nth 2 bin_header_read_sizes 0) with 1.
  change (nth 3 bin_header_read_sizes 0) with 9.
  destruct (Z_lt_le_dec (blen bs) 5) as [H5|H5].
  { exists EEof. apply read_exact_fail_run. exact H5. }
  assert (E1 : read_exact 5 bs = ([], Ok (firstn (Z.to_nat 5) bs) (skipn (Z.to_nat 5) bs))).
  { unfold read_exact. destruct (Z.ltb_spec (blen bs) 5); [lia | reflexivity]. }
  rewrite (bind_ok_nil _ _ _ _ _ E1).
  destruct (negb _); [eexists; reflexivity|].
  set (r1 := skipn (Z.to_nat 5) bs).
  assert (Hr1 : blen r1 = blen bs - 5) by (apply blen_skipn; lia).
  destruct (Z_lt_le_dec (blen r1) 1) as [H1|H1].
  { exists EEof. apply read_exact_fail_run. exact H1. }
  assert (E2 : read_exact 1 r1 = ([], Ok (firstn (Z.to_nat 1) r1) (skipn (Z.to_nat 1) r1))).
  { unfold read_exact. destruct (Z.ltb_spec (blen r1) 1); [lia | reflexivity]. }
  rewrite (bind_ok_nil _ _ _ _ _ E2).
  destruct (version_rejected _); [eexists; reflexivity|].
  set (r2 := skipn (Z.to_nat 1) r1).
  assert (Hr2 : blen r2 = blen r1 - 1) by (apply blen_skipn; lia).
  destruct (Z_lt_le_dec (blen r2) 1) as [H2|H2].
  { exists EEof. unfold bind. rewrite skip_read_exact. destruct (Z.ltb_spec (blen r2) 1); [reflexivity | lia]. }
  assert (E3 : skip (read_exact 1) r2 = ([], Ok tt (skipn (Z.to_nat 1) r2))).
  { rewrite skip_read_exact. destruct (Z.ltb_spec (blen r2) 1); [lia | reflexivity]. }
  rewrite (bind_ok_nil _ _ _ _ _ E3).
  set (r3 := skipn (Z.to_nat 1) r2).
  assert (Hr3 : blen r3 = blen r2 - 1) by (apply blen_skipn; lia).
  exists EEof. rewrite skip_read_exact. destruct (Z.ltb_spec (blen r3) 9); [reflexivity | lia].
Qed.

(** a file shorter than the 16-byte header is rejected without any allocation *)
Theorem truncated_header_rejected E bs : blen bs < 16 -> exists e, load_binary E bs = ([], Err e).
Proof.
  intros Hl. destruct (read_header_short bs Hl) as [e He]. exists e.
  unfold load_binary. rewrite (bind_run _ _ _ _ _ He). reflexivity.
Qed.

Lemma bytes_eqb_eq a b : bytes_eqb a b = true -> a = b.
Proof.
  revert b. induction a as [|x a IH]; intros [|y b]; cbn; try discriminate; [reflexivity|].
  intros H. apply andb_true_iff in H. destruct H as [H1 H2]. apply Z.eqb_eq in H1. subst. f_equal. auto.
Qed.
Lemma bytes_eqb_refl a : bytes_eqb a a = true.
Proof. induction a as [|x a IH]; cbn; [reflexivity|]. now rewrite Z.eqb_refl, IH. Qed.

Theorem bad_magic_rejected E bs :
  5 <= blen bs -> firstn 5 bs <> bin_magic -> load_binary E bs = ([], Err EMagic).
Proof.
  intros Hl Hm.
  assert (E1 : read_exact 5 bs = ([], Ok (firstn 5 bs) (skipn 5 bs))).
  { unfold read_exact. destruct (Z.ltb_spec (blen bs) 5); [lia | reflexivity]. }
  assert (Hh : read_header bs = ([], Err EMagic)).
  { unfold read_header. change (nth 0 bin_header_read_sizes 0) with 5.
    rewrite (bind_ok_nil _ _ _ _ _ E1).
    destruct (bytes_eqb (firstn 5 bs) bin_magic) eqn:Eb; [|reflexivity].
    exfalso. apply Hm. apply bytes_eqb_eq. exact Eb. }
  unfold load_binary. rewrite (bind_run _ _ _ _ _ Hh). reflexivity.
Qed.

(** a version byte above the current VERSION is rejected *)
Theorem future_version_rejected E v rest :
  bin_version < v -> load_binary E (bin_magic ++ v :: rest) = ([], Err EVersion).
Proof.
  intros Hv.
  assert (E1 : read_exact 5 (bin_magic ++ v :: rest) = ([], Ok bin_magic (v :: rest))).
  { apply (read_exact_app_n 5 bin_magic). reflexivity. }
  assert (E2 : read_exact 1 (v :: rest) = ([], Ok [v] rest)).
  { apply (read_exact_app_n 1 [v] rest). reflexivity. }
  assert (Hh : read_header (bin_magic ++ v :: rest) = ([], Err EVersion)).
  { unfold read_header. change (nth 0 bin_header_read_sizes 0) with 5. change (nth 1 bin_header_read_sizes 0) with 1.
    rewrite (bind_ok_nil _ _ _ _ _ E1). rewrite bytes_eqb_refl. cbv iota. unfold negb at 1. cbv iota.
    rewrite (bind_ok_nil _ _ _ _ _ E2). cbn [le_val]. replace (v + 256 * 0) with v by lia.
    unfold version_rejected. change (bin_version_reject_op =? 0) with true. cbv iota.
    destruct (Z.ltb_spec bin_version v); [reflexivity | lia]. }
  unfold load_binary. rewrite (bind_run _ _ _ _ _ Hh). reflexivity.
Qed.

(** * deep nesting is rejected by the depth guard (it used to overflow the stack) *)
Lemma snd_bind_ok {A B} (m : dec A) (f : A -> dec B) bs t1 a r :
  m bs = (t1, Ok a r) -> snd (bind m f bs) = snd (f a r).
Proof. intros H. rewrite (bind_ok _ _ _ _ _ _ H). destruct (f a r). reflexivity. Qed.

Lemma snd_bind_stop {A B} (m : dec A) (f : A -> dec B) bs t1 o :
  m bs = (t1, o) -> is_ok o = false -> snd (bind m f bs) = cast_out o.
Proof. intros H Hn. rewrite (bind_run _ _ _ _ _ H). destruct o; try reflexivity. discriminate. Qed.

(** [k] nested unary operators: tag UnaryOp, operator Not *)
Fixpoint nest (k : nat) : bytes :=
  match k with O => [] | S k' => bin_expr_UnaryOp :: 0 :: nest k' end.

Lemma nest_length k : length (nest k) = (2 * k)%nat.
Proof. induction k; cbn [nest length]; lia. Qed.

Lemma nest_rejected E : forall k fuel depth rest,
  (k <= fuel)%nat -> bin_max_expr_depth + 1 <= stack_limit E -> depth <= bin_max_expr_depth + 1 ->
  bin_max_expr_depth < depth + Z.of_nat k ->
  snd (read_expr E fuel depth (nest k ++ rest)) = Err EDepth.
Proof.
  induction k as [|k IH]; intros fuel depth rest Hf Hs Hd Hk.
  - destruct fuel; cbn [read_expr]; destruct (Z.ltb_spec (stack_limit E) depth); try lia;
      destruct (Z.ltb_spec bin_max_expr_depth depth); try reflexivity; lia.
  - destruct fuel as [|f]; [lia|]. cbn [read_expr].
    destruct (Z.ltb_spec (stack_limit E) depth); [lia|].
    destruct (Z.ltb_spec bin_max_expr_depth depth); [reflexivity|].
    cbn [nest app].
    rewrite (snd_bind_ok _ _ _ _ _ _ (read_u8_cons bin_expr_UnaryOp (0 :: nest k ++ rest))).
    change (bin_expr_UnaryOp =? bin_expr_Literal) with false.
    change (bin_expr_UnaryOp =? bin_expr_ColumnRef) with false.
    change (bin_expr_UnaryOp =? bin_expr_BinaryOp) with false.
    change (bin_expr_UnaryOp =? bin_expr_UnaryOp) with true. cbv iota.
    assert (Hen : read_enum 11 bin_unop_tags (0 :: nest k ++ rest) = ([], Ok tt (nest k ++ rest))).
    { unfold read_enum. rewrite (bind_ok_nil _ _ _ _ _ (read_u8_cons 0 (nest k ++ rest))). reflexivity. }
    rewrite (snd_bind_ok _ _ _ _ _ _ Hen).
    apply IH; lia.
Qed.

(** the file: empty catalog, one trigger (empty names, BEFORE INSERT FOR EACH ROW) with a WHEN
    expression made of [k] nested NOTs *)
Definition overflow_file (k : nat) : bytes :=
  write_header ++ w_u32 0 ++ w_u32 0 ++ w_u32 0 ++ w_u32 0 ++ w_u32 1
  ++ w_string [] ++ w_string [] ++ [0] ++ [0] ++ [0] ++ w_bool true ++ nest k.

Lemma loop_zero {A} (item : dec A) bs : loop 0 item bs = ([], Ok [] bs).
Proof. reflexivity. Qed.
Lemma iter_zero {St} (body : St -> dec St) s bs : iter 0 body s bs = ([], Ok s bs).
Proof. reflexivity. Qed.

Lemma read_header_ok rest : read_header (write_header ++ rest) = ([], Ok tt rest).
Proof.
  unfold read_header.
  change (nth 0 bin_header_read_sizes 0) with 5. change (nth 1 bin_header_read_sizes 0) with 1.
  change (nth 2 bin_header_read_sizes 0) with 1. change (nth 3 bin_header_read_sizes 0) with 9.
  set (r3 := [0; 0; 0; 0; 0; 0; 0; 0; 0] ++ rest).
  set (r2 := [0] ++ r3). set (r1 := [bin_version] ++ r2).
  change (write_header ++ rest) with (bin_magic ++ r1).
  assert (E1 : read_exact 5 (bin_magic ++ r1) = ([], Ok bin_magic r1))
    by (apply (read_exact_app_n 5 bin_magic); reflexivity).
  rewrite (bind_ok_nil _ _ _ _ _ E1).
  rewrite bytes_eqb_refl. change (negb true) with false. cbv iota.
  assert (E2 : read_exact 1 r1 = ([], Ok [bin_version] r2))
    by (apply (read_exact_app_n 1 [bin_version]); reflexivity).
  rewrite (bind_ok_nil _ _ _ _ _ E2).
  change (version_rejected (le_val [bin_version])) with false. cbv iota.
  assert (E3 : skip (read_exact 1) r2 = ([], Ok tt r3)).
  { unfold skip. assert (E : read_exact 1 r2 = ([], Ok [0] r3)) by (apply (read_exact_app_n 1 [0]); reflexivity).
    rewrite (bind_ok_nil _ _ _ _ _ E). reflexivity. }
  rewrite (bind_ok_nil _ _ _ _ _ E3).
  unfold skip.
  assert (E4 : read_exact 9 r3 = ([], Ok [0; 0; 0; 0; 0; 0; 0; 0; 0] rest))
    by (apply (read_exact_app_n 9 [0; 0; 0; 0; 0; 0; 0; 0; 0]); reflexivity).
  rewrite (bind_ok_nil _ _ _ _ _ E4). reflexivity.
Qed.

Lemma skip_ok {A} (m : dec A) bs t a r : m bs = (t, Ok a r) -> skip m bs = (t ++ [], Ok tt r).
Proof. intros H. unfold skip. rewrite (bind_ok _ _ _ _ _ _ H). reflexivity. Qed.

Lemma read_enum_cons what tags b rest :
  existsb (Z.eqb b) tags = true -> read_enum what tags (b :: rest) = ([], Ok tt rest).
Proof. intros H. unfold read_enum. rewrite (bind_ok_nil _ _ _ _ _ (read_u8_cons b rest)), H. reflexivity. Qed.

Lemma lift_ok {A} (a : A) r bs : lift (Ok a r) bs = ([], Ok a bs).
Proof. reflexivity. Qed.

Lemma empty_string_read rest : read_string (w_string [] ++ rest) = ([Alloc 0], Ok [] rest).
Proof. apply (string_roundtrip [] rest); [reflexivity | vm_compute; reflexivity]. Qed.

Lemma u32_range_0 : 0 <= 0 < 2 ^ 32. Proof. split; [lia | reflexivity]. Qed.
Lemma u32_range_1 : 0 <= 1 < 2 ^ 32. Proof. split; [lia | reflexivity]. Qed.

Lemma trigger_rejected E k rest :
  bin_max_expr_depth + 1 <= stack_limit E -> bin_max_expr_depth < 1 + Z.of_nat k ->
  snd (read_trigger E (w_string [] ++ w_string [] ++ [0] ++ [0] ++ [0] ++ w_bool true ++ nest k ++ rest))
  = Err EDepth.
Proof.
  intros Hs Hk. unfold read_trigger.
  rewrite (snd_bind_ok _ _ _ _ _ _ (empty_string_read _)).
  rewrite (snd_bind_ok _ _ _ _ _ _ (skip_ok _ _ _ _ _ (empty_string_read _))).
  cbn [app].
  rewrite (snd_bind_ok _ _ _ _ _ _ (read_enum_cons 1 bin_timing_tags 0 _ eq_refl)).
  assert (Eev : (ev <- read_u8 ;;
                 if ev =? 3 then (cn <- read_u32 ;; skip (loop cn read_string))
                 else if existsb (Z.eqb ev) bin_event_tags then ret tt
                 else fail (EEnum 2 ev)) (0 :: 0 :: w_bool true ++ nest k ++ rest)
                = ([], Ok tt (0 :: w_bool true ++ nest k ++ rest))).
  { rewrite (bind_ok_nil _ _ _ _ _ (read_u8_cons 0 _)). reflexivity. }
  rewrite (snd_bind_ok _ _ _ _ _ _ Eev).
  rewrite (snd_bind_ok _ _ _ _ _ _ (read_enum_cons 3 bin_granularity_tags 0 _ eq_refl)).
  (* opt (read_expression E) on  true :: nest k ++ rest *)
  assert (Eopt : snd (opt (read_expression E) (w_bool true ++ nest k ++ rest)) = Err EDepth).
  { unfold opt. rewrite (snd_bind_ok _ _ _ _ _ _ (bool_roundtrip true _)). unfold when_, read_expression.
    apply nest_rejected; [| exact Hs | change bin_max_expr_depth with 128; lia | exact Hk].
    rewrite app_length, nest_length. lia. }
  destruct (opt (read_expression E) (w_bool true ++ nest k ++ rest)) as [t o] eqn:Eo. cbn [snd] in Eopt. subst o.
  rewrite (snd_bind_stop _ _ _ _ _ Eo eq_refl). reflexivity.
Qed.

(** for every nesting depth beyond the guard, on every stack that holds one frame more than the guard
    admits: the file is rejected with an error *)
Theorem deep_nesting_rejected E k :
  bin_max_expr_depth + 1 <= stack_limit E -> bin_max_expr_depth <= Z.of_nat k ->
  load_result E (overflow_file k) = Err EDepth.
Proof.
  intros Hs Hk.
  unfold load_result, load_binary, overflow_file.
  rewrite (snd_bind_ok _ _ _ _ _ _ (read_header_ok _)).
  assert (Hc : snd (read_catalog E (w_u32 0 ++ w_u32 0 ++ w_u32 0 ++ w_u32 0 ++ w_u32 1
                 ++ w_string [] ++ w_string [] ++ [0] ++ [0] ++ [0] ++ w_bool true ++ nest k)) = Err EDepth).
  { unfold read_catalog.
    rewrite (snd_bind_ok _ _ _ _ _ _ (u32_roundtrip 0 _ u32_range_0)).
    rewrite (snd_bind_ok _ _ _ _ _ _ (iter_zero _ _ _)).
    rewrite (snd_bind_ok _ _ _ _ _ _ (u32_roundtrip 0 _ u32_range_0)).
    rewrite (snd_bind_ok _ _ _ _ _ _ (iter_zero _ _ _)).
    rewrite (snd_bind_ok _ _ _ _ _ _ (u32_roundtrip 0 _ u32_range_0)).
    rewrite (snd_bind_ok _ _ _ _ _ _ (loop_zero _ _)).
    cbn [fold_out]. rewrite (snd_bind_ok _ _ _ _ _ _ (lift_ok _ _ _)).
    rewrite (snd_bind_ok _ _ _ _ _ _ (u32_roundtrip 0 _ u32_range_0)).
    rewrite (snd_bind_ok _ _ _ _ _ _ (loop_zero _ _)).
    cbn [fold_out]. rewrite (snd_bind_ok _ _ _ _ _ _ (lift_ok _ _ _)).
    rewrite (snd_bind_ok _ _ _ _ _ _ (u32_roundtrip 1 _ u32_range_1)).
    match goal with |- snd (bind (iter 1 ?body []) _ ?bs) = _ =>
      assert (Hit : snd (iter 1 body [] bs) = Err EDepth) end.
    { unfold iter. cbn [iter_fuel]. change (1 <=? 0) with false. cbv iota.
      pose proof (trigger_rejected E k [] Hs ltac:(lia)) as Ht.
      rewrite app_nil_r in Ht.
      destruct (read_trigger E (w_string [] ++ w_string [] ++ [0] ++ [0] ++ [0] ++ w_bool true ++ nest k))
        as [tt0 ot] eqn:Etr. cbn [snd] in Ht. subst ot.
      match goal with |- snd (bind (bind ?m ?f) ?g ?b) = _ => rewrite (bind_assoc m f g b) end.
      rewrite (snd_bind_stop _ _ _ _ _ Etr eq_refl). reflexivity. }
    match goal with |- snd (bind ?m ?f ?bs) = _ => destruct (m bs) as [ti oi] eqn:Ei end.
    cbn [snd] in Hit. subst oi. rewrite (snd_bind_stop _ _ _ _ _ Ei eq_refl). reflexivity. }
  match goal with |- snd (bind ?m ?f ?bs) = _ => destruct (m bs) as [tc oc] eqn:Ec end.
  cbn [snd] in Hc. subst oc. rewrite (snd_bind_stop _ _ _ _ _ Ec eq_refl). reflexivity.
Qed.

Example deep_nesting_rejected_example : load_result E0 (overflow_file 5000) = Err EDepth.
Proof. apply deep_nesting_rejected; [vm_compute; discriminate | vm_compute; discriminate]. Qed.

(** * index contents after a load *)
(** the database with every user index (re)built from the rows of its table: what
    [Database::create_index] computes, and what the loader's final rebuild leaves *)
Definition with_indexes_built (d : db) : db :=
  match rebuild_indexes d with Ok d' _ => d' | _ => d end.

(** table T(A INTEGER) with rows 1, 2, 3 and index IA on A *)
Definition db_indexed : db :=
  with_indexes_built
    (mkDb [] [] [mkTable (lit "T") [mkCol (lit "A") TInteger true]
                   [[BV (VInteger 1)]; [BV (VInteger 2)]; [BV (VInteger 3)]] 0]
          [mkIndex (lit "IA") (lit "T") false [(lit "A", 0)] []] []).

(** the former witness of the empty-index defect now round-trips INCLUDING the index contents *)
Lemma file_roundtrip_indexed :
  map (fun i => length (i_entries i)) (d_indexes db_indexed) = [3%nat]
  /\ load_result E0 (save_binary db_indexed) = Ok db_indexed [].
Proof. split; vm_compute; reflexivity. Qed.
