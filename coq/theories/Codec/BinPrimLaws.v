(** Laws of the primitive codec (BinPrim.v): little-endian round trips, and the compositional
    invariants every decoder of the model satisfies ([good]): input is only ever consumed, loop fuel
    never runs out, every buffer is bounded by the input that was actually there. *)
From Coq Require Import String List ZArith Bool Lia.
From VibeSQL Require Import Value.SqlValue Codec.BinUtf8 Codec.BinPrim.
Import ListNotations.
Open Scope Z_scope.

(** * little endian *)
Lemma le_bytes_length n z : length (le_bytes n z) = n.
Proof. revert z; induction n as [|n IH]; intros z; cbn [le_bytes length]; [reflexivity|]. now rewrite IH. Qed.

Lemma le_val_le_bytes n z : le_val (le_bytes n z) = z mod 2 ^ (8 * Z.of_nat n).
Proof.
  revert z; induction n as [|n IH]; intros z.
  - cbn [le_bytes le_val]. change (8 * Z.of_nat 0) with 0. rewrite Z.pow_0_r, Z.mod_1_r. reflexivity.
  - cbn [le_bytes le_val]. rewrite IH.
    replace (8 * Z.of_nat (S n)) with (8 + 8 * Z.of_nat n) by lia.
    rewrite Z.pow_add_r by lia. change (2 ^ 8) with 256.
    rewrite Z.rem_mul_r by lia. lia.
Qed.

Lemma le_val_le_bytes_id n z : 0 <= z < 2 ^ (8 * Z.of_nat n) -> le_val (le_bytes n z) = z.
Proof. intros H. rewrite le_val_le_bytes. apply Z.mod_small. exact H. Qed.

Lemma le_bytes_all_bytes n z : all_bytes (le_bytes n z) = true.
Proof.
  revert z; induction n as [|n IH]; intros z; cbn [le_bytes all_bytes forallb]; [reflexivity|].
  fold (all_bytes (le_bytes n (z / 256))). rewrite IH, andb_true_r.
  unfold is_byte, inr. pose proof (Z.mod_pos_bound z 256 ltac:(lia)).
  apply andb_true_intro; split; [apply Z.leb_le | apply Z.leb_le]; lia.
Qed.

Lemma to_signed_mod w z : 0 < w -> - 2 ^ (w - 1) <= z < 2 ^ (w - 1) -> to_signed w (z mod 2 ^ w) = z.
Proof.
  intros Hw Hz. unfold to_signed.
  assert (E2 : 2 ^ w = 2 * 2 ^ (w - 1)).
  { replace w with (1 + (w - 1)) at 1 by lia. rewrite Z.pow_add_r by lia. reflexivity. }
  assert (Hp : 0 < 2 ^ (w - 1)) by (apply Z.pow_pos_nonneg; lia).
  destruct (Z_lt_le_dec z 0) as [Hneg|Hpos].
  - assert (Em : z mod 2 ^ w = z + 2 ^ w).
    { symmetry. apply Z.mod_unique_pos with (q := -1); lia. }
    rewrite Em. destruct (Z.ltb_spec (z + 2 ^ w) (2 ^ (w - 1))); lia.
  - rewrite Z.mod_small by lia. destruct (Z.ltb_spec z (2 ^ (w - 1))); lia.
Qed.

(** * running decoders *)
Lemma blen_app (a b : bytes) : blen (a ++ b) = blen a + blen b.
Proof. unfold blen. rewrite app_length. lia. Qed.
Lemma blen_nonneg (a : bytes) : 0 <= blen a.
Proof. unfold blen. lia. Qed.

Lemma read_exact_app (a rest : bytes) : read_exact (blen a) (a ++ rest) = ([], Ok a rest).
Proof.
  unfold read_exact. rewrite blen_app.
  destruct (Z.ltb_spec (blen a + blen rest) (blen a)) as [H|H].
  - pose proof (blen_nonneg rest). lia.
  - unfold blen. rewrite Nat2Z.id.
    rewrite firstn_app, Nat.sub_diag, firstn_all, firstn_O, app_nil_r.
    rewrite skipn_app, Nat.sub_diag, skipn_all, skipn_O. reflexivity.
Qed.

Lemma read_exact_app_n n (a rest : bytes) : blen a = n -> read_exact n (a ++ rest) = ([], Ok a rest).
Proof. intros <-. apply read_exact_app. Qed.

Lemma bind_ok {A B} (m : dec A) (f : A -> dec B) bs t1 a r :
  m bs = (t1, Ok a r) -> bind m f bs = (let '(t2, o) := f a r in (t1 ++ t2, o)).
Proof. intros H. unfold bind. rewrite H. reflexivity. Qed.

Lemma bind_ok_nil {A B} (m : dec A) (f : A -> dec B) bs a r :
  m bs = ([], Ok a r) -> bind m f bs = f a r.
Proof. intros H. rewrite (bind_ok _ _ _ _ _ _ H). destruct (f a r). reflexivity. Qed.

Lemma le_blen n z : blen (le_bytes n z) = Z.of_nat n.
Proof. unfold blen. now rewrite le_bytes_length. Qed.

Ltac run_prim :=
  unfold read_u8, read_u32, read_u64, read_i16, read_i64, read_f32, read_f64, read_bool,
         w_u8, w_u32, w_u64, w_i16, w_i64, w_f32, w_f64;
  match goal with
  | |- context [ bind (read_exact _) _ (le_bytes ?k ?z ++ ?r) ] =>
      rewrite (bind_ok_nil _ _ _ (le_bytes k z) r); [unfold ret | apply read_exact_app_n; reflexivity]
  end.

(** ** the primitive round trips (io.rs) *)
Lemma u8_roundtrip z rest : 0 <= z < 256 -> read_u8 (w_u8 z ++ rest) = ([], Ok z rest).
Proof. intros H. run_prim. rewrite le_val_le_bytes_id; [reflexivity|]. exact H. Qed.

Lemma u32_roundtrip z rest : 0 <= z < 2 ^ 32 -> read_u32 (w_u32 z ++ rest) = ([], Ok z rest).
Proof. intros H. run_prim. rewrite le_val_le_bytes_id; [reflexivity|]. exact H. Qed.

Lemma u64_roundtrip z rest : 0 <= z < 2 ^ 64 -> read_u64 (w_u64 z ++ rest) = ([], Ok z rest).
Proof. intros H. run_prim. rewrite le_val_le_bytes_id; [reflexivity|]. exact H. Qed.

Lemma i16_roundtrip z rest : - 2 ^ 15 <= z < 2 ^ 15 -> read_i16 (w_i16 z ++ rest) = ([], Ok z rest).
Proof.
  intros H. run_prim. rewrite le_val_le_bytes. change (8 * Z.of_nat 2) with 16.
  rewrite to_signed_mod; [reflexivity | lia | exact H].
Qed.

Lemma i64_roundtrip z rest : - 2 ^ 63 <= z < 2 ^ 63 -> read_i64 (w_i64 z ++ rest) = ([], Ok z rest).
Proof.
  intros H. run_prim. rewrite le_val_le_bytes. change (8 * Z.of_nat 8) with 64.
  rewrite to_signed_mod; [reflexivity | lia | exact H].
Qed.

(** floats travel as their bit pattern: NaN payloads, signed zeros and infinities are preserved *)
Lemma f32_roundtrip bits rest : 0 <= bits < 2 ^ 32 -> read_f32 (w_f32 bits ++ rest) = ([], Ok bits rest).
Proof. intros H. run_prim. rewrite le_val_le_bytes_id; [reflexivity|]. exact H. Qed.

Lemma f64_roundtrip bits rest : 0 <= bits < 2 ^ 64 -> read_f64 (w_f64 bits ++ rest) = ([], Ok bits rest).
Proof. intros H. run_prim. rewrite le_val_le_bytes_id; [reflexivity|]. exact H. Qed.

Lemma bool_roundtrip b rest : read_bool (w_bool b ++ rest) = ([], Ok b rest).
Proof.
  unfold read_bool, w_bool.
  rewrite (bind_ok_nil _ _ _ [if b then 1 else 0] rest); [|apply (read_exact_app_n 1); reflexivity].
  destruct b; reflexivity.
Qed.

(** [read_string (write_string s)]: the allocation request equals the string length *)
Lemma string_roundtrip s rest :
  utf8_valid s = true -> blen s < 2 ^ 32 ->
  read_string (w_string s ++ rest) = ([Alloc (blen s)], Ok s rest).
Proof.
  intros Hu Hl. unfold read_string, w_string. rewrite <- app_assoc.
  pose proof (blen_nonneg s) as Hn.
  rewrite (bind_ok_nil _ _ _ _ _ (u32_roundtrip (blen s) (s ++ rest) (conj Hn Hl))).
  unfold bind at 1. unfold buffer_upto.
  rewrite (bind_ok_nil _ _ _ _ _ (read_exact_app s rest)). rewrite Hu.
  rewrite blen_app. pose proof (blen_nonneg rest). rewrite Z.min_l by lia. reflexivity.
Qed.

Example string_roundtrip_nontrivial :
  read_string (w_string [104; 195; 169] ++ [7]) = ([Alloc 3], Ok [104; 195; 169] [7]).
Proof. apply string_roundtrip; [reflexivity | vm_compute; reflexivity]. Qed.

(** * the compositional invariants *)
Definition is_ok {A} (o : outcome A) : bool := match o with Ok _ _ => true | _ => false end.

Definition ev_le (L : Z) (e : event) : Prop := match e with Alloc n => n <= L end.
(** the yardstick: the input length, or the fixed CHAR padding maximum if that is larger *)
Definition bound (bs : bytes) : Z := Z.max (blen bs) 65535.

(** outcomes a decoder may NOT produce: running out of fuel, a panic outside [allowP], [Hang] unless
    [allowH], [StackOverflow] unless [allowS] *)
Definition tolerated {A} (allowP : panic -> Prop) (allowH allowS : Prop) (o : outcome A) : Prop :=
  match o with
  | OutOfFuel => False
  | Panic p => allowP p
  | Hang => allowH
  | StackOverflow => allowS
  | _ => True
  end.

Record good_at {A} (allowP : panic -> Prop) (allowH allowS : Prop) (m : dec A) (bs : bytes) : Prop := mkGood {
  g_consumes : forall t a rest, m bs = (t, Ok a rest) -> blen rest <= blen bs;
  g_alloc : forall t o, m bs = (t, o) -> Forall (ev_le (bound bs)) t;
  g_tol : forall t o, m bs = (t, o) -> tolerated allowP allowH allowS o;
}.
Definition good {A} allowP allowH allowS (m : dec A) : Prop := forall bs, good_at allowP allowH allowS m bs.

(** strictly consuming decoders (loop bodies) *)
Definition strict_at {A} (m : dec A) (bs : bytes) : Prop :=
  forall t a rest, m bs = (t, Ok a rest) -> blen rest < blen bs.
Definition strict {A} (m : dec A) : Prop := forall bs, strict_at m bs.

(** the same, restricted to inputs shorter than [F] (for fuel-indexed recursive decoders) *)
Definition good_lt {A} allowP allowH allowS (F : Z) (m : dec A) : Prop :=
  forall bs, blen bs < F -> good_at allowP allowH allowS m bs.
Definition strict_lt {A} (F : Z) (m : dec A) : Prop := forall bs, blen bs < F -> strict_at m bs.

Lemma Forall_ev_le_mono L L' t : L <= L' -> Forall (ev_le L) t -> Forall (ev_le L') t.
Proof.
  intros HL H. induction H as [|e t He _ IH]; constructor; [|exact IH].
  destruct e as [n]; cbn in *; lia.
Qed.

Lemma bound_mono (a b : bytes) : blen a <= blen b -> bound a <= bound b.
Proof. unfold bound. lia. Qed.

Lemma cast_out_not_ok {A B} (o : outcome A) : is_ok (@cast_out A B o) = false.
Proof. destruct o; reflexivity. Qed.

Lemma tolerated_cast {A B} P H S (o : outcome A) :
  is_ok o = false -> tolerated P H S o -> tolerated P H S (@cast_out A B o).
Proof. destruct o; cbn; auto; discriminate. Qed.

Section GoodLaws.
  Variable allowP : panic -> Prop.
  Variables allowH allowS : Prop.
  Notation good_at := (good_at allowP allowH allowS).
  Notation good := (good allowP allowH allowS).

  Lemma good_ret {A} (a : A) : good (ret a).
  Proof.
    intros bs. split; unfold ret.
    - intros t a' rest [= <- <- <-]. lia.
    - intros t o [= <- <-]. constructor.
    - intros t o [= <- <-]. exact I.
  Qed.

  Lemma good_stop {A} (o : outcome A) : is_ok o = false -> tolerated allowP allowH allowS o -> good (stop o).
  Proof.
    intros Hn Ht bs. split; unfold stop.
    - intros t a rest [= <- ->]. discriminate.
    - intros t o' [= <- <-]. constructor.
    - intros t o' [= <- <-]. exact Ht.
  Qed.

  Lemma good_fail {A} e : good (@fail A e).
  Proof. apply (good_stop (Err e)); [reflexivity | exact I]. Qed.

  Lemma good_unmodelled {A} : good (@stop A Unmodelled).
  Proof. apply good_stop; [reflexivity | exact I]. Qed.

  Lemma bind_run {A B} (m : dec A) (f : A -> dec B) bs t1 o1 :
    m bs = (t1, o1) ->
    bind m f bs = match o1 with
                  | Ok a r => let '(t2, o) := f a r in (t1 ++ t2, o)
                  | _ => (t1, cast_out o1)
                  end.
  Proof. intros E. unfold bind. rewrite E. destruct o1; reflexivity. Qed.

  Lemma good_at_bind {A B} (m : dec A) (f : A -> dec B) bs :
    good_at m bs -> (forall t a r, m bs = (t, Ok a r) -> good_at (f a) r) -> good_at (bind m f) bs.
  Proof.
    intros Gm Gf.
    destruct (m bs) as [t1 o1] eqn:Em.
    pose proof (bind_run m f bs t1 o1 Em) as Hb.
    destruct o1 as [a r| | | | | |];
      try (split;
           [ intros t a' rest; rewrite Hb; intros [= _ ?]; discriminate
           | intros t o; rewrite Hb; intros [= <- <-]; exact (g_alloc _ _ _ _ _ Gm _ _ Em)
           | intros t o; rewrite Hb; intros [= <- <-]; exact (g_tol _ _ _ _ _ Gm _ _ Em) ]).
    specialize (Gf _ _ _ eq_refl).
    pose proof (g_consumes _ _ _ _ _ Gm _ _ _ Em) as Hc.
    pose proof (g_alloc _ _ _ _ _ Gm _ _ Em) as Ha.
    destruct (f a r) as [t2 o2] eqn:Ef.
    split.
    - intros t b rest; rewrite Hb; intros [= <- ->]. pose proof (g_consumes _ _ _ _ _ Gf _ _ _ Ef). lia.
    - intros t o; rewrite Hb; intros [= <- <-]. apply Forall_app. split; [exact Ha|].
      eapply Forall_ev_le_mono; [apply bound_mono; exact Hc|]. exact (g_alloc _ _ _ _ _ Gf _ _ Ef).
    - intros t o; rewrite Hb; intros [= <- <-]. exact (g_tol _ _ _ _ _ Gf _ _ Ef).
  Qed.

  Lemma good_bind {A B} (m : dec A) (f : A -> dec B) :
    good m -> (forall a, good (f a)) -> good (bind m f).
  Proof. intros Gm Gf bs. apply good_at_bind; [apply Gm|]. intros; apply Gf. Qed.

  Lemma strict_bind_l {A B} (m : dec A) (f : A -> dec B) :
    strict m -> (forall a, good (f a)) -> strict (bind m f).
  Proof.
    intros Sm Gf bs t b rest.
    destruct (m bs) as [t1 o1] eqn:Em. rewrite (bind_run m f bs t1 o1 Em).
    destruct o1 as [a r| | | | | |]; try (intros [= _ ?]; discriminate).
    destruct (f a r) as [t2 o2] eqn:Ef. intros [= <- ->].
    pose proof (Sm _ _ _ _ Em). pose proof (g_consumes _ _ _ _ _ (Gf a r) _ _ _ Ef). lia.
  Qed.

  Lemma strict_bind_r {A B} (m : dec A) (f : A -> dec B) :
    good m -> (forall a, strict (f a)) -> strict (bind m f).
  Proof.
    intros Gm Sf bs t b rest.
    destruct (m bs) as [t1 o1] eqn:Em. rewrite (bind_run m f bs t1 o1 Em).
    destruct o1 as [a r| | | | | |]; try (intros [= _ ?]; discriminate).
    destruct (f a r) as [t2 o2] eqn:Ef. intros [= <- ->].
    pose proof (Sf _ _ _ _ _ Ef). pose proof (g_consumes _ _ _ _ _ (Gm bs) _ _ _ Em). lia.
  Qed.

  (** count-driven loops never run out of fuel when the body strictly consumes *)
  Lemma good_at_loop_fuel {A} (item : dec A) :
    good item -> strict item ->
    forall fuel count bs, blen bs < Z.of_nat fuel -> good_at (loop_fuel fuel count item) bs.
  Proof.
    intros Gi Si. induction fuel as [|f IH]; intros count bs Hf.
    - pose proof (blen_nonneg bs). lia.
    - cbn [loop_fuel]. destruct (count <=? 0); [apply good_ret|].
      apply good_at_bind; [apply Gi|]. intros t a r Ei.
      apply good_at_bind.
      + apply IH. pose proof (Si _ _ _ _ Ei). lia.
      + intros. apply good_ret.
  Qed.

  Lemma good_loop {A} (item : dec A) count : good item -> strict item -> good (loop count item).
  Proof.
    intros Gi Si bs. unfold loop.
    pose proof (good_at_loop_fuel item Gi Si (S (length bs)) count bs) as H.
    assert (Hlt : blen bs < Z.of_nat (S (length bs))) by (unfold blen; lia).
    specialize (H Hlt). destruct H as [h1 h2 h3]. split; assumption.
  Qed.

  Lemma good_at_iter_fuel {St} (body : St -> dec St) :
    (forall s, good (body s)) -> (forall s, strict (body s)) ->
    forall fuel count s bs, blen bs < Z.of_nat fuel -> good_at (iter_fuel fuel count body s) bs.
  Proof.
    intros Gb Sb. induction fuel as [|f IH]; intros count s bs Hf.
    - pose proof (blen_nonneg bs). lia.
    - cbn [iter_fuel]. destruct (count <=? 0); [apply good_ret|].
      apply good_at_bind; [apply Gb|]. intros t a r Ei.
      apply IH. pose proof (Sb _ _ _ _ _ Ei). lia.
  Qed.

  Lemma good_iter {St} (body : St -> dec St) count s :
    (forall s, good (body s)) -> (forall s, strict (body s)) -> good (iter count body s).
  Proof.
    intros Gb Sb bs. unfold iter.
    pose proof (good_at_iter_fuel body Gb Sb (S (length bs)) count s bs) as H.
    assert (Hlt : blen bs < Z.of_nat (S (length bs))) by (unfold blen; lia).
    specialize (H Hlt). destruct H as [h1 h2 h3]. split; assumption.
  Qed.

  (** the same with a state invariant *)
  Lemma good_at_iter_fuel_inv {St} (Inv : St -> Prop) (body : St -> dec St) :
    (forall s, Inv s -> good (body s)) -> (forall s, Inv s -> strict (body s)) ->
    (forall s bs t s' r, Inv s -> body s bs = (t, Ok s' r) -> Inv s') ->
    forall fuel count s bs, Inv s -> blen bs < Z.of_nat fuel -> good_at (iter_fuel fuel count body s) bs.
  Proof.
    intros Gb Sb Hinv. induction fuel as [|f IH]; intros count s bs Hs Hf.
    - pose proof (blen_nonneg bs). lia.
    - cbn [iter_fuel]. destruct (count <=? 0); [apply good_ret|].
      apply good_at_bind; [apply Gb; exact Hs|]. intros t a r Ei.
      apply IH; [eapply Hinv; eauto|]. pose proof (Sb _ Hs _ _ _ _ Ei). lia.
  Qed.

  Lemma good_iter_inv {St} (Inv : St -> Prop) (body : St -> dec St) count s :
    (forall s, Inv s -> good (body s)) -> (forall s, Inv s -> strict (body s)) ->
    (forall s bs t s' r, Inv s -> body s bs = (t, Ok s' r) -> Inv s') ->
    Inv s -> good (iter count body s).
  Proof.
    intros Gb Sb Hinv Hs bs. unfold iter.
    pose proof (good_at_iter_fuel_inv Inv body Gb Sb Hinv (S (length bs)) count s bs Hs) as H.
    assert (Hlt : blen bs < Z.of_nat (S (length bs))) by (unfold blen; lia).
    specialize (H Hlt). destruct H as [h1 h2 h3]. split; assumption.
  Qed.

  (** the invariant also holds of the final state *)
  Lemma iter_fuel_inv {St} (Inv : St -> Prop) (body : St -> dec St) :
    (forall s bs t s' r, Inv s -> body s bs = (t, Ok s' r) -> Inv s') ->
    forall fuel count s bs t s' r, Inv s -> iter_fuel fuel count body s bs = (t, Ok s' r) -> Inv s'.
  Proof.
    intros Hinv. induction fuel as [|f IH]; intros count s bs t s' r Hs; cbn [iter_fuel].
    - destruct (count <=? 0); unfold ret, stop; intros H; inversion H; subst; exact Hs.
    - destruct (count <=? 0); [unfold ret; intros H; inversion H; subst; exact Hs|].
      destruct (body s bs) as [t1 o1] eqn:Eb. rewrite (bind_run _ _ _ _ _ Eb).
      destruct o1 as [s1 r1| | | | | |]; [| intros H; inversion H ..].
      intros H. destruct (iter_fuel f (count - 1) body s1 r1) as [t2 o2] eqn:Ei.
      inversion H; subst. eapply IH; [eapply Hinv; eauto | exact Ei].
  Qed.

  (** a loop with a positive count consumes at least what its first item consumes *)
  Lemma strict_loop_pos {A} (item : dec A) count :
    0 < count -> good item -> strict item -> strict (loop count item).
  Proof.
    intros Hc Gi Si bs t a rest. unfold loop. cbn [loop_fuel].
    destruct (Z.leb_spec count 0) as [Hle|Hgt]; [lia|].
    destruct (item bs) as [t1 o1] eqn:Ei. rewrite (bind_run _ _ _ _ _ Ei).
    destruct o1 as [x r| | | | | |]; [| intros H; inversion H ..].
    pose proof (Si _ _ _ _ Ei) as Hlt.
    assert (G : good_at (loop_fuel (length bs) (count - 1) item) r).
    { apply good_at_loop_fuel; [exact Gi | exact Si |]. unfold blen in *. lia. }
    destruct (loop_fuel (length bs) (count - 1) item r) as [t2 o2] eqn:El.
    rewrite (bind_run _ _ _ _ _ El).
    destruct o2 as [xs r2| | | | | |]; [| intros H; inversion H ..].
    unfold ret. intros H; inversion H; subst.
    pose proof (g_consumes _ _ _ _ _ G _ _ _ El). lia.
  Qed.

  (** ** the relativised combinators *)
  Notation good_lt := (good_lt allowP allowH allowS).

  Lemma good_lt_of_good {A} F (m : dec A) : good m -> good_lt F m.
  Proof. intros G bs _. apply G. Qed.
  Lemma strict_lt_of_strict {A} F (m : dec A) : strict m -> strict_lt F m.
  Proof. intros G bs _. apply G. Qed.

  Lemma good_lt_bind {A B} F (m : dec A) (f : A -> dec B) :
    good_lt F m -> (forall a, good_lt F (f a)) -> good_lt F (bind m f).
  Proof.
    intros Gm Gf bs Hb. apply good_at_bind; [apply Gm; exact Hb|].
    intros t a r Em. apply Gf. pose proof (g_consumes _ _ _ _ _ (Gm bs Hb) _ _ _ Em). lia.
  Qed.

  Lemma strict_lt_bind_l {A B} F (m : dec A) (f : A -> dec B) :
    good_lt F m -> strict_lt F m -> (forall a, good_lt F (f a)) -> strict_lt F (bind m f).
  Proof.
    intros Gm Sm Gf bs Hb t b rest.
    destruct (m bs) as [t1 o1] eqn:Em. rewrite (bind_run m f bs t1 o1 Em).
    destruct o1 as [a r| | | | | |]; [| intros H; inversion H ..].
    destruct (f a r) as [t2 o2] eqn:Ef. intros [= <- ->].
    pose proof (Sm _ Hb _ _ _ Em) as Hlt.
    assert (Hr : blen r < F) by lia.
    pose proof (g_consumes _ _ _ _ _ (Gf a r Hr) _ _ _ Ef). lia.
  Qed.

  Lemma good_lt_loop_fuel {A} F (item : dec A) :
    good_lt F item -> strict_lt F item ->
    forall fuel count bs, blen bs < F -> blen bs < Z.of_nat fuel -> good_at (loop_fuel fuel count item) bs.
  Proof.
    intros Gi Si. induction fuel as [|f IH]; intros count bs HF Hf.
    - pose proof (blen_nonneg bs). lia.
    - cbn [loop_fuel]. destruct (count <=? 0); [apply good_ret|].
      apply good_at_bind; [apply Gi; exact HF|]. intros t a r Ei.
      pose proof (Si _ HF _ _ _ Ei).
      apply good_at_bind.
      + apply IH; lia.
      + intros. apply good_ret.
  Qed.

  Lemma good_lt_loop {A} F (item : dec A) count : good_lt F item -> strict_lt F item -> good_lt F (loop count item).
  Proof.
    intros Gi Si bs HF. unfold loop.
    pose proof (good_lt_loop_fuel F item Gi Si (S (length bs)) count bs HF) as H.
    assert (Hlt : blen bs < Z.of_nat (S (length bs))) by (unfold blen; lia).
    specialize (H Hlt). destruct H as [h1 h2 h3]. split; assumption.
  Qed.

  Lemma good_lt_iter_fuel {St} F (body : St -> dec St) :
    (forall s, good_lt F (body s)) -> (forall s, strict_lt F (body s)) ->
    forall fuel count s bs, blen bs < F -> blen bs < Z.of_nat fuel -> good_at (iter_fuel fuel count body s) bs.
  Proof.
    intros Gb Sb. induction fuel as [|f IH]; intros count s bs HF Hf.
    - pose proof (blen_nonneg bs). lia.
    - cbn [iter_fuel]. destruct (count <=? 0); [apply good_ret|].
      apply good_at_bind; [apply Gb; exact HF|]. intros t a r Ei.
      pose proof (Sb _ _ HF _ _ _ Ei). apply IH; lia.
  Qed.

  Lemma good_lt_iter {St} F (body : St -> dec St) count s :
    (forall s, good_lt F (body s)) -> (forall s, strict_lt F (body s)) -> good_lt F (iter count body s).
  Proof.
    intros Gb Sb bs HF. unfold iter.
    pose proof (good_lt_iter_fuel F body Gb Sb (S (length bs)) count s bs HF) as H.
    assert (Hlt : blen bs < Z.of_nat (S (length bs))) by (unfold blen; lia).
    specialize (H Hlt). destruct H as [h1 h2 h3]. split; assumption.
  Qed.

  Lemma good_of_good_lt {A} (m : dec A) : (forall F, good_lt F m) -> good m.
  Proof. intros H bs. apply (H (blen bs + 1)). lia. Qed.

  (** ** primitives *)
  Lemma good_read_exact n : good (read_exact n).
  Proof.
    intros bs. split; unfold read_exact; destruct (blen bs <? n) eqn:E.
    - intros t a rest [= _ ?]; discriminate.
    - intros t a rest [= <- <- <-]. unfold blen. rewrite skipn_length. lia.
    - intros t o [= <- <-]. constructor.
    - intros t o [= <- <-]. constructor.
    - intros t o [= <- <-]. exact I.
    - intros t o [= <- <-]. exact I.
  Qed.

  Lemma strict_read_exact n : 0 < n -> strict (read_exact n).
  Proof.
    intros Hn bs t a rest. unfold read_exact.
    destruct (Z.ltb_spec (blen bs) n); [intros [= _ ?]; discriminate|].
    intros [= <- <- <-]. unfold blen in *. rewrite skipn_length. lia.
  Qed.

  Lemma good_map {A B} (m : dec A) (f : A -> B) : good m -> good (x <- m ;; ret (f x)).
  Proof. intros G. apply good_bind; [exact G|]. intros; apply good_ret. Qed.
  Lemma strict_map {A B} (m : dec A) (f : A -> B) : strict m -> strict (x <- m ;; ret (f x)).
  Proof. intros S0. apply strict_bind_l; [exact S0|]. intros; apply good_ret. Qed.

  Lemma good_read_u8 : good read_u8. Proof. apply good_map, good_read_exact. Qed.
  Lemma good_read_u32 : good read_u32. Proof. apply good_map, good_read_exact. Qed.
  Lemma good_read_u64 : good read_u64. Proof. apply good_map, good_read_exact. Qed.
  Lemma good_read_i16 : good read_i16. Proof. apply good_map, good_read_exact. Qed.
  Lemma good_read_i64 : good read_i64. Proof. apply good_map, good_read_exact. Qed.
  Lemma good_read_f32 : good read_f32. Proof. apply good_map, good_read_exact. Qed.
  Lemma good_read_f64 : good read_f64. Proof. apply good_map, good_read_exact. Qed.
  Lemma good_read_bool : good read_bool. Proof. apply good_map, good_read_exact. Qed.
  Lemma strict_read_u8 : strict read_u8. Proof. apply strict_map, strict_read_exact; lia. Qed.
  Lemma strict_read_u32 : strict read_u32. Proof. apply strict_map, strict_read_exact; lia. Qed.
  Lemma strict_read_u64 : strict read_u64. Proof. apply strict_map, strict_read_exact; lia. Qed.
  Lemma strict_read_i16 : strict read_i16. Proof. apply strict_map, strict_read_exact; lia. Qed.
  Lemma strict_read_i64 : strict read_i64. Proof. apply strict_map, strict_read_exact; lia. Qed.
  Lemma strict_read_f32 : strict read_f32. Proof. apply strict_map, strict_read_exact; lia. Qed.
  Lemma strict_read_f64 : strict read_f64. Proof. apply strict_map, strict_read_exact; lia. Qed.
  Lemma strict_read_bool : strict read_bool. Proof. apply strict_map, strict_read_exact; lia. Qed.

  Lemma read_exact_fail_run {A} len (k : bytes -> dec A) bs :
    blen bs < len -> (buf <- read_exact len ;; k buf) bs = ([], Err EEof).
  Proof.
    intros H. unfold bind, read_exact. destruct (Z.ltb_spec (blen bs) len); [reflexivity|lia].
  Qed.

  (** the buffer of [read_string] holds at most what the input holds *)
  Lemma good_buffer_upto len : good (buffer_upto len).
  Proof.
    intros bs. split; unfold buffer_upto.
    - intros t a rest [= <- <- <-]. lia.
    - intros t o [= <- <-]. constructor; [|constructor]. cbn. unfold bound. lia.
    - intros t o [= <- <-]. exact I.
  Qed.

  Lemma good_read_string : good read_string.
  Proof.
    unfold read_string. apply good_bind; [apply good_read_u32|]. intros len.
    apply good_bind; [apply good_buffer_upto|]. intros _.
    apply good_bind; [apply good_read_exact|]. intros buf.
    destruct (utf8_valid buf); [apply good_ret | apply good_fail].
  Qed.

  Lemma strict_read_string : strict read_string.
  Proof.
    unfold read_string. apply strict_bind_l; [apply strict_read_u32|]. intros len.
    apply good_bind; [apply good_buffer_upto|]. intros _.
    apply good_bind; [apply good_read_exact|]. intros buf.
    destruct (utf8_valid buf); [apply good_ret | apply good_fail].
  Qed.

  Lemma good_if {A} (c : bool) (m1 m2 : dec A) : good m1 -> good m2 -> good (if c then m1 else m2).
  Proof. destruct c; auto. Qed.
  Lemma strict_if {A} (c : bool) (m1 m2 : dec A) : strict m1 -> strict m2 -> strict (if c then m1 else m2).
  Proof. destruct c; auto. Qed.
  Lemma strict_stop {A} (o : outcome A) : is_ok o = false -> strict (stop o).
  Proof. intros H bs t a rest. unfold stop. intros [= _ ->]. discriminate. Qed.
  Lemma strict_fail {A} e : strict (@fail A e).
  Proof. intros bs t a rest. unfold fail. intros H; inversion H. Qed.
End GoodLaws.

(** weakening of what is tolerated *)
Lemma good_weaken {A} (P Q : panic -> Prop) (H H' S S' : Prop) (m : dec A) :
  (forall p, P p -> Q p) -> (H -> H') -> (S -> S') -> good P H S m -> good Q H' S' m.
Proof.
  intros HP HH HS G bs. destruct (G bs) as [g1 g2 g3]. split; auto.
  intros t o E. specialize (g3 t o E). destruct o; cbn in *; auto.
Qed.

(** * the length prefix is not an allocation size: a 4 GiB prefix in front of nothing buffers nothing *)
Definition over_alloc_input : bytes := [255; 255; 255; 255].
Lemma read_string_prefix_not_allocated :
  read_string over_alloc_input = ([Alloc 0], Err EEof).
Proof. vm_compute. reflexivity. Qed.
