(** C31 — the RFC 4180 reader inverts the RFC 4180 writer, for all records of all fields. *)
From Coq Require Import Ascii String.
From Coq Require Import List ZArith Bool Lia.
Local Open Scope string_scope.
From VibeSQL Require Import Codec.Csv Codec.CsvSpec.
Import ListNotations.
Local Open Scope list_scope.
Open Scope Z_scope.

Definition plain (c : Z) : bool :=
  negb (c =? DQ) && negb (c =? COMMA) && negb (c =? LF) && negb (c =? CR).

Lemma contains_cons c x s : contains c (x :: s) = (c =? x) || contains c s.
Proof. reflexivity. Qed.

Lemma needs_quote_plain f : needs_quote f = false -> forallb plain f = true.
Proof.
  unfold needs_quote. induction f as [|x f IH]; intros H; [reflexivity|].
  rewrite !contains_cons in H.
  repeat (apply orb_false_iff in H; destruct H as [H ?]).
  repeat match goal with Hx : _ || _ = false |- _ => apply orb_false_iff in Hx; destruct Hx end.
  cbn [forallb]. rewrite IH.
  - unfold plain. rewrite (Z.eqb_sym x DQ), (Z.eqb_sym x COMMA), (Z.eqb_sym x LF), (Z.eqb_sym x CR).
    repeat match goal with Hx : (_ =? x) = false |- _ => rewrite Hx; clear Hx end. reflexivity.
  - repeat match goal with Hx : contains _ f = false |- _ => rewrite Hx; clear Hx end. reflexivity.
Qed.

Lemma plain_inv c : plain c = true ->
  (c =? DQ) = false /\ (c =? COMMA) = false /\ (c =? LF) = false /\ (c =? CR) = false.
Proof.
  unfold plain. intros H.
  repeat (apply andb_true_iff in H; destruct H as [H ?]).
  repeat match goal with Hx : negb _ = true |- _ => apply negb_true_iff in Hx end. auto.
Qed.

(** one plain character outside quotes goes into the current field *)
Lemma rd_plain_step c r st f row acc :
  plain c = true -> st = RS \/ st = FS \/ st = UQ ->
  rd (c :: r) st f row acc = rd r UQ (c :: f) row acc.
Proof.
  intros Hp Hst. destruct (plain_inv c Hp) as (H1 & H2 & H3 & H4).
  destruct Hst as [-> | [-> | ->]]; cbn [rd]; rewrite H1, H2, H3, H4; reflexivity.
Qed.

Lemma rd_plain_UQ chars : forall rest f row acc,
  forallb plain chars = true ->
  rd (chars ++ rest) UQ f row acc = rd rest UQ (rev chars ++ f) row acc.
Proof.
  induction chars as [|c chars IH]; intros rest f row acc H; [reflexivity|].
  cbn [forallb] in H. apply andb_true_iff in H. destruct H as [Hc Hr].
  cbn [app]. rewrite rd_plain_step by auto. rewrite IH by exact Hr.
  cbn [rev]. rewrite <- app_assoc. reflexivity.
Qed.

Lemma replace_char_cons c by_ x s :
  replace_char c by_ (x :: s) = (if x =? c then by_ else [x]) ++ replace_char c by_ s.
Proof. reflexivity. Qed.

(** the doubled body of an escaped field is read back as the body *)
Lemma rd_quoted_body body : forall rest f row acc,
  rd (replace_char DQ [DQ; DQ] body ++ rest) QT f row acc = rd rest QT (rev body ++ f) row acc.
Proof.
  induction body as [|c body IH]; intros rest f row acc; [reflexivity|].
  rewrite replace_char_cons. destruct (c =? DQ) eqn:E.
  - apply Z.eqb_eq in E. subst c. cbn [app rd]. rewrite Z.eqb_refl.
    change (DQ =? DQ) with true. cbn iota. rewrite IH. cbn [rev]. rewrite <- app_assoc. reflexivity.
  - cbn [app rd]. rewrite E. rewrite IH. cbn [rev]. rewrite <- app_assoc. reflexivity.
Qed.

(** terminators, from every state but "inside quotes" *)
Lemma rd_comma rest st g row acc : st <> QT ->
  rd (COMMA :: rest) st g row acc = rd rest FS [] (rev g :: row) acc.
Proof. destruct st; intros H; try reflexivity. congruence. Qed.

Lemma rd_crlf rest st g row acc : st <> QT ->
  rd (CR :: LF :: rest) st g row acc = rd rest RS [] [] (rev (rev g :: row) :: acc).
Proof. destruct st; intros H; try reflexivity. congruence. Qed.

(** a written field is consumed into the field accumulator *)
Lemma rd_field f rest st row acc : st = RS \/ st = FS ->
  exists st', st' <> QT /\ rd (rfc_field f ++ rest) st [] row acc = rd rest st' (rev f) row acc.
Proof.
  intros Hst. unfold rfc_field. destruct (needs_quote f) eqn:Q.
  - exists QQ. split; [discriminate|].
    assert (E0 : rd ((DQ :: replace_char DQ [DQ; DQ] f ++ [DQ]) ++ rest) st [] row acc
                 = rd (replace_char DQ [DQ; DQ] f ++ DQ :: rest) QT [] row acc).
    { cbn [app]. rewrite <- app_assoc. destruct Hst as [-> | ->]; reflexivity. }
    rewrite E0. rewrite rd_quoted_body. cbn [rd]. change (DQ =? DQ) with true. cbn iota.
    rewrite app_nil_r. reflexivity.
  - apply needs_quote_plain in Q. destruct f as [|c f].
    + exists st. split; [destruct Hst as [-> | ->]; discriminate | reflexivity].
    + exists UQ. split; [discriminate|].
      cbn [forallb] in Q. apply andb_true_iff in Q. destruct Q as [Qc Qf].
      cbn [app]. rewrite rd_plain_step by tauto. rewrite rd_plain_UQ by exact Qf.
      reflexivity.
Qed.

Lemma join_cons2 sep x y l : join sep (x :: y :: l) = x ++ sep ++ join sep (y :: l).
Proof. reflexivity. Qed.

(** a written record is read back as one record *)
Lemma rd_row r : r <> [] -> forall rest st row acc, st = RS \/ st = FS ->
  rd (join [COMMA] (map rfc_field r) ++ CR :: LF :: rest) st [] row acc
  = rd rest RS [] [] (rev (rev r ++ row) :: acc).
Proof.
  induction r as [|f r IH]; intros Hne rest st row acc Hst; [congruence|].
  destruct r as [|f2 r].
  - cbn [map join]. destruct (rd_field f (CR :: LF :: rest) st row acc Hst) as (st' & Hq & E).
    rewrite E. rewrite rd_crlf by exact Hq. rewrite rev_involutive. reflexivity.
  - cbn [map]. rewrite join_cons2. rewrite <- !app_assoc.
    destruct (rd_field f ([COMMA] ++ join [COMMA] (rfc_field f2 :: map rfc_field r) ++ CR :: LF :: rest)
                st row acc Hst) as (st' & Hq & E).
    rewrite E. cbn [app]. rewrite rd_comma by exact Hq. rewrite rev_involutive.
    change (rfc_field f2 :: map rfc_field r) with (map rfc_field (f2 :: r)).
    rewrite IH by (discriminate || auto).
    do 3 f_equal. cbn [rev]. rewrite <- !app_assoc. reflexivity.
Qed.

Lemma rd_rows rows : Forall (fun r => r <> []) rows -> forall acc,
  rd (rfc_write rows) RS [] [] acc = Some (rev acc ++ rows).
Proof.
  induction 1 as [|r rows Hr _ IH]; intros acc.
  - cbn. rewrite app_nil_r. reflexivity.
  - unfold rfc_write. cbn [flat_map]. fold (rfc_write rows). unfold rfc_row.
    rewrite <- app_assoc. cbn [app]. rewrite rd_row by auto.
    rewrite app_nil_r, rev_involutive. rewrite IH. cbn [rev]. rewrite <- app_assoc. reflexivity.
Qed.

(** THE SPECIFICATION THEOREM: every table of text cells survives write-then-read. *)
Theorem rfc4180_roundtrip_thm : forall rows : list (list str),
  Forall (fun r => r <> []) rows -> rfc_read (rfc_write rows) = Some rows.
Proof. intros rows H. unfold rfc_read. rewrite rd_rows by exact H. reflexivity. Qed.

(** the same for the writer of the proposed repair (LF record ends, a lone empty field written as "") *)
Lemma rd_lf rest st g row acc : st <> QT ->
  rd (LF :: rest) st g row acc = rd rest RS [] [] (rev (rev g :: row) :: acc).
Proof. destruct st; intros H; try reflexivity. congruence. Qed.

Lemma rd_row_lf r : r <> [] -> forall rest st row acc, st = RS \/ st = FS ->
  rd (join [COMMA] (map rfc_field r) ++ LF :: rest) st [] row acc
  = rd rest RS [] [] (rev (rev r ++ row) :: acc).
Proof.
  induction r as [|f r IH]; intros Hne rest st row acc Hst; [congruence|].
  destruct r as [|f2 r].
  - cbn [map join]. destruct (rd_field f (LF :: rest) st row acc Hst) as (st' & Hq & E).
    rewrite E. rewrite rd_lf by exact Hq. rewrite rev_involutive. reflexivity.
  - cbn [map]. rewrite join_cons2. rewrite <- !app_assoc.
    destruct (rd_field f ([COMMA] ++ join [COMMA] (rfc_field f2 :: map rfc_field r) ++ LF :: rest)
                st row acc Hst) as (st' & Hq & E).
    rewrite E. cbn [app]. rewrite rd_comma by exact Hq. rewrite rev_involutive.
    change (rfc_field f2 :: map rfc_field r) with (map rfc_field (f2 :: r)).
    rewrite IH by (discriminate || auto).
    do 3 f_equal. cbn [rev]. rewrite <- !app_assoc. reflexivity.
Qed.

Lemma rd_fixed_row r rest acc : r <> [] ->
  rd (fixed_row r ++ rest) RS [] [] acc = rd rest RS [] [] (r :: acc).
Proof.
  intros Hne. unfold fixed_row.
  assert (G : rd ((join [COMMA] (map rfc_field r) ++ [LF]) ++ rest) RS [] [] acc = rd rest RS [] [] (r :: acc)).
  { rewrite <- app_assoc. cbn [app]. rewrite rd_row_lf by auto. rewrite app_nil_r, rev_involutive. reflexivity. }
  destruct r as [|f r]; [congruence|]. destruct f as [|c f]; [|exact G]. destruct r as [|f2 r]; [reflexivity | exact G].
Qed.

Theorem fixed_writer_roundtrip_thm : forall rows : list (list str),
  Forall (fun r => r <> []) rows -> rfc_read (fixed_write rows) = Some rows.
Proof.
  intros rows H. unfold rfc_read.
  assert (G : forall acc, rd (fixed_write rows) RS [] [] acc = Some (rev acc ++ rows)).
  { induction H as [|r rows Hr _ IH]; intros acc.
    - cbn. rewrite app_nil_r. reflexivity.
    - unfold fixed_write. cbn [flat_map]. fold (fixed_write rows). rewrite rd_fixed_row by exact Hr.
      rewrite IH. cbn [rev]. rewrite <- app_assoc. reflexivity. }
  rewrite G. reflexivity.
Qed.

(** the hypothesis is satisfiable by a non-trivial input: commas, quotes, CR, LF, empty fields, the text NULL *)
Example rfc4180_roundtrip_example :
  let rows := [[s_of "a,b"; [DQ]; []]; [[CR; LF]; s_of "NULL"]; [[]]; [[SP; 233; SP]]] in
  Forall (fun r => r <> []) rows /\ rfc_read (rfc_write rows) = Some rows.
Proof. split; [repeat constructor; discriminate | vm_compute; reflexivity]. Qed.

(** a record without fields is not representable (the reason for the hypothesis) *)
Example rfc4180_empty_record : rfc_read (rfc_write [[]]) = Some [[[]]].
Proof. reflexivity. Qed.
