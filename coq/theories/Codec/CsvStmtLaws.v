(** C31 — "import executes nothing but inserts of the file's values": every statement the importers
    generate is read by the scanner of CsvSpec.v as INSERT INTO table (identifiers) VALUES (literals), and
    the literals are the file's values.  True for CSV; for JSON true exactly when every object's keys were
    validated — the code validates the first object only (refuted with a witness). *)
From Coq Require Import Ascii String.
From Coq Require Import List ZArith Bool Lia.
From VibeSQL Require Import Base.LexOrd Codec.Csv Codec.CsvSpec Codec.CsvCodeLaws.
Import ListNotations.
Local Open Scope string_scope.
Local Open Scope list_scope.
Open Scope Z_scope.

(** ------------------------------------------------------------------------------------------------
    the quote-doubling lemma *)

Definition not_sq_head (s : str) : Prop := match s with c :: _ => (c =? SQ) = false | [] => True end.

Lemma scan_lit_body_quote s : forall rest acc, not_sq_head rest ->
  scan_lit_body (replace_char SQ [SQ; SQ] s ++ SQ :: rest) acc = Some (rev acc ++ s, rest).
Proof.
  induction s as [|c s IH]; intros rest acc Hr.
  - cbn [replace_char flat_map app scan_lit_body]. change (SQ =? SQ) with true. cbn iota.
    rewrite app_nil_r. destruct rest as [|c2 r']; [reflexivity|]. cbn in Hr. rewrite Hr. reflexivity.
  - change (replace_char SQ [SQ; SQ] (c :: s)) with ((if c =? SQ then [SQ; SQ] else [c]) ++ replace_char SQ [SQ; SQ] s).
    destruct (c =? SQ) eqn:E.
    + apply Z.eqb_eq in E. subst c. cbn [app scan_lit_body]. change (SQ =? SQ) with true. cbn iota.
      rewrite IH by exact Hr. cbn [rev]. rewrite <- app_assoc. reflexivity.
    + cbn [app scan_lit_body]. rewrite E. rewrite IH by exact Hr. cbn [rev]. rewrite <- app_assoc. reflexivity.
Qed.

(** a quoted value followed by anything but a quote scans back to the value: the file's text cannot end
    the literal early *)
Theorem quote_doubling_thm : forall (v rest : str), not_sq_head rest ->
  scan_value (sql_quote v ++ rest) = Some (LStr v, rest).
Proof.
  intros v rest Hr. unfold sql_quote, scan_value. cbn [app]. change (SQ =? SQ) with true. cbn iota.
  rewrite <- app_assoc. cbn [app]. rewrite scan_lit_body_quote by exact Hr. reflexivity.
Qed.

Lemma strip_prefix_app p s : strip_prefix p (p ++ s) = Some s.
Proof. induction p as [|x p IH]; [reflexivity|]. cbn. rewrite Z.eqb_refl. exact IH. Qed.

Lemma scan_value_render l rest : not_sq_head rest -> scan_value (render_lit l ++ rest) = Some (l, rest).
Proof.
  intros Hr. destruct l as [v|].
  - apply quote_doubling_thm. exact Hr.
  - cbn [render_lit]. unfold scan_value.
    change (NULL_text ++ rest) with (78 :: (s_of "ULL" ++ rest)).
    change (78 =? SQ) with false. cbn iota.
    change (78 :: (s_of "ULL" ++ rest)) with (NULL_text ++ rest). rewrite strip_prefix_app. reflexivity.
Qed.

Definition CS : str := s_of ", ".

Lemma scan_values_render lits : lits <> [] -> forall fuel rest,
  (length lits <= fuel)%nat -> not_sq_head rest -> strip_prefix CS rest = None ->
  scan_values fuel (join CS (map render_lit lits) ++ rest) = Some (lits, rest).
Proof.
  induction lits as [|l lits IH]; intros Hne fuel rest Hf Hr Hp; [congruence|].
  destruct fuel as [|fuel]; [cbn in Hf; lia|]. cbn [length] in Hf.
  destruct lits as [|l2 lits].
  - cbn [map join scan_values]. rewrite scan_value_render by exact Hr. fold CS. rewrite Hp. reflexivity.
  - cbn [map]. rewrite join_cons2. rewrite <- !app_assoc. cbn [scan_values].
    rewrite scan_value_render by reflexivity. fold CS. rewrite strip_prefix_app.
    change (render_lit l2 :: map render_lit lits) with (map render_lit (l2 :: lits)).
    rewrite IH; [reflexivity | discriminate | lia | exact Hr | exact Hp].
Qed.

Lemma render_nonempty l : (1 <= length (render_lit l))%nat.
Proof. destruct l; cbn; lia. Qed.

Lemma length_join_ge sep (xs : list str) : (forall x, In x xs -> (1 <= length x)%nat) ->
  (length xs <= length (join sep xs))%nat.
Proof.
  induction xs as [|x xs IH]; intros H; [cbn; lia|].
  destruct xs as [|y xs]; [cbn [join length]; specialize (H x (or_introl eq_refl)); lia|].
  rewrite join_cons2, !app_length. specialize (H x (or_introl eq_refl)) as Hx.
  assert (IH' := IH (fun z Hz => H z (or_intror Hz))). cbn [length] in *. lia.
Qed.

(** ------------------------------------------------------------------------------------------------
    the column list *)

Lemma until_rparen_app a b : contains 41 a = false -> until_rparen (a ++ 41 :: b) = Some (a, b).
Proof.
  induction a as [|c a IH]; intros H.
  - reflexivity.
  - rewrite contains_cons_c in H. apply orb_false_iff in H. destruct H as [Hc Ha].
    cbn [app until_rparen]. rewrite Z.eqb_sym, Hc. rewrite IH by exact Ha. reflexivity.
Qed.

(** a column as written in the statement: an identifier with optional white space around it *)
Definition col_ok (raw : str) : Prop :=
  forallb (fun c => is_ws c || is_ident_char c) raw = true /\ is_ident (trim raw) = true.

Lemma ws_or_ident_not_sep c : is_ws c || is_ident_char c = true -> (COMMA =? c) = false /\ (41 =? c) = false.
Proof.
  intros H. split.
  - destruct (COMMA =? c) eqn:E; [|reflexivity]. apply Z.eqb_eq in E. subst c. vm_compute in H. discriminate.
  - destruct (41 =? c) eqn:E; [|reflexivity]. apply Z.eqb_eq in E. subst c. vm_compute in H. discriminate.
Qed.

Lemma col_ok_no_sep raw : col_ok raw -> contains COMMA raw = false /\ contains 41 raw = false.
Proof.
  intros [H _]. induction raw as [|c raw IH]; [split; reflexivity|].
  cbn [forallb] in H. apply andb_true_iff in H. destruct H as [Hc Hr].
  destruct (ws_or_ident_not_sep c Hc) as [E1 E2]. destruct (IH Hr) as [I1 I2].
  rewrite !contains_cons_c, E1, E2, I1, I2. split; reflexivity.
Qed.

Lemma trim_sp p : trim (SP :: p) = trim p.
Proof. reflexivity. Qed.

Lemma split_sp X : map trim (split_on COMMA (SP :: X)) = map trim (split_on COMMA X).
Proof.
  cbn [split_on]. change (SP =? COMMA) with false. cbn iota.
  pose proof (split_on_nonempty COMMA X) as Hne.
  destruct (split_on COMMA X) as [|p ps]; [congruence|]. cbn [map]. rewrite trim_sp. reflexivity.
Qed.

Lemma split_join_cs raws : raws <> [] -> Forall (fun r => contains COMMA r = false) raws ->
  map trim (split_on COMMA (join CS raws)) = map trim raws.
Proof.
  induction raws as [|r raws IH]; intros Hne Hall; [congruence|].
  inversion Hall as [|? ? Hr Hrs]; subst. destruct raws as [|r2 raws].
  - cbn [join]. rewrite split_on_nosep by exact Hr. reflexivity.
  - rewrite join_cons2.
    change (r ++ CS ++ join CS (r2 :: raws)) with (r ++ COMMA :: SP :: join CS (r2 :: raws)).
    rewrite split_on_app_sep by exact Hr. cbn [map]. rewrite split_sp.
    rewrite IH by (discriminate || exact Hrs). reflexivity.
Qed.

Lemma contains_join_cs c raws : contains c CS = false ->
  Forall (fun r => contains c r = false) raws -> contains c (join CS raws) = false.
Proof. apply contains_join. Qed.

Lemma Forall_imp {A} (P Q : A -> Prop) l : (forall x, P x -> Q x) -> Forall P l -> Forall Q l.
Proof. intros H HP. induction HP; constructor; auto. Qed.

(** THE SHAPE LEMMA: a statement assembled by [insert_stmt] from identifier columns and rendered literals
    scans back to exactly those columns and literals *)
Lemma scan_insert_stmt table raws lits :
  raws <> [] -> lits <> [] -> Forall col_ok raws ->
  scan_insert table (insert_stmt table (join CS raws) (join CS (map render_lit lits)))
  = Some (map trim raws, lits).
Proof.
  intros Hr Hl Hok. unfold scan_insert, insert_stmt.
  replace (s_of "INSERT INTO " ++ table ++ s_of " (" ++ join CS raws ++ s_of ") VALUES (" ++
           join CS (map render_lit lits) ++ s_of ");")
    with ((s_of "INSERT INTO " ++ table ++ s_of " (") ++ join CS raws ++ 41 :: (s_of " VALUES (" ++
           (join CS (map render_lit lits) ++ s_of ");")))
    by (rewrite <- !app_assoc; reflexivity).
  rewrite strip_prefix_app.
  rewrite until_rparen_app.
  2:{ apply contains_join_cs; [reflexivity |].
      apply Forall_imp with (2 := Hok). intros x Hx. apply col_ok_no_sep in Hx. tauto. }
  rewrite split_join_cs.
  2:{ exact Hr. }
  2:{ apply Forall_imp with (2 := Hok). intros x Hx. apply col_ok_no_sep in Hx. tauto. }
  replace (forallb is_ident (map trim raws)) with true.
  2:{ symmetry. apply forallb_forall. intros x Hx. apply in_map_iff in Hx. destruct Hx as (r & <- & Hin).
      rewrite Forall_forall in Hok. apply (Hok r Hin). }
  rewrite strip_prefix_app.
  rewrite scan_values_render; [reflexivity | exact Hl | | reflexivity | reflexivity].
  rewrite app_length.
  pose proof (length_join_ge CS (map render_lit lits)) as G.
  rewrite map_length in G.
  assert (forall x, In x (map render_lit lits) -> (1 <= length x)%nat).
  { intros x Hx. apply in_map_iff in Hx. destruct Hx as (l & <- & _). apply render_nonempty. }
  specialize (G H). lia.
Qed.

(** ------------------------------------------------------------------------------------------------
    identifiers and case-insensitive comparison *)

Lemma is_ident_start_iff c : is_ident_start c = true <-> (65 <= c <= 90 \/ 97 <= c <= 122 \/ c = 95).
Proof.
  unfold is_ident_start. rewrite !orb_true_iff, !andb_true_iff, !Z.leb_le, Z.eqb_eq. tauto.
Qed.
Lemma is_ident_char_iff c : is_ident_char c = true <-> (65 <= c <= 90 \/ 97 <= c <= 122 \/ c = 95 \/ 48 <= c <= 57).
Proof.
  unfold is_ident_char. rewrite orb_true_iff, is_ident_start_iff, andb_true_iff, !Z.leb_le. tauto.
Qed.
Lemma ascii_lower_cases c : (65 <= c <= 90 /\ ascii_lower c = c + 32) \/ (~ (65 <= c <= 90) /\ ascii_lower c = c).
Proof.
  unfold ascii_lower. destruct (Z.leb_spec 65 c); destruct (Z.leb_spec c 90); cbn [andb]; lia.
Qed.

Lemma lower_eq_ident_start x y : ascii_lower x = ascii_lower y -> is_ident_start x = true -> is_ident_start y = true.
Proof.
  rewrite !is_ident_start_iff. intros E H.
  destruct (ascii_lower_cases x) as [[? Ex]|[? Ex]], (ascii_lower_cases y) as [[? Ey]|[? Ey]]; lia.
Qed.
Lemma lower_eq_ident_char x y : ascii_lower x = ascii_lower y -> is_ident_char x = true -> is_ident_char y = true.
Proof.
  rewrite !is_ident_char_iff. intros E H.
  destruct (ascii_lower_cases x) as [[? Ex]|[? Ex]], (ascii_lower_cases y) as [[? Ey]|[? Ey]]; lia.
Qed.

Lemma eq_ignore_case_ident a b : eq_ignore_case a b = true -> is_ident a = true -> is_ident b = true.
Proof.
  unfold eq_ignore_case. rewrite str_eqb_eq. intros E Ha.
  destruct a as [|x a]; [discriminate|]. destruct b as [|y b]; [discriminate|].
  cbn [map] in E. inversion E as [[E1 E2]]. cbn [is_ident] in *.
  apply andb_true_iff in Ha. destruct Ha as [Hx Hr]. apply andb_true_iff. split.
  - apply (lower_eq_ident_start x y E1 Hx).
  - clear -E2 Hr. revert b E2. induction a as [|x a IH]; intros [|y b] E2; try discriminate; [reflexivity|].
    cbn [map] in E2. inversion E2 as [[E1 E3]]. cbn [forallb] in *.
    apply andb_true_iff in Hr. destruct Hr as [Hx Hr]. rewrite (lower_eq_ident_char x y E1 Hx), (IH Hr b E3). reflexivity.
Qed.

Lemma ident_char_not_ws c : is_ident_char c = true -> is_ws c = false.
Proof.
  rewrite is_ident_char_iff. intros H. unfold is_ws.
  repeat match goal with
         | |- context [?a <=? ?b] => destruct (Z.leb_spec a b)
         | |- context [?a =? ?b] => destruct (Z.eqb_spec a b)
         end; cbn; try reflexivity; lia.
Qed.

Lemma ident_start_is_char c : is_ident_start c = true -> is_ident_char c = true.
Proof. unfold is_ident_char. intros ->. reflexivity. Qed.

Lemma is_ident_chars k : is_ident k = true -> forallb is_ident_char k = true.
Proof.
  destruct k as [|c k]; [discriminate|]. cbn [is_ident forallb]. intros H. apply andb_true_iff in H.
  destruct H as [H1 H2]. rewrite (ident_start_is_char c H1), H2. reflexivity.
Qed.

Lemma all_nonws_trim s : forallb (fun c => negb (is_ws c)) s = true -> trim s = s.
Proof.
  intros H. apply no_edge_ws_trim. unfold no_edge_ws. rewrite forallb_forall in H. apply andb_true_iff. split.
  - destruct s as [|c s]; [reflexivity|]. apply H. left. reflexivity.
  - destruct (rev s) as [|c r] eqn:E; [reflexivity|]. apply H. apply in_rev. rewrite E. left. reflexivity.
Qed.

Lemma is_ident_trim k : is_ident k = true -> trim k = k.
Proof.
  intros H. apply all_nonws_trim. apply forallb_forall. intros c Hc.
  pose proof (is_ident_chars k H) as Hk. rewrite forallb_forall in Hk.
  rewrite (ident_char_not_ws c (Hk c Hc)). reflexivity.
Qed.

Lemma is_ident_col_ok k : is_ident k = true -> col_ok k.
Proof.
  intros H. split.
  - apply forallb_forall. intros c Hc. pose proof (is_ident_chars k H) as Hk. rewrite forallb_forall in Hk.
    rewrite (Hk c Hc). apply orb_true_r.
  - rewrite is_ident_trim by exact H. exact H.
Qed.

(** a raw header field whose trimmed text is an identifier *)
Lemma trim_ident_col_ok raw : is_ident (trim raw) = true -> col_ok raw.
Proof.
  intros H. split; [|exact H].
  destruct (trim_decomp raw) as (p & q & E & Hp & Hq).
  rewrite E. rewrite !forallb_app.
  pose proof (is_ident_chars _ H) as Hk.
  assert (G : forall l, forallb is_ws l = true -> forallb (fun c => is_ws c || is_ident_char c) l = true).
  { intros l Hl. rewrite forallb_forall in *. intros c Hc. rewrite (Hl c Hc). reflexivity. }
  rewrite (G p Hp), (G q Hq).
  replace (forallb (fun c => is_ws c || is_ident_char c) (trim raw)) with true; [reflexivity|].
  symmetry. rewrite forallb_forall in *. intros c Hc. rewrite (Hk c Hc). apply orb_true_r.
Qed.

(** what a successful [validate_columns] establishes *)
Lemma validate_columns_ok sch cols : validate_columns sch cols = Ok tt ->
  Forall (fun c => exists sc, In sc sch /\ eq_ignore_case sc c = true) cols.
Proof.
  induction cols as [|c cols IH]; intros H; [constructor|].
  cbn [validate_columns] in H. destruct (existsb forbidden_char c); [discriminate|].
  destruct (existsb (fun sc => eq_ignore_case sc c) sch) eqn:E; [|discriminate].
  constructor; [|apply IH; exact H].
  apply existsb_exists in E. exact E.
Qed.

Lemma validated_ident sch c : Forall (fun s => is_ident s = true) sch ->
  (exists sc, In sc sch /\ eq_ignore_case sc c = true) -> is_ident c = true.
Proof.
  intros Hs (sc & Hin & He). rewrite Forall_forall in Hs. apply (eq_ignore_case_ident sc c He (Hs sc Hin)).
Qed.

(** ------------------------------------------------------------------------------------------------
    CSV import *)

Lemma csv_rows_length n data : forall idx rows, csv_rows n idx data = Ok rows ->
  Forall (fun r => length r = n) rows.
Proof.
  induction data as [|line data IH]; intros idx rows H.
  - cbn in H. inversion H. constructor.
  - cbn [csv_rows] in H. destruct (Nat.eqb (length (split_on COMMA line)) n) eqn:E; [|discriminate].
    destruct (csv_rows n (idx + 1) data) as [rows'|] eqn:E2; [|discriminate]. inversion H; subst.
    constructor; [|apply (IH _ _ E2)]. rewrite map_length. apply Nat.eqb_eq. exact E.
Qed.

Lemma csv_stmt_render table cols row :
  csv_stmt table cols row = insert_stmt table (join CS cols) (join CS (map render_lit (map LStr row))).
Proof. unfold csv_stmt. rewrite map_map. reflexivity. Qed.

(** import_only_inserts, CSV: for EVERY file that passes [handle_copy]'s validation, the generated
    statements are one INSERT per data record whose columns are the (validated) header names and whose
    values are string literals holding exactly the record's trimmed fields — never NULL, never anything
    but a literal. *)
Theorem import_only_inserts_csv_thm : forall (sch : list str) (file table : str) (stmts : list str),
  Forall (fun s => is_ident s = true) sch ->
  copy_import_csv (Some sch) file table = Ok stmts ->
  exists hdr rows,
    csv_records file = Ok (hdr, rows)
    /\ Forall (fun c => exists sc, In sc sch /\ eq_ignore_case sc c = true) (map trim hdr)
    /\ Forall2 (fun st row => scan_insert table st = Some (map trim hdr, map LStr row)) stmts rows.
Proof.
  intros sch file table stmts Hsch H. unfold copy_import_csv in H.
  destruct (validate_csv_columns sch file) as [u|] eqn:V; [|discriminate]. destruct u.
  unfold import_csv in H. destruct (csv_records file) as [[hdr rows]|] eqn:R; [|discriminate].
  inversion H; subst stmts. clear H.
  exists hdr, rows. split; [reflexivity|].
  unfold validate_csv_columns in V. unfold csv_records in R.
  destruct (lines file) as [|header data]; [discriminate|].
  destruct (csv_rows (length (split_on COMMA header)) 0 data) as [rows'|] eqn:CR; [|discriminate].
  inversion R; subst hdr rows'. clear R.
  pose proof (validate_columns_ok _ _ V) as Hv. split; [exact Hv|].
  pose proof (csv_rows_length _ _ _ _ CR) as Hlen.
  assert (Hcols : Forall col_ok (split_on COMMA header)).
  { apply Forall_forall. intros raw Hin. apply trim_ident_col_ok.
    rewrite Forall_forall in Hv. apply (validated_ident sch _ Hsch). apply Hv. apply in_map. exact Hin. }
  assert (Hne : split_on COMMA header <> []) by apply split_on_nonempty.
  clear CR V. induction Hlen as [|row rows Hrow _ IH]; [constructor|].
  cbn [map]. constructor; [|exact IH].
  rewrite csv_stmt_render. apply scan_insert_stmt; [exact Hne | | exact Hcols].
  destruct row; [|discriminate]. cbn in Hrow. destruct (split_on COMMA header); [congruence | discriminate].
Qed.

Example import_only_inserts_csv_example :
  let sch := [s_of "id"; s_of "name"] in
  let file := s_of "name , ID" ++ [LF] ++ s_of "x'); DROP TABLE t; --,1" ++ [LF] ++ s_of "NULL, ''" ++ [LF] in
  Forall (fun s => is_ident s = true) sch /\
  exists stmts, copy_import_csv (Some sch) file (s_of "t") = Ok stmts
    /\ map (scan_insert (s_of "t")) stmts
       = [Some ([s_of "name"; s_of "ID"], [LStr (s_of "x'); DROP TABLE t; --"); LStr (s_of "1")]);
          Some ([s_of "name"; s_of "ID"], [LStr (s_of "NULL"); LStr (s_of "''")])].
Proof. cbn zeta. split; [repeat constructor|]. eexists. split; vm_compute; reflexivity. Qed.

(** the positive end-to-end statement: what the CLI's writer writes for a rectangular table of safe cells
    under validated column names, the CLI's importer turns into one INSERT per row carrying exactly the
    row's cells as string literals *)
Lemma ident_no_forbidden k : is_ident k = true -> existsb forbidden_char k = false.
Proof.
  intros H. pose proof (is_ident_chars k H) as Hk. apply not_true_iff_false. intros Hex.
  apply existsb_exists in Hex. destruct Hex as (c & Hin & Hc). rewrite forallb_forall in Hk.
  specialize (Hk c Hin). apply is_ident_char_iff in Hk.
  unfold forbidden_char in Hc. rewrite !orb_true_iff, !Z.eqb_eq in Hc. unfold SQ, DQ in Hc. lia.
Qed.

Lemma validate_columns_complete sch cols : Forall (fun s => is_ident s = true) sch ->
  Forall (fun c => exists sc, In sc sch /\ eq_ignore_case sc c = true) cols ->
  validate_columns sch cols = Ok tt.
Proof.
  intros Hsch. induction 1 as [|c cols Hc _ IH]; [reflexivity|].
  cbn [validate_columns]. rewrite (ident_no_forbidden c (validated_ident sch c Hsch Hc)).
  replace (existsb (fun sc => eq_ignore_case sc c) sch) with true; [exact IH|].
  symmetry. apply existsb_exists. exact Hc.
Qed.

Theorem csv_export_import_thm : forall (sch header : list str) (rows : list (list str)) (table : str),
  header <> [] ->
  Forall (fun f => csv_safe f = true) header ->
  Forall (safe_row (length header)) rows ->
  Forall (fun s => is_ident s = true) sch ->
  Forall (fun h => exists sc, In sc sch /\ eq_ignore_case sc h = true) header ->
  exists stmts,
    copy_import_csv (Some sch) (export_csv header rows) table = Ok stmts
    /\ Forall2 (fun st row => scan_insert table st = Some (header, map LStr row)) stmts rows.
Proof.
  intros sch header rows table Hne Hh Hrows Hsch Hval.
  assert (Htrim : map trim header = header) by (apply map_trim_safe; exact Hh).
  assert (V : validate_csv_columns sch (export_csv header rows) = Ok tt).
  { unfold validate_csv_columns. rewrite lines_export_csv by assumption. cbn [map].
    rewrite split_on_join by (try exact Hne; apply safe_forall with (2 := Hh); intros f Hf; apply csv_safe_inv in Hf; tauto).
    rewrite Htrim. apply validate_columns_complete; assumption. }
  assert (I : import_csv (export_csv header rows) table = Ok (map (csv_stmt table header) rows)).
  { unfold import_csv. rewrite csv_code_roundtrip_thm by assumption. reflexivity. }
  exists (map (csv_stmt table header) rows). split.
  - unfold copy_import_csv. rewrite V. exact I.
  - assert (C : copy_import_csv (Some sch) (export_csv header rows) table = Ok (map (csv_stmt table header) rows))
      by (unfold copy_import_csv; rewrite V; exact I).
    destruct (import_only_inserts_csv_thm sch _ table _ Hsch C) as (hdr & rows' & R & _ & F).
    rewrite csv_code_roundtrip_thm in R by assumption. inversion R; subst hdr rows'.
    rewrite Htrim in F. exact F.
Qed.

Example csv_export_import_example :
  let sch := [s_of "ID"; s_of "NAME"] in
  let header := [s_of "id"; s_of "name"] in
  let rows := [[s_of "1"; s_of "O'Brien; DROP TABLE t; --"]; [[]; s_of "NULL"]] in
  header <> [] /\ Forall (fun f => csv_safe f = true) header /\ Forall (safe_row (length header)) rows
  /\ Forall (fun s => is_ident s = true) sch
  /\ Forall (fun h => exists sc, In sc sch /\ eq_ignore_case sc h = true) header.
Proof.
  cbn zeta. split; [discriminate|]. split; [repeat constructor|]. split; [repeat constructor|].
  split; [repeat constructor|].
  constructor; [exists (s_of "ID"); split; [left; reflexivity | reflexivity]|].
  constructor; [exists (s_of "NAME"); split; [right; left; reflexivity | reflexivity]|]. constructor.
Qed.

(** ------------------------------------------------------------------------------------------------
    JSON import *)

(** the literal the code writes for a member value *)
Definition code_lit (v : jval) : lit :=
  if str_eqb (value_text v) NULL_text then LNull else LStr (value_text v).

Lemma value_sql_render v : value_sql v = render_lit (code_lit v).
Proof.
  unfold value_sql, code_lit. destruct (str_eqb (value_text v) NULL_text) eqn:E; [|reflexivity].
  apply str_eqb_eq in E. rewrite E. reflexivity.
Qed.

Lemma json_stmt_render table m :
  json_stmt table m = insert_stmt table (join CS (map fst m)) (join CS (map render_lit (map (fun kv => code_lit (snd kv)) m))).
Proof.
  unfold json_stmt. rewrite map_map. do 2 f_equal. apply map_ext. intros kv. apply value_sql_render.
Qed.

Lemma validate_all_inv sch o objs : validate_all_objects sch (o :: objs) = Ok tt ->
  validate_columns sch (map fst (to_map o)) = Ok tt /\ validate_all_objects sch objs = Ok tt.
Proof.
  cbn [validate_all_objects]. destruct (validate_columns sch (map fst (to_map o))) as [[]|]; [|discriminate].
  intros H. split; [reflexivity | exact H].
Qed.

Lemma json_stmts_shape sch table : Forall (fun s => is_ident s = true) sch -> forall objs idx stmts,
  validate_all_objects sch objs = Ok tt ->
  json_stmts table idx objs = Ok stmts ->
  Forall2 (fun st o => scan_insert table st
                       = Some (map fst (to_map o), map (fun kv => code_lit (snd kv)) (to_map o))) stmts objs.
Proof.
  intros Hsch. induction objs as [|o objs IH]; intros idx stmts V H.
  - cbn in H. inversion H. constructor.
  - apply validate_all_inv in V. destruct V as [V1 V2].
    cbn [json_stmts] in H. destruct (to_map o) as [|kv m] eqn:Em; [discriminate|].
    destruct (json_stmts table (idx + 1) objs) as [ss|] eqn:E2; [|discriminate].
    inversion H; subst stmts. constructor; [|apply (IH _ _ V2 E2)].
    rewrite Em. rewrite json_stmt_render.
    pose proof (validate_columns_ok _ _ V1) as Hv.
    assert (Hid : Forall (fun k => is_ident k = true) (map fst (kv :: m))).
    { apply Forall_imp with (2 := Hv). intros k Hk. apply (validated_ident sch k Hsch Hk). }
    rewrite scan_insert_stmt.
    + f_equal. f_equal. clear -Hid. induction Hid as [|k ks Hk _ IHk]; [reflexivity|].
      cbn [map]. rewrite is_ident_trim by exact Hk. rewrite IHk. reflexivity.
    + discriminate.
    + discriminate.
    + apply Forall_imp with (2 := Hid). intros k Hk. apply is_ident_col_ok. exact Hk.
Qed.

(** import_only_inserts, JSON, the true version: IF every object's key set is validated, every statement
    is an INSERT of literals into identifier columns. *)
Theorem import_only_inserts_json_validated_thm : forall (sch : list str) (objs : list jobj) (table : str)
    (stmts : list str),
  Forall (fun s => is_ident s = true) sch ->
  validate_all_objects sch objs = Ok tt ->
  import_json (Some objs) table = Ok stmts ->
  Forall2 (fun st o => scan_insert table st
                       = Some (map fst (to_map o), map (fun kv => code_lit (snd kv)) (to_map o))) stmts objs.
Proof.
  intros sch objs table stmts Hsch V H. unfold import_json in H.
  destruct objs as [|o objs]; [discriminate|]. apply (json_stmts_shape sch table Hsch _ _ _ V H).
Qed.

(** what the code's own validation (first object only) guarantees: the FIRST statement *)
Theorem import_only_inserts_json_first_thm : forall (sch : list str) (o : jobj) (objs : list jobj)
    (table : str) (stmts : list str),
  Forall (fun s => is_ident s = true) sch ->
  copy_import_json (Some sch) (Some (o :: objs)) table = Ok stmts ->
  exists st rest, stmts = st :: rest /\
    scan_insert table st = Some (map fst (to_map o), map (fun kv => code_lit (snd kv)) (to_map o)).
Proof.
  intros sch o objs table stmts Hsch H. unfold copy_import_json in H.
  destruct (validate_json_columns sch (Some (o :: objs))) as [[]|] eqn:V; [|discriminate].
  cbn [validate_json_columns] in V. cbn [import_json json_stmts] in H.
  destruct (to_map o) as [|kv m] eqn:Em; [discriminate|].
  destruct (json_stmts table (0 + 1) objs) as [ss|] eqn:E2; [|discriminate].
  inversion H; subst stmts. exists (json_stmt table (kv :: m)), ss. split; [reflexivity|].
  assert (V' : validate_all_objects sch [o] = Ok tt) by (cbn; rewrite Em, V; reflexivity).
  assert (H' : json_stmts table 0 [o] = Ok [json_stmt table (kv :: m)]) by (cbn; rewrite Em; reflexivity).
  pose proof (json_stmts_shape sch table Hsch [o] 0 _ V' H') as F. inversion F; subst.
  rewrite Em in *. assumption.
Qed.

(** import_only_inserts, JSON, at full strength is FALSE of the code: a key of a later object is spliced
    into the statement unchecked.  Witness: the second object's key turns the statement into
    INSERT INTO u (a) SELECT y FROM other; --) VALUES ('5'); *)
Definition inj_schema : list str := [s_of "a"; s_of "b"].
Definition inj_file : list jobj :=
  [[(s_of "a", JStr (s_of "x"))]; [(s_of "a) SELECT y FROM other; --", JNum (s_of "5"))]].

Definition inj_table : str := s_of "u".
Definition inj_stmt : str := s_of "INSERT INTO u (a) SELECT y FROM other; --) VALUES ('5');".
Theorem import_only_inserts_json_refuted_thm :
  Forall (fun s => is_ident s = true) inj_schema /\
  exists stmts st,
    copy_import_json (Some inj_schema) (Some inj_file) inj_table = Ok stmts
    /\ In st stmts /\ scan_insert inj_table st = None /\ st = inj_stmt.
Proof.
  split; [repeat constructor|].
  eexists _, inj_stmt.
  split; [vm_compute; reflexivity|]. split; [right; left; reflexivity|]. split; vm_compute; reflexivity.
Qed.

(** the repaired validation rejects the witness *)
Example validate_all_rejects_witness :
  validate_all_objects inj_schema inj_file = Err (EForbidden (s_of "a) SELECT y FROM other; --")).
Proof. vm_compute. reflexivity. Qed.

(** ------------------------------------------------------------------------------------------------
    NULL versus the text NULL *)

(** JSON: the code's literal is the intended one exactly when the value is not the four-character text *)
Theorem json_value_faithful_iff_thm : forall v : jval,
  code_lit v = json_lit v <-> (v = JNull \/ value_text v <> NULL_text).
Proof.
  intros v. unfold code_lit, json_lit.
  destruct (str_eqb (value_text v) NULL_text) eqn:E.
  - apply str_eqb_eq in E. split.
    + intros H. destruct v; try discriminate H. left. reflexivity.
    + intros [-> | H]; [reflexivity | congruence].
  - assert (value_text v <> NULL_text) by (intros C; apply str_eqb_eq in C; congruence).
    split; [intros _; right; assumption|]. intros _. destruct v; try reflexivity. cbn in E. discriminate.
Qed.

(** null_text_confusion: the JSON string "NULL" is imported as SQL NULL *)
Definition null_stmt : str := s_of "INSERT INTO t (a) VALUES (NULL);".
Theorem null_text_confusion_refuted_thm :
  exists v : jval, v <> JNull /\ json_lit v = LStr NULL_text /\ code_lit v = LNull
    /\ json_stmt [116] [([97], v)] = null_stmt.
Proof. exists (JStr NULL_text). repeat split; try discriminate; vm_compute; reflexivity. Qed.

(** CSV: the importer cannot produce NULL at all (every literal is a string literal, see
    import_only_inserts_csv_thm: the values are [map LStr row]); so a table holding a NULL cannot be
    round-tripped through CSV by any choice of marker. *)
Theorem csv_import_never_null_thm : forall (sch : list str) (file table : str) (stmts : list str),
  Forall (fun s => is_ident s = true) sch ->
  copy_import_csv (Some sch) file table = Ok stmts ->
  Forall (fun st => exists cols vals, scan_insert table st = Some (cols, vals) /\ ~ In LNull vals) stmts.
Proof.
  intros sch file table stmts Hsch H.
  destruct (import_only_inserts_csv_thm sch file table stmts Hsch H) as (hdr & rows & _ & _ & F).
  clear H. induction F as [|st row stmts rows Hst _ IH]; [constructor|]. constructor; [|exact IH].
  exists (map trim hdr), (map LStr row). split; [exact Hst|].
  intros Hin. apply in_map_iff in Hin. destruct Hin as (x & Hx & _). discriminate.
Qed.
