(** Column types as text: [format_data_type] (persistence/save.rs) and the binary loader's
    [parse_data_type] (persistence/binary/catalog.rs).  Column types are stored in the catalog section
    as these strings.  No proofs in this file. *)
From Coq Require Import String List ZArith Bool.
From VibeSQL Require Import Codec.BinUtf8 Codec.BinDec Codec.BinValue.
Import ListNotations.
Open Scope Z_scope.

(** [vibesql_types::DataType] *)
Inductive dtype : Type :=
| TInteger | TSmallint | TBigint | TUnsigned
| TFloat (precision : Z)                 (* u8 *)
| TReal | TDouble
| TVarchar (max_length : option Z)       (* Option<usize> *)
| TChar (length : Z)                     (* usize *)
| TBoolean | TDate
| TTime (tz : bool) | TTimestamp (tz : bool)
| TInterval (start_dbg : bytes)          (* only the Debug name of start_field is ever printed *)
| TNumeric (p s : Z) | TDecimal (p s : Z)  (* u8, u8 *)
| TClob | TName | TBlob
| TBit (length : option Z)
| TUserDefined (name : bytes)
| TNull.

(** [format_data_type] *)
Definition format_data_type (t : dtype) : bytes :=
  match t with
  | TInteger => lit "INTEGER"
  | TSmallint => lit "SMALLINT"
  | TBigint => lit "BIGINT"
  | TUnsigned => lit "BIGINT UNSIGNED"
  | TFloat p => lit "FLOAT(" ++ show_uint p ++ lit ")"
  | TReal => lit "REAL"
  | TDouble => lit "DOUBLE PRECISION"
  | TVarchar (Some n) => lit "VARCHAR(" ++ show_uint n ++ lit ")"
  | TVarchar None => lit "VARCHAR"
  | TChar n => lit "CHAR(" ++ show_uint n ++ lit ")"
  | TBoolean => lit "BOOLEAN"
  | TDate => lit "DATE"
  | TTime _ => lit "TIME"
  | TTimestamp true => lit "TIMESTAMP WITH TIME ZONE"
  | TTimestamp false => lit "TIMESTAMP"
  | TInterval d => lit "INTERVAL " ++ d
  | TNumeric p s => lit "NUMERIC(" ++ show_uint p ++ lit ", " ++ show_uint s ++ lit ")"
  | TDecimal p s => lit "DECIMAL(" ++ show_uint p ++ lit ", " ++ show_uint s ++ lit ")"
  | TClob => lit "CLOB"
  | TName => lit "VARCHAR(128)"
  | TBlob => lit "BLOB"
  | TBit (Some n) => lit "BIT(" ++ show_uint n ++ lit ")"
  | TBit None => lit "BIT"
  | TUserDefined n => n
  | TNull => lit "NULL"
  end.

(** * the string helpers [parse_data_type] uses *)
(** [s.trim_start_matches(p)] for a non-empty string pattern: strip the prefix repeatedly *)
Fixpoint strip_prefix_rep (fuel : nat) (p s : bytes) : bytes :=
  match fuel with
  | O => s
  | S f => if starts_with p s then strip_prefix_rep f p (skipn (length p) s) else s
  end.
Definition trim_start_matches (p s : bytes) : bytes := strip_prefix_rep (length s) p s.

Fixpoint drop_while (f : Z -> bool) (s : bytes) : bytes :=
  match s with
  | c :: r => if f c then drop_while f r else s
  | [] => []
  end.
(** [s.trim_end_matches(c)] *)
Definition trim_end_char (c : Z) (s : bytes) : bytes := rev (drop_while (Z.eqb c) (rev s)).

(** [char::is_whitespace] on ASCII *)
Definition is_ws (c : Z) : bool := (c =? 32) || inr 9 13 c.
(** [str::trim] (ASCII-only strings) *)
Definition trim (s : bytes) : bytes := rev (drop_while is_ws (rev (drop_while is_ws s))).

(** [s.split(c)]: always at least one part *)
Fixpoint split_on (c : Z) (s : bytes) : list bytes :=
  match s with
  | [] => [[]]
  | x :: r =>
      match split_on c r with
      | p :: ps => if x =? c then [] :: p :: ps else (x :: p) :: ps
      | [] => [[]]     (* unreachable *)
      end
  end.

Definition or_default (d : Z) (o : option Z) : Z := match o with Some v => v | None => d end.

(** the [NUMERIC(p, s)] / [DECIMAL(p, s)] parameter list *)
Definition parse_prec_scale (params : bytes) : Z * Z :=
  let parts := map trim (split_on 44 params) in
  let p := or_default 38 (match nth_error parts 0 with Some x => parse_uint u8_max x | None => None end) in
  let s := or_default 0 (match nth_error parts 1 with Some x => parse_uint u8_max x | None => None end) in
  (p, s).

Definition inner (prefix upper : bytes) : bytes := trim_end_char 41 (trim_start_matches prefix upper).

(** binary/catalog.rs [parse_data_type]; [PErr] = "Unsupported data type"; [PUnknown] when the string
    is not pure ASCII ([str::to_uppercase] on non-ASCII text is outside this model) *)
Definition parse_data_type (s : bytes) : presult dtype :=
  if negb (is_ascii s) then PUnknown else
  let u := ascii_upper s in
  if bytes_eqb u (lit "INTEGER") then POk TInteger
  else if bytes_eqb u (lit "SMALLINT") then POk TSmallint
  else if bytes_eqb u (lit "BIGINT") then POk TBigint
  else if bytes_eqb u (lit "BIGINT UNSIGNED") then POk TUnsigned
  else if bytes_eqb u (lit "REAL") then POk TReal
  else if bytes_eqb u (lit "DOUBLE PRECISION") then POk TDouble
  else if bytes_eqb u (lit "BOOLEAN") then POk TBoolean
  else if bytes_eqb u (lit "DATE") then POk TDate
  else if bytes_eqb u (lit "TIME") then POk (TTime false)
  else if bytes_eqb u (lit "TIMESTAMP") || bytes_eqb u (lit "DATETIME") then POk (TTimestamp false)
  else if bytes_eqb u (lit "TIMESTAMP WITH TIME ZONE") || bytes_eqb u (lit "DATETIME WITH TIME ZONE")
       then POk (TTimestamp true)
  else if starts_with (lit "VARCHAR(") u then
    POk (TVarchar (parse_uint usize_max (inner (lit "VARCHAR(") u)))
  else if starts_with (lit "VARCHAR") u then POk (TVarchar None)
  else if starts_with (lit "CHAR(") u then
    POk (TChar (or_default 1 (parse_uint usize_max (inner (lit "CHAR(") u))))
  else if starts_with (lit "FLOAT(") u then
    POk (TFloat (or_default 53 (parse_uint u8_max (inner (lit "FLOAT(") u))))
  else if starts_with (lit "NUMERIC(") u then
    let '(p, sc) := parse_prec_scale (inner (lit "NUMERIC(") u) in POk (TNumeric p sc)
  else if starts_with (lit "DECIMAL(") u then
    let '(p, sc) := parse_prec_scale (inner (lit "DECIMAL(") u) in POk (TDecimal p sc)
  else PErr.

(** the types that survive format -> parse unchanged *)
Definition supported (t : dtype) : bool :=
  match t with
  | TInteger | TSmallint | TBigint | TUnsigned | TReal | TDouble | TBoolean | TDate => true
  | TFloat p => inr 0 u8_max p
  | TVarchar (Some n) => inr 0 usize_max n
  | TVarchar None => true
  | TChar n => inr 0 usize_max n
  | TTime tz => negb tz
  | TTimestamp _ => true
  | TNumeric p s | TDecimal p s => inr 0 u8_max p && inr 0 u8_max s
  | TInterval _ | TClob | TName | TBlob | TBit _ | TUserDefined _ | TNull => false
  end.

Definition dtype_eqb (a b : dtype) : bool :=
  match a, b with
  | TInteger, TInteger | TSmallint, TSmallint | TBigint, TBigint | TUnsigned, TUnsigned
  | TReal, TReal | TDouble, TDouble | TBoolean, TBoolean | TDate, TDate
  | TClob, TClob | TName, TName | TBlob, TBlob | TNull, TNull => true
  | TFloat p, TFloat q => p =? q
  | TVarchar (Some n), TVarchar (Some m) => n =? m
  | TVarchar None, TVarchar None => true
  | TChar n, TChar m => n =? m
  | TTime x, TTime y | TTimestamp x, TTimestamp y => Bool.eqb x y
  | TInterval x, TInterval y | TUserDefined x, TUserDefined y => bytes_eqb x y
  | TNumeric p s, TNumeric q r | TDecimal p s, TDecimal q r => (p =? q) && (s =? r)
  | TBit (Some n), TBit (Some m) => n =? m
  | TBit None, TBit None => true
  | _, _ => false
  end.
