(** Model of crates/vibesql-storage/src/persistence/binary/{format.rs (TypeTag), value.rs}:
    [write_sql_value] / [read_sql_value].

    Values are the shared [sqlvalue] (floats by bit pattern, strings by UTF-8 bytes).  An INTERVAL is
    written as its original text ([Interval::value], what [Display] prints) and rebuilt with
    [Interval::new(text)]; the shared [VInterval] only carries the derived (months, days, microseconds)
    triple, so the codec value type [bvalue] keeps intervals as their text ([BInterval]).

    Temporal values travel as TEXT: [Display] on the way out (the show functions of BinDec), [FromStr] on the way in.
    The four [FromStr]/[Interval::new] functions belong to property C22; here they are the oracle
    fields of [env] with a four-valued answer (parsed / rejected / PANICKED / not modelled), so that the
    decoder stays total and panics that originate in them stay visible.

    Tag bytes come from Generated/Consts.v (regenerated from format.rs on every run).
    No proofs in this file. *)
From Coq Require Import List ZArith Bool.
From VibeSQL Require Import Generated.Consts Value.SqlValue Codec.BinUtf8 Codec.BinPrim Codec.BinDec.
Import ListNotations.
Open Scope Z_scope.

Inductive presult (A : Type) : Type :=
| POk (a : A)
| PErr
| PPanic
| PUnknown.
Arguments POk {A} a.
Arguments PErr {A}.
Arguments PPanic {A}.
Arguments PUnknown {A}.

(** everything the decoder model takes from outside *)
Record env : Type := mkEnv {
  parse_date : bytes -> presult (Z * Z * Z);                       (* <Date as FromStr> *)
  parse_time : bytes -> presult (Z * Z * Z * Z);                   (* <Time as FromStr> *)
  parse_timestamp : bytes -> presult (Z * Z * Z * Z * Z * Z * Z);  (* <Timestamp as FromStr> *)
  parse_interval : bytes -> presult unit;                          (* Interval::new: never Err *)
  stack_limit : Z;   (* nesting depth of read_expression the thread's stack can hold *)
  spin_limit : Z;    (* unused since read_data rejects rows for a table without columns (kept for interface stability) *)
}.

Inductive kind : Type :=
| KNull | KSmallint | KInteger | KBigint | KUnsigned | KNumeric | KFloat | KReal | KDouble
| KCharacter | KVarchar | KBoolean | KDate | KTime | KTimestamp | KInterval.

Definition all_kinds : list kind :=
  [KNull; KSmallint; KInteger; KBigint; KUnsigned; KNumeric; KFloat; KReal; KDouble;
   KCharacter; KVarchar; KBoolean; KDate; KTime; KTimestamp; KInterval].

(** [TypeTag::X as u8] *)
Definition tag_byte (k : kind) : Z :=
  match k with
  | KNull => bin_tag_Null | KSmallint => bin_tag_Smallint | KInteger => bin_tag_Integer
  | KBigint => bin_tag_Bigint | KUnsigned => bin_tag_Unsigned | KNumeric => bin_tag_Numeric
  | KFloat => bin_tag_Float | KReal => bin_tag_Real | KDouble => bin_tag_Double
  | KCharacter => bin_tag_Character | KVarchar => bin_tag_Varchar | KBoolean => bin_tag_Boolean
  | KDate => bin_tag_Date | KTime => bin_tag_Time | KTimestamp => bin_tag_Timestamp
  | KInterval => bin_tag_Interval
  end.

(** [TypeTag::from_u8]: first matching arm of the regenerated table *)
Fixpoint assoc_z (t : list (Z * Z)) (b : Z) : option Z :=
  match t with
  | [] => None
  | (k, v) :: r => if k =? b then Some v else assoc_z r b
  end.
Definition tag_from_u8 (b : Z) : option kind :=
  match assoc_z bin_from_u8_table b with
  | Some i => nth_error all_kinds (Z.to_nat i)
  | None => None
  end.

Inductive bvalue : Type :=
| BV (v : sqlvalue)            (* any non-interval value *)
| BInterval (text : bytes).

Definition kind_of (b : bvalue) : kind :=
  match b with
  | BInterval _ => KInterval
  | BV v =>
      match v with
      | VInteger _ => KInteger | VSmallint _ => KSmallint | VBigint _ => KBigint | VUnsigned _ => KUnsigned
      | VNumeric _ => KNumeric | VFloat _ => KFloat | VReal _ => KReal | VDouble _ => KDouble
      | VCharacter _ => KCharacter | VVarchar _ => KVarchar | VBoolean _ => KBoolean
      | VDate _ _ _ => KDate | VTime _ _ _ _ => KTime | VTimestamp _ _ _ _ _ _ _ => KTimestamp
      | VInterval _ _ _ => KInterval | VNull => KNull
      end
  end.

(** payload after the tag byte *)
Definition write_payload (b : bvalue) : bytes :=
  match b with
  | BInterval t => w_string t
  | BV v =>
      match v with
      | VNull => []
      | VSmallint z => w_i16 z
      | VInteger z => w_i64 z
      | VBigint z => w_i64 z
      | VUnsigned z => w_u64 z
      | VNumeric f => w_f64 f
      | VFloat f => w_f32 f
      | VReal f => w_f32 f
      | VDouble f => w_f64 f
      | VCharacter s => w_string s
      | VVarchar s => w_string s
      | VBoolean x => w_bool x
      | VDate y m d => w_string (show_date y m d)
      | VTime h mi s ns => w_string (show_time h mi s ns)
      | VTimestamp y m d h mi s ns => w_string (show_timestamp y m d h mi s ns)
      | VInterval _ _ _ => w_string []      (* not a codec value: see [wf_bvalue] *)
      end
  end.

(** [write_sql_value] *)
Definition write_value (b : bvalue) : bytes := tag_byte (kind_of b) :: write_payload b.

Definition of_presult {A B} (k : Z) (r : presult A) (f : A -> B) : dec B :=
  match r with
  | POk a => ret (f a)
  | PErr => fail ETemporal
  | PPanic => stop (Panic (PTemporal k))
  | PUnknown => stop Unmodelled
  end.

(** [read_sql_value] *)
Definition read_value (E : env) : dec bvalue :=
  tag <- read_u8 ;;
  match tag_from_u8 tag with
  | None => fail (ETag tag)
  | Some k =>
      match k with
      | KNull => ret (BV VNull)
      | KSmallint => z <- read_i16 ;; ret (BV (VSmallint z))
      | KInteger => z <- read_i64 ;; ret (BV (VInteger z))
      | KBigint => z <- read_i64 ;; ret (BV (VBigint z))
      | KUnsigned => z <- read_u64 ;; ret (BV (VUnsigned z))
      | KNumeric => z <- read_f64 ;; ret (BV (VNumeric z))
      | KFloat => z <- read_f32 ;; ret (BV (VFloat z))
      | KReal => z <- read_f32 ;; ret (BV (VReal z))
      | KDouble => z <- read_f64 ;; ret (BV (VDouble z))
      | KCharacter => s <- read_string ;; ret (BV (VCharacter s))
      | KVarchar => s <- read_string ;; ret (BV (VVarchar s))
      | KBoolean => x <- read_bool ;; ret (BV (VBoolean x))
      | KDate => s <- read_string ;;
                 of_presult 0 (parse_date E s) (fun '(y, m, d) => BV (VDate y m d))
      | KTime => s <- read_string ;;
                 of_presult 1 (parse_time E s) (fun '(h, mi, se, ns) => BV (VTime h mi se ns))
      | KTimestamp => s <- read_string ;;
                 of_presult 2 (parse_timestamp E s)
                   (fun '(y, m, d, h, mi, se, ns) => BV (VTimestamp y m d h mi se ns))
      | KInterval => s <- read_string ;;
                 of_presult 3 (parse_interval E s) (fun _ => BInterval s)
      end
  end.

(** * what a Rust [SqlValue] can hold, as far as the codec is concerned *)
Definition wf_str (s : bytes) : bool := all_bytes s && utf8_valid s && (blen s <? 2 ^ 32).

Definition wf_bvalue (b : bvalue) : bool :=
  match b with
  | BInterval t => wf_str t
  | BV v =>
      match v with
      | VInterval _ _ _ => false
      | VCharacter s | VVarchar s => wf_str s
      | _ => wf v
      end
  end.

(** the values whose text form the temporal parsers are expected to take back (C22's domain):
    the oracle must return the value for the text [Display] prints *)
Definition temporal_roundtrips (E : env) (b : bvalue) : Prop :=
  match b with
  | BV (VDate y m d) => parse_date E (show_date y m d) = POk (y, m, d)
  | BV (VTime h mi s ns) => parse_time E (show_time h mi s ns) = POk (h, mi, s, ns)
  | BV (VTimestamp y m d h mi s ns) =>
      parse_timestamp E (show_timestamp y m d h mi s ns) = POk (y, m, d, h, mi, s, ns)
  | BInterval t => parse_interval E t = POk tt
  | _ => True
  end.
