(** Vocabulary of the C19 theorems: which strings, values, columns and databases the SQL-dump
    round trip is claimed for.  Every predicate is a boolean function, so the correspondence
    runner evaluates the same definitions the theorems are stated with.  Definitions only. *)
From Coq Require Import Strings.String.
From Coq Require Import List ZArith Bool.
From VibeSQL Require Import Value.SqlValue Value.Dec Value.RStr Value.Temporal.
From VibeSQL Require Import Lex.Splitter Lex.DumpLex Codec.SqlLiteral Codec.SqlLoad.
Import ListNotations.
Open Scope Z_scope.

(** * Strings the splitter keeps intact *)

(** [esc_safe] and [has_nl] are defined in Lex/Splitter.v *)
Definition str_ok (s : str) : bool := negb (has_nl s) && esc_safe s.

(** * Identifiers that read back as themselves: upper-case ASCII words that are not keywords *)
Definition is_ident_start (c : Z) : bool := ((65 <=? c) && (c <=? 90)) || (c =? 95).
Definition is_ident_char (c : Z) : bool := is_ident_start c || is_digit c.
Definition ident_ok (s : str) : bool :=
  match s with
  | [] => false
  | c :: r => is_ident_start c && forallb is_ident_char r
              && match kw_lookup Generated.Consts.lex_keyword_table s with None => true | Some _ => false end
  end.

(** * Column types whose printed form parses back to the same type *)
Definition u8_ok (z : Z) : bool := (0 <=? z) && (z <=? 255).
Definition usize_ok (z : Z) : bool := (0 <=? z) && (z <=? 18446744073709551615).
Definition type_ok (t : dtype) : bool :=
  match t with
  | TInteger | TSmallint | TBigint | TReal | TDouble | TBoolean | TDate => true
  | TFloat p => u8_ok p
  | TVarchar None => true
  | TVarchar (Some n) => usize_ok n
  | TChar n => usize_ok n
  | TTime tz => negb tz
  | TTimestamp _ => true
  | TNumeric p s => u8_ok p && u8_ok s
  | _ => false
  end.

(** * Values *)
Definition i64_max : Z := 9223372036854775807.
Definition nonneg_i64 (n : Z) : bool := (0 <=? n) && (n <=? i64_max).
(** finite and sign bit clear (this excludes [-0.0]) *)
Definition finite_pos (w b : Z) : bool := (0 <=? b) && (b <? f_inf w).

(** the canonical NaN ([f64::NAN] / [f32::NAN]) and the two infinities: what the quoted spellings
    of the dump are read back as (a NaN with another payload or sign comes back as this one) *)
Definition special64 (b : Z) : bool :=
  (b =? 9221120237041090560) || (b =? 9218868437227405312) || (b =? 18442240474082181120).
Definition special32 (b : Z) : bool :=
  (b =? 2143289344) || (b =? 2139095040) || (b =? 4286578688).

Definition valid_date_b (y m d : Z) : bool :=
  (-2147483648 <=? y) && (y <=? 2147483647) && (1 <=? m) && (m <=? 12) && (1 <=? d) && (d <=? 31).
Definition valid_time_b (h mi s ns : Z) : bool :=
  (0 <=? h) && (h <=? 23) && (0 <=? mi) && (mi <=? 59) && (0 <=? s) && (s <=? 59)
  && (0 <=? ns) && (ns <=? 999999999).

Definition is_none {A} (o : option A) : bool := match o with None => true | Some _ => false end.

Section Spec.
Variable fl : float_ops.

(** the value is one the dump of a column of type [t] carries through a reload unchanged *)
Definition value_ok (t : dtype) (nullable : bool) (v : sqlvalue) : bool :=
  match v with
  | VNull => nullable
  | _ =>
      match t, v with
      | TInteger, VInteger n => nonneg_i64 n
      | TBigint, VBigint n => nonneg_i64 n
      | TSmallint, VSmallint n => (0 <=? n) && (n <=? 32767)
      | TDouble, VDouble b => finite_pos 64 b || special64 b
      | TReal, VReal b => finite_pos 32 b || special32 b
      | TFloat _, VFloat b => finite_pos 32 b || special32 b
      | TNumeric _ _, VNumeric b => finite_pos 64 b
      | TVarchar None, VVarchar s => str_ok s
      | TVarchar (Some n), VVarchar s => str_ok s && (blen s <=? n)
      | TChar n, VCharacter s => str_ok s && (Z.of_nat (length s) =? n)
      | TBoolean, VBoolean _ => true
      | TDate, VDate y m d => valid_date_b y m d
      | TTime _, VTime h mi s ns => valid_time_b h mi s ns
      | TTimestamp _, VTimestamp y m d h mi s ns => valid_date_b y m d && valid_time_b h mi s ns
      | _, _ => false
      end
  end.

Fixpoint row_ok (cols : list column) (row : list sqlvalue) : bool :=
  match cols, row with
  | [], [] => true
  | c :: cs, v :: vs => value_ok (c_type c) (c_nullable c) v && row_ok cs vs
  | _, _ => false
  end.

Definition column_ok (c : column) : bool := ident_ok (c_name c) && type_ok (c_type c).

Definition table_ok (t : table) : bool :=
  ident_ok (t_name t)
  && (match t_cols t with [] => false | _ => true end) && forallb column_ok (t_cols t) && names_distinct (map c_name (t_cols t))
  && forallb (row_ok (t_cols t)) (t_rows t).

Definition db_ok (db : list table) : bool :=
  forallb table_ok db && names_distinct (map t_name db).

End Spec.

(** the text printed for the generation time stays on its comment line *)
Definition generated_ok (g : str) : bool := negb (existsb (fun c => (c =? 10) || (c =? 13)) g).

(** * String values of a database (for the splitter theorems and the runner) *)
Definition value_strings (v : sqlvalue) : list str :=
  match v with VVarchar s => [s] | VCharacter s => [s] | _ => [] end.
Definition db_strings (db : list table) : list str :=
  flat_map (fun t => flat_map (fun r => flat_map value_strings r) (t_rows t)) db.
