(** Codec/WireStreamLaws.v — C27: a stream of well-formed frames yields the same messages under
    every segmentation into chunks (whole, byte by byte, anything in between); and the packaged
    statements pinned by Props/C27.v. *)
From Coq Require Import ZArith List Bool Lia.
From VibeSQL Require Import Generated.Consts Codec.Wire Codec.WireSpec Codec.WireBytes
  Codec.WireDecodeLaws Codec.WireStartupLaws Codec.WireFrontendLaws.
Import ListNotations.
Open Scope Z_scope.

(** * Streams of well-formed frames decode to the same messages under every segmentation *)
Definition good (m : fmsg) : Prop := wf_frontend m = true /\ is_startup_kind m = false.

Lemma enc_regular_shape m : good m ->
  exists t a b c d payload, enc_frontend m = t :: a :: b :: c :: d :: payload
    /\ s32 a b c d = 4 + blen payload /\ 4 + blen payload < two31.
Proof.
  intros [W K]. destruct m as [v ps|p|q| |]; cbn [is_startup_kind wf_frontend enc_frontend] in *; try discriminate K.
  - apply andb_true_iff in W. destruct W as [_ W]. apply Z.ltb_lt in W. pose proof (blen_nonneg p).
    destruct (be32_shape (4 + blen p + 1)) as (a & b & c & d & E & _ & _ & _ & _ & V). rewrite E.
    rewrite as_i32_id in V by (apply in_i32_of_bounds; lia).
    exists P_Password, a, b, c, d, (cstr p). unfold cstr. rewrite blen_app, blen_cons, blen_nil. repeat split; [lia|lia].
  - apply andb_true_iff in W. destruct W as [_ W]. apply Z.ltb_lt in W. pose proof (blen_nonneg q).
    destruct (be32_shape (4 + blen q + 1)) as (a & b & c & d & E & _ & _ & _ & _ & V). rewrite E.
    rewrite as_i32_id in V by (apply in_i32_of_bounds; lia).
    exists P_Query, a, b, c, d, (cstr q). unfold cstr. rewrite blen_app, blen_cons, blen_nil. repeat split; [lia|lia].
  - exists P_Terminate, 0, 0, 0, 4, []. repeat split; reflexivity.
Qed.

Lemma enc_regular_nonempty m : good m -> (5 <= length (enc_frontend m))%nat.
Proof. intros G. destruct (enc_regular_shape m G) as (t & a & b & c & d & pl & -> & _). cbn [length]. lia. Qed.

(** a proper prefix of a well-formed frame: need-more, buffer untouched *)
Lemma decode_proper_prefix oc m p q : good m -> enc_frontend m = p ++ q -> q <> [] -> decode oc p = (Ok None, p).
Proof.
  intros G E Q. destruct (enc_regular_shape m G) as (t & a & b & c & d & pl & Es & V & R).
  rewrite Es in E.
  destruct p as [|p0 [|p1 [|p2 [|p3 [|p4 p']]]]]; try (apply decode_short; cbn; lia).
  cbn [app] in E. injection E as -> -> -> -> -> Epl.
  rewrite decode_long, V.
  pose proof (blen_nonneg pl). pose proof (blen_nonneg p').
  destruct (need_of_cases oc (4 + blen pl) ltac:(lia)) as [[? _]|[[? _]|[_ ->]]]; [lia|lia|].
  assert (blen q > 0). { destruct q; [contradiction|]. rewrite blen_cons. pose proof (blen_nonneg q). lia. }
  rewrite Epl, blen_app. destruct (Z.ltb_spec (5 + blen p') (1 + (4 + (blen p' + blen q)))); [reflexivity|lia].
Qed.

Definition partial (p : bytes) (ms : list fmsg) : Prop :=
  p = [] \/ exists m ms' q, ms = m :: ms' /\ enc_frontend m = p ++ q /\ q <> [].

Lemma decode_partial oc p ms : Forall good ms -> partial p ms -> decode oc p = (Ok None, p).
Proof.
  intros F [->|(m & ms' & q & -> & E & Q)]; [apply decode_short; cbn; lia|].
  inversion F; subst. eapply decode_proper_prefix; eassumption.
Qed.

(** complete frames followed by a partial one: [drain] returns the complete ones *)
Lemma drain_frames oc : forall ms1 p ms2 fuel,
  Forall good ms1 -> Forall good ms2 -> partial p ms2 -> (length ms1 < fuel)%nat ->
  drain oc fuel (flat_map enc_frontend ms1 ++ p) = (ms1, SNeed p).
Proof.
  induction ms1 as [|m ms1 IH]; intros p ms2 fuel F1 F2 P Hf.
  - destruct fuel as [|fuel]; [lia|]. cbn [flat_map app drain]. rewrite (decode_partial oc p ms2 F2 P). reflexivity.
  - destruct fuel as [|fuel]; [cbn in Hf; lia|]. inversion F1; subst.
    cbn [flat_map drain]. rewrite <- app_assoc.
    destruct H1 as [W K]. rewrite (decode_encode_regular_thm oc m _ W K).
    rewrite (IH p ms2 fuel H2 F2 P ltac:(cbn [length] in Hf; lia)). reflexivity.
Qed.

Lemma flat_map_enc_length ms : Forall good ms -> (length ms <= length (flat_map enc_frontend ms))%nat.
Proof.
  induction 1 as [|m ms G F IH]; cbn [flat_map length]; [lia|].
  rewrite app_length. pose proof (enc_regular_nonempty m G). lia.
Qed.

(** a prefix of a concatenation of frames = some complete frames + a proper prefix of the next one *)
Lemma prefix_split : forall ms (x y : bytes), x ++ y = flat_map enc_frontend ms ->
  exists ms1 ms2 p, ms = ms1 ++ ms2 /\ x = flat_map enc_frontend ms1 ++ p /\ p ++ y = flat_map enc_frontend ms2
                    /\ partial p ms2.
Proof.
  induction ms as [|m ms IH]; intros x y E.
  - cbn [flat_map] in E. apply app_eq_nil in E. destruct E as [-> ->].
    exists [], [], []. repeat split. left. reflexivity.
  - cbn [flat_map] in E. apply app_eq_app in E. destruct E as (l & [[E1 E2]|[E1 E2]]).
    + (* x reaches beyond the first frame *)
      destruct l as [|l0 l].
      * rewrite app_nil_r in E1. subst x. cbn [app] in E2.
        exists [m], ms, []. cbn [flat_map app]. rewrite !app_nil_r. repeat split; [symmetry; exact E2|]. left. reflexivity.
      * symmetry in E2. destruct (IH (l0 :: l) y E2) as (ms1 & ms2 & p & -> & El & Ep & P).
        exists (m :: ms1), ms2, p. cbn [flat_map app]. rewrite E1, El, <- app_assoc. repeat split; assumption.
    + (* x is a prefix of the first frame *)
      destruct l as [|l0 l].
      * rewrite app_nil_r in E1. subst x. cbn [app] in E2.
        exists [m], ms, []. cbn [flat_map app]. rewrite !app_nil_r. repeat split; [exact E2|]. left. reflexivity.
      * exists [], (m :: ms), x. cbn [flat_map app]. repeat split.
        -- rewrite E2, app_assoc, <- E1. reflexivity.
        -- right. exists m, ms, (l0 :: l). repeat split; [exact E1|discriminate].
Qed.

Lemma feed_frames_inv oc : forall chunks p ms,
  Forall good ms -> partial p ms -> p ++ concat chunks = flat_map enc_frontend ms ->
  feed oc p chunks = (ms, SNeed []).
Proof.
  induction chunks as [|c cs IH]; intros p ms F P E.
  - cbn [concat] in E. rewrite app_nil_r in E. cbn [feed].
    destruct P as [->|(m & ms' & q & -> & Em & Q)].
    + destruct ms as [|m ms]; [reflexivity|]. exfalso. inversion F; subst.
      pose proof (enc_regular_nonempty m H1) as L. cbn [flat_map] in E.
      apply (f_equal (@length Z)) in E. rewrite app_length in E. cbn [length] in E. lia.
    + exfalso. cbn [flat_map] in E. apply (f_equal (@length Z)) in E. apply (f_equal (@length Z)) in Em.
      rewrite !app_length in *. destruct q; [contradiction|]. cbn [length] in Em. lia.
  - cbn [concat] in E. rewrite app_assoc in E.
    destruct (prefix_split ms (p ++ c) (concat cs) E) as (ms1 & ms2 & p' & -> & Ex & Ey & P').
    apply Forall_app in F. destruct F as [F1 F2].
    cbn [feed]. rewrite Ex.
    rewrite (drain_frames oc ms1 p' ms2 _ F1 F2 P').
    + rewrite (IH p' ms2 F2 P' Ey). reflexivity.
    + pose proof (flat_map_enc_length ms1 F1). rewrite app_length. lia.
Qed.

Theorem feed_frames_thm oc ms chunks :
  Forall (fun m => wf_frontend m = true /\ is_startup_kind m = false) ms ->
  concat chunks = flat_map enc_frontend ms ->
  feed oc [] chunks = (ms, SNeed []).
Proof. intros F E. apply feed_frames_inv; [exact F|left; reflexivity|exact E]. Qed.

Example ex_feed :
  feed true [] [[81; 0; 0]; [0; 7; 104; 105]; [0; 88; 0; 0; 0; 4]] = ([FQuery [104; 105]; FTerminate], SNeed []).
Proof. vm_compute. reflexivity. Qed.

(** * The startup reference satisfies the property as well *)
Theorem spec_startup_framing_thm b m rest :
  spec_decode_startup b = OMsg m rest ->
  exists frame, b = frame ++ rest /\ blen frame = startup_declared_len b /\ 8 <= startup_declared_len b.
Proof.
  destruct (bytes_case4 b) as [[Hs _]|(l0 & l1 & l2 & l3 & r & ->)].
  { rewrite spec_decode_startup_short by assumption. discriminate. }
  unfold startup_declared_len. cbn [startup_header].
  cbn [spec_decode_startup].
  destruct (Z.ltb_spec (s32 l0 l1 l2 l3) 8) as [|H8]; [discriminate|].
  destruct (Z.ltb_spec (blen r) (s32 l0 l1 l2 l3 - 4)) as [|Hc]; [discriminate|].
  set (n := Z.to_nat (s32 l0 l1 l2 l3 - 4)).
  intros H.
  assert (Hr : rest = skipn n r).
  { destruct (firstn n r) as [|v0 [|v1 [|v2 [|v3 pbody]]]]; try discriminate.
    destruct (s32 v0 v1 v2 v3 =? P_SSLRequestCode); [inversion H; reflexivity|].
    destruct (spec_params _ _ _); [inversion H; reflexivity|discriminate]. }
  exists (l0 :: l1 :: l2 :: l3 :: firstn n r). rewrite Hr. split; [|split].
  - cbn [app]. rewrite firstn_skipn. reflexivity.
  - rewrite !blen_cons, blen_firstn by (unfold n, blen in *; lia). unfold n. lia.
  - lia.
Qed.

Theorem spec_startup_progress_thm b :
  spec_decode_startup b = ONeedMore <->
  (blen b < 4 \/ (8 <= startup_declared_len b /\ blen b < startup_declared_len b)).
Proof.
  destruct (bytes_case4 b) as [[Hs _]|(l0 & l1 & l2 & l3 & r & ->)].
  { rewrite spec_decode_startup_short by assumption. tauto. }
  unfold startup_declared_len. cbn [startup_header spec_decode_startup]. rewrite !blen_cons. pose proof (blen_nonneg r).
  destruct (Z.ltb_spec (s32 l0 l1 l2 l3) 8) as [|H8]; [split; [discriminate|lia]|].
  destruct (Z.ltb_spec (blen r) (s32 l0 l1 l2 l3 - 4)) as [|Hc]; [split; [intros _; right; lia|reflexivity]|].
  split; [|lia]. intros C. exfalso.
  destruct (firstn _ r) as [|v0 [|v1 [|v2 [|v3 pbody]]]]; try discriminate.
  destruct (s32 v0 v1 v2 v3 =? P_SSLRequestCode); [discriminate|].
  destruct (spec_params _ _ _); discriminate.
Qed.

(** a well-formed startup packet is outside every known class, hence (refinement) the reference decodes it *)
Lemma enc_startup_not_known m rest :
  wf_frontend m = true -> is_startup_kind m = true -> known_startup (enc_frontend m ++ rest) = false.
Proof.
  intros W K.
  pose proof (decode_startup_encode_thm m rest W K) as D.
  unfold known_startup, ks_neg_len, ks_short_wait, ks_short_panic, ks_short_overread, ks_ssl_tail, ks_params_misframed.
  rewrite D. cbn [observe is_verr is_vmsg obs_rest_len negb].
  destruct m as [v ps|p|q| |]; cbn [is_startup_kind] in K; try discriminate K.
  - cbn [wf_frontend] in W.
    apply andb_true_iff in W. destruct W as [W Wlen]. apply Z.ltb_lt in Wlen.
    apply andb_true_iff in W. destruct W as [W _]. apply andb_true_iff in W. destruct W as [W _].
    apply andb_true_iff in W. destruct W as [Wv Wssl]. apply negb_true_iff in Wssl.
    cbn [enc_frontend].
    pose proof (blen_nonneg (enc_params ps)) as Hp0. pose proof (blen_nonneg rest) as Hr0.
    destruct (be32_shape (4 + (4 + blen (enc_params ps) + 1))) as (a & b & c & d & E & _ & _ & _ & _ & V). rewrite E.
    rewrite as_i32_id in V by (apply in_i32_of_bounds; lia).
    destruct (be32_shape v) as (a' & b' & c' & d' & E' & _ & _ & _ & _ & V'). rewrite E'.
    rewrite (as_i32_id v Wv) in V'.
    cbn [app startup_header]. rewrite V, V', Wssl.
    rewrite !blen_cons, !blen_app, !blen_cons, blen_nil.
    repeat match goal with
    | |- context [?x <? ?y] => destruct (Z.ltb_spec x y); try lia
    | |- context [?x <=? ?y] => destruct (Z.leb_spec x y); try lia
    end; cbn [andb orb negb]; rewrite ?andb_false_r; try reflexivity.
    all: match goal with |- context [?x =? ?y] => destruct (Z.eqb_spec x y); [reflexivity|lia] end.
  - cbn [enc_frontend]. change (be32 8) with [0; 0; 0; 8]. change (be32 P_SSLRequestCode) with [4; 210; 22; 47].
    cbn [app startup_header]. change (s32 0 0 0 8) with 8. change (s32 4 210 22 47) with 80877103.
    rewrite !blen_cons. pose proof (blen_nonneg rest).
    repeat match goal with
    | |- context [?x <? ?y] => destruct (Z.ltb_spec x y); try lia
    | |- context [?x <=? ?y] => destruct (Z.leb_spec x y); try lia
    end; cbn [andb orb negb]; rewrite ?andb_false_r; reflexivity.
Qed.

Theorem spec_startup_roundtrip_thm m rest :
  wf_frontend m = true -> is_startup_kind m = true -> spec_decode_startup (enc_frontend m ++ rest) = OMsg m rest.
Proof.
  intros W K.
  pose proof (startup_refines_spec_thm _ (enc_startup_not_known m rest W K)) as A.
  rewrite (decode_startup_encode_thm m rest W K) in A. cbn [observe] in A.
  destruct (spec_decode_startup (enc_frontend m ++ rest)) as [m' rest'| |]; cbn [agrees] in A; try discriminate A.
  inversion A; reflexivity.
Qed.

(** * Packaged statements (pinned by Props/C27.v) *)
Lemma model_total_pin : forall oc b, fst (decode oc b) <> Fuel /\ fst (decode_startup b) <> Fuel.
Proof. intros oc b. split; [exact (decode_never_fuel_thm oc b) | exact (decode_startup_never_fuel_thm b)]. Qed.

Lemma decode_suffix_pin : forall oc b r b',
  (decode oc b = (r, b') -> exists pre, b = pre ++ b')
  /\ (decode_startup b = (r, b') -> exists pre, b = pre ++ b').
Proof. intros oc b r b'. split; [exact (decode_suffix_thm oc b r b') | exact (decode_startup_suffix_thm b r b')]. Qed.

Lemma need_more_untouched_pin : forall oc b b',
  (decode oc b = (Ok None, b') -> b' = b) /\ (decode_startup b = (Ok None, b') -> b' = b).
Proof.
  intros oc b b'. split; [exact (decode_need_more_untouched_thm oc b b') | exact (decode_startup_need_more_untouched_thm b b')].
Qed.

Lemma negative_length_waits_pin : forall oc b ext,
  (k_neg_len b = true -> k_len_minus1 b = false -> blen (b ++ ext) < two63 ->
     decode oc (b ++ ext) = (Ok None, b ++ ext))
  /\ (ks_neg_len b = true -> blen (b ++ ext) < two63 -> decode_startup (b ++ ext) = (Ok None, b ++ ext)).
Proof.
  intros oc b ext. split; [exact (decode_eternal_wait_thm oc b ext) | exact (decode_startup_eternal_wait_thm b ext)].
Qed.

Lemma decode_encode_frontend_pin : forall oc m rest,
  wf_frontend m = true ->
  (is_startup_kind m = false -> decode oc (enc_frontend m ++ rest) = (Ok (Some m), rest))
  /\ (is_startup_kind m = true -> decode_startup (enc_frontend m ++ rest) = (Ok (Some m), rest)).
Proof.
  intros oc m rest W. split; [exact (decode_encode_regular_thm oc m rest W) | exact (decode_startup_encode_thm m rest W)].
Qed.

Lemma known_classes_exact_pin : forall b, blen b < two63 ->
  (known_decode b = true -> ~ agrees (observe (decode true b)) b (spec_decode b))
  /\ (known_startup b = true -> ~ agrees (observe (decode_startup b)) b (spec_decode_startup b)).
Proof. intros b H. split; [exact (decode_known_exact_thm b H) | exact (startup_known_exact_thm b H)]. Qed.
