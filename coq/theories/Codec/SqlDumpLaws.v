(** The text written by [save_sql_dump] (Codec/SqlLiteral.v) seen as the line structure of
    Lex/SplitterLaws.v, and what the splitter does with it.

      [dump_text_file]    dump_text = file_text (dump_dlines ...): comment / blank lines and one
                          statement line per CREATE TABLE / INSERT, each INSERT made of plain text
                          and quoted literals;
      [split_dump_thm]    for every database whose names and non-string literals are ordinary
                          text ([db_benign]): the splitter returns exactly the statements that were
                          written and ends outside any string  IFF  every string value is free of
                          newlines and [esc_safe] ([str_ok]). *)
From Coq Require Import Strings.String.
From Coq Require Import List ZArith Bool Lia.
From VibeSQL Require Import Value.SqlValue Value.Dec Value.DecLaws Value.RStr Value.RStrLaws Value.Temporal.
From VibeSQL Require Import Lex.Splitter Lex.SplitterLaws Lex.DumpLex Codec.SqlLiteral Codec.SqlLoad Codec.SqlDumpSpec.
Import ListNotations.
Open Scope Z_scope.

(** * Characters *)
Lemma digit_plain c : is_digit c = true -> plainc c = true.
Proof.
  unfold is_digit, plainc. rewrite andb_true_iff, !Z.leb_le. intros R.
  rewrite !andb_true_iff, !negb_true_iff, !Z.eqb_neq. lia.
Qed.

Lemma forallb_impl {A} (p q : A -> bool) l : (forall x, p x = true -> q x = true) -> forallb p l = true -> forallb q l = true.
Proof. intros H. rewrite !forallb_forall. auto. Qed.

Lemma digits_plain s : forallb is_digit s = true -> forallb plainc s = true.
Proof. apply forallb_impl, digit_plain. Qed.

Lemma show_nat_plain n : forallb plainc (show_nat n) = true.
Proof.
  (* [show_nat] only ever emits '0'..'9': 48 + n mod 10 *)
  unfold show_nat. rewrite forallb_forall. intros x Hx. apply in_rev in Hx.
  assert (G : forall fuel m, In x (digits_rev fuel m) -> exists k, x = 48 + k mod 10).
  { induction fuel as [|f IH]; intros m Hm; [contradiction|]. cbn [digits_rev] in Hm.
    destruct Hm as [<-|Hm]; [eexists; reflexivity|]. destruct (m <? 10); [contradiction | eapply IH, Hm]. }
  destruct (G _ _ Hx) as (k & ->). pose proof (Z.mod_pos_bound k 10 ltac:(lia)).
  apply digit_plain. unfold is_digit. apply andb_true_iff. rewrite !Z.leb_le. lia.
Qed.

Lemma show_int_plain z : forallb plainc (show_int z) = true.
Proof. unfold show_int. destruct (z <? 0); [cbn [forallb]; rewrite show_nat_plain; reflexivity | apply show_nat_plain]. Qed.

(** characters of the temporal texts: digits, [-], [:], [.], blank *)
Definition tchar (c : Z) : bool := is_digit c || (c =? 45) || (c =? 58) || (c =? 46) || (c =? 32).

Lemma tchar_facts c : tchar c = true -> c <> 39 /\ c <> 92 /\ c <> 10.
Proof.
  unfold tchar, is_digit. rewrite !orb_true_iff, andb_true_iff, !Z.leb_le, !Z.eqb_eq. lia.
Qed.

Lemma show_nat_digits_any n : forallb is_digit (show_nat n) = true.
Proof.
  unfold show_nat. rewrite forallb_forall. intros x Hx. apply in_rev in Hx.
  assert (G : forall fuel m, In x (digits_rev fuel m) -> exists k, x = 48 + k mod 10).
  { induction fuel as [|f IH]; intros m Hm; [contradiction|]. cbn [digits_rev] in Hm.
    destruct Hm as [<-|Hm]; [eexists; reflexivity|]. destruct (m <? 10); [contradiction | eapply IH, Hm]. }
  destruct (G _ _ Hx) as (k & ->). pose proof (Z.mod_pos_bound k 10 ltac:(lia)).
  unfold is_digit. apply andb_true_iff. rewrite !Z.leb_le. lia.
Qed.

Lemma digit_tchar c : is_digit c = true -> tchar c = true.
Proof. unfold tchar. intros ->. reflexivity. Qed.

Lemma show_int_w_tchar w z : forallb tchar (show_int_w w z) = true.
Proof.
  unfold show_int_w.
  assert (P : forall k n, forallb tchar (pad_left k (show_nat n)) = true).
  { intros k n. apply (forallb_impl is_digit); [apply digit_tchar|]. apply pad_left_digits, show_nat_digits_any. }
  destruct (z <? 0); [cbn [forallb]; rewrite P; reflexivity | apply P].
Qed.

Lemma show_date_tchar y m d : forallb tchar (show_date y m d) = true.
Proof. unfold show_date. rewrite !forallb_app, !show_int_w_tchar. reflexivity. Qed.

Lemma show_time_tchar h mi s ns : forallb tchar (show_time h mi s ns) = true.
Proof.
  unfold show_time. rewrite !forallb_app, !show_int_w_tchar. cbn [forallb andb].
  destruct (ns =? 0); [reflexivity|]. cbn [forallb]. change (tchar 46) with true. cbn [andb].
  unfold trim_end_zeros. destruct (trim_end_by_split (Z.eqb 48) (show_int_w 9 ns)) as (z & E & _).
  pose proof (show_int_w_tchar 9 ns) as T. rewrite E, forallb_app in T. apply andb_true_iff in T as [T _].
  rewrite T. reflexivity.
Qed.

Lemma show_timestamp_tchar y m d h mi s ns : forallb tchar (show_timestamp y m d h mi s ns) = true.
Proof. unfold show_timestamp. rewrite !forallb_app, show_date_tchar, show_time_tchar. reflexivity. Qed.

Lemma tchar_quote2 t : forallb tchar t = true -> quote2 t = t.
Proof.
  induction t as [|c t IH]; intros H; [reflexivity|].
  cbn [forallb] in H. apply andb_true_iff in H as [Hc H]. apply tchar_facts in Hc as (N39 & _).
  rewrite quote2_cons. apply Z.eqb_neq in N39. rewrite N39, IH by exact H. reflexivity.
Qed.

Lemma tchar_lit_ok t : forallb tchar t = true -> lit_ok t = true.
Proof.
  intros H. unfold lit_ok. apply andb_true_iff. split.
  - apply negb_true_iff. unfold has_nl. induction t as [|c t IH]; [reflexivity|].
    cbn [forallb] in H. apply andb_true_iff in H as [Hc H]. apply tchar_facts in Hc as (_ & _ & N10).
    cbn [existsb]. apply Z.eqb_neq in N10. rewrite Z.eqb_sym, N10. apply IH, H.
  - unfold esc_safe. induction t as [|c t IH]; [reflexivity|].
    cbn [forallb] in H. apply andb_true_iff in H as [Hc H]. apply tchar_facts in Hc as (_ & N92 & _).
    cbn [esc_scan]. apply Z.eqb_neq in N92. rewrite N92. apply IH, H.
Qed.

(** * Values as segments *)
Section Dump.
Variable fl : float_ops.
Variable itx : Z -> Z -> Z -> str.

Definition float_segs (w : Z) (show : Z -> str) (b : Z) : list seg :=
  if f_is_nan w b then [SLit (lit "NaN")]
  else if f_is_inf w b then (if f_sign_positive w b then [SLit (lit "Infinity")] else [SLit (lit "-Infinity")])
  else [SPlain (show b)].

Definition value_segs (v : sqlvalue) : list seg :=
  match v with
  | VNull => [SPlain (lit "NULL")]
  | VInteger n | VSmallint n | VBigint n => [SPlain (show_int n)]
  | VUnsigned n => [SPlain (show_nat n)]
  | VNumeric b => [SPlain (show_f64 fl b)]
  | VFloat b | VReal b => float_segs 32 (show_f32 fl) b
  | VDouble b => float_segs 64 (show_f64 fl) b
  | VCharacter s | VVarchar s => [SLit s]
  | VBoolean b => [SPlain (if b then lit "TRUE" else lit "FALSE")]
  | VDate y m d => [SPlain (lit "DATE "); SLit (show_date y m d)]
  | VTime h mi s ns => [SPlain (lit "TIME "); SLit (show_time h mi s ns)]
  | VTimestamp y m d h mi s ns => [SPlain (lit "TIMESTAMP "); SLit (show_timestamp y m d h mi s ns)]
  | VInterval mo d us => [SPlain (lit "INTERVAL "); SLit (itx mo d us)]
  end.

(** the value's literal is ordinary text for the splitter (intervals are excluded: their text is
    written between quotes without doubling) *)
Definition value_benign (v : sqlvalue) : bool :=
  match v with
  | VNumeric b => forallb plainc (show_f64 fl b)
  | VFloat b | VReal b => f_is_nan 32 b || f_is_inf 32 b || forallb plainc (show_f32 fl b)
  | VDouble b => f_is_nan 64 b || f_is_inf 64 b || forallb plainc (show_f64 fl b)
  | VInterval _ _ _ => false
  | _ => true
  end.

Lemma float_segs_render w show b :
  render (float_segs w show b) = float_literal w show b.
Proof.
  unfold float_segs, float_literal. destruct (f_is_nan w b); [reflexivity|].
  destruct (f_is_inf w b); [destruct (f_sign_positive w b); reflexivity|].
  cbn [render flat_map render_seg]. apply app_nil_r.
Qed.

Lemma quoted_tchar t : forallb tchar t = true -> quoted t = 39 :: t ++ [39].
Proof. intros H. unfold quoted. rewrite tchar_quote2 by exact H. reflexivity. Qed.

Lemma value_segs_render v : value_benign v = true -> render (value_segs v) = sql_value_to_literal fl itx v.
Proof.
  destruct v; intros B; cbn [value_segs sql_value_to_literal render flat_map render_seg]; rewrite ?app_nil_r;
    try reflexivity; try apply float_segs_render; try discriminate.
  all: rewrite quoted_tchar by first [apply show_date_tchar | apply show_time_tchar | apply show_timestamp_tchar];
    reflexivity.
Qed.

Lemma float_segs_wf w show b :
  f_is_nan w b || f_is_inf w b || forallb plainc (show b) = true -> forallb seg_wf (float_segs w show b) = true.
Proof.
  unfold float_segs. destruct (f_is_nan w b); [reflexivity|]. destruct (f_is_inf w b); [destruct (f_sign_positive w b); reflexivity|].
  cbn [orb forallb seg_wf]. intros ->. reflexivity.
Qed.

Lemma value_segs_wf v : value_benign v = true -> forallb seg_wf (value_segs v) = true.
Proof.
  destruct v as [n|n|n|n|b|b|b|b|s|s|b|y m d|h mi s ns|y m d h mi s ns|mo d us|]; intros B;
    cbn [value_segs value_benign forallb seg_wf] in *;
    rewrite ?show_int_plain, ?show_nat_plain, ?B; try reflexivity; try (apply float_segs_wf; exact B).
  destruct b; reflexivity.
Qed.

Lemma float_segs_lits w show b : forallb lit_ok (lits (float_segs w show b)) = true.
Proof.
  unfold float_segs. destruct (f_is_nan w b); [reflexivity|]. destruct (f_is_inf w b); [destruct (f_sign_positive w b); reflexivity|].
  reflexivity.
Qed.

(** the literals of a value are its own string (if it is one) plus texts that are always fine *)
Lemma value_segs_lits v :
  value_benign v = true -> forallb lit_ok (lits (value_segs v)) = forallb str_ok (value_strings v).
Proof.
  destruct v; intros B; cbn [value_segs value_strings lits flat_map seg_lits app forallb];
    try reflexivity; try apply float_segs_lits; try discriminate.
  all: rewrite tchar_lit_ok by first [apply show_date_tchar | apply show_time_tchar | apply show_timestamp_tchar];
    reflexivity.
Qed.

(** * Rows, statements, lines *)
Fixpoint row_segs (row : list sqlvalue) : list seg :=
  match row with
  | [] => []
  | [v] => value_segs v
  | v :: r => value_segs v ++ SPlain (lit ", ") :: row_segs r
  end.

Lemma render_app a b : render (a ++ b) = render a ++ render b.
Proof. unfold render. apply flat_map_app. Qed.
Lemma lits_app a b : lits (a ++ b) = lits a ++ lits b.
Proof. unfold lits. apply flat_map_app. Qed.

Lemma row_segs_render row :
  forallb value_benign row = true -> render (row_segs row) = join_comma (map (sql_value_to_literal fl itx) row).
Proof.
  induction row as [|v r IH]; intros B; [reflexivity|].
  cbn [forallb] in B. apply andb_true_iff in B as [Bv B].
  destruct r as [|v2 r'].
  - cbn [row_segs map join_comma]. apply value_segs_render, Bv.
  - change (row_segs (v :: v2 :: r')) with (value_segs v ++ SPlain (lit ", ") :: row_segs (v2 :: r')).
    rewrite render_app, render_cons, IH, value_segs_render by assumption. reflexivity.
Qed.

Lemma row_segs_wf row : forallb value_benign row = true -> forallb seg_wf (row_segs row) = true.
Proof.
  induction row as [|v r IH]; intros B; [reflexivity|].
  cbn [forallb] in B. apply andb_true_iff in B as [Bv B].
  destruct r as [|v2 r'].
  - apply value_segs_wf, Bv.
  - change (row_segs (v :: v2 :: r')) with (value_segs v ++ SPlain (lit ", ") :: row_segs (v2 :: r')).
    rewrite forallb_app, value_segs_wf by exact Bv. cbn [forallb seg_wf]. rewrite IH by exact B. reflexivity.
Qed.

Lemma row_segs_lits row :
  forallb value_benign row = true ->
  forallb lit_ok (lits (row_segs row)) = forallb str_ok (flat_map value_strings row).
Proof.
  induction row as [|v r IH]; intros B; [reflexivity|].
  cbn [forallb] in B. apply andb_true_iff in B as [Bv B].
  destruct r as [|v2 r'].
  - cbn [row_segs flat_map]. rewrite app_nil_r. apply value_segs_lits, Bv.
  - change (row_segs (v :: v2 :: r')) with (value_segs v ++ SPlain (lit ", ") :: row_segs (v2 :: r')).
    change (flat_map value_strings (v :: v2 :: r')) with (value_strings v ++ flat_map value_strings (v2 :: r')).
    rewrite lits_app, lits_cons, !forallb_app, value_segs_lits, IH by assumption. reflexivity.
Qed.

Definition type_benign (t : dtype) : bool := match t with TUserDefined _ => false | _ => true end.
Definition column_benign (c : column) : bool := forallb plainc (c_name c) && type_benign (c_type c).
Definition table_benign (t : table) : bool :=
  forallb plainc (t_name t) && forallb column_benign (t_cols t) && forallb (forallb value_benign) (t_rows t).
Definition db_benign (db : list table) : bool := forallb table_benign db.

Definition create_stmt_s (t : table) : stmt :=
  mk_stmt 67 [SPlain (lit "REATE TABLE " ++ t_name t ++ lit " (" ++ join_comma (map column_def (t_cols t)))] 41.
Definition insert_stmt_s (name : str) (row : list sqlvalue) : stmt :=
  mk_stmt 73 (SPlain (lit "NSERT INTO " ++ name ++ lit " VALUES (") :: row_segs row) 41.

Definition table_dlines (t : table) : list dline :=
  LStmt (create_stmt_s t)
  :: (match t_rows t with
      | [] => []
      | _ => LSkip [] :: map (fun r => LStmt (insert_stmt_s (t_name t) r)) (t_rows t)
      end)
  ++ [LSkip []].

Definition dump_dlines (generated : str) (db : list table) : list dline :=
  [LSkip (lit "-- VibeSQL Database Dump"); LSkip (lit "-- Generated: " ++ generated); LSkip (lit "--"); LSkip [];
   LSkip (lit "-- Schemas"); LSkip []; LSkip (lit "-- Roles"); LSkip []; LSkip (lit "-- Tables and Data")]
  ++ flat_map table_dlines db
  ++ [LSkip (lit "-- Indexes"); LSkip []; LSkip (lit "-- End of dump")].

Lemma create_stmt_text t : stmt_text (create_stmt_s t) = create_table_stmt t.
Proof.
  unfold stmt_text, create_stmt_s, create_table_stmt. cbn [st_hd st_segs st_fin render flat_map render_seg].
  rewrite app_nil_r, <- !app_assoc. reflexivity.
Qed.

Lemma insert_stmt_text name row :
  forallb value_benign row = true -> stmt_text (insert_stmt_s name row) = insert_stmt fl itx name row.
Proof.
  intros B. unfold stmt_text, insert_stmt_s, insert_stmt. cbn [st_hd st_segs st_fin].
  rewrite render_cons, row_segs_render by exact B. cbn [render_seg]. rewrite <- !app_assoc. reflexivity.
Qed.

Lemma table_lines_text t :
  forallb (forallb value_benign) (t_rows t) = true ->
  map dline_text (table_dlines t) = table_lines fl itx t.
Proof.
  intros B. unfold table_dlines, table_lines. cbn [map dline_text]. rewrite create_stmt_text. f_equal.
  rewrite map_app. cbn [map dline_text]. f_equal.
  destruct (t_rows t) as [|r rs] eqn:E; [reflexivity|]. rewrite <- E in *. cbn [map dline_text]. f_equal.
  rewrite map_map. apply map_ext_in. intros row Hrow. cbn [dline_text]. rewrite insert_stmt_text; [reflexivity|].
  rewrite forallb_forall in B. apply B, Hrow.
Qed.

Lemma dump_lines_text g db :
  db_benign db = true -> map dline_text (dump_dlines g db) = dump_lines fl itx g db.
Proof.
  intros B. unfold dump_dlines, dump_lines. rewrite !map_app. cbn [map dline_text]. do 9 f_equal.
  f_equal. clear g. induction db as [|t db IH]; [reflexivity|].
  cbn [db_benign forallb] in B. apply andb_true_iff in B as [Bt B].
  cbn [flat_map]. rewrite map_app, IH by exact B. f_equal. apply table_lines_text.
  unfold table_benign in Bt. apply andb_true_iff in Bt as [_ Bt]. exact Bt.
Qed.

Lemma file_text_map ds : file_text ds = flat_map (fun l => l ++ [10]) (map dline_text ds).
Proof. unfold file_text. induction ds as [|d ds IH]; [reflexivity|]. cbn [map flat_map]. rewrite IH. reflexivity. Qed.

Theorem dump_text_file g db :
  db_benign db = true -> dump_text fl itx g db = file_text (dump_dlines g db).
Proof. intros B. unfold dump_text. rewrite file_text_map, dump_lines_text by exact B. reflexivity. Qed.

(** ** well-formedness of the lines *)
Lemma join_comma_plain items : forallb (forallb plainc) items = true -> forallb plainc (join_comma items) = true.
Proof.
  induction items as [|x r IH]; intros H; [reflexivity|].
  cbn [forallb] in H. apply andb_true_iff in H as [Hx H].
  destruct r as [|y r']; [exact Hx|].
  change (join_comma (x :: y :: r')) with (x ++ lit ", " ++ join_comma (y :: r')).
  rewrite !forallb_app, Hx, IH by exact H. reflexivity.
Qed.

Lemma format_data_type_plain t : type_benign t = true -> forallb plainc (format_data_type t) = true.
Proof.
  destruct t; intros B; cbn [format_data_type]; try discriminate;
    repeat match goal with
           | |- context [match ?o with Some _ => _ | None => _ end] => destruct o
           | |- context [if ?b then _ else _] => destruct b
           end;
    rewrite ?forallb_app, ?show_nat_plain; try reflexivity.
  unfold interval_field_debug.
  repeat match goal with |- context [if ?b then _ else _] => destruct b end; reflexivity.
Qed.

Lemma column_def_plain c : column_benign c = true -> forallb plainc (column_def c) = true.
Proof.
  unfold column_benign, column_def. intros B. apply andb_true_iff in B as [Bn Bt].
  rewrite !forallb_app, Bn, format_data_type_plain by exact Bt. destruct (c_nullable c); reflexivity.
Qed.

Lemma create_stmt_wf t :
  forallb plainc (t_name t) = true -> forallb column_benign (t_cols t) = true -> stmt_wf (create_stmt_s t) = true.
Proof.
  intros Bn Bc. unfold stmt_wf, create_stmt_s. cbn [st_hd st_segs st_fin forallb seg_wf].
  rewrite !forallb_app, Bn, join_comma_plain; [reflexivity|].
  rewrite forallb_forall. intros x Hx. apply in_map_iff in Hx as (c & <- & Hc).
  apply column_def_plain. rewrite forallb_forall in Bc. apply Bc, Hc.
Qed.

Lemma insert_stmt_wf name row :
  forallb plainc name = true -> forallb value_benign row = true -> stmt_wf (insert_stmt_s name row) = true.
Proof.
  intros Bn Br. unfold stmt_wf, insert_stmt_s. cbn [st_hd st_segs st_fin forallb seg_wf].
  rewrite !forallb_app, Bn, row_segs_wf by exact Br. reflexivity.
Qed.

Lemma table_dlines_wf t : table_benign t = true -> forallb dline_wf (table_dlines t) = true.
Proof.
  unfold table_benign. rewrite !andb_true_iff. intros ((Bn & Bc) & Br).
  unfold table_dlines. cbn [forallb dline_wf]. rewrite create_stmt_wf by assumption. cbn [andb].
  rewrite forallb_app. cbn [forallb dline_wf]. rewrite andb_true_r.
  destruct (t_rows t) as [|r rs] eqn:E; [reflexivity|]. rewrite <- E in *. cbn [forallb dline_wf andb].
  change (line_ok [] && (starts_dashes (trim []) || is_nil (trim []))) with true. cbn [andb].
  rewrite forallb_forall. intros d Hd. apply in_map_iff in Hd as (row & <- & Hrow). cbn [dline_wf].
  apply insert_stmt_wf; [exact Bn|]. rewrite forallb_forall in Br. apply Br, Hrow.
Qed.

(** the comment line carrying the generation time *)
Lemma line_ok_no_nl_cr l :
  forallb (fun c => negb ((c =? 10) || (c =? 13))) l = true -> line_ok l = true.
Proof.
  induction l as [|c l IH]; intros H; [reflexivity|].
  cbn [forallb] in H. apply andb_true_iff in H as [Hc H]. apply negb_true_iff, orb_false_iff in Hc as [H10 H13].
  cbn [line_ok]. rewrite H10. cbn [negb andb]. destruct l as [|c2 l']; [rewrite H13; reflexivity | apply IH, H].
Qed.

Lemma generated_line_wf g : generated_ok g = true -> dline_wf (LSkip (lit "-- Generated: " ++ g)) = true.
Proof.
  intros G. cbn [dline_wf]. apply andb_true_iff. split.
  - (* no newline, no carriage return *)
    apply line_ok_no_nl_cr. rewrite forallb_app. apply andb_true_iff. split; [reflexivity|].
    unfold generated_ok in G. apply negb_true_iff in G.
    induction g as [|c g IH]; [reflexivity|]. cbn [existsb] in G. apply orb_false_iff in G as [Gc G].
    cbn [forallb]. rewrite Gc. apply IH, G.
  - (* its trimmed form starts with two hyphens *)
    apply orb_true_iff. left.
    assert (T : exists t, trim (lit "-- Generated: " ++ g) = 45 :: 45 :: t).
    { change (lit "-- Generated: " ++ g) with (45 :: 45 :: (lit " Generated: " ++ g)).
      unfold trim. rewrite drop_while_id by reflexivity. unfold trim_end_by. cbn [rev].
      assert (D : forall a, drop_while is_ws ((a ++ [45]) ++ [45]) = drop_while is_ws a ++ [45; 45]).
      { induction a as [|x a IHa]; [reflexivity|]. cbn [app drop_while]. destruct (is_ws x); [exact IHa|].
        rewrite <- !app_assoc. reflexivity. }
      rewrite D, rev_app_distr. cbn [rev app]. eexists. reflexivity. }
    destruct T as (t & ->). reflexivity.
Qed.

Lemma dump_dlines_wf g db :
  generated_ok g = true -> db_benign db = true -> forallb dline_wf (dump_dlines g db) = true.
Proof.
  intros G B. unfold dump_dlines. rewrite !forallb_app. cbn [forallb]. rewrite generated_line_wf by exact G.
  apply andb_true_iff. split; [reflexivity|]. apply andb_true_iff. split; [|reflexivity].
  induction db as [|t db IH]; [reflexivity|].
  cbn [db_benign forallb] in B. apply andb_true_iff in B as [Bt B].
  cbn [flat_map]. rewrite forallb_app, table_dlines_wf, IH by assumption. reflexivity.
Qed.

(** ** the literals of the file are the string values of the database plus harmless texts *)
Lemma table_dlines_lits t :
  forallb (forallb value_benign) (t_rows t) = true ->
  forallb lit_ok (file_lits (table_dlines t))
  = forallb str_ok (flat_map (fun r => flat_map value_strings r) (t_rows t)).
Proof.
  intros B. unfold table_dlines. rewrite file_lits_cons. cbn [dline_lits create_stmt_s st_segs lits flat_map seg_lits app].
  unfold file_lits. rewrite flat_map_app. cbn [flat_map dline_lits]. rewrite app_nil_r.
  destruct (t_rows t) as [|r rs] eqn:E; [reflexivity|]. rewrite <- E in *. cbn [flat_map dline_lits app].
  clear E. induction (t_rows t) as [|row rows IH]; [reflexivity|].
  cbn [forallb] in B. apply andb_true_iff in B as [Brow B].
  cbn [map flat_map dline_lits insert_stmt_s st_segs]. rewrite lits_cons. cbn [seg_lits app].
  rewrite !forallb_app, row_segs_lits, IH by assumption. reflexivity.
Qed.

Lemma dump_dlines_lits g db :
  db_benign db = true ->
  forallb lit_ok (file_lits (dump_dlines g db)) = forallb str_ok (db_strings db).
Proof.
  intros B. unfold dump_dlines, file_lits. rewrite !flat_map_app. cbn [flat_map dline_lits app]. rewrite app_nil_r.
  unfold db_strings. induction db as [|t db IH]; [reflexivity|].
  cbn [db_benign forallb] in B. apply andb_true_iff in B as [Bt B].
  cbn [flat_map]. rewrite flat_map_app, !forallb_app, IH by exact B. f_equal.
  apply table_dlines_lits. unfold table_benign in Bt. apply andb_true_iff in Bt as [_ Bt]. exact Bt.
Qed.

(** * The splitter on a dump *)

(** the statements in dump order, as the splitter returns them: the first one as written, every
    later one preceded by the blank that replaced the line break *)
Definition dump_expected (g : str) (db : list table) : list str := expected [] (dump_dlines g db).

Theorem split_dump_thm g db :
  generated_ok g = true -> db_benign db = true ->
  (parse_sql_statements (dump_text fl itx g db) = dump_expected g db
   /\ ends_clean (dump_text fl itx g db) = true
   <-> forallb str_ok (db_strings db) = true).
Proof.
  intros G B. rewrite (dump_text_file g db B). unfold dump_expected.
  rewrite <- (dump_dlines_lits g db B). apply split_dump_iff_thm, dump_dlines_wf; assumption.
Qed.

(** the pieces alone decide *)
Theorem split_dump_output_thm g db :
  generated_ok g = true -> db_benign db = true ->
  (parse_sql_statements (dump_text fl itx g db) = dump_expected g db
   <-> forallb str_ok (db_strings db) = true).
Proof.
  intros G B. rewrite (dump_text_file g db B). unfold dump_expected.
  rewrite <- (dump_dlines_lits g db B). apply split_output_iff_thm, dump_dlines_wf; assumption.
Qed.

End Dump.
