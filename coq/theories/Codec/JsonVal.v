(** Model of the value mapping of the JSON format (crates/vibesql-storage/src/persistence/json.rs):
    [sql_value_to_json] and [json_value_to_sql], over an abstract JSON value.  The JSON TEXT layer
    (serde_json printing and parsing) and the float conversions of the hardware ([f as f64], [f as f32],
    [i as f64]) are parameters ([fenv]); the theorems state what they need from them.

    [serde_json::Number] is an integer in [-2^63, 2^64) or a FINITE f64; [json!(f)] of a non-finite
    float is [Value::Null].  No proofs in this file. *)
From Coq Require Import String List ZArith Bool.
From VibeSQL Require Import Value.SqlValue Codec.BinUtf8 Codec.BinDec Codec.BinValue Codec.BinType.
Import ListNotations.
Open Scope Z_scope.

Inductive json : Type :=
| JNull
| JBool (b : bool)
| JInt (z : Z)           (* Number::PosInt / NegInt *)
| JFloat (bits : Z)      (* Number::Float: finite f64, by bit pattern *)
| JStr (s : bytes).

Record fenv : Type := mkFenv {
  widen : Z -> Z;        (* f32 bits -> f64 bits   [f as f64]  (exact) *)
  narrow : Z -> Z;       (* f64 bits -> f32 bits   [f as f32]  (rounds) *)
  of_int : Z -> Z;       (* i64 / u64 -> f64 bits  [n as f64]  (rounds) *)
}.

(** finite = exponent field not all ones *)
Definition finite (w b : Z) : bool := f_mag w b <? f_inf w.

(** [sql_value_to_json] *)
Definition sql_value_to_json (F : fenv) (v : bvalue) : json :=
  match v with
  | BInterval t => JStr t
  | BV v' =>
      match v' with
      | VInteger z | VSmallint z | VBigint z | VUnsigned z => JInt z
      | VNumeric b | VDouble b => if finite 64 b then JFloat b else JNull
      | VFloat b | VReal b => if finite 32 b then JFloat (widen F b) else JNull
      | VCharacter s | VVarchar s => JStr s
      | VBoolean b => JBool b
      | VDate y m d => JStr (show_date y m d)
      | VTime h mi s ns => JStr (show_time h mi s ns)
      | VTimestamp y m d h mi s ns => JStr (show_timestamp y m d h mi s ns)
      | VInterval _ _ _ => JNull     (* not a codec value *)
      | VNull => JNull
      end
  end.

Definition in_i64 (z : Z) : bool := (- 2 ^ 63 <=? z) && (z <? 2 ^ 63).
Definition in_u64 (z : Z) : bool := (0 <=? z) && (z <? 2 ^ 64).
Definition in_i16 (z : Z) : bool := (- 2 ^ 15 <=? z) && (z <? 2 ^ 15).

(** [Number::as_f64] *)
Definition as_f64 (F : fenv) (j : json) : option Z :=
  match j with JInt z => Some (of_int F z) | JFloat b => Some b | _ => None end.

Definition lift_parse {A} (r : presult A) (f : A -> bvalue) : presult bvalue :=
  match r with POk a => POk (f a) | PErr => PErr | PPanic => PPanic | PUnknown => PUnknown end.

(** [json_value_to_sql]: [PErr] = "Unsupported JSON value ... for type ..." / "Invalid ..." *)
Definition json_value_to_sql (E : env) (F : fenv) (j : json) (ty : dtype) : presult bvalue :=
  match j, ty with
  | JNull, _ => POk (BV VNull)
  | JInt z, TInteger => if in_i64 z then POk (BV (VInteger z)) else PErr
  | JInt z, TSmallint => if in_i64 z && in_i16 z then POk (BV (VSmallint z)) else PErr
  | JInt z, TBigint => if in_i64 z then POk (BV (VBigint z)) else PErr
  | JInt z, TUnsigned => if in_u64 z then POk (BV (VUnsigned z)) else PErr
  | JFloat _, (TInteger | TSmallint | TBigint | TUnsigned) => PErr
  | (JInt _ | JFloat _), (TNumeric _ _ | TDecimal _ _) =>
      match as_f64 F j with Some b => POk (BV (VNumeric b)) | None => PErr end
  | (JInt _ | JFloat _), TFloat _ =>
      match as_f64 F j with Some b => POk (BV (VFloat (narrow F b))) | None => PErr end
  | (JInt _ | JFloat _), TReal =>
      match as_f64 F j with Some b => POk (BV (VReal (narrow F b))) | None => PErr end
  | (JInt _ | JFloat _), TDouble =>
      match as_f64 F j with Some b => POk (BV (VDouble b)) | None => PErr end
  | JStr s, TChar _ => POk (BV (VCharacter s))
  | JStr s, (TVarchar _ | TName) => POk (BV (VVarchar s))
  | JBool b, TBoolean => POk (BV (VBoolean b))
  | JStr s, TDate => lift_parse (parse_date E s) (fun '(y, m, d) => BV (VDate y m d))
  | JStr s, TTime _ => lift_parse (parse_time E s) (fun '(h, mi, se, ns) => BV (VTime h mi se ns))
  | JStr s, TTimestamp _ =>
      lift_parse (parse_timestamp E s) (fun '(y, m, d, h, mi, se, ns) => BV (VTimestamp y m d h mi se ns))
  | JStr s, TInterval _ => lift_parse (parse_interval E s) (fun _ => BInterval s)
  | _, _ => PErr
  end.

(** the value variant a column of type [ty] holds (what [Table::insert] enforces), NULL aside *)
Definition typed (ty : dtype) (v : bvalue) : bool :=
  match ty, v with
  | TInteger, BV (VInteger _) | TSmallint, BV (VSmallint _) | TBigint, BV (VBigint _)
  | TUnsigned, BV (VUnsigned _) | TNumeric _ _, BV (VNumeric _) | TDecimal _ _, BV (VNumeric _)
  | TFloat _, BV (VFloat _) | TReal, BV (VReal _) | TDouble, BV (VDouble _)
  | TChar _, BV (VCharacter _) | TVarchar _, BV (VVarchar _) | TName, BV (VVarchar _)
  | TBoolean, BV (VBoolean _) | TDate, BV (VDate _ _ _) | TTime _, BV (VTime _ _ _ _)
  | TTimestamp _, BV (VTimestamp _ _ _ _ _ _ _) | TInterval _, BInterval _ => true
  | _, BV VNull => true
  | _, _ => false
  end.

(** no NaN / infinity inside *)
Definition finite_value (v : bvalue) : bool :=
  match v with
  | BV (VNumeric b) | BV (VDouble b) => finite 64 b
  | BV (VFloat b) | BV (VReal b) => finite 32 b
  | _ => true
  end.
