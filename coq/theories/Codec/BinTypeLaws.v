(** Laws of the column-type text (BinType.v): [parse_data_type] takes back what [format_data_type]
    prints exactly for the [supported] types, and demonstrably not for the others. *)
From Coq Require Import String List ZArith Bool Lia.
From VibeSQL Require Import Codec.BinUtf8 Codec.BinDec Codec.BinValue Codec.BinType Codec.BinDecLaws.
Import ListNotations.
Open Scope Z_scope.

(** * digit strings *)
Definition digits (d : bytes) : Prop := d <> [] /\ forallb is_digit d = true.

Lemma show_uint_is_digits n : 0 <= n -> digits (show_uint n).
Proof.
  intros H. split; [|apply show_uint_digits; exact H].
  unfold show_uint. intros E. apply (f_equal (@rev Z)) in E. rewrite rev_involutive in E. cbn [rev] in E.
  exact (digits_rev_nonempty 39 n E).
Qed.

Lemma is_digit_range c : is_digit c = true -> 48 <= c <= 57.
Proof.
  unfold is_digit, inr. intros H. apply andb_true_iff in H. destruct H as [H1 H2].
  apply Z.leb_le in H1, H2. lia.
Qed.

Lemma digits_head d : digits d -> exists c d', d = c :: d' /\ 48 <= c <= 57 /\ forallb is_digit d' = true.
Proof.
  intros [Hn Hd]. destruct d as [|c d']; [congruence|]. cbn [forallb] in Hd.
  apply andb_true_iff in Hd. destruct Hd as [Hc Hd']. exists c, d'. split; [reflexivity|].
  split; [apply is_digit_range; exact Hc | exact Hd'].
Qed.

Lemma digits_rev_head d : digits d -> exists c r, rev d = c :: r /\ 48 <= c <= 57.
Proof.
  intros [Hn Hd]. destruct (rev d) as [|c r] eqn:Er.
  - exfalso. apply Hn. apply (f_equal (@rev Z)) in Er. rewrite rev_involutive in Er. exact Er.
  - exists c, r. split; [reflexivity|]. apply is_digit_range.
    rewrite forallb_forall in Hd. apply Hd. apply in_rev. rewrite Er. left. reflexivity.
Qed.

Lemma digits_ascii d : digits d -> is_ascii d = true.
Proof. intros [_ H]. apply all_digits_ascii. exact H. Qed.

Lemma ascii_upper_digits d : forallb is_digit d = true -> ascii_upper d = d.
Proof.
  induction d as [|c d IH]; [reflexivity|]. cbn [forallb]. intros H. apply andb_true_iff in H.
  destruct H as [Hc Hd]. unfold ascii_upper in *. cbn [map]. rewrite (IH Hd). f_equal.
  unfold ascii_upper_b, inr. apply is_digit_range in Hc.
  destruct (Z.leb_spec 97 c); [lia | reflexivity].
Qed.

Lemma ascii_upper_app a b : ascii_upper (a ++ b) = ascii_upper a ++ ascii_upper b.
Proof. unfold ascii_upper. apply map_app. Qed.

(** * the string helpers on  PREFIX ++ digits ++ ")" *)
Lemma trim_end_paren d : digits d -> trim_end_char 41 (d ++ [41]) = d.
Proof.
  intros Hd. unfold trim_end_char. rewrite rev_app_distr. cbn [rev app drop_while].
  rewrite Z.eqb_refl. destruct (digits_rev_head d Hd) as (c & r & Er & Hc). rewrite Er.
  cbn [drop_while]. destruct (Z.eqb_spec 41 c); [lia|]. rewrite <- Er. apply rev_involutive.
Qed.

Lemma strip_prefix_once p0 p d tail :
  65 <= p0 -> digits d ->
  trim_start_matches (p0 :: p) ((p0 :: p) ++ d ++ tail) = d ++ tail.
Proof.
  intros Hp Hd. unfold trim_start_matches.
  destruct (digits_head d Hd) as (c & d' & -> & Hc & _).
  assert (Hs : forall q x, starts_with q (q ++ x) = true).
  { induction q as [|y q IH]; intros x; cbn [starts_with app]; [reflexivity|]. now rewrite Z.eqb_refl, IH. }
  assert (Hsk : forall q (x : bytes), skipn (length q) (q ++ x) = x).
  { induction q as [|y q IH]; intros x; cbn [skipn length app]; auto. }
  assert (Hlen : (2 <= length ((p0 :: p) ++ (c :: d') ++ tail))%nat).
  { rewrite !app_length. cbn [length]. lia. }
  destruct (length ((p0 :: p) ++ (c :: d') ++ tail)) as [|[|f]] eqn:El; try lia.
  cbn [strip_prefix_rep]. rewrite Hs, Hsk.
  cbn [app starts_with]. destruct (Z.eqb_spec p0 c); [lia|]. cbn [andb]. reflexivity.
Qed.

Lemma inner_digits p0 p d :
  65 <= p0 -> digits d -> inner (p0 :: p) ((p0 :: p) ++ d ++ [41]) = d.
Proof. intros Hp Hd. unfold inner. rewrite (strip_prefix_once p0 p d [41] Hp Hd). apply trim_end_paren. exact Hd. Qed.

(** * [NUMERIC(p, s)] parameter list *)
Lemma split_on_no_sep c s : ~ In c s -> split_on c s = [s].
Proof.
  induction s as [|x s IH]; intros Hn; cbn [split_on]; [reflexivity|].
  rewrite IH by (intros Hi; apply Hn; right; exact Hi).
  destruct (Z.eqb_spec x c); [exfalso; apply Hn; left; exact e | reflexivity].
Qed.

Lemma split_on_one c a b : ~ In c a -> ~ In c b -> split_on c (a ++ c :: b) = [a; b].
Proof.
  intros Ha Hb. induction a as [|x a IH]; cbn [app split_on].
  - rewrite (split_on_no_sep c b Hb). rewrite Z.eqb_refl. reflexivity.
  - rewrite IH by (intros Hi; apply Ha; right; exact Hi).
    destruct (Z.eqb_spec x c); [exfalso; apply Ha; left; exact e | reflexivity].
Qed.

Lemma digits_no_byte d c : forallb is_digit d = true -> ~ (48 <= c <= 57) -> ~ In c d.
Proof.
  intros Hd Hc Hi. rewrite forallb_forall in Hd. specialize (Hd c Hi). apply is_digit_range in Hd. lia.
Qed.

Lemma is_ws_digit c : 48 <= c <= 57 -> is_ws c = false.
Proof.
  intros H. unfold is_ws, inr. destruct (Z.eqb_spec c 32); [lia|].
  destruct (Z.leb_spec 9 c); destruct (Z.leb_spec c 13); cbn; try reflexivity; lia.
Qed.

Lemma trim_digits d : digits d -> trim d = d.
Proof.
  intros Hd. unfold trim. destruct (digits_head d Hd) as (c & d' & E & Hc & _).
  assert (E1 : drop_while is_ws d = d).
  { rewrite E. cbn [drop_while]. rewrite (is_ws_digit c Hc). reflexivity. }
  rewrite E1. destruct (digits_rev_head d Hd) as (c' & r & Er & Hc'). rewrite Er. cbn [drop_while].
  rewrite (is_ws_digit c' Hc'). rewrite <- Er. apply rev_involutive.
Qed.

Lemma trim_space_digits d : digits d -> trim (32 :: d) = d.
Proof.
  intros Hd. unfold trim. cbn [drop_while]. change (is_ws 32) with true. cbv iota.
  fold (trim d). apply trim_digits. exact Hd.
Qed.

Lemma parse_prec_scale_show p s :
  0 <= p <= u8_max -> 0 <= s <= u8_max ->
  parse_prec_scale (show_uint p ++ lit ", " ++ show_uint s) = (p, s).
Proof.
  intros Hp Hs. unfold parse_prec_scale.
  pose proof (show_uint_is_digits p ltac:(lia)) as Dp. pose proof (show_uint_is_digits s ltac:(lia)) as Ds.
  change (lit ", ") with [44; 32]. change ([44; 32] ++ show_uint s) with (44 :: 32 :: show_uint s).
  rewrite (split_on_one 44 (show_uint p) (32 :: show_uint s)).
  - cbn [map nth_error]. rewrite (trim_digits _ Dp), (trim_space_digits _ Ds).
    rewrite !parse_show_uint; [reflexivity | | | |]; unfold u8_max in *; lia.
  - apply digits_no_byte; [apply Dp | lia].
  - intros [H|H]; [lia|]. revert H. apply digits_no_byte; [apply Ds | lia].
Qed.

(** * the round trip *)
Ltac lits :=
  change (lit "INTEGER") with [73;78;84;69;71;69;82] in *;
  change (lit "SMALLINT") with [83;77;65;76;76;73;78;84] in *;
  change (lit "BIGINT") with [66;73;71;73;78;84] in *;
  change (lit "BIGINT UNSIGNED") with [66;73;71;73;78;84;32;85;78;83;73;71;78;69;68] in *;
  change (lit "REAL") with [82;69;65;76] in *;
  change (lit "DOUBLE PRECISION") with [68;79;85;66;76;69;32;80;82;69;67;73;83;73;79;78] in *;
  change (lit "BOOLEAN") with [66;79;79;76;69;65;78] in *;
  change (lit "DATE") with [68;65;84;69] in *;
  change (lit "TIME") with [84;73;77;69] in *;
  change (lit "TIMESTAMP") with [84;73;77;69;83;84;65;77;80] in *;
  change (lit "DATETIME") with [68;65;84;69;84;73;77;69] in *;
  change (lit "TIMESTAMP WITH TIME ZONE") with [84;73;77;69;83;84;65;77;80;32;87;73;84;72;32;84;73;77;69;32;90;79;78;69] in *;
  change (lit "DATETIME WITH TIME ZONE") with [68;65;84;69;84;73;77;69;32;87;73;84;72;32;84;73;77;69;32;90;79;78;69] in *;
  change (lit "VARCHAR(") with [86;65;82;67;72;65;82;40] in *;
  change (lit "VARCHAR") with [86;65;82;67;72;65;82] in *;
  change (lit "CHAR(") with [67;72;65;82;40] in *;
  change (lit "FLOAT(") with [70;76;79;65;84;40] in *;
  change (lit "NUMERIC(") with [78;85;77;69;82;73;67;40] in *;
  change (lit "DECIMAL(") with [68;69;67;73;77;65;76;40] in *;
  change (lit ")") with [41] in *.

Lemma parse_prefixed p0 p d :
  65 <= p0 <= 90 -> forallb (inr 0 127) p = true -> ascii_upper p = p -> digits d ->
  is_ascii ((p0 :: p) ++ d ++ [41]) = true /\ ascii_upper ((p0 :: p) ++ d ++ [41]) = (p0 :: p) ++ d ++ [41].
Proof.
  intros Hp0 Hp Hup Hd. split.
  - rewrite !is_ascii_app. rewrite (digits_ascii d Hd). cbn [is_ascii forallb]. fold (is_ascii p).
    unfold is_ascii. rewrite Hp. unfold inr. 
    destruct (Z.leb_spec 0 p0); destruct (Z.leb_spec p0 127); cbn; try reflexivity; lia.
  - rewrite !ascii_upper_app. rewrite (ascii_upper_digits d (proj2 Hd)). f_equal.
    unfold ascii_upper in *. cbn [map]. rewrite Hup. f_equal.
    unfold ascii_upper_b, inr. destruct (Z.leb_spec 97 p0); [lia | reflexivity].
Qed.

Lemma type_roundtrip_fixed ty :
  match ty with
  | TInteger | TSmallint | TBigint | TUnsigned | TReal | TDouble | TBoolean | TDate | TTime false
  | TTimestamp _ | TVarchar None => parse_data_type (format_data_type ty) = POk ty
  | _ => True
  end.
Proof.
  destruct ty as [| | | |pr| | |[n|]|n| | |[|]|[|]|dbg|p1 s1|p1 s1| | | |bl|ud|]; try exact I; vm_compute; reflexivity.
Qed.

Lemma roundtrip_float pr : 0 <= pr <= u8_max -> parse_data_type (format_data_type (TFloat pr)) = POk (TFloat pr).
Proof.
  intros [H1 H2].
  pose proof (show_uint_is_digits pr H1) as Dd.
  cbn [format_data_type]. lits.
  destruct (parse_prefixed 70 [76;79;65;84;40] (show_uint pr) ltac:(lia) eq_refl eq_refl Dd) as [Ha Hu].
  unfold parse_data_type. cbn [app] in *. rewrite Ha. cbn [negb]. rewrite Hu.
  lits. cbn [bytes_eqb starts_with Z.eqb Pos.eqb andb orb].
  change (70 :: 76 :: 79 :: 65 :: 84 :: 40 :: show_uint pr ++ [41]) with ([70;76;79;65;84;40] ++ show_uint pr ++ [41]).
  rewrite (inner_digits 70 [76;79;65;84;40] _ ltac:(lia) Dd).
  rewrite parse_show_uint.
  - reflexivity.
  - unfold u8_max in *; lia.
  - unfold u8_max in *; lia.
Qed.

Lemma roundtrip_varchar n :
  0 <= n <= usize_max -> parse_data_type (format_data_type (TVarchar (Some n))) = POk (TVarchar (Some n)).
Proof.
  intros [H1 H2].
  pose proof (show_uint_is_digits n H1) as Dd.
  cbn [format_data_type]. lits.
  destruct (parse_prefixed 86 [65;82;67;72;65;82;40] (show_uint n) ltac:(lia) eq_refl eq_refl Dd) as [Ha Hu].
  unfold parse_data_type. cbn [app] in *. rewrite Ha. cbn [negb]. rewrite Hu.
  lits. cbn [bytes_eqb starts_with Z.eqb Pos.eqb andb orb].
  change (86 :: 65 :: 82 :: 67 :: 72 :: 65 :: 82 :: 40 :: show_uint n ++ [41])
    with ([86;65;82;67;72;65;82;40] ++ show_uint n ++ [41]).
  rewrite (inner_digits 86 [65;82;67;72;65;82;40] _ ltac:(lia) Dd).
  rewrite parse_show_uint; [reflexivity | unfold usize_max in *; lia | unfold usize_max in *; lia].
Qed.

Lemma roundtrip_char n :
  0 <= n <= usize_max -> parse_data_type (format_data_type (TChar n)) = POk (TChar n).
Proof.
  intros [H1 H2].
  pose proof (show_uint_is_digits n H1) as Dd.
  cbn [format_data_type]. lits.
  destruct (parse_prefixed 67 [72;65;82;40] (show_uint n) ltac:(lia) eq_refl eq_refl Dd) as [Ha Hu].
  unfold parse_data_type. cbn [app] in *. rewrite Ha. cbn [negb]. rewrite Hu.
  lits. cbn [bytes_eqb starts_with Z.eqb Pos.eqb andb orb].
  change (67 :: 72 :: 65 :: 82 :: 40 :: show_uint n ++ [41]) with ([67;72;65;82;40] ++ show_uint n ++ [41]).
  rewrite (inner_digits 67 [72;65;82;40] _ ltac:(lia) Dd).
  rewrite parse_show_uint; [reflexivity | unfold usize_max in *; lia | unfold usize_max in *; lia].
Qed.

(** NUMERIC / DECIMAL: the text between the parentheses is "p, s" *)
Lemma params_ascii p s : 0 <= p -> 0 <= s ->
  is_ascii (show_uint p ++ [44; 32] ++ show_uint s ++ [41]) = true
  /\ ascii_upper (show_uint p ++ [44; 32] ++ show_uint s ++ [41]) = show_uint p ++ [44; 32] ++ show_uint s ++ [41].
Proof.
  intros Hp Hs. split.
  - rewrite !is_ascii_app, !show_uint_ascii by lia. reflexivity.
  - rewrite !ascii_upper_app.
    rewrite (ascii_upper_digits (show_uint p)) by (apply show_uint_digits; lia).
    rewrite (ascii_upper_digits (show_uint s)) by (apply show_uint_digits; lia). reflexivity.
Qed.

Lemma trim_end_last x l : l <> 41 -> trim_end_char 41 ((x ++ [l]) ++ [41]) = x ++ [l].
Proof.
  intros Hl. unfold trim_end_char. rewrite !rev_app_distr. cbn [rev app drop_while].
  rewrite Z.eqb_refl. destruct (Z.eqb_spec 41 l); [congruence|].
  change (l :: rev x) with (rev [l] ++ rev x). rewrite <- rev_app_distr. apply rev_involutive.
Qed.

Lemma inner_params p0 pre p s :
  65 <= p0 -> 0 <= p -> 0 <= s ->
  inner (p0 :: pre) ((p0 :: pre) ++ show_uint p ++ [44; 32] ++ show_uint s ++ [41])
  = show_uint p ++ [44; 32] ++ show_uint s.
Proof.
  intros H0 Hp Hs. unfold inner.
  rewrite (strip_prefix_once p0 pre (show_uint p) ([44; 32] ++ show_uint s ++ [41]) H0 (show_uint_is_digits p Hp)).
  destruct (digits_rev_head _ (show_uint_is_digits s Hs)) as (c & r & Er & Hc).
  assert (Es : show_uint s = rev r ++ [c]).
  { apply (f_equal (@rev Z)) in Er. rewrite rev_involutive in Er. rewrite Er. reflexivity. }
  rewrite Es.
  replace (show_uint p ++ [44; 32] ++ (rev r ++ [c]) ++ [41])
    with (((show_uint p ++ [44; 32] ++ rev r) ++ [c]) ++ [41]) by (rewrite <- !app_assoc; reflexivity).
  rewrite trim_end_last by lia. rewrite <- !app_assoc. reflexivity.
Qed.

Lemma roundtrip_numeric p s :
  0 <= p <= u8_max -> 0 <= s <= u8_max ->
  parse_data_type (format_data_type (TNumeric p s)) = POk (TNumeric p s).
Proof.
  intros Hp Hs. cbn [format_data_type]. lits. change (lit ", ") with [44; 32].
  destruct (params_ascii p s ltac:(lia) ltac:(lia)) as [Ha Hu].
  unfold parse_data_type.
  assert (Hasc : is_ascii ([78;85;77;69;82;73;67;40] ++ show_uint p ++ [44; 32] ++ show_uint s ++ [41]) = true).
  { rewrite is_ascii_app, Ha. reflexivity. }
  assert (Hup : ascii_upper ([78;85;77;69;82;73;67;40] ++ show_uint p ++ [44; 32] ++ show_uint s ++ [41])
                = [78;85;77;69;82;73;67;40] ++ show_uint p ++ [44; 32] ++ show_uint s ++ [41]).
  { rewrite ascii_upper_app, Hu. reflexivity. }
  rewrite Hasc. cbn [negb]. rewrite Hup.
  lits. cbn [app bytes_eqb starts_with Z.eqb Pos.eqb andb orb].
  change (78 :: 85 :: 77 :: 69 :: 82 :: 73 :: 67 :: 40 :: show_uint p ++ 44 :: 32 :: show_uint s ++ [41])
    with ([78;85;77;69;82;73;67;40] ++ show_uint p ++ [44; 32] ++ show_uint s ++ [41]).
  rewrite (inner_params 78 [85;77;69;82;73;67;40] p s ltac:(lia) ltac:(lia) ltac:(lia)).
  change [44; 32] with (lit ", "). rewrite (parse_prec_scale_show p s Hp Hs). reflexivity.
Qed.

Lemma roundtrip_decimal p s :
  0 <= p <= u8_max -> 0 <= s <= u8_max ->
  parse_data_type (format_data_type (TDecimal p s)) = POk (TDecimal p s).
Proof.
  intros Hp Hs. cbn [format_data_type]. lits. change (lit ", ") with [44; 32].
  destruct (params_ascii p s ltac:(lia) ltac:(lia)) as [Ha Hu].
  unfold parse_data_type.
  assert (Hasc : is_ascii ([68;69;67;73;77;65;76;40] ++ show_uint p ++ [44; 32] ++ show_uint s ++ [41]) = true).
  { rewrite is_ascii_app, Ha. reflexivity. }
  assert (Hup : ascii_upper ([68;69;67;73;77;65;76;40] ++ show_uint p ++ [44; 32] ++ show_uint s ++ [41])
                = [68;69;67;73;77;65;76;40] ++ show_uint p ++ [44; 32] ++ show_uint s ++ [41]).
  { rewrite ascii_upper_app, Hu. reflexivity. }
  rewrite Hasc. cbn [negb]. rewrite Hup.
  lits. cbn [app bytes_eqb starts_with Z.eqb Pos.eqb andb orb].
  change (68 :: 69 :: 67 :: 73 :: 77 :: 65 :: 76 :: 40 :: show_uint p ++ 44 :: 32 :: show_uint s ++ [41])
    with ([68;69;67;73;77;65;76;40] ++ show_uint p ++ [44; 32] ++ show_uint s ++ [41]).
  rewrite (inner_params 68 [69;67;73;77;65;76;40] p s ltac:(lia) ltac:(lia) ltac:(lia)).
  change [44; 32] with (lit ", "). rewrite (parse_prec_scale_show p s Hp Hs). reflexivity.
Qed.

Lemma inr_spec lo hi b : inr lo hi b = true -> lo <= b <= hi.
Proof. unfold inr. intros H. apply andb_true_iff in H. destruct H as [H1 H2]. apply Z.leb_le in H1, H2. lia. Qed.

(** [parse_data_type (format_data_type ty) = Ok ty] exactly on the [supported] types *)
Theorem type_roundtrip ty : supported ty = true -> parse_data_type (format_data_type ty) = POk ty.
Proof.
  pose proof (type_roundtrip_fixed ty) as Hf.
  destruct ty as [| | | |pr| | |[n|]|n| | |[|]|[|]|dbg|p1 s1|p1 s1| | | |bl|ud|]; cbn [supported];
    try discriminate; try (intros _; exact Hf).
  - intros H. apply roundtrip_float, inr_spec, H.
  - intros H. apply roundtrip_varchar, inr_spec, H.
  - intros H. apply roundtrip_char, inr_spec, H.
  - intros H. apply andb_true_iff in H. destruct H as [H1 H2]. apply roundtrip_numeric; apply inr_spec; assumption.
  - intros H. apply andb_true_iff in H. destruct H as [H1 H2]. apply roundtrip_decimal; apply inr_spec; assumption.
Qed.

(** the other types are NOT taken back: load fails, or the type silently changes *)
Theorem type_roundtrip_refuted :
  parse_data_type (format_data_type (TInterval (lit "Day"))) = PErr
  /\ parse_data_type (format_data_type TClob) = PErr
  /\ parse_data_type (format_data_type TBlob) = PErr
  /\ parse_data_type (format_data_type (TBit None)) = PErr
  /\ parse_data_type (format_data_type (TUserDefined (lit "TINYINT"))) = PErr
  /\ parse_data_type (format_data_type TNull) = PErr
  /\ parse_data_type (format_data_type (TTime true)) = POk (TTime false)
  /\ parse_data_type (format_data_type TName) = POk (TVarchar (Some 128)).
Proof. vm_compute. repeat split; reflexivity. Qed.

Example type_roundtrip_nontrivial :
  parse_data_type (format_data_type (TNumeric 10 2)) = POk (TNumeric 10 2).
Proof. apply type_roundtrip. reflexivity. Qed.
