(** C33 laws, part 2: the invariant [Agree], the statement side conditions ([wf_stmt], [known]) and
    the lookup facts that hold in agreeing states (default mode: case-sensitive identifiers). *)
From Coq Require Import List ZArith Bool Arith Lia.
From VibeSQL Require Import Store.Catalog Store.CatalogBase.
Import ListNotations.
Open Scope Z_scope.

(* ------------------------------------------------------------------------------------------ *)
(** * The invariant *)

Definition listed (s : state) (t : name) : Prop := amem t (s_cat s) = true.
Definition stored (s : state) (t : name) : Prop := amem (qual public t) (s_tabs s) = true.

Definition cache_ok (sc : tschema) : Prop := ts_cache sc = build_cache (ts_cols sc).

Record Agree (s : state) : Prop := mkAgree {
  ag_cs : s_cs s = true;
  ag_nd_cat : NoDup (akeys (s_cat s));
  ag_nd_tabs : NoDup (akeys (s_tabs s));
  ag_nd_cidx : NoDup (akeys (s_cidx s));
  ag_nd_sidx : NoDup (akeys (s_sidx s));
  (* every listed name is a plain identifier, carries its own name and a coherent column cache *)
  ag_cat_wf : forall t sc, alookup t (s_cat s) = Some sc ->
      has_dot t = false /\ ts_name sc = t /\ cache_ok sc;
  (* stored tables are exactly the listed ones, under "public.<name>" *)
  ag_tabs_keys : forall k, amem k (s_tabs s) = true -> exists t, k = qual public t /\ listed s t;
  (* the catalog's schema copy equals the stored table's *)
  ag_schemas : forall t sc, alookup t (s_cat s) = Some sc ->
      exists tb, alookup (qual public t) (s_tabs s) = Some tb /\ t_schema tb = sc;
  (* rows have the width of the schema *)
  ag_width : forall k tb, alookup k (s_tabs s) = Some tb ->
      Forall (fun r => length r = length (ts_cols (t_schema tb))) (t_rows tb);
  (* the two index registries describe the same indexes *)
  ag_cidx : forall k c, alookup k (s_cidx s) = Some c ->
      k = ci_key (ci_table c) (ci_name c) /\
      exists x, alookup (idx_norm (ci_name c)) (s_sidx s) = Some x /\
                si_name x = ci_name c /\ si_table x = ci_table c /\ si_cols x = ci_cols c /\ si_unique x = ci_unique c;
  ag_sidx : forall k x, alookup k (s_sidx s) = Some x ->
      k = idx_norm (si_name x) /\
      alookup (ci_key (si_table x) (si_name x)) (s_cidx s) = Some (mkci (si_name x) (si_table x) (si_cols x) (si_unique x));
  (* every index's table is listed and has the index's columns *)
  ag_idx_table : forall k x, alookup k (s_sidx s) = Some x -> listed s (si_table x);
  ag_idx_cols : forall k x sc, alookup k (s_sidx s) = Some x -> alookup (si_table x) (s_cat s) = Some sc ->
      forall c, In c (si_cols x) -> In c (col_names sc);
  (* index entries mirror the rows (the C15 mirror, stated on this model's index data) *)
  ag_mirror : forall k x tb, alookup k (s_sidx s) = Some x ->
      alookup (qual public (si_table x)) (s_tabs s) = Some tb ->
      build_data (t_schema tb) (si_cols x) (t_rows tb) 0 [] = Some (si_data x)
}.

(* ------------------------------------------------------------------------------------------ *)
(** * Statements the parser can produce in the fragment, and the known classes *)

(** a plain identifier *)
Definition wf_name (n : name) : bool := negb (has_dot n).
(** an optionally schema-qualified identifier (CREATE TABLE, DROP TABLE, TRUNCATE) *)
Definition wf_qname (n : name) : bool :=
  match split_dot n with Some (_, t) => negb (has_dot t) | None => true end.

Definition wf_stmt (st : stmt) : bool :=
  match st with
  | CreateTable tn _ _ | DropTable tn _ | Truncate tn => wf_qname tn
  | CreateIndex _ tn _ _ _ | AddColumn tn _ | DropColumn tn _ _ | ChangeColumn tn _ _ | ModifyColumn tn _ _ _
  | SetDefault tn _ _ | DropDefault tn _ | SetNotNull tn _ | DropNotNull tn _ | AddConstraint tn _
  | DropConstraint tn _ | Insert tn _ | Delete tn _ => wf_name tn
  | RenameTable tn new => wf_name tn && wf_name new
  | DropIndex _ _ => true
  end.

Definition is_ok (r : result) : bool := match r with ROk _ => true | _ => false end.

(** ALTER TABLE forms that only ever write the STORED table's schema *)
Definition storage_only (st : stmt) : bool :=
  match st with
  | AddColumn _ _ | DropColumn _ _ _ | ChangeColumn _ _ _ | ModifyColumn _ _ _ _ | SetDefault _ _ _
  | DropDefault _ _ | SetNotNull _ _ | DropNotNull _ _ | AddConstraint _ (KCheck _ _) => true
  | _ => false
  end.

Definition table_indexed (s : state) (t : name) : bool :=
  existsb (fun p => name_eqb (ci_table (snd p)) t) (s_cidx s)
  || existsb (fun p => name_eqb (si_table (snd p)) t) (s_sidx s).

(** the statements (in a given state) that belong to one of the known defect classes *)
Definition known (s : state) (st : stmt) : bool :=
  match st with
  | DropTable tn _ | Truncate tn =>
      (* schema-qualified name of an indexed table *)
      match split_dot tn with Some (_, t) => table_indexed s t | None => false end
  | RenameTable tn _ => table_indexed s tn
  | DropIndex i _ =>
      (* no catalog index of exactly that name, but a storage index of its upper-cased name *)
      negb (existsb (fun p => name_eqb (ci_name (snd p)) i) (s_cidx s)) && sidx_exists s i
  | AddConstraint tn (KPrimaryKey _) | AddConstraint tn (KUnique _) | DropConstraint tn _ =>
      (* the name is not listed but Database::get_table_mut finds a case variant of it *)
      negb (amem tn (s_cat s)) && is_some (tab_find_key s tn)
  | _ => storage_only st && is_ok (snd (step s st))
  end.

Definition no_panic (r : result) : Prop := r <> RPanic /\ r <> RNondet.

(* ------------------------------------------------------------------------------------------ *)
(** * Lookups in an agreeing state *)

Lemma agree_ext : forall s s',
  s_cs s' = s_cs s -> s_cat s' = s_cat s -> s_cidx s' = s_cidx s -> s_tabs s' = s_tabs s -> s_sidx s' = s_sidx s ->
  Agree s -> Agree s'.
Proof.
  intros s s' H1 H2 H3 H4 H5 [A1 A2 A3 A4 A5 A6 A7 A8 A9 A10 A11 A12 A13 A14].
  constructor; unfold listed in *; rewrite ?H1, ?H2, ?H3, ?H4, ?H5; auto.
Qed.

Section Lookups.
Variable s : state.
Hypothesis A : Agree s.

Lemma cs_norm : forall n, cat_norm s n = n.
Proof. intro n. unfold cat_norm. rewrite (ag_cs s A). reflexivity. Qed.

Lemma cs_schema_get : forall n, schema_get_table s n = alookup n (s_cat s).
Proof. intro n. unfold schema_get_table. rewrite (ag_cs s A). reflexivity. Qed.

Lemma cs_schema_found : forall sn, schema_found s sn = name_eqb sn public.
Proof. intro sn. unfold schema_found. rewrite (ag_cs s A). reflexivity. Qed.

Lemma cat_get_plain : forall t, has_dot t = false -> cat_get_table s t = alookup t (s_cat s).
Proof.
  intros t H. unfold cat_get_table. rewrite (split_dot_none _ H). rewrite cs_schema_get, cs_norm. reflexivity.
Qed.

Lemma cat_get_qualified : forall sn t, has_dot sn = false ->
  cat_get_table s (qual sn t) = if name_eqb sn public then alookup t (s_cat s) else None.
Proof.
  intros sn t H. unfold cat_get_table. rewrite (split_dot_qual _ _ H). rewrite cs_schema_found.
  destruct (name_eqb sn public); auto. rewrite cs_schema_get, cs_norm. reflexivity.
Qed.

Lemma listed_nodot : forall t, listed s t -> has_dot t = false.
Proof.
  intros t H. apply amem_alookup in H. destruct H as [sc H]. apply (ag_cat_wf s A) in H. tauto.
Qed.

Lemma listed_stored : forall t, listed s t <-> stored s t.
Proof.
  intro t. split; intro H.
  - apply amem_alookup in H. destruct H as [sc H]. apply (ag_schemas s A) in H. destruct H as [tb [H _]].
    apply amem_alookup. exists tb. exact H.
  - apply (ag_tabs_keys s A) in H. destruct H as [t' [E L]].
    apply qual_inj_r in E. subst. exact L.
Qed.

Lemma tabs_key_dot : forall k, amem k (s_tabs s) = true -> has_dot k = true.
Proof. intros k H. apply (ag_tabs_keys s A) in H. destruct H as [t [-> _]]. apply has_dot_qual. Qed.

Lemma tabs_nodot_absent : forall n, has_dot n = false -> amem n (s_tabs s) = false.
Proof.
  intros n H. destruct (amem n (s_tabs s)) eqn:E; auto. apply tabs_key_dot in E. congruence.
Qed.

Lemma tab_find_listed : forall t, listed s t -> tab_find_key s t = Some (qual public t).
Proof.
  intros t L. pose proof (listed_nodot t L) as Hd. unfold tab_find_key.
  rewrite (tabs_nodot_absent t Hd).
  rewrite (tabs_nodot_absent (upper t)) by (rewrite has_dot_upper; exact Hd).
  rewrite andb_false_r. rewrite Hd. cbn [negb].
  apply listed_stored in L. unfold stored in L. rewrite L. reflexivity.
Qed.

Lemma tab_find_unlisted_none_or_variant : forall t k, has_dot t = false -> amem t (s_cat s) = false ->
  tab_find_key s t = Some k -> k = qual public (upper t) /\ upper t <> t /\ listed s (upper t).
Proof.
  intros t k Hd NL H. unfold tab_find_key in H.
  rewrite (tabs_nodot_absent t Hd) in H.
  rewrite (tabs_nodot_absent (upper t)) in H by (rewrite has_dot_upper; exact Hd).
  rewrite andb_false_r in H. rewrite Hd in H. cbn [negb] in H.
  destruct (amem (qual public t) (s_tabs s)) eqn:E1.
  - exfalso. assert (L : listed s t) by (apply listed_stored; exact E1). unfold listed in L. congruence.
  - destruct (negb (name_eqb (qual public (upper t)) (qual public t)) && amem (qual public (upper t)) (s_tabs s)) eqn:E2; try discriminate.
    inversion H; subst. apply andb_true_iff in E2. destruct E2 as [E2 E3]. split; [reflexivity|]. split.
    + apply negb_true_iff in E2. apply name_eqb_neq in E2. intro E. apply E2. rewrite E. reflexivity.
    + apply listed_stored. exact E3.
Qed.

Lemma ops_find_plain : forall t, has_dot t = false ->
  ops_find_key s t = if amem (qual public t) (s_tabs s) then Some (qual public t) else None.
Proof.
  intros t Hd. unfold ops_find_key. rewrite cs_norm. rewrite (tabs_nodot_absent t Hd). rewrite Hd. reflexivity.
Qed.

Lemma rebuild_find_plain : forall t, has_dot t = false ->
  rebuild_find_key s t = if amem (qual public t) (s_tabs s) then Some (qual public t) else None.
Proof.
  intros t Hd. unfold rebuild_find_key. rewrite cs_norm. rewrite (tabs_nodot_absent t Hd). reflexivity.
Qed.

(** the stored copy of a listed table *)
Lemma listed_table : forall t sc, alookup t (s_cat s) = Some sc ->
  exists rows, alookup (qual public t) (s_tabs s) = Some (mktab sc rows) /\
               Forall (fun r => length r = length (ts_cols sc)) rows.
Proof.
  intros t sc H. destruct (ag_schemas s A t sc H) as [tb [H1 H2]].
  pose proof (ag_width s A _ _ H1) as W. destruct tb as [sc' rows]. cbn in *. subst. exists rows. auto.
Qed.

Lemma idx_table_nodot : forall k x, alookup k (s_sidx s) = Some x -> has_dot (si_table x) = false.
Proof. intros k x H. apply listed_nodot. eapply ag_idx_table; eauto. Qed.

Lemma cidx_table_listed : forall k c, alookup k (s_cidx s) = Some c -> listed s (ci_table c).
Proof.
  intros k c H. destruct (ag_cidx s A k c H) as [_ [x [H1 [_ [H2 _]]]]]. rewrite <- H2. eapply ag_idx_table; eauto.
Qed.

Lemma cidx_table_nodot : forall k c, alookup k (s_cidx s) = Some c -> has_dot (ci_table c) = false.
Proof. intros k c H. apply listed_nodot. eapply cidx_table_listed; eauto. Qed.

End Lookups.

(* ------------------------------------------------------------------------------------------ *)
(** * The initial state *)

Lemma agree_init : Agree init.
Proof.
  constructor; cbn; try (constructor); try discriminate; intros; try discriminate.
Qed.
