(** C10/C15 model, part 3: the executor-side constraint validators, in source order:
      - insert/row_validator.rs  RowValidator::validate (phases 1-6) with its in-statement
        batch sets (INSERT ... VALUES and the non-bulk INSERT ... SELECT path),
      - insert/constraints.rs    enforce_primary_key_constraint / enforce_unique_constraints /
        enforce_check_constraints (the INSERT ... SELECT bulk-transfer path),
      - update/constraints.rs    ConstraintValidator::{validate_row, validate_unique_indexes}.
    Every failure of these functions is [ExecutorError::ConstraintViolation]; the model
    returns [None] for it.

    A table's hash maps always match its schema's shape (one PK map iff a PK is declared, one
    map per UNIQUE constraint: Table::new and Table::rebuild_indexes build them from the
    schema), so the "fallback to table scan if index not available" arms of the Rust code are
    unreachable and not transcribed; foreign keys and triggers are outside this model
    (the harness tables have none).

    Executable definitions only. *)
From Coq Require Import List ZArith Bool Arith.
From VibeSQL Require Import Store.Table Store.UserIndex.
Import ListNotations.

(* ------------------------------------------------------------------------------------ *)
(** * RowValidator (INSERT ... VALUES) *)

(** Phase 1 walks the columns to check NOT NULL and then builds the PRIMARY KEY / UNIQUE probe
    keys in the constraint's DECLARATION order -- the order the hash maps are keyed in
    (get_primary_key_indices / get_unique_constraint_indices). *)
Definition rv_key (s : schema) (cols : list nat) (r : row) : key := proj cols r.

(** Phase 5, insert/constraints.rs enforce_unique_indexes: for every UNIQUE index of the table,
    a NULL-free key that [IndexData::contains_key] finds is a violation.  [contains_key]
    normalises its probe (numeric -> Double) like the index keys, so this is the same test as the
    storage layer's check_unique_constraints_for_insert ([uidx_unique_violation]). *)
Definition exec_unique_index_probe (us : list uindex) (r : row) : bool := uidx_unique_violation us r.

Record vres := { v_pk : option key; v_uq : list (option key) }.

Definition nonnull_key (k : key) : option key := if has_null k then None else Some k.

(** phases 2 and 3 on one key *)
Definition dup_in (k : key) (batch : list key) (m : option (amap nat)) : bool :=
  key_mem k batch || match m with Some m => am_mem k m | None => false end.

Fixpoint rv_unique_ok (keys : list (option key)) (batch : list (list key)) (uq : list (amap nat)) : bool :=
  match keys with
  | [] => true
  | None :: keys' => rv_unique_ok keys' (tl batch) (tl uq)
  | Some k :: keys' =>
      negb (dup_in k (hd [] batch) (hd_error uq)) && rv_unique_ok keys' (tl batch) (tl uq)
  end.

(** RowValidator::validate; [None] = ConstraintViolation *)
Definition rv_validate (t : table) (batch_pk : list key) (batch_uq : list (list key)) (r : row)
  : option vres :=
  let s := t_sch t in
  (* phase 1 *)
  if negb (notnull_ok (s_notnull s) r) then None else
  let pk := match s_pk s with Some cols => Some (rv_key s cols r) | None => None end in
  let uqs := map (fun cols => nonnull_key (rv_key s cols r)) (s_uniqs s) in
  (* phase 2 *)
  if match pk with Some k => dup_in k batch_pk (t_pkidx t) | None => false end then None else
  (* phase 3 *)
  if negb (rv_unique_ok uqs batch_uq (t_uqidx t)) then None else
  (* phase 4: the catalog's CHECK list *)
  if negb (checks_ok (s_checks_enf s) r) then None else
  (* phase 5 *)
  if exec_unique_index_probe (t_uidx t) r then None else
  Some {| v_pk := pk; v_uq := uqs |}.

(** pushing a validated row's keys onto the batch sets (insert/execution.rs) *)
Definition batch_pk_push (b : list key) (v : vres) : list key :=
  match v_pk v with Some k => b ++ [k] | None => b end.

Fixpoint batch_uq_push (b : list (list key)) (ks : list (option key)) : list (list key) :=
  match b, ks with
  | l :: b', Some k :: ks' => (l ++ [k]) :: batch_uq_push b' ks'
  | l :: b', None :: ks' => l :: batch_uq_push b' ks'
  | _, _ => b
  end.

(** the validation loop of execute_insert_internal; [None] = ConstraintViolation *)
Fixpoint rv_validate_all (t : table) (bpk : list key) (buq : list (list key)) (rows : list row) : bool :=
  match rows with
  | [] => true
  | r :: rest =>
      match rv_validate t bpk buq r with
      | None => false
      | Some v => rv_validate_all t (batch_pk_push bpk v) (batch_uq_push buq (v_uq v)) rest
      end
  end.

(* ------------------------------------------------------------------------------------ *)
(** * insert/constraints.rs (bulk transfer) *)

(** enforce_primary_key_constraint; true = accepted (the map is always consulted: the former
    append-mode shortcut is gone) *)
Definition bulk_pk_ok (t : table) (seen : list key) (r : row) : bool :=
  match s_pk (t_sch t) with
  | None => true
  | Some cols =>
      let k := proj cols r in
      if key_mem k seen then false
      else negb (match t_pkidx t with Some m => am_mem k m | None => false end)
  end.

Fixpoint bulk_unique_ok (uniqs : list (list nat)) (seen : list (list key)) (uq : list (amap nat)) (r : row) : bool :=
  match uniqs with
  | [] => true
  | cols :: uniqs' =>
      let k := proj cols r in
      (has_null k || negb (dup_in k (hd [] seen) (hd_error uq)))
      && bulk_unique_ok uniqs' (tl seen) (tl uq) r
  end.

Definition bulk_seen_uq_push (uniqs : list (list nat)) (seen : list (list key)) (r : row) : list (list key) :=
  map (fun p => snd p ++ [proj (fst p) r]) (combine uniqs seen).

(* ------------------------------------------------------------------------------------ *)
(** * ConstraintValidator (UPDATE): each new row is checked against the table as it was
    before the statement; a hit in a hash map is excused only when the row keeps its key. *)

Definition upd_pk_ok (t : table) (old new : row) : bool :=
  match s_pk (t_sch t), t_pkidx t with
  | Some cols, Some m =>
      let kn := proj cols new in
      negb (am_mem kn m && negb (key_eqb kn (proj cols old)))
  | _, _ => true
  end.

Fixpoint upd_unique_ok (uniqs : list (list nat)) (uq : list (amap nat)) (old new : row) : bool :=
  match uniqs, uq with
  | cols :: uniqs', m :: uq' =>
      let kn := proj cols new in
      (has_null kn || negb (am_mem kn m && negb (key_eqb kn (proj cols old))))
      && upd_unique_ok uniqs' uq' old new
  | _, _ => true
  end.

(** validate_unique_indexes: for every UNIQUE index, a NULL-free new key that differs from the
    row's old key and is present in the index data (as it is before the statement) is a violation *)
Definition upd_uidx_ok (us : list uindex) (old new : row) : bool :=
  forallb (fun u =>
             negb (ui_unique u)
             || (let kn := ui_key (ui_cols u) new in
                 has_null kn || key_eqb kn (ui_key (ui_cols u) old) || negb (am_mem kn (ui_data u)))) us.

(** validate_row + validate_unique_indexes; true = accepted *)
Definition upd_validate (t : table) (old new : row) : bool :=
  let s := t_sch t in
  notnull_ok (s_notnull s) new
  && upd_pk_ok t old new
  && upd_unique_ok (s_uniqs s) (t_uqidx t) old new
  && checks_ok (s_checks_enf s) new
  && upd_uidx_ok (t_uidx t) old new.
