(** Executable comparison of the transaction model with observations of the implementation
    (shared by Run/C13Run.v and Run/C14Run.v).  Definitions only. *)
From Coq Require Import List ZArith Bool Arith.
From VibeSQL Require Import Base.LexOrd Value.SqlValue Store.Txn Store.Savepoint.
Import ListNotations.
Open Scope Z_scope.

(** the schema every generated history runs on:
    T0 (g INTEGER, a INTEGER, b INTEGER, v VARCHAR(4), c CHAR(3)),  T1 (g INTEGER, a INTEGER, b INTEGER) *)
Definition cols0 : list coltype := [TInt; TInt; TInt; TVarchar (Some 4%nat); TChar 3%nat].
Definition cols1 : list coltype := [TInt; TInt; TInt].
Definition db0 : db :=
  mkDb (mkCat [0; 1] []) [(0, mkTable cols0 []); (1, mkTable cols1 [])] [] None.

(** the fixed battery of point queries (table, column, constant); each is asked in both forms *)
Definition battery : list (tname * nat * Z) :=
  flat_map (fun tc => map (fun k => (fst tc, snd tc, k)) [1; 2; 3; 4])
           [(0, 1%nat); (0, 2%nat); (1, 1%nat); (1, 2%nat)].

Definition battery_answers (d : db) : list (option (list row)) :=
  flat_map (fun q => match q with (t, c, k) => [q_point d t c k false; q_point d t c k true] end) battery.

(** a full observation of the implementation *)
Record snapshot : Type := mkSnap {
  s_tabs : list (tname * list row);                 (* Table::scan() of every table, in storage order *)
  s_cix : list (iname * tname);                     (* catalog.list_all_indexes() *)
  s_uix : list (iname * tname * nat * idata);       (* storage indexes with their BTreeMap contents *)
  s_q : list (option (list row))                    (* answers to the battery *)
}.

Definition res_code (r : result) : Z :=
  match r with ROk n => Z.of_nat n | RErr => -1 | RPanic => -2 end.

Fixpoint rows_eqb (a b : list row) : bool :=
  match a, b with
  | [], [] => true
  | x :: a', y :: b' => row_eqb x y && rows_eqb a' b'
  | _, _ => false
  end.

Definition bag_eqb (a b : list row) : bool :=
  (length a =? length b)%nat &&
  forallb (fun r => (count_row r a =? count_row r b)%nat) a.

Definition ans_eqb (a b : option (list row)) : bool :=
  match a, b with
  | None, None => true
  | Some x, Some y => bag_eqb x y
  | _, _ => false
  end.

Fixpoint list_nat_eqb (a b : list nat) : bool :=
  match a, b with
  | [], [] => true
  | x :: a', y :: b' => (x =? y)%nat && list_nat_eqb a' b'
  | _, _ => false
  end.

(** two association lists denote the same map (each has at most one entry per key) *)
Definition idata_eqb (m i : idata) : bool :=
  (length m =? length i)%nat &&
  forallb (fun e => list_nat_eqb (snd e) (idx_lookup (fst e) i)) m &&
  forallb (fun e => list_nat_eqb (snd e) (idx_lookup (fst e) m)) i.

Definition tabs_match (T : tables) (o : list (tname * list row)) : bool :=
  (length T =? length o)%nat &&
  forallb (fun e => match get_table T (fst e) with
                    | Some tb => rows_eqb (t_rows tb) (snd e)
                    | None => false
                    end) o.

Definition cix_match (m o : list (iname * tname)) : bool :=
  (length m =? length o)%nat &&
  forallb (fun e => existsb (fun e' => (fst e =? fst e') && (snd e =? snd e')) o) m.

Definition uix_match (U : list uindex) (o : list (iname * tname * nat * idata)) : bool :=
  (length U =? length o)%nat &&
  forallb (fun ix =>
    existsb (fun e => match e with (i, t, c, dat) =>
                (i =? ix_name ix) && (t =? ix_table ix) && (c =? ix_col ix)%nat && idata_eqb (ix_data ix) dat end) o) U.

Fixpoint answers_match (m o : list (option (list row))) : bool :=
  match m, o with
  | [], [] => true
  | x :: m', y :: o' => ans_eqb x y && answers_match m' o'
  | _, _ => false
  end.

Definition snap_match (d : db) (s : snapshot) : bool :=
  tabs_match (d_tabs d) (s_tabs s) && cix_match (c_indexes (d_cat d)) (s_cix s) &&
  uix_match (d_uix d) (s_uix s) && answers_match (battery_answers d) (s_q s).

(** one executed statement: the statement, the implementation's result code, and (at checkpoints)
    the implementation's full observation after it *)
Definition item : Type := (op * Z * option snapshot)%type.

(** runs the model along the history; [true] when every result code and every snapshot agrees *)
Fixpoint history_ok (d : db) (h : list item) : bool :=
  match h with
  | [] => true
  | (o, code, snap) :: rest =>
      let '(d', r) := step d o in
      (res_code r =? code) &&
      match snap with Some s => snap_match d' s | None => true end &&
      history_ok d' rest
  end.

(** index (from 0) of the first disagreeing statement, for diagnosis *)
Fixpoint first_bad (d : db) (h : list item) (i : Z) : Z :=
  match h with
  | [] => -1
  | (o, code, snap) :: rest =>
      let '(d', r) := step d o in
      if (res_code r =? code) && match snap with Some s => snap_match d' s | None => true end
      then first_bad d' rest (i + 1) else i
  end.

Definition txn_mismatches (cases : list (Z * list item)) : list Z :=
  flat_map (fun c => if history_ok db0 (snd c) then [] else [fst c]) cases.
