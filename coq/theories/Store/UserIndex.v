(** C10/C15 model, part 2: user-defined (CREATE INDEX) index maintenance,
    crates/vibesql-storage/src/database/indexes/{index_maintenance,index_manager}.rs, for the
    [IndexData::InMemory] backend (a table below DISK_BACKED_THRESHOLD = 100 000 rows).

    A key is the tuple of the indexed columns' values after [normalize_for_comparison]
    (Integer i -> Double (i as f64)); on the harness's value range (|i| < 2^53) that map is
    injective, so the model keeps the integer.  NULLs are ordinary key components here: a row
    with a NULL in an indexed column IS entered in the BTreeMap.

    Executable definitions only. *)
From Coq Require Import List ZArith Bool Arith.
From VibeSQL Require Import Store.Table.
Import ListNotations.

Definition ui_key (cols : list nat) (r : row) : key := proj cols r.

Definition ui_get (k : key) (m : amap (list nat)) : list nat :=
  match am_find k m with Some l => l | None => [] end.

(** [data.entry(key).or_insert_with(Vec::new).push(row_index)]
    (a BTreeMap has one entry per key; the entry's position in the association list is not
    observable, so it is re-inserted at the front) *)
Definition ui_add (k : key) (n : nat) (m : amap (list nat)) : amap (list nat) :=
  am_insert k (ui_get k m ++ [n]) m.

Definition ids_retain_ne (n : nat) (l : list nat) : list nat := filter (fun i => negb (Nat.eqb i n)) l.

(** [if let Some(ids) = data.get_mut(key) { ids.retain(|&i| i != row_index);
      if ids.is_empty() { data.remove(key); } }] *)
Definition ui_remove_id (k : key) (n : nat) (m : amap (list nat)) : amap (list nat) :=
  match am_find k m with
  | None => m
  | Some l =>
      match ids_retain_ne n l with
      | [] => am_remove k m
      | l' => am_insert k l' m
      end
  end.

(** building an index from the rows of a table (create_index and rebuild_indexes, InMemory arm) *)
Fixpoint ui_build_from (cols : list nat) (n : nat) (rows : list row) (m : amap (list nat)) : amap (list nat) :=
  match rows with
  | [] => m
  | r :: rest => ui_build_from cols (S n) rest (ui_add (ui_key cols r) n m)
  end.

Definition ui_rebuild (cols : list nat) (rows : list row) : amap (list nat) := ui_build_from cols 0 rows [].

Definition ui_set_data (u : uindex) (d : amap (list nat)) : uindex :=
  {| ui_name := ui_name u; ui_unique := ui_unique u; ui_cols := ui_cols u; ui_data := d |}.

(** IndexManager::add_to_indexes_for_insert, for the indexes of one table *)
Definition uidx_for_insert (us : list uindex) (r : row) (n : nat) : list uindex :=
  map (fun u => ui_set_data u (ui_add (ui_key (ui_cols u) r) n (ui_data u))) us.

(** IndexManager::update_indexes_for_update *)
Definition ui_upd (cols : list nat) (old new : row) (i : nat) (m : amap (list nat)) : amap (list nat) :=
  let ko := ui_key cols old in
  let kn := ui_key cols new in
  if key_eqb ko kn then m else ui_add kn i (ui_remove_id ko i m).

Definition uidx_for_update (us : list uindex) (old new : row) (i : nat) : list uindex :=
  map (fun u => ui_set_data u (ui_upd (ui_cols u) old new i (ui_data u))) us.

(** IndexManager::update_indexes_for_delete (not called by the DELETE executor) *)
Definition uidx_for_delete (us : list uindex) (r : row) (i : nat) : list uindex :=
  map (fun u => ui_set_data u (ui_remove_id (ui_key (ui_cols u) r) i (ui_data u))) us.

(** IndexManager::rebuild_indexes *)
Definition uidx_rebuild (us : list uindex) (rows : list row) : list uindex :=
  map (fun u => ui_set_data u (ui_rebuild (ui_cols u) rows)) us.

(** IndexManager::check_unique_constraints_for_insert: for every UNIQUE index of the table,
    a key without NULL that is already present in the index data is a violation.
    true = violation *)
Definition uidx_unique_violation (us : list uindex) (r : row) : bool :=
  existsb (fun u =>
             ui_unique u &&
             (let k := ui_key (ui_cols u) r in negb (has_null k) && am_mem k (ui_data u))) us.
