(** * Store/AtomicLaws.v — C11: failed DML statements leave the database unchanged (outside the known classes)

    Proofs about Store/Atomic.v.  The central notion: a failure is *quiet* when the statement had made no storage
    write of its own that it did not undo ([Err _ _ 0]) and every trigger firing before it was quiet (a completed
    firing of an empty body, or a failed firing whose own first statement failed quietly -- recursively).
    [exec_quiet_failure]: a quiet failure leaves every table as it was, for every statement kind, at every nesting
    depth; [known_class] is the negation of quiet, and each of its sub-classes has a witness. *)
From Coq Require Import List ZArith Bool Arith Lia.
From VibeSQL Require Import Store.Trigger Store.Atomic.
Import ListNotations.

(** the catalog's table keys are distinct *)
Definition wf (d : db) : Prop := NoDup (map tb_id (d_tabs d)).

Lemma find_some_in : forall {A} (p : A -> bool) l x, find p l = Some x -> In x l /\ p x = true.
Proof. intros. apply find_some; auto. Qed.

Lemma wf_unique : forall d t tb tb',
  wf d -> get_table d t = Some tb -> In tb' (d_tabs d) -> tb_id tb' = t -> tb' = tb.
Proof.
  intros d t tb tb' Hwf Hg Hin Hid. unfold get_table in Hg. unfold wf in Hwf.
  induction (d_tabs d) as [|x l IH]; [contradiction|].
  cbn [find] in Hg. cbn [map] in Hwf. inversion Hwf as [|? ? Hnot Hnd]; subst.
  destruct (Nat.eqb (tb_id x) (tb_id tb')) eqn:E.
  - inversion Hg; subst. destruct Hin as [|Hin]; [auto|].
    apply Nat.eqb_eq in E. exfalso. apply Hnot. rewrite E. apply in_map. exact Hin.
  - destruct Hin as [Hx|Hin]; [subst; rewrite Nat.eqb_refl in E; discriminate|]. apply IH; auto.
Qed.

Lemma remove_nth_app_last : forall {A} (l : list A) x, remove_nth (length l) (l ++ [x]) = l.
Proof. induction l; intros; cbn; [reflexivity|f_equal; auto]. Qed.

Lemma observe_upd_table : forall d t f,
  (forall tb, tb_id (f tb) = tb_id tb) ->
  observe (upd_table d t f) = map (fun tb => if Nat.eqb (tb_id tb) t then (tb_id tb, tb_rows (f tb)) else (tb_id tb, tb_rows tb)) (d_tabs d).
Proof.
  intros d t f Hid. unfold observe, upd_table. cbn [d_tabs]. rewrite map_map.
  apply map_ext. intro tb. destruct (Nat.eqb (tb_id tb) t); [rewrite Hid|]; reflexivity.
Qed.

(** the single-row undo of the AFTER INSERT failure path restores what can be observed *)
Lemma undo_insert_observe : forall d d3 t tb r,
  wf d -> get_table d t = Some tb ->
  observe d3 = observe (push_row d t r) ->
  observe (delete_at d3 t (length (tb_rows tb))) = observe d.
Proof.
  intros d d3 t tb r Hwf Hg H3.
  assert (Hdel : forall dd, observe (delete_at dd t (length (tb_rows tb)))
                 = map (fun p => if Nat.eqb (fst p) t then (fst p, remove_nth (length (tb_rows tb)) (snd p)) else p) (observe dd)).
  { intro dd. unfold delete_at. rewrite observe_upd_table by reflexivity. unfold observe. rewrite map_map.
    apply map_ext. intro x. cbn [fst snd tb_rows tb_id]. destruct (Nat.eqb (tb_id x) t); reflexivity. }
  rewrite Hdel, H3. unfold push_row. rewrite observe_upd_table by reflexivity. rewrite map_map.
  unfold observe. apply map_ext_in. intros x Hin. cbn [fst snd].
  destruct (Nat.eqb (tb_id x) t) eqn:E; cbn [fst snd]; rewrite E; [|reflexivity].
  apply Nat.eqb_eq in E. rewrite (wf_unique d t tb x Hwf Hg Hin E). unfold table_insert. cbn [tb_rows].
  rewrite remove_nth_app_last. reflexivity.
Qed.

Lemma upd_table_ids : forall d t f, (forall tb, tb_id (f tb) = tb_id tb) ->
  map tb_id (d_tabs (upd_table d t f)) = map tb_id (d_tabs d).
Proof.
  intros d t f Hid. unfold upd_table. cbn [d_tabs]. rewrite map_map. apply map_ext.
  intro tb. destruct (Nat.eqb (tb_id tb) t); [apply Hid|reflexivity].
Qed.

Lemma wf_push_row : forall d t r, wf d -> wf (push_row d t r).
Proof. intros. unfold wf, push_row. rewrite upd_table_ids; auto. Qed.

Lemma wf_set_rows : forall d t rows, wf d -> wf (set_rows d t rows).
Proof. intros. unfold wf, set_rows. rewrite upd_table_ids; auto. Qed.

Section Quiet.
  Variable run_body : trig -> option row -> option row -> db -> db * option (nat * bool).
  (** what the theorems ask of the trigger-body runner: an empty body does nothing, and a failure flagged quiet left
      no observable change *)
  Hypothesis Hnil : forall tr o n d, t_body tr = [] -> run_body tr o n d = (d, None).
  Hypothesis Hquiet : forall tr o n d d' j, wf d -> run_body tr o n d = (d', Some (j, true)) -> observe d' = observe d.

  Lemma hd_none : forall {A} (l : list A), is_none (hd_error l) = true -> l = [].
  Proof. destruct l; [reflexivity|discriminate]. Qed.

  Lemma execute_trigger_quiet : forall tr o n d d' log r,
    execute_trigger db run_body tr o n d = (d', log, r) -> wf d -> log_quiet log = true ->
    (r = None -> d' = d) /\ observe d' = observe d.
  Proof.
    intros tr o n d d' log r H Hwf Hq. unfold execute_trigger in H.
    assert (Hrun : (let '(d0, r0) := run_body tr o n d in
                    (d0, [mkFiring tr o n r0], match r0 with None => None | Some (j, _) => Some (CzBody (t_id tr) j) end)) = (d', log, r)
                   -> (r = None -> d' = d) /\ observe d' = observe d).
    { intro Hr. destruct (run_body tr o n d) as [d0 r0] eqn:E. inversion Hr; subst.
      unfold log_quiet, firing_quiet in Hq. cbn in Hq. rewrite andb_true_r in Hq.
      destruct r0 as [[j q]|].
      - subst q. apply Hquiet in E; [|exact Hwf]. split; [discriminate|exact E].
      - apply hd_none in Hq. rewrite (Hnil tr o n d Hq) in E. inversion E; subst. split; auto. }
    destruct (t_when tr) as [c|]; [|auto].
    destruct (eval_when c o n) as [[|]|]; [auto| |]; inversion H; subst; split; auto.
  Qed.

  Lemma log_quiet_app : forall a b, log_quiet (a ++ b) = log_quiet a && log_quiet b.
  Proof. intros. unfold log_quiet. apply forallb_app. Qed.

  Lemma fire_list_quiet : forall trs o n d d' log r,
    fire_list db run_body trs o n d = (d', log, r) -> wf d -> log_quiet log = true ->
    (r = None -> d' = d) /\ observe d' = observe d.
  Proof.
    induction trs as [|tr rest IH]; intros o n d d' log r H Hwf Hq; cbn [fire_list] in H.
    - inversion H; subst. auto.
    - destruct (execute_trigger db run_body tr o n d) as [[d1 l1] r1] eqn:E1.
      destruct r1 as [c|].
      + inversion H; subst. destruct (execute_trigger_quiet _ _ _ _ _ _ _ E1 Hwf Hq) as [_ Ho]. split; [discriminate|exact Ho].
      + destruct (fire_list db run_body rest o n d1) as [[d2 l2] r2] eqn:E2.
        inversion H; subst. rewrite log_quiet_app in Hq. apply andb_prop in Hq. destruct Hq as [Hq1 Hq2].
        destruct (execute_trigger_quiet _ _ _ _ _ _ _ E1 Hwf Hq1) as [He _]. specialize (He eq_refl). subst d1.
        eapply IH; eauto.
  Qed.

  Lemma fire_stmt_quiet : forall b trigs t tm ev d d' log r,
    fire_stmt db run_body b trigs t tm ev d = (d', log, r) -> wf d -> log_quiet log = true ->
    (r = None -> d' = d) /\ observe d' = observe d.
  Proof.
    intros b trigs t tm ev d d' log r H Hwf Hq. unfold fire_stmt in H. destruct b.
    - eapply fire_list_quiet; eauto.
    - inversion H; subst; auto.
  Qed.

  Lemma fire_row_quiet : forall b trigs t tm ev o n d d' log r,
    fire_row db run_body b trigs t tm ev o n d = (d', log, r) -> wf d -> log_quiet log = true ->
    (r = None -> d' = d) /\ observe d' = observe d.
  Proof.
    intros b trigs t tm ev o n d d' log r H Hwf Hq. unfold fire_row in H. destruct b.
    - eapply fire_list_quiet; eauto.
    - inversion H; subst; auto.
  Qed.

  Lemma fire_rows_quiet : forall b trigs t tm ev imgs k d d' log r,
    fire_rows db run_body b trigs t tm ev imgs k d = (d', log, r) -> wf d -> log_quiet log = true ->
    (r = None -> d' = d) /\ observe d' = observe d.
  Proof.
    induction imgs as [|[o n] rest IH]; intros k d d' log r H Hwf Hq; cbn [fire_rows] in H.
    - inversion H; subst; auto.
    - destruct (fire_row db run_body b trigs t tm ev o n d) as [[d1 l1] r1] eqn:E1.
      destruct r1 as [c|].
      + inversion H; subst. destruct (fire_row_quiet _ _ _ _ _ _ _ _ _ _ _ E1 Hwf Hq) as [_ Ho]. split; [discriminate|exact Ho].
      + destruct (fire_rows db run_body b trigs t tm ev rest (S k) d1) as [[d2 l2] r2] eqn:E2.
        inversion H; subst. rewrite log_quiet_app in Hq. apply andb_prop in Hq. destruct Hq as [Hq1 Hq2].
        destruct (fire_row_quiet _ _ _ _ _ _ _ _ _ _ _ E1 Hwf Hq1) as [He _]. specialize (He eq_refl). subst d1.
        eapply IH; eauto.
  Qed.

  Lemma opt_stmt_quiet : forall b (ctx : tctx) trigs t tm ev d d' log r,
    (if is_none ctx then fire_stmt db run_body b trigs t tm ev d else (d, [], None)) = (d', log, r) ->
    wf d -> log_quiet log = true -> (r = None -> d' = d) /\ observe d' = observe d.
  Proof.
    intros b ctx trigs t tm ev d d' log r H Hwf Hq. destruct (is_none ctx).
    - eapply fire_stmt_quiet; eauto.
    - inversion H; subst; auto.
  Qed.

  (** *** INSERT *)
  Lemma insert_slow_cnt_ge : forall b trigs t rows k d d' log r cnt,
    insert_slow run_body b trigs t rows k d = (d', log, r, cnt) -> k <= cnt.
  Proof.
    induction rows as [|r0 rest IH]; intros k d d' log r cnt H; cbn [insert_slow] in H.
    - inversion H; lia.
    - unfold fireR in H.
      destruct (fire_row db run_body b trigs t Before EvInsert None (Some r0) d) as [[d1 l1] r1].
      destruct r1; [inversion H; lia|].
      destruct (get_table d1 t); [|inversion H; lia].
      destruct (fire_row db run_body b trigs t After EvInsert None (Some r0) (push_row d1 t r0)) as [[d3 l3] r3].
      destruct r3; [inversion H; lia|].
      destruct (insert_slow run_body b trigs t rest (S k) d3) as [[[d4 l4] r4] k4] eqn:E4.
      inversion H; subst. apply IH in E4. lia.
  Qed.

  Lemma insert_slow_fail_first : forall b trigs t rows k d d' log sc,
    insert_slow run_body b trigs t rows k d = (d', log, Some sc, k) ->
    wf d -> log_quiet log = true -> observe d' = observe d.
  Proof.
    intros b trigs t rows k d d' log sc H Hwf Hq. destruct rows as [|r0 rest]; cbn [insert_slow] in H; [discriminate|].
    unfold fireR in H.
    destruct (fire_row db run_body b trigs t Before EvInsert None (Some r0) d) as [[d1 l1] r1] eqn:E1.
    destruct r1 as [c|].
    - inversion H; subst. eapply fire_row_quiet; eauto.
    - destruct (get_table d1 t) as [tb1|] eqn:Et.
      + destruct (fire_row db run_body b trigs t After EvInsert None (Some r0) (push_row d1 t r0)) as [[d3 l3] r3] eqn:E3.
        destruct r3 as [c|].
        * inversion H; subst. rewrite log_quiet_app in Hq. apply andb_prop in Hq. destruct Hq as [Hq1 Hq3].
          destruct (fire_row_quiet _ _ _ _ _ _ _ _ _ _ _ E1 Hwf Hq1) as [He _]. specialize (He eq_refl). subst d1.
          destruct (fire_row_quiet _ _ _ _ _ _ _ _ _ _ _ E3 (wf_push_row _ _ _ Hwf) Hq3) as [_ Ho].
          eapply undo_insert_observe; eauto.
        * destruct (insert_slow run_body b trigs t rest (S k) d3) as [[[d4 l4] r4] k4] eqn:E4.
          inversion H; subst. apply insert_slow_cnt_ge in E4. lia.
      + inversion H; subst. destruct (fire_row_quiet _ _ _ _ _ _ _ _ _ _ _ E1 Hwf Hq) as [He _]. rewrite (He eq_refl). reflexivity.
  Qed.

  Lemma insert_slow_ok_cnt : forall b trigs t rows k d d' log cnt,
    insert_slow run_body b trigs t rows k d = (d', log, None, cnt) -> cnt = k + length rows.
  Proof.
    induction rows as [|r0 rest IH]; intros k d d' log cnt H; cbn [insert_slow] in H.
    - inversion H; cbn; lia.
    - unfold fireR in H.
      destruct (fire_row db run_body b trigs t Before EvInsert None (Some r0) d) as [[d1 l1] r1].
      destruct r1; [discriminate|].
      destruct (get_table d1 t); [|discriminate].
      destruct (fire_row db run_body b trigs t After EvInsert None (Some r0) (push_row d1 t r0)) as [[d3 l3] r3].
      destruct r3; [discriminate|].
      destruct (insert_slow run_body b trigs t rest (S k) d3) as [[[d4 l4] r4] k4] eqn:E4.
      inversion H; subst. apply IH in E4. cbn [length]. lia.
  Qed.

  Theorem insert_rows_quiet_failure : forall b ctx d t tb rows d' log s c,
    do_insert_rows run_body b ctx d t tb rows = (d', log, Err s c 0) ->
    wf d -> log_quiet log = true -> observe d' = observe d.
  Proof.
    intros b ctx d t tb rows d' log s c H Hwf Hq. unfold do_insert_rows in H.
    destruct (negb (forallb _ rows)); [inversion H; reflexivity|].
    destruct (validate_rows d tb ctx rows 0 []) as [k|vrows]; [inversion H; reflexivity|].
    unfold fireS in H.
    destruct (if is_none ctx then fire_stmt db run_body b (d_trigs d) t Before EvInsert d else (d, [], None)) as [[d1 l1] r1] eqn:E1.
    destruct r1 as [c1|].
    - inversion H; subst. eapply opt_stmt_quiet; eauto.
    - destruct (negb (negb (is_none (hd_error (triggers_for_table (d_trigs d) t EvInsert)))) && (1 <? length vrows)) eqn:Eb.
      + destruct (if is_none ctx then fire_stmt db run_body b (d_trigs d) t After EvInsert _ else _) as [[d3 l3] r3] eqn:E3.
        destruct r3; [|discriminate]. inversion H; subst.
        apply andb_prop in Eb. destruct Eb as [_ Eb]. apply Nat.ltb_lt in Eb. lia.
      + destruct (insert_slow run_body b (d_trigs d) t vrows 0 d1) as [[[d2 l2] r2] cnt] eqn:E2.
        destruct r2 as [[s2 c2]|].
        * inversion H; subst. rewrite log_quiet_app in Hq. apply andb_prop in Hq. destruct Hq as [Hq1 Hq2].
          destruct (opt_stmt_quiet _ _ _ _ _ _ _ _ _ _ E1 Hwf Hq1) as [He _]. specialize (He eq_refl). subst d1.
          eapply insert_slow_fail_first; eauto.
        * destruct (if is_none ctx then fire_stmt db run_body b (d_trigs d) t After EvInsert d2 else (d2, [], None)) as [[d3 l3] r3] eqn:E3.
          destruct r3; [|discriminate]. inversion H; subst.
          rewrite !log_quiet_app in Hq. apply andb_prop in Hq. destruct Hq as [Hq1 Hq]. apply andb_prop in Hq. destruct Hq as [Hq2 Hq3].
          destruct (opt_stmt_quiet _ _ _ _ _ _ _ _ _ _ E1 Hwf Hq1) as [He _]. specialize (He eq_refl). subst d1.
          pose proof (insert_slow_ok_cnt _ _ _ _ _ _ _ _ _ E2) as Hc. cbn in Hc. symmetry in Hc. apply length_zero_iff_nil in Hc. subst vrows.
          cbn [insert_slow] in E2. inversion E2; subst.
          eapply opt_stmt_quiet; eauto.
  Qed.

  (** *** the storage-side loops: a write counter that did not move means an unchanged database *)
  (** the bulk-transfer path validates every row before it inserts the first one: a failure changes nothing *)
  Lemma bulk_transfer_err : forall d t tb rows d' s c m,
    bulk_transfer d t tb rows = (d', Err s c m) -> d' = d /\ m = 0.
  Proof.
    intros d t tb rows d' s c m H. unfold bulk_transfer in H.
    destruct (bulk_validate d tb rows 0 []); inversion H; subst; auto.
  Qed.

  Lemma upd_refs_m0 : forall d t pkc old new d' ok, upd_refs d t pkc old new = (d', ok, 0) -> d' = d.
  Proof.
    intros d t pkc old new d' ok H. unfold upd_refs in H.
    destruct (negb (has_any_fks d)); [inversion H; reflexivity|].
    destruct (upd_ref_plan d t (cellv old pkc) (cellv new pkc)) as [plan|]; [|inversion H; reflexivity].
    inversion H as [[Hd Hok Hl]]. apply length_zero_iff_nil in Hl. subst plan. reflexivity.
  Qed.

  Lemma cascade_updates_m : forall t pkc ups k d m0 d' r m,
    cascade_updates t pkc ups k d m0 = (d', r, m) -> m0 <= m /\ (m = m0 -> d' = d).
  Proof.
    induction ups as [|[[i old] new] rest IH]; intros k d m0 d' r m H; cbn [cascade_updates] in H.
    - inversion H; subst; auto.
    - destruct (upd_refs d t pkc old new) as [[d1 ok] m1] eqn:E1.
      destruct ok.
      + apply IH in H. destruct H as [Hle Heq]. split; [lia|]. intro Hm.
        assert (m1 = 0) by lia. subst m1. apply upd_refs_m0 in E1. subst d1. apply Heq. lia.
      + inversion H; subst. split; [lia|]. intro Hm. assert (m1 = 0) by lia. subst m1. apply upd_refs_m0 in E1. exact E1.
  Qed.

  Lemma apply_updates_res : forall t ups k d d' r m,
    apply_updates t ups k d = (d', r, m) ->
    k <= m /\ (m = k -> d' = d) /\ (r = None -> m = k + length ups) /\ (forall kf, r = Some kf -> m = kf).
  Proof.
    induction ups as [|[[i old] new] rest IH]; intros k d d' r m H; cbn [apply_updates] in H.
    - inversion H; subst. repeat split; auto; try discriminate.
    - destruct (get_table d t) as [tb|].
      + destruct ((i <? length (tb_rows tb)) && Nat.eqb (length new) (s_ncols (tb_schema tb)) && notnull_ok (tb_schema tb) new && storable new).
        * apply IH in H. destruct H as (Hle & Heq & Hn & Hs). repeat split; try lia; auto.
          intro Hr. specialize (Hn Hr). cbn [length]. lia.
        * inversion H; subst. repeat split; auto; try discriminate. intros kf Hk; inversion Hk; reflexivity.
      + inversion H; subst. repeat split; auto; try discriminate. intros kf Hk; inversion Hk; reflexivity.
  Qed.

  Lemma del_perform_m : forall acts key d m d' ok m',
    del_perform acts key d m = (d', ok, m') -> m <= m' /\ (m' = m -> d' = d).
  Proof.
    induction acts as [|[ct fk] rest IH]; intros key d m d' ok m' H; cbn [del_perform] in H.
    - inversion H; subst; auto.
    - destruct (fk_on_delete fk).
      + inversion H; subst; auto.
      + apply IH in H. destruct H as [Hle _]. split; [lia|]. intro Hm; lia.
      + apply IH in H. destruct H as [Hle _]. split; [lia|]. intro Hm; lia.
  Qed.

  Lemma del_refs_m : forall d t pkc r m d' ok m',
    del_refs d t pkc r m = (d', ok, m') -> m <= m' /\ (m' = m -> d' = d).
  Proof.
    intros d t pkc r m d' ok m' H. unfold del_refs in H.
    destruct (negb (has_any_fks d)); [inversion H; subst; auto|]. eapply del_perform_m; eauto.
  Qed.

  Lemma cascade_deletes_m : forall t pkc rows k d m0 d' r m,
    cascade_deletes t pkc rows k d m0 = (d', r, m) -> m0 <= m /\ (m = m0 -> d' = d).
  Proof.
    induction rows as [|[i r0] rest IH]; intros k d m0 d' r m H; cbn [cascade_deletes] in H.
    - inversion H; subst; auto.
    - destruct (del_refs d t pkc r0 m0) as [[d1 ok] m1] eqn:E1. apply del_refs_m in E1. destruct E1 as [Hle1 Heq1].
      destruct ok.
      + apply IH in H. destruct H as [Hle Heq]. split; [lia|]. intro Hm.
        assert (m1 = m0) by lia. rewrite (Heq1 H) in *. apply Heq. lia.
      + inversion H; subst. split; [lia|]. exact Heq1.
  Qed.

  (** *** INSERT ... SELECT *)
  Theorem insert_select_quiet_failure : forall b ctx d t src star d' log s c,
    do_insert_select run_body b ctx d t src star = (d', log, Err s c 0) ->
    wf d -> log_quiet log = true -> observe d' = observe d.
  Proof.
    intros b ctx d t src star d' log s c H Hwf Hq. unfold do_insert_select in H.
    destruct (get_table d t) as [dst|]; [|inversion H; reflexivity].
    destruct (get_table d src) as [sr|]; [|inversion H; reflexivity].
    destruct (star && is_none (hd_error (triggers_for_table (d_trigs d) t EvInsert)) && bulk_eligible dst sr).
    - destruct (bulk_transfer d t dst (tb_rows sr)) as [dd oo] eqn:Eb. inversion H; subst.
      apply bulk_transfer_err in Eb. destruct Eb as [Heq _]. rewrite Heq. reflexivity.
    - destruct (Nat.eqb _ _); [|inversion H; reflexivity]. eapply insert_rows_quiet_failure; eauto.
  Qed.

  (** *** UPDATE *)
  Ltac splitq Hq := rewrite ?log_quiet_app in Hq;
    repeat (let H1 := fresh "Hq" in apply andb_prop in Hq; destruct Hq as [H1 Hq]).

  Theorem update_quiet_failure : forall b ctx d t asg w d' log s c,
    do_update run_body b ctx d t asg w = (d', log, Err s c 0) ->
    wf d -> log_quiet log = true -> observe d' = observe d.
  Proof.
    intros b ctx d t asg w d' log s c H Hwf Hq. unfold do_update in H. unfold fireS, fireRs in H.
    destruct (if is_none ctx then fire_stmt db run_body b (d_trigs d) t Before (EvUpdate (Some (map fst asg))) d else (d, [], None)) as [[d1 l1] r1] eqn:E1.
    destruct r1 as [c1|].
    { inversion H; subst. eapply opt_stmt_quiet; eauto. }
    assert (Hd1 : log_quiet l1 = true -> d1 = d).
    { intro Hq1. destruct (opt_stmt_quiet _ _ _ _ _ _ _ _ _ _ E1 Hwf Hq1) as [He _]. exact (He eq_refl). }
    destruct (get_table d1 t) as [tb|] eqn:Et; [|inversion H; subst; rewrite (Hd1 Hq); reflexivity].
    destruct (update_plan ctx d1 tb asg w) as [k|ups] eqn:Ep; [inversion H; subst; rewrite (Hd1 Hq); reflexivity|].
    destruct (match s_pk (tb_schema tb) with
              | Some c0 => if match s_pk (tb_schema tb) with Some c1 => existsb (fun a => Nat.eqb (fst a) c1) asg | None => false end
                           then cascade_updates t c0 ups 0 d1 0 else (d1, None, 0)
              | None => (d1, None, 0) end) as [[d2 r2] m2] eqn:E2.
    assert (Hm2 : m2 = 0 -> d2 = d1).
    { intro Hm. destruct (s_pk (tb_schema tb)); [|inversion E2; reflexivity].
      destruct (existsb _ asg); [|inversion E2; reflexivity].
      apply cascade_updates_m in E2. destruct E2 as [_ Heq]. apply Heq. exact Hm. }
    destruct r2 as [k2|]; [inversion H; subst; rewrite (Hm2 eq_refl), (Hd1 Hq); reflexivity|].
    destruct (fire_rows db run_body b (d_trigs d) t Before (EvUpdate (Some (map fst asg))) (images ups) 0 d2) as [[d3 l3] r3] eqn:E3.
    destruct r3 as [[k3 c3]|].
    { inversion H; subst. splitq Hq. rewrite (Hm2 eq_refl), (Hd1 Hq0) in E3. eapply fire_rows_quiet; eauto. }
    destruct (apply_updates t ups 0 d3) as [[d4 r4] m4] eqn:E4.
    pose proof (apply_updates_res _ _ _ _ _ _ _ E4) as (Hle4 & Heq4 & Hn4 & Hs4).
    destruct r4 as [k4|].
    { inversion H; subst. assert (m2 = 0) by lia. assert (m4 = 0) by lia. subst m2 m4. splitq Hq.
      rewrite (Hm2 eq_refl), (Hd1 Hq0) in E3.
      destruct (fire_rows_quiet _ _ _ _ _ _ _ _ _ _ _ E3 Hwf Hq) as [He3 _]. rewrite (Heq4 eq_refl), (He3 eq_refl). reflexivity. }
    destruct (fire_rows db run_body b (d_trigs d) t After (EvUpdate (Some (map fst asg))) (images ups) 0 d4) as [[d5 l5] r5] eqn:E5.
    assert (Hups : m2 + m4 = 0 -> ups = [] /\ d4 = d3 /\ d2 = d1).
    { intro Hz. assert (m2 = 0) by lia. assert (m4 = 0) by lia. subst m2 m4. specialize (Hn4 eq_refl). cbn in Hn4.
      symmetry in Hn4. apply length_zero_iff_nil in Hn4. repeat split; auto. }
    destruct r5 as [[k5 c5]|].
    { assert (Hz : m2 + m4 = 0) by congruence. destruct (Hups Hz) as (Hu & _ & _). subst ups. cbn [images map fire_rows] in E5. discriminate. }
    destruct (if is_none ctx then fire_stmt db run_body b (d_trigs d) t After (EvUpdate (Some (map fst asg))) d5 else (d5, [], None)) as [[d6 l6] r6] eqn:E6.
    destruct r6 as [c6|]; [|discriminate].
    assert (Hz : m2 + m4 = 0) by congruence.
    inversion H; subst. destruct (Hups Hz) as (Hu & H43 & H2). subst ups d4 d2.
    cbn [images map fire_rows] in E3, E5. inversion E3; subst. inversion E5; subst.
    splitq Hq. rewrite (Hd1 Hq0) in E6.
    eapply opt_stmt_quiet; eauto.
  Qed.

  (** *** DELETE *)
  Theorem delete_quiet_failure : forall b ctx d t w d' log s c,
    do_delete run_body b ctx d t w = (d', log, Err s c 0) ->
    wf d -> log_quiet log = true -> observe d' = observe d.
  Proof.
    intros b ctx d t w d' log s c H Hwf Hq. unfold do_delete in H.
    destruct (get_table d t) as [tb|] eqn:Et; [|inversion H; reflexivity].
    destruct (is_none w && can_use_truncate d t); [discriminate|].
    unfold fireS, fireRs in H.
    destruct (if is_none ctx then fire_stmt db run_body b (d_trigs d) t Before EvDelete d else (d, [], None)) as [[d1 l1] r1] eqn:E1.
    destruct r1 as [c1|].
    { inversion H; subst. eapply opt_stmt_quiet; eauto. }
    match type of H with context [fire_rows db run_body b (d_trigs d) t Before EvDelete ?im 0 d1] =>
      destruct (fire_rows db run_body b (d_trigs d) t Before EvDelete im 0 d1) as [[d2 l2] r2] eqn:E2 end.
    destruct r2 as [[k2 c2]|].
    { inversion H; subst. rewrite log_quiet_app in Hq. apply andb_prop in Hq. destruct Hq as [Hq1 Hq2].
      destruct (opt_stmt_quiet _ _ _ _ _ _ _ _ _ _ E1 Hwf Hq1) as [He _]. specialize (He eq_refl). subst d1.
      eapply fire_rows_quiet; eauto. }
    destruct (match s_pk (tb_schema tb) with
              | Some c0 => cascade_deletes t c0 (collect_rows ctx w (indexed 0 (tb_rows tb))) 0 d2 0
              | None => (d2, None, 0) end) as [[d3 r3] m3] eqn:E3.
    assert (Hm3 : m3 = 0 -> d3 = d2).
    { intro Hm. destruct (s_pk (tb_schema tb)); [|inversion E3; reflexivity].
      apply cascade_deletes_m in E3. destruct E3 as [_ Heq]. apply Heq. exact Hm. }
    assert (Hpre : log_quiet (l1 ++ l2) = true -> d2 = d).
    { intro Hq12. rewrite log_quiet_app in Hq12. apply andb_prop in Hq12. destruct Hq12 as [Hq1 Hq2].
      destruct (opt_stmt_quiet _ _ _ _ _ _ _ _ _ _ E1 Hwf Hq1) as [He _]. specialize (He eq_refl). subst d1.
      destruct (fire_rows_quiet _ _ _ _ _ _ _ _ _ _ _ E2 Hwf Hq2) as [He2 _]. exact (He2 eq_refl). }
    destruct r3 as [k3|].
    { inversion H; subst. rewrite (Hm3 eq_refl), (Hpre Hq). reflexivity. }
    destruct (get_table d3 t) as [tb3|].
    2:{ inversion H; subst. rewrite (Hm3 eq_refl), (Hpre Hq). reflexivity. }
    match type of H with context [fire_rows db run_body b (d_trigs d) t After EvDelete ?im 0 ?dd] =>
      destruct (fire_rows db run_body b (d_trigs d) t After EvDelete im 0 dd) as [[d5 l5] r5] eqn:E5 end.
    destruct r5 as [[k5 c5]|]; [discriminate|].
    match type of H with context [if is_none ctx then fire_stmt db run_body b (d_trigs d) t After EvDelete ?dd else _] =>
      destruct (if is_none ctx then fire_stmt db run_body b (d_trigs d) t After EvDelete dd else (dd, [], None)) as [[d6 l6] r6] eqn:E6 end.
    destruct r6; discriminate.
  Qed.

  (** *** every statement kind *)
  Theorem step_dml_quiet_failure : forall b ctx d st d' log s c,
    step_dml run_body b ctx d st = (d', log, Err s c 0) ->
    wf d -> log_quiet log = true -> observe d' = observe d.
  Proof.
    intros b ctx d st d' log s c H Hwf Hq. destruct st as [t ok rows | t src star | t asg w | t w]; cbn [step_dml] in H.
    - unfold do_insert in H. destruct (get_table d t) as [tb|]; [|inversion H; reflexivity].
      destruct ok; [|inversion H; reflexivity]. eapply insert_rows_quiet_failure; eauto.
    - eapply insert_select_quiet_failure; eauto.
    - eapply update_quiet_failure; eauto.
    - eapply delete_quiet_failure; eauto.
  Qed.
End Quiet.

(** ** The recursive instance: [exec] *)
Lemma run_stmts_flag : forall ex ss j d d' j' q,
  run_stmts ex ss j d = (d', Some (j', q)) -> j <= j' /\ (q = true -> j' = 0).
Proof.
  induction ss as [|s rest IH]; intros j d d' j' q H; cbn [run_stmts] in H; [discriminate|].
  destruct (ex d s) as [[d1 l] o]. destruct o as [n|st c m].
  - apply IH in H. destruct H as [Hle Hq]. split; [lia|exact Hq].
  - inversion H; subst. split; [lia|]. intro Hq. apply andb_prop in Hq. destruct Hq as [Hj _]. apply Nat.eqb_eq in Hj. exact Hj.
Qed.

Theorem exec_quiet_failure : forall fuel ctx d st d' log s c,
  exec fuel ctx d st = (d', log, Err s c 0) -> wf d -> log_quiet log = true -> observe d' = observe d.
Proof.
  induction fuel as [|f IH]; intros ctx d st d' log s c H Hwf Hq; cbn [exec] in H.
  - eapply step_dml_quiet_failure; [| |exact H|exact Hwf|exact Hq].
    + intros; reflexivity.
    + intros; discriminate.
  - eapply step_dml_quiet_failure; [| |exact H|exact Hwf|exact Hq].
    + intros tr o n d0 Hb. cbn beta. rewrite Hb. reflexivity.
    + intros tr o n d0 d1 j Hwf0 Hr. cbn beta in Hr.
      destruct (t_body tr) as [|s0 rest]; cbn [run_stmts] in Hr; [discriminate|].
      destruct (exec f (Some (o, n)) d0 s0) as [[d2 l2] o2] eqn:E.
      destruct o2 as [k|st2 c2 m2].
      * apply run_stmts_flag in Hr. destruct Hr as [Hle Hf]. specialize (Hf eq_refl). lia.
      * assert (Hfl : Nat.eqb 0 0 && quiet_failure l2 (Err st2 c2 m2) = true) by congruence.
        assert (Hd : d2 = d1) by congruence. subst d2.
        cbn [Nat.eqb andb quiet_failure] in Hfl.
        apply andb_prop in Hfl. destruct Hfl as [Hm Hl]. apply Nat.eqb_eq in Hm. subst m2.
        eapply IH; eauto.
Qed.

Definition is_err (o : outcome) : bool := match o with Err _ _ _ => true | Ok _ => false end.

(** C11, first half: a failed top-level statement outside the known class leaves every table as it was *)
Theorem failed_stmt_noop : forall d st d' log o,
  step d st = (d', log, o) -> wf d -> is_err o = true -> known_class log o = false -> observe d' = observe d.
Proof.
  intros d st d' log o H Hwf He Hk. destruct o as [n|s c m]; [discriminate|].
  unfold known_class, quiet_failure in Hk. apply negb_false_iff in Hk. apply andb_prop in Hk. destruct Hk as [Hm Hl].
  apply Nat.eqb_eq in Hm. subst m. eapply exec_quiet_failure; eauto.
Qed.

(** ** INSERT on a table without INSERT triggers: validate-all-then-insert is atomic outright *)
Lemma get_table_upd : forall d t f tb,
  (forall x, tb_id (f x) = tb_id x) -> get_table d t = Some tb -> get_table (upd_table d t f) t = Some (f tb).
Proof.
  intros d t f tb Hid H. unfold get_table, upd_table in *. cbn [d_tabs].
  induction (d_tabs d) as [|x l IH]; [discriminate|]. cbn [map find] in *.
  destruct (Nat.eqb (tb_id x) t) eqn:E.
  - inversion H; subst. rewrite Hid, E. reflexivity.
  - rewrite E. apply IH. exact H.
Qed.

Section NoTriggers.
  Variable run_body : trig -> option row -> option row -> db -> db * option (nat * bool).

  Lemma fire_row_none : forall trigs t tm o n d,
    triggers_for_table trigs t EvInsert = [] -> fire_row db run_body true trigs t tm EvInsert o n d = (d, [], None).
  Proof. intros. unfold fire_row, row_triggers, find_triggers. rewrite H. reflexivity. Qed.

  Lemma fire_stmt_none : forall trigs t tm d,
    triggers_for_table trigs t EvInsert = [] -> fire_stmt db run_body true trigs t tm EvInsert d = (d, [], None).
  Proof. intros. unfold fire_stmt, stmt_triggers, find_triggers. rewrite H. reflexivity. Qed.

  Lemma insert_slow_no_triggers : forall trigs t rows k d tb,
    triggers_for_table trigs t EvInsert = [] -> get_table d t = Some tb ->
    insert_slow run_body true trigs t rows k d = (fold_left (fun d' r => push_row d' t r) rows d, [], None, k + length rows).
  Proof.
    induction rows as [|r rest IH]; intros k d tb Hno Ht; cbn [insert_slow fold_left length].
    - rewrite Nat.add_0_r. reflexivity.
    - unfold fireR. rewrite fire_row_none by exact Hno. rewrite Ht. rewrite fire_row_none by exact Hno.
      erewrite IH; [|exact Hno|unfold push_row; apply get_table_upd; [reflexivity|exact Ht]].
      f_equal. lia.
  Qed.

  (** for every number of rows and every failing position: an INSERT ... VALUES on a table without INSERT triggers
      either fails having changed nothing at all, or inserts every row *)
  Theorem insert_no_triggers_atomic : forall ctx d t ok rows d' log o tb,
    do_insert run_body true ctx d t ok rows = (d', log, o) ->
    get_table d t = Some tb -> triggers_for_table (d_trigs d) t EvInsert = [] ->
    log = [] /\
    match o with
    | Err _ _ m => d' = d /\ m = 0
    | Ok n => exists vrows, validate_rows d tb ctx rows 0 [] = inr vrows /\ n = length vrows
                            /\ d' = fold_left (fun d0 r => push_row d0 t r) vrows d
    end.
  Proof.
    intros ctx d t ok rows d' log o tb H Ht Hno. unfold do_insert in H. rewrite Ht in H.
    destruct ok; [|inversion H; subst; auto].
    unfold do_insert_rows in H.
    destruct (negb (forallb _ rows)); [inversion H; subst; auto|].
    destruct (validate_rows d tb ctx rows 0 []) as [k|vrows] eqn:Ev; [inversion H; subst; auto|].
    unfold fireS in H. rewrite Hno in H. cbn [hd_error is_none negb andb] in H.
    assert (H1 : (if is_none ctx then fire_stmt db run_body true (d_trigs d) t Before EvInsert d else (d, [], None)) = (d, [], None)).
    { destruct (is_none ctx); [apply fire_stmt_none; exact Hno|reflexivity]. }
    rewrite H1 in H.
    assert (H3 : forall d2, (if is_none ctx then fire_stmt db run_body true (d_trigs d) t After EvInsert d2 else (d2, [], None)) = (d2, [], None)).
    { intro d2. destruct (is_none ctx); [apply fire_stmt_none; exact Hno|reflexivity]. }
    destruct (1 <? length vrows).
    - rewrite H3 in H. inversion H; subst. split; [reflexivity|]. exists vrows. auto.
    - rewrite (insert_slow_no_triggers _ _ _ _ _ tb Hno Ht) in H. rewrite H3 in H. inversion H; subst.
      split; [reflexivity|]. exists vrows. auto.
  Qed.
End NoTriggers.

Lemma rows_after_pushes : forall rows d t tb,
  get_table d t = Some tb ->
  exists tb', get_table (fold_left (fun d0 r => push_row d0 t r) rows d) t = Some tb' /\ tb_rows tb' = tb_rows tb ++ rows.
Proof.
  induction rows as [|r rest IH]; intros d t tb Ht; cbn [fold_left].
  - exists tb. rewrite app_nil_r. auto.
  - destruct (IH (push_row d t r) t (table_insert tb r)) as (tb' & Hg & Hr).
    { unfold push_row. apply (get_table_upd d t (fun x => table_insert x r) tb); [reflexivity|exact Ht]. }
    exists tb'. split; [exact Hg|]. rewrite Hr. unfold table_insert. cbn [tb_rows]. rewrite <- app_assoc. reflexivity.
Qed.

(** C11, second half, for the batch path: a successful multi-row INSERT applied all of its rows, in order *)
Theorem insert_ok_all_applied : forall f ctx d t rows d' log n tb,
  exec (S f) ctx d (SInsert t true rows) = (d', log, Ok n) ->
  get_table d t = Some tb -> triggers_for_table (d_trigs d) t EvInsert = [] ->
  exists vrows tb', validate_rows d tb ctx rows 0 [] = inr vrows /\ n = length vrows /\ length vrows = length rows
                    /\ get_table d' t = Some tb' /\ tb_rows tb' = tb_rows tb ++ vrows.
Proof.
  intros f ctx d t rows d' log n tb H Ht Hno. cbn [exec step_dml] in H.
  destruct (insert_no_triggers_atomic _ _ _ _ _ _ _ _ _ _ H Ht Hno) as [_ (vrows & Hv & Hn & Hd)].
  destruct (rows_after_pushes vrows d t tb Ht) as (tb' & Hg & Hr).
  exists vrows, tb'. subst d'. repeat split; auto.
  clear - Hv. revert Hv. generalize (@nil cell) at 1. generalize 0. revert vrows.
  induction rows as [|es rest IH]; intros vrows k batch Hv; cbn [validate_rows] in Hv.
  - inversion Hv; reflexivity.
  - destruct (insert_values ctx es); [|discriminate].
    destruct (insert_row_ok d tb batch r); [|discriminate].
    destruct (validate_rows d tb ctx rest (S k) _) as [k'|rs] eqn:E; [discriminate|].
    inversion Hv; subst. cbn [length]. f_equal. eapply IH; eauto.
Qed.

(** ** Witnesses: the known classes are inhabited, the side conditions are satisfiable *)
Module W.
  Open Scope Z_scope.
  Definition s_t0 := mkSchema 2 (Some 0%nat) [0%nat] [] [].
  Definition s_aud := mkSchema 1 None [] [] [].
  Definition t0 := mkTable 0 s_t0 [[VInt 1; VInt 10]; [VInt 2; VInt 20]] app0.
  Definition aud := mkTable 1 s_aud [] app0.
  (** children of T0: T2 ON DELETE/UPDATE CASCADE referencing key 1, T3 NO ACTION referencing key 2 *)
  Definition c2 := mkTable 2 (mkSchema 2 (Some 0%nat) [0%nat] [] [mkFk 1 0 0 ACascade ACascade]) [[VInt 7; VInt 1]] app0.
  Definition c3 := mkTable 3 (mkSchema 2 (Some 0%nat) [0%nat] [] [mkFk 1 0 0 ANoAction ANoAction]) [[VInt 8; VInt 2]] app0.
  Definition src := mkTable 4 s_t0 [[VInt 5; VInt 50]; [VInt 2; VInt 0]] app0.

  Definition note := SInsert 1 true [[ELit (VInt 1)]].              (* INSERT INTO audit VALUES (1) *)
  Definition boom := SInsert 99 true [[ELit (VInt 1)]].             (* INSERT INTO a missing table *)
  Definition raise_if (tm : timing) (ev : event) (c : cond) : trig := mkTrig 1 0 tm ev GRow (Some c) true [boom].
  Definition is_key (e : expr) (k : Z) : cond := CCmp OpEq e (ELit (VInt k)).

  Definition ins2 := SInsert 0 true [[ELit (VInt 3); ELit (VInt 30)]; [ELit (VInt 4); ELit (VInt 40)]].
  Definition upd_all := SUpdate 0 [(1%nat, EAdd (ECol 1) 1)] None.
  Definition upd_pk := SUpdate 0 [(0%nat, EAdd (ECol 0) 100)] None.
  Definition upd_bad := SUpdate 0 [(1%nat, ECase (is_key (ECol 0) 2) (ELit VStr) (EAdd (ECol 1) 1))] None.
  Definition del_all := SDelete 0 (Some (CCmp OpGe (ECol 0) (ELit (VInt 1)))).

  Definition bad (d : db) (s : stmt) : Prop :=
    let '(d', log, o) := step d s in
    is_err o = true /\ known_class log o = true /\ observe d' <> observe d.
End W.

Ltac witness := unfold W.bad; vm_compute; repeat split; discriminate.

(** AFTER (or BEFORE) ROW trigger raising on row 1 of a two-row INSERT: row 0 stays *)
Example insert_row_trigger_keeps_earlier_rows :
  W.bad (mkDb [W.t0; W.aud] [W.raise_if After EvInsert (W.is_key (ENew 0) 4)]) W.ins2
  /\ W.bad (mkDb [W.t0; W.aud] [W.raise_if Before EvInsert (W.is_key (ENew 0) 4)]) W.ins2.
Proof. split; witness. Qed.

(** AFTER ROW trigger raising in UPDATE / DELETE: the whole change stays *)
Example update_after_trigger_keeps_change :
  W.bad (mkDb [W.t0; W.aud] [W.raise_if After (EvUpdate None) (W.is_key (EOld 0) 2)]) W.upd_all.
Proof. witness. Qed.
Example delete_after_trigger_keeps_change :
  W.bad (mkDb [W.t0; W.aud] [W.raise_if After EvDelete (W.is_key (EOld 0) 2)]) W.del_all.
Proof. witness. Qed.

(** AFTER STATEMENT trigger raising: the change stays (INSERT) *)
Example after_statement_trigger_keeps_change :
  W.bad (mkDb [W.t0; W.aud] [mkTrig 1 0 After EvInsert GStmt None true [W.boom]]) W.ins2.
Proof. witness. Qed.

(** NO ACTION hit on the second parent row: the first row's cascade stays (UPDATE of the key, DELETE) *)
Example fk_no_action_after_cascade :
  W.bad (mkDb [W.t0; W.c2; W.c3] []) W.upd_pk /\ W.bad (mkDb [W.t0; W.c2; W.c3] []) W.del_all.
Proof. split; witness. Qed.

(** the bulk-transfer path of INSERT ... SELECT *: source row 1 duplicates a key -- the statement fails at that row and
    source row 0 is NOT kept (every row is validated before the first insert) *)
Example bulk_transfer_failure_changes_nothing :
  step (mkDb [W.t0; W.src] []) (SInsertSel 0 4 true) = (mkDb [W.t0; W.src] [], [], Err (AtBulk 1) CzCheck 0).
Proof. vm_compute. reflexivity. Qed.

(** UPDATE whose SET expression yields a string for row 1: the storage layer rejects it after row 0 was written *)
Example update_type_mismatch_keeps_earlier_rows :
  W.bad (mkDb [W.t0] []) W.upd_bad.
Proof. witness. Qed.

(** the effects of triggers that ran before the failure stay: BEFORE STATEMENT trigger writes the audit table, then
    the UPDATE violates the primary key *)
Example trigger_effects_survive_failure :
  W.bad (mkDb [W.t0; W.aud] [mkTrig 1 0 Before (EvUpdate None) GStmt None true [W.note]])
        (SUpdate 0 [(0%nat, ELit (VInt 2))] (Some (W.is_key (ECol 0) 1))).
Proof. witness. Qed.

(** the full statement of C11 is false of the model *)
Theorem failed_stmt_noop_refuted :
  exists d st d' log o, wf d /\ step d st = (d', log, o) /\ is_err o = true /\ observe d' <> observe d.
Proof.
  exists (mkDb [W.t0; W.aud] [W.raise_if After EvInsert (W.is_key (ENew 0) 4)]), W.ins2. eexists. eexists. eexists.
  split; [repeat constructor; cbn; intuition discriminate|].
  split; [vm_compute; reflexivity|]. split; [reflexivity|]. vm_compute. discriminate.
Qed.

(** ... and the side condition of [failed_stmt_noop] is met by failures of every kind: a constraint in the middle
    of a batch, a trigger raising BEFORE the only row, a trigger raising AFTER the only row (single-row undo), the
    recursion guard *)
Example quiet_failures :
  (let '(d', log, o) := step (mkDb [W.t0; W.aud] []) (SInsert 0 true [[ELit (VInt 3); ELit (VInt 30)]; [ELit (VInt 1); ELit (VInt 0)]]) in
   (is_err o, known_class log o)) = (true, false)
  /\ (let '(d', log, o) := step (mkDb [W.t0; W.aud] [W.raise_if Before EvInsert (W.is_key (ENew 0) 3)]) (SInsert 0 true [[ELit (VInt 3); ELit (VInt 30)]]) in
      (is_err o, known_class log o)) = (true, false)
  /\ (let '(d', log, o) := step (mkDb [W.t0; W.aud] [W.raise_if After EvInsert (W.is_key (ENew 0) 3)]) (SInsert 0 true [[ELit (VInt 3); ELit (VInt 30)]]) in
      (is_err o, known_class log o, observe d')) = (true, false, observe (mkDb [W.t0; W.aud] [])).
Proof. vm_compute. repeat split. Qed.

(** ** The known classes, one witness each, with the failure site and the write counter the model reports *)
Definition changed_after_error (d : db) (st : stmt) (s : site) (m : nat) : Prop :=
  exists d' log c, step d st = (d', log, Err s c m) /\ known_class log (Err s c m) = true /\ observe d' <> observe d.

Ltac known_witness := unfold changed_after_error; eexists; eexists; eexists; split; [vm_compute; reflexivity|]; split; [reflexivity|vm_compute; discriminate].

Theorem known_insert_after_row_trigger :
  exists d st, wf d /\ changed_after_error d st (AtAfterRow 1) 1.
Proof.
  exists (mkDb [W.t0; W.aud] [W.raise_if After EvInsert (W.is_key (ENew 0) 4)]), W.ins2.
  split; [repeat constructor; cbn; intuition discriminate|known_witness].
Qed.

Theorem known_insert_before_row_trigger :
  exists d st, wf d /\ changed_after_error d st (AtBeforeRow 1) 1.
Proof.
  exists (mkDb [W.t0; W.aud] [W.raise_if Before EvInsert (W.is_key (ENew 0) 4)]), W.ins2.
  split; [repeat constructor; cbn; intuition discriminate|known_witness].
Qed.

Theorem known_after_statement_trigger :
  exists d st, wf d /\ changed_after_error d st AtAfterStmt 2.
Proof.
  exists (mkDb [W.t0; W.aud] [mkTrig 1 0 After EvInsert GStmt None true [W.boom]]), W.ins2.
  split; [repeat constructor; cbn; intuition discriminate|known_witness].
Qed.

Theorem known_update_after_row_trigger :
  exists d st, wf d /\ changed_after_error d st (AtAfterRow 1) 2.
Proof.
  exists (mkDb [W.t0; W.aud] [W.raise_if After (EvUpdate None) (W.is_key (EOld 0) 2)]), W.upd_all.
  split; [repeat constructor; cbn; intuition discriminate|known_witness].
Qed.

Theorem known_delete_after_row_trigger :
  exists d st, wf d /\ changed_after_error d st (AtAfterRow 1) 1.
Proof.
  exists (mkDb [W.t0; W.aud] [W.raise_if After EvDelete (W.is_key (EOld 0) 2)]), W.del_all.
  split; [repeat constructor; cbn; intuition discriminate|known_witness].
Qed.

Theorem known_update_no_action_after_cascade :
  exists d st, wf d /\ changed_after_error d st (AtCascade 1) 1.
Proof.
  exists (mkDb [W.t0; W.c2; W.c3] []), W.upd_pk.
  split; [repeat constructor; cbn; intuition discriminate|known_witness].
Qed.

Theorem known_delete_no_action_after_cascade :
  exists d st, wf d /\ changed_after_error d st (AtCascade 1) 1.
Proof.
  exists (mkDb [W.t0; W.c2; W.c3] []), W.del_all.
  split; [repeat constructor; cbn; intuition discriminate|known_witness].
Qed.

(** INSERT ... SELECT * through the bulk-transfer path is atomic outright: a failure at any source row leaves the
    database exactly as it was, a success appends every source row in storage order *)
Theorem exec_bulk_transfer_atomic : forall fuel ctx d t src dst s d' log o,
  exec fuel ctx d (SInsertSel t src true) = (d', log, o) ->
  get_table d t = Some dst -> get_table d src = Some s ->
  is_none (hd_error (triggers_for_table (d_trigs d) t EvInsert)) && bulk_eligible dst s = true ->
  log = [] /\
  match o with
  | Err _ _ m => d' = d /\ m = 0
  | Ok n => n = length (tb_rows s) /\ d' = fold_left (fun d0 r => push_row d0 t r) (tb_rows s) d
  end.
Proof.
  intros fuel ctx d t src dst s d' log o H Ht Hs He.
  assert (Hd : do_insert_select (match fuel with O => fun _ _ _ d0 => (d0, None) | S f => body_runner f end)
                                (match fuel with O => false | S _ => true end) ctx d t src true = (d', log, o)).
  { destruct fuel; exact H. }
  unfold do_insert_select in Hd. rewrite Ht, Hs in Hd. cbn [andb] in Hd. rewrite He in Hd.
  unfold bulk_transfer in Hd. destruct (bulk_validate d dst (tb_rows s) 0 []); inversion Hd; subst; auto.
Qed.

Theorem known_update_type_mismatch_partial :
  exists d st, wf d /\ changed_after_error d st (AtApply 1) 1.
Proof.
  exists (mkDb [W.t0] []), W.upd_bad.
  split; [repeat constructor; cbn; intuition discriminate|known_witness].
Qed.

(** no write of the statement's own, but a trigger that ran before the failure had an effect *)
Theorem known_trigger_effects_survive :
  exists d st, wf d /\ changed_after_error d st (AtValidate 0) 0.
Proof.
  exists (mkDb [W.t0; W.aud] [mkTrig 1 0 Before (EvUpdate None) GStmt None true [W.note]]),
         (SUpdate 0 [(0%nat, ELit (VInt 2))] (Some (W.is_key (ECol 0) 1))).
  split; [repeat constructor; cbn; intuition discriminate|known_witness].
Qed.

(** the statement-level restatements used by Props/C11.v *)
Theorem exec_insert_no_triggers_atomic : forall f ctx d t ok rows d' log o tb,
  exec (S f) ctx d (SInsert t ok rows) = (d', log, o) ->
  get_table d t = Some tb -> triggers_for_table (d_trigs d) t EvInsert = [] ->
  log = [] /\
  match o with
  | Err _ _ m => d' = d /\ m = 0
  | Ok n => exists vrows, validate_rows d tb ctx rows 0 [] = inr vrows /\ n = length vrows
                          /\ d' = fold_left (fun d0 r => push_row d0 t r) vrows d
  end.
Proof. intros f ctx d t ok rows d' log o tb H. cbn [exec step_dml] in H. eapply insert_no_triggers_atomic; eauto. Qed.

(** C34's [failing_trigger_aborts] is C11 specialised to the causes that are triggers *)
Definition trigger_cause (c : cause) : bool :=
  match c with CzWhen _ | CzBody _ _ | CzDepth => true | CzCheck => false end.

Theorem failing_trigger_aborts : forall d st d' log s c m,
  step d st = (d', log, Err s c m) -> wf d -> trigger_cause c = true ->
  known_class log (Err s c m) = false -> observe d' = observe d.
Proof. intros. eapply failed_stmt_noop; eauto. Qed.
