(** Model of /repo/crates/vibesql-server/src/auth/password.rs ([PasswordStore]).

    Strings are lists of Unicode scalar values ([list Z]); [utf8] is Rust's [str::as_bytes].
    The store ([HashMap<String,String>]) is an association list whose head shadows older bindings
    ([insert] = cons, [lookup] = first match): only [get] is ever applied to the map.

    Library code is represented by [Section] variables: [md5] (md-5 crate; instantiated with
    [Store.Md5.md5] in the pinned theorems and in the runner), [argon2_hash] (= [hash_password_argon2]:
    [SaltString::generate(OsRng)] + [Argon2::default().hash_password] + [to_string]; the random salt is an
    explicit argument, [None] = the [Err] of the crate), [phc_parse] (= [PasswordHash::new(..).ok()]) and
    [argon2_verify] (= [Argon2::default().verify_password(..).is_ok()]).  Model file: definitions only. *)
From Coq Require Import ZArith List Bool.
From Coq Require String Ascii.
Import ListNotations.
Open Scope Z_scope.

Definition str : Type := list Z.

(** ASCII literals for examples: ["abc"] as a [str] *)
Definition s2z (s : String.string) : str :=
  map (fun a => Z.of_N (Ascii.N_of_ascii a)) (String.list_ascii_of_string s).

(** ** string primitives *)
Fixpoint str_eqb (a b : str) : bool :=
  match a, b with
  | [], [] => true
  | x :: a', y :: b' => (x =? y) && str_eqb a' b'
  | _, _ => false
  end.

(** [str::starts_with(&str)] *)
Fixpoint starts_with (p s : str) : bool :=
  match p, s with
  | [], _ => true
  | x :: p', y :: s' => (x =? y) && starts_with p' s'
  | _ :: _, [] => false
  end.

(** [str::strip_prefix(&str)] *)
Fixpoint strip_prefix (p s : str) : option str :=
  match p, s with
  | [], _ => Some s
  | x :: p', y :: s' => if x =? y then strip_prefix p' s' else None
  | _ :: _, [] => None
  end.

Definition is_empty (s : str) : bool := match s with [] => true | _ => false end.

(** [char::is_whitespace] (Unicode White_Space), as inclusive ranges; compared with the real function on
    all 0x110000 code points by the harness on every run *)
Definition ws_ranges : list (Z * Z) :=
  [(9, 13); (32, 32); (133, 133); (160, 160); (5760, 5760); (8192, 8202); (8232, 8233); (8239, 8239);
   (8287, 8287); (12288, 12288)].
Definition is_ws (c : Z) : bool := existsb (fun '(lo, hi) => (lo <=? c) && (c <=? hi)) ws_ranges.

Fixpoint trim_start (s : str) : str :=
  match s with
  | [] => []
  | c :: r => if is_ws c then trim_start r else s
  end.
Definition trim_end (s : str) : str := rev (trim_start (rev s)).
(** [str::trim] *)
Definition trim (s : str) : str := trim_end (trim_start s).

(** [str::lines] (Rust 1.95: [split_inclusive('\n')], then strip the '\n' and, only if a '\n' was
    stripped, one '\r').  [raw_lines] returns each line with the flag "was terminated by '\n'". *)
Fixpoint raw_lines (s : str) : list (str * bool) :=
  match s with
  | [] => []
  | c :: r =>
    if c =? 10 then ([], true) :: raw_lines r
    else match raw_lines r with
         | [] => [([c], false)]
         | (h, t) :: rest => (c :: h, t) :: rest
         end
  end.
Definition strip_cr (l : str) : str :=
  match rev l with
  | 13 :: r => rev r
  | _ => l
  end.
Definition lines (s : str) : list str :=
  map (fun '(l, t) => if (t : bool) then strip_cr l else l) (raw_lines s).

(** [line.splitn(2, ':')] on a line: [None] = one part only (no ':'), else (before, after the first ':') *)
Fixpoint split_colon (s : str) : option (str * str) :=
  match s with
  | [] => None
  | c :: r =>
    if c =? 58 then Some ([], r)
    else match split_colon r with
         | Some (a, b) => Some (c :: a, b)
         | None => None
         end
  end.

(** ** literals *)
Definition ARGON2_PREFIX : str := [36; 97; 114; 103; 111; 110; 50].      (* "$argon2" *)
Definition MD5_STORE_PREFIX : str := [123; 77; 68; 53; 125].               (* "{MD5}" *)
Definition MD5_RESP_PREFIX : str := [109; 100; 53].                        (* "md5" *)
Definition HASH_CHAR : Z := 35.                                            (* '#' *)

(** ** encodings *)
(** [str::as_bytes]: UTF-8 of a scalar value *)
Definition utf8_char (c : Z) : list Z :=
  if c <? 128 then [c]
  else if c <? 2048 then [192 + c / 64; 128 + c mod 64]
  else if c <? 65536 then [224 + c / 4096; 128 + (c / 64) mod 64; 128 + c mod 64]
  else [240 + c / 262144; 128 + (c / 4096) mod 64; 128 + (c / 64) mod 64; 128 + c mod 64].
Definition utf8 (s : str) : list Z := flat_map utf8_char s.
(** Unicode scalar values (Rust [char]); surrogates need not be excluded for the lemmas *)
Definition scalar (c : Z) : Prop := 0 <= c < 1114112.

(** [format!("{:x}", digest)]: two lower-case hex digits per byte *)
Definition hexdigit (n : Z) : Z := if n <? 10 then 48 + n else 87 + n.
Definition hex_byte (b : Z) : list Z := [hexdigit ((b / 16) mod 16); hexdigit (b mod 16)].
Definition hex (l : list Z) : str := flat_map hex_byte l.

(** ** the store *)
Definition store : Type := list (str * str).
Definition empty_store : store := [].
Fixpoint lookup {A} (u : str) (st : list (str * A)) : option A :=
  match st with
  | [] => None
  | (k, v) :: r => if str_eqb k u then Some v else lookup u r
  end.
Definition insert {A} (u : str) (v : A) (st : list (str * A)) : list (str * A) := (u, v) :: st.

(** ** load_from_file: one line *)
Inductive line_res : Type :=
| LSkip                       (* blank or comment: [continue] *)
| LEntry (u v : str)          (* trimmed user name, trimmed password value *)
| LBadFormat                  (* [parts.len() != 2] *)
| LEmptyUser.                 (* [username.is_empty()] *)

Definition parse_line (raw : str) : line_res :=
  let line := trim raw in
  if is_empty line || starts_with [HASH_CHAR] line then LSkip
  else match split_colon line with
       | None => LBadFormat
       | Some (a, b) =>
         let u := trim a in
         let v := trim b in
         if is_empty u then LEmptyUser else LEntry u v
       end.

Inductive stored_kind : Type := KArgon | KMd5 | KClear.
Definition classify (v : str) : stored_kind :=
  if starts_with ARGON2_PREFIX v then KArgon
  else if starts_with MD5_STORE_PREFIX v then KMd5
  else KClear.

Inductive load_err : Type :=
| EBadFormat (line : nat)     (* 0-based index of the offending line *)
| EEmptyUser (line : nat)
| EHash (line : nat).         (* [hash_password_argon2] returned Err *)

Inductive result (A : Type) : Type :=
| Ok (a : A)
| Err (e : load_err).
Arguments Ok {A} a.
Arguments Err {A} e.

(** ** specification side: what each user's secret was created from *)
Inductive cred : Type :=
| CPassword (pw : str)        (* hashed here with Argon2 from this password (add_user, cleartext file line) *)
| CMd5 (pw : str)             (* stored as "{MD5}" ++ pw *)
| CExternal (stored : str).   (* supplied already hashed / anything else, kept verbatim *)

Definition cred_of_hashed (h : str) : cred :=
  match strip_prefix MD5_STORE_PREFIX h with
  | Some pw => CMd5 pw
  | None => CExternal h
  end.

Definition astore : Type := list (str * cred).

(** what a value read from the password file stands for *)
Definition cred_of_value (v : str) : cred :=
  match classify v with KArgon => CExternal v | KMd5 => cred_of_hashed v | KClear => CPassword v end.

(** the (user, value) entries of a file in order (malformed lines contribute nothing) *)
Fixpoint file_entries (ls : list str) : list (str * str) :=
  match ls with
  | [] => []
  | l :: rest => match parse_line l with LEntry u v => (u, v) :: file_entries rest | _ => file_entries rest end
  end.

Definition line_ok (l : str) : Prop := parse_line l <> LBadFormat /\ parse_line l <> LEmptyUser.

(** a text made of '\n'-terminated lines *)
Definition unlines (ls : list str) : str := concat (map (fun l => l ++ [10]) ls).

Definition all_ws (w : str) : Prop := Forall (fun c => is_ws c = true) w.

(** the known class: a response that is exactly 32 lower-case hex digits (no "md5" prefix) *)
Definition is_lower_hex (c : Z) : bool := ((48 <=? c) && (c <=? 57)) || ((97 <=? c) && (c <=? 102)).
Definition bare_hex32 (resp : str) : bool := (Nat.eqb (length resp) 32) && forallb is_lower_hex resp.

Section Auth.
  Variable Salt : Type.
  Variable PH : Type.                                   (* parsed PHC string, [PasswordHash<'_>] *)
  Variable md5 : list Z -> list Z.
  (** [true]: [password_hash.strip_prefix("md5").unwrap_or(password_hash)] (the code as it is; re-read from
      the source on every run as [Generated.Consts.c29_md5_lenient]); [false]: the repaired comparison
      [password_hash.strip_prefix("md5") == Some(expected)] of fixes/C29-md5-response-without-prefix.patch *)
  Variable md5_lenient : bool.
  Variable argon2_hash : str -> Salt -> option str.
  Variable phc_parse : str -> option PH.
  Variable argon2_verify : PH -> str -> bool.

  (** [load_from_file] after [fs::read_to_string]: [n] = index of the current line (enumerate),
      [salts n] = the OsRng salt drawn while processing line [n] *)
  Fixpoint load_lines (n : nat) (ls : list str) (salts : nat -> Salt) (st : store) : result store :=
    match ls with
    | [] => Ok st
    | l :: rest =>
      match parse_line l with
      | LSkip => load_lines (S n) rest salts st
      | LBadFormat => Err (EBadFormat n)
      | LEmptyUser => Err (EEmptyUser n)
      | LEntry u v =>
        match classify v with
        | KArgon | KMd5 => load_lines (S n) rest salts (insert u v st)
        | KClear =>
          match argon2_hash v (salts n) with
          | Some h => load_lines (S n) rest salts (insert u h st)
          | None => Err (EHash n)
          end
        end
      end
    end.

  Definition load_from_file (content : str) (salts : nat -> Salt) : result store :=
    load_lines 0 (lines content) salts empty_store.

  (** [add_user]: [None] = Err (the store is unchanged, [?] returns before [insert]) *)
  Definition add_user (st : store) (u p : str) (s : Salt) : option store :=
    match argon2_hash p s with
    | Some h => Some (insert u h st)
    | None => None
    end.

  Definition add_user_hashed (st : store) (u h : str) : store := insert u h st.

  Definition get_password (st : store) (u : str) : option str := lookup u st.

  (** [verify_cleartext] *)
  Definition verify_cleartext (st : store) (u p : str) : bool :=
    match get_password st u with
    | Some stored =>
      if starts_with ARGON2_PREFIX stored then
        match phc_parse stored with
        | Some ph => argon2_verify ph p
        | None => false
        end
      else if starts_with MD5_STORE_PREFIX stored then false
      else false
    | None => false
    end.

  (** [compute_md5_password] (returns the 32 hex digits WITHOUT the "md5" prefix, whatever its doc
      comment says) *)
  Definition compute_md5_password (pw user : str) (salt : list Z) : str :=
    let inner_hex := hex (md5 (utf8 pw ++ utf8 user)) in
    hex (md5 (utf8 inner_hex ++ salt)).

  (** [verify_md5] *)
  Definition verify_md5 (st : store) (u resp : str) (salt : list Z) : bool :=
    match get_password st u with
    | Some stored =>
      match strip_prefix MD5_STORE_PREFIX stored with
      | Some md5_password =>
        let expected := compute_md5_password md5_password u salt in
        let hash_to_compare :=
          match strip_prefix MD5_RESP_PREFIX resp with
          | Some r => Some r
          | None => if md5_lenient then Some resp else None
          end in
        match hash_to_compare with
        | Some h => str_eqb expected h
        | None => false
        end
      | None => false
      end
    | None => false
    end.

  (** the message PostgreSQL clients send: "md5" ++ hex(md5(hex(md5(password ++ user)) ++ salt)) *)
  Definition pg_md5_response (pw user : str) (salt : list Z) : str :=
    MD5_RESP_PREFIX ++ hex (md5 (utf8 (hex (md5 (utf8 pw ++ utf8 user))) ++ salt)).

  (** whom the property says must be accepted *)
  Definition spec_cleartext (a : astore) (u p : str) : Prop :=
    match lookup u a with
    | Some (CPassword p0) => p = p0
    | Some (CExternal h) =>
      starts_with ARGON2_PREFIX h = true /\ exists ph, phc_parse h = Some ph /\ argon2_verify ph p = true
    | _ => False
    end.

  Definition spec_md5 (a : astore) (u resp : str) (salt : list Z) : Prop :=
    match lookup u a with
    | Some (CMd5 pw) => resp = pg_md5_response pw u salt
    | _ => False
    end.

  (** histories: the store is created by [new] or [load_from_file] and then mutated by
      [add_user] / [add_user_hashed] *)
  Inductive op : Type :=
  | OpAddUser (u p : str) (s : Salt)
  | OpAddHashed (u h : str).

  Definition op_user (o : op) : str :=
    match o with OpAddUser u _ _ => u | OpAddHashed u _ => u end.

  Definition step (st : store) (o : op) : store :=
    match o with
    | OpAddUser u p s => match add_user st u p s with Some st' => st' | None => st end
    | OpAddHashed u h => add_user_hashed st u h
    end.

  Definition astep (a : astore) (o : op) : astore :=
    match o with
    | OpAddUser u p s => match argon2_hash p s with Some _ => insert u (CPassword p) a | None => a end
    | OpAddHashed u h => insert u (cred_of_hashed h) a
    end.

  (** abstract reading of a password file: same line discipline, but records what was written *)
  Fixpoint aload_lines (n : nat) (ls : list str) (salts : nat -> Salt) (a : astore) : result astore :=
    match ls with
    | [] => Ok a
    | l :: rest =>
      match parse_line l with
      | LSkip => aload_lines (S n) rest salts a
      | LBadFormat => Err (EBadFormat n)
      | LEmptyUser => Err (EEmptyUser n)
      | LEntry u v =>
        match classify v with
        | KArgon => aload_lines (S n) rest salts (insert u (CExternal v) a)
        | KMd5 => aload_lines (S n) rest salts (insert u (cred_of_hashed v) a)
        | KClear =>
          match argon2_hash v (salts n) with
          | Some _ => aload_lines (S n) rest salts (insert u (CPassword v) a)
          | None => Err (EHash n)
          end
        end
      end
    end.

  Inductive origin : Type :=
  | FromNew
  | FromFile (content : str) (salts : nat -> Salt).

  Definition init_store (o : origin) : result store :=
    match o with
    | FromNew => Ok empty_store
    | FromFile c s => load_from_file c s
    end.
  Definition init_astore (o : origin) : result astore :=
    match o with
    | FromNew => Ok []
    | FromFile c s => aload_lines 0 (lines c) s []
    end.

  Definition run (o : origin) (ops : list op) : result store :=
    match init_store o with
    | Ok st => Ok (fold_left step ops st)
    | Err e => Err e
    end.
  Definition arun (o : origin) (ops : list op) : result astore :=
    match init_astore o with
    | Ok a => Ok (fold_left astep ops a)
    | Err e => Err e
    end.

End Auth.

(** ** the assumptions about the argon2 / password-hash crates under which the refinement theorems hold
    (explicit hypotheses of those theorems; validated on every harness run against the real crate) *)
(** [hash_password_argon2] returns a PHC string that begins with "$argon2" *)
Definition Argon2_prefix_ok (Salt : Type) (argon2_hash : str -> Salt -> option str) : Prop :=
  forall p s h, argon2_hash p s = Some h -> starts_with ARGON2_PREFIX h = true.
(** such a string parses, and verifies exactly the password it was made from (idealised: no collisions) *)
Definition Argon2_verify_ok (Salt PH : Type) (argon2_hash : str -> Salt -> option str)
           (phc_parse : str -> option PH) (argon2_verify : PH -> str -> bool) : Prop :=
  forall p s h, argon2_hash p s = Some h ->
  exists ph, phc_parse h = Some ph /\ forall p', argon2_verify ph p' = true <-> p' = p.
