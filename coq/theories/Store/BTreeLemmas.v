(** C17 -- generic lemmas used by Store/BTreeLaws.v: Vec helpers, bounds, sorted segments of
    entries, locality of the multimap operations, and the separator discipline [wfc] of the children
    of one internal node. *)
From Coq Require Import List ZArith Bool Arith Lia Sorted.
From VibeSQL Require Import Store.BTree.
Import ListNotations.
Local Open Scope nat_scope.

(** * Lists *)
Lemma firstn_skipn_nth {A} : forall (l : list A) i x, nth_error l i = Some x ->
  l = firstn i l ++ x :: skipn (S i) l.
Proof.
  induction l as [|a l IH]; intros [|i] x H; cbn in *; try discriminate.
  - now inversion H.
  - f_equal. now apply IH.
Qed.

Lemma nth_error_Some_ex {A} : forall (l : list A) i, i < length l -> exists x, nth_error l i = Some x.
Proof.
  intros l i H. destruct (nth_error l i) eqn:E; eauto. apply nth_error_None in E. lia.
Qed.

Lemma flat_map_app' {A B} (f : A -> list B) l1 l2 : flat_map f (l1 ++ l2) = flat_map f l1 ++ flat_map f l2.
Proof. induction l1; cbn; auto. now rewrite IHl1, app_assoc. Qed.

Lemma last_opt_app {A} (l : list A) x : last_opt (l ++ [x]) = Some x.
Proof. unfold last_opt. now rewrite rev_app_distr. Qed.

Lemma last_opt_some {A} (l : list A) x : last_opt l = Some x -> l = removelast l ++ [x].
Proof.
  unfold last_opt. intros H. destruct (rev l) as [|y r] eqn:E; [discriminate|]. inversion H; subst.
  assert (l = rev r ++ [x]) as -> by (rewrite <- (rev_involutive l), E; reflexivity).
  now rewrite removelast_last.
Qed.

Lemma last_opt_none {A} (l : list A) : last_opt l = None -> l = [].
Proof.
  unfold last_opt. destruct (rev l) eqn:E; [|discriminate]. intros _.
  rewrite <- (rev_involutive l), E. reflexivity.
Qed.

Lemma length_removelast {A} (l : list A) : length (removelast l) = length l - 1.
Proof.
  destruct (last_opt l) eqn:E.
  - apply last_opt_some in E. rewrite E at 2. rewrite app_length. cbn. lia.
  - apply last_opt_none in E. subst. reflexivity.
Qed.

Lemma set_nth_length {A} i (x : A) l : i < length l -> length (set_nth i x l) = length l.
Proof.
  intros H. unfold set_nth. rewrite app_length, firstn_length. cbn [length]. rewrite skipn_length. lia.
Qed.

Lemma set_nth_cons {A} i (x a : A) l : set_nth (S i) x (a :: l) = a :: set_nth i x l.
Proof. reflexivity. Qed.

Lemma firstn_set_nth_lt {A} : forall (l : list A) j i x, j <= i -> i < length l -> firstn j (set_nth i x l) = firstn j l.
Proof.
  induction l as [|a l IH]; intros [|j] [|i] x H Hl; cbn in Hl; try lia; try reflexivity.
  rewrite set_nth_cons. cbn [firstn]. f_equal. apply IH; lia.
Qed.

Lemma skipn_set_nth_gt {A} : forall (l : list A) j i x, i < j -> i < length l -> skipn j (set_nth i x l) = skipn j l.
Proof.
  induction l as [|a l IH]; intros [|j] [|i] x H Hl; cbn in Hl; try lia; try reflexivity.
  rewrite set_nth_cons. cbn [skipn]. apply IH; lia.
Qed.

Lemma nth_error_set_nth_eq {A} : forall (l : list A) i x, i < length l -> nth_error (set_nth i x l) i = Some x.
Proof.
  induction l as [|a l IH]; intros [|i] x Hl; cbn in Hl; try lia; try reflexivity.
  rewrite set_nth_cons. cbn [nth_error]. apply IH; lia.
Qed.

Lemma nth_error_set_nth_neq {A} : forall (l : list A) i j x, i <> j -> i < length l -> nth_error (set_nth i x l) j = nth_error l j.
Proof.
  induction l as [|a l IH]; intros [|i] [|j] x Hn Hl; cbn in Hl; try lia; try reflexivity.
  rewrite set_nth_cons. cbn [nth_error]. apply IH; lia.
Qed.

Lemma set2_set_nth_r {A} j (x y z : A) l : S j < length l -> set2 j x y (set_nth (S j) z l) = set2 j x y l.
Proof.
  intros H. unfold set2. rewrite firstn_set_nth_lt by lia. now rewrite skipn_set_nth_gt by lia.
Qed.
Lemma set2_set_nth_l {A} j (x y z : A) l : j < length l -> set2 j x y (set_nth j z l) = set2 j x y l.
Proof.
  intros H. unfold set2. rewrite firstn_set_nth_lt by lia. now rewrite skipn_set_nth_gt by lia.
Qed.
Lemma merge2_set_nth_r {A} j (x z : A) l : S j < length l -> merge2 j x (set_nth (S j) z l) = merge2 j x l.
Proof.
  intros H. unfold merge2. rewrite firstn_set_nth_lt by lia. now rewrite skipn_set_nth_gt by lia.
Qed.
Lemma merge2_set_nth_l {A} j (x z : A) l : j < length l -> merge2 j x (set_nth j z l) = merge2 j x l.
Proof.
  intros H. unfold merge2. rewrite firstn_set_nth_lt by lia. now rewrite skipn_set_nth_gt by lia.
Qed.

(** * Bounds *)
Definition bound := option Z.
Definition lo_le (lo : bound) (x : Z) : Prop := match lo with None => True | Some l => (l <= x)%Z end.
Definition lo_lt (lo : bound) (x : Z) : Prop := match lo with None => True | Some l => (l < x)%Z end.
Definition lt_hi (x : Z) (hi : bound) : Prop := match hi with None => True | Some h => (x < h)%Z end.
Definition inb (lo hi : bound) (x : Z) : Prop := lo_le lo x /\ lt_hi x hi.

Lemma lo_lt_le lo x : lo_lt lo x -> lo_le lo x.
Proof. destruct lo; cbn; lia. Qed.
Lemma lo_lt_trans lo x y : lo_lt lo x -> (x <= y)%Z -> lo_lt lo y.
Proof. destruct lo; cbn; lia. Qed.
Lemma lo_le_trans lo x y : lo_le lo x -> (x <= y)%Z -> lo_le lo y.
Proof. destruct lo; cbn; lia. Qed.
Lemma lo_le_lt_trans lo x y : lo_le lo x -> (x < y)%Z -> lo_lt lo y.
Proof. destruct lo; cbn; lia. Qed.
Lemma lt_hi_trans x y hi : (x <= y)%Z -> lt_hi y hi -> lt_hi x hi.
Proof. destruct hi; cbn; lia. Qed.

(** * Sorted segments of entries *)
Definition keys (es : list entry) : list key := map fst es.
Definition klt (k : key) (es : list entry) : Prop := Forall (fun x => (x < k)%Z) (keys es).
Definition kgt (k : key) (es : list entry) : Prop := Forall (fun x => (k < x)%Z) (keys es).

(** strictly sorted keys inside [lo, hi), no empty row-id list *)
Definition seg (lo hi : bound) (es : list entry) : Prop :=
  StronglySorted Z.lt (keys es) /\ Forall (inb lo hi) (keys es) /\ Forall (fun e => snd e <> []) es.

Lemma keys_app a b : keys (a ++ b) = keys a ++ keys b.
Proof. apply map_app. Qed.

Lemma seg_nil lo hi : seg lo hi [].
Proof. repeat split; constructor. Qed.

Lemma sorted_app (a b : list Z) :
  StronglySorted Z.lt a -> StronglySorted Z.lt b ->
  (forall x y, In x a -> In y b -> (x < y)%Z) -> StronglySorted Z.lt (a ++ b).
Proof.
  induction a as [|x a IH]; cbn; intros Ha Hb H; auto.
  inversion Ha; subst. constructor.
  - apply IH; auto.
  - apply Forall_app; split; auto. apply Forall_forall. intros y Hy. apply H; auto.
Qed.

Lemma sorted_app_inv (a b : list Z) :
  StronglySorted Z.lt (a ++ b) ->
  StronglySorted Z.lt a /\ StronglySorted Z.lt b /\ (forall x y, In x a -> In y b -> (x < y)%Z).
Proof.
  induction a as [|x a IH]; cbn; intros H.
  - split; [constructor|split; [assumption|intros x y []]].
  - inversion H; subst. destruct (IH H2) as (Ha & Hb & Hab).
    apply Forall_app in H3 as [H3a H3b].
    repeat split; auto. constructor; auto.
    intros x' y [->|Hx] Hy; auto. rewrite Forall_forall in H3b. auto.
Qed.

Lemma seg_app lo hi k a b :
  seg lo (Some k) a -> seg (Some k) hi b -> lo_le lo k -> lt_hi k hi -> seg lo hi (a ++ b).
Proof.
  intros (Sa & Ba & Na) (Sb & Bb & Nb) Hlo Hhi. repeat split.
  - rewrite keys_app. apply sorted_app; auto. intros x y Hx Hy.
    rewrite Forall_forall in Ba, Bb. destruct (Ba x Hx) as [_ H1]. destruct (Bb y Hy) as [H2 _].
    cbn in *. lia.
  - rewrite keys_app. apply Forall_app; split.
    + eapply Forall_impl; [|exact Ba]. intros x [H1 H2]. split; auto. cbn in H2.
      eapply lt_hi_trans; [|exact Hhi]. lia.
    + eapply Forall_impl; [|exact Bb]. intros x [H1 H2]. split; auto. cbn in H1.
      eapply lo_le_trans; eauto.
  - apply Forall_app; split; auto.
Qed.

(** splitting a segment in front of an entry *)
Lemma seg_split lo hi a k rs b :
  seg lo hi (a ++ (k, rs) :: b) -> seg lo (Some k) a /\ seg (Some k) hi ((k, rs) :: b) /\ inb lo hi k.
Proof.
  intros (S & B & N). rewrite keys_app in S, B. cbn in S, B.
  apply sorted_app_inv in S as (Sa & Sb & Sab).
  apply Forall_app in B as [Ba Bb]. apply Forall_app in N as [Na Nb].
  assert (Hk : inb lo hi k) by (inversion Bb; auto).
  repeat split; auto.
  - apply Forall_forall. intros x Hx. rewrite Forall_forall in Ba. destruct (Ba x Hx). split; auto.
    cbn. apply Sab; cbn; auto.
  - destruct Hk as [_ Hk]. inversion Sb; subst. inversion Bb; subst.
    constructor.
    + split; cbn; [lia|]. destruct H3; auto.
    + rewrite Forall_forall in *. intros x Hx. destruct (H4 x Hx). split; auto. cbn.
      specialize (H2 x Hx). lia.
  - destruct Hk; auto.
  - destruct Hk; auto.
Qed.

Lemma seg_klt lo k es : seg lo (Some k) es -> klt k es.
Proof. intros (_ & B & _). eapply Forall_impl; [|exact B]. intros x [_ H]. exact H. Qed.

Lemma seg_kge k hi es : seg (Some k) hi es -> Forall (fun x => (k <= x)%Z) (keys es).
Proof. intros (_ & B & _). eapply Forall_impl; [|exact B]. intros x [H _]. exact H. Qed.

Lemma klt_app k a b : klt k a -> klt k b -> klt k (a ++ b).
Proof. unfold klt. rewrite keys_app. intros. apply Forall_app; auto. Qed.
Lemma kgt_app k a b : kgt k a -> kgt k b -> kgt k (a ++ b).
Proof. unfold kgt. rewrite keys_app. intros. apply Forall_app; auto. Qed.
Lemma klt_mono k k' a : klt k a -> (k <= k')%Z -> klt k' a.
Proof. intros H Hk. eapply Forall_impl; [|exact H]. cbn. intros. lia. Qed.
Lemma kge_kgt k k' a : Forall (fun x => (k' <= x)%Z) (keys a) -> (k < k')%Z -> kgt k a.
Proof. intros H Hk. eapply Forall_impl; [|exact H]. cbn. intros. lia. Qed.

(** * The multimap operations act locally on a sorted association list *)
Lemma leaf_insert_app_l a b k r : klt k a -> leaf_insert (a ++ b) k r = a ++ leaf_insert b k r.
Proof.
  induction a as [|[k' rs] a IH]; cbn; intros H; auto.
  inversion H; subst. cbn in H2.
  destruct (k <? k')%Z eqn:E1; [apply Z.ltb_lt in E1; lia|].
  destruct (k =? k')%Z eqn:E2; [apply Z.eqb_eq in E2; lia|].
  f_equal. now apply IH.
Qed.

Lemma leaf_insert_app_r a b k r : kgt k b -> leaf_insert (a ++ b) k r = leaf_insert a k r ++ b.
Proof.
  induction a as [|[k' rs] a IH]; cbn; intros H.
  - destruct b as [|[k' rs] b]; cbn; auto. inversion H; subst. cbn in H2.
    apply Z.ltb_lt in H2. now rewrite H2.
  - destruct (k <? k')%Z; auto. destruct (k =? k')%Z; auto. cbn. f_equal. now apply IH.
Qed.

Lemma leaf_search_app_l a b k : klt k a -> leaf_search (a ++ b) k = leaf_search b k.
Proof.
  induction a as [|[k' rs] a IH]; cbn; intros H; auto.
  inversion H; subst. cbn in H2.
  destruct (k' =? k)%Z eqn:E; [apply Z.eqb_eq in E; lia|]. now apply IH.
Qed.

Lemma leaf_search_app_r a b k : kgt k b -> leaf_search (a ++ b) k = leaf_search a k.
Proof.
  induction a as [|[k' rs] a IH]; cbn; intros H.
  - induction b as [|[k' rs] b IHb]; cbn; auto. inversion H; subst. cbn in H2.
    destruct (k' =? k)%Z eqn:E; [apply Z.eqb_eq in E; lia|]. now apply IHb.
  - destruct (k' =? k)%Z; auto.
Qed.

Lemma seg_insert lo hi es k r : seg lo hi es -> inb lo hi k -> seg lo hi (leaf_insert es k r).
Proof.
  intros (S & B & N) Hk. induction es as [|[k' rs] es IH]; cbn.
  - destruct Hk. repeat split; repeat constructor; cbn; auto; congruence.
  - cbn in S, B. inversion S; subst. inversion B; subst. inversion N; subst.
    destruct (k <? k')%Z eqn:E1.
    + apply Z.ltb_lt in E1. repeat split; cbn.
      * constructor; auto. constructor; auto. eapply Forall_impl; [|exact H2]. cbn; intros; lia.
      * constructor; auto.
      * constructor; auto. cbn; congruence.
    + apply Z.ltb_ge in E1. destruct (k =? k')%Z eqn:E2.
      * repeat split; cbn; auto. constructor; auto. cbn. destruct rs; cbn; congruence.
      * apply Z.eqb_neq in E2. destruct (IH H1 H4 H6) as (S' & B' & N').
        repeat split; cbn; auto.
        -- constructor; auto.
           (* every key of the result is k or a key of es *)
           clear - H2 E1 E2. induction es as [|[k2 rs2] es IHes]; cbn.
           ++ constructor; auto. cbn. lia.
           ++ inversion H2; subst. destruct (k <? k2)%Z.
              ** constructor; [cbn; lia|]. constructor; auto.
              ** destruct (k =? k2)%Z; cbn; constructor; auto.
Qed.

(** a partial operation on entry lists that acts on the single key [k] *)
Record local_op (k : key) (f : list entry -> option (list entry)) : Prop := {
  lop_l : forall a b, klt k a -> f (a ++ b) = option_map (app a) (f b);
  lop_r : forall a b, kgt k b -> f (a ++ b) = option_map (fun a' => a' ++ b) (f a);
  lop_seg : forall lo hi m m', seg lo hi m -> f m = Some m' -> seg lo hi m';
}.

Lemma seg_tail lo hi e es : seg lo hi (e :: es) -> seg lo hi es.
Proof.
  intros (S & B & N). cbn in *. inversion S; inversion B; inversion N; subst. repeat split; auto.
Qed.

Lemma seg_cons_sub lo hi e m m1 :
  seg lo hi (e :: m) -> seg lo hi m1 -> (forall x, In x (keys m1) -> In x (keys m)) -> seg lo hi (e :: m1).
Proof.
  intros (S & B & N) (S1 & B1 & N1) Hsub. cbn in S, B.
  inversion S as [|? ? Ss Sf]; subst. inversion B as [|? ? Bk Bb]; subst. inversion N as [|? ? Nk Nn]; subst.
  repeat split; cbn.
  - constructor; auto. apply Forall_forall. intros x Hx. rewrite Forall_forall in Sf. auto.
  - constructor; auto.
  - constructor; auto.
Qed.

Lemma delete_all_keys_sub k : forall m m1, leaf_delete_all k m = Some m1 ->
  forall x, In x (keys m1) -> In x (keys m).
Proof.
  induction m as [|[k2 rs2] m IH]; cbn; intros m1 E x Hx; [discriminate|].
  destruct (k2 =? k)%Z.
  - inversion E; subst. auto.
  - destruct (leaf_delete_all k m) as [m2|] eqn:E'; [|discriminate]. inversion E; subst.
    cbn in Hx. destruct Hx; auto. right. eapply IH; eauto.
Qed.

Lemma delete_one_keys_sub k r : forall m m1, leaf_delete_one k r m = Some m1 ->
  forall x, In x (keys m1) -> In x (keys m).
Proof.
  induction m as [|[k2 rs2] m IH]; cbn; intros m1 E x Hx; [discriminate|].
  destruct (k2 =? k)%Z.
  - destruct (remove_first r rs2) as [[|y rs']|]; inversion E; subst; cbn in *; auto.
  - destruct (leaf_delete_one k r m) as [m2|] eqn:E'; [|discriminate]. inversion E; subst.
    cbn in Hx. destruct Hx; auto. right. eapply IH; eauto.
Qed.

Lemma delete_all_local k : local_op k (leaf_delete_all k).
Proof.
  constructor.
  - induction a as [|[k' rs] a IH]; cbn; intros b H.
    + now destruct (leaf_delete_all k b).
    + inversion H; subst. cbn in H2. destruct (k' =? k)%Z eqn:E; [apply Z.eqb_eq in E; lia|].
      rewrite (IH b H3). now destruct (leaf_delete_all k b).
  - induction a as [|[k' rs] a IH]; cbn; intros b H.
    + induction b as [|[k' rs] b IHb]; cbn; auto. inversion H; subst. cbn in H2.
      destruct (k' =? k)%Z eqn:E; [apply Z.eqb_eq in E; lia|]. now rewrite (IHb H3).
    + destruct (k' =? k)%Z; auto. rewrite (IH b H). now destruct (leaf_delete_all k a).
  - intros lo hi m. induction m as [|[k' rs] m IH]; cbn; intros m' Hs H; [discriminate|].
    destruct (k' =? k)%Z.
    + inversion H; subst. eapply seg_tail; eauto.
    + destruct (leaf_delete_all k m) as [m1|] eqn:E; [|discriminate]. inversion H; subst.
      eapply seg_cons_sub; eauto.
      * eapply IH; eauto. eapply seg_tail; eauto.
      * eapply delete_all_keys_sub; eauto.
Qed.

Lemma delete_one_local k r : local_op k (leaf_delete_one k r).
Proof.
  constructor.
  - induction a as [|[k' rs] a IH]; cbn; intros b H.
    + now destruct (leaf_delete_one k r b).
    + inversion H; subst. cbn in H2. destruct (k' =? k)%Z eqn:E; [apply Z.eqb_eq in E; lia|].
      rewrite (IH b H3). now destruct (leaf_delete_one k r b).
  - induction a as [|[k' rs] a IH]; cbn; intros b H.
    + induction b as [|[k' rs] b IHb]; cbn; auto. inversion H; subst. cbn in H2.
      destruct (k' =? k)%Z eqn:E; [apply Z.eqb_eq in E; lia|]. now rewrite (IHb H3).
    + destruct (k' =? k)%Z.
      * destruct (remove_first r rs) as [[|]|]; auto.
      * rewrite (IH b H). now destruct (leaf_delete_one k r a).
  - intros lo hi m. induction m as [|[k' rs] m IH]; cbn; intros m' Hs H; [discriminate|].
    destruct (k' =? k)%Z.
    + destruct (remove_first r rs) as [[|x rs']|] eqn:E; [| |discriminate]; inversion H; subst.
      * eapply seg_tail; eauto.
      * destruct Hs as (S & B & N). cbn in *. inversion N; subst. repeat split; auto.
        constructor; auto. cbn; congruence.
    + destruct (leaf_delete_one k r m) as [m1|] eqn:E; [|discriminate]. inversion H; subst.
      eapply seg_cons_sub; eauto.
      * eapply IH; eauto. eapply seg_tail; eauto.
      * eapply delete_one_keys_sub; eauto.
Qed.

(** * Separator discipline of one internal node *)
Section Wfc.
  Variable W : bound -> bound -> node -> Prop.

  (** children [cs] with separators [ks] tile [lo, hi): child i lives in [k_{i-1}, k_i) *)
  Fixpoint wfc (lo hi : bound) (ks : list key) (cs : list node) : Prop :=
    match ks, cs with
    | [], [c] => W lo hi c
    | k :: ks', c :: cs' => lo_lt lo k /\ lt_hi k hi /\ W lo (Some k) c /\ wfc (Some k) hi ks' cs'
    | _, _ => False
    end.

  Lemma wfc_length : forall ks cs lo hi, wfc lo hi ks cs -> length cs = S (length ks).
  Proof.
    induction ks as [|k ks IH]; intros [|c cs] lo hi H; cbn in *; try tauto.
    - destruct cs; [reflexivity|tauto].
    - destruct H as (_ & _ & _ & H). f_equal. eauto.
  Qed.

  Lemma wfc_keys : forall ks cs lo hi, wfc lo hi ks cs -> Forall (fun k => lo_lt lo k /\ lt_hi k hi) ks.
  Proof.
    induction ks as [|k ks IH]; intros [|c cs] lo hi H; cbn in *; try tauto; auto.
    destruct H as (H1 & H2 & _ & H). constructor; auto.
    eapply Forall_impl; [|eapply IH; eauto]. cbn. intros x [Hx Hx']. split; auto.
    eapply lo_lt_trans; eauto. lia.
  Qed.

  Lemma wfc_sorted : forall ks cs lo hi, wfc lo hi ks cs -> StronglySorted Z.lt ks.
  Proof.
    induction ks as [|k ks IH]; intros [|c cs] lo hi H; cbn in *; try tauto; try constructor.
    - destruct H as (_ & _ & _ & H). eauto.
    - destruct H as (_ & _ & _ & H). apply wfc_keys in H.
      eapply Forall_impl; [|exact H]. cbn. tauto.
  Qed.

  Lemma wfc_app : forall ks1 cs1 lo hi k ks2 cs2,
    lo_lt lo k -> lt_hi k hi -> wfc lo (Some k) ks1 cs1 -> wfc (Some k) hi ks2 cs2 ->
    wfc lo hi (ks1 ++ k :: ks2) (cs1 ++ cs2).
  Proof.
    induction ks1 as [|k1 ks1 IH]; intros [|c cs1] lo hi k ks2 cs2 Hlo Hhi H1 H2; cbn in *; try tauto.
    - destruct cs1; [|tauto]. cbn. tauto.
    - destruct H1 as (A & B & C & D). split; [exact A|].
      split; [eapply lt_hi_trans; [|exact Hhi]; cbn in B; lia|]. split; [exact C|]. apply IH; auto.
  Qed.

  Lemma wfc_app_inv : forall ks1 cs1 lo hi k ks2 cs2,
    length cs1 = S (length ks1) -> wfc lo hi (ks1 ++ k :: ks2) (cs1 ++ cs2) ->
    lo_lt lo k /\ lt_hi k hi /\ wfc lo (Some k) ks1 cs1 /\ wfc (Some k) hi ks2 cs2.
  Proof.
    induction ks1 as [|k1 ks1 IH]; intros [|c cs1] lo hi k ks2 cs2 Hl H; cbn in *; try lia.
    - destruct cs1; [|cbn in Hl; lia]. cbn in *. tauto.
    - destruct H as (A & B & C & D). apply IH in D; [|lia]. destruct D as (D1 & D2 & D3 & D4).
      repeat split; auto. eapply lo_lt_trans; eauto. cbn in D1. lia.
  Qed.

  (** bounds of child [i] *)
  Definition lob (lo : bound) (ks : list key) (i : nat) : bound :=
    match i with O => lo | S j => Some (nth j ks 0%Z) end.
  Definition hib (hi : bound) (ks : list key) (i : nat) : bound :=
    match nth_error ks i with Some k => Some k | None => hi end.

  Lemma lob_cons lo k ks j : lob lo (k :: ks) (S j) = lob (Some k) ks j.
  Proof. destruct j; reflexivity. Qed.
  Lemma hib_cons hi k ks j : hib hi (k :: ks) (S j) = hib hi ks j.
  Proof. reflexivity. Qed.

  (** replacing the tail context *)
  Lemma wfc_tail_repl : forall ks c cs' x hi lo,
    wfc x hi ks (c :: cs') -> (forall y, lo_lt x y -> lo_lt lo y) ->
    forall ksm csm, wfc lo (hib hi ks 0) ksm csm -> wfc lo hi (ksm ++ ks) (csm ++ cs').
  Proof.
    intros [|k2 ks] c cs' x hi lo H Hlo ksm csm Hm; cbn in *.
    - destruct cs'; [|tauto]. now rewrite !app_nil_r.
    - destruct H as (A & B & C & D). apply wfc_app; auto.
  Qed.

  (** child [i]: its bounds, and replacement of that child by any valid run of children *)
  Lemma wfc_at : forall ks cs lo hi i, wfc lo hi ks cs -> i <= length ks ->
    exists c, nth_error cs i = Some c /\ W (lob lo ks i) (hib hi ks i) c /\
      forall ksm csm, wfc (lob lo ks i) (hib hi ks i) ksm csm ->
        wfc lo hi (firstn i ks ++ ksm ++ skipn i ks) (firstn i cs ++ csm ++ skipn (S i) cs).
  Proof.
    induction ks as [|k ks IH]; intros [|c cs] lo hi i H Hi; cbn in H; try tauto.
    - destruct cs; [|tauto]. cbn in Hi. assert (i = 0) by lia. subst. exists c. cbn.
      repeat split; auto. intros. now rewrite !app_nil_r.
    - destruct H as (A & B & C & D). destruct i as [|j].
      + exists c. cbn [nth_error lob firstn skipn app]. unfold hib. cbn [nth_error].
        repeat split; auto. intros ksm csm Hm. apply wfc_app; auto.
      + cbn in Hi. destruct (IH cs (Some k) hi j D) as (c' & Hn & Hw & Hr); [lia|].
        exists c'. rewrite lob_cons, hib_cons. repeat split; auto.
        all: intros ksm csm Hm; cbn [firstn skipn app]; cbn; repeat split; auto.
  Qed.

  (** two adjacent children [i], [i+1] and their separator *)
  Lemma wfc_at2 : forall ks cs lo hi i, wfc lo hi ks cs -> i < length ks ->
    exists c1 c2 m, nth_error cs i = Some c1 /\ nth_error cs (S i) = Some c2 /\ nth_error ks i = Some m /\
      lo_lt (lob lo ks i) m /\ lt_hi m (hib hi ks (S i)) /\
      W (lob lo ks i) (Some m) c1 /\ W (Some m) (hib hi ks (S i)) c2 /\
      forall ksm csm, wfc (lob lo ks i) (hib hi ks (S i)) ksm csm ->
        wfc lo hi (firstn i ks ++ ksm ++ skipn (S i) ks) (firstn i cs ++ csm ++ skipn (S (S i)) cs).
  Proof.
    induction ks as [|k ks IH]; intros [|c cs] lo hi i H Hi; cbn in H, Hi; try tauto; try lia.
    destruct H as (A & B & C & D). destruct i as [|j].
    - destruct (wfc_at ks cs (Some k) hi 0 D) as (c2 & Hn & Hw & _); [lia|].
      destruct cs as [|c2' cs']; [discriminate|]. cbn in Hn. inversion Hn; subst c2'.
      exists c, c2, k. cbn [nth_error lob]. rewrite hib_cons.
      assert (Hkb : lt_hi k (hib hi ks 0)).
      { unfold hib. destruct ks as [|k2 ks']; cbn; auto. cbn in D. destruct D as (D1 & _). exact D1. }
      repeat split; auto. intros ksm csm Hm. cbn [firstn skipn app].
      eapply wfc_tail_repl; eauto. intros y Hy. eapply lo_lt_trans; eauto. cbn in Hy. lia.
    - destruct (IH cs (Some k) hi j D) as (c1 & c2 & m & H1 & H2 & H3 & H4 & H5 & H6 & H7 & H8); [lia|].
      exists c1, c2, m. rewrite !lob_cons, !hib_cons. cbn [nth_error]. repeat split; auto.
      all: intros ksm csm Hm; cbn [firstn skipn app]; cbn; repeat split; auto.
  Qed.

  (** routing: find_child_index sends an in-range key to the child whose bounds contain it *)
  Lemma fci_le : forall ks k, fci ks k <= length ks.
  Proof. induction ks; cbn; intros; [lia|]. destruct (k <? a)%Z; cbn; [lia|]. specialize (IHks k). lia. Qed.

  Lemma wfc_route : forall ks cs lo hi k, wfc lo hi ks cs -> inb lo hi k ->
    inb (lob lo ks (fci ks k)) (hib hi ks (fci ks k)) k.
  Proof.
    induction ks as [|k1 ks IH]; intros [|c cs] lo hi k H Hk; cbn in H; try tauto.
    { destruct H as (A & B & C & D). cbn [fci]. destruct (k <? k1)%Z eqn:E.
      + apply Z.ltb_lt in E. destruct Hk. split; cbn; auto.
      + apply Z.ltb_ge in E. rewrite lob_cons, hib_cons. apply (IH cs (Some k1) hi k D).
        destruct Hk. split; cbn; auto. }
  Qed.

  (** insert_child's binary search finds the path index for a key strictly inside child i's bounds *)
  Lemma wfc_lower_bound : forall ks cs lo hi i sk, wfc lo hi ks cs -> i <= length ks ->
    lo_lt (lob lo ks i) sk -> lt_hi sk (hib hi ks i) -> lower_bound ks sk = i.
  Proof.
    induction ks as [|k1 ks IH]; intros [|c cs] lo hi i sk H Hi Hlo Hhi; cbn in H, Hi; try tauto.
    - cbn. lia.
    - destruct H as (A & B & C & D). cbn [lower_bound]. destruct i as [|j].
      + unfold hib in Hhi. cbn in Hhi. destruct (k1 <? sk)%Z eqn:E; auto. apply Z.ltb_lt in E. lia.
      + rewrite lob_cons in Hlo. rewrite hib_cons in Hhi.
        assert (k1 < sk)%Z.
        { destruct j; cbn in Hlo; [exact Hlo|].
          apply wfc_keys in D. rewrite Forall_forall in D.
          assert (In (nth j ks 0%Z) ks) by (apply nth_In; lia).
          destruct (D _ H). cbn in H0. lia. }
        apply Z.ltb_lt in H. rewrite H. f_equal. eapply IH; eauto. lia.
  Qed.
End Wfc.

Lemma wfc_impl (W W' : bound -> bound -> node -> Prop) :
  (forall lo hi c, W lo hi c -> W' lo hi c) ->
  forall ks cs lo hi, wfc W lo hi ks cs -> wfc W' lo hi ks cs.
Proof.
  intros HW. induction ks as [|k ks IH]; intros [|c cs] lo hi H; cbn in *; try tauto.
  - destruct cs; [auto|tauto].
  - destruct H as (A & B & C & D). repeat split; auto.
Qed.

(** * In-order contents of the children of one internal node *)
Section WfcAbs.
  Variable W : bound -> bound -> node -> Prop.
  Hypothesis W_seg : forall lo hi c, W lo hi c -> seg lo hi (abs c).

  Lemma wfc_seg : forall ks cs lo hi, wfc W lo hi ks cs -> seg lo hi (flat_map abs cs).
  Proof.
    induction ks as [|k ks IH]; intros [|c cs] lo hi H; cbn in H; try tauto.
    - destruct cs; [|tauto]. cbn. rewrite app_nil_r. auto.
    - destruct H as (A & B & C & D). cbn. eapply seg_app; eauto. now apply lo_lt_le.
  Qed.

  Lemma wfc_prefix_klt : forall ks cs lo hi i k, wfc W lo hi ks cs -> i <= length ks ->
    lo_le (lob lo ks i) k -> klt k (flat_map abs (firstn i cs)).
  Proof.
    induction ks as [|k1 ks IH]; intros [|c cs] lo hi i k H Hi Hk; cbn in H, Hi; try tauto.
    - assert (i = 0) by lia. subst. constructor.
    - destruct H as (A & B & C & D). destruct i as [|j]; [constructor|].
      cbn [firstn flat_map]. rewrite lob_cons in Hk.
      assert (k1 <= k)%Z.
      { destruct j; cbn in Hk; [exact Hk|].
        apply wfc_keys in D. rewrite Forall_forall in D.
        assert (In (nth j ks 0%Z) ks) by (apply nth_In; lia).
        destruct (D _ H). cbn in H0. lia. }
      apply klt_app.
      + eapply klt_mono; [eapply seg_klt; eauto|]. auto.
      + eapply IH; eauto. lia.
  Qed.

  Lemma wfc_suffix_kgt : forall ks cs lo hi i k, wfc W lo hi ks cs -> i <= length ks ->
    lt_hi k (hib hi ks i) -> kgt k (flat_map abs (skipn (S i) cs)).
  Proof.
    induction ks as [|k1 ks IH]; intros [|c cs] lo hi i k H Hi Hk; cbn in H, Hi; try tauto.
    - destruct cs; [|tauto]. assert (i = 0) by lia. subst. constructor.
    - destruct H as (A & B & C & D). destruct i as [|j].
      + unfold hib in Hk. cbn in Hk. cbn [skipn]. eapply kge_kgt; [|exact Hk].
        eapply seg_kge. eapply wfc_seg; eauto.
      + rewrite hib_cons in Hk. cbn [skipn]. eapply IH; eauto. lia.
  Qed.
End WfcAbs.
