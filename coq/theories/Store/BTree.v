(** C17 -- executable functional model of the disk-backed B+ tree
    (crates/vibesql-storage/src/btree/node/{structure,operations,split_merge}.rs and
    btree/node/btree_index/{insert,delete,rebalance,query,bulk_load}.rs, btree/serialize.rs).

    A page is a [node]; a page id held in a parent is the child [node] itself (the model is the
    tree the pages form; page ids, the free list and the [next_leaf] chain are NOT modelled: a range
    scan walks "the leaves to the right of the start leaf, in order", which is what the chain is
    supposed to be -- see design.d/C17.md).  [BTreeIndex] = [tree] (root page + [height]; every
    descent is driven by [height] exactly as [find_leaf_path] does).  Keys are [Z] (the code compares
    [Vec<SqlValue>] with [Ord]; the harness uses keys whose order is the order of their Z index).
    Rust panics (index out of bounds, [unwrap] on [None], usize underflow) are [Err Panic]; reading a
    page of the wrong type is [Err BadPage] ([StorageError::IoError "Expected ... node"]); a node whose
    serialised form exceeds the page is [Err PageOverflow] (the [Cursor] over the 4096-byte page buffer
    refuses the write).  No proofs in this file. *)
From Coq Require Import List ZArith Bool Arith.
From VibeSQL Require Import Generated.Consts.
Import ListNotations.
Local Open Scope nat_scope.

Definition key := Z.
Definition rowid := Z.
Definition entry := (key * list rowid)%type.

(** structure.rs: LeafNode { entries } / InternalNode { keys, children } *)
Inductive node : Type :=
| Leaf (es : list entry)
| Node (ks : list key) (cs : list node).

Inductive err := PageOverflow | BadPage | Panic.
Inductive result (A : Type) := Ok (a : A) | Err (e : err).
Arguments Ok {A} a.
Arguments Err {A} e.

Definition bind {A B} (r : result A) (f : A -> result B) : result B :=
  match r with Ok a => f a | Err e => Err e end.

(** [BTreeIndex { root_page_id, height, .. }] *)
Record tree := mkTree { root : node; height : nat }.

(** ---------- Vec helpers (index based, as the Rust code) ---------- *)
Definition set_nth {A} (i : nat) (x : A) (l : list A) : list A := firstn i l ++ x :: skipn (S i) l.
Definition ins_nth {A} (i : nat) (x : A) (l : list A) : list A := firstn i l ++ x :: skipn i l.
Definition del_nth {A} (i : nat) (l : list A) : list A := firstn i l ++ skipn (S i) l.
(** two adjacent pages j, j+1 rewritten *)
Definition set2 {A} (j : nat) (x y : A) (l : list A) : list A := firstn j l ++ x :: y :: skipn (S (S j)) l.
(** page j rewritten and entry j+1 removed ([children.remove(j+1)]) *)
Definition merge2 {A} (j : nat) (x : A) (l : list A) : list A := firstn j l ++ x :: skipn (S (S j)) l.
Definition last_opt {A} (l : list A) : option A :=
  match rev l with [] => None | x :: _ => Some x end.

Section Model.
  (** [degree] of the index ([calculate_degree], >= 5 in the code) and the serialised size of a key
      ([key_len: u16] + the [write_sql_value] bytes of its values). *)
  Variable d : nat.
  Variable ksz : key -> Z.
  (** [guard = true] describes the code with fixes/C17-rebalance-single-child.patch applied
      ("a parent with a single child has no sibling to borrow from or merge with: leave the node
      underfull"); [false] is the code as it is. *)
  Variable guard : bool.

  Definition half : nat := Nat.div d 2.

  (** ---------- serialize.rs: page sizes ---------- *)
  Fixpoint varint_len_aux (fuel : nat) (n : Z) : Z :=
    match fuel with
    | O => 1
    | S f => if (n <? 128)%Z then 1%Z else (1 + varint_len_aux f (n / 128))%Z
    end.
  Definition varint_len (n : Z) : Z := varint_len_aux 10 n.

  (** write_leaf_node: type(1) + num_entries(2) + sum (key + varint(#row ids) + 8 * #row ids) + next_leaf(8) *)
  Definition entry_size (e : entry) : Z :=
    (ksz (fst e) + varint_len (Z.of_nat (length (snd e))) + 8 * Z.of_nat (length (snd e)))%Z.
  Definition leaf_size (es : list entry) : Z :=
    (3 + fold_right (fun e acc => entry_size e + acc) 0 es + 8)%Z.
  (** write_internal_node: type(1) + num_keys(2) + keys + 8 per child *)
  Definition node_size (ks : list key) (cs : list node) : Z :=
    (3 + fold_right (fun k acc => ksz k + acc) 0 ks + 8 * Z.of_nat (length cs))%Z.
  Definition fits_leaf (es : list entry) : bool := (leaf_size es <=? c17_page_size)%Z.
  Definition fits_node (ks : list key) (cs : list node) : bool := (node_size ks cs <=? c17_page_size)%Z.

  Definition write_leaf (es : list entry) : result node :=
    if fits_leaf es then Ok (Leaf es) else Err PageOverflow.
  Definition write_node (ks : list key) (cs : list node) : result node :=
    if fits_node ks cs then Ok (Node ks cs) else Err PageOverflow.

  (** ---------- operations.rs ---------- *)
  (** InternalNode::find_child_index: binary_search; Ok(idx) => idx+1, Err(idx) => idx.
      On a strictly sorted key vector this is the number of keys <= key. *)
  Fixpoint fci (ks : list key) (k : key) : nat :=
    match ks with
    | [] => O
    | x :: r => if (k <? x)%Z then O else S (fci r k)
    end.
  (** position used by InternalNode::insert_child: Ok(idx) | Err(idx) => idx  (number of keys < key) *)
  Fixpoint lower_bound (ks : list key) (k : key) : nat :=
    match ks with
    | [] => O
    | x :: r => if (x <? k)%Z then S (lower_bound r k) else O
    end.

  (** LeafNode::insert: existing key => push row id, else insert a new entry at the sorted position *)
  Fixpoint leaf_insert (es : list entry) (k : key) (r : rowid) : list entry :=
    match es with
    | [] => [(k, [r])]
    | (k', rs) :: tl =>
      if (k <? k')%Z then (k, [r]) :: es
      else if (k =? k')%Z then (k', rs ++ [r]) :: tl
      else (k', rs) :: leaf_insert tl k r
    end.

  (** LeafNode::search *)
  Fixpoint leaf_search (es : list entry) (k : key) : list rowid :=
    match es with
    | [] => []
    | (k', rs) :: tl => if (k' =? k)%Z then rs else leaf_search tl k
    end.

  (** LeafNode::delete_all: [None] = key not found (returns false) *)
  Fixpoint leaf_delete_all (k : key) (es : list entry) : option (list entry) :=
    match es with
    | [] => None
    | (k', rs) :: tl =>
      if (k' =? k)%Z then Some tl
      else match leaf_delete_all k tl with Some tl' => Some ((k', rs) :: tl') | None => None end
    end.

  (** row_ids.iter().position(..) + remove(pos) *)
  Fixpoint remove_first (r : rowid) (rs : list rowid) : option (list rowid) :=
    match rs with
    | [] => None
    | x :: tl => if (x =? r)%Z then Some tl
                 else match remove_first r tl with Some tl' => Some (x :: tl') | None => None end
    end.

  (** LeafNode::delete (one row id; the entry disappears with its last row id) *)
  Fixpoint leaf_delete_one (k : key) (r : rowid) (es : list entry) : option (list entry) :=
    match es with
    | [] => None
    | (k', rs) :: tl =>
      if (k' =? k)%Z then
        match remove_first r rs with
        | None => None
        | Some [] => Some tl
        | Some rs' => Some ((k', rs') :: tl)
        end
      else match leaf_delete_one k r tl with Some tl' => Some ((k', rs) :: tl') | None => None end
    end.

  (** ---------- split_merge.rs ---------- *)
  (** LeafNode::split: mid = len/2; right = entries[mid..]; separator = right.entries[0].0 (copied) *)
  Definition leaf_split (es : list entry) : result (list entry * key * list entry) :=
    let mid := Nat.div (length es) 2 in
    let r := skipn mid es in
    match r with
    | [] => Err Panic
    | (k, _) :: _ => Ok (firstn mid es, k, r)
    end.

  (** InternalNode::split: mid = keys.len()/2; keys[mid] moves up; right = keys[mid+1..], children[mid+1..] *)
  Definition node_split (ks : list key) (cs : list node)
    : result ((list key * list node) * key * (list key * list node)) :=
    let mid := Nat.div (length ks) 2 in
    match nth_error ks mid with
    | None => Err Panic
    | Some mk =>
      if S mid <=? length cs
      then Ok ((firstn mid ks, firstn (S mid) cs), mk, (skipn (S mid) ks, skipn (S mid) cs))
      else Err Panic
    end.

  (** ---------- insert.rs ---------- *)
  Inductive ins_res :=
  | InsOne (t : node)                       (* no split at this level *)
  | InsSplit (l : node) (sk : key) (r : node). (* this page split: (left, split_key, right) *)

  (** BTreeIndex::insert + propagate_split, as a recursion over the path that [find_leaf_path]
      records ([h] = remaining height).  Note that [insert_child] places the split key by binary
      search in the parent's keys, not at the path's child index. *)
  Fixpoint ins (h : nat) (t : node) (k : key) (r : rowid) : result ins_res :=
    match h with
    | O => Err Panic
    | S h' =>
      match h' with
      | O =>
        match t with
        | Node _ _ => Err BadPage
        | Leaf es =>
          let es' := leaf_insert es k r in
          if d <=? length es' then
            bind (leaf_split es') (fun '(l, sk, rr) =>
            bind (write_leaf l) (fun ln =>
            bind (write_leaf rr) (fun rn => Ok (InsSplit ln sk rn))))
          else bind (write_leaf es') (fun n => Ok (InsOne n))
        end
      | S _ =>
        match t with
        | Leaf _ => Err BadPage
        | Node ks cs =>
          let i := fci ks k in
          match nth_error cs i with
          | None => Err Panic
          | Some c =>
            bind (ins h' c k r) (fun res =>
            match res with
            | InsOne c' => Ok (InsOne (Node ks (set_nth i c' cs)))
            | InsSplit c1 sk c2 =>
              let p := lower_bound ks sk in
              let ks' := ins_nth p sk ks in
              let cs' := ins_nth (S p) c2 (set_nth i c1 cs) in
              if d <=? length cs' then
                bind (node_split ks' cs') (fun '((lk, lc), mk, (rk, rc)) =>
                bind (write_node lk lc) (fun ln =>
                bind (write_node rk rc) (fun rn => Ok (InsSplit ln mk rn))))
              else bind (write_node ks' cs') (fun n => Ok (InsOne n))
            end)
          end
        end
      end
    end.

  (** BTreeIndex::insert with create_new_root *)
  Definition insert (t : tree) (k : key) (r : rowid) : result tree :=
    bind (ins (height t) (root t) k r) (fun res =>
    match res with
    | InsOne n => Ok (mkTree n (height t))
    | InsSplit l sk rr => bind (write_node [sk] [l; rr]) (fun n => Ok (mkTree n (S (height t))))
    end).

  (** ---------- rebalance.rs ---------- *)
  (** try_borrow_leaf, left sibling ([i] = index of the underfull leaf [es] in the parent (ks, cs)) *)
  Definition borrow_leaf_left (ks : list key) (cs : list node) (i : nat) (es : list entry)
    : result (option (list key * list node)) :=
    match i with
    | O => Ok None
    | S j =>
      match nth_error cs j with
      | None => Err Panic
      | Some (Node _ _) => Err BadPage
      | Some (Leaf ls) =>
        if half <? length ls then
          match last_opt ls with
          | None => Err Panic
          | Some b =>
            if j <? length ks then
              bind (write_leaf (removelast ls)) (fun ln =>
              bind (write_leaf (b :: es)) (fun en =>
              Ok (Some (set_nth j (fst b) ks, set2 j ln en cs))))
            else Err Panic
          end
        else Ok None
      end
    end.

  (** try_borrow_leaf, right sibling *)
  Definition borrow_leaf_right (ks : list key) (cs : list node) (i : nat) (es : list entry)
    : result (option (list key * list node)) :=
    if S i <? length cs then
      match nth_error cs (S i) with
      | None => Err Panic
      | Some (Node _ _) => Err BadPage
      | Some (Leaf rs) =>
        if half <? length rs then
          match rs with
          | [] => Err Panic
          | b :: rs' =>
            match rs' with
            | [] => Err Panic
            | (k2, _) :: _ =>
              if i <? length ks then
                bind (write_leaf rs') (fun rn =>
                bind (write_leaf (es ++ [b])) (fun en =>
                Ok (Some (set_nth i k2 ks, set2 i en rn cs))))
              else Err Panic
            end
          end
        else Ok None
      end
    else Ok None.

  (** merge_leaf: prefers the left sibling; with [i = 0] it indexes [children[1]] unconditionally *)
  Definition merge_leaf (ks : list key) (cs : list node) (i : nat) (es : list entry)
    : result (list key * list node) :=
    match i with
    | S j =>
      match nth_error cs j with
      | None => Err Panic
      | Some (Node _ _) => Err BadPage
      | Some (Leaf ls) =>
        bind (write_leaf (ls ++ es)) (fun mn =>
        if j <? length ks then Ok (del_nth j ks, merge2 j mn cs) else Err Panic)
      end
    | O =>
      match nth_error cs 1 with
      | None => Err Panic
      | Some (Node _ _) => Err BadPage
      | Some (Leaf rs) =>
        bind (write_leaf (es ++ rs)) (fun mn =>
        if 0 <? length ks then Ok (del_nth 0 ks, merge2 0 mn cs) else Err Panic)
      end
    end.

  (** rebalance_leaf: borrow left, else borrow right, else merge; the flag says "merged" (the caller
      then looks at the parent's own fill) *)
  Definition rebalance_leaf (ks : list key) (cs : list node) (i : nat) (es : list entry)
    : result (list key * list node * bool) :=
    bind (borrow_leaf_left ks cs i es) (fun b1 =>
    match b1 with
    | Some (ks', cs') => Ok (ks', cs', false)
    | None =>
      bind (borrow_leaf_right ks cs i es) (fun b2 =>
      match b2 with
      | Some (ks', cs') => Ok (ks', cs', false)
      | None => bind (merge_leaf ks cs i es) (fun '(ks', cs') => Ok (ks', cs', true))
      end)
    end).

  (** try_borrow_internal, left sibling; the underfull node is (nks, ncs) at index i *)
  Definition borrow_node_left (ks : list key) (cs : list node) (i : nat) (nks : list key) (ncs : list node)
    : result (option (list key * list node)) :=
    match i with
    | O => Ok None
    | S j =>
      match nth_error cs j with
      | None => Err Panic
      | Some (Leaf _) => Err BadPage
      | Some (Node lks lcs) =>
        if half <? length lcs then
          match last_opt lcs, last_opt lks, nth_error ks j with
          | Some bc, Some bk, Some pk =>
            bind (write_node (removelast lks) (removelast lcs)) (fun ln =>
            bind (write_node (pk :: nks) (bc :: ncs)) (fun nn =>
            Ok (Some (set_nth j bk ks, set2 j ln nn cs))))
          | _, _, _ => Err Panic
          end
        else Ok None
      end
    end.

  (** try_borrow_internal, right sibling *)
  Definition borrow_node_right (ks : list key) (cs : list node) (i : nat) (nks : list key) (ncs : list node)
    : result (option (list key * list node)) :=
    if S i <? length cs then
      match nth_error cs (S i) with
      | None => Err Panic
      | Some (Leaf _) => Err BadPage
      | Some (Node rks rcs) =>
        if half <? length rcs then
          match rcs, rks, nth_error ks i with
          | bc :: rcs', bk :: rks', Some pk =>
            bind (write_node rks' rcs') (fun rn =>
            bind (write_node (nks ++ [pk]) (ncs ++ [bc])) (fun nn =>
            Ok (Some (set_nth i bk ks, set2 i nn rn cs))))
          | _, _, _ => Err Panic
          end
        else Ok None
      end
    else Ok None.

  (** merge_internal *)
  Definition merge_node (ks : list key) (cs : list node) (i : nat) (nks : list key) (ncs : list node)
    : result (list key * list node) :=
    match i with
    | S j =>
      match nth_error cs j, nth_error ks j with
      | None, _ => Err Panic
      | Some (Leaf _), _ => Err BadPage
      | Some (Node _ _), None => Err Panic
      | Some (Node lks lcs), Some pk =>
        bind (write_node (lks ++ pk :: nks) (lcs ++ ncs)) (fun mn =>
        Ok (del_nth j ks, merge2 j mn cs))
      end
    | O =>
      match nth_error cs 1, nth_error ks 0 with
      | None, _ => Err Panic
      | Some (Leaf _), _ => Err BadPage
      | Some (Node _ _), None => Err Panic
      | Some (Node rks rcs), Some pk =>
        bind (write_node (nks ++ pk :: rks) (ncs ++ rcs)) (fun mn =>
        Ok (del_nth 0 ks, merge2 0 mn cs))
      end
    end.

  (** one iteration of propagate_rebalance_delete for the underfull internal node at index i *)
  Definition rebalance_node (ks : list key) (cs : list node) (i : nat) (nks : list key) (ncs : list node)
    : result (list key * list node) :=
    bind (borrow_node_left ks cs i nks ncs) (fun b1 =>
    match b1 with
    | Some r => Ok r
    | None =>
      bind (borrow_node_right ks cs i nks ncs) (fun b2 =>
      match b2 with
      | Some r => Ok r
      | None => merge_node ks cs i nks ncs
      end)
    end).

  (** ---------- delete.rs ---------- *)
  Inductive del_res :=
  | DelNotFound
  | DelDone (t : node) (cont : bool).
  (** [cont]: the bottom-up loop of rebalance_leaf / propagate_rebalance_delete is still running when
      it reaches the parent of this node (a merge happened at the leaf level, or this internal node was
      itself rebalanced); the parent then tests this node's fill and either rebalances it or stops. *)

  (** delete / delete_specific below an internal node at remaining height [h >= 2]; [leafop] is
      LeafNode::delete_all or LeafNode::delete *)
  Fixpoint del (h : nat) (t : node) (leafop : list entry -> option (list entry)) (k : key)
    : result del_res :=
    match h with
    | O => Err Panic
    | S h1 =>
      match h1 with
      | O => Err BadPage
      | S h2 =>
        match t with
        | Leaf _ => Err BadPage
        | Node ks cs =>
          let i := fci ks k in
          match nth_error cs i with
          | None => Err Panic
          | Some c =>
            match h2 with
            | O =>
              match c with
              | Node _ _ => Err BadPage
              | Leaf es =>
                match leafop es with
                | None => Ok DelNotFound
                | Some es' =>
                  bind (write_leaf es') (fun ln =>
                  let cs1 := set_nth i ln cs in
                  if length es' <? half then
                    if guard && (length cs <? 2) then Ok (DelDone (Node ks cs1) false) else
                    bind (rebalance_leaf ks cs1 i es') (fun '(ks', cs', merged) =>
                    bind (write_node ks' cs') (fun n => Ok (DelDone n merged)))
                  else Ok (DelDone (Node ks cs1) false))
                end
              end
            | S _ =>
              bind (del h1 c leafop k) (fun res =>
              match res with
              | DelNotFound => Ok DelNotFound
              | DelDone c' cont =>
                let cs1 := set_nth i c' cs in
                if cont then
                  match c' with
                  | Leaf _ => Err BadPage
                  | Node nks ncs =>
                    if length ncs <? half then
                      if guard && (length cs <? 2) then Ok (DelDone (Node ks cs1) false) else
                      bind (rebalance_node ks cs1 i nks ncs) (fun '(ks', cs') =>
                      bind (write_node ks' cs') (fun n => Ok (DelDone n true)))
                    else Ok (DelDone (Node ks cs1) false)
                  end
                else Ok (DelDone (Node ks cs1) false)
              end)
            end
          end
        end
      end
    end.

  (** BTreeIndex::delete / delete_specific, including maybe_collapse_root.  The boolean is the
      function's return value (found). *)
  Definition delete_gen (leafop : list entry -> option (list entry)) (t : tree) (k : key)
    : result (tree * bool) :=
    match height t with
    | O => Err Panic
    | S O =>
      match root t with
      | Node _ _ => Err BadPage
      | Leaf es =>
        match leafop es with
        | None => Ok (t, false)
        | Some es' => bind (write_leaf es') (fun n => Ok (mkTree n 1, true))
        end
      end
    | S (S hh) =>
      bind (del (height t) (root t) leafop k) (fun res =>
      match res with
      | DelNotFound => Ok (t, false)
      | DelDone r' _ =>
        match r' with
        | Leaf _ => Err BadPage
        | Node _ [c] => Ok (mkTree c (S hh), true)
        | Node _ _ => Ok (mkTree r' (height t), true)
        end
      end)
    end.

  Definition delete (t : tree) (k : key) := delete_gen (leaf_delete_all k) t k.
  Definition delete_specific (t : tree) (k : key) (r : rowid) := delete_gen (leaf_delete_one k r) t k.

  (** ---------- query.rs ---------- *)
  (** find_leaf_path (the leaf only) *)
  Fixpoint find_leaf (h : nat) (t : node) (k : key) : result (list entry) :=
    match h with
    | O => Err Panic
    | S h' =>
      match h' with
      | O => match t with Leaf es => Ok es | Node _ _ => Err BadPage end
      | S _ =>
        match t with
        | Leaf _ => Err BadPage
        | Node ks cs =>
          match nth_error cs (fci ks k) with
          | None => Err Panic
          | Some c => find_leaf h' c k
          end
        end
      end
    end.

  Definition lookup (t : tree) (k : key) : result (list rowid) :=
    bind (find_leaf (height t) (root t) k) (fun es => Ok (leaf_search es k)).

  Fixpoint multi_lookup (t : tree) (keys : list key) : result (list rowid) :=
    match keys with
    | [] => Ok []
    | k :: r => bind (lookup t k) (fun a => bind (multi_lookup t r) (fun b => Ok (a ++ b)))
    end.

  (** all leaves of a subtree, left to right *)
  Fixpoint leaves (t : node) : list (list entry) :=
    match t with
    | Leaf es => [es]
    | Node _ cs => flat_map leaves cs
    end.

  (** the start leaf reached by find_leaf_path and every leaf after it in the chain *)
  Fixpoint leaves_from (h : nat) (t : node) (k : key) : result (list (list entry)) :=
    match h with
    | O => Err Panic
    | S h' =>
      match h' with
      | O => match t with Leaf es => Ok [es] | Node _ _ => Err BadPage end
      | S _ =>
        match t with
        | Leaf _ => Err BadPage
        | Node ks cs =>
          let i := fci ks k in
          match nth_error cs i with
          | None => Err Panic
          | Some c => bind (leaves_from h' c k) (fun l => Ok (l ++ flat_map leaves (skipn (S i) cs)))
          end
        end
      end
    end.

  (** find_leftmost_leaf and the chain after it *)
  Fixpoint leaves_leftmost (h : nat) (t : node) : result (list (list entry)) :=
    match h with
    | O => Err Panic
    | S h' =>
      match h' with
      | O => match t with Leaf es => Ok [es] | Node _ _ => Err BadPage end
      | S _ =>
        match t with
        | Leaf _ => Err BadPage
        | Node _ [] => Err BadPage
        | Node _ (c :: rest) => bind (leaves_leftmost h' c) (fun l => Ok (l ++ flat_map leaves rest))
        end
      end
    end.

  (** the loop body of range_scan over the entries of the chain, with its [started] flag and the
      early return at the end bound *)
  Fixpoint scan (es : list entry) (s e : option key) (is ie started : bool) : list rowid :=
    match es with
    | [] => []
    | (k, rs) :: tl =>
      let past :=
        match e with
        | Some en => (en <? k)%Z || ((k =? en)%Z && negb ie)
        | None => false
        end in
      if past then []
      else if started then rs ++ scan tl s e is ie true
      else
        match s with
        | Some st =>
          if (k <? st)%Z || ((k =? st)%Z && negb is) then scan tl s e is ie false
          else rs ++ scan tl s e is ie true
        | None => rs ++ scan tl s e is ie started
        end
    end.

  Definition range_scan (t : tree) (s e : option key) (is ie : bool) : result (list rowid) :=
    bind (match s with
          | Some st => leaves_from (height t) (root t) st
          | None => leaves_leftmost (height t) (root t)
          end) (fun ls =>
    Ok (scan (concat ls) s e is ie (match s with None => true | Some _ => false end))).

  (** ---------- bulk_load.rs ---------- *)
  (** grouping of adjacent equal keys *)
  Fixpoint group_from (k : key) (rs : list rowid) (l : list (key * rowid)) : list entry :=
    match l with
    | [] => [(k, rs)]
    | (k', r) :: tl =>
      if (k' =? k)%Z then group_from k (rs ++ [r]) tl
      else (k, rs) :: group_from k' [r] tl
    end.
  Definition group (l : list (key * rowid)) : list entry :=
    match l with
    | [] => []
    | (k, r) :: tl => group_from k [r] tl
    end.

  (** consecutive chunks of [n] elements (the last one may be shorter) *)
  Fixpoint chunk {A} (fuel n : nat) (l : list A) : list (list A) :=
    match fuel with
    | O => []
    | S f =>
      match l with
      | [] => []
      | _ => firstn n l :: chunk f n (skipn n l)
      end
    end.

  Definition leaf_capacity : nat := Nat.max (Nat.div (d * 3) 4) 1.
  Definition internal_capacity : nat := Nat.max (Nat.div (d * 3) 4) 2.

  (** read_first_key_from_page: a leaf's first key; an internal page's keys[0] -- i.e. the minimum of
      its SECOND subtree -- unless it has no keys, in which case its only child is asked. *)
  Fixpoint first_key_impl (t : node) : result key :=
    match t with
    | Leaf [] => Err BadPage
    | Leaf ((k, _) :: _) => Ok k
    | Node [] [] => Err BadPage
    | Node [] (c :: _) => first_key_impl c
    | Node (k :: _) _ => Ok k
    end.

  (** the repaired separator (fixes/C17-bulk-load-separator.patch): descend to the leftmost leaf *)
  Fixpoint min_key (t : node) : result key :=
    match t with
    | Leaf [] => Err BadPage
    | Leaf ((k, _) :: _) => Ok k
    | Node _ [] => Err BadPage
    | Node _ (c :: _) => min_key c
    end.

  Fixpoint map_result {A B} (f : A -> result B) (l : list A) : result (list B) :=
    match l with
    | [] => Ok []
    | x :: r => bind (f x) (fun y => bind (map_result f r) (fun ys => Ok (y :: ys)))
    end.

  Section Bulk.
    (** separator function: [first_key_impl] for the code as it is *)
    Variable sepf : node -> result key.

    (** one internal node from a chunk of children *)
    Definition mk_internal (grp : list node) : result node :=
      match grp with
      | [] => Err Panic
      | c :: rest => bind (map_result sepf rest) (fun seps => write_node seps (c :: rest))
      end.

    (** "while current_level.len() > 1 { height += 1; ... }" *)
    Fixpoint build_levels (fuel : nat) (level : list node) (h : nat) : result tree :=
      match level with
      | [] => Err Panic
      | [x] => Ok (mkTree x h)
      | _ =>
        match fuel with
        | O => Err Panic
        | S f =>
          bind (map_result mk_internal (chunk (length level) internal_capacity level))
               (fun next => build_levels f next (S h))
        end
      end.

    Definition bulk_load_with (entries : list (key * rowid)) : result tree :=
      match entries with
      | [] => bind (write_leaf []) (fun n => Ok (mkTree n 1))        (* Self::new *)
      | _ =>
        let g := group entries in
        bind (map_result write_leaf (chunk (length g) leaf_capacity g)) (fun lvs =>
        build_levels (length lvs) lvs 1)
      end.
  End Bulk.

  Definition bulk_load (entries : list (key * rowid)) : result tree :=
    bulk_load_with first_key_impl entries.
  Definition bulk_load_fixed (entries : list (key * rowid)) : result tree :=
    bulk_load_with min_key entries.

  (** ---------- operation sequences ---------- *)
  Inductive op :=
  | OInsert (k : key) (r : rowid)
  | ODelete (k : key)
  | ODeleteOne (k : key) (r : rowid)
  | OLookup (k : key)
  | OMulti (ks : list key)
  | ORange (s e : option key) (is ie : bool)
  | OReload.                                   (* BTreeIndex::load on the same pages: no change *)

  Inductive answer :=
  | AUnit
  | ABool (b : bool)
  | ARows (l : list rowid)
  | AErr (e : err).

  Definition step (t : tree) (o : op) : result (tree * answer) :=
    match o with
    | OInsert k r => bind (insert t k r) (fun t' => Ok (t', AUnit))
    | ODelete k => bind (delete t k) (fun '(t', b) => Ok (t', ABool b))
    | ODeleteOne k r => bind (delete_specific t k r) (fun '(t', b) => Ok (t', ABool b))
    | OLookup k => bind (lookup t k) (fun l => Ok (t, ARows l))
    | OMulti ks => bind (multi_lookup t ks) (fun l => Ok (t, ARows l))
    | ORange s e is ie => bind (range_scan t s e is ie) (fun l => Ok (t, ARows l))
    | OReload => Ok (t, AUnit)
    end.

  (** answers of a history; it ends at the first error (the on-disk state is then unspecified) *)
  Fixpoint run (t : tree) (ops : list op) : list answer :=
    match ops with
    | [] => []
    | o :: r =>
      match step t o with
      | Ok (t', a) => a :: run t' r
      | Err e => [AErr e]
      end
    end.

  Fixpoint run_state (t : tree) (ops : list op) : result tree :=
    match ops with
    | [] => Ok t
    | o :: r => bind (step t o) (fun '(t', _) => run_state t' r)
    end.
End Model.

(** in-order contents *)
Fixpoint abs (t : node) : list entry :=
  match t with
  | Leaf es => es
  | Node _ cs => flat_map abs cs
  end.

(** ---------- the specification: an ordered multimap as a strictly sorted association list ---------- *)
Definition mm := list entry.

Definition mm_insert (m : mm) (k : key) (r : rowid) : mm := leaf_insert m k r.
Definition mm_lookup (m : mm) (k : key) : list rowid := leaf_search m k.
Definition mm_delete (m : mm) (k : key) : mm := filter (fun e => negb (fst e =? k)%Z) m.
Definition mm_mem (m : mm) (k : key) : bool := existsb (fun e => (fst e =? k)%Z) m.
Definition mm_delete_one (m : mm) (k : key) (r : rowid) : mm * bool :=
  match leaf_delete_one k r m with Some m' => (m', true) | None => (m, false) end.
Definition in_range (s e : option key) (is ie : bool) (k : key) : bool :=
  match s with None => true | Some st => (st <? k)%Z || ((k =? st)%Z && is) end &&
  match e with None => true | Some en => (k <? en)%Z || ((k =? en)%Z && ie) end.
Definition mm_range (m : mm) (s e : option key) (is ie : bool) : list rowid :=
  flat_map snd (filter (fun en => in_range s e is ie (fst en)) m).

Definition mm_step (m : mm) (o : op) : mm * answer :=
  match o with
  | OInsert k r => (mm_insert m k r, AUnit)
  | ODelete k => (mm_delete m k, ABool (mm_mem m k))
  | ODeleteOne k r => let '(m', b) := mm_delete_one m k r in (m', ABool b)
  | OLookup k => (m, ARows (mm_lookup m k))
  | OMulti ks => (m, ARows (flat_map (mm_lookup m) ks))
  | ORange s e is ie => (m, ARows (mm_range m s e is ie))
  | OReload => (m, AUnit)
  end.

Fixpoint mm_run (m : mm) (ops : list op) : list answer :=
  match ops with
  | [] => []
  | o :: r => let '(m', a) := mm_step m o in a :: mm_run m' r
  end.

Fixpoint mm_run_state (m : mm) (ops : list op) : mm :=
  match ops with
  | [] => m
  | o :: r => mm_run_state (fst (mm_step m o)) r
  end.

(** calculate_degree for a single VARCHAR(l) key column (btree/mod.rs): key estimate = 2 + 1 + 8 + 4*l,
    entry = key + 1 + 8, degree = max ((PAGE_SIZE - 3 - 8) / entry) min_degree *)
Definition calc_degree_varchar (l : Z) : Z :=
  Z.max ((c17_page_size - 3 - 8) / ((2 + (1 + 8 + l * 4)) + 1 + 8)) c17_min_degree.
