(** C17 -- bulk_load: the repaired loader (separator = minimum key of the child) builds a well-formed
    tree whose contents are the entries inserted one by one; the loader as written agrees with it as
    long as there is a single internal level, and is refuted beyond that. *)
From Coq Require Import List ZArith Bool Arith Lia Sorted.
From VibeSQL Require Import Store.BTree Store.BTreeLemmas Store.BTreeLaws Store.BTreeCheck.
Import ListNotations.
Local Open Scope nat_scope.
Arguments seg : simpl never.
Arguments Nat.div : simpl never.

(** the multimap obtained by inserting the entries one by one *)
Definition mm_of_list (es : list (key * rowid)) : mm :=
  fold_left (fun m e => mm_insert m (fst e) (snd e)) es [].

(** * grouping *)
Lemma group_from_fold : forall l pre k rs,
  klt k pre -> StronglySorted Z.le (k :: map fst l) ->
  fold_left (fun m e => mm_insert m (fst e) (snd e)) l (pre ++ [(k, rs)]) = pre ++ group_from k rs l.
Proof.
  induction l as [|[k' r] l IH]; intros pre k rs Hp Hs; cbn [fold_left group_from]; auto.
  cbn [fst snd map] in *. inversion Hs as [|? ? Hs1 Hs2]; subst. inversion Hs2 as [|? ? Hk Hr]; subst.
  unfold mm_insert. rewrite leaf_insert_app_l.
  2:{ eapply klt_mono; eauto. }
  destruct (k' =? k)%Z eqn:E.
  - apply Z.eqb_eq in E. subst k'. cbn [leaf_insert]. rewrite Z.ltb_irrefl, Z.eqb_refl.
    apply IH; auto.
  - apply Z.eqb_neq in E. cbn [leaf_insert].
    assert (k < k')%Z by lia.
    destruct (k' <? k)%Z eqn:E1; [apply Z.ltb_lt in E1; lia|].
    destruct (k' =? k)%Z eqn:E2; [apply Z.eqb_eq in E2; lia|].
    cbn [leaf_insert].
    change (pre ++ (k, rs) :: [(k', [r])]) with (pre ++ [(k, rs)] ++ [(k', [r])]).
    rewrite app_assoc. rewrite IH.
    + now rewrite <- app_assoc.
    + apply klt_app; [eapply klt_mono; eauto; lia|]. constructor; [cbn; lia|constructor].
    + inversion Hs1; subst. constructor; auto.
Qed.

Lemma group_spec es : StronglySorted Z.le (map fst es) -> group es = mm_of_list es.
Proof.
  unfold mm_of_list. destruct es as [|[k r] l]; cbn [group fold_left]; auto. intros Hs.
  symmetry. apply (group_from_fold l [] k [r]); auto. constructor.
Qed.

Lemma mm_of_list_sorted es : seg None None (mm_of_list es).
Proof.
  unfold mm_of_list. assert (H : seg None None []) by apply seg_nil. revert H.
  generalize (@nil entry). induction es as [|e es IH]; intros m H; cbn; auto.
  apply IH. apply seg_insert; auto. split; exact I.
Qed.

Lemma leaf_insert_nonempty m k r : leaf_insert m k r <> [].
Proof. destruct m as [|[k' rs] m]; cbn; [discriminate|]. destruct (k <? k')%Z; [discriminate|]. destruct (k =? k')%Z; discriminate. Qed.

Lemma mm_of_list_nonempty e es : mm_of_list (e :: es) <> [].
Proof.
  unfold mm_of_list. cbn [fold_left]. assert (H : mm_insert [] (fst e) (snd e) <> []) by apply leaf_insert_nonempty.
  revert H. generalize (mm_insert [] (fst e) (snd e)). induction es as [|x es IH]; intros m H; cbn; auto.
  apply IH. apply leaf_insert_nonempty.
Qed.

(** * chunking *)
Lemma chunk_cons {A} f n (x : A) l :
  chunk (S f) n (x :: l) = firstn n (x :: l) :: chunk f n (skipn n (x :: l)).
Proof. reflexivity. Qed.

Lemma chunk_spec {A} n : 1 <= n -> forall fuel (l : list A), length l <= fuel ->
  concat (chunk fuel n l) = l /\ Forall (fun g => g <> []) (chunk fuel n l).
Proof.
  intros Hn. induction fuel as [|f IH]; intros l Hl.
  - destruct l; [cbn; auto|cbn in Hl; lia].
  - destruct l as [|x l]; [cbn; auto|].
    rewrite chunk_cons. remember (x :: l) as l0 eqn:El0.
    assert (Hl0 : length l0 = S (length l)) by (subst; reflexivity).
    destruct (IH (skipn n l0)) as [I1 I2].
    { rewrite skipn_length. cbn in Hl. lia. }
    split.
    + cbn [concat]. rewrite I1. apply firstn_skipn.
    + constructor; auto. subst l0. destruct n; [lia|]. cbn. discriminate.
Qed.

Lemma chunk_length_half {A} n : 2 <= n -> forall fuel (l : list A), length l <= fuel ->
  2 * length (chunk fuel n l) <= length l + 1.
Proof.
  intros Hn. induction fuel as [|f IH]; intros l Hl.
  - cbn. lia.
  - destruct l as [|x l]; [cbn; lia|].
    rewrite chunk_cons. remember (x :: l) as l0 eqn:El0.
    assert (Hl0 : length l0 = S (length l)) by (subst; reflexivity).
    cbn [length]. cbn [length] in Hl.
    specialize (IH (skipn n l0)). rewrite skipn_length in IH.
    destruct (le_lt_dec n (length l0)).
    + lia.
    + rewrite skipn_all2 by lia. destruct f; cbn; lia.
Qed.

Lemma chunk_single {A} n fuel (l : list A) : l <> [] -> length l <= n -> chunk (S fuel) n l = [l].
Proof.
  intros Hne Hl. destruct l as [|x l]; [congruence|]. cbn [chunk].
  rewrite firstn_all2 by lia. rewrite skipn_all2 by lia. destruct fuel; reflexivity.
Qed.

Lemma chunk_length_bound {A} n : 1 <= n -> forall q fuel (l : list A), length l <= n * q ->
  length (chunk fuel n l) <= q.
Proof.
  intros Hn. induction q as [|q IH]; intros fuel l Hl.
  - assert (l = []) by (destruct l; cbn in Hl; [auto|lia]). subst. destruct fuel; cbn; lia.
  - destruct fuel as [|f]; [cbn; lia|]. destruct l as [|x l]; [cbn; lia|].
    cbn [chunk length]. apply le_n_S. apply IH. rewrite skipn_length. lia.
Qed.

Lemma map_result_ok {A B} (f : A -> result B) (g : A -> B) l :
  (forall x, In x l -> f x = Ok (g x) \/ f x = Err PageOverflow) ->
  map_result f l = Ok (map g l) \/ map_result f l = Err PageOverflow.
Proof.
  induction l as [|x l IH]; intros H; cbn; auto.
  destruct (H x (or_introl eq_refl)) as [-> | ->]; cbn [bind]; auto.
  destruct IH as [-> | ->]; cbn [bind]; auto. intros; apply H; now right.
Qed.

(** * first keys *)
Definition fkey (t : node) : key := match abs t with (k, _) :: _ => k | [] => 0%Z end.

(** every leaf below [t] is non-empty *)
Fixpoint nel (h : nat) (t : node) : Prop :=
  match h with
  | O => True
  | S h' =>
    match t with
    | Leaf es => es <> []
    | Node _ cs => Forall (nel h') cs
    end
  end.

Lemma wfc_forall (W : bound -> bound -> node -> Prop) : forall ks cs lo hi, wfc W lo hi ks cs ->
  Forall (fun c => exists a b, W a b c) cs.
Proof.
  induction ks as [|k ks IH]; intros [|c cs] lo hi H; cbn in H; try tauto.
  - destruct cs; [|tauto]. constructor; eauto.
  - destruct H as (_ & _ & H1 & H2). constructor; eauto.
Qed.

Lemma min_key_spec : forall h lo hi t, wf 0 h lo hi t -> nel h t -> min_key t = Ok (fkey t) /\ abs t <> [].
Proof.
  induction h as [|h IH]; intros lo hi t H Hn; [contradiction|].
  destruct t as [es|ks cs].
  - cbn in Hn. destruct es as [|[k rs] es]; [congruence|]. cbn. split; auto; discriminate.
  - rewrite wf_node_unfold in H. destruct H as (_ & _ & H). cbn in Hn.
    pose proof (wfc_forall _ _ _ _ _ H) as Hall.
    destruct cs as [|c cs]; [destruct ks; cbn in H; tauto|].
    inversion Hall as [|? ? (a & b & Hc) _]; subst. inversion Hn; subst.
    destruct (IH _ _ c Hc H2) as [I1 I2].
    cbn [min_key]. rewrite I1. unfold fkey. cbn [abs flat_map].
    destruct (abs c) as [|[k rs] l] eqn:E; [congruence|]. cbn. split; auto; discriminate.
Qed.

Lemma first_key_impl_leaf es : first_key_impl (Leaf es) = min_key (Leaf es).
Proof. destruct es as [|[k rs] es]; reflexivity. Qed.

Section Bulk.
  Variable d : nat.
  Variable ksz : key -> Z.

  Lemma leaf_capacity_ge : 1 <= leaf_capacity d.
  Proof. unfold leaf_capacity. lia. Qed.
  Lemma internal_capacity_ge : 2 <= internal_capacity d.
  Proof. unfold internal_capacity. lia. Qed.

  (** ** the leaf level *)
  Lemma leaves_level : forall gs lo hi, gs <> [] -> Forall (fun g => g <> []) gs -> seg lo hi (concat gs) ->
    wfc (wf 0 1) lo hi (map fkey (tl (map Leaf gs))) (map Leaf gs).
  Proof.
    induction gs as [|g1 gs IH]; intros lo hi Hne Hall Hs; [congruence|].
    inversion Hall as [|? ? Hg1 Hrest]; subst.
    destruct gs as [|g2 gs].
    - cbn in *. rewrite app_nil_r in Hs. split; auto.
    - inversion Hrest as [|? ? Hg2 _]; subst.
      destruct g2 as [|[k2 rs2] g2']; [congruence|].
      cbn [map tl]. cbn [concat] in Hs. cbn [app] in Hs.
      apply seg_split in Hs as (S1 & S2 & Hin).
      change (fkey (Leaf ((k2, rs2) :: g2'))) with k2.
      cbn [wfc]. split; [|split; [|split]].
      + destruct g1 as [|e g1']; [congruence|]. eapply seg_nonempty_lo; eauto.
      + apply Hin.
      + split; auto.
      + apply (IH (Some k2) hi); auto. discriminate.
  Qed.

  (** ** one internal level *)
  Definition mk_node (g : list node) : node := Node (map fkey (tl g)) g.

  Lemma fkey_mk_node h lo hi c g : wf 0 h lo hi c -> nel h c -> fkey (mk_node (c :: g)) = fkey c.
  Proof.
    intros Hw Hn. destruct (min_key_spec _ _ _ _ Hw Hn) as [_ Hne].
    unfold fkey, mk_node. cbn [abs flat_map]. destruct (abs c); [congruence|]. reflexivity.
  Qed.

  Lemma level_step h : h <> 0 -> forall gs lo hi, gs <> [] -> Forall (fun g => g <> []) gs ->
    wfc (wf 0 h) lo hi (map fkey (tl (concat gs))) (concat gs) -> Forall (nel h) (concat gs) ->
    wfc (wf 0 (S h)) lo hi (map fkey (tl (map mk_node gs))) (map mk_node gs).
  Proof.
    intros Hh. induction gs as [|g1 gs IH]; intros lo hi Hne Hall Hw Hn; [congruence|].
    inversion Hall as [|? ? Hg1 Hrest]; subst.
    destruct gs as [|g2 gs].
    - cbn [map tl wfc concat] in *. rewrite app_nil_r in Hw. unfold mk_node. rewrite wf_node_unfold.
      repeat split; auto. lia.
    - inversion Hrest as [|? ? Hg2 _]; subst.
      destruct g2 as [|c2 g2']; [congruence|]. destruct g1 as [|c1 g1']; [congruence|].
      cbn [concat] in Hw, Hn.
      set (X := g2' ++ concat gs) in *.
      assert (Hc : (c1 :: g1') ++ (c2 :: g2') ++ concat gs = (c1 :: g1') ++ c2 :: X) by reflexivity.
      rewrite Hc in Hw, Hn.
      assert (Htl : map fkey (tl ((c1 :: g1') ++ c2 :: X)) = map fkey g1' ++ fkey c2 :: map fkey X).
      { cbn [app tl]. now rewrite map_app. }
      rewrite Htl in Hw.
      apply wfc_app_inv in Hw as (A1 & A2 & A3 & A4); [|cbn; rewrite map_length; reflexivity].
      apply Forall_app in Hn as [Hn1 Hn2].
      pose proof (wfc_forall _ _ _ _ _ A4) as Hall2.
      inversion Hall2 as [|? ? (a & b & Hc2) _]; subst. inversion Hn2 as [|? ? Hnc2 _]; subst.
      cbn [map tl].
      rewrite (fkey_mk_node h a b c2 g2' Hc2 Hnc2).
      cbn [wfc]. split; [exact A1|]. split; [exact A2|]. split.
      + unfold mk_node. rewrite wf_node_unfold. repeat split; auto. lia.
      + apply (IH (Some (fkey c2)) hi); auto; try discriminate.
  Qed.

  Lemma mk_internal_min_key h g : g <> [] ->
    Forall (fun c => exists a b, wf 0 h a b c) g -> Forall (nel h) g ->
    mk_internal ksz min_key g = Ok (mk_node g) \/ mk_internal ksz min_key g = Err PageOverflow.
  Proof.
    intros Hne Hw Hn. destruct g as [|c rest]; [congruence|]. cbn [mk_internal].
    inversion Hw; subst. inversion Hn; subst.
    assert (Hm : map_result min_key rest = Ok (map fkey rest)).
    { clear - H2 H4. induction rest as [|x rest IH]; cbn; auto.
      inversion H2 as [|? ? (a & b & Hx) Hr]; subst. inversion H4; subst.
      destruct (min_key_spec _ _ _ _ Hx H1) as [-> _]. cbn [bind]. rewrite IH; auto. }
    rewrite Hm. cbn [bind]. unfold mk_node. cbn [tl]. apply write_node_cases.
  Qed.

  Definition level_ok (h : nat) (ns : list node) (g : list entry) : Prop :=
    ns <> [] /\ wfc (wf 0 h) None None (map fkey (tl ns)) ns /\ Forall (nel h) ns /\ flat_map abs ns = g.

  Lemma flat_map_abs_mk_node gs : flat_map abs (map mk_node gs) = flat_map abs (concat gs).
  Proof.
    induction gs as [|g gs IH]; cbn; auto. rewrite IH, flat_map_app'. reflexivity.
  Qed.

  Lemma build_levels_spec g : forall fuel ns h, h <> 0 -> level_ok h ns g -> length ns <= S fuel ->
    match build_levels d ksz min_key fuel ns h with
    | Err e => e = PageOverflow
    | Ok t => WF 0 t /\ abs (root t) = g
    end.
  Proof.
    induction fuel as [|f IH]; intros ns h Hh (Hne & Hw & Hn & Ha) Hl.
    - destruct ns as [|x [|y ns]]; [congruence| |cbn in Hl; lia].
      cbn. cbn in Hw, Ha. rewrite app_nil_r in Ha. split; auto. split; cbn; [lia|auto].
    - destruct ns as [|x [|y ns]]; [congruence| |].
      + cbn. cbn in Hw, Ha. rewrite app_nil_r in Ha. split; auto. split; cbn; [lia|auto].
      + set (lv := x :: y :: ns) in *.
        change (build_levels d ksz min_key (S f) lv h) with
          (bind (map_result (mk_internal ksz min_key) (chunk (length lv) (internal_capacity d) lv))
                (fun next => build_levels d ksz min_key f next (S h))).
        pose proof internal_capacity_ge as Hic.
        destruct (chunk_spec (internal_capacity d) ltac:(lia) (length lv) lv (le_n _)) as [C1 C2].
        pose proof (chunk_length_half (internal_capacity d) Hic (length lv) lv (le_n _)) as C3.
        set (gs := chunk (length lv) (internal_capacity d) lv) in *.
        assert (Hgs : gs <> []).
        { intros E. rewrite E in C1. cbn in C1. unfold lv in C1. discriminate. }
        pose proof (wfc_forall _ _ _ _ _ Hw) as Hall.
        destruct (map_result_ok (mk_internal ksz min_key) mk_node gs) as [-> | ->]; cbn [bind]; [| |reflexivity].
        { intros g0 Hg0. rewrite Forall_forall in C2.
          assert (Hsub : forall c, In c g0 -> In c lv).
          { intros c Hc. rewrite <- C1. apply in_concat. eauto. }
          apply (mk_internal_min_key h g0 (C2 g0 Hg0)).
          - apply Forall_forall. intros c Hc. rewrite Forall_forall in Hall. apply Hall. auto.
          - apply Forall_forall. intros c Hc. rewrite Forall_forall in Hn. apply Hn. auto. }
        apply IH; [lia| |rewrite map_length; cbn [length] in *; lia].
        split; [|split; [|split]].
        * destruct gs; [congruence|discriminate].
        * apply level_step; auto; rewrite C1; auto.
        * apply Forall_forall. intros n Hin. apply in_map_iff in Hin as (g0 & <- & Hg0).
          unfold mk_node. cbn [nel]. apply Forall_forall. intros c Hc.
          rewrite Forall_forall in Hn. apply Hn. rewrite <- C1. apply in_concat. eauto.
        * rewrite flat_map_abs_mk_node, C1. exact Ha.
  Qed.

  (** ** the repaired loader *)
  Theorem bulk_load_fixed_spec es : StronglySorted Z.le (map fst es) ->
    match bulk_load_fixed d ksz es with
    | Err e => e = PageOverflow
    | Ok t => WF 0 t /\ abs (root t) = mm_of_list es
    end.
  Proof.
    intros Hs. unfold bulk_load_fixed, bulk_load_with.
    destruct es as [|e0 es0].
    - destruct (write_leaf_cases ksz []) as [-> | ->]; cbn [bind]; [|reflexivity].
      split; [|reflexivity]. apply WFb_sound. reflexivity.
    - set (es := e0 :: es0) in *.
      rewrite (group_spec es Hs). pose proof (mm_of_list_sorted es) as Hg.
      set (g := mm_of_list es) in *.
      pose proof leaf_capacity_ge as Hlc.
      destruct (chunk_spec (leaf_capacity d) Hlc (length g) g (le_n _)) as [C1 C2].
      set (gs := chunk (length g) (leaf_capacity d) g) in *.
      assert (Hgne : g <> []) by apply mm_of_list_nonempty.
      assert (Hgs : gs <> []).
      { intros E. apply Hgne. rewrite <- C1, E. reflexivity. }
      destruct (map_result_ok (write_leaf ksz) Leaf gs) as [-> | ->]; cbn [bind]; [| |reflexivity].
      { intros x _. apply write_leaf_cases. }
      apply build_levels_spec; [lia| |rewrite map_length; lia].
      split; [|split; [|split]].
      + destruct gs; [congruence|discriminate].
      + apply leaves_level; auto. now rewrite C1.
      + apply Forall_forall. intros n Hin. apply in_map_iff in Hin as (g0 & <- & Hg0). cbn.
        rewrite Forall_forall in C2. auto.
      + rewrite <- C1. clear. induction gs; cbn; auto. now rewrite IHgs.
  Qed.

  (** ** the loader as written: same result while there is only one internal level *)
  Lemma map_result_first_key_leaves gs :
    map_result first_key_impl (map Leaf gs) = map_result min_key (map Leaf gs).
  Proof. induction gs; cbn [map map_result]; auto. now rewrite first_key_impl_leaf, IHgs. Qed.

  Lemma build_levels_single sepf f x y rest h :
    length (x :: y :: rest) <= internal_capacity d ->
    build_levels d ksz sepf (S f) (x :: y :: rest) h =
    bind (mk_internal ksz sepf (x :: y :: rest)) (fun n => Ok (mkTree n (S h))).
  Proof.
    intros Hl. set (lv := x :: y :: rest) in *.
    change (build_levels d ksz sepf (S f) lv h) with
      (bind (map_result (mk_internal ksz sepf) (chunk (length lv) (internal_capacity d) lv))
            (fun next => build_levels d ksz sepf f next (S h))).
    change (length lv) with (S (length (y :: rest))) at 1.
    rewrite chunk_single; [|discriminate|exact Hl].
    cbn [map_result]. destruct (mk_internal ksz sepf lv) as [n|e]; cbn [bind]; [|reflexivity].
    destruct f; reflexivity.
  Qed.

  Theorem bulk_load_small es :
    length (group es) <= leaf_capacity d * internal_capacity d ->
    bulk_load d ksz es = bulk_load_fixed d ksz es.
  Proof.
    intros Hl. unfold bulk_load, bulk_load_fixed, bulk_load_with.
    destruct es as [|e0 es0]; [reflexivity|].
    set (g := group (e0 :: es0)) in *.
    pose proof leaf_capacity_ge as Hlc. pose proof internal_capacity_ge as Hic.
    pose proof (chunk_length_bound (leaf_capacity d) Hlc (internal_capacity d) (length g) g Hl) as Hn.
    set (gs := chunk (length g) (leaf_capacity d) g) in *.
    destruct (map_result_ok (write_leaf ksz) Leaf gs) as [-> | ->]; cbn [bind]; [| |reflexivity].
    { intros x _. apply write_leaf_cases. }
    rewrite map_length.
    destruct gs as [|g1 [|g2 gs']]; [reflexivity|reflexivity|].
    cbn [map length]. cbn [length] in Hn.
    rewrite !build_levels_single by (cbn [length]; rewrite map_length; exact Hn).
    cbn [mk_internal]. change (Leaf g2 :: map Leaf gs') with (map Leaf (g2 :: gs')).
    rewrite (map_result_first_key_leaves (g2 :: gs')). reflexivity.
  Qed.

  Corollary bulk_load_spec_small es : StronglySorted Z.le (map fst es) ->
    length (group es) <= leaf_capacity d * internal_capacity d ->
    match bulk_load d ksz es with
    | Err e => e = PageOverflow
    | Ok t => WF 0 t /\ abs (root t) = mm_of_list es
    end.
  Proof. intros Hs Hl. rewrite (bulk_load_small es Hl). now apply bulk_load_fixed_spec. Qed.
End Bulk.

(** * whatever the separators, a successful bulk_load stores exactly the loaded entries (the defect
      is one of routing only: an unbounded scan still returns everything) *)
Section BulkAbs.
  Variable d : nat.
  Variable ksz : key -> Z.
  Variable sepf : node -> result key.

  Lemma mk_internal_abs g n : mk_internal ksz sepf g = Ok n -> abs n = flat_map abs g.
  Proof.
    destruct g as [|c rest]; cbn [mk_internal]; [discriminate|].
    destruct (map_result sepf rest) as [seps|e]; cbn [bind]; [|discriminate].
    unfold write_node. destruct (fits_node ksz seps (c :: rest)); [|discriminate].
    intros H. inversion H; subst. reflexivity.
  Qed.

  Lemma map_mk_internal_abs : forall gs next, map_result (mk_internal ksz sepf) gs = Ok next ->
    flat_map abs next = flat_map abs (concat gs).
  Proof.
    induction gs as [|g gs IH]; cbn [map_result]; intros next H.
    - inversion H; subst. reflexivity.
    - destruct (mk_internal ksz sepf g) as [n|e] eqn:E; cbn [bind] in H; [|discriminate].
      destruct (map_result (mk_internal ksz sepf) gs) as [ns|e]; cbn [bind] in H; [|discriminate].
      inversion H; subst. cbn [flat_map concat]. rewrite flat_map_app'.
      now rewrite (mk_internal_abs _ _ E), (IH ns eq_refl).
  Qed.

  Lemma build_levels_abs : forall fuel ns h t, build_levels d ksz sepf fuel ns h = Ok t ->
    abs (root t) = flat_map abs ns.
  Proof.
    induction fuel as [|f IH]; intros ns h t H.
    - destruct ns as [|x [|y ns]]; cbn in H; try discriminate. inversion H; subst. cbn. now rewrite app_nil_r.
    - destruct ns as [|x [|y ns]]; [cbn in H; discriminate|cbn in H; inversion H; subst; cbn; now rewrite app_nil_r|].
      set (lv := x :: y :: ns) in *.
      change (build_levels d ksz sepf (S f) lv h) with
        (bind (map_result (mk_internal ksz sepf) (chunk (length lv) (internal_capacity d) lv))
              (fun next => build_levels d ksz sepf f next (S h))) in H.
      destruct (map_result (mk_internal ksz sepf) (chunk (length lv) (internal_capacity d) lv)) as [next|e] eqn:E;
        cbn [bind] in H; [|discriminate].
      rewrite (IH _ _ _ H), (map_mk_internal_abs _ _ E).
      pose proof (internal_capacity_ge d) as Hic.
      destruct (chunk_spec (internal_capacity d) ltac:(lia) (length lv) lv (le_n _)) as [C1 _].
      now rewrite C1.
  Qed.

  Theorem bulk_load_with_abs es t : StronglySorted Z.le (map fst es) ->
    bulk_load_with d ksz sepf es = Ok t -> abs (root t) = mm_of_list es.
  Proof.
    intros Hs. unfold bulk_load_with. destruct es as [|e0 es0].
    - unfold write_leaf. destruct (fits_leaf ksz []); cbn [bind]; [|discriminate].
      intros H. inversion H; subst. reflexivity.
    - set (es := e0 :: es0) in *. rewrite (group_spec es Hs). set (g := mm_of_list es) in *.
      pose proof (leaf_capacity_ge d) as Hlc.
      destruct (chunk_spec (leaf_capacity d) Hlc (length g) g (le_n _)) as [C1 _].
      set (gs := chunk (length g) (leaf_capacity d) g) in *.
      destruct (map_result_ok (write_leaf ksz) Leaf gs) as [-> | ->]; cbn [bind]; [| |discriminate].
      { intros x _. apply write_leaf_cases. }
      intros H. rewrite (build_levels_abs _ _ _ _ H). rewrite <- C1.
      clear. induction gs; cbn; auto. now rewrite IHgs.
  Qed.
End BulkAbs.

Theorem bulk_load_abs d ksz es t : StronglySorted Z.le (map fst es) ->
  bulk_load d ksz es = Ok t -> abs (root t) = mm_of_list es.
Proof. apply bulk_load_with_abs. Qed.

(** * the loader as written is wrong for taller trees: degree 5, thirty distinct keys *)
Definition c17_ksz (_ : key) : Z := 13%Z.
Definition c17_entries (n : nat) : list (key * rowid) := map (fun i => (Z.of_nat i, Z.of_nat i)) (seq 0 n).

Lemma c17_entries_sorted n : StronglySorted Z.le (map fst (c17_entries n)).
Proof.
  unfold c17_entries. rewrite map_map. cbn [fst]. generalize 0 at 1.
  induction n as [|n IH]; intros s; cbn; constructor; auto.
  apply Forall_forall. intros x Hx. apply in_map_iff in Hx as (y & <- & Hy). apply in_seq in Hy. lia.
Qed.

Theorem bulk_load_refuted :
  exists (es : list (key * rowid)) (t : tree) (k : key),
    StronglySorted Z.le (map fst es) /\ bulk_load 5 c17_ksz es = Ok t /\
    height t = 4 /\ mm_lookup (mm_of_list es) k = [k] /\ abs (root t) = mm_of_list es /\
    lookup t k = Ok [] /\ WFb 0 t = false.
Proof.
  exists (c17_entries 30).
  destruct (bulk_load 5 c17_ksz (c17_entries 30)) as [t|] eqn:E; [|vm_compute in E; discriminate].
  exists t, 9%Z. split; [apply c17_entries_sorted|]. split; [reflexivity|].
  vm_compute in E. inversion E; subst. vm_compute. repeat split; reflexivity.
Qed.

(** bulk_load may leave a last internal node with a single child; deleting below it indexes
    children[1] (rebalance.rs merge_leaf) *)
Theorem bulk_load_delete_refuted :
  exists (es : list (key * rowid)) (t : tree) (k : key),
    StronglySorted Z.le (map fst es) /\ bulk_load 5 c17_ksz es = Ok t /\
    WFb 0 t = true /\ WFb 1 t = false /\ delete 5 c17_ksz false t k = Err Panic.
Proof.
  exists (c17_entries 10).
  destruct (bulk_load 5 c17_ksz (c17_entries 10)) as [t|] eqn:E; [|vm_compute in E; discriminate].
  exists t, 9%Z. split; [apply c17_entries_sorted|]. split; [reflexivity|].
  vm_compute in E. inversion E; subst. vm_compute. repeat split; reflexivity.
Qed.

(** a leaf whose row-id lists outgrow the page makes insert fail (509 row ids under one 13-byte key) *)
Theorem page_overflow_refuted :
  exists (t : tree) (k : key) (r : rowid),
    WFb 1 t = true /\ insert 5 c17_ksz t k r = Err PageOverflow.
Proof.
  exists (mkTree (Leaf [(1%Z, map Z.of_nat (seq 0 508))]) 1), 1%Z, 508%Z.
  split; vm_compute; reflexivity.
Qed.

Example bulk_load_fixed_example :
  match bulk_load_fixed 5 c17_ksz (c17_entries 30) with
  | Ok t => WFb 0 t = true /\ forallb (fun k => match lookup t k with Ok [r] => (r =? k)%Z | _ => false end)
                                   (map fst (c17_entries 30)) = true
  | Err _ => False
  end.
Proof. vm_compute. split; reflexivity. Qed.
