(** C12 laws, part 10: DELETE removes nothing but the selected rows and, transitively, the rows
    that reference a removed row through an ON DELETE CASCADE key. *)
From Coq Require Import List ZArith Bool Arith Lia.
From VibeSQL Require Import Store.Fk Store.FkLaws Store.FkDeleteLaws Store.FkStepLaws Store.FkUpdateLaws.
Import ListNotations.

Lemma srows_trans_in : forall (D1 D2 D : row -> Prop) opk a b c,
  (forall r, In r a -> D1 r -> D r) ->
  (forall r' r, In r a -> row_le opk r' r -> D2 r' -> D r) ->
  srows D1 opk a b -> srows D2 opk b c -> srows D opk a c.
Proof.
  intros D1 D2 D opk a b c H1 H2 S1. revert c. induction S1; intros c S2.
  - inversion S2; subst. constructor.
  - apply sr_drop; [apply H1; [left; reflexivity|assumption]|]. apply IHS1; [| |exact S2].
    + intros x Hx. apply H1. right. exact Hx.
    + intros x' x Hx. apply H2. right. exact Hx.
  - assert (A1 : forall x, In x l -> D1 x -> D x) by (intros x Hx; apply H1; right; exact Hx).
    assert (A2 : forall x' x, In x l -> row_le opk x' x -> D2 x' -> D x) by (intros x' x Hx; apply H2; right; exact Hx).
    inversion S2; subst.
    + apply sr_drop; [eapply H2; [left; reflexivity|eassumption|eassumption]|]. apply IHS1; assumption.
    + apply sr_keep; [eapply row_le_trans; eassumption|]. apply IHS1; assumption.
Qed.

Lemma dshrink_trans_in : forall (D1 D2 D : table -> row -> Prop) a b c,
  (forall t r, In t a -> In r (t_rows t) -> D1 t r -> D t r) ->
  (forall t t1 r' r, In t a -> In r (t_rows t) -> same_schema t t1 -> row_le (t_pk t) r' r -> D2 t1 r' -> D t r) ->
  dshrink D1 a b -> dshrink D2 b c -> dshrink D a c.
Proof.
  intros D1 D2 D a b c H1 H2 S1. revert c. induction S1 as [|x y l l' Hxy S1 IH]; intros c S2.
  - inversion S2; subst. constructor.
  - inversion S2 as [|? z ? l'' Hyz S2']; subst. constructor.
    + destruct Hxy as [Sxy Rxy]. destruct Hyz as [Syz Ryz]. split; [eapply same_schema_trans; eassumption|].
      pose proof Sxy as [A1 [A2 [A3 A4]]]. rewrite A3 in Ryz.
      eapply srows_trans_in; [| |exact Rxy|exact Ryz].
      * intros r Hr. apply H1; [left; reflexivity|exact Hr].
      * intros r' r Hr Hle HD. eapply (H2 x y r' r); [left; reflexivity|exact Hr|exact Sxy|exact Hle|exact HD].
    + apply IH; [| |assumption].
      * intros t r Ht. apply H1. right. exact Ht.
      * intros t t1 r' r Ht. apply H2. right. exact Ht.
Qed.

Section Sound.
Variables (ord : list nat) (d0 : db) (t : nat) (sel : list row).

(** rows the statement is entitled to remove, judged on the database BEFORE the statement *)
Inductive doomed : nat -> row -> Prop :=
| dm_sel : forall r, In r sel -> doomed t r
| dm_cas : forall p pt pk pr ct fk r,
    doomed p pr -> get_table d0 p = Some pt -> t_pk pt = Some pk ->
    In ct d0 -> In fk (t_fks ct) -> fk_parent fk = p -> fk_ondel fk = ACascade ->
    In r (t_rows ct) -> refs fk (proj pk pr) r = true -> doomed (t_name ct) r.

Definition Dm (x : table) (r : row) : Prop := doomed (t_name x) r.
Definition snd_inv (cur : db) : Prop := dshrink Dm d0 cur.

(** [k] is the key of a doomed row of table [p] *)
Definition dkey (p : nat) (k : key) : Prop :=
  exists pt pk pr0, get_table d0 p = Some pt /\ t_pk pt = Some pk /\ In pr0 (t_rows pt) /\ doomed p pr0 /\ proj pk pr0 = k.

Hypothesis I0 : inv d0.
Hypothesis O0 : ord_ok ord d0.

Lemma snd_inv_inv : forall cur, snd_inv cur -> inv cur.
Proof. intros cur S. eapply inv_shrinks; [exact I0|exact S]. Qed.

Lemma snd_inv_ord : forall cur, snd_inv cur -> ord_ok ord cur.
Proof. intros cur S. eapply ord_ok_shrinks; [exact S|exact O0]. Qed.

Definition rec_sound (rec : nat -> row -> world -> outcome) : Prop :=
  forall p prow w pt pk, snd_inv (fst w) ->
    get_table (fst w) p = Some pt -> t_pk pt = Some pk -> dkey p (proj pk prow) ->
    match rec p prow w with
    | OOk w' | OErr _ w' => snd w' = snd w -> snd_inv (fst w')
    | OCrash => True
    end.

(** a current row that references a doomed key descends from a doomed row *)
Lemma refs_doomed : forall cur cn ct fk k x,
  snd_inv cur -> get_table cur cn = Some ct -> In fk (t_fks ct) -> fk_ondel fk = ACascade ->
  dkey (fk_parent fk) k -> In x (t_rows ct) -> refs fk k x = true ->
  exists ct0 x0, get_table d0 cn = Some ct0 /\ In x0 (t_rows ct0) /\ row_le (t_pk ct0) x x0 /\ doomed cn x0
                 /\ t_pk ct0 = t_pk ct.
Proof.
  intros cur cn ct fk k x S G Hfk Ha [pt [pk [pr0 [Gp [Hpk [Hpr0 [Hd Ek]]]]]]] Hx Href.
  destruct (dshrink_get_rev _ _ _ _ _ S G) as [ct0 [G0 [[Hn [_ [Hp Hf]]] Hrows]]].
  destruct (srows_origin _ _ _ _ _ Hrows Hx) as [x0 [Hx0 Hle]].
  exists ct0, x0. split; [exact G0|]. split; [exact Hx0|]. split; [exact Hle|]. split; [|symmetry; exact Hp].
  pose proof (get_table_In _ _ _ G0) as [Gin0 Gn0]. rewrite <- Gn0.
  eapply dm_cas; [exact Hd|exact Gp|exact Hpk|exact Gin0| |reflexivity|exact Ha|exact Hx0|].
  - rewrite <- Hf. exact Hfk.
  - rewrite Ek. destruct Hle as [Hle _]. eapply refs_le; eassumption.
Qed.

Lemma snd_inv_table : forall cur cur' cn ct, snd_inv cur -> snd_inv cur' -> get_table cur cn = Some ct ->
  exists ct', get_table cur' cn = Some ct' /\ t_pk ct' = t_pk ct /\ t_fks ct' = t_fks ct.
Proof.
  intros cur cur' cn ct S S' G.
  destruct (dshrink_get_rev _ _ _ _ _ S G) as [ct0 [G0 [[_ [_ [Hp Hf]]] _]]].
  destruct (dshrink_get _ _ _ _ _ S' G0) as [ct' [G' [[_ [_ [Hp' Hf']]] _]]].
  exists ct'. split; [exact G'|]. split; congruence.
Qed.

Lemma each_row_sound : forall rec cn, rec_ok ord rec -> rec_sound rec -> forall rs w ct pk,
  snd_inv (fst w) -> get_table (fst w) cn = Some ct -> t_pk ct = Some pk ->
  (forall r, In r rs -> dkey cn (proj pk r)) ->
  match each_row (rec cn) rs w with
  | OOk w' | OErr _ w' => snd w' = snd w -> snd_inv (fst w')
  | OCrash => True
  end.
Proof.
  intros rec cn RO RS rs. induction rs as [|r rs IH]; intros w ct pk S G Hpk HK; cbn [each_row]; [auto|].
  pose proof (proj1 RO cn r w) as S1. pose proof (RS cn r w ct pk S G Hpk (HK r (or_introl eq_refl))) as C1.
  destruct (rec cn r w) as [w1|e w1|]; cbn [bind]; [|exact C1|exact Logic.I].
  cbn in S1. destruct S1 as [l1 E1].
  pose proof (each_row_suffix (rec cn) rs w1 (fun r0 w0 => proj1 RO cn r0 w0)) as S2.
  destruct (each_row (rec cn) rs w1) as [w2|e w2|] eqn:E2; [| |exact Logic.I];
    cbn in S2; destruct S2 as [l2 E2']; intros Hc;
    assert (K : l1 = [] /\ l2 = []) by (apply (suffix_clean2 l1 l2 (snd w)); rewrite <- E1, <- E2'; exact Hc);
    destruct K as [-> ->]; cbn in E1, E2'; specialize (C1 E1);
    destruct (snd_inv_table _ _ _ _ S C1 G) as [ct1 [G1 [Hp1 _]]];
    assert (Hpk1 : t_pk ct1 = Some pk) by congruence;
    specialize (IH w1 ct1 pk C1 G1 Hpk1 (fun x Hx => HK x (or_intror Hx))); rewrite E2 in IH; apply IH; exact E2'.
Qed.

Lemma cascade_delete_sound : forall rec, rec_ok ord rec -> rec_sound rec -> forall cn fk k w ct,
  snd_inv (fst w) -> get_table (fst w) cn = Some ct -> In fk (t_fks ct) -> fk_ondel fk = ACascade ->
  dkey (fk_parent fk) k ->
  match cascade_delete rec cn fk k w with
  | OOk w' | OErr _ w' => snd w' = snd w -> snd_inv (fst w')
  | OCrash => True
  end.
Proof.
  intros rec RO RS cn fk k w ct S G Hfk Ha DK. unfold cascade_delete. rewrite G.
  set (rtd := filter (refs fk k) (t_rows ct)).
  assert (EACH : match each_row (rec cn) rtd w with
                 | OOk w' | OErr _ w' => snd w' = snd w -> snd_inv (fst w')
                 | OCrash => True end).
  { destruct (t_pk ct) as [pk|] eqn:Epk.
    - eapply each_row_sound; [exact RO|exact RS|exact S|exact G|exact Epk|].
      intros x Hx. unfold rtd in Hx. apply filter_In in Hx. destruct Hx as [Hx Href].
      destruct (refs_doomed _ _ _ _ _ _ S G Hfk Ha DK Hx Href) as [ct0 [x0 [G0 [Hx0 [[_ Hk] [Hd Hp0]]]]]].
      rewrite Hp0, Epk in Hk. cbn in Hk. exists ct0, pk, x0. repeat split; auto. congruence.
    - destruct (each_row_nopk ord rec cn RO rtd w ct G Epk) as [E|E]; rewrite E; [intros _; exact S|exact Logic.I]. }
  pose proof (each_row_suffix (rec cn) rtd w (fun r0 w0 => proj1 RO cn r0 w0)) as S1.
  destruct (each_row (rec cn) rtd w) as [w1|e w1|] eqn:E1; cbn [bind]; [|exact EACH|exact Logic.I].
  cbn in S1. destruct S1 as [l1 El1].
  destruct (get_table (fst w1) cn) as [ct1|] eqn:G1; [|exact EACH].
  destruct (forallb (fun r => key_mem r (t_rows ct1)) rtd) eqn:Est.
  2:{ cbn. intros Hc. exfalso. rewrite El1 in Hc.
      assert (X : length (EvStaleCascadeRow :: l1 ++ snd w) = length (snd w)) by (rewrite Hc; reflexivity).
      cbn in X. rewrite app_length in X. lia. }
  cbn [fst snd]. intros Hc. specialize (EACH Hc).
  pose proof (snd_inv_inv _ EACH) as I1.
  (* second leg: the rows dropped now reference the doomed key *)
  assert (LEG : dshrink (fun x r' => t_name x = cn /\ refs fk k r' = true) (fst w1)
                  (set_rows (fst w1) cn (filter (fun r => negb (key_mem r rtd)) (t_rows ct1)))).
  { eapply set_rows_dshrink; [apply (inv_names _ I1)|exact G1|]. apply srows_filter.
    intros r Hr Hf. apply negb_false_iff in Hf. apply key_mem_In in Hf. unfold rtd in Hf. apply filter_In in Hf.
    split; [apply (get_table_In _ _ _ G1)|apply Hf]. }
  unfold snd_inv. eapply dshrink_trans_in; [| |exact EACH|exact LEG].
  - auto.
  - intros t0 t1 r' r Ht0 Hr Hs [Hle _] [Hn Href]. unfold Dm.
    destruct DK as [pt [pk [pr0 [Gp [Hpk [Hpr0 [Hd Ek]]]]]]].
    destruct (dshrink_get_rev _ _ _ _ _ S G) as [ct0 [G0 [[_ [_ [_ Hf0]]] _]]].
    assert (t0 = ct0).
    { pose proof (In_get_table _ _ (inv_names _ I0) Ht0) as Gt0. destruct Hs as [Hn1 _]. rewrite <- Hn1, Hn in Gt0. congruence. }
    subst t0. eapply dm_cas; [exact Hd|exact Gp|exact Hpk|exact Ht0| |reflexivity|exact Ha|exact Hr|].
    + rewrite <- Hf0. exact Hfk.
    + rewrite Ek. eapply refs_le; eassumption.
Qed.

Lemma nodrop_leg : forall (cur cur' : db), (forall D, dshrink D cur cur') -> snd_inv cur -> snd_inv cur'.
Proof.
  intros cur cur' H S. unfold snd_inv. eapply dshrink_trans_in; [| |exact S|exact (H (fun _ _ => False))].
  - auto.
  - intros ? ? ? ? ? ? ? ? [].
Qed.

Lemma run_actions_sound : forall rec, rec_ok ord rec -> rec_sound rec -> forall acts k w p,
  snd_inv (fst w) -> dkey p k ->
  (forall cn fk, In (cn, fk) acts -> fk_parent fk = p /\ exists ct, get_table (fst w) cn = Some ct /\ In fk (t_fks ct)) ->
  match run_actions rec acts k w with
  | OOk w' | OErr _ w' => snd w' = snd w -> snd_inv (fst w')
  | OCrash => True
  end.
Proof.
  intros rec RO RS acts k. induction acts as [|[cn fk] acts IH]; intros w p S DK HA; cbn [run_actions]; [auto|].
  destruct (HA cn fk (or_introl eq_refl)) as [Hp [ct [G Hf]]].
  assert (STEP : forall o1, suffix_of w o1 ->
      match o1 with OOk w' | OErr _ w' => snd w' = snd w -> snd_inv (fst w') | OCrash => True end ->
      match bind o1 (run_actions rec acts k) with
      | OOk w' | OErr _ w' => snd w' = snd w -> snd_inv (fst w') | OCrash => True end).
  { intros o1 S1 C1. destruct o1 as [w1|e w1|]; cbn [bind]; [|exact C1|exact Logic.I].
    cbn in S1. destruct S1 as [l1 E1].
    pose proof (run_actions_suffix rec acts k w1 (proj1 RO)) as S2.
    destruct (run_actions rec acts k w1) as [w2|e w2|] eqn:E2; [| |exact Logic.I];
      cbn in S2; destruct S2 as [l2 E2']; intros Hc;
      assert (K : l1 = [] /\ l2 = []) by (apply (suffix_clean2 l1 l2 (snd w)); rewrite <- E1, <- E2'; exact Hc);
      destruct K as [-> ->]; cbn in E1, E2'; specialize (C1 E1);
      assert (HA1 : forall cn0 fk0, In (cn0, fk0) acts ->
                fk_parent fk0 = p /\ exists ct0, get_table (fst w1) cn0 = Some ct0 /\ In fk0 (t_fks ct0))
        by (intros cn0 fk0 Hin; destruct (HA cn0 fk0 (or_intror Hin)) as [Hp0 [ct0 [G0 Hf0]]]; split; [exact Hp0|];
            destruct (snd_inv_table _ _ _ _ S C1 G0) as [ct0' [G0' [_ Hfk']]]; exists ct0'; split; [exact G0'|rewrite Hfk'; exact Hf0]);
      specialize (IH w1 p C1 DK HA1); rewrite E2 in IH; apply IH; exact E2'. }
  pose proof (snd_inv_inv _ S) as Iw.
  destruct (fk_ondel fk) eqn:Ea.
  - auto.
  - auto.
  - apply STEP; [apply cascade_delete_suffix; exact (proj1 RO)|].
    eapply cascade_delete_sound; try eassumption. rewrite Hp. exact DK.
  - apply STEP; [apply set_null_suffix|].
    destruct w as [d ev]. cbn [fst snd] in *. unfold set_null.
    assert (Hne : fk_cols fk <> []).
    { pose proof (get_table_In _ _ _ G) as [Gin _]. eapply std_fk_cols_nonempty; eassumption. }
    pose proof (fun D => rewrite_children_spec D cn fk k (map (fun _ => None) (fk_cols fk)) d ev ct Iw G Hne
                          (forallb_is_null_map_none _) (map_length _ _)) as H.
    destruct (rewrite_children cn fk k (map (fun _ : nat => None) (fk_cols fk)) (d, ev)) as [[d' ev']|e [d' ev']|];
      [| |exact Logic.I]; intros _; apply (nodrop_leg d d'); [|exact S| |exact S]; intros D; apply (H D).
  - apply STEP; [apply set_default_suffix|].
    destruct w as [d ev]. cbn [fst snd] in *. unfold set_default. cbn [fst]. rewrite G.
    assert (Hne : fk_cols fk <> []).
    { pose proof (get_table_In _ _ _ G) as [Gin _]. eapply std_fk_cols_nonempty; eassumption. }
    destruct (forallb is_null (fk_defaults ct fk)) eqn:En.
    + pose proof (fun D => rewrite_children_spec D cn fk k (fk_defaults ct fk) d ev ct Iw G Hne En (map_length _ _)) as H.
      destruct (rewrite_children cn fk k (fk_defaults ct fk) (d, ev)) as [[d' ev']|e [d' ev']|];
        [| |exact Logic.I]; intros _; apply (nodrop_leg d d'); [|exact S| |exact S]; intros D; apply (H D).
    + pose proof (rewrite_children_suffix cn fk k (fk_defaults ct fk) (log EvSetDefault (d, ev))) as SF.
      destruct (rewrite_children cn fk k (fk_defaults ct fk) (log EvSetDefault (d, ev))) as [w'|e w'|];
        [| |exact Logic.I]; cbn in SF; destruct SF as [l E]; intros Hc; exfalso; rewrite E in Hc;
        assert (X : length (l ++ EvSetDefault :: ev) = length ev) by (rewrite Hc; reflexivity);
        rewrite app_length in X; cbn in X; lia.
Qed.

Lemma check_body_sound : forall rec, rec_ok ord rec -> rec_sound rec -> rec_sound (check_body rec ord).
Proof.
  intros rec RO RS p prow w pt pk S G Hpk DK. unfold check_body. rewrite G, Hpk.
  destruct (negb (has_any_fks (fst w))); [auto|].
  eapply run_actions_sound; [exact RO|exact RS|exact S|exact DK|].
  intros cn fk Hin. apply collect_In in Hin. destruct Hin as [_ [ct [G1 [Hf [Hp _]]]]].
  split; [exact Hp|]. exists ct. auto.
Qed.

Lemma check_sound : forall fuel, rec_sound (check fuel ord).
Proof.
  induction fuel as [|f IH]; [intros p prow w pt pk _ _ _ _; exact Logic.I|].
  change (check (S f) ord) with (check_body (check f ord) ord).
  apply check_body_sound; [apply check_ok|exact IH].
Qed.

End Sound.

(* ------------------------------------------------------------------------------------ *)
(** * The statement *)

Lemma select_from_none : forall rows i, map snd (select_from i None rows) = rows.
Proof. induction rows as [|r rows IH]; intros i; cbn; [reflexivity|]. rewrite IH. reflexivity. Qed.

Lemma select_from_ge : forall wh rows i p, In p (select_from i wh rows) -> i <= fst p.
Proof.
  intros wh rows. induction rows as [|r rows IH]; intros i p H; cbn in H; [contradiction|].
  destruct (selects wh r).
  - destruct H as [<-|H]; [cbn; lia|]. specialize (IH _ _ H). lia.
  - specialize (IH _ _ H). lia.
Qed.

Lemma delete_by_index_skip : forall idx l i j, i < j ->
  delete_by_index_from j (i :: idx) l = delete_by_index_from j idx l.
Proof.
  intros idx l. induction l as [|a l IHl]; intros i j Hj; cbn [delete_by_index_from]; [reflexivity|].
  assert (E : nat_mem j (i :: idx) = nat_mem j idx).
  { unfold nat_mem. cbn [existsb]. destruct (Nat.eqb j i) eqn:E; [apply Nat.eqb_eq in E; lia|reflexivity]. }
  rewrite E. destruct (nat_mem j idx); rewrite IHl by lia; reflexivity.
Qed.

Lemma srows_delete_selected : forall opk wh rows i,
  srows (fun r => In r (map snd (select_from i wh rows))) opk rows
        (delete_by_index_from i (map fst (select_from i wh rows)) rows).
Proof.
  intros opk wh rows. induction rows as [|r rows IH]; intros i; [constructor|].
  cbn [select_from]. destruct (selects wh r) eqn:Es.
  - cbn [map fst snd delete_by_index_from].
    assert (M : nat_mem i (i :: map fst (select_from (S i) wh rows)) = true)
      by (unfold nat_mem; cbn [existsb]; rewrite Nat.eqb_refl; reflexivity).
    rewrite M. apply sr_drop; [left; reflexivity|].
    rewrite delete_by_index_skip by lia.
    eapply srows_weaken; [|apply IH]. intros x _ Hx. right. exact Hx.
  - cbn [delete_by_index_from].
    assert (N : nat_mem i (map fst (select_from (S i) wh rows)) = false).
    { apply nat_mem_false. intros HI. apply in_map_iff in HI. destruct HI as [p [Ep Hp]].
      pose proof (select_from_ge _ _ _ _ Hp). lia. }
    rewrite N. apply sr_keep; [apply row_le_refl|apply IH].
Qed.

Definition selected_rows (d : db) (t : nat) (wh : option pred) : list row :=
  match get_table d t with Some tb => map snd (select_from 0 wh (t_rows tb)) | None => [] end.

(** every row that an accepted DELETE outside the known classes removed, from any table, is doomed:
    it was selected, or it referenced a doomed row through an ON DELETE CASCADE key; every other row
    is still there, with its primary key, its cells kept or set to NULL *)
Theorem delete_drops_only_doomed : forall fuel ord d t wh d' ev r,
  inv d -> ord_ok ord d -> exec_delete fuel ord d t wh = ((d', ev), r) -> ev = [] ->
  dshrink (fun x row => doomed d t (selected_rows d t wh) (t_name x) row) d d'.
Proof.
  intros fuel ord d t wh d' ev r I O E Hev. unfold selected_rows. unfold exec_delete in E.
  destruct (get_table d t) as [tb|] eqn:G.
  2:{ inversion E; subst d'. apply dshrink_refl. }
  pose proof (get_table_In _ _ _ G) as [Gin Gn].
  set (sel := map snd (select_from 0 wh (t_rows tb))) in *.
  destruct ((match wh with None => true | Some _ => false end) && negb (is_fk_referenced d t)) eqn:Efast.
  - inversion E; subst d'. apply andb_true_iff in Efast. destruct Efast as [Hw _]. destruct wh; [discriminate|].
    eapply set_rows_dshrink; [apply (inv_names _ I)|exact G|]. apply srows_nil.
    intros x Hx. rewrite Gn. apply dm_sel. unfold sel. rewrite select_from_none. exact Hx.
  - clear Efast.
    assert (SELIN : forall x, In x sel -> In x (t_rows tb)).
    { intros x Hx. unfold sel in Hx. apply in_map_iff in Hx. destruct Hx as [[i y] [Ey Hy]]. cbn in Ey. subst y.
      destruct (select_from_spec wh (t_rows tb) 0) as [F _]. rewrite Forall_forall in F.
      destruct (F _ Hy) as [_ X]. eapply nth_error_In. exact X. }
    assert (S0 : snd_inv d t sel d) by apply dshrink_refl.
    assert (EACH : match each_row (check fuel ord t) sel (d, []) with
                   | OOk w' | OErr _ w' => snd w' = [] -> snd_inv d t sel (fst w')
                   | OCrash => True end).
    { destruct (t_pk tb) as [pk|] eqn:Epk.
      - eapply (each_row_sound ord d t sel); [apply check_ok|apply check_sound; assumption|exact S0|exact G|exact Epk|].
        intros x Hx. exists tb, pk, x. repeat split; auto. apply dm_sel. exact Hx.
      - destruct (each_row_nopk ord (check fuel ord) t (check_ok ord fuel) sel (d, []) tb G Epk) as [X|X]; rewrite X;
          [intros _; exact S0|exact Logic.I]. }
    fold sel in E.
    destruct (each_row (check fuel ord t) sel (d, [])) as [[dw evw]|e [dw evw]|] eqn:E1.
    + cbn [fst snd] in *.
      destruct (get_table dw t) as [tb'|] eqn:G'.
      2:{ inversion E; subst d'. apply EACH; congruence. }
      destruct (t_pk tb') as [pk|] eqn:Epk.
      * destruct (rows_eqb (delete_by_index_from 0 (map fst (select_from 0 wh (t_rows tb))) (t_rows tb'))
                   (delete_by_key pk (map (fun p => proj pk (snd p)) (select_from 0 wh (t_rows tb))) (t_rows tb'))) eqn:Eq.
        2:{ cbn [fst snd log] in E. inversion E; subst d'. congruence. }
        cbn [fst snd] in E. inversion E; subst d'. apply rows_eqb_eq in Eq. rewrite Eq.
        assert (Hevw : evw = []) by congruence. specialize (EACH Hevw). pose proof (inv_shrinks _ _ _ I EACH) as I1.
        destruct (dshrink_get _ _ _ _ _ EACH G) as [tb2 [G2 [[_ [_ [Hp _]]] _]]].
        rewrite G' in G2. inversion G2; subst tb2.
        assert (LEG : dshrink (fun x r' => t_name x = t /\ In (proj pk r') (map (proj pk) sel)) dw
                        (set_rows dw t (delete_by_key pk (map (fun p => proj pk (snd p)) (select_from 0 wh (t_rows tb))) (t_rows tb')))).
        { eapply set_rows_dshrink; [apply (inv_names _ I1)|exact G'|]. apply srows_filter.
          intros x Hx Hf. apply negb_false_iff in Hf. apply key_mem_In in Hf. split; [apply (get_table_In _ _ _ G')|].
          unfold sel. rewrite map_map. exact Hf. }
        eapply dshrink_trans_in; [| |exact EACH|exact LEG].
        -- auto.
        -- intros t0 t1 r' r0 Ht0 Hr0 Hs [_ Hk] [Hn Hin].
           assert (t0 = tb).
           { pose proof (In_get_table _ _ (inv_names _ I) Ht0) as Gt0. destruct Hs as [Hn1 _]. rewrite <- Hn1, Hn in Gt0. congruence. }
           subst t0. rewrite <- Hp, Epk in Hk. cbn in Hk.
           apply in_map_iff in Hin. destruct Hin as [s [Es Hs']].
           assert (r0 = s).
           { eapply (NoDup_map_inj (proj pk)); [apply (inv_keys _ I tb pk Gin); congruence|exact Hr0|apply SELIN; exact Hs'|congruence]. }
           subst r0. rewrite Gn. apply dm_sel. exact Hs'.
      * cbn [fst snd] in E. inversion E; subst d'. assert (Hevw : evw = []) by congruence. specialize (EACH Hevw).
        pose proof (inv_shrinks _ _ _ I EACH) as I1.
        destruct (dshrink_get _ _ _ _ _ EACH G) as [tb2 [G2 [[_ [_ [Hp _]]] _]]].
        rewrite G' in G2. inversion G2; subst tb2.
        assert (Epk0 : t_pk tb = None) by congruence.
        destruct (each_row_nopk ord (check fuel ord) t (check_ok ord fuel) sel (d, []) tb G Epk0) as [X|X];
          rewrite X in E1; [|discriminate]. inversion E1; subst dw. rewrite G in G'. inversion G'; subst tb'.
        eapply set_rows_dshrink; [apply (inv_names _ I)|exact G|].
        eapply srows_weaken; [|apply srows_delete_selected]. intros x _ Hx. rewrite Gn. apply dm_sel. exact Hx.
    + unfold partial_mark in E. cbn [fst snd log] in *. destruct (db_rows_eqb d dw).
      * inversion E; subst d'. apply EACH; congruence.
      * inversion E; subst d'. congruence.
    + inversion E; subst d'. apply dshrink_refl.
Qed.
