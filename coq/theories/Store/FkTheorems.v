(** C12 laws, part 5: one statement, all histories. *)
From Coq Require Import List ZArith Bool Arith Lia.
From VibeSQL Require Import Store.Fk Store.FkLaws Store.FkDeleteLaws Store.FkStepLaws Store.FkUpdateLaws.
Import ListNotations.

(** a freshly created set of tables: standard schema, no rows *)
Theorem ri_init : forall d, (forall t, In t d -> t_rows t = []) -> RI d.
Proof. intros d H ct fk r Hct _ Hr _. rewrite (H ct Hct) in Hr. contradiction. Qed.

Theorem inv_init : forall d,
  NoDup (names d) -> schema_standard d = true -> pk_cols_ok d -> (forall t, In t d -> t_rows t = []) -> inv d.
Proof.
  intros d ND S P H. constructor; auto.
  - intros t r Ht Hr. rewrite (H t Ht) in Hr. contradiction.
  - intros t pk Ht _. rewrite (H t Ht). constructor.
  - intros t pk r Ht _ Hr. rewrite (H t Ht) in Hr. contradiction.
Qed.

Lemma known_class_false : forall ord s d, known_class ord s d = false ->
  schema_standard d = true /\ step_events ord d s = [] /\ step_res ord d s <> RCrash.
Proof.
  intros ord s d H. unfold known_class in H. apply orb_false_iff in H. destruct H as [H H3].
  apply orb_false_iff in H. destruct H as [H1 H2]. apply negb_false_iff in H1. apply negb_false_iff in H2.
  split; [exact H1|]. split.
  - destruct (step_events ord d s); [reflexivity|discriminate].
  - intros E. rewrite E in H3. discriminate.
Qed.

(** one statement outside the known classes keeps the invariants and referential integrity *)
Theorem step_ok : forall ord d s,
  inv d -> ord_ok ord d -> RI d -> known_class ord s d = false ->
  inv (step_db ord d s) /\ RI (step_db ord d s).
Proof.
  intros ord d s I O R K. destruct (known_class_false _ _ _ K) as [_ [EV _]].
  unfold step_db, step_events, step, step_fuel in *. destruct s as [t rs|dst src simple sel|t asg wh|t wh|t c|t|t fk].
  - destruct (exec_insert d t rs) as [[d' ev] r] eqn:E. cbn in *.
    destruct (exec_insert_ok _ _ _ _ _ _ I R E) as [_ H]. exact H.
  - destruct (exec_insert_select d dst src simple sel) as [[d' ev] r] eqn:E. cbn in *.
    eapply exec_insert_select_ok; eassumption.
  - destruct (exec_update ord d t asg wh) as [[d' ev] r] eqn:E. cbn in *.
    eapply exec_update_ok; eassumption.
  - destruct (exec_delete (default_fuel d) ord d t wh) as [[d' ev] r] eqn:E. cbn in *.
    pose proof (exec_delete_good _ _ _ _ _ _ _ _ I O E EV) as G.
    split; [eapply inv_shrinks; eassumption|eapply ri_good; eassumption].
  - destruct (exec_truncate ord d t c) as [[d' ev] r] eqn:E. cbn in *.
    destruct (exec_truncate_good _ _ _ _ _ _ _ I O E) as [_ G].
    split; [eapply inv_shrinks; eassumption|eapply ri_good; eassumption].
  - destruct (exec_drop d t) as [[d' ev] r] eqn:E. cbn in *.
    destruct (exec_drop_ok _ _ _ _ _ I R E) as [_ H]. exact H.
  - destruct (exec_add_fk d t fk) as [[d' ev] r] eqn:E. cbn in *. eapply exec_add_fk_ok; eassumption.
Qed.

Theorem ri_step : forall ord d s,
  inv d -> ord_ok ord d -> RI d -> known_class ord s d = false -> RI (step_db ord d s).
Proof. intros. eapply step_ok; eassumption. Qed.

(** a history: every statement comes with the catalog order observed before it, which must
    list every table, and must be outside the known classes at the state it is run on *)
Fixpoint hist_ok (d : db) (h : list (list nat * stmt)) : Prop :=
  match h with
  | [] => True
  | (ord, s) :: h' => ord_ok ord d /\ known_class ord s d = false /\ hist_ok (step_db ord d s) h'
  end.

Theorem ri_history : forall h d, inv d -> RI d -> hist_ok d h -> inv (run d h) /\ RI (run d h).
Proof.
  induction h as [|[ord s] h IH]; intros d I R H; cbn in *; [auto|].
  destruct H as [O [K H']]. destruct (step_ok ord d s I O R K) as [I' R']. apply IH; assumption.
Qed.

(** from the empty tables *)
Corollary ri_reachable : forall h d,
  NoDup (names d) -> schema_standard d = true -> pk_cols_ok d -> (forall t, In t d -> t_rows t = []) ->
  hist_ok d h -> RI (run d h).
Proof.
  intros h d ND S P E H. apply ri_history; [apply inv_init; assumption|apply ri_init; exact E|exact H].
Qed.

(** the executable predicate the harness's verdict is compared with agrees with RI *)
Lemma has_null_proj_false_length : forall cols r, length (proj cols r) = length cols.
Proof. intros. unfold proj. apply map_length. Qed.

Theorem ri_b_RI : forall d, inv d -> (ri_b d = true <-> RI d).
Proof.
  intros d I. unfold ri_b, fk_holds, fk_rows_ok. split.
  - intros H ct fk r Hct Hfk Hr HN. rewrite forallb_forall in H. specialize (H ct Hct).
    rewrite forallb_forall in H. specialize (H fk Hfk). rewrite forallb_forall in H. specialize (H r Hr).
    rewrite HN in H. cbn in H. destruct (get_table d (fk_parent fk)) as [pt|] eqn:G; [|discriminate].
    destruct (fk_standard_parent d ct fk (std_fk _ _ _ (inv_std _ I) Hct Hfk)) as [pt2 [G2 [_ HL]]].
    assert (HL2 : length (fk_pcols fk) = length (proj (fk_cols fk) r)) by (rewrite has_null_proj_false_length; lia).
    destruct (key_exists_In fk _ _ HL2 H) as [pr [Hin Hp]]. exists pt, pr. auto.
  - intros R. apply forallb_forall. intros ct Hct. apply forallb_forall. intros fk Hfk.
    apply forallb_forall. intros r Hr. destruct (has_null (proj (fk_cols fk) r)) eqn:HN; [reflexivity|]. cbn.
    destruct (R ct fk r Hct Hfk Hr HN) as [pt [pr [G [Hpr Ek]]]]. rewrite G.
    unfold key_exists. apply existsb_exists. exists pr. split; [exact Hpr|]. rewrite <- Ek.
    apply proj_zip_match. intros c Hc.
    destruct (fk_standard_parent d ct fk (std_fk _ _ _ (inv_std _ I) Hct Hfk)) as [pt2 [G2 [Hpk _]]].
    rewrite G in G2. inversion G2; subst pt2. pose proof (get_table_In _ _ _ G) as [Gin _].
    rewrite (inv_arity _ I pt pr Gin Hpr). apply (inv_pkcols _ I pt _ Gin Hpk). exact Hc.
Qed.
