(** C33 laws, part 3: column lookup through the cache, key extraction, building and maintaining
    index data, and the list-level operations of the storage index manager. *)
From Coq Require Import List ZArith Bool Arith Lia.
From VibeSQL Require Import Store.Catalog Store.CatalogBase Store.CatalogInv.
Import ListNotations.
Open Scope Z_scope.

(* ------------------------------------------------------------------------------------------ *)
(** * The column-index cache *)

Fixpoint last_idx (n : name) (cols : list column) : option nat :=
  match cols with
  | [] => None
  | c :: r =>
      match last_idx n r with
      | Some j => Some (S j)
      | None => if name_eqb (c_name c) n then Some O else None
      end
  end.

Lemma build_cache_from_lookup : forall cols i acc n,
  alookup n (build_cache_from i cols acc) =
  match last_idx n cols with Some j => Some (i + j)%nat | None => alookup n acc end.
Proof.
  induction cols as [|c r IH]; intros i acc n; cbn [build_cache_from last_idx]; auto.
  rewrite IH. destruct (last_idx n r) as [j|].
  - f_equal. lia.
  - rewrite alookup_ainsert. destruct (name_eqb (c_name c) n); auto; f_equal; lia.
Qed.

Lemma build_cache_lookup : forall cols n, alookup n (build_cache cols) = last_idx n cols.
Proof.
  intros. unfold build_cache. rewrite build_cache_from_lookup. destruct (last_idx n cols); auto.
Qed.

Lemma last_idx_some : forall n cols j, last_idx n cols = Some j ->
  exists c, nth_error cols j = Some c /\ c_name c = n.
Proof.
  intros n cols. induction cols as [|c r IH]; intros j H; cbn [last_idx] in H; try discriminate.
  destruct (last_idx n r) as [j'|] eqn:E.
  - inversion H; subst. cbn [nth_error]. apply IH. reflexivity.
  - name_cases (c_name c) n; try discriminate. inversion H; subst. exists c. cbn. auto.
Qed.

Lemma last_idx_in : forall n cols, In n (map c_name cols) -> exists j, last_idx n cols = Some j.
Proof.
  intros n cols. induction cols as [|c r IH]; intro H; [contradiction|]. cbn [last_idx].
  destruct (last_idx n r) as [j'|] eqn:E; [eexists; reflexivity|].
  cbn [map] in H. destruct H as [H|H].
  - subst. rewrite name_eqb_refl. eexists; reflexivity.
  - destruct (IH H) as [j Hj]. discriminate.
Qed.

Lemma nth_error_lt : forall (B : Type) (l : list B) i x, nth_error l i = Some x -> (i < length l)%nat.
Proof. intros B l i x H. apply nth_error_Some. congruence. Qed.

(** with a coherent cache an exactly named column is found, inside the column list *)
Lemma get_column_index_exact : forall sc n, cache_ok sc -> In n (col_names sc) ->
  exists i, get_column_index sc n = Some i /\ (i < length (ts_cols sc))%nat.
Proof.
  intros sc n CO HI. unfold get_column_index. rewrite CO, build_cache_lookup.
  destruct (last_idx_in _ _ HI) as [j Hj]. rewrite Hj. exists j. split; auto.
  destruct (last_idx_some _ _ _ Hj) as [c [Hc _]]. eapply nth_error_lt; eauto.
Qed.

Lemma find_col_idx_bound : forall p cols i j, find_col_idx p cols i = Some j -> (i <= j < i + length cols)%nat.
Proof.
  intros p cols. induction cols as [|c r IH]; intros i j H; cbn [find_col_idx] in H; try discriminate.
  destruct (p c).
  - inversion H; subst. cbn [length]. lia.
  - apply IH in H. cbn [length]. lia.
Qed.

(** with a coherent cache every answer of [get_column_index] is inside the column list *)
Lemma get_column_index_bound : forall sc n i, cache_ok sc -> get_column_index sc n = Some i -> (i < length (ts_cols sc))%nat.
Proof.
  intros sc n i CO H. unfold get_column_index in H. rewrite CO, build_cache_lookup in H.
  destruct (last_idx n (ts_cols sc)) as [j|] eqn:E.
  - inversion H; subst. destruct (last_idx_some _ _ _ E) as [c [Hc _]]. eapply nth_error_lt; eauto.
  - apply find_col_idx_bound in H. lia.
Qed.

Lemma get_column_index_ext : forall a b n, ts_cache a = ts_cache b -> ts_cols a = ts_cols b ->
  get_column_index a n = get_column_index b n.
Proof. intros a b n H1 H2. unfold get_column_index. rewrite H1, H2. reflexivity. Qed.

(* ------------------------------------------------------------------------------------------ *)
(** * Key extraction and index data *)

Lemma extract_key_ext : forall a b cols r, ts_cache a = ts_cache b -> ts_cols a = ts_cols b ->
  extract_key a cols r = extract_key b cols r.
Proof.
  intros a b cols r H1 H2. induction cols as [|c cs IH]; cbn [extract_key]; auto.
  rewrite (get_column_index_ext a b c H1 H2). rewrite IH. reflexivity.
Qed.

Lemma build_data_ext : forall a b cols rows i acc, ts_cache a = ts_cache b -> ts_cols a = ts_cols b ->
  build_data a cols rows i acc = build_data b cols rows i acc.
Proof.
  intros a b cols rows. induction rows as [|r rest IH]; intros i acc H1 H2; cbn [build_data]; auto.
  rewrite (extract_key_ext a b cols r H1 H2). destruct (extract_key b cols r); auto.
Qed.

Lemma extract_key_ok : forall sc cols r, cache_ok sc -> (forall c, In c cols -> In c (col_names sc)) ->
  length r = length (ts_cols sc) -> exists k, extract_key sc cols r = KOk k.
Proof.
  intros sc cols r CO. induction cols as [|c cs IH]; intros HC HW; cbn [extract_key].
  - eexists; reflexivity.
  - destruct (get_column_index_exact sc c CO (HC c (or_introl eq_refl))) as [i [Hi Hb]]. rewrite Hi.
    destruct (nth_error r i) as [v|] eqn:En.
    + destruct (IH (fun c' H' => HC c' (or_intror H')) HW) as [k Hk]. rewrite Hk. eexists; reflexivity.
    + apply nth_error_None in En. lia.
Qed.

Lemma build_data_ok : forall sc cols rows i acc, cache_ok sc -> (forall c, In c cols -> In c (col_names sc)) ->
  Forall (fun r => length r = length (ts_cols sc)) rows -> exists d, build_data sc cols rows i acc = Some d.
Proof.
  intros sc cols rows. induction rows as [|r rest IH]; intros i acc CO HC HW; cbn [build_data].
  - eexists; reflexivity.
  - inversion HW as [|? ? Hr Hrest]; subst.
    destruct (extract_key_ok sc cols r CO HC Hr) as [k Hk]. rewrite Hk. apply IH; auto.
Qed.

Lemma build_data_app : forall sc cols a b i acc,
  build_data sc cols (a ++ b) i acc =
  match build_data sc cols a i acc with
  | Some acc' => build_data sc cols b (i + length a)%nat acc'
  | None => None
  end.
Proof.
  intros sc cols a. induction a as [|r rest IH]; intros b i acc; cbn [app build_data length].
  - f_equal. lia.
  - destruct (extract_key sc cols r); auto. rewrite IH.
    destruct (build_data sc cols rest (S i) (dadd k i acc)); auto. f_equal. lia.
Qed.

(* ------------------------------------------------------------------------------------------ *)
(** * Entry-wise partial maps over the index registry *)

Fixpoint amapM (f : sindex -> option sindex) (l : list (name * sindex)) : option (list (name * sindex)) :=
  match l with
  | [] => Some []
  | (k, x) :: r =>
      match amapM f r with
      | None => None
      | Some r' => match f x with Some x' => Some ((k, x') :: r') | None => None end
      end
  end.

Lemma amapM_keys : forall f l l', amapM f l = Some l' -> akeys l' = akeys l.
Proof.
  intros f l. induction l as [|[k x] r IH]; intros l' H; cbn [amapM] in H.
  - inversion H. reflexivity.
  - destruct (amapM f r) as [r'|]; try discriminate. destruct (f x) as [x'|]; try discriminate.
    inversion H; subst. cbn [akeys map fst]. f_equal. apply IH. reflexivity.
Qed.

Lemma amapM_lookup : forall f l l' k, amapM f l = Some l' ->
  alookup k l' = match alookup k l with Some x => f x | None => None end.
Proof.
  intros f l. induction l as [|[k0 x] r IH]; intros l' k H; cbn [amapM] in H.
  - inversion H. reflexivity.
  - destruct (amapM f r) as [r'|] eqn:E; try discriminate. destruct (f x) as [x'|] eqn:Ef; try discriminate.
    inversion H; subst. cbn [alookup]. destruct (name_eqb k k0); auto.
Qed.

Lemma amapM_total : forall f l, (forall k x, In (k, x) l -> exists x', f x = Some x') -> exists l', amapM f l = Some l'.
Proof.
  intros f l. induction l as [|[k x] r IH]; intro H; cbn [amapM].
  - eexists; reflexivity.
  - destruct IH as [r' Hr]. { intros k' x' HI. eapply H. right. exact HI. }
    rewrite Hr. destruct (H k x (or_introl eq_refl)) as [x' Hx]. rewrite Hx. eexists; reflexivity.
Qed.

Lemma amapM_id_on : forall f l, (forall k x, In (k, x) l -> f x = Some x) -> amapM f l = Some l.
Proof.
  intros f l. induction l as [|[k x] r IH]; intro H; cbn [amapM]; auto.
  rewrite IH by (intros k' x' HI; eapply H; right; exact HI).
  rewrite (H k x (or_introl eq_refl)). reflexivity.
Qed.

Lemma amapM_compose : forall f g l l1, amapM f l = Some l1 ->
  amapM g l1 = amapM (fun x => match f x with Some y => g y | None => None end) l.
Proof.
  intros f g l. induction l as [|[k x] r IH]; intros l1 H; cbn [amapM] in H.
  - inversion H. reflexivity.
  - destruct (amapM f r) as [r'|] eqn:E; try discriminate. destruct (f x) as [x'|] eqn:Ef; try discriminate.
    inversion H; subst. cbn [amapM]. rewrite (IH r' eq_refl). rewrite Ef. reflexivity.
Qed.

Lemma amapM_ext : forall f g l, (forall x, f x = g x) -> amapM f l = amapM g l.
Proof.
  intros f g l H. induction l as [|[k x] r IH]; cbn [amapM]; auto. rewrite IH, H. reflexivity.
Qed.

(** [rebuild_list] entry by entry *)
Definition rebuild_entry (t : name) (sc : tschema) (rows : list row) (x : sindex) : option sindex :=
  if name_eqb (si_table x) t then
    match build_data sc (si_cols x) rows 0 [] with
    | Some d => Some (si_with_data x d)
    | None => None
    end
  else Some x.

Lemma rebuild_list_amapM : forall t sc rows l, rebuild_list t sc rows l = amapM (rebuild_entry t sc rows) l.
Proof.
  intros t sc rows l. induction l as [|[k x] r IH]; cbn [rebuild_list amapM]; auto.
  rewrite IH. destruct (amapM (rebuild_entry t sc rows) r); auto.
  unfold rebuild_entry. destruct (name_eqb (si_table x) t); auto.
  destruct (build_data sc (si_cols x) rows 0 []); auto.
Qed.

(** [add_rows_list] entry by entry: each index of the table has the new rows appended *)
Definition append_entry (t : name) (sc : tschema) (rows : list row) (i : nat) (x : sindex) : option sindex :=
  if name_eqb (si_table x) t then
    match build_data sc (si_cols x) rows i (si_data x) with
    | Some d => Some (si_with_data x d)
    | None => None
    end
  else Some x.

Lemma add_row_list_amapM : forall t sc r i l, add_row_list t sc r i l = amapM (append_entry t sc [r] i) l.
Proof.
  intros t sc r i l. induction l as [|[k x] rest IH]; cbn [add_row_list amapM]; auto.
  rewrite IH. destruct (amapM (append_entry t sc [r] i) rest); auto.
  unfold append_entry. destruct (name_eqb (si_table x) t); auto. cbn [build_data].
  destruct (extract_key sc (si_cols x) r); auto.
Qed.

Lemma append_entry_nil : forall t sc i x, append_entry t sc [] i x = Some x.
Proof.
  intros. unfold append_entry. destruct (name_eqb (si_table x) t); auto. cbn [build_data].
  destruct x; reflexivity.
Qed.

Lemma append_entry_cons : forall t sc r rest i x,
  append_entry t sc (r :: rest) i x =
  match append_entry t sc [r] i x with Some y => append_entry t sc rest (S i) y | None => None end.
Proof.
  intros. unfold append_entry. destruct (name_eqb (si_table x) t) eqn:E.
  - cbn [build_data]. destruct (extract_key sc (si_cols x) r) as [k| |]; auto.
    cbn [si_with_data si_table si_cols si_data]. rewrite E. reflexivity.
  - rewrite E. reflexivity.
Qed.

Lemma amapM_first_row_fails : forall t sc r rest i l,
  amapM (append_entry t sc [r] i) l = None -> amapM (append_entry t sc (r :: rest) i) l = None.
Proof.
  intros t sc r rest i l. induction l as [|[k x] r' IHl]; cbn [amapM]; intro E; try discriminate.
  destruct (amapM (append_entry t sc [r] i) r') as [r1|] eqn:E1.
  - destruct (append_entry t sc [r] i x) eqn:E2; try discriminate.
    rewrite append_entry_cons, E2. destruct (amapM (append_entry t sc (r :: rest) i) r'); reflexivity.
  - rewrite (IHl eq_refl). reflexivity.
Qed.

Lemma add_rows_list_amapM : forall t sc rows i l, add_rows_list t sc rows i l = amapM (append_entry t sc rows i) l.
Proof.
  intros t sc rows. induction rows as [|r rest IH]; intros i l; cbn [add_rows_list].
  - symmetry. apply amapM_id_on. intros. apply append_entry_nil.
  - rewrite add_row_list_amapM. destruct (amapM (append_entry t sc [r] i) l) as [l1|] eqn:E.
    + rewrite IH. rewrite (amapM_compose _ _ _ _ E). apply amapM_ext. intro x. symmetry. apply append_entry_cons.
    + symmetry. apply amapM_first_row_fails. exact E.
Qed.

(* ------------------------------------------------------------------------------------------ *)
(** * The unique-index probes *)

Lemma probe_no_panic : forall sel me sc rows l,
  (forall k x r, In (k, x) l -> In r rows -> sel x = true ->
     match extract_key sc (si_cols x) r with KOk _ => True | KMissing => me = true | KOob => False end) ->
  fst (probe sel me sc rows l) = false.
Proof.
  intros sel me sc rows l H. unfold probe.
  assert (G : forall rows0 acc, (forall r, In r rows0 -> In r rows) -> fst acc = false ->
     fst (fold_left (fun acc r => fold_left (fun acc2 p => let '(pn, er) := probe_row sel me sc r (snd p) in (fst acc2 || pn, snd acc2 || er)) l acc) rows0 acc) = false).
  { induction rows0 as [|r rest IH]; intros acc Hsub Hacc; cbn [fold_left]; auto.
    apply IH; [intros r' Hr'; apply Hsub; right; exact Hr'|].
    assert (Hr : In r rows) by (apply Hsub; left; reflexivity).
    assert (G2 : forall l0 acc2, (forall k x, In (k, x) l0 -> In (k, x) l) -> fst acc2 = false ->
       fst (fold_left (fun acc2 p => let '(pn, er) := probe_row sel me sc r (snd p) in (fst acc2 || pn, snd acc2 || er)) l0 acc2) = false).
    { induction l0 as [|[k x] l1 IH2]; intros acc2 Hs Ha; cbn [fold_left]; auto.
      apply IH2; [intros k' x' HI; apply Hs; right; exact HI|].
      cbn [snd]. unfold probe_row.
      destruct (sel x) eqn:Es.
      - pose proof (H k x r (Hs k x (or_introl eq_refl)) Hr Es) as Hk.
        destruct (extract_key sc (si_cols x) r); cbn [fst].
        + rewrite Ha. reflexivity.
        + rewrite Hk. cbn [fst]. rewrite Ha. reflexivity.
        + contradiction.
      - cbn [fst]. rewrite Ha. reflexivity. }
    apply G2; auto. }
  apply G; auto.
Qed.

(** with a coherent cache and a full-width row the only way key extraction fails is a missing column *)
Lemma extract_key_no_oob : forall sc cols r, cache_ok sc -> length r = length (ts_cols sc) -> extract_key sc cols r <> KOob.
Proof.
  intros sc cols r CO HW. induction cols as [|c cs IH]; cbn [extract_key]; [discriminate|].
  destruct (get_column_index sc c) as [i|] eqn:Ei; [|discriminate].
  pose proof (get_column_index_bound sc c i CO Ei) as Hb.
  destruct (nth_error r i) as [v|] eqn:En.
  - destruct (extract_key sc cs r); try discriminate. contradiction.
  - apply nth_error_None in En. lia.
Qed.

(** the uniqueness scan of CREATE UNIQUE INDEX does not panic on full-width rows of existing columns *)
Lemma unique_scan_no_panic : forall sc cols rows seen, cache_ok sc -> (forall c, In c cols -> In c (col_names sc)) ->
  Forall (fun r => length r = length (ts_cols sc)) rows -> unique_scan sc cols rows seen <> UPanic.
Proof.
  intros sc cols rows. induction rows as [|r rest IH]; intros seen CO HC HW; cbn [unique_scan]; [discriminate|].
  inversion HW as [|? ? Hr Hrest]; subst.
  destruct (extract_key_ok sc cols r CO HC Hr) as [k Hk]. rewrite Hk.
  destruct (key_has_null k); [apply IH; auto|].
  destruct (existsb (key_eqb k) seen); [discriminate | apply IH; auto].
Qed.

(* ------------------------------------------------------------------------------------------ *)
(** * What the entries of an index say: for every key, exactly the positions of the rows carrying it *)

Lemma key_eqb_eq : forall a b, key_eqb a b = true <-> a = b.
Proof.
  induction a as [|x a IH]; destruct b as [|y b]; cbn [key_eqb]; split; intro H; try discriminate; auto.
  - apply andb_true_iff in H. destruct H as [H1 H2]. apply IH in H2. subst.
    destruct x as [u|], y as [v|]; try discriminate; auto. apply Z.eqb_eq in H1. subst. reflexivity.
  - inversion H; subst. apply andb_true_iff. split; [|apply IH; reflexivity].
    destruct y; auto. apply Z.eqb_refl.
Qed.

Lemma key_eqb_refl : forall a, key_eqb a a = true.
Proof. intro a. apply key_eqb_eq. reflexivity. Qed.

Definition dget (k : list value) (d : idata) : list nat := match dlookup k d with Some l => l | None => [] end.

Lemma dget_dadd : forall key k i d, dget key (dadd k i d) = if key_eqb key k then dget key d ++ [i] else dget key d.
Proof.
  intros key k i d. unfold dget. induction d as [|[k' l] r IH]; cbn [dadd dlookup].
  - destruct (key_eqb key k); reflexivity.
  - destruct (key_eqb k k') eqn:E1.
    + apply key_eqb_eq in E1. subst k'. cbn [dlookup]. destruct (key_eqb key k); reflexivity.
    + cbn [dlookup]. destruct (key_eqb key k') eqn:E2.
      * apply key_eqb_eq in E2. subst k'. destruct (key_eqb key k) eqn:E3; auto.
        apply key_eqb_eq in E3. subst k. rewrite key_eqb_refl in E1. discriminate.
      * exact IH.
Qed.

(** positions (counted from [i]) of the rows whose extracted key is [key] *)
Fixpoint matching_positions (sc : tschema) (cols : list name) (key : list value) (rows : list row) (i : nat) : list nat :=
  match rows with
  | [] => []
  | r :: rest =>
      (match extract_key sc cols r with
       | KOk k => if key_eqb key k then [i] else []
       | _ => []
       end) ++ matching_positions sc cols key rest (S i)
  end.

Lemma build_data_dget : forall sc cols key rows i acc d, build_data sc cols rows i acc = Some d ->
  dget key d = dget key acc ++ matching_positions sc cols key rows i.
Proof.
  intros sc cols key rows. induction rows as [|r rest IH]; intros i acc d H; cbn [build_data matching_positions] in *.
  - inversion H; subst. rewrite app_nil_r. reflexivity.
  - destruct (extract_key sc cols r) as [k| |]; try discriminate.
    rewrite (IH _ _ _ H). rewrite dget_dadd. destruct (key_eqb key k); [rewrite <- app_assoc|]; reflexivity.
Qed.
