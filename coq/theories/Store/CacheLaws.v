(** * Store/CacheLaws.v — laws of the query result cache model (Store/Cache.v).

    - the map laws of [lookup]/[put]/[remove]/[invalidate_table] and the invariant "at most one binding
      per key";
    - capacity: [size <= cap] in every reachable state, for every capacity a [usize] can hold
      ([insert_size_le_cap], [run_size_bound]); a cache of capacity 0 stores nothing
      ([capacity_zero_holds_nothing]; before the repair of query_result_cache.rs it held one entry);
    - no foreign result: what [get] returns for a key after an [insert] is either the value just
      inserted under that very key or what [get] returned before ([get_insert_inv]); after an
      [invalidate_table] it is what it returned before, and the entry does not mention the table;
    - transparency of the adapter protocol ([run_transparent]): under H1 (equal signatures imply equal
      results on every database) and H2 (a statement leaves the result of a query unchanged unless the
      protocol invalidates the query's entry for it), a cached run returns, statement by statement,
      exactly what the uncached run returns -- for every history, every capacity and every choice of
      eviction victims. *)
From Coq Require Import List ZArith Bool Lia.
From VibeSQL Require Import Lex.Normalize Store.Cache.
Import ListNotations.
Open Scope Z_scope.

Section CacheLaws.
  Variable K : Type.
  Variable keqb : K -> K -> bool.
  Hypothesis keqb_spec : forall a b, keqb a b = true <-> a = b.
  Variable R : Type.

  Notation cache := (cache K R).
  Notation entry := (entry R).
  Notation lookup := (lookup K keqb R).
  Notation get := (get K keqb R).
  Notation contains := (contains K keqb R).
  Notation remove := (remove K keqb R).
  Notation put := (put K keqb R).
  Notation insert := (insert K keqb R).
  Notation invalidate_table := (invalidate_table K R).
  Notation size := (size K R).
  Notation keys := (keys K R).
  Notation mentions := (mentions R).

  Lemma keqb_refl : forall a, keqb a a = true.
  Proof. intro a. apply keqb_spec. reflexivity. Qed.

  Lemma keqb_neq : forall a b, a <> b -> keqb a b = false.
  Proof.
    intros a b Hne. destruct (keqb a b) eqn:E; [|reflexivity].
    apply keqb_spec in E. contradiction.
  Qed.

  Lemma keqb_false_neq : forall a b, keqb a b = false -> a <> b.
  Proof. intros a b E Heq. subst. rewrite keqb_refl in E. discriminate. Qed.

  (** ** lookup / remove / put *)
  Lemma lookup_in : forall c k e, lookup c k = Some e -> In (k, e) c.
  Proof.
    induction c as [|[k' e'] c IH]; intros k e H; cbn in H; [discriminate|].
    destruct (keqb k' k) eqn:E.
    - apply keqb_spec in E. inversion H. subst. left. reflexivity.
    - right. apply IH. exact H.
  Qed.

  Lemma lookup_none_notin : forall c k, lookup c k = None -> ~ In k (keys c).
  Proof.
    induction c as [|[k' e'] c IH]; intros k H Hin; cbn in *; [contradiction|].
    destruct (keqb k' k) eqn:E; [discriminate|].
    destruct Hin as [Heq|Hin].
    - subst. rewrite keqb_refl in E. discriminate.
    - exact (IH k H Hin).
  Qed.

  Lemma in_nodup_lookup : forall c k e, NoDup (keys c) -> In (k, e) c -> lookup c k = Some e.
  Proof.
    induction c as [|[k' e'] c IH]; intros k e Hnd Hin; cbn in *; [contradiction|].
    inversion Hnd as [|? ? Hnotin Hnd']. subst.
    destruct Hin as [Heq|Hin].
    - inversion Heq. subst. rewrite keqb_refl. reflexivity.
    - destruct (keqb k' k) eqn:E.
      + apply keqb_spec in E. subst. exfalso. apply Hnotin.
        change (In (fst (k, e)) (map fst c)). apply in_map. exact Hin.
      + apply IH; assumption.
  Qed.

  Lemma lookup_remove_same : forall c k, lookup (remove k c) k = None.
  Proof.
    induction c as [|[k' e'] c IH]; intro k; cbn; [reflexivity|].
    destruct (keqb k' k) eqn:E; cbn.
    - apply IH.
    - rewrite E. apply IH.
  Qed.

  Lemma lookup_remove_other : forall c k k', k' <> k -> lookup (remove k c) k' = lookup c k'.
  Proof.
    induction c as [|[k0 e0] c IH]; intros k k' Hne; cbn; [reflexivity|].
    destruct (keqb k0 k) eqn:E; cbn.
    - apply keqb_spec in E. subst. rewrite (keqb_neq k k') by congruence. apply IH. exact Hne.
    - destruct (keqb k0 k'); [reflexivity|]. apply IH. exact Hne.
  Qed.

  Lemma lookup_put_same : forall c k e, lookup (put c k e) k = Some e.
  Proof. intros. unfold Cache.put. cbn. rewrite keqb_refl. reflexivity. Qed.

  Lemma lookup_put_other : forall c k e k', k' <> k -> lookup (put c k e) k' = lookup c k'.
  Proof.
    intros c k e k' Hne. unfold Cache.put. cbn.
    rewrite (keqb_neq k k') by congruence. apply lookup_remove_other. exact Hne.
  Qed.

  Lemma keys_filter_incl : forall (f : K * entry -> bool) c k, In k (keys (filter f c)) -> In k (keys c).
  Proof.
    intros f c k H. unfold Cache.keys in *. apply in_map_iff in H. destruct H as [p [Hp Hin]].
    apply filter_In in Hin. destruct Hin as [Hin _]. apply in_map_iff. exists p. split; assumption.
  Qed.

  Lemma nodup_filter : forall (f : K * entry -> bool) c, NoDup (keys c) -> NoDup (keys (filter f c)).
  Proof.
    intros f. induction c as [|[k e] c IH]; intro Hnd; cbn; [constructor|].
    inversion Hnd as [|? ? Hnotin Hnd']. subst.
    destruct (f (k, e)); cbn.
    - constructor.
      + intro Hin. apply Hnotin. exact (keys_filter_incl f c k Hin).
      + apply IH. exact Hnd'.
    - apply IH. exact Hnd'.
  Qed.

  Lemma nodup_remove : forall c k, NoDup (keys c) -> NoDup (keys (remove k c)).
  Proof. intros. apply nodup_filter. assumption. Qed.

  Lemma nodup_put : forall c k e, NoDup (keys c) -> NoDup (keys (put c k e)).
  Proof.
    intros c k e Hnd. unfold Cache.put. cbn. constructor.
    - intro Hin. assert (Hl : lookup (remove k c) k = None) by apply lookup_remove_same.
      exact (lookup_none_notin _ _ Hl Hin).
    - apply nodup_remove. exact Hnd.
  Qed.

  Lemma nodup_invalidate : forall c t, NoDup (keys c) -> NoDup (keys (invalidate_table c t)).
  Proof. intros. apply nodup_filter. assumption. Qed.

  Lemma length_filter_le : forall (f : K * entry -> bool) c, (length (filter f c) <= length c)%nat.
  Proof. intros f. induction c as [|p c IH]; cbn; [lia|]. destruct (f p); cbn; lia. Qed.

  Lemma length_remove_contains : forall c k, contains c k = true -> (S (length (remove k c)) <= length c)%nat.
  Proof.
    induction c as [|[k' e'] c IH]; intros k H; unfold Cache.contains in H; cbn in H; [discriminate|].
    unfold Cache.remove. cbn [filter fst]. destruct (keqb k' k) eqn:E; cbn [negb length].
    - pose proof (length_filter_le (fun p => negb (keqb (fst p) k)) c). lia.
    - specialize (IH k). unfold Cache.contains, Cache.remove in IH. apply IH in H. lia.
  Qed.

  Lemma length_put_le : forall c k e, (length (put c k e) <= S (length c))%nat.
  Proof.
    intros. unfold Cache.put. cbn.
    pose proof (length_filter_le (fun p => negb (keqb (fst p) k)) c). unfold Cache.remove. lia.
  Qed.

  (** ** The three ways an [insert] can go *)
  Lemma insert_cases : forall cap c k e v c',
    insert cap c k e v = Some c' ->
    (cap = 0 /\ v = None /\ c' = c) \/
    (cap <> 0 /\ v = None /\ c' = put c k e /\ (size c < cap \/ c = [])) \/
    (cap <> 0 /\ exists v', v = Some v' /\ contains c v' = true /\ cap <= size c /\ c' = put (remove v' c) k e).
  Proof.
    intros cap c k e v c' H. unfold Cache.insert in H.
    destruct (cap =? 0) eqn:Ez.
    - apply Z.eqb_eq in Ez. destruct v; [discriminate|]. inversion H. left. repeat split; assumption.
    - apply Z.eqb_neq in Ez. right.
      destruct (cap <=? size c) eqn:Ecap.
      + apply Z.leb_le in Ecap. destruct v as [v|].
        * destruct (contains c v) eqn:Ec; [|discriminate]. inversion H. right. split; [exact Ez|].
          exists v. repeat split; assumption.
        * destruct c as [|p c0]; cbn in H; [|discriminate]. inversion H. left. repeat split; try assumption.
          right. reflexivity.
      + apply Z.leb_gt in Ecap. destruct v; [discriminate|]. inversion H. left. repeat split; try assumption.
        left. exact Ecap.
  Qed.

  (** ** Capacity *)
  Lemma insert_nodup : forall cap c k e v c',
    NoDup (keys c) -> insert cap c k e v = Some c' -> NoDup (keys c').
  Proof.
    intros cap c k e v c' Hnd H. apply insert_cases in H.
    destruct H as [[_ [_ Hc]]|[[_ [_ [Hc _]]]|[_ [v' [_ [_ [_ Hc]]]]]]]; subst c'.
    - exact Hnd.
    - apply nodup_put. exact Hnd.
    - apply nodup_put. apply nodup_remove. exact Hnd.
  Qed.

  (** the size never exceeds the capacity, for every capacity a [usize] can hold *)
  Theorem insert_size_le_cap : forall cap c k e v c',
    0 <= cap -> insert cap c k e v = Some c' -> size c <= cap -> size c' <= cap.
  Proof.
    intros cap c k e v c' Hcap H Hb. apply insert_cases in H. unfold Cache.size in *.
    destruct H as [[_ [_ Hc]]|[[Hnz [_ [Hc Hlt]]]|[Hnz [v' [_ [Hcon [_ Hc]]]]]]]; subst c'.
    - exact Hb.
    - pose proof (length_put_le c k e) as H2. destruct Hlt as [Hlt|Hnil].
      + lia.
      + subst c. cbn. lia.
    - pose proof (length_remove_contains _ _ Hcon) as H1.
      pose proof (length_put_le (remove v' c) k e) as H2. lia.
  Qed.

  (** a cache of capacity 0 stores nothing and evicts nothing *)
  Theorem capacity_zero_holds_nothing : forall c k e v c',
    insert 0 c k e v = Some c' -> c' = c /\ v = None.
  Proof.
    intros c k e v c' H. apply insert_cases in H.
    destruct H as [[_ [Hv Hc]]|[[Hnz _]|[Hnz _]]]; [split; assumption|contradiction|contradiction].
  Qed.

  Lemma invalidate_size_le : forall c t, size (invalidate_table c t) <= size c.
  Proof.
    intros. unfold Cache.size, Cache.invalidate_table.
    pose proof (length_filter_le (fun p => negb (mentions (snd p) t)) c). lia.
  Qed.

  (** an eviction happens exactly when the capacity is not 0, the map is at capacity and not empty *)
  Theorem insert_evicts_iff : forall cap c k e v c',
    insert cap c k e v = Some c' -> (v <> None <-> (cap <> 0 /\ cap <= size c /\ c <> [])).
  Proof.
    intros cap c k e v c' H. apply insert_cases in H.
    destruct H as [[Hz [Hv _]]|[[Hnz [Hv [_ Hlt]]]|[Hnz [v' [Hv [Hcon [Hcap _]]]]]]]; subst v.
    - split; [intro Hc; contradiction|]. intros [Hc _]. contradiction.
    - split; [intro Hc; contradiction|]. intros [_ [Hc Hne]]. destruct Hlt as [Hlt|Hnil]; [lia|contradiction].
    - split; [|intros _; discriminate]. intros _. split; [exact Hnz|]. split; [exact Hcap|].
      intro Hnil. subst c. unfold Cache.contains in Hcon. cbn in Hcon. discriminate.
  Qed.

  (** ** No foreign result *)
  Theorem lookup_insert_same : forall cap c k e v c',
    cap <> 0 -> insert cap c k e v = Some c' -> lookup c' k = Some e.
  Proof.
    intros cap c k e v c' Hnz H. apply insert_cases in H.
    destruct H as [[Hz _]|[[_ [_ [Hc _]]]|[_ [v' [_ [_ [_ Hc]]]]]]]; [contradiction| |]; subst c'; apply lookup_put_same.
  Qed.

  (** what [insert] leaves of the old map: exactly the bindings other than [k] and the victim *)
  Theorem lookup_insert_other : forall cap c k e v c' k',
    insert cap c k e v = Some c' -> k' <> k ->
    lookup c' k' = if match v with Some x => keqb x k' | None => false end then None else lookup c k'.
  Proof.
    intros cap c k e v c' k' H Hk. apply insert_cases in H.
    destruct H as [[_ [Hv Hc]]|[[_ [Hv [Hc _]]]|[_ [v' [Hv [_ [_ Hc]]]]]]]; subst c' v.
    - reflexivity.
    - apply lookup_put_other. exact Hk.
    - rewrite lookup_put_other by exact Hk. destruct (keqb v' k') eqn:E.
      + apply keqb_spec in E. subst. apply lookup_remove_same.
      + apply lookup_remove_other. apply keqb_false_neq in E. congruence.
  Qed.

  Theorem get_insert_same : forall cap c k e v c',
    cap <> 0 -> insert cap c k e v = Some c' -> get c' k = Some (e_rows e).
  Proof.
    intros cap c k e v c' Hnz H. unfold Cache.get. rewrite (lookup_insert_same _ _ _ _ _ _ Hnz H). reflexivity.
  Qed.

  (** what [get] returns after an insert under [k]: the rows just inserted, under [k] itself (capacity
      not 0), or exactly what it returned before (another key, or capacity 0 where nothing is stored) *)
  Theorem get_insert_inv : forall cap c k e v c' k' r,
    insert cap c k e v = Some c' -> get c' k' = Some r ->
    (cap <> 0 /\ k' = k /\ r = e_rows e) \/ ((k' <> k \/ cap = 0) /\ get c k' = Some r).
  Proof.
    intros cap c k e v c' k' r H Hg. unfold Cache.get in *.
    destruct (Z.eq_dec cap 0) as [Hz|Hnz].
    - subst cap. destruct (capacity_zero_holds_nothing _ _ _ _ _ H) as [Hc _]. subst c'.
      right. split; [right; reflexivity|exact Hg].
    - destruct (keqb k' k) eqn:E.
      + apply keqb_spec in E. subst. rewrite (lookup_insert_same _ _ _ _ _ _ Hnz H) in Hg. cbn in Hg.
        inversion Hg. left. repeat split. exact Hnz.
      + apply keqb_false_neq in E. right. split; [left; exact E|].
        rewrite (lookup_insert_other _ _ _ _ _ _ _ H E) in Hg.
        destruct (match v with Some x => keqb x k' | None => false end); [discriminate|exact Hg].
  Qed.

  Lemma lookup_filter : forall (f : K * entry -> bool) c k e,
    NoDup (keys c) -> lookup (filter f c) k = Some e -> lookup c k = Some e /\ f (k, e) = true.
  Proof.
    intros f c k e Hnd H. apply lookup_in in H. apply filter_In in H. destruct H as [Hin Hf].
    split; [apply in_nodup_lookup; assumption|exact Hf].
  Qed.

  Lemma lookup_filter_keep : forall (f : K * entry -> bool) c k e,
    NoDup (keys c) -> lookup c k = Some e -> f (k, e) = true -> lookup (filter f c) k = Some e.
  Proof.
    intros f c k e Hnd H Hf. apply in_nodup_lookup.
    - apply nodup_filter. exact Hnd.
    - apply filter_In. split; [apply lookup_in; exact H|exact Hf].
  Qed.

  Theorem lookup_invalidate_inv : forall c t k e,
    NoDup (keys c) -> lookup (invalidate_table c t) k = Some e ->
    lookup c k = Some e /\ mentions e t = false.
  Proof.
    intros c t k e Hnd H. unfold Cache.invalidate_table in H.
    apply lookup_filter in H; [|exact Hnd]. destruct H as [Hl Hf]. cbn in Hf.
    split; [exact Hl|]. destruct (mentions e t); [discriminate|reflexivity].
  Qed.

  Theorem lookup_invalidate_keep : forall c t k e,
    NoDup (keys c) -> lookup c k = Some e -> mentions e t = false ->
    lookup (invalidate_table c t) k = Some e.
  Proof.
    intros c t k e Hnd H Hm. unfold Cache.invalidate_table.
    apply lookup_filter_keep; [exact Hnd|exact H|]. cbn. rewrite Hm. reflexivity.
  Qed.

  (** after [invalidate_table t] no entry mentions a name equal to [t] up to ASCII case *)
  Theorem invalidate_complete : forall c t k e,
    In (k, e) (invalidate_table c t) -> forall t', In t' (e_tables e) -> ci_eqb t' t = false.
  Proof.
    intros c t k e Hin t' Ht'. unfold Cache.invalidate_table in Hin. apply filter_In in Hin.
    destruct Hin as [_ Hf]. cbn in Hf. unfold Cache.mentions in Hf.
    destruct (existsb (fun t'0 => ci_eqb t'0 t) (e_tables e)) eqn:E; [discriminate|].
    destruct (ci_eqb t' t) eqn:E2; [|reflexivity].
    assert (existsb (fun t'0 => ci_eqb t'0 t) (e_tables e) = true).
    { apply existsb_exists. exists t'. split; assumption. }
    congruence.
  Qed.

  (** ** The adapter protocol is transparent *)
  Section Transparency.
    Variable db : Type.
    Variable query : Type.
    Variable stmt : Type.
    Variable exec : db -> query -> option R.
    Variable apply : db -> stmt -> db.
    Variable sig : query -> K.
    Variable extract : query -> list tname.
    Variable inval : stmt -> option tname.
    Variable cap : Z.
    (** the queries that occur in the history under consideration *)
    Variable dom : query -> Prop.

    Notation op := (op query stmt).
    Notation step := (step K keqb R db query stmt exec apply sig extract inval cap).
    Notation run := (run K keqb R db query stmt exec apply sig extract inval cap).
    Notation run_plain := (run_plain R db query stmt exec apply).

    (** does the protocol leave the entry of [q] alone when it processes [s]? *)
    Definition untouched (s : stmt) (q : query) : bool :=
      match inval s with
      | Some t => forallb (fun t' => negb (ci_eqb t' t)) (extract q)
      | None => true
      end.

    (** H1: two queries with the same signature have the same result on every database *)
    Hypothesis H1 : forall q1 q2, dom q1 -> dom q2 -> sig q1 = sig q2 -> forall d, exec d q1 = exec d q2.
    (** H2: a statement changes the (successful) result of a query only if the protocol invalidates for it *)
    Hypothesis H2 : forall d s q r, dom q -> exec d q = Some r -> untouched s q = true ->
                                    exec (apply d s) q = Some r.

    (** the invariant: every entry is the current result of a query with that signature and those tables *)
    Definition good (d : db) (c : cache) : Prop :=
      NoDup (keys c) /\
      forall k e, lookup c k = Some e ->
        exists q, dom q /\ sig q = k /\ e_tables e = extract q /\ exec d q = Some (e_rows e).

    Lemma good_empty : forall d, good d [].
    Proof. intro d. split; [constructor|]. intros k e H. cbn in H. discriminate. Qed.

    Definition op_dom (o : op) : Prop := match o with Read q => dom q | Write _ => True end.

    Lemma mentions_untouched : forall (e : entry) s q t,
      e_tables e = extract q -> inval s = Some t -> mentions e t = false -> untouched s q = true.
    Proof.
      intros e s q t Ht Hi Hm. unfold untouched. rewrite Hi. rewrite <- Ht.
      unfold Cache.mentions in Hm. apply forallb_forall. intros t' Hin.
      destruct (ci_eqb t' t) eqn:E; [|reflexivity].
      assert (existsb (fun t'0 => ci_eqb t'0 t) (e_tables e) = true).
      { apply existsb_exists. exists t'. split; assumption. }
      congruence.
    Qed.

    Lemma step_sound : forall d c o v d' c' ob,
      good d c -> op_dom o -> step (d, c) o v = Some ((d', c'), ob) ->
      good d' c' /\
      match o with
      | Read q => d' = d /\ returned R ob = exec d q
      | Write s => d' = apply d s /\ returned R ob = None
      end.
    Proof.
      intros d c o v d' c' ob [Hnd Hgood] Hdom H. destruct o as [q|s]; cbn in H.
      - (* Read *)
        cbn in Hdom. unfold Cache.get in H. destruct (lookup c (sig q)) as [e|] eqn:El; cbn in H.
        + (* hit *)
          injection H as <- <- <-. split; [split; assumption|]. split; [reflexivity|]. cbn.
          destruct (Hgood _ _ El) as [q0 [Hd0 [Hs0 [_ Hx0]]]].
          rewrite (H1 q q0 Hdom Hd0 (eq_sym Hs0) d). symmetry. exact Hx0.
        + destruct (exec d q) as [r|] eqn:Ex.
          * destruct (insert cap c (sig q) (mkEntry r (extract q)) v) as [c1|] eqn:Ei; [|discriminate].
            injection H as <- <- <-. split.
            -- split; [exact (insert_nodup _ _ _ _ _ _ Hnd Ei)|].
               intros k e Hl.
               destruct (Z.eq_dec cap 0) as [Hz|Hnz].
               { (* capacity 0: nothing was stored *)
                 rewrite Hz in Ei. destruct (capacity_zero_holds_nothing _ _ _ _ _ Ei) as [Hc _].
                 subst c1. exact (Hgood _ _ Hl). }
               destruct (keqb k (sig q)) eqn:Ek.
               ++ apply keqb_spec in Ek. subst k.
                  rewrite (lookup_insert_same _ _ _ _ _ _ Hnz Ei) in Hl. inversion Hl. subst e.
                  exists q. cbn. repeat split; try assumption; reflexivity.
               ++ apply keqb_false_neq in Ek.
                  rewrite (lookup_insert_other _ _ _ _ _ _ _ Ei Ek) in Hl.
                  destruct (match v with Some x => keqb x k | None => false end); [discriminate|].
                  exact (Hgood _ _ Hl).
            -- split; [reflexivity|]. cbn. reflexivity.
          * injection H as <- <- <-. split; [split; assumption|]. split; [reflexivity|]. cbn. reflexivity.
      - (* Write *)
        injection H as <- <- <-. split; [|split; reflexivity].
        destruct (inval s) as [t|] eqn:Ei.
        + split; [apply nodup_invalidate; exact Hnd|].
          intros k e Hl. apply lookup_invalidate_inv in Hl; [|exact Hnd]. destruct Hl as [Hl Hm].
          destruct (Hgood _ _ Hl) as [q [Hd [Hs [Ht Hx]]]].
          exists q. repeat split; try assumption.
          apply H2; [exact Hd|exact Hx|]. exact (mentions_untouched e s q t Ht Ei Hm).
        + split; [exact Hnd|].
          intros k e Hl. destruct (Hgood _ _ Hl) as [q [Hd [Hs [Ht Hx]]]].
          exists q. repeat split; try assumption.
          apply H2; [exact Hd|exact Hx|]. unfold untouched. rewrite Ei. reflexivity.
    Qed.

    Theorem run_transparent_from : forall ops d c d' c' obs,
      good d c -> Forall op_dom (map fst ops) ->
      run (d, c) ops = Some ((d', c'), obs) ->
      good d' c' /\ run_plain d (map fst ops) = (d', map (returned R) obs).
    Proof.
      induction ops as [|[o v] ops IH]; intros d c d' c' obs Hg Hdom H; cbn [Cache.run] in H.
      - injection H as <- <- <-. split; [exact Hg|reflexivity].
      - cbn in Hdom. inversion Hdom as [|? ? Hd1 Hd2]. subst.
        destruct (step (d, c) o v) as [[[d1 c1] ob]|] eqn:Es; [|discriminate].
        destruct (run (d1, c1) ops) as [[[d2 c2] obs']|] eqn:Er; [|discriminate].
        injection H as <- <- <-.
        destruct (step_sound _ _ _ _ _ _ _ Hg Hd1 Es) as [Hg1 Hob].
        destruct (IH _ _ _ _ _ Hg1 Hd2 Er) as [Hg2 Hpl].
        split; [exact Hg2|]. cbn [map fst].
        destruct o as [q|s]; destruct Hob as [Hdd Hret]; subst d1; cbn [Cache.run_plain].
        + rewrite Hpl. cbn [map]. rewrite Hret. reflexivity.
        + rewrite Hpl. cbn [map]. rewrite Hret. reflexivity.
    Qed.

    (** the statement of the property: starting from an empty cache, for every history, capacity and
        eviction choices, the cached run ends in the same database and returns for every statement
        exactly what the uncached run returns; in particular every hit returns [exec current_db q] *)
    Theorem run_transparent : forall ops d d' c' obs,
      Forall op_dom (map fst ops) ->
      run (d, []) ops = Some ((d', c'), obs) ->
      run_plain d (map fst ops) = (d', map (returned R) obs).
    Proof.
      intros ops d d' c' obs Hdom H.
      exact (proj2 (run_transparent_from ops d [] d' c' obs (good_empty d) Hdom H)).
    Qed.

    (** the statement in the words of the property: in every state reachable from the empty cache, a
        hit for [q] returns exactly what executing [q] on the current database returns *)
    Theorem reachable_hit_current : forall ops d d' c' obs q v st'' r,
      Forall op_dom (map fst ops) ->
      run (d, []) ops = Some ((d', c'), obs) ->
      dom q -> step (d', c') (Read q) v = Some (st'', Hit r) ->
      exec d' q = Some r.
    Proof.
      intros ops d d' c' obs q v st'' r Hdom Hrun Hq Hstep.
      destruct (run_transparent_from ops d [] d' c' obs (good_empty d) Hdom Hrun) as [Hg _].
      destruct st'' as [d2 c2].
      destruct (step_sound d' c' (Read q) v d2 c2 (Hit r) Hg Hq Hstep) as [_ [_ Hret]].
      cbn in Hret. symmetry. exact Hret.
    Qed.

    (** reachable states respect the capacity *)
    Theorem run_size_bound : forall ops d c d' c' obs,
      0 <= cap -> size c <= cap -> run (d, c) ops = Some ((d', c'), obs) -> size c' <= cap.
    Proof.
      induction ops as [|[o v] ops IH]; intros d c d' c' obs Hcap Hs H; cbn [Cache.run] in H.
      - injection H as <- <- <-. exact Hs.
      - destruct (step (d, c) o v) as [[[d1 c1] ob]|] eqn:Es; [|discriminate].
        destruct (run (d1, c1) ops) as [[[d2 c2] obs']|] eqn:Er; [|discriminate].
        injection H as <- <- <-. refine (IH _ _ _ _ _ Hcap _ Er). clear IH Er.
        destruct o as [q|s]; cbn in Es.
        + destruct (get c (sig q)); [injection Es as <- <- <-; exact Hs|].
          destruct (exec d q) as [r|]; [|injection Es as <- <- <-; exact Hs].
          destruct (insert cap c (sig q) (mkEntry r (extract q)) v) as [c1'|] eqn:Ei; [|discriminate].
          injection Es as <- <- <-. exact (insert_size_le_cap _ _ _ _ _ _ Hcap Ei Hs).
        + injection Es as <- <- <-. destruct (inval s) as [t|]; [|exact Hs].
          pose proof (invalidate_size_le c t). lia.
    Qed.

    (** a miss that executes successfully is followed by a hit on any query with the same signature
        (for every capacity other than 0, where nothing is stored) *)
    Theorem hit_after_miss : forall d c q v st' r q',
      cap <> 0 ->
      step (d, c) (Read q) v = Some (st', Miss (Some r)) -> sig q' = sig q ->
      forall v', step st' (Read q') v' = Some (st', Hit r).
    Proof.
      intros d c q v st' r q' Hnz H Hs v'. cbn in H.
      destruct (get c (sig q)); [discriminate|].
      destruct (exec d q) as [r0|]; [|discriminate].
      destruct (insert cap c (sig q) (mkEntry r0 (extract q)) v) as [c1|] eqn:Ei; [|discriminate].
      inversion H. subst. cbn. rewrite Hs. rewrite (get_insert_same _ _ _ _ _ _ Hnz Ei). reflexivity.
    Qed.
  End Transparency.
End CacheLaws.

(** ** Capacity 0, concretely: the insert that used to leave one entry now leaves none
    (the former [size_le_cap_refuted] witness, turned positive by the repair of query_result_cache.rs) *)
Example capacity_zero_example :
  insert Z Z.eqb Z 0 [] 7 (mkEntry 1 []) None = Some [] /\
  insert Z Z.eqb Z 0 [] 7 (mkEntry 1 []) (Some 7) = None.
Proof. split; reflexivity. Qed.

(** ** Examples: the hypotheses of the laws are satisfiable by non-trivial inputs *)
Example insert_at_capacity_example :
  insert Z Z.eqb Z 2 [(1, mkEntry 10 [[116]]); (2, mkEntry 20 [[117]])] 3 (mkEntry 30 [[116]]) (Some 2)
  = Some [(3, mkEntry 30 [[116]]); (1, mkEntry 10 [[116]])].
Proof. reflexivity. Qed.

Example invalidate_example :
  invalidate_table Z Z [(3, mkEntry 30 [[116; 49]]); (1, mkEntry 10 [[85]])] [84; 49]
  = [(1, mkEntry 10 [[85]])].
Proof. reflexivity. Qed.

(** a two-table toy database on which H1 and H2 hold: db = (contents of table "a", contents of table
    "b"); query 0/1 reads "a"/"b"; statements write one of the tables *)
Example transparency_hypotheses_satisfiable :
  let exec := fun (d : Z * Z) (q : bool) => Some (if q then fst d else snd d) in
  let apply := fun (d : Z * Z) (s : bool * Z) => if fst s then (snd s, snd d) else (fst d, snd s) in
  let sig := fun q : bool => if q then 1 else 2 in
  let extract := fun q : bool => if q then [[97]] else [[98]] in
  let inval := fun s : bool * Z => Some (if fst s then [65] else [66]) in
  (forall q1 q2, sig q1 = sig q2 -> forall d, exec d q1 = exec d q2) /\
  (forall d s q r, exec d q = Some r ->
     untouched bool (bool * Z) extract inval s q = true -> exec (apply d s) q = Some r) /\
  run Z Z.eqb Z (Z * Z) bool (bool * Z) exec apply sig extract inval 1 ((5, 6), [])
      [(Read true, None); (Read true, None); (Write (true, 9), None); (Read true, None);
       (Read false, Some 1); (Read false, None)]
  = Some (((9, 6), [(2, mkEntry 6 [[98]])]),
          [Miss (Some 5); Hit 5; Wrote; Miss (Some 9); Miss (Some 6); Hit 6]).
Proof.
  cbv zeta. split; [|split].
  - intros [|] [|] H d; try reflexivity; discriminate.
  - intros [a b] [[|] z] [|] r Hx Hu; cbn in *; try exact Hx; discriminate.
  - reflexivity.
Qed.
