(** C33 laws, part 7: the call sites that join the index registries with a table name by string
    equality, and the form of the name each one passes (read off the source, default mode).

    Index metadata ([IndexManager.indexes[..].table_name], catalog [IndexMetadata.table_name]) holds
    the table name in the STORED form: the part of the statement's name after the schema qualifier,
    as written (index_ddl/create_index.rs splits "schema.table" and passes [table_name]).  A call
    site finds the indexes of a table iff the form it passes equals the stored form. *)
From Coq Require Import List ZArith Bool Arith Lia.
From VibeSQL Require Import Store.Catalog Store.CatalogBase Store.CatalogInv.
Import ListNotations.
Open Scope Z_scope.

Inductive form :=
| AsWritten        (* the statement's table name, unchanged *)
| Unqualified      (* the part after "schema." if there is one *)
| QualifiedNorm    (* "public.<name>" unless the name already has a dot (Operations::drop_table) *)
| UpperBoth.       (* both sides upper-cased before comparing (Operations::list_indexes_for_table) *)

Definition unqualified (n : name) : name := match split_dot n with Some (_, t) => t | None => n end.

(** does a site passing form [f] of statement name [n] match metadata that stores [stored]? *)
Definition site_matches (f : form) (n stored : name) : bool :=
  match f with
  | AsWritten => name_eqb stored n
  | Unqualified => name_eqb stored (unqualified n)
  | QualifiedNorm => name_eqb stored (if has_dot n then n else qual public n)
  | UpperBoth => name_eqb (upper stored) (upper n)
  end.

(** what kind of name the parser can deliver at the site *)
Inductive syntax := Plain | MaybeQualified.

Inductive site :=
| CreateIndexStorage      (* index_maintenance.rs create_index: metadata.table_name := table part *)
| CreateIndexCatalog      (* create_index.rs: catalog IndexMetadata::new(.., table_name, ..) *)
| InsertUniqueProbe       (* index_manager.rs check_unique_constraints_for_insert(stmt.table_name) *)
| InsertMaintain          (* index_maintenance.rs add_to_indexes_for_insert(stmt.table_name) *)
| InsertPhase5            (* insert/constraints.rs enforce_unique_indexes -> list_indexes_for_table *)
| UpdateMaintain          (* update_indexes_for_update(stmt.table_name) *)
| DeleteRebuild           (* delete/executor.rs rebuild_indexes(stmt.table_name) *)
| TruncateRebuild         (* truncate/core.rs rebuild_indexes(table_name), name may be qualified *)
| DropTableCatalogIndexes (* drop_table.rs catalog.drop_table_indexes(stmt.table_name), may be qualified *)
| DropTableStorageIndexes (* operations.rs drop_table: drop_indexes_for_table(qualified_name) *)
| RenameStorageIndexes    (* table_options.rs -> Database::drop_table -> the same call; no catalog call at all *)
| SelectIndexChoice.      (* select/scan/index_scan/selection.rs list_indexes_for_table(table_name) *)

Definition all_sites : list site :=
  [CreateIndexStorage; CreateIndexCatalog; InsertUniqueProbe; InsertMaintain; InsertPhase5; UpdateMaintain;
   DeleteRebuild; TruncateRebuild; DropTableCatalogIndexes; DropTableStorageIndexes; RenameStorageIndexes;
   SelectIndexChoice].

Definition site_form (x : site) : form :=
  match x with
  | CreateIndexStorage | CreateIndexCatalog => Unqualified
  | InsertUniqueProbe | InsertMaintain | UpdateMaintain | DeleteRebuild | TruncateRebuild | DropTableCatalogIndexes => AsWritten
  | DropTableStorageIndexes | RenameStorageIndexes => QualifiedNorm
  | InsertPhase5 | SelectIndexChoice => UpperBoth
  end.

Definition site_syntax (x : site) : syntax :=
  match x with
  | TruncateRebuild | DropTableCatalogIndexes | DropTableStorageIndexes => MaybeQualified
  | _ => Plain
  end.

(** a site is consistent when, for every name its syntax allows, it matches exactly the metadata
    whose stored form is the unqualified part of that name; decided per form and syntax *)
Definition consistent (x : site) : bool :=
  match site_form x, site_syntax x with
  | Unqualified, _ => true
  | AsWritten, Plain => true
  | _, _ => false
  end.

Definition consistent_sites : list site := filter consistent all_sites.
Definition inconsistent_sites : list site := filter (fun x => negb (consistent x)) all_sites.

(** the finite table, by computation *)
Theorem site_table :
  consistent_sites = [CreateIndexStorage; CreateIndexCatalog; InsertUniqueProbe; InsertMaintain; UpdateMaintain; DeleteRebuild] /\
  inconsistent_sites = [InsertPhase5; TruncateRebuild; DropTableCatalogIndexes; DropTableStorageIndexes; RenameStorageIndexes; SelectIndexChoice].
Proof. split; reflexivity. Qed.

Definition accepts_name (y : syntax) (n : name) : Prop :=
  match y with Plain => has_dot n = false | MaybeQualified => has_dot (unqualified n) = false end.

Lemma unqualified_plain : forall n, has_dot n = false -> unqualified n = n.
Proof. intros n H. unfold unqualified. rewrite (split_dot_none _ H). reflexivity. Qed.

(** soundness of the decision: a consistent site matches the stored form and nothing else *)
Theorem consistent_sound : forall x n stored, consistent x = true -> accepts_name (site_syntax x) n ->
  site_matches (site_form x) n stored = name_eqb stored (unqualified n).
Proof.
  intros x n stored C Ad. unfold consistent in C.
  destruct (site_form x) eqn:F; destruct (site_syntax x) eqn:Y; try discriminate C; cbn [site_matches]; auto.
  cbn [accepts_name] in Ad. rewrite (unqualified_plain n Ad). reflexivity.
Qed.

(** each inconsistent site with a name on which it goes wrong *)
Definition T0 : name := [84; 48].
Definition t0 : name := [116; 48].
Definition qT0 : name := qual public T0.

(** [Operations::drop_table] never finds an index: the form it passes always contains a dot, the
    stored form of a listed table never does *)
Theorem drop_table_storage_site_dead : forall n stored, has_dot stored = false ->
  site_matches QualifiedNorm n stored = false.
Proof.
  intros n stored H. cbn [site_matches]. apply name_eqb_neq. intro E.
  destruct (has_dot n) eqn:D; subst stored; [congruence | rewrite has_dot_qual in H; discriminate].
Qed.

(** qualified statement names are passed as written: "public.T0" does not match the stored "T0" *)
Theorem as_written_site_misses_qualified :
  accepts_name MaybeQualified qT0 /\ unqualified qT0 = T0 /\ site_matches AsWritten qT0 T0 = false.
Proof. repeat split; vm_compute; reflexivity. Qed.

(** the upper-casing sites identify the distinct tables T0 and "t0" *)
Theorem upper_site_confuses_case_variants :
  T0 <> t0 /\ site_matches UpperBoth T0 t0 = true /\ site_matches UpperBoth t0 T0 = true.
Proof. split; [discriminate|]. split; vm_compute; reflexivity. Qed.

(** the model uses exactly these forms at the two sites the known classes come from *)
Theorem model_drop_table_site : forall s n,
  s_sidx (fst (ops_drop_table s n)) =
  filter (fun p => negb (site_matches QualifiedNorm (cat_norm s n) (si_table (snd p)))) (s_sidx s).
Proof.
  intros s n. unfold ops_drop_table. cbn [site_matches].
  set (q := if has_dot (cat_norm s n) then cat_norm s n else qual public (cat_norm s n)).
  assert (G : s_sidx (sidx_drop_for_table s q) = filter (fun p => negb (name_eqb (si_table (snd p)) q)) (s_sidx s)) by reflexivity.
  destruct (cat_drop_table (sidx_drop_for_table s q) n) as [s2|] eqn:E; cbn [fst].
  - assert (S2 : s_sidx s2 = s_sidx (sidx_drop_for_table s q)).
    { revert E. unfold cat_drop_table. repeat match goal with |- context [match ?x with _ => _ end] => destruct x end;
        intro Hx; inversion Hx; reflexivity. }
    destruct (amem (cat_norm s n) (s_tabs s2)); cbn [fst s_sidx set_tabs]; rewrite S2; exact G.
  - exact G.
Qed.
