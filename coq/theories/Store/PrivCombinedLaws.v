(** C26, the two halves put together: the privileges a statement runs under are those the GRANT/REVOKE history
    left to the session role ([Store.Priv]), and the statement's table accesses are those of its access path
    ([Store.PrivPaths]).  The fixture tables of the path model are given their catalog names. *)
From Coq Require Import List Bool String.
From VibeSQL Require Import Store.Priv Store.PrivLaws Store.PrivPaths Store.PrivPathsLaws.
Import ListNotations.
Open Scope string_scope.

Definition name_of (t : tbl) : string :=
  match t with
  | TT => "T" | TS => "S" | TM => "M" | TV => "VS" | TC => "C" | TU => "U" | TP => "P" | TD => "D"
  end.

(** the privilege the checker entry point of each access kind asks for *)
Definition priv_of (a : access) : privilege :=
  match a with
  | ASel => kind_priv KSelect | AIns => kind_priv KInsert | AUpd => kind_priv KUpdate | ADel => kind_priv KDelete
  end.

(** what [PrivilegeChecker] answers in state [s] *)
Definition held_in (s : state) (t : tbl) (a : access) : bool := check_privilege s (name_of t) (priv_of a).

(** the session of role [r] (security enabled) after the history [h] *)
Definition session_after (s0 : state) (h : list op) (r : string) : state :=
  set_security (set_role (exec s0 h) (Some r)) true.

(** "the role currently holds [q] on [obj]", in terms of the history alone (right-hand side of
    [privilege_history]) *)
Definition held_by_history (s0 : state) (h : list op) (r obj : string) (q : privilege) : Prop :=
  (has_privilege s0 r obj q = true /\ no_later_kill s0 [] h r obj q) \/
  (exists h1 o h2, h = (h1 ++ o :: h2)%list /\ Grants (exec s0 h1) o r obj q /\
                   no_later_kill s0 (h1 ++ [o]) h2 r obj q).

Lemma held_in_session : forall s0 h r t a,
  is_admin r = false ->
  (held_in (session_after s0 h r) t a = true <-> held_by_history s0 h r (name_of t) (priv_of a)).
Proof.
  intros s0 h r t a Ha. unfold held_in, session_after. rewrite check_spec; [|reflexivity|exact Ha].
  cbn [current_role st_role set_security set_role].
  change (has_privilege (set_security (set_role (exec s0 h) (Some r)) true) r (name_of t) (priv_of a))
    with (has_privilege (exec s0 h) r (name_of t) (priv_of a)).
  apply privilege_history.
Qed.

(** the obligation an access event puts on the history *)
Definition event_justified (s0 : state) (h : list op) (r : string) (e : event) : Prop :=
  match e with
  | ERead t => held_by_history s0 h r (name_of t) (PSelect None)
  | EWrite t a => held_by_history s0 h r (name_of t) (priv_of a)
  | ERef _ => True
  end.

(** C26 as stated: for any history and any non-administrator role, a statement of any listed shape reads rows
    of a table only if the history left the role SELECT on it, and inserts / updates / deletes only with the
    matching privilege ... *)
Theorem access_follows_history : forall s0 h r p,
  is_admin r = false ->
  forall e, In e (snd (run (held_in (session_after s0 h r)) (program p))) -> event_justified s0 h r e.
Proof.
  intros s0 h r p Ha e He.
  pose proof (paths_complete p (held_in (session_after s0 h r)) e He) as HP.
  destruct e as [t|t a|t]; cbn in HP |- *.
  - apply (held_in_session s0 h r t ASel Ha). exact HP.
  - apply (held_in_session s0 h r t a Ha). exact HP.
  - exact I.
Qed.

(** ... otherwise it fails and changes nothing *)
Theorem lacking_fails_and_changes_nothing : forall s0 h r p t a,
  is_admin r = false ->
  In (t, a) (required p) -> ~ held_by_history s0 h r (name_of t) (priv_of a) ->
  fst (run (held_in (session_after s0 h r)) (program p)) = ODenied /\
  filter is_change (snd (run (held_in (session_after s0 h r)) (program p))) = [].
Proof.
  intros s0 h r p t a Ha Hr Hn. apply (paths_lacking p _ t a Hr).
  destruct (held_in (session_after s0 h r) t a) eqn:E; [|reflexivity].
  exfalso. apply Hn. apply (held_in_session s0 h r t a Ha). exact E.
Qed.

(** an administrator, or any role while security is disabled, is never refused *)
Theorem admin_never_refused : forall s p,
  st_security s = false \/ is_admin (current_role s) = true ->
  fst (run (held_in s) (program p)) = OOk.
Proof.
  intros s p H. apply holding_all_is_ok. intros t a. unfold held_in.
  destruct H as [H|H]; [apply check_security_off | apply check_admin]; exact H.
Qed.

(** examples: the bulk-transfer path against a concrete history - the role was granted INSERT on T only; the
    statement is now refused (before the fix it read S: [program_before]) *)
Example ex_history_bulk :
  let s0 := init_state ["T"; "S"] ["public"] in
  let h := [OCreateRole "R1"; OGrant [PInsert None] OTable "T" ["R1"] false] in
  run (held_in (session_after s0 h "R1")) (program P_insert_select_bulk) = (ODenied, []) /\
  run (held_in (session_after s0 h "R1")) (program_before P_insert_select_bulk) = (OOk, [ERead TS; EWrite TT AIns]) /\
  held_in (session_after s0 h "R1") TS ASel = false.
Proof. vm_compute. repeat split. Qed.

Example ex_history_guarded :
  let s0 := init_state ["T"; "S"] ["public"] in
  let h := [OCreateRole "R1"; OGrant [PAllPrivileges] OTable "T" ["R1"] false; OGrant [PSelect None] OTable "S" ["R1"] false;
            ORevoke false [PSelect None] OTable "S" ["R1"] CNone] in
  run (held_in (session_after s0 h "R1")) (program P_insert_select) = (ODenied, []).
Proof. vm_compute. reflexivity. Qed.
