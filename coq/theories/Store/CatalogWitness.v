(** C33 laws, part 6: the statements at which [agree_step] fails -- one concrete witness per known
    class (each confirmed on the real code by harness/src/bin/c33.rs), and the follow-on panics. *)
From Coq Require Import List ZArith Bool Arith Lia.
From VibeSQL Require Import Store.Catalog Store.CatalogBase Store.CatalogInv Store.CatalogIdx
  Store.CatalogStepA Store.CatalogStepB Store.CatalogLaws Store.CatalogSites.
Import ListNotations.
Open Scope Z_scope.

(** names: T0 T1 "t0" public.T0, columns A B C, indexes IX "ix", constraints U CK *)
Definition nT0 : name := [84; 48].
Definition nT1 : name := [84; 49].
Definition nt0 : name := [116; 48].
Definition nqT0 : name := qual public nT0.
Definition nA : name := [65].
Definition nB : name := [66].
Definition nC : name := [67].
Definition nIX : name := [73; 88].
Definition nix : name := [105; 120].
Definition nU : name := [85].
Definition nCK : name := [67; 75].

Definition colA := mkcol nA true None.
Definition colB := mkcol nB true None.
Definition mkT0 := CreateTable nT0 [colA; colB] None.

Lemma agree_schema_eq : forall s t sc tb, Agree s -> alookup t (s_cat s) = Some sc ->
  alookup (qual public t) (s_tabs s) = Some tb -> t_schema tb = sc.
Proof.
  intros s t sc tb A H1 H2. destruct (ag_schemas s A t sc H1) as [tb' [H3 H4]]. congruence.
Qed.

Lemma agree_index_listed : forall s k x, Agree s -> alookup k (s_sidx s) = Some x -> amem (si_table x) (s_cat s) = true.
Proof. intros s k x A H. apply (ag_idx_table s A k x H). Qed.

Lemma agree_cidx_partner : forall s k c, Agree s -> alookup k (s_cidx s) = Some c -> amem (idx_norm (ci_name c)) (s_sidx s) = true.
Proof.
  intros s k c A H. destruct (ag_cidx s A k c H) as [_ [x [Hx _]]]. apply amem_alookup. eauto.
Qed.

Lemma agree_mirror_eq : forall s k x tb, Agree s -> alookup k (s_sidx s) = Some x ->
  alookup (qual public (si_table x)) (s_tabs s) = Some tb ->
  build_data (t_schema tb) (si_cols x) (t_rows tb) 0 [] = Some (si_data x).
Proof. intros. eapply ag_mirror; eauto. Qed.

Lemma agree_index_cols : forall s k x sc, Agree s -> alookup k (s_sidx s) = Some x ->
  alookup (si_table x) (s_cat s) = Some sc -> forallb (fun c => mem_name c (col_names sc)) (si_cols x) = true.
Proof.
  intros s k x sc A H1 H2. apply forallb_forall. intros c Hc.
  pose proof (ag_idx_cols s A k x sc H1 H2 c Hc) as HI. unfold mem_name. apply existsb_exists. exists c.
  split; auto. apply name_eqb_refl.
Qed.

Ltac clean_hist := cbn [clean]; repeat split; vm_compute; reflexivity.

(** a storage-only ALTER after [CREATE TABLE T0 (A, B)]: the catalog copy of the schema stays behind *)
Ltac kind_ok := repeat eexists; reflexivity.
Ltac storage_only_witness st :=
  exists [mkT0], st; split; [kind_ok|]; split; [clean_hist|]; split; [vm_compute; reflexivity|]; split; [vm_compute; reflexivity|];
  let AG := fresh "AG" in let H := fresh "H" in
  intro AG; pose proof (agree_schema_eq _ nT0 _ _ AG eq_refl eq_refl) as H; vm_compute in H; discriminate H.

(** [agree_step] fails at the statement [st]: after a clean history from the initial state (so the
    state agrees), the parser-producible statement [st] of a known class breaks [Agree] *)
Definition fails_at (h : list stmt) (st : stmt) : Prop :=
  clean h init /\ wf_stmt st = true /\ known (run h init) st = true /\ ~ Agree (step_state (run h init) st).

Ltac by_schema_copies :=
  unfold fails_at; split; [clean_hist|]; split; [vm_compute; reflexivity|]; split; [vm_compute; reflexivity|];
  let AG := fresh "AG" in let H := fresh "H" in
  intro AG; pose proof (agree_schema_eq _ nT0 _ _ AG eq_refl eq_refl) as H; vm_compute in H; discriminate H.

(** storage-only ALTER forms after [CREATE TABLE T0 (A, B)]: the catalog copy of the schema stays behind *)
Theorem agree_step_add_column_refuted : exists h tn c, fails_at h (AddColumn tn c).
Proof. exists [mkT0], nT0, (mkcol nC true None). by_schema_copies. Qed.

Theorem agree_step_drop_column_refuted : exists h tn cn ie, fails_at h (DropColumn tn cn ie).
Proof. exists [mkT0], nT0, nB, false. by_schema_copies. Qed.

Theorem agree_step_change_column_refuted : exists h tn old c, fails_at h (ChangeColumn tn old c).
Proof. exists [mkT0], nT0, nB, (mkcol nC true None). by_schema_copies. Qed.

Theorem agree_step_modify_column_refuted : exists h tn cn nl d, fails_at h (ModifyColumn tn cn nl d).
Proof. exists [mkT0], nT0, nB, false, None. by_schema_copies. Qed.

Theorem agree_step_set_default_refuted : exists h tn cn d, fails_at h (SetDefault tn cn d).
Proof. exists [mkT0], nT0, nB, 7. by_schema_copies. Qed.

Theorem agree_step_drop_default_refuted : exists h tn cn, fails_at h (DropDefault tn cn).
Proof. exists [CreateTable nT0 [colA; mkcol nB true (Some 5)] None], nT0, nB. by_schema_copies. Qed.

Theorem agree_step_set_not_null_refuted : exists h tn cn, fails_at h (SetNotNull tn cn).
Proof. exists [mkT0], nT0, nB. by_schema_copies. Qed.

Theorem agree_step_drop_not_null_refuted : exists h tn cn, fails_at h (DropNotNull tn cn).
Proof. exists [CreateTable nT0 [colA; mkcol nB false None] None], nT0, nB. by_schema_copies. Qed.

Theorem agree_step_add_check_refuted : exists h tn cn col, fails_at h (AddConstraint tn (KCheck cn col)).
Proof. exists [mkT0], nT0, (Some nCK), nA. by_schema_copies. Qed.

(** ALTER TABLE "t0" ADD CONSTRAINT .. UNIQUE (A) while only T0 exists: the stored table is changed
    through Database::get_table_mut's case-variant lookup, the catalog write-back fails *)
Theorem agree_step_constraint_case_variant_refuted : exists h tn cols, fails_at h (AddConstraint tn (KUnique cols)).
Proof. exists [mkT0], nt0, [nA]. by_schema_copies. Qed.

Definition mkIX := CreateIndex nIX nT0 false [nB] false.

Ltac fails_intro := unfold fails_at; split; [clean_hist|]; split; [vm_compute; reflexivity|]; split; [vm_compute; reflexivity|].

(** DROP TABLE "public".T0 of an indexed table: both index registries keep the index *)
Theorem agree_step_drop_table_qualified_refuted : exists h tn ie, has_dot tn = true /\ fails_at h (DropTable tn ie).
Proof.
  exists [mkT0; mkIX], nqT0, false. split; [reflexivity|]. fails_intro.
  intro AG. assert (H := agree_index_listed _ nIX _ AG eq_refl). vm_compute in H. discriminate H.
Qed.

(** ... and the index is inherited, with its entries, by a table created later under the name *)
Theorem recreate_is_empty_refuted :
  exists h, let s := run h init in
    obs_select s nT0 = Some [] /\
    exists x, alookup nIX (s_sidx s) = Some x /\ si_table x = nT0 /\ si_data x <> [].
Proof.
  exists [mkT0; Insert nT0 [[1; 10]]; mkIX; DropTable nqT0 false; mkT0].
  cbn zeta. split; [vm_compute; reflexivity|]. eexists. split; [vm_compute; reflexivity|]. split; [reflexivity|]. discriminate.
Qed.

(** ALTER TABLE T0 RENAME TO T1 of an indexed table: the indexes stay under the old name *)
Theorem agree_step_rename_table_refuted : exists h tn new, fails_at h (RenameTable tn new).
Proof.
  exists [mkT0; mkIX], nT0, nT1. fails_intro.
  intro AG. assert (H := agree_index_listed _ nIX _ AG eq_refl). vm_compute in H. discriminate H.
Qed.

(** DROP INDEX IX when the index was created as "ix": the storage index goes, the catalog entry stays *)
Theorem agree_step_drop_index_case_refuted : exists h i ie, fails_at h (DropIndex i ie).
Proof.
  exists [mkT0; CreateIndex nix nT0 false [nB] false], nIX, false. fails_intro.
  intro AG. assert (H := agree_cidx_partner _ (ci_key nT0 nix) _ AG eq_refl). vm_compute in H. discriminate H.
Qed.

(** TRUNCATE TABLE "public".T0: the rebuild is asked for "public.T0", the index carries "T0" *)
Theorem agree_step_truncate_qualified_refuted : exists h tn, has_dot tn = true /\ fails_at h (Truncate tn).
Proof.
  exists [mkT0; Insert nT0 [[1; 10]]; mkIX], nqT0. split; [reflexivity|]. fails_intro.
  intro AG. assert (H := agree_mirror_eq _ nIX _ _ AG eq_refl eq_refl). vm_compute in H. discriminate H.
Qed.

(** DROP COLUMN of an indexed column: the index keeps naming the column *)
Theorem drop_column_leaves_index :
  exists h st, clean h init /\ known (run h init) st = true /\
    let s := step_state (run h init) st in
    exists x tb, alookup nIX (s_sidx s) = Some x /\ alookup (qual public nT0) (s_tabs s) = Some tb /\
                 forallb (fun c => mem_name c (col_names (t_schema tb))) (si_cols x) = false.
Proof.
  exists [mkT0; mkIX], (DropColumn nT0 nB false). split; [clean_hist|]. split; [vm_compute; reflexivity|].
  cbn zeta. eexists. eexists. split; [vm_compute; reflexivity|]. split; [vm_compute; reflexivity|]. vm_compute. reflexivity.
Qed.

(** CHANGE COLUMN of an indexed column: the index keeps the old column name *)
Theorem change_column_leaves_index :
  exists h st, clean h init /\ known (run h init) st = true /\
    let s := step_state (run h init) st in
    exists x tb, alookup nIX (s_sidx s) = Some x /\ alookup (qual public nT0) (s_tabs s) = Some tb /\
                 forallb (fun c => mem_name c (col_names (t_schema tb))) (si_cols x) = false.
Proof.
  exists [mkT0; mkIX], (ChangeColumn nT0 nB (mkcol nC true None)). split; [clean_hist|]. split; [vm_compute; reflexivity|].
  cbn zeta. eexists. eexists. split; [vm_compute; reflexivity|]. split; [vm_compute; reflexivity|]. vm_compute. reflexivity.
Qed.

(** follow-on panics in states that no longer agree (both observed on the real code) *)
Theorem panic_after_drop_column_delete :
  snd (step (run [mkT0; Insert nT0 [[1; 10]]; Insert nT0 [[2; 20]]; mkIX; DropColumn nT0 nB false] init)
            (Delete nT0 (Some (nA, 1)))) = RPanic.
Proof. vm_compute. reflexivity. Qed.

Theorem panic_after_drop_column_insert :
  snd (step (run [mkT0; Insert nT0 [[1; 10]]; mkIX; DropColumn nT0 nB false; AddConstraint nT0 (KUnique [nA])] init)
            (Insert nT0 [[2]])) = RPanic.
Proof. vm_compute. reflexivity. Qed.

Theorem panic_after_drop_column_create_index :
  snd (step (run [mkT0; Insert nT0 [[1; 10]]; DropColumn nT0 nB false] init)
            (CreateIndex nIX nT0 false [nB] false)) = RPanic.
Proof. vm_compute. reflexivity. Qed.

(** RENAME TO after ADD COLUMN .. NOT NULL (which fills NULLs in): the re-insertion stops at the
    first row, the statement fails and the rows are gone *)
Theorem rename_moves_all_rows_refuted :
  exists h, let s := run h init in
    obs_select s nT0 = Some [[Some 1; None]; [Some 2; None]] /\
    snd (step s (RenameTable nT0 nT1)) = RErr /\
    obs_select (step_state s (RenameTable nT0 nT1)) nT0 = None /\
    obs_select (step_state s (RenameTable nT0 nT1)) nT1 = Some [].
Proof.
  exists [CreateTable nT0 [colA] None; Insert nT0 [[1]]; Insert nT0 [[2]]; AddColumn nT0 (mkcol nC false None)].
  cbn zeta. repeat split; vm_compute; reflexivity.
Qed.

(** DROP COLUMN IF EXISTS B after CHANGE COLUMN B C: the stale cache resolves "B" to the renamed
    column, which is dropped although no column is called B *)
Theorem retained_drop_column_refuted :
  exists h, let s := run h init in
    (exists tb, alookup (qual public nT0) (s_tabs s) = Some tb /\ col_names (t_schema tb) = [nA; nC] /\ t_rows tb = [[Some 1; Some 10]]) /\
    snd (step s (DropColumn nT0 nB true)) = ROk 0 /\
    exists tb', alookup (qual public nT0) (s_tabs (step_state s (DropColumn nT0 nB true))) = Some tb' /\
                col_names (t_schema tb') = [nA] /\ t_rows tb' = [[Some 1]].
Proof.
  exists [mkT0; Insert nT0 [[1; 10]]; ChangeColumn nT0 nB (mkcol nC true None)].
  cbn zeta. split; [eexists; repeat split; vm_compute; reflexivity|]. split; [vm_compute; reflexivity|].
  eexists. repeat split; vm_compute; reflexivity.
Qed.

(** CHANGE A E, CHANGE B A, then CHANGE A B: the cache still maps "A" to position 0, so the column now
    called E is renamed and the column called A is not *)
Theorem retained_column_alter_refuted :
  exists h, let s := run h init in
    (exists tb, alookup (qual public nT0) (s_tabs s) = Some tb /\ col_names (t_schema tb) = [[69]; nA]) /\
    snd (step s (ChangeColumn nT0 nA (mkcol nB true None))) = ROk 0 /\
    exists tb', alookup (qual public nT0) (s_tabs (step_state s (ChangeColumn nT0 nA (mkcol nB true None)))) = Some tb' /\
                col_names (t_schema tb') = [nB; nA].
Proof.
  exists [mkT0; ChangeColumn nT0 nA (mkcol [69] true None); ChangeColumn nT0 nB (mkcol nA true None)].
  cbn zeta. split; [eexists; split; vm_compute; reflexivity|]. split; [vm_compute; reflexivity|].
  eexists. split; vm_compute; reflexivity.
Qed.

(** non-default mode ([set_case_sensitive_identifiers(false)]): CREATE INDEX stores the table name as
    written ("t0"), INSERT passes "T0": the index is not maintained *)
Theorem case_insensitive_mode_mirror_refuted :
  exists h, let s := run h init_ci in
    exists x tb, alookup nIX (s_sidx s) = Some x /\ alookup (qual public nT0) (s_tabs s) = Some tb /\
      t_rows tb = [[Some 1; Some 10]] /\ si_data x = [].
Proof.
  exists [mkT0; CreateIndex nIX nt0 false [nB] false; Insert nT0 [[1; 10]]].
  cbn zeta. eexists. eexists. repeat split; vm_compute; reflexivity.
Qed.

(** satisfiability of the theorems' hypotheses by non-trivial inputs *)
Example agree_nontrivial :
  let h := [mkT0; Insert nT0 [[1; 10]; [2; 20]]; mkIX; CreateTable nt0 [colA] (Some nA);
            AddConstraint nT0 (KUnique [nA]); Delete nT0 (Some (nB, 10)); DropIndex nIX false; mkIX;
            RenameTable nt0 nT1; Truncate nT0; DropTable nT0 false; mkT0] in
  clean h init /\ results h init = [ROk 0; ROk 2; ROk 0; ROk 0; ROk 0; ROk 1; ROk 0; ROk 0; ROk 0; ROk 1; ROk 0; ROk 0].
Proof. cbn zeta. split; [clean_hist | vm_compute; reflexivity]. Qed.

(** the hypotheses of the derived theorems are satisfiable by non-trivial states *)
Definition s_demo : state := run [mkT0; Insert nT0 [[1; 10]; [2; 20]]; mkIX] init.

Example demo_agrees : Agree s_demo.
Proof. apply agree_history. clean_hist. Qed.

Example drop_leaves_nothing_hyps :
  wf_qname nT0 = true /\ known s_demo (DropTable nT0 false) = false /\ cat_table_exists s_demo nT0 = true /\
  table_indexed s_demo nT0 = true.
Proof. repeat split; vm_compute; reflexivity. Qed.

Example recreate_is_empty_hyps :
  let s := step_state s_demo (DropTable nT0 false) in
  wf_qname nT0 = true /\ is_ok (snd (step s mkT0)) = true.
Proof. cbn zeta. split; vm_compute; reflexivity. Qed.

Example listed_queryable_hyps : exists sc, alookup nT0 (s_cat s_demo) = Some sc /\ length (ts_cols sc) = 2%nat.
Proof. eexists. split; vm_compute; reflexivity. Qed.

Example retained_hyps : exists tb, tab_find_key s_demo nT0 = Some nqT0 /\ alookup nqT0 (s_tabs s_demo) = Some tb /\
  t_rows tb = [[Some 1; Some 10]; [Some 2; Some 20]] /\ column_alter (SetDefault nT0 nB 7) = Some (nT0, nB).
Proof. eexists. repeat split; vm_compute; reflexivity. Qed.

Example rename_moves_all_rows_hyps :
  let s := run [mkT0; Insert nT0 [[1; 10]; [2; 20]]] init in
  exists sc, wf_name nT0 = true /\ wf_name nT1 = true /\ known s (RenameTable nT0 nT1) = false /\
    alookup nT0 (s_cat s) = Some sc /\ tab_find_key s nT1 = None /\
    alookup (qual public nT0) (s_tabs s) = Some (mktab sc [[Some 1; Some 10]; [Some 2; Some 20]]) /\
    forallb (not_null_ok (ts_cols sc)) [[Some 1; Some 10]; [Some 2; Some 20]] = true.
Proof. cbn zeta. eexists. repeat split; vm_compute; reflexivity. Qed.

Example consistent_sound_hyps : consistent DeleteRebuild = true /\ accepts_name (site_syntax DeleteRebuild) nT0.
Proof. split; reflexivity. Qed.

Example index_entries_exact_demo : exists x tb, alookup nIX (s_sidx s_demo) = Some x /\
  alookup (qual public (si_table x)) (s_tabs s_demo) = Some tb /\
  dget [Some 20] (si_data x) = [1%nat] /\ matching_positions (t_schema tb) (si_cols x) [Some 20] (t_rows tb) 0 = [1%nat].
Proof. eexists. eexists. repeat split; vm_compute; reflexivity. Qed.

(** CREATE UNIQUE INDEX over rows that already hold a duplicate key is refused and takes its catalog
    entry back (as of 3e485d50); keys with a NULL do not count *)
Example create_unique_index_over_duplicates :
  let s := run [mkT0; Insert nT0 [[1; 10]; [2; 10]]] init in
  step s (CreateIndex nIX nT0 true [nB] false) = (s, RErr) /\
  is_ok (snd (step s (CreateIndex nIX nT0 true [nA] false))) = true.
Proof. cbn zeta. split; vm_compute; reflexivity. Qed.

(** INSERT's phase 5 probes the unique indexes of every table whose name matches up to case: a key
    held by the unique index of "t0" refuses a row for the (empty) table T0 *)
Example twin_table_unique_index_refuses_insert :
  let s := run [CreateTable nT1 [colA; colB] None; Insert nT1 [[1; 10]]; RenameTable nT1 nt0;
                CreateIndex nIX nt0 true [nB] false; mkT0] init in
  obs_select s nT0 = Some [] /\
  snd (step s (Insert nT0 [[2; 10]])) = RErr /\ snd (step s (Insert nT0 [[2; 11]])) = ROk 1.
Proof. cbn zeta. repeat split; vm_compute; reflexivity. Qed.
