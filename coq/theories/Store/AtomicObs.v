(** * Store/AtomicObs.v — executable comparison of the DML model with observations of the implementation
    (used by Run/C11Run.v and Run/C34Run.v).  Definitions only. *)
From Coq Require Import List ZArith Bool Arith.
From VibeSQL Require Import Store.Trigger Store.Atomic.
Import ListNotations.

(** one generated case with what the harness saw on the real engine *)
Record tcase := mkCase {
  c_id : Z;
  c_tabs : list (nat * tschema);        (* schema facts read back from the catalog, in Catalog::list_tables() order *)
  c_setup : list stmt;                  (* executed before the triggers exist *)
  c_trigs : list trig;                  (* in the catalog's iteration order *)
  c_stmt : stmt;                        (* the statement under test *)
  c_res : Z;                            (* row count, or -1 for Err *)
  c_obs0 : list (nat * list row);       (* every table in storage order before the statement ... *)
  c_obs1 : list (nat * list row);       (* ... and after it *)
  c_audit : option (nat * nat)          (* Some (a, n): every trigger body starts with the audit insert into table a
                                           (trigger id, n OLD cells, n NEW cells) and nothing else writes a *)
}.

Definition db_of (tabs : list (nat * tschema)) : db :=
  mkDb (map (fun ts => mkTable (fst ts) (snd ts) [] app0) tabs) [].

Fixpoint run_setup (d : db) (ss : list stmt) : option db :=
  match ss with
  | [] => Some d
  | s :: rest =>
      match step d s with
      | (d', _, Ok _) => run_setup d' rest
      | _ => None
      end
  end.

Definition res_code (o : outcome) : Z :=
  match o with Ok n => Z.of_nat n | Err _ _ _ => (-1)%Z end.

Fixpoint rows_eqb (a b : list row) : bool :=
  match a, b with
  | [], [] => true
  | x :: a', y :: b' => row_eqb x y && rows_eqb a' b'
  | _, _ => false
  end.

Fixpoint obs_eqb (a b : list (nat * list row)) : bool :=
  match a, b with
  | [], [] => true
  | (t, r) :: a', (u, s) :: b' => Nat.eqb t u && rows_eqb r s && obs_eqb a' b'
  | _, _ => false
  end.

(** the model's scope: the recursive integrity check inside cascade_delete finds nothing to do, i.e. a table whose
    foreign key is ON DELETE CASCADE is not itself referenced by any table *)
Definition scope_ok (d : db) : bool :=
  forallb (fun tb =>
             forallb (fun fk => match fk_on_delete fk with
                                | ACascade => negb (existsb (fun tb' => negb (is_none (hd_error (references (tb_id tb) tb')))) (d_tabs d))
                                | _ => true
                                end) (s_fks (tb_schema tb)))
          (d_tabs d).

Definition image (n : nat) (r : option row) : row :=
  match r with Some r' => r' | None => repeat VNull n end.

Definition audit_row (n : nat) (f : firing) : row :=
  VInt (t_id (f_trig f)) :: image n (f_old f) ++ image n (f_new f).

Definition table_rows (o : list (nat * list row)) (t : nat) : list row :=
  match find (fun p => Nat.eqb (fst p) t) o with Some p => snd p | None => [] end.

(** the audit table grew exactly by the image of the model's firing list *)
Definition audit_ok (c : tcase) (log : list firing) : bool :=
  match c_audit c with
  | None => true
  | Some (a, n) =>
      rows_eqb (table_rows (c_obs1 c) a) (table_rows (c_obs0 c) a ++ map (audit_row n) log)
  end.

(** model and implementation agree on the case: state after the set-up, result code, every table afterwards *)
Definition case_ok (with_log : bool) (c : tcase) : bool :=
  match run_setup (db_of (c_tabs c)) (c_setup c) with
  | None => false
  | Some d0 =>
      let d1 := mkDb (d_tabs d0) (c_trigs c) in
      let '(d2, log, o) := step d1 (c_stmt c) in
      scope_ok d1
      && obs_eqb (observe d1) (c_obs0 c)
      && Z.eqb (res_code o) (c_res c)
      && obs_eqb (observe d2) (c_obs1 c)
      && (if with_log then audit_ok c log else true)
  end.

Definition mismatches (with_log : bool) (cs : list tcase) : list Z :=
  map c_id (filter (fun c => negb (case_ok with_log c)) cs).
