(** C10/C15: laws of the user-index model (Store/UserIndex.v).
    [ui_spec]: the index data maps every key to exactly the positions of the rows that carry
    it (no duplicates, no empty entry) -- the property's own wording; it is equivalent to
    "equal, as a finite map and up to the order of the row ids under one key, to the index a
    from-scratch rebuild produces" ([ui_mirror]). *)
From Coq Require Import List ZArith Bool Arith Lia Permutation.
From VibeSQL Require Import Store.Table Store.UserIndex Store.TableLaws.
Import ListNotations.

Definition ui_kf (cols : list nat) (r : row) : option key := Some (ui_key cols r).

Definition ui_spec (cols : list nat) (rows : list row) (m : amap (list nat)) : Prop :=
  forall k, (forall j, In j (ui_get k m) <-> keyed_at (ui_kf cols) rows j k)
            /\ NoDup (ui_get k m)
            /\ am_find k m <> Some [].

(** equality of two index maps up to the order of ids under a key *)
Definition opt_perm (a b : option (list nat)) : Prop :=
  match a, b with
  | Some l1, Some l2 => Permutation l1 l2
  | None, None => True
  | _, _ => False
  end.
Definition ui_equiv (m1 m2 : amap (list nat)) : Prop := forall k, opt_perm (am_find k m1) (am_find k m2).

(** the property's "mirror": the index is the rebuild *)
Definition ui_mirror (cols : list nat) (rows : list row) (m : amap (list nat)) : Prop :=
  ui_equiv m (ui_rebuild cols rows).

Lemma ui_get_add k k' n m :
  ui_get k (ui_add k' n m) = if key_eqb k k' then ui_get k' m ++ [n] else ui_get k m.
Proof.
  unfold ui_get, ui_add. rewrite am_find_insert. destruct (key_eqb k k'); reflexivity.
Qed.

Lemma ui_find_add k k' n m :
  am_find k (ui_add k' n m) = if key_eqb k k' then Some (ui_get k' m ++ [n]) else am_find k m.
Proof. unfold ui_add. apply am_find_insert. Qed.

Lemma ui_find_remove_id k k' n m :
  am_find k (ui_remove_id k' n m) =
    if key_eqb k k' then
      match am_find k' m with
      | None => None
      | Some l => match ids_retain_ne n l with [] => None | l' => Some l' end
      end
    else am_find k m.
Proof.
  unfold ui_remove_id. destruct (am_find k' m) as [l|] eqn:E.
  - destruct (ids_retain_ne n l) as [|x l'] eqn:El.
    + rewrite am_find_remove. destruct (key_eqb k k'); reflexivity.
    + rewrite am_find_insert. destruct (key_eqb k k'); reflexivity.
  - destruct (key_eqb k k') eqn:Ek; [|reflexivity]. apply key_eqb_eq in Ek; subst; exact E.
Qed.

Lemma ui_build_from_app cols n a b m :
  ui_build_from cols n (a ++ b) m = ui_build_from cols (n + length a) b (ui_build_from cols n a m).
Proof.
  revert n m; induction a as [|r a IH]; intros n m; cbn.
  - rewrite Nat.add_0_r; reflexivity.
  - rewrite IH. f_equal. lia.
Qed.

Lemma ui_rebuild_app_last cols rows r :
  ui_rebuild cols (rows ++ [r]) = ui_add (ui_key cols r) (length rows) (ui_rebuild cols rows).
Proof. unfold ui_rebuild. rewrite ui_build_from_app. reflexivity. Qed.

Lemma NoDup_app_last {A} (l : list A) x : NoDup l -> ~ In x l -> NoDup (l ++ [x]).
Proof.
  intros Hn Hx. induction l as [|y l IH]; cbn.
  - constructor; [intros [] | constructor].
  - inversion Hn; subst. constructor.
    + intros Hin. apply in_app_or in Hin. destruct Hin as [Hin|[->|[]]]; [contradiction|].
      apply Hx; left; reflexivity.
    + apply IH; [assumption | intros Hin; apply Hx; right; exact Hin].
Qed.

Lemma ui_spec_nil cols : ui_spec cols [] [].
Proof.
  intros k. cbn. split; [|split; [constructor | discriminate]].
  intros j; split; [intros [] | intros [r [E _]]; destruct j; discriminate].
Qed.

(** add_to_indexes_for_insert: the row has just been appended at position [length rows] *)
Lemma ui_spec_add cols rows r m :
  ui_spec cols rows m -> ui_spec cols (rows ++ [r]) (ui_add (ui_key cols r) (length rows) m).
Proof.
  intros Hs k. destruct (Hs k) as [Hin [Hnd Hne]]. destruct (Hs (ui_key cols r)) as [Hin' [Hnd' _]].
  rewrite ui_get_add, ui_find_add.
  destruct (key_eqb k (ui_key cols r)) eqn:Ek.
  - apply key_eqb_eq in Ek; subst k. split; [|split].
    + intros j; split.
      * intros Hj. apply in_app_or in Hj. apply keyed_at_app_last.
        destruct Hj as [Hj|[<-|[]]]; [left; apply Hin; exact Hj | right; split; reflexivity].
      * intros Hj. apply keyed_at_app_last in Hj. apply in_or_app.
        destruct Hj as [Hj|[-> _]]; [left; apply Hin; exact Hj | right; left; reflexivity].
    + apply NoDup_app_last; [exact Hnd|].
      intros Hj. apply Hin in Hj. apply keyed_at_lt in Hj. lia.
    + intros E; inversion E as [E']. destruct (ui_get (ui_key cols r) m); discriminate.
  - split; [|split; [exact Hnd | exact Hne]].
    intros j; split.
    + intros Hj. apply keyed_at_app_last. left; apply Hin; exact Hj.
    + intros Hj. apply keyed_at_app_last in Hj. destruct Hj as [Hj|[_ Hk]]; [apply Hin; exact Hj|].
      unfold ui_kf in Hk. inversion Hk; subst. rewrite key_eqb_refl in Ek; discriminate.
Qed.

Lemma ui_rebuild_spec cols rows : ui_spec cols rows (ui_rebuild cols rows).
Proof.
  induction rows as [|r rows IH] using rev_ind.
  - apply ui_spec_nil.
  - rewrite ui_rebuild_app_last. apply ui_spec_add. exact IH.
Qed.

(** a batch of appended rows (insert_rows_batch, and create_index / rebuild from any prefix) *)
Lemma ui_spec_build_from cols rows new m :
  ui_spec cols rows m -> ui_spec cols (rows ++ new) (ui_build_from cols (length rows) new m).
Proof.
  revert rows m; induction new as [|r new IH]; intros rows m Hs; cbn.
  - rewrite app_nil_r. exact Hs.
  - replace (rows ++ r :: new) with ((rows ++ [r]) ++ new) by (rewrite <- app_assoc; reflexivity).
    replace (S (length rows)) with (length (rows ++ [r])) by (rewrite app_length; cbn; lia).
    apply IH. apply ui_spec_add. exact Hs.
Qed.

Lemma ui_get_remove_id k k' n m :
  ui_get k (ui_remove_id k' n m) = if key_eqb k k' then ids_retain_ne n (ui_get k' m) else ui_get k m.
Proof.
  unfold ui_get at 1. rewrite ui_find_remove_id. destruct (key_eqb k k') eqn:Ek.
  - unfold ui_get. destruct (am_find k' m) as [l|]; [|reflexivity].
    destruct (ids_retain_ne n l); reflexivity.
  - reflexivity.
Qed.

Lemma In_retain_ne j n l : In j (ids_retain_ne n l) <-> In j l /\ j <> n.
Proof.
  unfold ids_retain_ne. rewrite filter_In. rewrite negb_true_iff, Nat.eqb_neq. tauto.
Qed.

Lemma keyed_at_same_key kf rows i old new j k :
  nth_error rows i = Some old -> kf new = kf old ->
  (keyed_at kf (set_nth i new rows) j k <-> keyed_at kf rows j k).
Proof.
  intros Hold Hk.
  assert (Hlt : i < length rows) by (apply nth_error_Some; congruence).
  rewrite keyed_at_set_nth by assumption. split.
  - intros [[-> Hn]|[_ Hj]]; [exists old; split; [assumption | congruence] | exact Hj].
  - intros Hj. destruct (Nat.eq_dec j i) as [->|Hne]; [left | right; auto].
    split; [reflexivity|]. destruct Hj as [r [Hr Hkr]]. rewrite Hold in Hr; inversion Hr; subst. congruence.
Qed.

(** update_indexes_for_update for one updated row: unconditional *)
Lemma ui_spec_upd cols rows i old new m :
  ui_spec cols rows m -> nth_error rows i = Some old ->
  ui_spec cols (set_nth i new rows) (ui_upd cols old new i m).
Proof.
  intros Hs Hold.
  assert (Hlt : i < length rows) by (apply nth_error_Some; congruence).
  unfold ui_upd. destruct (key_eqb (ui_key cols old) (ui_key cols new)) eqn:E.
  - apply key_eqb_eq in E. intros k. destruct (Hs k) as [Hin [Hnd Hne]].
    split; [|split; assumption]. intros j. rewrite Hin. symmetry.
    apply keyed_at_same_key with (old := old); [assumption | unfold ui_kf; congruence].
  - assert (Hneq : ui_key cols old <> ui_key cols new) by (apply key_eqb_neq; exact E).
    assert (Hi_old : forall j k, keyed_at (ui_kf cols) rows j k -> k <> ui_key cols old -> j <> i).
    { intros j k [r [Hr Hk]] Hk' ->. rewrite Hold in Hr; inversion Hr; subst r.
      unfold ui_kf in Hk; inversion Hk; congruence. }
    intros k. destruct (Hs k) as [Hin [Hnd Hne]].
    rewrite ui_get_add, ui_find_add, !ui_get_remove_id, !ui_find_remove_id.
    destruct (key_eqb k (ui_key cols new)) eqn:Ekn.
    + apply key_eqb_eq in Ekn; subst k.
      rewrite !(key_eqb_sym (ui_key cols new) (ui_key cols old)), !E. cbv iota.
      split; [|split].
      * intros j. rewrite keyed_at_set_nth by assumption. split.
        -- intros Hj. apply in_app_or in Hj. destruct Hj as [Hj|[<-|[]]].
           ++ apply Hin in Hj. right; split; [|exact Hj]. eapply Hi_old; eauto.
           ++ left; split; reflexivity.
        -- intros [[-> _]|[_ Hj]]; apply in_or_app; [right; left; reflexivity | left; apply Hin; exact Hj].
      * apply NoDup_app_last; [exact Hnd|]. intros Hj. apply Hin in Hj.
        eapply Hi_old in Hj; [congruence | auto].
      * intros Ex; inversion Ex as [Ex']. destruct (ui_get (ui_key cols new) m); discriminate.
    + destruct (key_eqb k (ui_key cols old)) eqn:Eko; cbv iota.
      * apply key_eqb_eq in Eko; subst k. split; [|split].
        -- intros j. rewrite In_retain_ne, keyed_at_set_nth by assumption. rewrite Hin. split.
           ++ intros [Hj Hne']. right; auto.
           ++ intros [[-> Hk]|[Hne' Hj]]; [|auto].
              unfold ui_kf in Hk; inversion Hk; congruence.
        -- unfold ids_retain_ne. apply NoDup_filter. exact Hnd.
        -- destruct (am_find (ui_key cols old) m) as [l|]; [|discriminate].
           destruct (ids_retain_ne i l); discriminate.
      * split; [|split; assumption].
        intros j. rewrite keyed_at_set_nth by assumption. rewrite Hin. split.
        -- intros Hj. right; split; [|exact Hj]. eapply Hi_old; eauto. apply key_eqb_neq; exact Eko.
        -- intros [[-> Hk]|[_ Hj]]; [|exact Hj].
           unfold ui_kf in Hk; inversion Hk; subst. rewrite key_eqb_refl in Ekn; discriminate.
Qed.

(** spec <-> mirror *)
Lemma ui_spec_equiv cols rows m1 m2 : ui_spec cols rows m1 -> ui_spec cols rows m2 -> ui_equiv m1 m2.
Proof.
  intros H1 H2 k. destruct (H1 k) as [I1 [N1 E1]]. destruct (H2 k) as [I2 [N2 E2]].
  unfold ui_get in *. destruct (am_find k m1) as [l1|], (am_find k m2) as [l2|]; cbn.
  - apply NoDup_Permutation; [assumption..|]. intros j. rewrite I1, I2. reflexivity.
  - destruct l1 as [|x l1]; [congruence|]. exfalso. apply (proj2 (I2 x)). apply I1. left; reflexivity.
  - destruct l2 as [|x l2]; [congruence|]. exfalso. apply (proj2 (I1 x)). apply I2. left; reflexivity.
  - exact I.
Qed.

Lemma ui_spec_of_equiv cols rows m1 m2 : ui_equiv m1 m2 -> ui_spec cols rows m2 -> ui_spec cols rows m1.
Proof.
  intros He H2 k. destruct (H2 k) as [I2 [N2 E2]]. specialize (He k).
  unfold ui_get in *. destruct (am_find k m1) as [l1|], (am_find k m2) as [l2|]; cbn in He; try contradiction.
  - split; [|split].
    + intros j. rewrite <- I2. split; apply Permutation_in; [exact He | apply Permutation_sym; exact He].
    + eapply Permutation_NoDup; [apply Permutation_sym; exact He | exact N2].
    + intros Ex; inversion Ex; subst. apply Permutation_nil in He. congruence.
  - split; [exact I2 | split; [constructor | discriminate]].
Qed.

Lemma ui_mirror_spec cols rows m : ui_mirror cols rows m <-> ui_spec cols rows m.
Proof.
  unfold ui_mirror. split.
  - intros He. eapply ui_spec_of_equiv; [exact He | apply ui_rebuild_spec].
  - intros Hs. eapply ui_spec_equiv; [exact Hs | apply ui_rebuild_spec].
Qed.
