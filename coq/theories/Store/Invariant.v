(** C10/C15: the invariant [Inv] (declared constraints hold, hash indexes mirror the rows,
    user indexes mirror the rows) and the executable classifier [known_class] of the
    statements on which the engine, as it is today, breaks it.  Definitions only. *)
From Coq Require Import List ZArith Bool Arith Lia Permutation.
From VibeSQL Require Import Store.Table Store.UserIndex Store.Constraints Store.Dml
     Store.TableLaws Store.UserIndexLaws.
Import ListNotations.

(* ------------------------------------------------------------------------------------ *)
(** * The invariant of one table *)

(** C10: every declared constraint holds of the rows.
    PRIMARY KEY: no two rows with the same key; UNIQUE constraints and UNIQUE indexes: no two
    rows with the same NULL-free key; NOT NULL; no CHECK (declared in CREATE TABLE or added by
    ALTER TABLE) evaluates to FALSE. *)
Definition constraints_hold (t : table) : Prop :=
  let s := t_sch t in
  Forall (fun r => notnull_ok (s_notnull s) r = true) (t_rows t)
  /\ (forall cols, s_pk s = Some cols -> uniq_on (pk_kf cols) (t_rows t))
  /\ Forall (fun cols => uniq_on (uq_kf cols) (t_rows t)) (s_uniqs s)
  /\ Forall (fun r => checks_ok (s_checks_decl s) r = true) (t_rows t)
  /\ Forall (fun u => ui_unique u = true -> uniq_on (uq_kf (ui_cols u)) (t_rows t)) (t_uidx t).

Definition opt_am_equiv (a b : option (amap nat)) : Prop :=
  match a, b with
  | Some m1, Some m2 => am_equiv m1 m2
  | None, None => True
  | _, _ => False
  end.

(** C15, constraint hash indexes: each map IS (as a finite map) the map a rebuild from
    scratch produces from the current rows *)
Definition hash_mirror (t : table) : Prop :=
  opt_am_equiv (t_pkidx t) (pk_rebuild (t_sch t) (t_rows t))
  /\ Forall2 am_equiv (t_uqidx t) (uq_rebuild (t_sch t) (t_rows t)).

(** C15, user-defined indexes: each index's data IS the rebuild (row ids under one key up to
    order) *)
Definition user_mirror (t : table) : Prop :=
  Forall (fun u => ui_mirror (ui_cols u) (t_rows t) (ui_data u)) (t_uidx t).

(** well-formedness: every stored row has the schema's arity (Table::insert and update_row
    check the column count), and every CHECK the executors enforce is a declared one *)
Definition rows_wf (t : table) : Prop :=
  Forall (fun r => length r = s_ncols (t_sch t)) (t_rows t)
  /\ incl (s_checks_enf (t_sch t)) (s_checks_decl (t_sch t)).

(** schemas as CREATE TABLE produces them: catalog copy = storage copy *)
Definition created (s : schema) : Prop := s_checks_enf s = s_checks_decl s.

Definition TInv (t : table) : Prop := rows_wf t /\ constraints_hold t /\ hash_mirror t /\ user_mirror t.

(** the database: every table, and every table of the transaction snapshot *)
Definition Inv (d : db) : Prop :=
  Forall TInv (d_tabs d)
  /\ match d_txn d with
     | Some x => Forall TInv (x_snap x) /\ length (x_snap x) = length (d_tabs d)
     | None => True
     end.

Definition db_constraints_hold (d : db) : Prop := Forall constraints_hold (d_tabs d).
Definition db_hash_mirror (d : db) : Prop := Forall hash_mirror (d_tabs d).
Definition db_user_mirror (d : db) : Prop := Forall user_mirror (d_tabs d).

(* ------------------------------------------------------------------------------------ *)
(** * Known classes (each is a narrow, executable predicate on the statement and the state) *)

(** some new row satisfies every CHECK the executors know but falsifies a declared one
    (a CHECK added by ALTER TABLE that only reached the storage copy of the schema) *)
Definition unenforced_check_hit (s : schema) (rows : list row) : bool :=
  existsb (fun r => checks_ok (s_checks_enf s) r && negb (checks_ok (s_checks_decl s) r)) rows.

Definition uidx_nil (t : table) : bool := match t_uidx t with [] => true | _ => false end.

(** INSERT ... VALUES (and the non-bulk INSERT ... SELECT) *)
Definition kc_insert_values (t : table) (rows : list row) : bool :=
  (* unique-index-batch-insert-duplicates *)
  ((1 <? length rows)
      && existsb (fun u => ui_unique u && has_dup (somes (uq_kf (ui_cols u)) rows)) (t_uidx t))
  (* alter-add-check-not-enforced *)
  || unenforced_check_hit (t_sch t) rows.

Definition kc_insert_select (dst : table) (same : bool) (src_sch : schema) (src_rows sel : list row) : bool :=
  if negb same && bulk_compatible (t_sch dst) src_sch then
    unenforced_check_hit (t_sch dst) src_rows
  else if negb (s_ncols src_sch =? s_ncols (t_sch dst)) then false
  else kc_insert_values dst sel.

Definition apply_ups (ups : list (nat * row * row)) (rows : list row) : list row :=
  fold_left (fun rs u => set_nth (fst (fst u)) (snd u) rs) ups rows.

(** UPDATE *)
Definition kc_update (t : table) (asg : list (nat * sexpr)) (w : option pred) : bool :=
  if negb (forallb (fun a => fst a <? s_ncols (t_sch t)) asg) then false else
  match select_rows t w with
  | None => false
  | Some cands =>
      match upd_build t asg cands [] with
      | UPlan ups =>
          let news := map snd ups in
          let s := t_sch t in
          (* multirow-update-same-new-key: two updated rows end with the same PRIMARY KEY / UNIQUE /
             UNIQUE INDEX key *)
          match s_pk s with Some cols => has_dup (somes (pk_kf cols) news) | None => false end
          || existsb (fun cols => has_dup (somes (uq_kf cols) news)) (s_uniqs s)
          || existsb (fun u => ui_unique u && has_dup (somes (uq_kf (ui_cols u)) news)) (t_uidx t)
          (* alter-add-check-not-enforced *)
          || unenforced_check_hit s news
      | _ => false
      end
  end.

(** savepoint-undo-leaves-user-index-stale (C14): an undone insert into a table with a user index *)
Definition kc_rollback_to (d : db) (name : Z) : bool :=
  match d_txn d with
  | None => false
  | Some x =>
      match save_pos name (x_saves x) 0 with
      | None => false
      | Some (_, idx) =>
          existsb (fun ch => match nth_error (d_tabs d) (fst ch) with
                             | Some t => negb (uidx_nil t)
                             | None => false end) (skipn idx (x_changes x))
      end
  end.

Definition with_tab (d : db) (ti : nat) (f : table -> bool) : bool :=
  match nth_error (d_tabs d) ti with Some t => f t | None => false end.

Definition known_class (s : stmt) (d : db) : bool :=
  match s with
  | SInsert ti rows => with_tab d ti (fun t => kc_insert_values t rows)
  | SInsertSelect dst src sel =>
      match nth_error (d_tabs d) dst, nth_error (d_tabs d) src with
      | Some td, Some ts => kc_insert_select td (dst =? src) (t_sch ts) (t_rows ts) sel
      | _, _ => false
      end
  | SUpdate ti asg w => with_tab d ti (fun t => kc_update t asg w)
  | SDelete _ _ | STruncate _ => false
  | SCreateIndex _ _ _ _ | SDropIndex _ => false
  (* alter-add-constraint-unvalidated *)
  | SAddPk ti cols => with_tab d ti (fun t => match s_pk (t_sch t) with
                                             | Some _ => false
                                             | None => has_dup (somes (pk_kf cols) (t_rows t)) end)
  | SAddUnique ti cols => with_tab d ti (fun t => has_dup (somes (uq_kf cols) (t_rows t)))
  | SAddCheck ti c => with_tab d ti (fun t => existsb (fun r => negb (check_ok c r)) (t_rows t))
  | SBegin | SCommit | SRollback | SSavepoint _ | SRelease _ => false
  | SRollbackTo name => kc_rollback_to d name
  end.

(** a history none of whose statements falls into a known class at the point where it runs *)
Fixpoint clean (d : db) (ss : list stmt) : bool :=
  match ss with
  | [] => true
  | s :: rest => negb (known_class s d) && clean (fst (step d s)) rest
  end.
