(** Model of crates/vibesql-python-bindings/src/cursor.rs [Cursor::execute] as a state machine.

    STATUS (working tree of /repo as of the last run): fixes/C30-cache-key-bound-text.patch is applied.
    The code as it is NOW binds first and keys [stmt_cache] by the BOUND text: it is [execute_now] =
    [execute_fixed process_now] at the end of this file.  [execute] (lookup by the UNBOUND text before
    binding) is the code BEFORE that fix commit, kept as the record the "fixed:" finding refers to; the
    description below is of that earlier control flow, [execute_fixed] differs from it only in the order
    "bind, then look the bound text up".

    State of one cursor: [stmt_cache] (lru::LruCache<String, Statement>, capacity [cap] = 1000 in the
    code; most recently used entry first) and [last_result].  The database belongs to the connection.

    What the code does, transcribed:
      1. look the UNBOUND text up in [stmt_cache] ([LruCache::get] promotes the entry);
      2. hit  -> the cached statement is executed; [params] is not looked at, not even counted;
      3. miss -> [bind_parameters] (count check, conversion, substitution) when [params] is given,
                 else the text as it is; [Parser::parse_sql] of the BOUND text; the statement is stored
                 under the UNBOUND text ([LruCache::put], evicting the least recently used entry at
                 capacity) BEFORE it is executed (so also when execution fails or the kind is unsupported);
      4. execution by statement kind; CREATE/DROP TABLE/VIEW clear the cache after success; every other
         kind than SELECT/INSERT/UPDATE/DELETE/CREATE|DROP TABLE|VIEW is a ProgrammingError;
      5. [last_result] is replaced only on success (fetchall after a failed execute returns the
         previous result).

    The parser and the executors are abstract ([parse], [kind], [exec] are Section variables).
    Not modelled: UPDATE's [schema_cache] (a per-cursor copy of the table schema, cleared together with
    [stmt_cache]; equal to the catalog's as long as all DDL goes through this cursor), the hit/miss
    counters, the profiler, pyo3 argument extraction.

    Also in this file, as specifications (not code): [execute_fixed] = the same machine with the two
    repairs of fixes/C30-*.patch (bind with the literal-aware [bind_spec] FIRST, key the cache by the
    bound text), [spec_call] = no cache at all.  Executable definitions only; no proofs. *)
From Coq Require Import List ZArith Bool.
From VibeSQL Require Import Lex.Placeholder Lex.PlaceholderFixed.
Import ListNotations.
Open Scope Z_scope.

Inductive skind : Type :=
| KSelect
| KDml           (* Insert, Update, Delete *)
| KDdl           (* CreateTable, DropTable, CreateView, DropView: clear the caches on success *)
| KUnsupported.  (* every other Statement variant *)

Definition clears_cache (k : skind) : bool := match k with KDdl => true | _ => false end.

Section Cursor.
  Variable stmt : Type.                         (* vibesql_ast::Statement *)
  Variable D : Type.                            (* vibesql_storage::Database *)
  Variable res : Type.                          (* QueryResultData *)
  Variable parse : text -> option stmt.         (* Parser::parse_sql; None = parse error *)
  Variable kind : stmt -> skind.
  Variable exec : D -> stmt -> D * option res.  (* the executors; None = ExecutorError *)
  Variable cap : nat.                           (* NonZeroUsize::new(1000) *)

  Inductive outcome : Type :=
  | OOk (r : res)
  | OProgBind            (* ProgrammingError: parameter count mismatch / unconvertible parameter *)
  | OProgParse           (* ProgrammingError: parse error *)
  | OProgUnsupported     (* ProgrammingError: statement type not yet supported *)
  | OOperational.        (* OperationalError: execution error *)

  Definition lru := list (text * stmt).

  Record cursor : Type := { cache : lru; last : option res }.
  Definition new_cursor : cursor := {| cache := []; last := None |}.

  Fixpoint lru_find (k : text) (l : lru) : option stmt :=
    match l with
    | [] => None
    | (k', s) :: r => if text_eqb k' k then Some s else lru_find k r
    end.

  Definition lru_remove (k : text) (l : lru) : lru := filter (fun e => negb (text_eqb (fst e) k)) l.

  (** [LruCache::get]: the entry moves to the front *)
  Definition lru_get (k : text) (l : lru) : option (stmt * lru) :=
    match lru_find k l with
    | Some s => Some (s, (k, s) :: lru_remove k l)
    | None => None
    end.

  (** [LruCache::put]: insert/replace at the front; beyond capacity the last entry is dropped *)
  Definition lru_put (k : text) (s : stmt) (l : lru) : lru := firstn cap ((k, s) :: lru_remove k l).

  (** the [match stmt { .. }] of [execute]: new database, new [last_result], outcome, and whether
      the caches are cleared *)
  Definition exec_stmt (d : D) (lastr : option res) (st : stmt) : D * option res * outcome * bool :=
    match kind st with
    | KUnsupported => (d, lastr, OProgUnsupported, false)
    | k =>
      let (d', r) := exec d st in
      match r with
      | None => (d', lastr, OOperational, false)
      | Some x => (d', Some x, OOk x, clears_cache k)
      end
    end.

  Definition run_stmt (d : D) (c : cursor) (st : stmt) : D * cursor * outcome :=
    let '(d', l', o, clr) := exec_stmt d (last c) st in
    (d', {| cache := if clr then [] else cache c; last := l' |}, o).

  (** [Cursor::execute] *)
  Definition execute (d : D) (c : cursor) (sql : text) (params : option (list pyval)) : D * cursor * outcome :=
    match lru_get sql (cache c) with
    | Some (st, cache') => run_stmt d {| cache := cache'; last := last c |} st
    | None =>
      match process sql params with
      | None => (d, c, OProgBind)
      | Some t =>
        match parse t with
        | None => (d, c, OProgParse)
        | Some st => run_stmt d {| cache := lru_put sql st (cache c); last := last c |} st
        end
      end
    end.

  Definition call := (text * option (list pyval))%type.

  Fixpoint run_cursor (d : D) (c : cursor) (calls : list call) : list outcome * D * cursor :=
    match calls with
    | [] => ([], d, c)
    | (sql, ps) :: rest =>
      let '(d', c', o) := execute d c sql ps in
      let '(os, d'', c'') := run_cursor d' c' rest in
      (o :: os, d'', c'')
    end.

  (** * the same machine with an arbitrary binder, bound FIRST, and the cache keyed by the BOUND text
      ([binder := process_spec] is the repaired cursor, [binder := process] repairs the cache only) *)
  Section Fixed.
    Variable binder : text -> option (list pyval) -> option text.

    Definition execute_fixed (d : D) (c : cursor) (sql : text) (params : option (list pyval)) : D * cursor * outcome :=
      match binder sql params with
      | None => (d, c, OProgBind)
      | Some t =>
        match lru_get t (cache c) with
        | Some (st, cache') => run_stmt d {| cache := cache'; last := last c |} st
        | None =>
          match parse t with
          | None => (d, c, OProgParse)
          | Some st => run_stmt d {| cache := lru_put t st (cache c); last := last c |} st
          end
        end
      end.

    (** the control flow of the code as it is (lookup by the unbound text first), with the binder as a
        parameter: [execute_b] with [binder := process] is [execute] *)
    Definition execute_b (d : D) (c : cursor) (sql : text) (params : option (list pyval)) : D * cursor * outcome :=
      match lru_get sql (cache c) with
      | Some (st, cache') => run_stmt d {| cache := cache'; last := last c |} st
      | None =>
        match binder sql params with
        | None => (d, c, OProgBind)
        | Some t =>
          match parse t with
          | None => (d, c, OProgParse)
          | Some st => run_stmt d {| cache := lru_put sql st (cache c); last := last c |} st
          end
        end
      end.

    (** runner switch: which cache key discipline the source has *)
    Definition execute_v (bound_key : bool) := if bound_key then execute_fixed else execute_b.

    Fixpoint run_fixed (d : D) (c : cursor) (calls : list call) : list outcome * D * cursor :=
      match calls with
      | [] => ([], d, c)
      | (sql, ps) :: rest =>
        let '(d', c', o) := execute_fixed d c sql ps in
        let '(os, d'', c'') := run_fixed d' c' rest in
        (o :: os, d'', c'')
      end.

    (** * no cache: bind, parse, execute *)
    Definition plain_call (d : D) (lastr : option res) (sql : text) (params : option (list pyval))
      : D * option res * outcome :=
      match binder sql params with
      | None => (d, lastr, OProgBind)
      | Some t =>
        match parse t with
        | None => (d, lastr, OProgParse)
        | Some st => let '(d', l', o, _) := exec_stmt d lastr st in (d', l', o)
        end
      end.

    Fixpoint run_plain (d : D) (lastr : option res) (calls : list call) : list outcome * D * option res :=
      match calls with
      | [] => ([], d, lastr)
      | (sql, ps) :: rest =>
        let '(d', l', o) := plain_call d lastr sql ps in
        let '(os, d'', l'') := run_plain d' l' rest in
        (o :: os, d'', l'')
      end.
  End Fixed.

  (** the property's right-hand side: every call executes the SQL with the placeholders outside
      literals replaced by literals of that call's values; no state besides the database *)
  Definition run_spec (d : D) (calls : list call) : list outcome * D * option res :=
    run_plain process_spec d None calls.

  (** * the code as it is now: unrepresentable values refused, every '?' substituted, cache keyed by
      the bound text *)
  Definition execute_now := execute_fixed process_now.
  Definition run_now := run_fixed process_now.

End Cursor.

Arguments OOk {res} r.
Arguments OProgBind {res}.
Arguments OProgParse {res}.
Arguments OProgUnsupported {res}.
Arguments OOperational {res}.
Arguments cache {stmt res} c.
Arguments last {stmt res} c.
Arguments new_cursor {stmt res}.
