(** The repaired transaction layer (Store/SavepointFixed.v) satisfies C14 for every history:
    ROLLBACK TO restores every table as a bag whatever INSERT / UPDATE / DELETE statements ran since
    the savepoint -- the proof obligation the proposed patch has to meet. *)
From Coq Require Import List ZArith Bool Arith Lia.
From VibeSQL Require Import Base.LexOrd Value.SqlValue Value.ValueLaws Store.Txn Store.Savepoint
  Store.TxnLaws Store.SavepointLaws Store.SavepointFixed.
Import ListNotations.
Open Scope Z_scope.

(** * More about bags *)
Lemma remove_first_bag_minus r l A B :
  bag_eq l (A ++ r :: B) -> exists l', remove_first r l = Some l' /\ bag_eq l' (A ++ B).
Proof.
  intros H.
  assert (Hpos : (0 < count_row r l)%nat).
  { rewrite (H r), count_row_app, count_row_cons, row_eqb_refl. lia. }
  destruct (remove_first_found r l Hpos) as [l' Hl']. exists l'; split; [assumption|].
  intros c. pose proof (remove_first_count r l l' Hl' c) as Hc.
  rewrite (H c), count_row_app, count_row_cons in Hc. rewrite count_row_app. lia.
Qed.

Lemma remove_first_bag r l1 l2 l1' :
  bag_eq l1 l2 -> remove_first r l1 = Some l1' ->
  exists l2', remove_first r l2 = Some l2' /\ bag_eq l1' l2'.
Proof.
  intros H R.
  assert (Hpos : (0 < count_row r l2)%nat).
  { rewrite <- (H r). rewrite (remove_first_count r l1 l1' R r), row_eqb_refl. lia. }
  destruct (remove_first_found r l2 Hpos) as [l2' R2]. exists l2'; split; [assumption|].
  intros c. pose proof (remove_first_count r l1 l1' R c). pose proof (remove_first_count r l2 l2' R2 c).
  specialize (H c). lia.
Qed.

Lemma remove_first_readd r l l' : remove_first r l = Some l' -> bag_eq (l' ++ [r]) l.
Proof.
  intros R c. rewrite (remove_first_count r l l' R c), count_row_app, count_row_cons, count_row_nil. lia.
Qed.

(** * Replaying a change log (all three kinds of change) on a copy of the tables *)
Definition change_table (c : change) : tname :=
  match c with CInsert t _ | CUpdate t _ _ | CDelete t _ => t end.

Definition apply_change_rows (c : change) (rows : list row) : option (list row) :=
  match c with
  | CInsert _ r => Some (rows ++ [r])
  | CUpdate _ old new =>
      match remove_first old rows with Some l => Some (l ++ [new]) | None => None end
  | CDelete _ r => remove_first r rows
  end.

Definition replay_change_f (T : tables) (c : change) : option tables :=
  match get_table T (change_table c) with
  | None => None
  | Some tb =>
      match apply_change_rows c (t_rows tb) with
      | Some rows' => Some (set_table T (change_table c) (mkTable (t_cols tb) rows'))
      | None => None
      end
  end.

Fixpoint replay_f (T : tables) (cs : list change) : option tables :=
  match cs with
  | [] => Some T
  | c :: rest => match replay_change_f T c with Some T' => replay_f T' rest | None => None end
  end.

Lemma replay_f_app T a : forall b,
  replay_f T (a ++ b) = match replay_f T a with Some T' => replay_f T' b | None => None end.
Proof.
  revert T; induction a as [|c a IH]; intros T b; cbn [app replay_f]; [reflexivity|].
  destruct (replay_change_f T c); [apply IH|reflexivity].
Qed.

Lemma apply_change_rows_bag c l1 l2 l1' :
  bag_eq l1 l2 -> apply_change_rows c l1 = Some l1' ->
  exists l2', apply_change_rows c l2 = Some l2' /\ bag_eq l1' l2'.
Proof.
  intros H. destruct c as [t r|t old new|t r]; cbn [apply_change_rows].
  - intros E; inversion E; subst. eexists; split; [reflexivity|]. apply bag_eq_app; auto using bag_eq_refl.
  - destruct (remove_first old l1) as [l|] eqn:R; [|discriminate]. intros E; inversion E; subst.
    destruct (remove_first_bag _ _ _ _ H R) as (l2' & -> & Hb). eexists; split; [reflexivity|].
    apply bag_eq_app; auto using bag_eq_refl.
  - intros R. destruct (remove_first_bag _ _ _ _ H R) as (l2' & -> & Hb). eauto.
Qed.

Lemma replay_change_f_beq T1 T2 c T1' :
  tabs_beq T1 T2 -> replay_change_f T1 c = Some T1' ->
  exists T2', replay_change_f T2 c = Some T2' /\ tabs_beq T1' T2'.
Proof.
  intros H. unfold replay_change_f. destruct (get_table T1 (change_table c)) as [tb1|] eqn:G1; [|discriminate].
  destruct (tabs_beq_get _ _ _ _ H G1) as (tb2 & -> & Hc & Hb).
  destruct (apply_change_rows c (t_rows tb1)) as [rows1|] eqn:A; [|discriminate]. intros E; inversion E; subst.
  destruct (apply_change_rows_bag _ _ _ _ Hb A) as (rows2 & -> & Hb'). eexists; split; [reflexivity|].
  apply tabs_beq_set; cbn; auto.
Qed.

Lemma replay_f_beq cs : forall T1 T2 T1',
  tabs_beq T1 T2 -> replay_f T1 cs = Some T1' -> exists T2', replay_f T2 cs = Some T2' /\ tabs_beq T1' T2'.
Proof.
  induction cs as [|c cs IH]; intros T1 T2 T1' H; cbn [replay_f].
  - intros E; inversion E; subst. eauto.
  - destruct (replay_change_f T1 c) as [U1|] eqn:R; [|discriminate]. intros E.
    destruct (replay_change_f_beq _ _ _ _ H R) as (U2 & -> & HU). eauto.
Qed.

(** putting a table back: if [T] matches [Y0] with table [t] replaced, and the new contents of [t] in
    [T] match the old contents of [t] in [Y0], then everything matches *)
Lemma tabs_beq_set_back T Y0 t tb0 tbY tbT' :
  tabs_beq T (set_table Y0 t tbY) -> get_table Y0 t = Some tb0 ->
  t_cols tbT' = t_cols tb0 -> bag_eq (t_rows tbT') (t_rows tb0) ->
  tabs_beq (set_table T t tbT') Y0.
Proof.
  intros H G Hc Hb. rewrite <- (set_table_same Y0 t tb0 G) at 1.
  rewrite <- (set_set_table Y0 t tbY tb0). apply tabs_beq_set; assumption.
Qed.

(** one undo step inverts one replay step (on bags) *)
Lemma undo_change_f_inverts Y0 Y T c :
  replay_change_f Y0 c = Some Y -> tabs_beq T Y ->
  exists T1, undo_change_f T c = (T1, Done tt) /\ tabs_beq T1 Y0.
Proof.
  unfold replay_change_f. destruct (get_table Y0 (change_table c)) as [tb0|] eqn:G0; [|discriminate].
  destruct (apply_change_rows c (t_rows tb0)) as [rowsY|] eqn:A; [|discriminate].
  intros E HB; inversion E; subst Y.
  assert (GY : get_table (set_table Y0 (change_table c) (mkTable (t_cols tb0) rowsY)) (change_table c)
               = Some (mkTable (t_cols tb0) rowsY)) by (eapply get_set_same; eauto).
  destruct (tabs_beq_get _ _ _ _ (tabs_beq_sym _ _ HB) GY) as (tbT & GT & Hc & Hb).
  cbn [t_cols t_rows] in Hc, Hb. apply bag_eq_sym in Hb.
  destruct c as [t r|t old new|t r]; cbn [change_table apply_change_rows undo_change_f] in *; rewrite GT.
  - inversion A; subst rowsY.
    destruct (remove_first_undoes_append r r _ _ (row_eqb_refl r) Hb) as (l' & -> & Hl').
    eexists; split; [reflexivity|]. eapply tabs_beq_set_back; eauto.
  - destruct (remove_first old (t_rows tb0)) as [l|] eqn:R; [|discriminate]. inversion A; subst rowsY.
    destruct (remove_first_undoes_append new new _ _ (row_eqb_refl new) Hb) as (l' & -> & Hl').
    eexists; split; [reflexivity|]. eapply tabs_beq_set_back; eauto. cbn [t_rows].
    eapply bag_eq_trans; [|apply (remove_first_readd old _ _ R)]. apply bag_eq_app; auto using bag_eq_refl.
  - eexists; split; [reflexivity|]. eapply tabs_beq_set_back; eauto. cbn [t_rows].
    eapply bag_eq_trans; [|apply (remove_first_readd r _ _ A)]. apply bag_eq_app; auto using bag_eq_refl.
Qed.

(** the key lemma of the repaired model: undoing a replayed suffix in reverse gives back the copy *)
Lemma undo_replay_f cs : forall T X Y,
  replay_f X cs = Some Y -> tabs_beq T Y ->
  exists T', undo_all_f T (rev cs) = (T', Done tt) /\ tabs_beq T' X.
Proof.
  induction cs as [|c pre IH] using rev_ind; intros T X Y HR HB.
  - cbn in HR. inversion HR; subst. exists T. cbn. auto.
  - rewrite replay_f_app in HR. destruct (replay_f X pre) as [Y0|] eqn:R0; [|discriminate].
    cbn [replay_f] in HR. destruct (replay_change_f Y0 c) as [Y1|] eqn:R1; [|discriminate].
    inversion HR; subst Y1.
    destruct (undo_change_f_inverts _ _ _ _ R1 HB) as (T1 & HU1 & HB1).
    destruct (IH T1 X Y0 R0 HB1) as (T' & HU & HB').
    exists T'. rewrite rev_app_distr. cbn [rev app undo_all_f]. rewrite HU1. auto.
Qed.

(** * The invariant: for a clean copy, the current tables are (as bags) the copy with the log
    suffix replayed on it *)
Definition cl_f (T : tables) (suffix : list change) (copy : tables) : Prop :=
  exists Y, replay_f copy suffix = Some Y /\ tabs_beq T Y.

Fixpoint stack_inv_f (T : tables) (log : list change) (lo : nat) (sps : list (spname * nat)) (g : ghost) : Prop :=
  match sps, g with
  | [], [] => True
  | (n, i) :: sps', e :: g' =>
      n = g_name e /\ (lo <= i)%nat /\ (i <= length log)%nat /\
      (g_dirty e = false -> cl_f T (skipn i log) (g_copy e) /\ Forall (fun e' => g_dirty e' = false) g') /\
      stack_inv_f T log i sps' g'
  | _, _ => False
  end.

Definition ginv_f (d : db) (g : ghost) : Prop :=
  match d_tx d with
  | None => g = []
  | Some x => stack_inv_f (d_tabs d) (x_log x) 0 (x_sps x) g
  end.

Lemma stack_inv_f_length T log lo sps g : stack_inv_f T log lo sps g -> length sps = length g.
Proof.
  revert lo g; induction sps as [|[n i] sps IH]; intros lo [|e g]; cbn; try tauto.
  intros (_ & _ & _ & _ & H). f_equal. eauto.
Qed.

Lemma stack_inv_f_weaken T log lo lo' sps g :
  (lo' <= lo)%nat -> stack_inv_f T log lo sps g -> stack_inv_f T log lo' sps g.
Proof.
  destruct sps as [|[n i] sps], g as [|e g]; cbn; try tauto.
  intros Hl (H1 & H2 & H3 & H4 & H5). repeat split; auto; try lia; apply H4; auto.
Qed.

Lemma stack_inv_f_bounds T log : forall sps g lo j n i,
  stack_inv_f T log lo sps g -> nth_error sps j = Some (n, i) -> (lo <= i <= length log)%nat.
Proof.
  induction sps as [|[n0 i0] sps IH]; intros [|e g] lo j n i H Hn; cbn in H; try tauto;
    try (destruct j; discriminate).
  destruct H as (H1 & H2 & H3 & H4 & H5). destruct j as [|j]; cbn in Hn.
  - inversion Hn; subst. lia.
  - specialize (IH g i0 j n i H5 Hn). lia.
Qed.

Lemma stack_inv_f_positions T log n : forall sps g lo,
  stack_inv_f T log lo sps g -> g_position n g = sp_position n sps.
Proof.
  induction sps as [|[n0 i0] sps IH]; intros [|e g] lo H; cbn in H; try tauto; try reflexivity.
  destruct H as (H1 & _ & _ & _ & H5). cbn [g_position sp_position]. subst n0.
  destruct (g_name e =? n); [reflexivity|]. now rewrite (IH g i0 H5).
Qed.

Lemma stack_inv_f_taint T T' log extra : forall sps g lo,
  stack_inv_f T log lo sps g -> stack_inv_f T' (log ++ extra) lo sps (g_taint g).
Proof.
  induction sps as [|[n i] sps IH]; intros [|e g] lo H; cbn in H |- *; try tauto.
  destruct H as (H1 & H2 & H3 & H4 & H5). repeat split; auto.
  - rewrite app_length. lia.
  - discriminate.
  - discriminate.
Qed.

Lemma stack_inv_f_extend T T' log extra :
  (forall X, tabs_beq T X -> exists X', replay_f X extra = Some X' /\ tabs_beq T' X') ->
  forall sps g lo, stack_inv_f T log lo sps g -> stack_inv_f T' (log ++ extra) lo sps g.
Proof.
  intros HR. induction sps as [|[n i] sps IH]; intros [|e g] lo H; cbn in H |- *; try tauto.
  destruct H as (H1 & H2 & H3 & H4 & H5). repeat split; auto.
  - rewrite app_length. lia.
  - destruct (H4 H) as ((Y & RY & BY) & F). rewrite skipn_app_le by assumption.
    destruct (HR Y BY) as (Y' & RY' & BY'). exists Y'. split; [|assumption].
    now rewrite replay_f_app, RY.
  - apply H4; assumption.
Qed.

Lemma stack_inv_f_push T log n : forall sps g lo,
  (lo <= length log)%nat -> stack_inv_f T log lo sps g ->
  stack_inv_f T log lo (sps ++ [(n, length log)]) (g ++ [mkG n T false]).
Proof.
  induction sps as [|[n0 i0] sps IH]; intros [|e g] lo Hlo H; cbn in H |- *; try tauto.
  - split; [reflexivity|]. split; [assumption|]. split; [lia|]. split; [|exact I].
    intros _. cbn [g_copy]. rewrite skipn_all. split; [|constructor].
    exists T. split; [reflexivity|apply tabs_beq_refl].
  - destruct H as (H1 & H2 & H3 & H4 & H5). repeat split; auto; try (apply H4; assumption).
    apply Forall_app; split; [apply H4; assumption|repeat constructor].
Qed.

Lemma stack_inv_f_remove T log j : forall sps g lo,
  stack_inv_f T log lo sps g -> stack_inv_f T log lo (remove_nth j sps) (remove_nth j g).
Proof.
  induction j as [|j IH]; intros [|[n i] sps] [|e g] lo H; cbn in H |- *; try tauto.
  - destruct H as (_ & H2 & _ & _ & H5). eapply stack_inv_f_weaken; [|exact H5]. assumption.
  - destruct H as (H1 & H2 & H3 & H4 & H5). repeat split; auto; try (apply H4; assumption).
    apply Forall_remove_nth. apply H4; assumption.
Qed.

Lemma stack_inv_f_cut_clean T T' log idx :
  (idx <= length log)%nat ->
  (forall X Y, replay_f X (skipn idx log) = Some Y -> tabs_beq T Y -> tabs_beq T' X) ->
  forall sps g lo j n,
    stack_inv_f T log lo sps g -> nth_error sps j = Some (n, idx) ->
    stack_inv_f T' (firstn idx log) lo (firstn (S j) sps) (firstn (S j) g).
Proof.
  intros Hidx HP. induction sps as [|[n0 i0] sps IH]; intros [|e g] lo j n H Hn; cbn in H; try tauto;
    try (destruct j; discriminate).
  destruct H as (H1 & H2 & H3 & H4 & H5).
  assert (Hi0 : (i0 <= idx)%nat).
  { destruct j as [|j]; cbn in Hn; [inversion Hn; lia|].
    pose proof (stack_inv_f_bounds _ _ _ _ _ _ _ _ H5 Hn). lia. }
  cbn [firstn stack_inv_f]. split; [assumption|]. split; [assumption|]. split.
  { rewrite firstn_length_le by assumption. assumption. }
  split.
  - intros Hd. destruct (H4 Hd) as ((Y & RY & BY) & F).
    rewrite (skipn_firstn_split i0 idx log Hi0), replay_f_app in RY.
    destruct (replay_f (g_copy e) (skipn i0 (firstn idx log))) as [Y0|] eqn:R0; [|discriminate]. split.
    + exists Y0. split; [exact R0|]. eapply HP; eauto.
    + destruct j; [cbn; constructor|]. apply Forall_forall. intros e' He'.
      rewrite Forall_forall in F. apply F. eapply In_firstn_in; exact He'.
  - destruct j as [|j]; cbn in Hn.
    + destruct sps, g; cbn; auto.
    + eapply IH; eauto.
Qed.

Lemma stack_inv_f_cut_dirty T T' log idx :
  (idx <= length log)%nat ->
  forall sps g lo j n e,
    stack_inv_f T log lo sps g -> nth_error sps j = Some (n, idx) -> nth_error g j = Some e ->
    g_dirty e = true ->
    stack_inv_f T' (firstn idx log) lo (firstn (S j) sps) (firstn (S j) g).
Proof.
  intros Hidx. induction sps as [|[n0 i0] sps IH]; intros [|e0 g] lo j n e H Hn Hg Hd; cbn in H; try tauto;
    try (destruct j; discriminate).
  destruct H as (H1 & H2 & H3 & H4 & H5).
  assert (Hi0 : (i0 <= idx)%nat).
  { destruct j as [|j]; cbn in Hn; [inversion Hn; lia|].
    pose proof (stack_inv_f_bounds _ _ _ _ _ _ _ _ H5 Hn). lia. }
  assert (Hd0 : g_dirty e0 = true).
  { destruct (g_dirty e0) eqn:E0; [reflexivity|]. destruct j as [|j]; cbn in Hg.
    - inversion Hg; subst; congruence.
    - destruct (H4 eq_refl) as (_ & F). rewrite Forall_forall in F.
      rewrite (F e (nth_error_In _ _ Hg)) in Hd. discriminate. }
  cbn [firstn stack_inv_f]. split; [assumption|]. split; [assumption|]. split.
  { rewrite firstn_length_le by assumption. assumption. }
  split; [intros Hc; congruence|].
  destruct j as [|j]; cbn in Hn, Hg.
  - destruct sps, g; cbn; auto.
  - eapply IH; eauto.
Qed.

Lemma stack_inv_f_nth T log : forall sps g lo j n i e,
  stack_inv_f T log lo sps g -> nth_error sps j = Some (n, i) -> nth_error g j = Some e ->
  g_dirty e = false -> cl_f T (skipn i log) (g_copy e).
Proof.
  induction sps as [|[n0 i0] sps IH]; intros [|e0 g] lo j n i e H Hn Hg Hd; cbn in H; try tauto;
    try (destruct j; discriminate).
  destruct H as (H1 & H2 & H3 & H4 & H5). destruct j as [|j]; cbn in Hn, Hg.
  - inversion Hn; inversion Hg; subst. destruct (H4 Hd) as (C & _). exact C.
  - eapply IH; eauto.
Qed.

(** * Effect of the data statements of the repaired model *)
Definition effect_f (d d' : db) : Prop :=
  exists extra,
    tx_grow d d' extra /\
    (forall X, tabs_beq (d_tabs d) X -> exists X', replay_f X extra = Some X' /\ tabs_beq (d_tabs d') X').

Lemma effect_f_refl d : effect_f d d.
Proof. exists []. split; [apply tx_grow_refl|]. intros X HX. exists X. auto. Qed.

Lemma effect_f_same_tabs c U d : effect_f d (mkDb c (d_tabs d) U (d_tx d)).
Proof. exists []. split; [apply tx_grow_same_tx|]. intros X HX. exists X. auto. Qed.

(** a log of changes to one table acts on that table's rows *)
Fixpoint apply_changes_rows (cs : list change) (rows : list row) : option (list row) :=
  match cs with
  | [] => Some rows
  | c :: rest => match apply_change_rows c rows with Some rows' => apply_changes_rows rest rows' | None => None end
  end.

Lemma replay_f_one_table t cs : forall X tbX,
  Forall (fun c => change_table c = t) cs -> get_table X t = Some tbX ->
  replay_f X cs = match apply_changes_rows cs (t_rows tbX) with
                  | Some rows' => Some (set_table X t (mkTable (t_cols tbX) rows'))
                  | None => None
                  end.
Proof.
  induction cs as [|c cs IH]; intros X tbX HF G; cbn [replay_f apply_changes_rows].
  - destruct tbX. cbn. now rewrite (set_table_same _ _ _ G).
  - pose proof (Forall_inv HF) as Hc. pose proof (Forall_inv_tail HF) as HF'. cbn beta in Hc.
    unfold replay_change_f. rewrite Hc, G.
    destruct (apply_change_rows c (t_rows tbX)) as [rows1|]; [|reflexivity].
    rewrite (IH _ (mkTable (t_cols tbX) rows1) HF') by (eapply get_set_same; eauto).
    cbn [t_cols t_rows]. destruct (apply_changes_rows cs rows1); [|reflexivity]. now rewrite set_set_table.
Qed.

(** lifting an effect on the rows of table [t] to the tables *)
Lemma effect_rows_lift d t tb rows' c' U' extra :
  get_table (d_tabs d) t = Some tb ->
  Forall (fun c => change_table c = t) extra ->
  (forall xrows, bag_eq (t_rows tb) xrows ->
                 exists xrows', apply_changes_rows extra xrows = Some xrows' /\ bag_eq rows' xrows') ->
  effect_f d (record (mkDb c' (set_table (d_tabs d) t (mkTable (t_cols tb) rows')) U' (d_tx d)) extra).
Proof.
  intros G HF HR. exists extra. split; [apply tx_grow_record|]. rewrite record_tabs. cbn [d_tabs].
  intros X HX. destruct (tabs_beq_get _ _ _ _ HX G) as (tbX & GX & Hc & Hb).
  destruct (HR _ Hb) as (xrows' & HA & Hb'). rewrite (replay_f_one_table t extra X tbX HF GX), HA.
  eexists; split; [reflexivity|]. apply tabs_beq_set; cbn; auto.
Qed.

Lemma apply_inserts_rows t rs : forall xrows, apply_changes_rows (map (CInsert t) rs) xrows = Some (xrows ++ rs).
Proof.
  induction rs as [|r rs IH]; intros xrows; cbn [map apply_changes_rows apply_change_rows].
  - now rewrite app_nil_r.
  - rewrite IH, <- app_assoc. reflexivity.
Qed.

Lemma Forall_map_table {A} t (f : A -> change) l : (forall a, change_table (f a) = t) -> Forall (fun c => change_table c = t) (map f l).
Proof. intros H. apply Forall_forall. intros c Hc. apply in_map_iff in Hc as (a & <- & _). apply H. Qed.

Lemma api_insert_row_f_effect d t r : effect_f d (fst (api_insert_row_f d t r)).
Proof.
  unfold api_insert_row_f. destruct (get_table (d_tabs d) t) as [tb|] eqn:G; [|apply effect_f_refl].
  destruct (normalize_row (t_cols tb) r) as [r'| |]; try apply effect_f_refl. cbn [fst].
  apply (effect_rows_lift d t tb (t_rows tb ++ [r']) _ _ [CInsert t r'] G); [repeat constructor|].
  intros xrows Hb. cbn. eexists; split; [reflexivity|]. apply bag_eq_app; auto using bag_eq_refl.
Qed.

Lemma api_insert_batch_f_effect d t rs :
  snd (api_insert_batch_f d t rs) <> RPanic -> effect_f d (fst (api_insert_batch_f d t rs)).
Proof.
  unfold api_insert_batch_f. destruct rs as [|r0 rs0]; [intros _; apply effect_f_refl|].
  destruct (get_table (d_tabs d) t) as [tb|] eqn:G; [|intros _; apply effect_f_refl].
  destruct (normalize_many (t_cols tb) (r0 :: rs0)) as [stored st].
  assert (HE : forall c' U', effect_f d (record (mkDb c' (set_table (d_tabs d) t (mkTable (t_cols tb) (t_rows tb ++ stored))) U' (d_tx d)) (map (CInsert t) stored))).
  { intros c' U'. apply (effect_rows_lift d t tb _ _ _ _ G); [now apply Forall_map_table|].
    intros xrows Hb. rewrite apply_inserts_rows. eexists; split; [reflexivity|].
    apply bag_eq_app; auto using bag_eq_refl. }
  destruct st as [u| |]; cbn [fst snd]; intros Hp; try apply HE. congruence.
Qed.

Lemma sql_insert_f_effect d t rows :
  snd (sql_insert_f d t rows) <> RPanic -> effect_f d (fst (sql_insert_f d t rows)).
Proof.
  unfold sql_insert_f. destruct (get_table (d_tabs d) t) as [tb|] eqn:G; [|intros _; apply effect_f_refl].
  destruct (negb _); [intros _; apply effect_f_refl|].
  destruct (coerce_rows (t_cols tb) rows) as [rs| |]; try (intros _; apply effect_f_refl).
  destruct rs as [|r [|r2 rs]]; [intros _; apply effect_f_refl| |].
  - intros _. apply api_insert_row_f_effect.
  - apply api_insert_batch_f_effect.
Qed.

(** UPDATE: replaying the recorded (old, new) pairs on a bag-equal copy reproduces the new rows.
    [P] is the already processed part of the table. *)
Lemma update_rows_f_replay t cols c k w : forall rows P rows' ps st xrows,
  update_rows_f cols c k w rows = (rows', ps, st) -> bag_eq (P ++ rows) xrows ->
  exists xrows', apply_changes_rows (map (fun p => CUpdate t (fst p) (snd p)) ps) xrows = Some xrows' /\
                 bag_eq (P ++ rows') xrows'.
Proof.
  induction rows as [|r rows IH]; intros P rows' ps st xrows HU HB; cbn [update_rows_f] in HU.
  - inversion HU; subst. cbn. eauto.
  - destruct (matches w r).
    + destruct (normalize_row cols (set_nth c (VInteger k) r)) as [r'| |].
      * destruct (update_rows_f cols c k w rows) as [[rest ps'] st'] eqn:E. inversion HU; subst.
        cbn [map apply_changes_rows apply_change_rows fst snd].
        destruct (remove_first_bag_minus r xrows P rows (bag_eq_sym _ _ HB)) as (l & -> & Hl).
        destruct (IH (P ++ [r']) _ _ _ (l ++ [r']) eq_refl) as (xrows' & HA & Hb').
        { intros q. rewrite !count_row_app, (Hl q), count_row_app. lia. }
        exists xrows'. split; [assumption|]. rewrite <- app_assoc in Hb'. exact Hb'.
      * inversion HU; subst. cbn. eauto.
      * inversion HU; subst. cbn. eauto.
    + destruct (update_rows_f cols c k w rows) as [[rest ps'] st'] eqn:E. inversion HU; subst.
      destruct (IH (P ++ [r]) _ _ _ xrows eq_refl) as (xrows' & HA & Hb').
      { now rewrite <- app_assoc. }
      exists xrows'. split; [assumption|]. rewrite <- app_assoc in Hb'. exact Hb'.
Qed.

Lemma sql_update_f_effect d t c k w :
  snd (sql_update_f d t c k w) <> RPanic -> effect_f d (fst (sql_update_f d t c k w)).
Proof.
  unfold sql_update_f. destruct (get_table (d_tabs d) t) as [tb|] eqn:G; [|intros _; apply effect_f_refl].
  destruct (_ <=? _)%nat; [intros _; apply effect_f_refl|].
  destruct (update_rows_f (t_cols tb) c k w (t_rows tb)) as [[rows' ps] st] eqn:E.
  assert (HE : forall c' U', effect_f d (record (mkDb c' (set_table (d_tabs d) t (mkTable (t_cols tb) rows')) U' (d_tx d))
                                                (map (fun p => CUpdate t (fst p) (snd p)) ps))).
  { intros c' U'. apply (effect_rows_lift d t tb _ _ _ _ G); [now apply Forall_map_table|].
    intros xrows Hb. apply (update_rows_f_replay t _ _ _ _ _ [] _ _ _ _ E). exact Hb. }
  destruct st as [u| |]; cbn [fst snd]; intros Hp; try apply HE. congruence.
Qed.

(** DELETE: replaying the recorded rows removes (as a bag) exactly what the statement removed *)
Lemma delete_replay t w : forall rows P xrows,
  bag_eq (P ++ rows) xrows ->
  exists xrows', apply_changes_rows (map (CDelete t) (filter (matches w) rows)) xrows = Some xrows' /\
                 bag_eq (P ++ filter (fun r => negb (matches w r)) rows) xrows'.
Proof.
  induction rows as [|r rows IH]; intros P xrows HB; cbn [filter map apply_changes_rows].
  - eauto.
  - destruct (matches w r); cbn [negb map apply_changes_rows apply_change_rows].
    + destruct (remove_first_bag_minus r xrows P rows (bag_eq_sym _ _ HB)) as (l & -> & Hl).
      apply IH. now apply bag_eq_sym.
    + destruct (IH (P ++ [r]) xrows) as (xrows' & HA & Hb'); [now rewrite <- app_assoc|].
      exists xrows'. split; [assumption|]. rewrite <- app_assoc in Hb'. exact Hb'.
Qed.

Lemma sql_delete_f_effect d t w : effect_f d (fst (sql_delete_f d t w)).
Proof.
  unfold sql_delete_f. destruct (get_table (d_tabs d) t) as [tb|] eqn:G; [|apply effect_f_refl].
  cbn [fst]. apply (effect_rows_lift d t tb _ _ _ _ G); [now apply Forall_map_table|].
  intros xrows Hb. apply (delete_replay t w (t_rows tb) [] xrows). exact Hb.
Qed.

(** * The invariant along every history of the repaired model *)
Lemma api_insert_row_f_grow d t r : exists extra, tx_grow d (fst (api_insert_row_f d t r)) extra.
Proof.
  unfold api_insert_row_f. repeat (destr_match; cbn [fst]); eauto using tx_grow_refl, tx_grow_record.
Qed.

Lemma api_insert_batch_f_grow d t rs : exists extra, tx_grow d (fst (api_insert_batch_f d t rs)) extra.
Proof.
  unfold api_insert_batch_f.
  repeat (destr_match; cbn [fst]); eauto using tx_grow_refl, tx_grow_record, tx_grow_same_tx.
Qed.

Lemma step_f_data_grow d o : is_data_op o = true -> exists extra, tx_grow d (fst (step_f d o)) extra.
Proof.
  destruct o; try discriminate; intros _; cbn [step_f];
    try (apply (step_data_grow d); reflexivity).
  - unfold sql_insert_f. repeat (destr_match; cbn [fst]);
      eauto using tx_grow_refl, api_insert_row_f_grow, api_insert_batch_f_grow.
  - apply api_insert_row_f_grow.
  - apply api_insert_batch_f_grow.
  - unfold sql_update_f. repeat (destr_match; cbn [fst]); eauto using tx_grow_refl, tx_grow_record, tx_grow_same_tx.
  - unfold sql_delete_f. repeat (destr_match; cbn [fst]); eauto using tx_grow_refl, tx_grow_record.
Qed.

Lemma step_f_data_effect d o :
  is_data_op o = true -> op_clean_f d o = true -> effect_f d (fst (step_f d o)).
Proof.
  unfold op_clean_f. destruct o; try discriminate; intros _; cbn [step_f].
  - intros H. apply sql_insert_f_effect. destruct (snd (sql_insert_f d t rows)); congruence.
  - intros _. apply api_insert_row_f_effect.
  - intros H. apply api_insert_batch_f_effect. destruct (snd (api_insert_batch_f d t rs)); congruence.
  - intros H. apply sql_update_f_effect. destruct (snd (sql_update_f d t c k w)); congruence.
  - intros _. apply sql_delete_f_effect.
  - intros _. cbn [step]. unfold sql_create_index. repeat (destr_match; cbn [fst]); try apply effect_f_refl.
    apply effect_f_same_tabs.
  - intros _. cbn [step]. unfold sql_drop_index. repeat (destr_match; cbn [fst]); try apply effect_f_refl;
    apply effect_f_same_tabs.
Qed.

Lemma ginv_f_init d : d_tx d = None -> ginv_f d [].
Proof. unfold ginv_f. now intros ->. Qed.

Lemma ginv_f_step_data d g o : is_data_op o = true -> ginv_f d g -> ginv_f (fst (step_f d o)) (gstep_f d g o).
Proof.
  intros Hd H. unfold ginv_f in *.
  assert (Hg : gstep_f d g o = if op_clean_f d o then g else g_taint g) by (destruct o; try discriminate; reflexivity).
  rewrite Hg. destruct (d_tx d) as [x|] eqn:E.
  - destruct (op_clean_f d o) eqn:C.
    + destruct (step_f_data_effect d o Hd C) as (extra & HG & HR).
      unfold tx_grow in HG. rewrite E in HG. rewrite HG. cbn [x_log x_sps].
      eapply stack_inv_f_extend; eauto.
    + destruct (step_f_data_grow d o Hd) as (extra & HG).
      unfold tx_grow in HG. rewrite E in HG. rewrite HG. cbn [x_log x_sps].
      apply stack_inv_f_taint with (T := d_tabs d). assumption.
  - subst g. destruct (step_f_data_grow d o Hd) as (extra & HG).
    unfold tx_grow in HG. rewrite E in HG. rewrite HG. destruct (op_clean_f d o); reflexivity.
Qed.

Lemma ginv_f_step d g o : ginv_f d g -> ginv_f (fst (step_f d o)) (gstep_f d g o).
Proof.
  intros H. destruct (is_data_op o) eqn:Hd; [now apply ginv_f_step_data|].
  unfold ginv_f in *. destruct (d_tx d) as [x|] eqn:E.
  - destruct o; try discriminate Hd; cbn [step_f step gstep_f].
    + unfold begin_txn. rewrite E. cbn [fst]. now rewrite E.
    + unfold commit_txn. rewrite E. reflexivity.
    + unfold rollback_txn. rewrite E. destruct (rebuild_defs _ _ _). reflexivity.
    + unfold create_savepoint. rewrite E. cbn [fst d_tx d_tabs x_log x_sps].
      apply stack_inv_f_push; [lia|assumption].
    + unfold release_savepoint. rewrite E.
      rewrite (stack_inv_f_positions _ _ n _ _ _ H).
      destruct (sp_position n (x_sps x)) as [j|]; cbn [fst d_tx d_tabs x_log x_sps]; [|now rewrite E].
      now apply stack_inv_f_remove.
    + unfold rollback_to_savepoint_f. rewrite E.
      rewrite (stack_inv_f_positions _ _ n _ _ _ H).
      destruct (sp_position n (x_sps x)) as [j|] eqn:P; cbn [fst]; [|now rewrite E].
      destruct (sp_position_nth n _ _ P) as (idx & Hn & Hnth). rewrite Hnth. cbn [snd].
      pose proof (stack_inv_f_bounds _ _ _ _ _ _ _ _ H Hn) as [_ Hidx].
      replace (length (x_log x) <? idx)%nat with false by (symmetry; apply Nat.ltb_ge; assumption).
      destruct (nth_error_same_length _ g _ _ (stack_inv_f_length _ _ _ _ _ H) Hn) as (e & He).
      destruct (g_dirty e) eqn:De.
      * assert (HC : forall T', stack_inv_f T' (firstn idx (x_log x)) 0 (firstn (S j) (x_sps x)) (firstn (S j) g)).
        { intros T'. eapply stack_inv_f_cut_dirty; eauto. }
        destruct (undo_all_f (d_tabs d) (rev (skipn idx (x_log x)))) as [T' [u| |]];
          cbn [fst d_tx d_tabs x_log x_sps]; apply HC.
      * destruct (stack_inv_f_nth _ _ _ _ _ _ _ _ _ H Hn He De) as (Y & RY & BY).
        destruct (undo_replay_f _ _ _ _ RY BY) as (T' & HU & HB). rewrite HU.
        cbn [fst d_tx d_tabs x_log x_sps].
        eapply stack_inv_f_cut_clean; eauto.
        intros X Y' RX BX. destruct (undo_replay_f _ _ _ _ RX BX) as (T'' & HU' & HB').
        rewrite HU in HU'. inversion HU'; subst. assumption.
  - subst g. destruct o; try discriminate Hd; cbn [step_f step gstep_f].
    + unfold begin_txn. rewrite E. cbn. exact I.
    + unfold commit_txn. rewrite E. cbn [fst]. now rewrite E.
    + unfold rollback_txn. rewrite E. cbn [fst]. now rewrite E.
    + unfold create_savepoint. rewrite E. cbn [fst]. now rewrite E.
    + unfold release_savepoint. rewrite E. cbn [fst g_position]. now rewrite E.
    + unfold rollback_to_savepoint_f. rewrite E. cbn [fst g_position]. now rewrite E.
Qed.

Theorem ginv_f_grun ops : forall d g, ginv_f d g -> ginv_f (fst (grun_f d g ops)) (snd (grun_f d g ops)).
Proof.
  induction ops as [|o ops IH]; intros d g H; cbn [grun_f]; [assumption|].
  apply IH. now apply ginv_f_step.
Qed.

(** * C14 for the repaired model *)
Theorem rollback_to_restores_f d g n j e :
  ginv_f d g -> g_position n g = Some j -> nth_error g j = Some e -> g_dirty e = false ->
  let res := step_f d (ORollbackTo n) in
  snd res = ROk 0 /\ tabs_beq (d_tabs (fst res)) (g_copy e) /\
  exists x x', d_tx d = Some x /\ d_tx (fst res) = Some x' /\
               x_sps x' = firstn (S j) (x_sps x) /\ sp_position n (x_sps x') = Some j.
Proof.
  intros H P He De res. unfold ginv_f in H. destruct (d_tx d) as [x|] eqn:E; [|subst g; discriminate].
  rewrite (stack_inv_f_positions _ _ n _ _ _ H) in P.
  destruct (sp_position_nth n _ _ P) as (idx & Hn & Hnth).
  pose proof (stack_inv_f_bounds _ _ _ _ _ _ _ _ H Hn) as [_ Hidx].
  destruct (stack_inv_f_nth _ _ _ _ _ _ _ _ _ H Hn He De) as (Y & RY & BY).
  destruct (undo_replay_f _ _ _ _ RY BY) as (T' & HU & HB).
  unfold res. cbn [step_f]. unfold rollback_to_savepoint_f. rewrite E, P, Hnth. cbn [snd].
  replace (length (x_log x) <? idx)%nat with false by (symmetry; apply Nat.ltb_ge; assumption).
  rewrite HU. cbn [fst snd d_tabs d_tx]. split; [reflexivity|]. split; [assumption|].
  eexists _, _. split; [reflexivity|]. split; [reflexivity|]. cbn [x_sps].
  split; [reflexivity|]. now apply sp_position_first.
Qed.

(** no copy is ever tainted when no statement panics and nobody calls [record_change] by hand *)
Fixpoint all_clean_f (d : db) (ops : list op) : Prop :=
  match ops with
  | [] => True
  | o :: rest => (is_data_op o = true -> op_clean_f d o = true) /\ all_clean_f (fst (step_f d o)) rest
  end.

Lemma Forall_firstn {A} (P : A -> Prop) n (l : list A) : Forall P l -> Forall P (firstn n l).
Proof. revert l; induction n as [|n IH]; intros [|x l] H; cbn; auto. inversion H; subst. auto. Qed.

Lemma gstep_f_keeps_clean d g o :
  (is_data_op o = true -> op_clean_f d o = true) ->
  Forall (fun e => g_dirty e = false) g -> Forall (fun e => g_dirty e = false) (gstep_f d g o).
Proof.
  intros Hc HF. destruct o; cbn [gstep_f]; try assumption; try constructor;
    try (rewrite (Hc eq_refl); assumption).
  - destruct (d_tx d); [|assumption]. apply Forall_app; split; [assumption|repeat constructor].
  - destruct (g_position n g); [now apply Forall_remove_nth|assumption].
  - destruct (g_position n g); [now apply Forall_firstn|assumption].
Qed.

Lemma grun_f_all_clean ops : forall d g,
  all_clean_f d ops -> Forall (fun e => g_dirty e = false) g ->
  Forall (fun e => g_dirty e = false) (snd (grun_f d g ops)).
Proof.
  induction ops as [|o ops IH]; intros d g HA HF; cbn [grun_f snd]; [assumption|].
  destruct HA as [Hc HA]. apply IH; [assumption|]. now apply gstep_f_keeps_clean.
Qed.

(** for EVERY history of the repaired model in which no statement panics and [record_change] is not
    called by hand: ROLLBACK TO any live savepoint (first of its name) succeeds and restores every
    table, as a bag, to the copy taken when that savepoint was created -- whatever INSERTs, UPDATEs
    and DELETEs (also failing ones) ran in between *)
Theorem rollback_to_restores_f_history db0 ops n j e :
  d_tx db0 = None -> all_clean_f db0 ops ->
  let d := fst (grun_f db0 [] ops) in
  let g := snd (grun_f db0 [] ops) in
  g_position n g = Some j -> nth_error g j = Some e ->
  let res := step_f d (ORollbackTo n) in
  snd res = ROk 0 /\ tabs_beq (d_tabs (fst res)) (g_copy e) /\
  exists x x', d_tx d = Some x /\ d_tx (fst res) = Some x' /\
               x_sps x' = firstn (S j) (x_sps x) /\ sp_position n (x_sps x') = Some j.
Proof.
  intros Hn HA d g P He. apply (rollback_to_restores_f d g n j e); try assumption.
  - apply ginv_f_grun. now apply ginv_f_init.
  - pose proof (grun_f_all_clean ops db0 [] HA (Forall_nil _)) as HF.
    rewrite Forall_forall in HF. apply HF. eapply nth_error_In; eauto.
Qed.

(** the histories that refute the property on the faithful model are restored by the repaired one *)
Example repaired_model_restores_the_witnesses :
  let run1 seg := step_f (run_f (fst (step_f wit14_db (OSavepoint 1))) seg) (ORollbackTo 1) in
  (snd (run1 [OUpdate 0 1%nat 11 None]) = ROk 0 /\ d_tabs (fst (run1 [OUpdate 0 1%nat 11 None])) = d_tabs wit14_db) /\
  (snd (run1 [ODelete 0 (Some (1%nat, 10))]) = ROk 0 /\
   d_tabs (fst (run1 [ODelete 0 (Some (1%nat, 10))])) = d_tabs wit14_db) /\
  (snd (run1 [OInsert 0 [[LInt 2; LInt 20; LStr [97; 98; 99]]]]) = ROk 0 /\
   d_tabs (fst (run1 [OInsert 0 [[LInt 2; LInt 20; LStr [97; 98; 99]]]])) = d_tabs wit14_db) /\
  all_clean_f (mkDb (mkCat [0] []) [(0, mkTable [TInt; TInt; TVarchar (Some 2%nat)] [])] [] None)
    [OInsert 0 [[LInt 1; LInt 10; LStr [97]]]; OBegin; OSavepoint 1; OUpdate 0 1%nat 11 None;
     ODelete 0 None; OInsert 0 [[LInt 2; LInt 20; LStr [97; 98; 99]]]].
Proof. vm_compute. repeat split; intros; reflexivity. Qed.
