(** C10/C15: INSERT ... VALUES, Database::insert_row / insert_rows_batch and the bulk-transfer
    loop preserve the invariant outside the known classes. *)
From Coq Require Import List ZArith Bool Arith Lia Permutation.
From VibeSQL Require Import Store.Table Store.UserIndex Store.Constraints Store.Dml
     Store.TableLaws Store.UserIndexLaws Store.Invariant Store.DmlLaws.
Import ListNotations.

(* ------------------------------------------------------------------------------------ *)
(** * Small list facts *)

Lemma existsb_exists_false {A} (f : A -> bool) l : existsb f l = false <-> (forall x, In x l -> f x = false).
Proof.
  induction l as [|y l IH]; cbn.
  - split; [intros _ x [] | reflexivity].
  - rewrite orb_false_iff, IH. split.
    + intros [Hy Hl] x [->|Hx]; auto.
    + intros H; split; [apply H; left; reflexivity | intros x Hx; apply H; right; exact Hx].
Qed.

Lemma rv_key_in_order s cols r : rv_key s cols r = proj cols r.
Proof. reflexivity. Qed.

(* ------------------------------------------------------------------------------------ *)
(** * Table::insert (sequence) *)

Lemma h_insert_equiv kf r n m1 m2 : am_equiv m1 m2 -> am_equiv (h_insert kf r n m1) (h_insert kf r n m2).
Proof. intros H. unfold h_insert. destruct (kf r); [apply am_equiv_insert; exact H | exact H]. Qed.

Lemma uq_for_insert_mirror uniqs r rows uq :
  Forall2 am_equiv uq (map (fun cols => h_rebuild (uq_kf cols) rows) uniqs) ->
  Forall2 am_equiv (uq_for_insert uniqs r (length rows) uq)
                   (map (fun cols => h_rebuild (uq_kf cols) (rows ++ [r])) uniqs).
Proof.
  revert uq; induction uniqs as [|c uniqs IH]; intros uq H; inversion H; subst; cbn; constructor.
  - rewrite h_rebuild_app_last. apply h_insert_equiv. assumption.
  - apply IH. assumption.
Qed.

Lemma tbl_insert_props t r t' :
  tbl_insert t r = inr t' ->
  t_rows t' = t_rows t ++ [r] /\ t_sch t' = t_sch t /\ t_uidx t' = t_uidx t
  /\ notnull_ok (s_notnull (t_sch t)) r = true
  /\ length r = s_ncols (t_sch t)
  /\ (hash_mirror t -> hash_mirror t').
Proof.
  unfold tbl_insert, normalize.
  destruct (negb (length r =? s_ncols (t_sch t))) eqn:El; [discriminate|].
  destruct (negb (notnull_ok (s_notnull (t_sch t)) r)) eqn:En; [discriminate|].
  intros E; inversion E; subst t'; clear E. simp_tab.
  split; [reflexivity|]. split; [reflexivity|]. split; [reflexivity|].
  split; [apply negb_false_iff in En; exact En|].
  split; [apply negb_false_iff in El; apply Nat.eqb_eq in El; exact El|].
  intros [Hp Hu]. split; simp_tab.
  - unfold pk_rebuild, pk_for_insert in *.
    destruct (t_pkidx t) as [m|], (s_pk (t_sch t)) as [cols|]; cbn [opt_am_equiv] in *; try contradiction; try exact I.
    rewrite h_rebuild_app_last. apply h_insert_equiv. exact Hp.
  - apply uq_for_insert_mirror. exact Hu.
Qed.

Lemma tbl_insert_ok t r :
  length r = s_ncols (t_sch t) -> notnull_ok (s_notnull (t_sch t)) r = true ->
  exists t', tbl_insert t r = inr t'.
Proof.
  intros Hl Hn. unfold tbl_insert, normalize. rewrite Hl, Nat.eqb_refl, Hn. cbn. eauto.
Qed.

Lemma tbl_insert_all_props new : forall t t',
  tbl_insert_all t new = (t', true) ->
  t_rows t' = t_rows t ++ new /\ t_sch t' = t_sch t /\ t_uidx t' = t_uidx t
  /\ Forall (fun r => notnull_ok (s_notnull (t_sch t)) r = true) new
  /\ Forall (fun r => length r = s_ncols (t_sch t)) new
  /\ (hash_mirror t -> hash_mirror t').
Proof.
  induction new as [|r new IH]; intros t t' H; cbn in H.
  - inversion H; subst. rewrite app_nil_r.
    split; [reflexivity|]. split; [reflexivity|]. split; [reflexivity|].
    split; [constructor|]. split; [constructor | auto].
  - destruct (tbl_insert t r) as [e|t1] eqn:E1; [discriminate|].
    destruct (tbl_insert_props _ _ _ E1) as [Hr [Hs [Hu [Hn [Hl Hm]]]]].
    destruct (IH _ _ H) as [Hr' [Hs' [Hu' [Hn' [Hl' Hm']]]]].
    split; [|split; [|split; [|split; [|split]]]].
    + rewrite Hr', Hr, <- app_assoc. reflexivity.
    + congruence.
    + congruence.
    + constructor; [exact Hn | rewrite Hs in Hn'; exact Hn'].
    + constructor; [exact Hl | rewrite Hs in Hl'; exact Hl'].
    + intros Hh. apply Hm'. apply Hm. exact Hh.
Qed.

(** rows that passed the column-count and NOT NULL validation cannot fail in Table::insert *)
Lemma tbl_insert_all_ok new : forall t,
  Forall (fun r => length r = s_ncols (t_sch t)) new ->
  Forall (fun r => notnull_ok (s_notnull (t_sch t)) r = true) new ->
  exists t', tbl_insert_all t new = (t', true).
Proof.
  induction new as [|r new IH]; intros t Hl Hn; cbn; [eauto|].
  inversion Hl; subst. inversion Hn; subst.
  destruct (tbl_insert_ok t r) as [t1 E1]; [assumption..|]. rewrite E1.
  destruct (tbl_insert_props _ _ _ E1) as [_ [Hs _]].
  apply IH; rewrite Hs; assumption.
Qed.

Lemma uidx_add_all_map new : forall us n,
  uidx_add_all us n new = map (fun u => ui_set_data u (ui_build_from (ui_cols u) n new (ui_data u))) us.
Proof.
  induction new as [|r new IH]; intros us n; cbn.
  - rewrite <- (map_id us) at 1. apply map_ext. intros [a b c d]; reflexivity.
  - rewrite IH. unfold uidx_for_insert. rewrite map_map. apply map_ext. intros u; reflexivity.
Qed.

(* ------------------------------------------------------------------------------------ *)
(** * insert_rows_batch / insert_row *)

Lemma ui_spec_not_mem cols rows m k :
  ui_spec cols rows m -> am_mem k m = false -> forall j, ~ keyed_at (ui_kf cols) rows j k.
Proof.
  intros Hs Hm j Hj. destruct (Hs k) as [Hin _]. apply Hin in Hj. unfold ui_get, am_mem in *.
  destruct (am_find k m); [discriminate | destruct Hj].
Qed.

Lemma somes_In_row kf rows k : In k (somes kf rows) -> exists r, In r rows /\ kf r = Some k.
Proof.
  unfold somes. rewrite in_flat_map. intros [r [Hr Hk]]. exists r; split; [exact Hr|].
  destruct (kf r); cbn in Hk; [destruct Hk as [->|[]]; reflexivity | destruct Hk].
Qed.

Lemma db_insert_batch_TInv t new t' :
  TInv t ->
  (forall cols, s_pk (t_sch t) = Some cols -> NoDup (somes (pk_kf cols) (t_rows t ++ new))) ->
  Forall (fun cols => NoDup (somes (uq_kf cols) (t_rows t ++ new))) (s_uniqs (t_sch t)) ->
  Forall (fun u => ui_unique u = true -> NoDup (somes (uq_kf (ui_cols u)) new)) (t_uidx t) ->
  Forall (fun r => checks_ok (s_checks_decl (t_sch t)) r = true) new ->
  db_insert_batch t new = (t', true) ->
  TInv t' /\ t_sch t' = t_sch t /\ t_rows t' = t_rows t ++ new.
Proof.
  intros [Hwf [[Hnn [Hpk [Huq [Hck Hui]]]] [Hh Hu]]] Npk Nuq Nui Nck Hb.
  unfold user_mirror in Hu. unfold db_insert_batch in Hb.
  destruct (existsb (uidx_unique_violation (t_uidx t)) new) eqn:Ev; [discriminate|].
  destruct (tbl_insert_all t new) as [t1 ok] eqn:E1. destruct ok; [|discriminate].
  inversion Hb; subst t'; clear Hb.
  destruct (tbl_insert_all_props _ _ _ E1) as [Hr [Hs [Hud [Hn [Hl Hm]]]]].
  split; [|split; [exact Hs | cbn; exact Hr]].
  apply TInv_intro.
  - destruct Hwf as [Hw1 Hw2]. split; simp_tab; rewrite Hs; [rewrite Hr; apply Forall_app; split; assumption | exact Hw2].
  - unfold constraints_hold. simp_tab. rewrite Hs, Hr, Hud, uidx_add_all_map. repeat split.
    + apply Forall_app; split; assumption.
    + intros cols E. apply uniq_on_NoDup. apply Npk; exact E.
    + rewrite Forall_forall in *. intros cols Hc. apply uniq_on_NoDup. apply Nuq; exact Hc.
    + apply Forall_app; split; assumption.
    + rewrite Forall_forall in *. intros u' Hin Hq. apply in_map_iff in Hin.
      destruct Hin as [u [<- Hin]]. cbn in *.
      apply uniq_on_NoDup. rewrite somes_app. apply NoDup_app_iff. repeat split.
      * apply uniq_on_NoDup. apply Hui; assumption.
      * apply Nui; assumption.
      * intros k Hk1 Hk2. apply somes_In_row in Hk2. destruct Hk2 as [r [Hr' Hkr]].
        assert (Hv : uidx_unique_violation (t_uidx t) r = false).
        { rewrite existsb_exists_false in Ev. apply Ev; exact Hr'. }
        unfold uidx_unique_violation in Hv. rewrite existsb_exists_false in Hv.
        specialize (Hv u Hin). rewrite Hq in Hv. cbn in Hv.
        unfold uq_kf in Hkr. unfold ui_key in Hv.
        destruct (has_null (proj (ui_cols u) r)) eqn:En; [discriminate|]. inversion Hkr; subst k.
        cbn in Hv.
        apply In_somes in Hk1. destruct Hk1 as [j Hj]. apply uq_keyed_ui in Hj.
        specialize (Hu u Hin). cbn in Hu. apply ui_mirror_spec in Hu.
        eapply ui_spec_not_mem; eauto.
  - apply Hm in Hh. destruct Hh as [Hp Hq]. split; simp_tab; assumption.
  - unfold user_mirror in *. simp_tab. rewrite Hud, Hr, uidx_add_all_map.
    rewrite Forall_forall in *. intros u' Hin. apply in_map_iff in Hin.
    destruct Hin as [u [<- Hin]]. cbn. apply ui_mirror_spec. apply ui_spec_build_from.
    apply ui_mirror_spec. apply Hu; exact Hin.
Qed.

Lemma db_insert_row_as_batch t r : db_insert_row t r = db_insert_batch t [r].
Proof.
  unfold db_insert_row, db_insert_batch. cbn [existsb tbl_insert_all uidx_add_all].
  rewrite orb_false_r. destruct (uidx_unique_violation (t_uidx t) r); [reflexivity|].
  destruct (tbl_insert t r); reflexivity.
Qed.

(** a failing insert_row changes nothing; a failing batch whose rows were validated too *)
Lemma db_insert_row_fail t r t' : db_insert_row t r = (t', false) -> t' = t.
Proof.
  unfold db_insert_row. destruct (uidx_unique_violation (t_uidx t) r); [intros E; inversion E; reflexivity|].
  destruct (tbl_insert t r); intros E; inversion E; reflexivity.
Qed.

Lemma db_insert_batch_fail t new t' :
  Forall (fun r => length r = s_ncols (t_sch t)) new ->
  Forall (fun r => notnull_ok (s_notnull (t_sch t)) r = true) new ->
  db_insert_batch t new = (t', false) -> t' = t.
Proof.
  intros Hl Hn. unfold db_insert_batch.
  destruct (existsb (uidx_unique_violation (t_uidx t)) new); [intros E; inversion E; reflexivity|].
  destruct (tbl_insert_all_ok new t Hl Hn) as [t1 E1]. rewrite E1. discriminate.
Qed.

(* ------------------------------------------------------------------------------------ *)
(** * What a successful RowValidator run establishes *)

Lemma dup_in_false k b m :
  dup_in k b m = false ->
  ~ In k b /\ match m with Some m => am_mem k m = false | None => True end.
Proof.
  unfold dup_in. intros H. apply orb_false_iff in H. destruct H as [Hb Hm]. split.
  - intros Hin. apply key_mem_In in Hin. congruence.
  - destruct m; [exact Hm | exact I].
Qed.

Lemma rv_validate_facts t bpk buq r v :
  rv_validate t bpk buq r = Some v ->
  notnull_ok (s_notnull (t_sch t)) r = true
  /\ v_pk v = match s_pk (t_sch t) with Some cols => Some (rv_key (t_sch t) cols r) | None => None end
  /\ v_uq v = map (fun cols => nonnull_key (rv_key (t_sch t) cols r)) (s_uniqs (t_sch t))
  /\ match v_pk v with Some k => dup_in k bpk (t_pkidx t) = false | None => True end
  /\ rv_unique_ok (v_uq v) buq (t_uqidx t) = true
  /\ checks_ok (s_checks_enf (t_sch t)) r = true.
Proof.
  unfold rv_validate.
  destruct (negb (notnull_ok (s_notnull (t_sch t)) r)) eqn:E1; [discriminate|].
  match goal with |- (if ?c then _ else _) = _ -> _ => destruct c eqn:E2; [discriminate|] end.
  match goal with |- (if ?c then _ else _) = _ -> _ => destruct c eqn:E3; [discriminate|] end.
  match goal with |- (if ?c then _ else _) = _ -> _ => destruct c eqn:E4; [discriminate|] end.
  match goal with |- (if ?c then _ else _) = _ -> _ => destruct c eqn:E5; [discriminate|] end.
  intros E; inversion E; subst v; clear E. cbn [v_pk v_uq].
  apply negb_false_iff in E1, E3, E4.
  repeat split; try assumption.
  destruct (s_pk (t_sch t)); [exact E2 | exact I].
Qed.

Lemma nth_tl {A} (l : list A) j d : nth j (tl l) d = nth (S j) l d.
Proof. destruct l; cbn; [destruct j; reflexivity | reflexivity]. Qed.
Lemma nth_error_tl {A} (l : list A) j : nth_error (tl l) j = nth_error l (S j).
Proof. destruct l; cbn; [destruct j; reflexivity | reflexivity]. Qed.

Lemma rv_unique_ok_nth keys : forall batch uq j k,
  rv_unique_ok keys batch uq = true -> nth_error keys j = Some (Some k) ->
  dup_in k (nth j batch []) (nth_error uq j) = false.
Proof.
  induction keys as [|o keys IH]; intros batch uq j k H Hn; [destruct j; discriminate|].
  destruct j as [|j]; cbn [nth_error] in Hn.
  - inversion Hn; subst o. cbn [rv_unique_ok] in H. apply andb_true_iff in H. destruct H as [H _].
    apply negb_true_iff in H. destruct batch, uq; exact H.
  - assert (H' : rv_unique_ok keys (tl batch) (tl uq) = true).
    { destruct o; cbn [rv_unique_ok] in H; [apply andb_true_iff in H; apply H | exact H]. }
    specialize (IH _ _ _ _ H' Hn). rewrite nth_tl, nth_error_tl in IH. exact IH.
Qed.

Lemma batch_uq_push_length b : forall ks, length (batch_uq_push b ks) = length b.
Proof. induction b as [|l b IH]; intros [|[k|] ks]; cbn; auto. Qed.

Lemma batch_uq_push_nth b : forall ks j, length b = length ks ->
  nth j (batch_uq_push b ks) [] =
    match nth_error ks j with Some (Some k) => nth j b [] ++ [k] | _ => nth j b [] end.
Proof.
  induction b as [|l b IH]; intros [|o ks] j H; cbn in H; try discriminate.
  - cbn. destruct j; reflexivity.
  - destruct o as [k|], j as [|j]; cbn; try reflexivity; apply IH; lia.
Qed.

Lemma rv_all_pk t cols m :
  s_pk (t_sch t) = Some cols -> t_pkidx t = Some m ->
  forall rows bpk buq,
  rv_validate_all t bpk buq rows = true ->
  NoDup bpk -> (forall k, In k bpk -> am_mem k m = false) ->
  NoDup (bpk ++ somes (pk_kf cols) rows) /\ (forall k, In k (somes (pk_kf cols) rows) -> am_mem k m = false).
Proof.
  intros Hpk Hidx. induction rows as [|r rows IH]; intros bpk buq Hv Hnd Hm.
  - cbn. rewrite app_nil_r. split; [exact Hnd | intros k []].
  - cbn [rv_validate_all] in Hv. destruct (rv_validate t bpk buq r) as [v|] eqn:Ev; [|discriminate].
    destruct (rv_validate_facts _ _ _ _ _ Ev) as [_ [Hvp [_ [Hd _]]]].
    rewrite Hpk in Hvp. rewrite Hvp in Hd. rewrite rv_key_in_order in *.
    rewrite Hidx in Hd. apply dup_in_false in Hd. destruct Hd as [Hnb Hnm].
    unfold batch_pk_push in Hv. rewrite Hvp in Hv.
    specialize (IH (bpk ++ [proj cols r]) _ Hv).
    destruct IH as [IH1 IH2].
    + apply NoDup_app_iff. repeat split; [exact Hnd | constructor; [intros [] | constructor] |].
      intros x Hx [<-|[]]. contradiction.
    + intros k Hk. apply in_app_or in Hk. destruct Hk as [Hk|[<-|[]]]; [apply Hm; exact Hk | exact Hnm].
    + cbn [somes flat_map pk_kf]. fold (somes (pk_kf cols) rows). cbn [app].
      rewrite <- app_assoc in IH1. split; [exact IH1|].
      intros k [<-|Hk]; [exact Hnm | apply IH2; exact Hk].
Qed.

Lemma rv_all_uq t j cols m :
  nth_error (s_uniqs (t_sch t)) j = Some cols -> nth_error (t_uqidx t) j = Some m ->
  forall rows bpk buq, length buq = length (s_uniqs (t_sch t)) ->
  rv_validate_all t bpk buq rows = true ->
  NoDup (nth j buq []) -> (forall k, In k (nth j buq []) -> am_mem k m = false) ->
  NoDup (nth j buq [] ++ somes (uq_kf cols) rows) /\ (forall k, In k (somes (uq_kf cols) rows) -> am_mem k m = false).
Proof.
  intros Hc Hidx. induction rows as [|r rows IH]; intros bpk buq Hlen Hv Hnd Hm.
  - cbn. rewrite app_nil_r. split; [exact Hnd | intros k []].
  - cbn [rv_validate_all] in Hv. destruct (rv_validate t bpk buq r) as [v|] eqn:Ev; [|discriminate].
    destruct (rv_validate_facts _ _ _ _ _ Ev) as [_ [_ [Hvu [_ [Hu _]]]]].
    assert (Hkj : nth_error (v_uq v) j = Some (uq_kf cols r)).
    { rewrite Hvu. erewrite map_nth_error by exact Hc. rewrite rv_key_in_order. reflexivity. }
    assert (Hlen' : length buq = length (v_uq v)) by (rewrite Hvu, map_length; exact Hlen).
    specialize (IH (batch_pk_push bpk v) (batch_uq_push buq (v_uq v))).
    rewrite batch_uq_push_length in IH. specialize (IH Hlen Hv).
    rewrite batch_uq_push_nth in IH by exact Hlen'. rewrite Hkj in IH.
    cbn [somes flat_map]. fold (somes (uq_kf cols) rows).
    destruct (uq_kf cols r) as [k|] eqn:Ek; cbn [app].
    + pose proof (rv_unique_ok_nth _ _ _ _ _ Hu Hkj) as Hd. rewrite Hidx in Hd.
      apply dup_in_false in Hd. destruct Hd as [Hnb Hnm].
      destruct IH as [IH1 IH2].
      * apply NoDup_app_iff. repeat split; [exact Hnd | constructor; [intros [] | constructor] |].
        intros x Hx [<-|[]]. contradiction.
      * intros k' Hk. apply in_app_or in Hk. destruct Hk as [Hk|[<-|[]]]; [apply Hm; exact Hk | exact Hnm].
      * rewrite <- app_assoc in IH1. split; [exact IH1|].
        intros k' [<-|Hk]; [exact Hnm | apply IH2; exact Hk].
    + apply IH; assumption.
Qed.

Lemma rv_all_checks t : forall rows bpk buq,
  rv_validate_all t bpk buq rows = true ->
  Forall (fun r => checks_ok (s_checks_enf (t_sch t)) r = true) rows.
Proof.
  induction rows as [|r rows IH]; intros bpk buq Hv; [constructor|].
  cbn [rv_validate_all] in Hv. destruct (rv_validate t bpk buq r) as [v|] eqn:Ev; [|discriminate].
  destruct (rv_validate_facts _ _ _ _ _ Ev) as [_ [_ [_ [_ [_ Hc]]]]].
  constructor; [exact Hc | eapply IH; exact Hv].
Qed.

Lemma rv_all_notnull t : forall rows bpk buq,
  rv_validate_all t bpk buq rows = true ->
  Forall (fun r => notnull_ok (s_notnull (t_sch t)) r = true) rows.
Proof.
  induction rows as [|r rows IH]; intros bpk buq Hv; [constructor|].
  cbn [rv_validate_all] in Hv. destruct (rv_validate t bpk buq r) as [v|] eqn:Ev; [|discriminate].
  destruct (rv_validate_facts _ _ _ _ _ Ev) as [Hc _].
  constructor; [exact Hc | eapply IH; exact Hv].
Qed.

Lemma Forall2_nth_error_r {A B} (R : A -> B -> Prop) l1 l2 j y :
  Forall2 R l1 l2 -> nth_error l2 j = Some y -> exists x, nth_error l1 j = Some x /\ R x y.
Proof.
  intros H; revert j; induction H; intros j Hn; destruct j; cbn in *; try discriminate.
  - inversion Hn; subst. eauto.
  - apply IHForall2; exact Hn.
Qed.

(** the keys present in a mirrored hash map are exactly the keys of the rows *)
Lemma mirror_mem_keyed kf rows m k :
  am_equiv m (h_rebuild kf rows) -> uniq_on kf rows -> In k (somes kf rows) -> am_mem k m = true.
Proof.
  intros He Hu Hin. apply (h_mirror_spec kf rows m Hu) in He.
  apply (h_spec_mem kf rows m k He). apply In_somes. exact Hin.
Qed.

Lemma fresh_NoDup kf rows new m :
  am_equiv m (h_rebuild kf rows) -> uniq_on kf rows ->
  NoDup (somes kf new) -> (forall k, In k (somes kf new) -> am_mem k m = false) ->
  NoDup (somes kf (rows ++ new)).
Proof.
  intros He Hu Hn Hf. rewrite somes_app. apply NoDup_app_iff. repeat split.
  - apply uniq_on_NoDup; exact Hu.
  - exact Hn.
  - intros k Hk1 Hk2. specialize (Hf k Hk2). rewrite (mirror_mem_keyed kf rows m k He Hu Hk1) in Hf. discriminate.
Qed.

Lemma NoDup_somes_short kf rows : length rows <= 1 -> NoDup (somes kf rows).
Proof.
  destruct rows as [|r [|r' rows]]; cbn; intros H; try lia; [constructor|].
  destruct (kf r); cbn; [constructor; [intros [] | constructor] | constructor].
Qed.

(* ------------------------------------------------------------------------------------ *)
(** * INSERT ... VALUES *)

Lemma do_insert_values_TInv t rows t' res ins :
  TInv t -> kc_insert_values t rows = false ->
  do_insert_values t rows = (t', res, ins) -> TInv t' /\ t_sch t' = t_sch t.
Proof.
  intros HI Hk Hd. unfold do_insert_values in Hd.
  destruct (negb (forallb (fun r => length r =? s_ncols (t_sch t)) rows)) eqn:Earity; [inversion Hd; subst; auto|].
  apply negb_false_iff in Earity.
  destruct (negb (rv_validate_all t [] (map (fun _ => []) (s_uniqs (t_sch t))) rows)) eqn:Ev;
    [inversion Hd; subst; auto|].
  apply negb_false_iff in Ev.
  unfold kc_insert_values in Hk. apply orb_false_iff in Hk. destruct Hk as [Hk Hk3].
  rename Hk into Hk2.
  pose proof HI as [Hwf [[Hnn [Hpk [Huq [Hck Hui]]]] [[Hhp Hhu] Hu]]].
  (* the facts the batch lemma needs *)
  assert (F1 : forall cols, s_pk (t_sch t) = Some cols -> NoDup (somes (pk_kf cols) (t_rows t ++ rows))).
  { intros cols Ec. unfold pk_rebuild in Hhp. rewrite Ec in Hhp.
    destruct (t_pkidx t) as [m|] eqn:Em; cbn in Hhp; [|contradiction].
    destruct (rv_all_pk t cols m Ec Em rows [] _ Ev) as [N1 N2]; [constructor | intros k [] |].
    cbn in N1. eapply fresh_NoDup; eauto. }
  assert (F2 : Forall (fun cols => NoDup (somes (uq_kf cols) (t_rows t ++ rows))) (s_uniqs (t_sch t))).
  { apply Forall_forall. intros cols Hin. destruct (In_nth_error _ _ Hin) as [j Hj].
    unfold uq_rebuild in Hhu.
    assert (Hj' : nth_error (map (fun cols => h_rebuild (uq_kf cols) (t_rows t)) (s_uniqs (t_sch t))) j
                  = Some (h_rebuild (uq_kf cols) (t_rows t)))
      by (exact (map_nth_error (fun c => h_rebuild (uq_kf c) (t_rows t)) j _ Hj)).
    destruct (Forall2_nth_error_r _ _ _ _ _ Hhu Hj') as [m [Em He]].
    destruct (rv_all_uq t j cols m Hj Em rows [] (map (fun _ => []) (s_uniqs (t_sch t)))) as [N1 N2].
    - apply map_length.
    - exact Ev.
    - replace (nth j (map (fun _ => []) (s_uniqs (t_sch t))) []) with (@nil key); [constructor|].
      clear. revert j. induction (s_uniqs (t_sch t)); intros [|j]; cbn; auto.
    - replace (nth j (map (fun _ => []) (s_uniqs (t_sch t))) []) with (@nil key); [intros k []|].
      clear. revert j. induction (s_uniqs (t_sch t)); intros [|j]; cbn; auto.
    - replace (nth j (map (fun _ => []) (s_uniqs (t_sch t))) []) with (@nil key) in N1.
      + cbn in N1. rewrite Forall_forall in Huq. eapply fresh_NoDup; eauto.
      + clear. revert j. induction (s_uniqs (t_sch t)); intros [|j]; cbn; auto. }
  assert (F3 : Forall (fun u => ui_unique u = true -> NoDup (somes (uq_kf (ui_cols u)) rows)) (t_uidx t)).
  { apply Forall_forall. intros u Hin Hq.
    destruct (Nat.ltb_spec 1 (length rows)) as [Hlt|Hle].
    - cbn [andb] in Hk2. rewrite existsb_exists_false in Hk2. specialize (Hk2 u Hin).
      rewrite Hq in Hk2. cbn in Hk2. apply has_dup_NoDup. exact Hk2.
    - apply NoDup_somes_short. exact Hle. }
  assert (F4 : Forall (fun r => checks_ok (s_checks_decl (t_sch t)) r = true) rows).
  { pose proof (rv_all_checks t rows _ _ Ev) as He. unfold unenforced_check_hit in Hk3.
    rewrite existsb_exists_false in Hk3. rewrite Forall_forall in *. intros r Hr.
    specialize (Hk3 r Hr). rewrite (He r Hr) in Hk3. cbn in Hk3. apply negb_false_iff in Hk3. exact Hk3. }
  assert (F5 : Forall (fun r => length r = s_ncols (t_sch t)) rows).
  { apply Forall_forall. intros r Hr. rewrite forallb_forall in Earity. apply Nat.eqb_eq. apply Earity; exact Hr. }
  assert (F6 : Forall (fun r => notnull_ok (s_notnull (t_sch t)) r = true) rows)
    by (eapply rv_all_notnull; exact Ev).
  assert (Hbatch : forall t1 ok, db_insert_batch t rows = (t1, ok) -> TInv t1 /\ t_sch t1 = t_sch t).
  { intros t1 [|] Eb.
    - destruct (db_insert_batch_TInv t rows t1 HI F1 F2 F3 F4 Eb) as [H1 [H2 _]]. auto.
    - apply db_insert_batch_fail in Eb; [subst; auto | exact F5 | exact F6]. }
  destruct rows as [|r [|r' rows]].
  - inversion Hd; subst; auto.
  - rewrite db_insert_row_as_batch in Hd.
    destruct (db_insert_batch t [r]) as [t1 ok] eqn:Eb. specialize (Hbatch _ _ eq_refl).
    destruct ok; inversion Hd; subst; exact Hbatch.
  - destruct (db_insert_batch t (r :: r' :: rows)) as [t1 ok] eqn:Eb. specialize (Hbatch _ _ eq_refl).
    destruct ok; inversion Hd; subst; exact Hbatch.
Qed.

(* ------------------------------------------------------------------------------------ *)
(** * INSERT INTO dst SELECT * FROM src, bulk-transfer path *)

Lemma bulk_unique_ok_nth uniqs : forall seen uq r j cols,
  bulk_unique_ok uniqs seen uq r = true -> nth_error uniqs j = Some cols ->
  has_null (proj cols r) = true \/ dup_in (proj cols r) (nth j seen []) (nth_error uq j) = false.
Proof.
  induction uniqs as [|c uniqs IH]; intros seen uq r j cols H Hn; [destruct j; discriminate|].
  cbn [bulk_unique_ok] in H. apply andb_true_iff in H. destruct H as [H1 H2].
  destruct j as [|j]; cbn [nth_error] in Hn.
  - inversion Hn; subst c. apply orb_true_iff in H1. destruct H1 as [H1|H1]; [left; exact H1 | right].
    apply negb_true_iff in H1. destruct seen, uq; exact H1.
  - specialize (IH _ _ _ _ _ H2 Hn). rewrite nth_tl, nth_error_tl in IH. exact IH.
Qed.

Lemma bulk_seen_uq_push_length uniqs : forall seen r,
  length seen = length uniqs -> length (bulk_seen_uq_push uniqs seen r) = length uniqs.
Proof.
  intros seen r H. unfold bulk_seen_uq_push. rewrite map_length, combine_length. lia.
Qed.

Lemma bulk_seen_uq_push_nth uniqs : forall seen r j cols,
  length seen = length uniqs -> nth_error uniqs j = Some cols ->
  nth j (bulk_seen_uq_push uniqs seen r) [] = nth j seen [] ++ [proj cols r].
Proof.
  induction uniqs as [|c uniqs IH]; intros seen r j cols Hl Hj; [destruct j; discriminate|].
  destruct seen as [|l seen]; [discriminate|]. destruct j as [|j]; cbn in *.
  - inversion Hj; subst. reflexivity.
  - apply IH; [lia | exact Hj].
Qed.

(** what a successful phase A establishes for the PRIMARY KEY ... *)
Lemma bulk_all_pk t cols m :
  s_pk (t_sch t) = Some cols -> t_pkidx t = Some m ->
  forall src seen_pk seen_uq,
  bulk_validate t seen_pk seen_uq src = true ->
  NoDup seen_pk -> (forall k, In k seen_pk -> am_mem k m = false) ->
  NoDup (seen_pk ++ somes (pk_kf cols) src) /\ (forall k, In k (somes (pk_kf cols) src) -> am_mem k m = false).
Proof.
  intros Hpk Hidx. induction src as [|r src IH]; intros seen_pk seen_uq Hv Hnd Hm.
  - cbn. rewrite app_nil_r. split; [exact Hnd | intros k []].
  - cbn [bulk_validate] in Hv. rewrite Hpk in Hv.
    apply andb_true_iff in Hv. destruct Hv as [Hv Hrest].
    apply andb_true_iff in Hv. destruct Hv as [Hv _].
    apply andb_true_iff in Hv. destruct Hv as [Hok _].
    unfold bulk_pk_ok in Hok. rewrite Hpk, Hidx in Hok.
    destruct (key_mem (proj cols r) seen_pk) eqn:Ek; [discriminate|]. apply negb_true_iff in Hok.
    assert (Hnb : ~ In (proj cols r) seen_pk) by (intros Hin; apply key_mem_In in Hin; congruence).
    destruct (IH _ _ Hrest) as [IH1 IH2].
    + apply NoDup_app_iff. repeat split; [exact Hnd | constructor; [intros [] | constructor] |].
      intros x Hx [<-|[]]. contradiction.
    + intros k Hk. apply in_app_or in Hk. destruct Hk as [Hk|[<-|[]]]; [apply Hm; exact Hk | exact Hok].
    + cbn [somes flat_map pk_kf]. fold (somes (pk_kf cols) src). cbn [app].
      rewrite <- app_assoc in IH1. split; [exact IH1|].
      intros k [<-|Hk]; [exact Hok | apply IH2; exact Hk].
Qed.

Definition nn_keys (l : list key) : list key := filter (fun k => negb (has_null k)) l.

Lemma nn_keys_app a b : nn_keys (a ++ b) = nn_keys a ++ nn_keys b.
Proof. unfold nn_keys. apply filter_app. Qed.

(** ... and for the j-th UNIQUE constraint (the seen list also collects the NULL-containing keys,
    which never count) *)
Lemma bulk_all_uq t j cols m :
  nth_error (s_uniqs (t_sch t)) j = Some cols -> nth_error (t_uqidx t) j = Some m ->
  forall src seen_pk seen_uq, length seen_uq = length (s_uniqs (t_sch t)) ->
  bulk_validate t seen_pk seen_uq src = true ->
  NoDup (nn_keys (nth j seen_uq [])) -> (forall k, In k (nn_keys (nth j seen_uq [])) -> am_mem k m = false) ->
  NoDup (nn_keys (nth j seen_uq []) ++ somes (uq_kf cols) src)
  /\ (forall k, In k (somes (uq_kf cols) src) -> am_mem k m = false).
Proof.
  intros Hc Hidx. induction src as [|r src IH]; intros seen_pk seen_uq Hlen Hv Hnd Hm.
  - cbn. rewrite app_nil_r. split; [exact Hnd | intros k []].
  - cbn [bulk_validate] in Hv.
    apply andb_true_iff in Hv. destruct Hv as [Hv Hrest].
    apply andb_true_iff in Hv. destruct Hv as [Hv _].
    apply andb_true_iff in Hv. destruct Hv as [_ Huq].
    specialize (IH _ (bulk_seen_uq_push (s_uniqs (t_sch t)) seen_uq r)
                   (bulk_seen_uq_push_length _ _ _ Hlen) Hrest).
    rewrite (bulk_seen_uq_push_nth _ _ _ _ _ Hlen Hc) in IH. rewrite nn_keys_app in IH.
    cbn [somes flat_map]. fold (somes (uq_kf cols) src). unfold uq_kf at 1 3.
    cbn [nn_keys filter] in IH.
    destruct (has_null (proj cols r)) eqn:En; cbn [negb app] in *.
    + rewrite app_nil_r in IH. apply IH; assumption.
    + destruct (bulk_unique_ok_nth _ _ _ _ _ _ Huq Hc) as [Hn|Hd]; [congruence|].
      rewrite Hidx in Hd. apply dup_in_false in Hd. destruct Hd as [Hnb Hnm].
      destruct IH as [IH1 IH2].
      * apply NoDup_app_iff. repeat split; [exact Hnd | constructor; [intros [] | constructor] |].
        intros x Hx [<-|[]]. apply Hnb. unfold nn_keys in Hx. apply filter_In in Hx. apply Hx.
      * intros k Hk. apply in_app_or in Hk. destruct Hk as [Hk|[<-|[]]]; [apply Hm; exact Hk | exact Hnm].
      * rewrite <- app_assoc in IH1. split; [exact IH1|].
        intros k [<-|Hk]; [exact Hnm | apply IH2; exact Hk].
Qed.

Lemma bulk_all_checks t : forall src seen_pk seen_uq,
  bulk_validate t seen_pk seen_uq src = true ->
  Forall (fun r => checks_ok (s_checks_enf (t_sch t)) r = true) src.
Proof.
  induction src as [|r src IH]; intros seen_pk seen_uq Hv; [constructor|].
  cbn [bulk_validate] in Hv.
  apply andb_true_iff in Hv. destruct Hv as [Hv Hrest].
  apply andb_true_iff in Hv. destruct Hv as [_ Hc].
  constructor; [exact Hc | eapply IH; exact Hrest].
Qed.

(** phase B: inserting rows whose keys are new, one Database::insert_row at a time *)
Lemma bulk_insert_TInv src : forall t cnt ins t' res ins',
  TInv t ->
  (forall cols, s_pk (t_sch t) = Some cols -> NoDup (somes (pk_kf cols) (t_rows t ++ src))) ->
  Forall (fun cols => NoDup (somes (uq_kf cols) (t_rows t ++ src))) (s_uniqs (t_sch t)) ->
  Forall (fun r => checks_ok (s_checks_decl (t_sch t)) r = true) src ->
  bulk_insert t src cnt ins = (t', res, ins') -> TInv t' /\ t_sch t' = t_sch t.
Proof.
  induction src as [|r src IH]; intros t cnt ins t' res ins' HI Npk Nuq Nck Hl; cbn [bulk_insert] in Hl.
  - inversion Hl; subst; auto.
  - destruct (db_insert_row t r) as [t1 ok] eqn:Ei.
    destruct ok; [|apply db_insert_row_fail in Ei; inversion Hl; subst; auto].
    rewrite db_insert_row_as_batch in Ei. inversion Nck; subst.
    assert (Hsplit : forall kf, NoDup (somes kf (t_rows t ++ r :: src)) -> NoDup (somes kf (t_rows t ++ [r]))).
    { intros kf Hn. replace (t_rows t ++ r :: src) with ((t_rows t ++ [r]) ++ src) in Hn
        by (rewrite <- app_assoc; reflexivity).
      rewrite somes_app in Hn. apply NoDup_app_iff in Hn. apply Hn. }
    destruct (db_insert_batch_TInv t [r] t1 HI) as [HT1 [HT2 HT3]]; [| | | |exact Ei|].
    + intros cols Ec. apply Hsplit. apply Npk; exact Ec.
    + rewrite Forall_forall in *. intros cols Hc. apply Hsplit. apply Nuq; exact Hc.
    + apply Forall_forall. intros u _ _. apply NoDup_somes_short. cbn; lia.
    + constructor; [assumption | constructor].
    + assert (A1 : forall cols, s_pk (t_sch t1) = Some cols -> NoDup (somes (pk_kf cols) (t_rows t1 ++ src))).
      { intros cols Ec. rewrite HT2 in Ec. rewrite HT3, <- app_assoc. apply Npk; exact Ec. }
      assert (A2 : Forall (fun cols => NoDup (somes (uq_kf cols) (t_rows t1 ++ src))) (s_uniqs (t_sch t1))).
      { rewrite HT2, HT3. rewrite Forall_forall in *. intros cols Hc. rewrite <- app_assoc. apply Nuq; exact Hc. }
      assert (A3 : Forall (fun r => checks_ok (s_checks_decl (t_sch t1)) r = true) src) by (rewrite HT2; assumption).
      destruct (IH t1 _ _ _ _ _ HT1 A1 A2 A3 Hl) as [R1 R2]. split; [exact R1 | congruence].
Qed.

Lemma nth_map_nil {A B} (l : list A) j : nth j (map (fun _ => @nil B) l) [] = [].
Proof. revert j; induction l; intros [|j]; cbn; auto. Qed.

Lemma do_insert_select_TInv dst same src_sch src_rows sel t' res ins :
  TInv dst -> kc_insert_select dst same src_sch src_rows sel = false ->
  do_insert_select dst same src_sch src_rows sel = (t', res, ins) -> TInv t' /\ t_sch t' = t_sch dst.
Proof.
  intros HI Hk Hd. unfold do_insert_select in Hd. unfold kc_insert_select in Hk.
  destruct (negb same && bulk_compatible (t_sch dst) src_sch).
  - destruct (bulk_validate dst [] (map (fun _ => []) (s_uniqs (t_sch dst))) src_rows) eqn:Ev;
      [|inversion Hd; subst; auto].
    pose proof HI as [Hwf [[Hnn [Hpk [Huq [Hck Hui]]]] [[Hhp Hhu] Hu]]].
    eapply bulk_insert_TInv; [exact HI | | | | exact Hd].
    + intros cols Ec. unfold pk_rebuild in Hhp. rewrite Ec in Hhp.
      destruct (t_pkidx dst) as [m|] eqn:Em; cbn in Hhp; [|contradiction].
      destruct (bulk_all_pk dst cols m Ec Em src_rows [] _ Ev) as [N1 N2]; [constructor | intros k [] |].
      cbn in N1. eapply fresh_NoDup; eauto.
    + apply Forall_forall. intros cols Hin. destruct (In_nth_error _ _ Hin) as [j Hj].
      unfold uq_rebuild in Hhu.
      assert (Hj' : nth_error (map (fun cols => h_rebuild (uq_kf cols) (t_rows dst)) (s_uniqs (t_sch dst))) j
                    = Some (h_rebuild (uq_kf cols) (t_rows dst)))
        by (exact (map_nth_error (fun c => h_rebuild (uq_kf c) (t_rows dst)) j _ Hj)).
      destruct (Forall2_nth_error_r _ _ _ _ _ Hhu Hj') as [m [Em He]].
      destruct (bulk_all_uq dst j cols m Hj Em src_rows [] (map (fun _ => []) (s_uniqs (t_sch dst)))) as [N1 N2].
      * apply map_length.
      * exact Ev.
      * rewrite nth_map_nil. constructor.
      * rewrite nth_map_nil. intros k [].
      * rewrite nth_map_nil in N1. cbn in N1. rewrite Forall_forall in Huq. eapply fresh_NoDup; eauto.
    + pose proof (bulk_all_checks dst src_rows _ _ Ev) as He. unfold unenforced_check_hit in Hk.
      rewrite existsb_exists_false in Hk. rewrite Forall_forall in *. intros r Hr.
      specialize (Hk r Hr). rewrite (He r Hr) in Hk. cbn in Hk. apply negb_false_iff in Hk. exact Hk.
  - destruct (negb (s_ncols src_sch =? s_ncols (t_sch dst))); [inversion Hd; subst; auto|].
    eapply do_insert_values_TInv; eauto.
Qed.
