(** Laws of the cursor state machine ([Store/Cursor.v]).

    1. LRU facts (membership, size bound).
    2. [cache_transparent_fixed]: keyed by the BOUND text the statement cache is invisible, for every
       binder, call sequence, capacity and initial cache that only holds parsed keys.
    3. [cursor_plain_functional]: the real cursor (keyed by the UNBOUND text) is invisible on call
       sequences that always pass the same parameters with the same text (hence on sequences that use
       every text once).
    4. [binding_faithful]: with no '?' inside protected regions and parameters in the common domain the
       real cursor is the specification; refuted without each side condition.
    5. a hit ignores the parameters altogether. *)
From Coq Require Import List ZArith Bool Lia.
From VibeSQL Require Import Lex.F64Display Lex.Placeholder Lex.PlaceholderLaws Lex.PlaceholderFixed Lex.PlaceholderFixedLaws Store.Cursor.
Import ListNotations.
Open Scope Z_scope.

Section Laws.
  Variable stmt : Type.
  Variable D : Type.
  Variable res : Type.
  Variable parse : text -> option stmt.
  Variable kind : stmt -> skind.
  Variable exec : D -> stmt -> D * option res.
  Variable cap : nat.

  Notation cursor := (cursor stmt res).
  Notation lru := (lru stmt).
  Notation lru_find := (lru_find stmt).
  Notation lru_remove := (lru_remove stmt).
  Notation lru_get := (lru_get stmt).
  Notation lru_put := (lru_put stmt cap).
  Notation exec_stmt := (exec_stmt stmt D res kind exec).
  Notation run_stmt := (run_stmt stmt D res kind exec).
  Notation execute := (execute stmt D res parse kind exec cap).
  Notation run_cursor := (run_cursor stmt D res parse kind exec cap).
  Notation execute_fixed := (execute_fixed stmt D res parse kind exec cap).
  Notation run_fixed := (run_fixed stmt D res parse kind exec cap).
  Notation plain_call := (plain_call stmt D res parse kind exec).
  Notation run_plain := (run_plain stmt D res parse kind exec).
  Notation run_spec := (run_spec stmt D res parse kind exec).

  (** * 1. LRU *)
  Lemma lru_find_In : forall k l s, lru_find k l = Some s -> In (k, s) l.
  Proof.
    induction l as [|[k' s'] l IH]; intros s H; cbn [Cursor.lru_find] in H; [discriminate|].
    destruct (text_eqb k' k) eqn:E.
    - apply text_eqb_eq in E. inversion H; subst. now left.
    - right. now apply IH.
  Qed.

  Lemma lru_find_None : forall k l, lru_find k l = None -> forall s, ~ In (k, s) l.
  Proof.
    induction l as [|[k' s'] l IH]; intros H s Hin; cbn [Cursor.lru_find] in H; [inversion Hin|].
    destruct (text_eqb k' k) eqn:E; [discriminate|].
    destruct Hin as [Heq|Hin]; [|exact (IH H s Hin)].
    inversion Heq; subst. rewrite text_eqb_refl in E. discriminate.
  Qed.

  Lemma lru_remove_In : forall k l e, In e (lru_remove k l) -> In e l.
  Proof. intros k l e H. unfold Cursor.lru_remove in H. apply filter_In in H. tauto. Qed.

  Lemma firstn_In' : forall (A : Type) n (l : list A) x, In x (firstn n l) -> In x l.
  Proof.
    intros A n. induction n as [|n IH]; intros l x H; cbn [firstn] in H; [inversion H|].
    destruct l as [|y l]; [inversion H|]. destruct H as [->|H]; [now left|right; now apply IH].
  Qed.

  Lemma lru_get_In : forall k l s l' e, lru_get k l = Some (s, l') -> In e l' -> In e l.
  Proof.
    intros k l s l' e H Hin. unfold Cursor.lru_get in H. destruct (lru_find k l) as [s0|] eqn:Ef; [|discriminate].
    inversion H; subst. destruct Hin as [<-|Hin]; [now apply lru_find_In|now apply lru_remove_In in Hin].
  Qed.

  Lemma lru_put_In : forall k s l e, In e (lru_put k s l) -> e = (k, s) \/ In e l.
  Proof.
    intros k s l e H. unfold Cursor.lru_put in H. apply firstn_In' in H.
    destruct H as [<-|H]; [now left|right; now apply lru_remove_In in H].
  Qed.

  Lemma filter_len_le : forall (A : Type) (f : A -> bool) (l : list A), (length (filter f l) <= length l)%nat.
  Proof. intros A f. induction l as [|x l IH]; cbn [filter length]; [lia|]. destruct (f x); cbn [length]; lia. Qed.

  Lemma lru_remove_length : forall k l, (length (lru_remove k l) <= length l)%nat.
  Proof. intros k l. unfold Cursor.lru_remove. apply filter_len_le. Qed.

  Lemma lru_remove_length_found : forall k l s, lru_find k l = Some s -> (S (length (lru_remove k l)) <= length l)%nat.
  Proof.
    induction l as [|[k' s'] l IH]; intros s H; cbn [Cursor.lru_find] in H; [discriminate|].
    unfold Cursor.lru_remove in *. cbn [filter fst length].
    destruct (text_eqb k' k) eqn:E; cbn [negb].
    - pose proof (filter_len_le _ (fun e : text * stmt => negb (text_eqb (fst e) k)) l). lia.
    - cbn [length]. specialize (IH s H). lia.
  Qed.

  (** [LruCache::get] never grows the cache, [put] never exceeds the capacity *)
  Lemma lru_get_length : forall k l s l', lru_get k l = Some (s, l') -> (length l' <= length l)%nat.
  Proof.
    intros k l s l' H. unfold Cursor.lru_get in H. destruct (lru_find k l) as [s0|] eqn:Ef; [|discriminate].
    inversion H; subst. cbn [length]. now apply lru_remove_length_found with (s := s).
  Qed.

  Lemma lru_put_length : forall k s l, (length (lru_put k s l) <= cap)%nat.
  Proof. intros. unfold Cursor.lru_put. apply firstn_le_length. Qed.

  Lemma run_stmt_cache : forall d c st d' c' o, run_stmt d c st = (d', c', o) -> cache c' = cache c \/ cache c' = [].
  Proof.
    intros d c st d' c' o H. unfold Cursor.run_stmt in H.
    destruct (exec_stmt d (last c) st) as [[[d1 l1] o1] clr]. inversion H; subst. cbn [cache].
    destruct clr; [now right|now left].
  Qed.

  Theorem cache_size_bound : forall d c sql ps d' c' o,
    (length (cache c) <= cap)%nat -> execute d c sql ps = (d', c', o) -> (length (cache c') <= cap)%nat.
  Proof.
    intros d c sql ps d' c' o Hc H. unfold Cursor.execute in H.
    destruct (lru_get sql (cache c)) as [[st cache']|] eqn:Eg.
    - apply run_stmt_cache in H. cbn [cache] in H. pose proof (lru_get_length _ _ _ _ Eg).
      destruct H as [->| ->]; cbn [length]; lia.
    - destruct (process sql ps) as [t|]; [|inversion H; now subst].
      destruct (parse t) as [st|]; [|inversion H; now subst].
      apply run_stmt_cache in H. cbn [cache] in H. pose proof (lru_put_length sql st (cache c)).
      destruct H as [->| ->]; cbn [length]; lia.
  Qed.

  (** * 5. a hit does not look at the parameters: not their values, not their number, not their types *)
  Theorem hit_ignores_params : forall d c sql st,
    lru_find sql (cache c) = Some st -> forall p1 p2, execute d c sql p1 = execute d c sql p2.
  Proof. intros d c sql st H p1 p2. unfold Cursor.execute, Cursor.lru_get. rewrite H. reflexivity. Qed.

  (** * 2. keyed by the bound text *)
  Section FixedLaws.
    Variable binder : text -> option (list pyval) -> option text.

    (** every entry is the parse of its own key *)
    Definition parsed_keys (l : lru) : Prop := forall k s, In (k, s) l -> parse k = Some s.

    Lemma execute_fixed_plain : forall d c sql ps d' c' o,
      parsed_keys (cache c) -> execute_fixed binder d c sql ps = (d', c', o) ->
      plain_call binder d (last c) sql ps = (d', last c', o) /\ parsed_keys (cache c').
    Proof.
      intros d c sql ps d' c' o Hg H. unfold Cursor.execute_fixed in H. unfold Cursor.plain_call.
      destruct (binder sql ps) as [t|]; [|inversion H; subst; now split].
      destruct (lru_get t (cache c)) as [[st cache']|] eqn:Eg.
      - assert (Hp : parse t = Some st).
        { unfold Cursor.lru_get in Eg. destruct (lru_find t (cache c)) as [s0|] eqn:Ef; [|discriminate].
          inversion Eg; subst. apply Hg. now apply lru_find_In. }
        rewrite Hp. unfold Cursor.run_stmt in H. cbn [last cache] in H.
        destruct (exec_stmt d (last c) st) as [[[d1 l1] o1] clr]. inversion H; subst. cbn [last cache].
        split; [reflexivity|]. destruct clr; [intros k s []|].
        intros k s Hin. apply Hg. eapply lru_get_In; eassumption.
      - destruct (parse t) as [st|] eqn:Hp; [|inversion H; subst; now split].
        unfold Cursor.run_stmt in H. cbn [last cache] in H.
        destruct (exec_stmt d (last c) st) as [[[d1 l1] o1] clr]. inversion H; subst. cbn [last cache].
        split; [reflexivity|]. destruct clr; [intros k s []|].
        intros k s Hin. apply lru_put_In in Hin. destruct Hin as [Heq|Hin]; [inversion Heq; now subst|now apply Hg].
    Qed.

    (** the statement cache keyed by the bound text is transparent: for every binder, every call
        sequence, every capacity, every initial cache of parsed keys *)
    Theorem cache_transparent_fixed : forall calls d c,
      parsed_keys (cache c) ->
      let '(os, d', c') := run_fixed binder d c calls in
      run_plain binder d (last c) calls = (os, d', last c').
    Proof.
      induction calls as [|[sql ps] rest IH]; intros d c Hg; cbn [Cursor.run_fixed Cursor.run_plain]; [reflexivity|].
      destruct (execute_fixed binder d c sql ps) as [[d1 c1] o1] eqn:E.
      destruct (execute_fixed_plain _ _ _ _ _ _ _ Hg E) as [Hp Hg1]. rewrite Hp.
      specialize (IH d1 c1 Hg1). destruct (run_fixed binder d1 c1 rest) as [[os d2] c2]. now rewrite IH.
    Qed.
  End FixedLaws.

  Lemma execute_b_process : forall d c sql ps,
    Cursor.execute_b stmt D res parse kind exec cap process d c sql ps = execute d c sql ps.
  Proof. reflexivity. Qed.

  (** * 3. keyed by the unbound text (the code) *)
  Definition functional (calls : list (text * option (list pyval))) : Prop :=
    forall k p1 p2, In (k, p1) calls -> In (k, p2) calls -> p1 = p2.

  (** every entry was parsed from the bound text of some call of the history with that text *)
  Definition from_calls (calls : list (text * option (list pyval))) (l : lru) : Prop :=
    forall k s, In (k, s) l -> exists ps t, In (k, ps) calls /\ process k ps = Some t /\ parse t = Some s.

  Lemma execute_plain_functional : forall calls d c sql ps d' c' o,
    functional calls -> In (sql, ps) calls -> from_calls calls (cache c) ->
    execute d c sql ps = (d', c', o) ->
    plain_call process d (last c) sql ps = (d', last c', o) /\ from_calls calls (cache c').
  Proof.
    intros calls d c sql ps d' c' o HF Hin Hg H. unfold Cursor.execute in H. unfold Cursor.plain_call.
    destruct (lru_get sql (cache c)) as [[st cache']|] eqn:Eg.
    - assert (Hp : exists t, process sql ps = Some t /\ parse t = Some st).
      { unfold Cursor.lru_get in Eg. destruct (lru_find sql (cache c)) as [s0|] eqn:Ef; [|discriminate].
        inversion Eg; subst. apply lru_find_In in Ef. destruct (Hg _ _ Ef) as [ps0 [t [Hi [Hpr Hpa]]]].
        rewrite (HF sql ps ps0 Hin Hi). now exists t. }
      destruct Hp as [t [Hpr Hpa]]. rewrite Hpr, Hpa. unfold Cursor.run_stmt in H. cbn [last cache] in H.
      destruct (exec_stmt d (last c) st) as [[[d1 l1] o1] clr]. inversion H; subst. cbn [last cache].
      split; [reflexivity|]. destruct clr; [intros k s []|].
      intros k s Hi. apply Hg. eapply lru_get_In; eassumption.
    - destruct (process sql ps) as [t|] eqn:Hpr; [|inversion H; subst; now split].
      destruct (parse t) as [st|] eqn:Hpa; [|inversion H; subst; now split].
      unfold Cursor.run_stmt in H. cbn [last cache] in H.
      destruct (exec_stmt d (last c) st) as [[[d1 l1] o1] clr]. inversion H; subst. cbn [last cache].
      split; [reflexivity|]. destruct clr; [intros k s []|].
      intros k s Hi. apply lru_put_In in Hi. destruct Hi as [Heq|Hi]; [|now apply Hg].
      inversion Heq; subst. now exists ps, t.
  Qed.

  (** whatever the history, a cached statement is the parse of the bound text of SOME earlier call with
      that text (here: of the populating call); together with [hit_ignores_params] this says exactly
      what a hit executes instead of the current call *)
  Lemma execute_from_calls : forall calls d c sql ps d' c' o,
    In (sql, ps) calls -> from_calls calls (cache c) ->
    execute d c sql ps = (d', c', o) -> from_calls calls (cache c').
  Proof.
    intros calls d c sql ps d' c' o Hin Hg H. unfold Cursor.execute in H.
    destruct (lru_get sql (cache c)) as [[st cache']|] eqn:Eg.
    - unfold Cursor.run_stmt in H. cbn [last cache] in H.
      destruct (exec_stmt d (last c) st) as [[[d1 l1] o1] clr]. inversion H; subst. cbn [cache].
      destruct clr; [intros k s []|]. intros k s Hi. apply Hg. eapply lru_get_In; eassumption.
    - destruct (process sql ps) as [t|] eqn:Hpr; [|inversion H; now subst].
      destruct (parse t) as [st|] eqn:Hpa; [|inversion H; now subst].
      unfold Cursor.run_stmt in H. cbn [last cache] in H.
      destruct (exec_stmt d (last c) st) as [[[d1 l1] o1] clr]. inversion H; subst. cbn [cache].
      destruct clr; [intros k s []|].
      intros k s Hi. apply lru_put_In in Hi. destruct Hi as [Heq|Hi]; [|now apply Hg].
      inversion Heq; subst. now exists ps, t.
  Qed.

  Lemma run_cursor_from_calls : forall calls suffix d c,
    incl suffix calls -> from_calls calls (cache c) ->
    let '(_, _, c') := run_cursor d c suffix in from_calls calls (cache c').
  Proof.
    intros calls. induction suffix as [|[sql ps] rest IH]; intros d c Hi Hg; cbn [Cursor.run_cursor]; [exact Hg|].
    destruct (execute d c sql ps) as [[d1 c1] o1] eqn:E.
    assert (Hin : In (sql, ps) calls) by (apply Hi; now left).
    pose proof (execute_from_calls calls _ _ _ _ _ _ _ Hin Hg E) as Hg1.
    assert (Hi' : incl rest calls) by (intros x Hx; apply Hi; now right).
    specialize (IH d1 c1 Hi' Hg1). now destruct (run_cursor d1 c1 rest) as [[os d2] c2].
  Qed.

  Theorem cache_entries_from_history : forall calls d,
    let '(_, _, c') := run_cursor d new_cursor calls in
    forall k s, In (k, s) (cache c') ->
      exists ps t, In (k, ps) calls /\ process k ps = Some t /\ parse t = Some s.
  Proof.
    intros calls d. pose proof (run_cursor_from_calls calls calls d new_cursor (incl_refl _)) as H.
    destruct (run_cursor d new_cursor calls) as [[os d'] c']. apply H. intros k s [].
  Qed.

  Lemma cursor_plain_functional_go : forall calls, functional calls ->
    forall suffix d c, incl suffix calls -> from_calls calls (cache c) ->
    let '(os, d', c') := run_cursor d c suffix in
    run_plain process d (last c) suffix = (os, d', last c').
  Proof.
    intros calls HF. induction suffix as [|[sql ps] rest IH]; intros d c Hi Hg;
      cbn [Cursor.run_cursor Cursor.run_plain]; [reflexivity|].
    destruct (execute d c sql ps) as [[d1 c1] o1] eqn:E.
    assert (Hin : In (sql, ps) calls) by (apply Hi; now left).
    destruct (execute_plain_functional calls _ _ _ _ _ _ _ HF Hin Hg E) as [Hp Hg1]. rewrite Hp.
    assert (Hi' : incl rest calls) by (intros x Hx; apply Hi; now right).
    specialize (IH d1 c1 Hi' Hg1). destruct (run_cursor d1 c1 rest) as [[os d2] c2]. now rewrite IH.
  Qed.

  (** on histories that always pass the same parameters with the same text the cursor's cache is
      invisible (starting from the empty cache of a new cursor) *)
  Theorem cursor_plain_functional : forall calls d, functional calls ->
    let '(os, d', c') := run_cursor d new_cursor calls in
    run_plain process d None calls = (os, d', last c').
  Proof.
    intros calls d HF.
    apply (cursor_plain_functional_go calls HF calls d new_cursor (incl_refl _)).
    intros k s [].
  Qed.

  Lemma NoDup_functional : forall calls, NoDup (map fst calls) -> functional calls.
  Proof.
    induction calls as [|[k0 p0] rest IH]; intros Hnd k p1 p2 H1 H2; [inversion H1|].
    cbn [map fst] in Hnd. inversion Hnd as [|? ? Hnotin Hnd']; subst.
    assert (Hk : forall p, In (k0, p) rest -> False).
    { intros p Hp. apply Hnotin. change k0 with (fst (k0, p)). now apply in_map. }
    destruct H1 as [E1|H1]; destruct H2 as [E2|H2].
    - congruence.
    - inversion E1; subst. exfalso. eapply Hk; eassumption.
    - inversion E2; subst. exfalso. eapply Hk; eassumption.
    - eapply IH; eassumption.
  Qed.

  (** * 4. the property *)
  Lemma run_plain_ext : forall b1 b2 calls,
    (forall sql ps, In (sql, ps) calls -> b1 sql ps = b2 sql ps) ->
    forall d l, run_plain b1 d l calls = run_plain b2 d l calls.
  Proof.
    intros b1 b2. induction calls as [|[sql ps] rest IH]; intros Hb d l; cbn [Cursor.run_plain]; [reflexivity|].
    unfold Cursor.plain_call. rewrite (Hb sql ps (or_introl eq_refl)).
    destruct (b2 sql ps) as [t|].
    - destruct (parse t) as [st|].
      + destruct (exec_stmt d l st) as [[[d1 l1] o1] clr]. rewrite IH; [reflexivity|]. intros; apply Hb; now right.
      + rewrite IH; [reflexivity|]. intros; apply Hb; now right.
    - rewrite IH; [reflexivity|]. intros; apply Hb; now right.
  Qed.

  (** no '?' inside a literal / delimited identifier / comment, parameters in the domain where the code
      prints the specification's literal *)
  Definition clean_call (c : text * option (list pyval)) : Prop :=
    forall ps, snd c = Some ps -> count_protected_qm SCode (fst c) = O /\ forallb spec_agrees ps = true.

  Theorem binding_faithful : forall calls d,
    functional calls -> Forall clean_call calls ->
    let '(os, d', c') := run_cursor d new_cursor calls in
    run_spec d calls = (os, d', last c').
  Proof.
    intros calls d HF HC. pose proof (cursor_plain_functional calls d HF) as H.
    destruct (run_cursor d new_cursor calls) as [[os d'] c']. rewrite <- H. unfold Cursor.run_spec.
    symmetry. apply run_plain_ext. intros sql ps Hin.
    rewrite Forall_forall in HC. specialize (HC _ Hin). apply process_eq_spec. exact HC.
  Qed.

  Corollary binding_faithful_unique_texts : forall calls d,
    NoDup (map fst calls) -> Forall clean_call calls ->
    let '(os, d', c') := run_cursor d new_cursor calls in
    run_spec d calls = (os, d', last c').
  Proof. intros calls d Hnd. apply binding_faithful. now apply NoDup_functional. Qed.

  (** the repaired cursor (literal-aware binder first, cache keyed by the bound text) satisfies the
      property for EVERY call sequence *)
  Theorem binding_faithful_fixed : forall calls d,
    let '(os, d', c') := run_fixed process_spec d new_cursor calls in
    run_spec d calls = (os, d', last c').
  Proof.
    intros calls d. apply (cache_transparent_fixed process_spec calls d new_cursor). intros k s [].
  Qed.

  (** * 6. the code as it is now ([execute_now]: bound-key cache, values refused as the specification does) *)
  Notation run_now := (Cursor.run_now stmt D res parse kind exec cap).

  Theorem cache_transparent_now : forall calls d,
    let '(os, d', c') := run_now d new_cursor calls in
    run_plain process_now d None calls = (os, d', last c').
  Proof. intros calls d. apply (cache_transparent_fixed process_now calls d new_cursor). intros k s []. Qed.

  (** the only side condition left: no '?' inside a literal / delimited identifier / comment *)
  Definition clean_now (c : text * option (list pyval)) : Prop :=
    forall ps, snd c = Some ps -> count_protected_qm SCode (fst c) = O.

  Theorem binding_faithful_now : forall calls d,
    Forall clean_now calls ->
    let '(os, d', c') := run_now d new_cursor calls in
    run_spec d calls = (os, d', last c').
  Proof.
    intros calls d HC. pose proof (cache_transparent_now calls d) as H.
    destruct (run_now d new_cursor calls) as [[os d'] c']. rewrite <- H. unfold Cursor.run_spec.
    symmetry. apply run_plain_ext. intros sql ps Hin.
    rewrite Forall_forall in HC. specialize (HC _ Hin). apply process_now_eq_spec. exact HC.
  Qed.

  Theorem cache_size_bound_now : forall d c sql ps d' c' o,
    (length (cache c) <= cap)%nat ->
    Cursor.execute_now stmt D res parse kind exec cap d c sql ps = (d', c', o) -> (length (cache c') <= cap)%nat.
  Proof.
    intros d c sql ps d' c' o Hc H. unfold Cursor.execute_now, Cursor.execute_fixed in H.
    destruct (process_now sql ps) as [t|]; [|inversion H; now subst].
    destruct (lru_get t (cache c)) as [[st cache']|] eqn:Eg.
    - apply run_stmt_cache in H. cbn [cache] in H. pose proof (lru_get_length _ _ _ _ Eg).
      destruct H as [->| ->]; cbn [length]; lia.
    - destruct (parse t) as [st|]; [|inversion H; now subst].
      apply run_stmt_cache in H. cbn [cache] in H. pose proof (lru_put_length t st (cache c)).
      destruct H as [->| ->]; cbn [length]; lia.
  Qed.

End Laws.

(** * Refutations of the unconditional statement on the faithful model.
    Instance: statements are their own text, execution returns the text it was given. *)
Definition echo_outcomes (calls : list (text * option (list pyval))) : list (outcome text) :=
  fst (fst (run_cursor text unit text (@Some text) (fun _ => KSelect) (fun d s => (d, Some s)) 1000 tt new_cursor calls)).
Definition echo_spec (calls : list (text * option (list pyval))) : list (outcome text) :=
  fst (fst (run_spec text unit text (@Some text) (fun _ => KSelect) (fun d s => (d, Some s)) tt calls)).

Definition sel_q : text := [83; 69; 76; 69; 67; 84; 32; 63].                (* SELECT ? *)
Definition sel_quoted_q : text := [83; 69; 76; 69; 67; 84; 32; 39; 63; 39]. (* SELECT '?' *)

Definition sel_lit (l : text) : text := [83; 69; 76; 69; 67; 84; 32] ++ l.   (* SELECT <l> *)
Definition inf_bits : Z := 9218868437227405312.

(** second call with the same text and other parameters executes the first call's values
    (both calls are clean: no protected '?', small ints) *)
Theorem binding_refuted_cache :
  let calls := [(sel_q, Some [PInt 1]); (sel_q, Some [PInt 2])] in
  Forall clean_call calls /\ echo_outcomes calls = [OOk (sel_lit [49]); OOk (sel_lit [49])] /\ echo_spec calls = [OOk (sel_lit [49]); OOk (sel_lit [50])].
Proof.
  cbv zeta. split; [|split; vm_compute; reflexivity].
  repeat (first [apply Forall_nil | apply Forall_cons; [intros ps H; inversion H; subst; vm_compute; split; reflexivity|]]).
Qed.

(** on a hit neither the number of parameters nor their absence matters *)
Theorem binding_refuted_cache_count :
  let calls := [(sel_q, Some [PInt 1]); (sel_q, Some []); (sel_q, None)] in
  echo_outcomes calls = [OOk (sel_lit [49]); OOk (sel_lit [49]); OOk (sel_lit [49])] /\ echo_spec calls = [OOk (sel_lit [49]); OProgBind; OOk sel_q].
Proof. cbv zeta. split; vm_compute; reflexivity. Qed.

(** a '?' inside a string literal is substituted (one call, so the history is functional) *)
Theorem binding_refuted_literal :
  let calls := [(sel_quoted_q, Some [PInt 5])] in
  functional calls /\ echo_outcomes calls = [OOk (sel_lit [39; 53; 39])] /\ echo_spec calls = [OProgBind].
Proof.
  cbv zeta. split; [|split; vm_compute; reflexivity].
  intros k p1 p2 [H1|[]] [H2|[]]. congruence.
Qed.

(** ... and it is counted: the correct call (no parameter for a text without placeholder) is rejected *)
Theorem binding_refuted_literal_count :
  let calls := [(sel_quoted_q, Some [])] in
  echo_outcomes calls = [OProgBind] /\ echo_spec calls = [OOk sel_quoted_q].
Proof. cbv zeta. split; vm_compute; reflexivity. Qed.

(** an infinity is bound as the word inf, which the reader takes for a column name *)
Theorem binding_refuted_nonfinite :
  let calls := [(sel_q, Some [PFloat inf_bits])] in
  functional calls /\ count_protected_qm SCode sel_q = O /\ echo_outcomes calls = [OOk (sel_lit [105; 110; 102])] /\ echo_spec calls = [OProgBind].
Proof.
  cbv zeta. split; [|split; [reflexivity|split; vm_compute; reflexivity]].
  intros k p1 p2 [H1|[]] [H2|[]]. congruence.
Qed.

(** hence the unconditional statement is false *)
Theorem binding_faithful_unconditional_refuted :
  ~ (forall (stmt D res : Type) (parse : text -> option stmt) (kind : stmt -> skind)
            (exec : D -> stmt -> D * option res) (cap : nat) (calls : list (text * option (list pyval))) (d : D),
       fst (fst (run_cursor stmt D res parse kind exec cap d new_cursor calls))
       = fst (fst (run_spec stmt D res parse kind exec d calls))).
Proof.
  intros H.
  specialize (H text unit text (@Some text) (fun _ => KSelect) (fun d s => (d, Some s)) 1000%nat
                [(sel_q, Some [PInt 1]); (sel_q, Some [PInt 2])] tt).
  vm_compute in H. discriminate.
Qed.

(** non-trivial instance of [binding_faithful]: same text twice with the same parameters, another text
    with a quoted '?' but no parameters *)
Example binding_faithful_ex :
  let calls := [(sel_q, Some [PStr [97; 39]]); (sel_q, Some [PStr [97; 39]]); (sel_quoted_q, None)] in
  functional calls /\ Forall clean_call calls /\ echo_outcomes calls = echo_spec calls /\ length (echo_outcomes calls) = 3%nat.
Proof.
  cbv zeta. split; [|split; [|split; vm_compute; reflexivity]].
  - intros k p1 p2 H1 H2. cbn [In] in H1, H2.
    destruct H1 as [H1|[H1|[H1|[]]]]; destruct H2 as [H2|[H2|[H2|[]]]]; inversion H1; inversion H2; subst; try reflexivity;
      discriminate.
  - repeat (first [apply Forall_nil | apply Forall_cons; [intros ps H; inversion H; subst; vm_compute; split; reflexivity|]]).
Qed.

(** * the code as it is now on the former witnesses *)
Definition echo_now (calls : list (text * option (list pyval))) : list (outcome text) :=
  fst (fst (run_now text unit text (@Some text) (fun _ => KSelect) (fun d s => (d, Some s)) 1000 tt new_cursor calls)).

(** repaired: the second call executes its own value; arity and a missing tuple are noticed *)
Theorem cache_witness_repaired :
  let calls := [(sel_q, Some [PInt 1]); (sel_q, Some [PInt 2]); (sel_q, Some []); (sel_q, None)] in
  echo_now calls = [OOk (sel_lit [49]); OOk (sel_lit [50]); OProgBind; OOk sel_q] /\
  echo_now calls = echo_spec calls.
Proof. cbv zeta. split; vm_compute; reflexivity. Qed.

(** repaired: an infinity is refused instead of becoming the word inf *)
Theorem nonfinite_witness_repaired :
  let calls := [(sel_q, Some [PFloat inf_bits])] in
  echo_now calls = [OProgBind] /\ echo_now calls = echo_spec calls.
Proof. cbv zeta. split; vm_compute; reflexivity. Qed.

(** still broken: a '?' inside a string literal is substituted and counted *)
Theorem binding_now_refuted_literal :
  let calls := [(sel_quoted_q, Some [PInt 5])] in
  echo_now calls = [OOk (sel_lit [39; 53; 39])] /\ echo_spec calls = [OProgBind].
Proof. cbv zeta. split; vm_compute; reflexivity. Qed.

Theorem binding_now_refuted_literal_count :
  let calls := [(sel_quoted_q, Some [])] in
  echo_now calls = [OProgBind] /\ echo_spec calls = [OOk sel_quoted_q].
Proof. cbv zeta. split; vm_compute; reflexivity. Qed.

Theorem binding_faithful_now_unconditional_refuted :
  ~ (forall (stmt D res : Type) (parse : text -> option stmt) (kind : stmt -> skind)
            (exec : D -> stmt -> D * option res) (cap : nat) (calls : list (text * option (list pyval))) (d : D),
       fst (fst (run_now stmt D res parse kind exec cap d new_cursor calls))
       = fst (fst (run_spec stmt D res parse kind exec d calls))).
Proof.
  intros H.
  specialize (H text unit text (@Some text) (fun _ => KSelect) (fun d s => (d, Some s)) 1000%nat
                [(sel_quoted_q, Some [PInt 5])] tt).
  vm_compute in H. discriminate.
Qed.

Example binding_faithful_now_ex :
  let calls := [(sel_q, Some [PStr [97; 39]]); (sel_q, Some [PInt 9223372036854775808]); (sel_quoted_q, None)] in
  Forall clean_now calls /\ echo_now calls = echo_spec calls /\ length (echo_now calls) = 3%nat.
Proof.
  cbv zeta. split; [|split; vm_compute; reflexivity].
  repeat (first [apply Forall_nil | apply Forall_cons; [intros ps H; inversion H; subst; vm_compute; reflexivity|]]).
Qed.
