(** C10/C15: UPDATE preserves the invariant outside the known classes. *)
From Coq Require Import List ZArith Bool Arith Lia Permutation.
From VibeSQL Require Import Store.Table Store.UserIndex Store.Constraints Store.Dml
     Store.TableLaws Store.UserIndexLaws Store.Invariant Store.DmlLaws Store.InsertLaws.
Import ListNotations.

Notation u_idx u := (fst (fst u)).
Notation u_old u := (snd (fst u)).
Notation u_new u := (snd u).

(* ------------------------------------------------------------------------------------ *)
(** * Row selection *)

Lemma scan_from_In w rows : forall n i r,
  In (i, r) (scan_from n w rows) -> n <= i /\ nth_error rows (i - n) = Some r.
Proof.
  induction rows as [|r0 rows IH]; intros n i r H; cbn in H; [destruct H|].
  assert (Hrest : In (i, r) (scan_from (S n) w rows) -> n <= i /\ nth_error (r0 :: rows) (i - n) = Some r).
  { intros H'. destruct (IH _ _ _ H') as [Hle Hn]. split; [lia|].
    replace (i - n) with (S (i - S n)) by lia. exact Hn. }
  destruct (match w with Some p => pred_true p r0 | None => true end); [|auto].
  destruct H as [E|H]; [|auto]. inversion E; subst. split; [lia|]. rewrite Nat.sub_diag. reflexivity.
Qed.

Lemma scan_from_NoDup w rows : forall n, NoDup (map fst (scan_from n w rows)).
Proof.
  induction rows as [|r0 rows IH]; intros n; cbn; [constructor|].
  destruct (match w with Some p => pred_true p r0 | None => true end); [|apply IH].
  cbn. constructor; [|apply IH]. intros Hin. apply in_map_iff in Hin. destruct Hin as [[i r] [E Hin]].
  cbn in E; subst i. apply scan_from_In in Hin. lia.
Qed.

(** candidates: distinct positions, each paired with the row stored there *)
Definition cands_ok (rows : list row) (cands : list (nat * row)) : Prop :=
  NoDup (map fst cands) /\ forall i r, In (i, r) cands -> nth_error rows i = Some r.

Lemma select_rows_ok t w cands : select_rows t w = Some cands -> cands_ok (t_rows t) cands.
Proof.
  unfold select_rows. intros H.
  assert (Hscan : cands_ok (t_rows t) (scan_from 0 w (t_rows t))).
  { split; [apply scan_from_NoDup|]. intros i r Hin. apply scan_from_In in Hin.
    destruct Hin as [_ Hn]. rewrite Nat.sub_0_r in Hn. exact Hn. }
  destruct (pk_lookup (t_sch t) w) as [k|]; [|inversion H; subst; exact Hscan].
  destruct (t_pkidx t) as [m|]; [|inversion H; subst; exact Hscan].
  destruct (am_find k m) as [i|].
  - destruct (nth_error (t_rows t) i) as [r|] eqn:En; [|discriminate]. inversion H; subst.
    split; [cbn; constructor; [intros [] | constructor]|].
    intros i' r' [E|[]]. inversion E; subst. exact En.
  - inversion H; subst. split; [constructor | intros i r []].
Qed.

(* ------------------------------------------------------------------------------------ *)
(** * The plan built by upd_build *)

Lemma apply_asg_untouched orig asg : forall acc new,
  apply_asg orig asg acc = Some new ->
  length new = length acc /\ forall c, ~ In c (map fst asg) -> nth c new None = nth c acc None.
Proof.
  induction asg as [|[c e] asg IH]; intros acc new H; cbn in H.
  - inversion H; subst. auto.
  - destruct (eval_sexpr e orig) as [v|]; [|discriminate].
    destruct (IH _ _ H) as [Hl Hn]. split; [rewrite Hl; apply set_nth_length|].
    intros c' Hc'. cbn in Hc'. rewrite Hn by tauto. apply nth_set_nth_neq. tauto.
Qed.

Lemma upd_build_spec t asg cands : forall acc ups,
  upd_build t asg cands acc = UPlan ups ->
  exists tail, ups = acc ++ tail
    /\ map (fun u => (u_idx u, u_old u)) tail = cands
    /\ forall u, In u tail -> apply_asg (u_old u) asg (u_old u) = Some (u_new u)
                              /\ upd_validate t (u_old u) (u_new u) = true.
Proof.
  induction cands as [|[i old] cands IH]; intros acc ups H; cbn in H.
  - inversion H; subst. exists []. rewrite app_nil_r. split; [reflexivity|]. split; [reflexivity|]. intros u [].
  - destruct (apply_asg old asg old) as [new|] eqn:Ea; [|discriminate].
    destruct (upd_validate t old new) eqn:Ev; [|discriminate].
    destruct (IH _ _ H) as [tail [E1 [E2 E3]]].
    exists ((i, old, new) :: tail). split; [rewrite E1, <- app_assoc; reflexivity|].
    split; [cbn; rewrite E2; reflexivity|].
    intros u [<-|Hu]; [cbn; auto | apply E3; exact Hu].
Qed.

(** plan entries: distinct positions, each with the row stored there as its "old" row *)
Definition plan_ok (rows : list row) (ups : list (nat * row * row)) : Prop :=
  NoDup (map (fun u => u_idx u) ups) /\ forall u, In u ups -> nth_error rows (u_idx u) = Some (u_old u).

Lemma plan_ok_of_cands rows cands ups :
  cands_ok rows cands -> map (fun u => (u_idx u, u_old u)) ups = cands -> plan_ok rows ups.
Proof.
  intros [Hn Hc] <-. split.
  - rewrite map_map in Hn. cbn in Hn. exact Hn.
  - intros u Hu. apply Hc. apply in_map_iff. exists u; auto.
Qed.

Lemma plan_ok_step rows i old new rest :
  plan_ok rows ((i, old, new) :: rest) -> nth_error rows i = Some old /\ plan_ok (set_nth i new rows) rest.
Proof.
  intros [Hn Hc]. cbn in Hn. inversion Hn; subst. split; [apply (Hc (i, old, new)); left; reflexivity|].
  split; [assumption|]. intros u Hu. rewrite nth_error_set_nth_neq; [apply Hc; right; exact Hu|].
  intros ->. apply H1. apply in_map_iff. exists u; auto.
Qed.

(** per-key facts of a validated, collision-free plan *)
Definition plan_good (kf : row -> option key) (rows : list row) (ups : list (nat * row * row)) : Prop :=
  uniq_on kf rows
  /\ (forall u, In u ups -> kf (u_new u) = kf (u_old u)
                           \/ forall k, kf (u_new u) = Some k -> ~ In k (somes kf rows))
  /\ NoDup (somes kf (map snd ups)).

Lemma uniq_on_set_nth kf rows i old new :
  uniq_on kf rows -> nth_error rows i = Some old ->
  (kf new = kf old \/ forall k, kf new = Some k -> ~ In k (somes kf rows)) ->
  uniq_on kf (set_nth i new rows).
Proof.
  intros Hu Hold Hv p q k Hp Hq.
  assert (Hlt : i < length rows) by (apply nth_error_Some; congruence).
  apply keyed_at_set_nth in Hp; [|assumption]. apply keyed_at_set_nth in Hq; [|assumption].
  assert (Hcross : forall j, j <> i -> keyed_at kf rows j k -> kf new = Some k -> False).
  { intros j Hne Hj Hk. destruct Hv as [E|Hf].
    - apply Hne. apply (Hu j i k); [exact Hj | exists old; split; [assumption | congruence]].
    - apply (Hf k Hk). apply In_somes. eauto. }
  destruct Hp as [[-> Hkp]|[Hnp Hp]], Hq as [[-> Hkq]|[Hnq Hq]].
  - reflexivity.
  - exfalso; eapply Hcross; eauto.
  - exfalso; eapply Hcross; eauto.
  - eapply Hu; eauto.
Qed.

Lemma plan_good_step kf rows i old new rest :
  nth_error rows i = Some old ->
  plan_good kf rows ((i, old, new) :: rest) ->
  uniq_on kf (set_nth i new rows) /\ plan_good kf (set_nth i new rows) rest.
Proof.
  intros Hold [Hu [Hv Hn]].
  assert (Hlt : i < length rows) by (apply nth_error_Some; congruence).
  assert (Hu' : uniq_on kf (set_nth i new rows)).
  { eapply uniq_on_set_nth; eauto. apply (Hv (i, old, new)). left; reflexivity. }
  split; [exact Hu'|]. split; [exact Hu'|]. split.
  - intros u Hin. destruct (Hv u (or_intror Hin)) as [E|Hf]; [left; exact E | right].
    intros k Hk Hin'. apply In_somes in Hin'. destruct Hin' as [j Hj].
    apply keyed_at_set_nth in Hj; [|assumption]. destruct Hj as [[-> Hkn]|[Hne Hj]].
    + (* the earlier update already produced this key: a collision among new rows *)
      cbn [map somes flat_map] in Hn. cbn [snd] in Hn. rewrite Hkn in Hn. cbn in Hn.
      inversion Hn; subst. apply H1. fold (somes kf (map snd rest)).
      apply In_somes. destruct (In_nth_error _ _ Hin) as [a Ha].
      exists a, (u_new u). split; [|exact Hk]. rewrite (map_nth_error snd a rest Ha). reflexivity.
    + apply (Hf k Hk). apply In_somes; eauto.
  - cbn [map somes flat_map] in Hn. fold (somes kf (map snd rest)) in Hn.
    destruct (kf (snd (i, old, new))); cbn in Hn; [inversion Hn; assumption | exact Hn].
Qed.

(* ------------------------------------------------------------------------------------ *)
(** * One row update on the hash maps *)

Lemma h_update_mirror kf rows i old new m m' :
  am_equiv m (h_rebuild kf rows) -> nth_error rows i = Some old ->
  uniq_on kf rows -> uniq_on kf (set_nth i new rows) ->
  (h_spec kf rows m ->
   forall k, am_find k m' =
             if match kf new with Some kn => key_eqb k kn | None => false end then Some i
             else if match kf old with Some ko => key_eqb k ko | None => false end then None
                  else am_find k m) ->
  am_equiv m' (h_rebuild kf (set_nth i new rows)).
Proof.
  intros He Hold Hu Hu' Hf. apply (h_mirror_spec kf rows m Hu) in He.
  apply (h_mirror_spec kf _ m' Hu'). eapply h_spec_update; eauto.
Qed.

Lemma find_eq_same_key kf rows i old new m :
  h_spec kf rows m -> nth_error rows i = Some old -> kf new = kf old ->
  forall k, am_find k m =
            if match kf new with Some kn => key_eqb k kn | None => false end then Some i
            else if match kf old with Some ko => key_eqb k ko | None => false end then None
                 else am_find k m.
Proof.
  intros Hs Hold E k. rewrite E. destruct (kf old) as [ko|] eqn:Eo; [|reflexivity].
  destruct (key_eqb k ko) eqn:Ek; [|reflexivity].
  apply key_eqb_eq in Ek; subst k. apply Hs. exists old; auto.
Qed.

Lemma untouched_proj cols changed (old new : row) :
  cols_touched cols changed = false ->
  (forall c, ~ In c changed -> nth c new None = nth c old None) ->
  proj cols new = proj cols old.
Proof.
  intros Ht Hn. unfold proj. apply map_ext_in. intros c Hc. apply Hn. intros Hin.
  unfold cols_touched in Ht. rewrite existsb_exists_false in Ht. specialize (Ht c Hc).
  rewrite existsb_exists_false in Ht. specialize (Ht c Hin). rewrite Nat.eqb_refl in Ht. discriminate.
Qed.

Lemma pk_for_update_mirror s rows i old new changed pk :
  opt_am_equiv pk (pk_rebuild s rows) -> nth_error rows i = Some old ->
  (forall cols, s_pk s = Some cols -> uniq_on (pk_kf cols) rows /\ uniq_on (pk_kf cols) (set_nth i new rows)) ->
  (forall c, ~ In c changed -> nth c new None = nth c old None) ->
  opt_am_equiv (pk_for_update s old new i changed pk) (pk_rebuild s (set_nth i new rows)).
Proof.
  intros He Hold Hu Hn. unfold pk_rebuild, pk_for_update in *.
  destruct pk as [m|], (s_pk s) as [cols|]; cbn [opt_am_equiv] in *; try contradiction; try exact I.
  destruct (Hu cols eq_refl) as [Hu1 Hu2].
  destruct (cols_touched cols changed) eqn:Et; cbn [opt_am_equiv].
  - eapply h_update_mirror; eauto. intros Hs k. unfold pk_kf. apply pk_upd_find.
    apply Hs. exists old; auto.
  - eapply h_update_mirror; eauto. intros Hs. eapply find_eq_same_key; eauto.
    unfold pk_kf. f_equal. eapply untouched_proj; eauto.
Qed.

Lemma uq_for_update_mirror uniqs : forall uq rows i old new changed,
  Forall2 am_equiv uq (map (fun cols => h_rebuild (uq_kf cols) rows) uniqs) ->
  nth_error rows i = Some old ->
  Forall (fun cols => uniq_on (uq_kf cols) rows /\ uniq_on (uq_kf cols) (set_nth i new rows)) uniqs ->
  (forall c, ~ In c changed -> nth c new None = nth c old None) ->
  Forall2 am_equiv (uq_for_update uniqs old new i changed uq)
                   (map (fun cols => h_rebuild (uq_kf cols) (set_nth i new rows)) uniqs).
Proof.
  induction uniqs as [|cols uniqs IH]; intros uq rows i old new changed H2 Hold Hf Hn;
    inversion H2; subst; cbn; constructor.
  - inversion Hf; subst. destruct H1 as [Hu1 Hu2].
    destruct (cols_touched cols changed) eqn:Et.
    + eapply h_update_mirror; eauto. intros Hs k. apply uq_upd_find.
    + eapply h_update_mirror; eauto. intros Hs. eapply find_eq_same_key; eauto.
      unfold uq_kf. erewrite untouched_proj; eauto.
  - inversion Hf; subst. eapply IH; eauto.
Qed.

(* ------------------------------------------------------------------------------------ *)
(** * The row loop *)

Lemma Forall_set_nth {A} (P : A -> Prop) i x l : Forall P l -> P x -> Forall P (set_nth i x l).
Proof.
  revert i; induction l as [|y l IH]; intros [|i] Hf Hx; cbn; try constructor; inversion Hf; subst; auto.
Qed.

Lemma apply_ups_cons u ups rows : apply_ups (u :: ups) rows = apply_ups ups (set_nth (u_idx u) (u_new u) rows).
Proof. reflexivity. Qed.

(** every planned new row is well-formed: arity, NOT NULL, declared CHECKs, and agrees with its
    old row outside the assigned columns *)
Definition news_ok (s : schema) (changed : list nat) (ups : list (nat * row * row)) : Prop :=
  forall u, In u ups ->
    length (u_new u) = s_ncols s
    /\ notnull_ok (s_notnull s) (u_new u) = true
    /\ checks_ok (s_checks_decl s) (u_new u) = true
    /\ (forall c, ~ In c changed -> nth c (u_new u) None = nth c (u_old u) None).

Lemma upd_apply_rows_inv changed : forall ups t,
  rows_wf t -> hash_mirror t ->
  Forall (fun r => notnull_ok (s_notnull (t_sch t)) r = true) (t_rows t) ->
  Forall (fun r => checks_ok (s_checks_decl (t_sch t)) r = true) (t_rows t) ->
  plan_ok (t_rows t) ups ->
  (forall cols, s_pk (t_sch t) = Some cols -> plan_good (pk_kf cols) (t_rows t) ups) ->
  Forall (fun cols => plan_good (uq_kf cols) (t_rows t) ups) (s_uniqs (t_sch t)) ->
  news_ok (t_sch t) changed ups ->
  exists t', upd_apply_rows t changed ups = (t', true)
    /\ t_rows t' = apply_ups ups (t_rows t) /\ t_sch t' = t_sch t /\ t_uidx t' = t_uidx t
    /\ rows_wf t' /\ hash_mirror t'
    /\ Forall (fun r => notnull_ok (s_notnull (t_sch t)) r = true) (t_rows t')
    /\ Forall (fun r => checks_ok (s_checks_decl (t_sch t)) r = true) (t_rows t')
    /\ (forall cols, s_pk (t_sch t) = Some cols -> uniq_on (pk_kf cols) (t_rows t'))
    /\ Forall (fun cols => uniq_on (uq_kf cols) (t_rows t')) (s_uniqs (t_sch t)).
Proof.
  induction ups as [|[[i old] new] ups IH]; intros t Hwf Hh Hnn Hck Hp Hpk Huq Hnews.
  - exists t. cbn [upd_apply_rows apply_ups fold_left].
    split; [reflexivity|]. split; [reflexivity|]. split; [reflexivity|]. split; [reflexivity|].
    split; [exact Hwf|]. split; [exact Hh|]. split; [exact Hnn|]. split; [exact Hck|]. split.
    + intros cols E. apply (Hpk cols E).
    + rewrite Forall_forall in *. intros cols Hc. apply (Huq cols Hc).
  - destruct (plan_ok_step _ _ _ _ _ Hp) as [Hold Hp'].
    destruct (Hnews (i, old, new) (or_introl eq_refl)) as [Nl [Nn [Nc Nu]]]. cbn [fst snd] in *.
    cbn [upd_apply_rows]. unfold tbl_update_row_selective. rewrite Hold.
    unfold normalize. rewrite Nl, Nat.eqb_refl, Nn. cbn [negb].
    set (t1 := {| t_sch := t_sch t; t_rows := set_nth i new (t_rows t);
                  t_pkidx := pk_for_update (t_sch t) old new i changed (t_pkidx t);
                  t_uqidx := uq_for_update (s_uniqs (t_sch t)) old new i changed (t_uqidx t);
                  t_trk := t_trk t; t_uidx := t_uidx t |}).
    assert (Hpk1 : forall cols, s_pk (t_sch t) = Some cols ->
                     uniq_on (pk_kf cols) (set_nth i new (t_rows t))
                     /\ plan_good (pk_kf cols) (set_nth i new (t_rows t)) ups).
    { intros cols E. apply plan_good_step with (old := old); [exact Hold | apply Hpk; exact E]. }
    assert (Huq1 : Forall (fun cols => uniq_on (uq_kf cols) (set_nth i new (t_rows t))
                     /\ plan_good (uq_kf cols) (set_nth i new (t_rows t)) ups) (s_uniqs (t_sch t))).
    { rewrite Forall_forall in *. intros cols Hc.
      apply plan_good_step with (old := old); [exact Hold | apply Huq; exact Hc]. }
    destruct (IH t1) as [t' [E1 [E2 [E3 [E4 [E5 [E6 [E7 [E8 [E9 E10]]]]]]]]]].
    + destruct Hwf as [Hw1 Hw2]. split; subst t1; simp_tab; [apply Forall_set_nth; assumption | exact Hw2].
    + destruct Hh as [Hh1 Hh2]. split; subst t1; simp_tab.
      * apply pk_for_update_mirror; auto. intros cols E. split; [apply (Hpk cols E) | apply (Hpk1 cols E)].
      * apply uq_for_update_mirror; auto. rewrite Forall_forall in *. intros cols Hc.
        split; [apply (Huq cols Hc) | apply (Huq1 cols Hc)].
    + subst t1; simp_tab. apply Forall_set_nth; assumption.
    + subst t1; simp_tab. apply Forall_set_nth; assumption.
    + subst t1; simp_tab. exact Hp'.
    + subst t1; simp_tab. intros cols E. apply (Hpk1 cols E).
    + subst t1; simp_tab. rewrite Forall_forall in *. intros cols Hc. apply (Huq1 cols Hc).
    + subst t1; simp_tab. intros u Hu. apply Hnews. right; exact Hu.
    + exists t'. subst t1; simp_tab.
      split; [exact E1|]. split; [exact E2|]. split; [exact E3|]. split; [exact E4|].
      split; [exact E5|]. split; [exact E6|]. split; [exact E7|]. split; [exact E8|].
      split; [exact E9 | exact E10].
Qed.

(* ------------------------------------------------------------------------------------ *)
(** * The user-index loop *)

Definition ui_upd_all (cols : list nat) (ups : list (nat * row * row)) (m : amap (list nat)) : amap (list nat) :=
  fold_left (fun m u => ui_upd cols (u_old u) (u_new u) (u_idx u) m) ups m.

Lemma upd_apply_uidx_map ups : forall us,
  upd_apply_uidx us ups = map (fun u => ui_set_data u (ui_upd_all (ui_cols u) ups (ui_data u))) us.
Proof.
  induction ups as [|[[i old] new] ups IH]; intros us; cbn.
  - rewrite <- (map_id us) at 1. apply map_ext. intros [a b c d]; reflexivity.
  - rewrite IH. unfold uidx_for_update. rewrite map_map. apply map_ext. intros u; reflexivity.
Qed.

Lemma ui_upd_all_spec cols ups : forall rows m,
  plan_ok rows ups -> ui_spec cols rows m -> ui_spec cols (apply_ups ups rows) (ui_upd_all cols ups m).
Proof.
  induction ups as [|[[i old] new] ups IH]; intros rows m Hp Hs; [exact Hs|].
  destruct (plan_ok_step _ _ _ _ _ Hp) as [Hold Hp'].
  rewrite apply_ups_cons. cbn [fst snd]. unfold ui_upd_all. cbn [fold_left fst snd].
  apply IH; [exact Hp'|]. apply ui_spec_upd; assumption.
Qed.

(* ------------------------------------------------------------------------------------ *)
(** * What upd_validate establishes for one key *)

Lemma upd_unique_ok_nth uniqs : forall uq old new j cols m,
  upd_unique_ok uniqs uq old new = true -> nth_error uniqs j = Some cols -> nth_error uq j = Some m ->
  has_null (proj cols new) = true
  \/ am_mem (proj cols new) m = false
  \/ proj cols new = proj cols old.
Proof.
  induction uniqs as [|c uniqs IH]; intros uq old new j cols m H Hc Hm; [destruct j; discriminate|].
  destruct uq as [|m0 uq]; [destruct j; discriminate|].
  cbn [upd_unique_ok] in H. apply andb_true_iff in H. destruct H as [H1 H2].
  destruct j as [|j]; cbn [nth_error] in Hc, Hm.
  - inversion Hc; inversion Hm; subst. apply orb_true_iff in H1. destruct H1 as [H1|H1]; [left; exact H1|].
    right. apply negb_true_iff in H1. apply andb_false_iff in H1. destruct H1 as [H1|H1]; [left; exact H1|].
    right. apply negb_false_iff in H1. apply key_eqb_eq in H1. exact H1.
  - eapply IH; eauto.
Qed.

Lemma fresh_of_not_mem kf rows m k :
  am_equiv m (h_rebuild kf rows) -> uniq_on kf rows -> am_mem k m = false -> ~ In k (somes kf rows).
Proof.
  intros He Hu Hm Hin. rewrite (mirror_mem_keyed kf rows m k He Hu Hin) in Hm. discriminate.
Qed.

(** a validated, collision-free plan leaves the key unique in the final table *)
Lemma plan_good_final kf : forall ups rows,
  plan_ok rows ups -> plan_good kf rows ups -> uniq_on kf (apply_ups ups rows).
Proof.
  induction ups as [|[[i old] new] ups IH]; intros rows Hp Hg; [apply Hg|].
  destruct (plan_ok_step _ _ _ _ _ Hp) as [Hold Hp'].
  destruct (plan_good_step kf rows i old new ups Hold Hg) as [_ Hg'].
  rewrite apply_ups_cons. cbn [fst snd]. apply IH; assumption.
Qed.

(* ------------------------------------------------------------------------------------ *)
(** * UPDATE *)

Lemma do_update_TInv t asg w t' res :
  TInv t -> kc_update t asg w = false -> do_update t asg w = (t', res) -> TInv t'.
Proof.
  intros HI Hk Hd. unfold do_update in Hd. unfold kc_update in Hk.
  destruct (negb (forallb (fun a => fst a <? s_ncols (t_sch t)) asg)); [inversion Hd; subst; exact HI|].
  destruct (select_rows t w) as [cands|] eqn:Es; [|inversion Hd; subst; exact HI].
  destruct (upd_build t asg cands []) as [| |ups] eqn:Eb; try (inversion Hd; subst; exact HI).
  pose proof HI as [Hwf [[Hnn [Hpk [Huq [Hck Hui]]]] [[Hhp Hhu] Hu]]].
  apply orb_false_iff in Hk. destruct Hk as [Hk Hk4].
  apply orb_false_iff in Hk. destruct Hk as [Hk Hk3].
  apply orb_false_iff in Hk. destruct Hk as [Hk1 Hk2].
  destruct (upd_build_spec _ _ _ _ _ Eb) as [tail [E1 [E2 E3]]]. cbn in E1; subst tail.
  pose proof (plan_ok_of_cands _ _ _ (select_rows_ok _ _ _ Es) E2) as Hplan.
  (* per-row facts *)
  assert (Hnews : news_ok (t_sch t) (map fst asg) ups).
  { intros u Hin. destruct (E3 u Hin) as [Ea Ev]. destruct (apply_asg_untouched _ _ _ _ Ea) as [Hl Hun].
    unfold upd_validate in Ev. repeat (apply andb_true_iff in Ev; destruct Ev as [Ev ?]).
    destruct Hplan as [_ Hpo]. specialize (Hpo u Hin).
    repeat split.
    - rewrite Hl. destruct Hwf as [Hw1 _]. eapply Forall_nth_error in Hw1; eauto.
    - exact Ev.
    - unfold unenforced_check_hit in Hk4. rewrite existsb_exists_false in Hk4.
      specialize (Hk4 (u_new u)). rewrite H0 in Hk4. cbn in Hk4.
      destruct (checks_ok (s_checks_decl (t_sch t)) (u_new u)); [reflexivity|].
      exfalso. assert (true = false); [|discriminate]. apply Hk4. apply in_map. exact Hin.
    - exact Hun. }
  assert (Gpk : forall cols, s_pk (t_sch t) = Some cols -> plan_good (pk_kf cols) (t_rows t) ups).
  { intros cols Ec. split; [apply Hpk; exact Ec|]. split.
    - intros u Hin. destruct (E3 u Hin) as [_ Ev]. unfold upd_validate in Ev.
      repeat (apply andb_true_iff in Ev; destruct Ev as [Ev ?]).
      unfold upd_pk_ok in H2. rewrite Ec in H2. unfold pk_rebuild in Hhp. rewrite Ec in Hhp.
      destruct (t_pkidx t) as [m|]; cbn in Hhp; [|contradiction].
      apply negb_true_iff in H2. apply andb_false_iff in H2. destruct H2 as [H2|H2].
      + right. intros k Hk. unfold pk_kf in Hk. inversion Hk; subst k.
        eapply fresh_of_not_mem; eauto.
      + left. apply negb_false_iff in H2. apply key_eqb_eq in H2. unfold pk_kf. congruence.
    - rewrite Ec in Hk1. apply has_dup_NoDup. exact Hk1. }
  assert (Guq : Forall (fun cols => plan_good (uq_kf cols) (t_rows t) ups) (s_uniqs (t_sch t))).
  { apply Forall_forall. intros cols Hin. destruct (In_nth_error _ _ Hin) as [j Hj].
    unfold uq_rebuild in Hhu.
    assert (Hj' : nth_error (map (fun cols => h_rebuild (uq_kf cols) (t_rows t)) (s_uniqs (t_sch t))) j
                  = Some (h_rebuild (uq_kf cols) (t_rows t)))
      by (exact (map_nth_error (fun c => h_rebuild (uq_kf c) (t_rows t)) j _ Hj)).
    destruct (Forall2_nth_error_r _ _ _ _ _ Hhu Hj') as [m [Em He]].
    rewrite Forall_forall in Huq. split; [apply Huq; exact Hin|]. split.
    - intros u Hu'. destruct (E3 u Hu') as [_ Ev]. unfold upd_validate in Ev.
      repeat (apply andb_true_iff in Ev; destruct Ev as [Ev ?]).
      destruct (upd_unique_ok_nth _ _ _ _ _ _ _ H1 Hj Em) as [Hn|[Hm|He']].
      + right. intros k Hk. unfold uq_kf in Hk. rewrite Hn in Hk. discriminate.
      + right. intros k Hk. unfold uq_kf in Hk. destruct (has_null (proj cols (u_new u))); [discriminate|].
        inversion Hk; subst k. eapply fresh_of_not_mem; eauto.
      + left. unfold uq_kf. rewrite He'. reflexivity.
    - rewrite existsb_exists_false in Hk2. apply has_dup_NoDup. apply Hk2. exact Hin. }
  assert (Gui : Forall (fun u => ui_unique u = true -> plan_good (uq_kf (ui_cols u)) (t_rows t) ups) (t_uidx t)).
  { apply Forall_forall. intros u Hin Hq. rewrite Forall_forall in Hui. split; [apply Hui; assumption|]. split.
    - intros u' Hu'. destruct (E3 u' Hu') as [_ Ev]. unfold upd_validate in Ev.
      repeat (apply andb_true_iff in Ev; destruct Ev as [Ev ?]).
      unfold upd_uidx_ok in H. rewrite forallb_forall in H. specialize (H u Hin). rewrite Hq in H. cbn in H.
      unfold ui_key in H. apply orb_true_iff in H. destruct H as [H|H].
      + apply orb_true_iff in H. destruct H as [H|H].
        * right. intros k Hk. unfold uq_kf in Hk. rewrite H in Hk. discriminate.
        * left. apply key_eqb_eq in H. unfold uq_kf. rewrite H. reflexivity.
      + right. intros k Hk Hin'. unfold uq_kf in Hk.
        destruct (has_null (proj (ui_cols u) (u_new u'))); [discriminate|]. inversion Hk; subst k.
        apply negb_true_iff in H. apply In_somes in Hin'. destruct Hin' as [j Hj]. apply uq_keyed_ui in Hj.
        unfold user_mirror in Hu. rewrite Forall_forall in Hu. specialize (Hu u Hin). apply ui_mirror_spec in Hu.
        eapply ui_spec_not_mem; eauto.
    - rewrite existsb_exists_false in Hk3. specialize (Hk3 u Hin). rewrite Hq in Hk3. cbn in Hk3.
      apply has_dup_NoDup. exact Hk3. }
  destruct (upd_apply_rows_inv (map fst asg) ups t Hwf (conj Hhp Hhu) Hnn Hck Hplan Gpk Guq Hnews)
    as [t1 [F1 [F2 [F3 [F4 [F5 [F6 [F7 [F8 [F9 F10]]]]]]]]]].
  rewrite F1 in Hd. inversion Hd; subst t' res; clear Hd.
  apply TInv_intro.
  - destruct F5 as [G1 G2]. split; simp_tab; assumption.
  - unfold constraints_hold. simp_tab. rewrite F3, F4, upd_apply_uidx_map. repeat split; auto.
    rewrite Forall_forall. intros u' Hin Hq. apply in_map_iff in Hin. destruct Hin as [u [<- Hin]].
    cbn in *. rewrite F2. apply plan_good_final; [exact Hplan|].
    rewrite Forall_forall in Gui. apply Gui; assumption.
  - destruct F6 as [G1 G2]. split; simp_tab; assumption.
  - unfold user_mirror in *. simp_tab. rewrite F4, upd_apply_uidx_map, F2.
    rewrite Forall_forall in *. intros u' Hin. apply in_map_iff in Hin. destruct Hin as [u [<- Hin]].
    cbn. apply ui_mirror_spec. apply ui_upd_all_spec; [exact Hplan|]. apply ui_mirror_spec. apply Hu; exact Hin.
Qed.
