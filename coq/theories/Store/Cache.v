(** * Store/Cache.v — executable model of the query result cache and of the protocol that uses it.

    Modelled code:
    - crates/vibesql-executor/src/cache/query_result_cache.rs: [QueryResultCache]
      ([get], [insert] with its evict-one-at-capacity rule, [contains], [clear], [invalidate_table],
      [stats().size]).  The Rust structure is a [HashMap<QuerySignature, CachedResult>] behind a
      [RwLock]; the model is an association list with at most one binding per key (the laws prove
      that invariant).  The cached [schema] is not modelled (the protocol below discards it).
    - tests/sqllogictest/db_adapter.rs [VibeSqlDB::execute_sql]: the protocol around the cache.
      SELECT: [get] by [QuerySignature::from_sql(sql)]; a hit returns the stored rows without
      executing; a miss executes and, when execution succeeds, [insert]s the rows together with the
      table names extracted from the statement.  INSERT / UPDATE / DELETE / DROP TABLE:
      [invalidate_table(stmt.table_name)] and then execute.  Every other statement kind
      (CREATE TABLE, ALTER TABLE, CREATE/DROP VIEW, BEGIN/COMMIT/ROLLBACK, ...) executes without
      touching the cache.

    What is not determined by the Rust source: which entry [insert] evicts.  The code evicts
    [cache.keys().next()], the first key in the iteration order of a std [HashMap] with
    [RandomState], which is unspecified and differs from run to run.  The model therefore takes the
    evicted key as an oracle argument [victim] and checks that it is a legal choice; the laws
    quantify over every legal choice and the correspondence run feeds the observed choice.

    The database is abstract in the protocol section ([db], [exec], [apply] are Section variables):
    the cache's correctness argument does not depend on what a query means.
    No proofs in this file. *)
From Coq Require Import List ZArith Bool.
From VibeSQL Require Import Lex.Normalize.
Import ListNotations.
Open Scope Z_scope.

(** table names are strings (code point lists) *)
Definition tname : Type := list Z.

(** [str::eq_ignore_ascii_case] (query_result_cache.rs, [invalidate_table]) *)
Definition ascii_lower (c : Z) : Z := if in_range 65 90 c then c + 32 else c.
Fixpoint ci_eqb (a b : tname) : bool :=
  match a, b with
  | [], [] => true
  | x :: a', y :: b' => (ascii_lower x =? ascii_lower y) && ci_eqb a' b'
  | _, _ => false
  end.

Section Cache.
  Variable K : Type.                 (* QuerySignature *)
  Variable keqb : K -> K -> bool.    (* its derived Eq *)
  Variable R : Type.                 (* Vec<Row> *)

  (** [struct CachedResult { rows, schema, tables }] *)
  Record entry : Type := mkEntry { e_rows : R; e_tables : list tname }.
  Definition cache : Type := list (K * entry).

  Definition empty : cache := [].   (* QueryResultCache::new *)

  Fixpoint lookup (c : cache) (k : K) : option entry :=
    match c with
    | [] => None
    | (k', e) :: r => if keqb k' k then Some e else lookup r k
    end.

  (** [get]: the stored rows (cloned) or None *)
  Definition get (c : cache) (k : K) : option R := option_map e_rows (lookup c k).
  Definition contains (c : cache) (k : K) : bool :=
    match lookup c k with Some _ => true | None => false end.
  Definition size (c : cache) : Z := Z.of_nat (length c).   (* stats().size *)
  Definition keys (c : cache) : list K := map fst c.

  Definition remove (k : K) (c : cache) : cache := filter (fun p => negb (keqb (fst p) k)) c.
  (** [HashMap::insert]: replaces an existing binding *)
  Definition put (c : cache) (k : K) (e : entry) : cache := (k, e) :: remove k c.

  (** [insert]:
<<
      if self.max_size == 0 { return; }
      if cache.len() >= self.max_size {
          if let Some(key) = cache.keys().next().cloned() { cache.remove(&key); evictions += 1 }
      }
      cache.insert(signature, entry);
>>
      A cache of capacity 0 stores nothing (the early return; before that repair an empty map "at
      capacity" evicted nothing and then grew to one entry).
      [victim] is the key the run evicted ([None]: no eviction).  The result is [None] when the
      oracle's choice is impossible for the code: any eviction at capacity 0, an eviction below
      capacity, no eviction at capacity with a non-empty map, or a victim that is not a key of the
      map.  Note that the eviction happens before the insertion and regardless of whether [k] is
      already bound.  (With the early return the empty-map-at-capacity branch of the eviction is only
      reachable for a negative [cap], which a [usize] cannot be; it is kept as transcribed.) *)
  Definition is_empty (c : cache) : bool := match c with [] => true | _ => false end.
  Definition insert (cap : Z) (c : cache) (k : K) (e : entry) (victim : option K) : option cache :=
    if cap =? 0 then
      match victim with
      | None => Some c
      | Some _ => None
      end
    else if cap <=? size c then
      match victim with
      | None => if is_empty c then Some (put c k e) else None
      | Some v => if contains c v then Some (put (remove v c) k e) else None
      end
    else
      match victim with
      | None => Some (put c k e)
      | Some _ => None
      end.

  (** [invalidate_table]:
      [cache.retain(|_, entry| !entry.tables.iter().any(|t| t.eq_ignore_ascii_case(table)))] *)
  Definition mentions (e : entry) (t : tname) : bool := existsb (fun t' => ci_eqb t' t) (e_tables e).
  Definition invalidate_table (c : cache) (t : tname) : cache :=
    filter (fun p => negb (mentions (snd p) t)) c.

  Definition clear (c : cache) : cache := [].   (* clear / invalidate_all *)

  (** ** The adapter protocol over an abstract database *)
  Section Protocol.
    Variable db : Type.
    Variable query : Type.                       (* a SELECT: its text and its parse tree *)
    Variable stmt : Type.                        (* any other statement *)
    Variable exec : db -> query -> option R.     (* SelectExecutor::execute; None = error *)
    Variable apply : db -> stmt -> db.           (* the statement's executor, errors included *)
    Variable sig : query -> K.                   (* QuerySignature::from_sql(sql) *)
    Variable extract : query -> list tname.      (* extract_table_names(&select_stmt) *)
    (** [Some stmt.table_name] for INSERT / UPDATE / DELETE / DROP TABLE, [None] for every other kind *)
    Variable inval : stmt -> option tname.
    Variable cap : Z.                            (* SQLLOGICTEST_CACHE_SIZE, a usize *)

    Inductive op : Type := Read (q : query) | Write (s : stmt).
    (** what the protocol does on one statement: a read is a hit (returns the stored rows) or a miss
        (returns what execution returns); a write returns nothing of interest here *)
    Inductive obs : Type := Hit (r : R) | Miss (r : option R) | Wrote.

    Definition state : Type := (db * cache)%type.

    Definition step (st : state) (o : op) (victim : option K) : option (state * obs) :=
      let '(d, c) := st in
      match o with
      | Read q =>
        match get c (sig q) with
        | Some r => Some (st, Hit r)
        | None =>
          match exec d q with
          | None => Some (st, Miss None)             (* `?` returns the error before the insert *)
          | Some r =>
            match insert cap c (sig q) (mkEntry r (extract q)) victim with
            | Some c' => Some ((d, c'), Miss (Some r))
            | None => None
            end
          end
        end
      | Write s =>
        let c' := match inval s with Some t => invalidate_table c t | None => c end in
        Some ((apply d s, c'), Wrote)                 (* invalidation first, then execution *)
      end.

    Fixpoint run (st : state) (ops : list (op * option K)) : option (state * list obs) :=
      match ops with
      | [] => Some (st, [])
      | (o, v) :: r =>
        match step st o v with
        | None => None
        | Some (st', ob) =>
          match run st' r with
          | None => None
          | Some (st'', obs') => Some (st'', ob :: obs')
          end
        end
      end.

    (** the same statements without a cache *)
    Fixpoint run_plain (d : db) (ops : list op) : db * list (option R) :=
      match ops with
      | [] => (d, [])
      | Read q :: r => let '(d', l) := run_plain d r in (d', exec d q :: l)
      | Write s :: r => let '(d', l) := run_plain (apply d s) r in (d', None :: l)
      end.

    (** what a cached run returns to the client, statement by statement *)
    Definition returned (o : obs) : option R :=
      match o with Hit r => Some r | Miss r => r | Wrote => None end.
  End Protocol.
End Cache.

Arguments mkEntry {R} _ _.
Arguments e_rows {R} _.
Arguments e_tables {R} _.
Arguments Read {query stmt} _.
Arguments Write {query stmt} _.
Arguments Hit {R} _.
Arguments Miss {R} _.
Arguments Wrote {R}.
