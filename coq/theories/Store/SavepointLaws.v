(** Laws of the savepoint model (C14): the implementation's undo log against the reference
    "stack of deep copies", for every history. *)
From Coq Require Import List ZArith Bool Arith Lia.
From VibeSQL Require Import Base.LexOrd Value.SqlValue Value.ValueLaws Store.Txn Store.Savepoint Store.TxnLaws.
Import ListNotations.
Open Scope Z_scope.

(** * Replaying a log of recorded inserts on a copy of the tables *)
Definition replay_change (T : tables) (c : change) : tables :=
  match c with
  | CInsert t r =>
      match get_table T t with
      | Some tb => set_table T t (mkTable (t_cols tb) (t_rows tb ++ [r]))
      | None => T
      end
  | _ => T
  end.
Definition replay (T : tables) (cs : list change) : tables := fold_left replay_change cs T.

(** a log entry that describes a row really sitting in its table: an insert into an existing table of a
    row the normaliser leaves alone *)
Definition clean_change (T : tables) (c : change) : Prop :=
  match c with
  | CInsert t r => exists tb, get_table T t = Some tb /\ stable_row (t_cols tb) r = true
  | _ => False
  end.
Definition clean_log (T : tables) (cs : list change) : Prop := Forall (clean_change T) cs.

Lemma clean_change_schema T1 T2 c : schema_of T1 = schema_of T2 -> clean_change T1 c -> clean_change T2 c.
Proof.
  intros HS. destruct c; cbn; auto. intros (tb & G & St).
  destruct (schema_get _ _ _ _ HS G) as (tb2 & G2 & Hc). exists tb2. now rewrite Hc.
Qed.

Lemma clean_log_schema T1 T2 cs : schema_of T1 = schema_of T2 -> clean_log T1 cs -> clean_log T2 cs.
Proof. intros HS H. eapply Forall_impl; [|exact H]. intros c. now apply clean_change_schema. Qed.

Lemma replay_change_schema T c : schema_of (replay_change T c) = schema_of T.
Proof.
  destruct c; cbn; try reflexivity. destruct (get_table T t) eqn:G; [|reflexivity].
  eapply schema_set_table; eauto.
Qed.

Lemma replay_schema cs : forall T, schema_of (replay T cs) = schema_of T.
Proof.
  induction cs as [|c cs IH]; intros T; [reflexivity|]. cbn [replay fold_left].
  fold (replay (replay_change T c) cs). now rewrite IH, replay_change_schema.
Qed.

Lemma replay_app T a b : replay T (a ++ b) = replay (replay T a) b.
Proof. unfold replay. apply fold_left_app. Qed.

Lemma set_set_table T t tb1 tb2 : set_table (set_table T t tb1) t tb2 = set_table T t tb2.
Proof.
  induction T as [|[n tb0] T IH]; cbn [set_table]; [reflexivity|].
  destruct (n =? t) eqn:E; cbn [set_table]; rewrite E; [reflexivity|now rewrite IH].
Qed.

(** bag-equal tables stay bag-equal when the same clean change is replayed on both *)
Lemma replay_change_beq T1 T2 c : tabs_beq T1 T2 -> tabs_beq (replay_change T1 c) (replay_change T2 c).
Proof.
  intros H. destruct c; cbn; auto.
  destruct (get_table T1 t) as [tb1|] eqn:G1.
  - destruct (tabs_beq_get _ _ _ _ H G1) as (tb2 & G2 & Hc & Hb). rewrite G2.
    apply tabs_beq_set; cbn; auto. apply bag_eq_app; auto using bag_eq_refl.
  - rewrite (schema_get_none _ _ _ (tabs_beq_schema _ _ H) G1). assumption.
Qed.

Lemma replay_beq cs : forall T1 T2, tabs_beq T1 T2 -> tabs_beq (replay T1 cs) (replay T2 cs).
Proof.
  induction cs as [|c cs IH]; intros T1 T2 H; [assumption|]. cbn [replay fold_left].
  apply IH. now apply replay_change_beq.
Qed.

(** * The key lemma: undoing a clean log suffix in reverse takes tables that are (as bags) a copy plus
    the replayed suffix back to the copy.  [Table::remove_row] may remove a different, [==] row than
    the one the insert appended -- the bag is the same. *)
Lemma undo_replay cs : forall T X,
  clean_log T cs -> tabs_beq T (replay X cs) ->
  exists T', undo_all T (rev cs) = (T', Done tt) /\ tabs_beq T' X /\ schema_of T' = schema_of T.
Proof.
  induction cs as [|c pre IH] using rev_ind; intros T X HC HB.
  - exists T. cbn. auto.
  - apply Forall_app in HC as [HCpre HCc]. inversion HCc as [|? ? Hc _]; subst.
    rewrite replay_app in HB. cbn [replay fold_left] in HB. set (Y := replay X pre) in *.
    destruct c as [t r| |]; cbn in Hc; try contradiction. destruct Hc as (tbT & GT & St).
    assert (HSY : schema_of T = schema_of Y).
    { rewrite (tabs_beq_schema _ _ HB). apply replay_change_schema. }
    destruct (schema_get _ _ _ _ HSY GT) as (tbY & GY & HcY).
    cbn [replay_change] in HB. rewrite GY in HB.
    destruct (tabs_beq_get _ _ _ _ HB GT) as (tb2 & G2 & Hc2 & Hb2).
    rewrite (get_set_same _ _ _ _ GY) in G2. inversion G2; subst tb2. cbn [t_rows t_cols] in *.
    destruct (remove_first_undoes_append r r (t_rows tbT) (t_rows tbY) (row_eqb_refl r) Hb2) as (l' & Hl' & Hbl').
    set (T1 := set_table T t (mkTable (t_cols tbT) l')).
    assert (HB1 : tabs_beq T1 Y).
    { unfold T1. rewrite <- (set_table_same Y t tbY GY) at 1.
      rewrite <- (set_set_table Y t (mkTable (t_cols tbY) (t_rows tbY ++ [r])) tbY).
      apply tabs_beq_set; cbn; auto; try congruence. }
    assert (HS1 : schema_of T1 = schema_of T) by (unfold T1; eapply schema_set_table; eauto).
    destruct (IH T1 X) as (T' & HU & HB' & HS').
    + eapply clean_log_schema; [symmetry; exact HS1|assumption].
    + exact HB1.
    + exists T'. rewrite rev_app_distr. cbn [rev app undo_all undo_change].
      rewrite GT, Hl'. fold T1. rewrite HU. repeat split; auto. congruence.
Qed.

(** * The invariant that ties the savepoint stack to the stack of deep copies.
    [lo] threads the lower bound: snapshot indices never decrease along the stack. *)
Fixpoint stack_inv (T : tables) (log : list change) (lo : nat) (sps : list (spname * nat)) (g : ghost) : Prop :=
  match sps, g with
  | [], [] => True
  | (n, i) :: sps', e :: g' =>
      n = g_name e /\ (lo <= i)%nat /\ (i <= length log)%nat /\
      (g_dirty e = false ->
         clean_log T (skipn i log) /\ tabs_beq T (replay (g_copy e) (skipn i log)) /\
         Forall (fun e' => g_dirty e' = false) g') /\
      stack_inv T log i sps' g'
  | _, _ => False
  end.

Definition ginv (d : db) (g : ghost) : Prop :=
  match d_tx d with
  | None => g = []
  | Some x => stack_inv (d_tabs d) (x_log x) 0 (x_sps x) g
  end.

Lemma stack_inv_length T log lo sps g : stack_inv T log lo sps g -> length sps = length g.
Proof.
  revert lo g; induction sps as [|[n i] sps IH]; intros lo [|e g]; cbn; try tauto.
  intros (_ & _ & _ & _ & H). f_equal. eauto.
Qed.

Lemma stack_inv_weaken T log lo lo' sps g : (lo' <= lo)%nat -> stack_inv T log lo sps g -> stack_inv T log lo' sps g.
Proof.
  destruct sps as [|[n i] sps], g as [|e g]; cbn; try tauto.
  intros Hl (H1 & H2 & H3 & H4 & H5). repeat split; auto; try lia; apply H4; auto.
Qed.

(** every snapshot index on the stack is at least the threaded bound and at most the log length *)
Lemma stack_inv_bounds T log : forall sps g lo j n i,
  stack_inv T log lo sps g -> nth_error sps j = Some (n, i) -> (lo <= i <= length log)%nat.
Proof.
  induction sps as [|[n0 i0] sps IH]; intros [|e g] lo j n i H Hn; cbn in H; try tauto;
    try (destruct j; discriminate).
  destruct H as (H1 & H2 & H3 & H4 & H5). destruct j as [|j]; cbn in Hn.
  - inversion Hn; subst. lia.
  - specialize (IH g i0 j n i H5 Hn). lia.
Qed.

Lemma stack_inv_positions T log n : forall sps g lo,
  stack_inv T log lo sps g -> g_position n g = sp_position n sps.
Proof.
  induction sps as [|[n0 i0] sps IH]; intros [|e g] lo H; cbn in H; try tauto; try reflexivity.
  destruct H as (H1 & _ & _ & _ & H5). cbn [g_position sp_position]. subst n0.
  destruct (g_name e =? n); [reflexivity|]. now rewrite (IH g i0 H5).
Qed.

(** * Maintenance of the invariant *)

(** anything may happen to the tables and the log may grow, once every copy is marked dirty *)
Lemma stack_inv_taint T T' log extra : forall sps g lo,
  stack_inv T log lo sps g -> stack_inv T' (log ++ extra) lo sps (g_taint g).
Proof.
  induction sps as [|[n i] sps IH]; intros [|e g] lo H; cbn in H |- *; try tauto.
  destruct H as (H1 & H2 & H3 & H4 & H5). repeat split; auto.
  - rewrite app_length. lia.
  - discriminate.
  - discriminate.
  - discriminate.
Qed.

Lemma skipn_app_le {A} (i : nat) (l m : list A) : (i <= length l)%nat -> skipn i (l ++ m) = skipn i l ++ m.
Proof.
  intros H. rewrite skipn_app. replace (i - length l)%nat with O by lia. reflexivity.
Qed.

(** a statement that leaves tables and log alone *)
Lemma stack_inv_same T log lo sps g : stack_inv T log lo sps g -> stack_inv T log lo sps g.
Proof. auto. Qed.

(** the tables change to bag-equal-after-replay ones and the log grows by clean entries *)
Lemma stack_inv_extend T T' log extra :
  schema_of T' = schema_of T -> clean_log T extra ->
  (forall X, tabs_beq T X -> tabs_beq T' (replay X extra)) ->
  forall sps g lo, stack_inv T log lo sps g -> stack_inv T' (log ++ extra) lo sps g.
Proof.
  intros HS HC HR. induction sps as [|[n i] sps IH]; intros [|e g] lo H; cbn in H |- *; try tauto.
  destruct H as (H1 & H2 & H3 & H4 & H5). repeat split; auto.
  - rewrite app_length. lia.
  - destruct (H4 H) as (C & B & F). rewrite skipn_app_le by assumption.
    apply Forall_app; split; eapply clean_log_schema; try (symmetry; exact HS); assumption.
  - destruct (H4 H) as (C & B & F). rewrite skipn_app_le by assumption. rewrite replay_app. auto.
  - apply H4; assumption.
Qed.

(** SAVEPOINT: push a clean copy *)
Lemma stack_inv_push T log n : forall sps g lo,
  (lo <= length log)%nat -> stack_inv T log lo sps g ->
  stack_inv T log lo (sps ++ [(n, length log)]) (g ++ [mkG n T false]).
Proof.
  induction sps as [|[n0 i0] sps IH]; intros [|e g] lo Hlo H; cbn in H |- *; try tauto.
  - split; [reflexivity|]. split; [assumption|]. split; [lia|]. split; [|exact I].
    intros _. cbn [g_copy]. rewrite skipn_all. split; [constructor|]. split; [apply tabs_beq_refl|constructor].
  - destruct H as (H1 & H2 & H3 & H4 & H5). repeat split; auto; try (apply H4; assumption).
    apply Forall_app; split; [apply H4; assumption|repeat constructor].
Qed.

Lemma Forall_remove_nth {A} (P : A -> Prop) j (l : list A) : Forall P l -> Forall P (remove_nth j l).
Proof.
  revert j; induction l as [|x l IH]; intros [|j] H; cbn; auto; inversion H; subst; auto.
Qed.

(** RELEASE: drop one entry on both sides *)
Lemma stack_inv_remove T log j : forall sps g lo,
  stack_inv T log lo sps g -> stack_inv T log lo (remove_nth j sps) (remove_nth j g).
Proof.
  induction j as [|j IH]; intros [|[n i] sps] [|e g] lo H; cbn in H |- *; try tauto.
  - destruct H as (_ & H2 & _ & _ & H5). eapply stack_inv_weaken; [|exact H5]. assumption.
  - destruct H as (H1 & H2 & H3 & H4 & H5). repeat split; auto; try (apply H4; assumption).
    apply Forall_remove_nth. apply H4; assumption.
Qed.

Lemma skipn_firstn_split {A} (i idx : nat) (l : list A) :
  (i <= idx)%nat -> skipn i l = skipn i (firstn idx l) ++ skipn idx l.
Proof.
  intros H. rewrite <- (firstn_skipn idx l) at 1.
  destruct (le_lt_dec idx (length l)) as [Hl|Hl].
  - rewrite skipn_app_le; [reflexivity|]. rewrite firstn_length_le by assumption. assumption.
  - rewrite (firstn_all2 l) by lia. rewrite (skipn_all2 l) by lia. now rewrite !app_nil_r.
Qed.

Lemma In_firstn_in {A} (x : A) n : forall l, In x (firstn n l) -> In x l.
Proof.
  induction n as [|n IH]; intros [|y l]; cbn; try tauto. intros [H|H]; auto.
Qed.

(** ROLLBACK TO a clean savepoint [j]: the log is cut at [idx], the stack after [j]; [T'] is what
    the undo loop produced, characterised by [P] *)
Lemma stack_inv_cut_clean T T' log idx :
  schema_of T' = schema_of T -> (idx <= length log)%nat ->
  (forall X, tabs_beq T (replay X (skipn idx log)) -> tabs_beq T' X) ->
  forall sps g lo j n,
    stack_inv T log lo sps g -> nth_error sps j = Some (n, idx) ->
    stack_inv T' (firstn idx log) lo (firstn (S j) sps) (firstn (S j) g).
Proof.
  intros HS Hidx HP. induction sps as [|[n0 i0] sps IH]; intros [|e g] lo j n H Hn; cbn in H; try tauto;
    try (destruct j; discriminate).
  destruct H as (H1 & H2 & H3 & H4 & H5).
  assert (Hi0 : (i0 <= idx)%nat).
  { destruct j as [|j]; cbn in Hn; [inversion Hn; lia|].
    pose proof (stack_inv_bounds _ _ _ _ _ _ _ _ H5 Hn). lia. }
  cbn [firstn stack_inv]. split; [assumption|]. split; [assumption|]. split.
  { rewrite firstn_length_le by assumption. assumption. }
  split.
  - intros Hd. destruct (H4 Hd) as (C & B & F).
    rewrite (skipn_firstn_split i0 idx log Hi0) in C, B.
    apply Forall_app in C as [C1 C2]. rewrite replay_app in B. repeat split.
    + eapply clean_log_schema; [symmetry; exact HS|assumption].
    + apply HP. assumption.
    + destruct j; [cbn; constructor|]. apply Forall_forall. intros e' He'.
      rewrite Forall_forall in F. apply F. eapply In_firstn_in; exact He'.
  - destruct j as [|j]; cbn in Hn.
    + destruct sps, g; cbn; auto.
    + eapply IH; eauto.
Qed.

(** ROLLBACK TO a dirty savepoint [j]: every older copy is dirty too, only the bounds matter *)
Lemma stack_inv_cut_dirty T T' log idx :
  (idx <= length log)%nat ->
  forall sps g lo j n e,
    stack_inv T log lo sps g -> nth_error sps j = Some (n, idx) -> nth_error g j = Some e ->
    g_dirty e = true ->
    stack_inv T' (firstn idx log) lo (firstn (S j) sps) (firstn (S j) g).
Proof.
  intros Hidx. induction sps as [|[n0 i0] sps IH]; intros [|e0 g] lo j n e H Hn Hg Hd; cbn in H; try tauto;
    try (destruct j; discriminate).
  destruct H as (H1 & H2 & H3 & H4 & H5).
  assert (Hi0 : (i0 <= idx)%nat).
  { destruct j as [|j]; cbn in Hn; [inversion Hn; lia|].
    pose proof (stack_inv_bounds _ _ _ _ _ _ _ _ H5 Hn). lia. }
  assert (Hd0 : g_dirty e0 = true).
  { destruct (g_dirty e0) eqn:E0; [reflexivity|]. destruct j as [|j]; cbn in Hg.
    - inversion Hg; subst; congruence.
    - destruct (H4 eq_refl) as (_ & _ & F). rewrite Forall_forall in F.
      rewrite (F e (nth_error_In _ _ Hg)) in Hd. discriminate. }
  cbn [firstn stack_inv]. split; [assumption|]. split; [assumption|]. split.
  { rewrite firstn_length_le by assumption. assumption. }
  split; [intros Hc; congruence|].
  destruct j as [|j]; cbn in Hn, Hg.
  - destruct sps, g; cbn; auto.
  - eapply IH; eauto.
Qed.

(** the clean facts of one entry *)
Lemma stack_inv_nth T log : forall sps g lo j n i e,
  stack_inv T log lo sps g -> nth_error sps j = Some (n, i) -> nth_error g j = Some e ->
  g_dirty e = false ->
  n = g_name e /\ clean_log T (skipn i log) /\ tabs_beq T (replay (g_copy e) (skipn i log)).
Proof.
  induction sps as [|[n0 i0] sps IH]; intros [|e0 g] lo j n i e H Hn Hg Hd; cbn in H; try tauto;
    try (destruct j; discriminate).
  destruct H as (H1 & H2 & H3 & H4 & H5). destruct j as [|j]; cbn in Hn, Hg.
  - inversion Hn; inversion Hg; subst. destruct (H4 Hd) as (C & B & _). auto.
  - eapply IH; eauto.
Qed.

Lemma sp_position_nth n : forall sps j,
  sp_position n sps = Some j ->
  exists i, nth_error sps j = Some (n, i) /\ nth j sps (0, O) = (n, i).
Proof.
  induction sps as [|[n0 i0] sps IH]; intros j H; cbn in H; [discriminate|].
  destruct (n0 =? n) eqn:E.
  - inversion H; subst. apply Z.eqb_eq in E; subst. exists i0. cbn. auto.
  - destruct (sp_position n sps) as [j'|] eqn:P; [|discriminate]. inversion H; subst.
    destruct (IH j' eq_refl) as (i & H1 & H2). exists i. cbn. auto.
Qed.

Lemma sp_position_first n : forall sps j,
  sp_position n sps = Some j -> sp_position n (firstn (S j) sps) = Some j.
Proof.
  induction sps as [|[n0 i0] sps IH]; intros j H; cbn in H; [discriminate|].
  cbn [firstn sp_position]. destruct (n0 =? n) eqn:E.
  - inversion H; subst. reflexivity.
  - destruct (sp_position n sps) as [j'|] eqn:P; [|discriminate]. inversion H; subst.
    now rewrite (IH j' eq_refl).
Qed.

Lemma nth_error_same_length {A B} (l : list A) (m : list B) j a :
  length l = length m -> nth_error l j = Some a -> exists b, nth_error m j = Some b.
Proof.
  intros HL H. assert (j < length m)%nat by (rewrite <- HL; apply nth_error_Some; congruence).
  destruct (nth_error m j) eqn:E; [eauto|]. apply nth_error_None in E. lia.
Qed.

(** * Effect of the data statements on (tables, log) *)
Definition is_data_op (o : op) : bool :=
  match o with
  | OBegin | OCommit | ORollback | OSavepoint _ | ORelease _ | ORollbackTo _ => false
  | _ => true
  end.

Definition tx_grow (d d' : db) (extra : list change) : Prop :=
  d_tx d' = match d_tx d with
            | None => None
            | Some x => Some (mkTxn (x_cat x) (x_tabs x) (x_ixs x) (x_sps x) (x_log x ++ extra))
            end.

Lemma tx_grow_refl d : tx_grow d d [].
Proof. unfold tx_grow. destruct (d_tx d) as [[c T ixs s l]|]; cbn; [now rewrite app_nil_r|reflexivity]. Qed.

Lemma tx_grow_same_tx c T U d : tx_grow d (mkDb c T U (d_tx d)) [].
Proof. unfold tx_grow. cbn. destruct (d_tx d) as [[c0 T0 ixs s l]|]; cbn; [now rewrite app_nil_r|reflexivity]. Qed.

Lemma tx_grow_record c T U d cs : tx_grow d (record (mkDb c T U (d_tx d)) cs) cs.
Proof. unfold tx_grow, record. cbn. destruct (d_tx d); reflexivity. Qed.

Lemma api_insert_row_grow d t r : exists extra, tx_grow d (fst (api_insert_row d t r)) extra.
Proof.
  unfold api_insert_row. repeat (destr_match; cbn [fst]); eauto using tx_grow_refl, tx_grow_record.
Qed.

Lemma api_insert_batch_grow d t rs : exists extra, tx_grow d (fst (api_insert_batch d t rs)) extra.
Proof.
  unfold api_insert_batch.
  repeat (destr_match; cbn [fst]); eauto using tx_grow_refl, tx_grow_record, tx_grow_same_tx.
Qed.

Lemma step_data_grow d o : is_data_op o = true -> exists extra, tx_grow d (fst (step d o)) extra.
Proof.
  destruct o; try discriminate; intros _; cbn [step].
  - unfold sql_insert. repeat (destr_match; cbn [fst]);
      eauto using tx_grow_refl, api_insert_row_grow, api_insert_batch_grow.
  - apply api_insert_row_grow.
  - apply api_insert_batch_grow.
  - cbn [fst]. exists [c]. unfold tx_grow, record. destruct (d_tx d) eqn:E; cbn; rewrite ?E; reflexivity.
  - unfold sql_update. repeat (destr_match; cbn [fst]); eauto using tx_grow_refl, tx_grow_same_tx.
  - unfold sql_delete. repeat (destr_match; cbn [fst]); eauto using tx_grow_refl, tx_grow_same_tx.
  - unfold sql_create_index. repeat (destr_match; cbn [fst]); eauto using tx_grow_refl, tx_grow_same_tx.
  - unfold sql_drop_index. repeat (destr_match; cbn [fst]); eauto using tx_grow_refl, tx_grow_same_tx.
Qed.

(** what a clean statement does: the log grows by clean entries that replay to the new tables *)
Definition clean_effect (d d' : db) : Prop :=
  exists extra,
    tx_grow d d' extra /\ schema_of (d_tabs d') = schema_of (d_tabs d) /\
    clean_log (d_tabs d) extra /\
    (forall X, tabs_beq (d_tabs d) X -> tabs_beq (d_tabs d') (replay X extra)).

Lemma clean_effect_refl d : clean_effect d d.
Proof. exists []. repeat split; auto using tx_grow_refl. constructor. Qed.

Lemma clean_effect_same_tabs c U d : clean_effect d (mkDb c (d_tabs d) U (d_tx d)).
Proof. exists []. repeat split; auto using tx_grow_same_tx. constructor. Qed.

Lemma stable_row_insert tb r :
  stable_row (t_cols tb) r = true ->
  exists r', table_insert tb r = Done (mkTable (t_cols tb) (t_rows tb ++ [r'])) /\ row_eqb r r' = true.
Proof.
  unfold stable_row, table_insert. destruct (normalize_row (t_cols tb) r) as [r'| |]; try discriminate.
  intros H. eauto.
Qed.

(** one clean row inserted through [Database::insert_row] *)
Lemma api_insert_row_clean d t r :
  rows_clean (d_tabs d) t [r] = true -> clean_effect d (fst (api_insert_row d t r)).
Proof.
  unfold rows_clean, api_insert_row. destruct (get_table (d_tabs d) t) as [tb|] eqn:G; [|intros _; apply clean_effect_refl].
  cbn [forallb]. rewrite andb_true_r. intros St.
  destruct (stable_row_insert tb r St) as (r' & -> & E). cbn [fst].
  exists [CInsert t r]. split; [apply tx_grow_record|]. rewrite record_tabs. cbn [d_tabs].
  split; [eapply schema_set_table; eauto|]. split.
  - constructor; [|constructor]. cbn. eauto.
  - intros X HX. cbn [replay fold_left replay_change].
    destruct (tabs_beq_get _ _ _ _ HX G) as (tbX & GX & Hc & Hb). rewrite GX.
    apply tabs_beq_set; cbn; auto. apply bag_eq_app; [assumption|].
    apply bag_eq_single. now rewrite row_eqb_sym.
Qed.

Lemma table_insert_many_clean rs : forall tb,
  forallb (stable_row (t_cols tb)) rs = true ->
  exists rs', table_insert_many tb rs = (mkTable (t_cols tb) (t_rows tb ++ rs'), Done tt) /\ bag_eq rs' rs.
Proof.
  induction rs as [|r rs IH]; intros tb H; cbn [forallb table_insert_many] in *.
  - exists []. rewrite app_nil_r. destruct tb; split; [reflexivity|apply bag_eq_refl].
  - apply andb_true_iff in H as [H1 H2]. destruct (stable_row_insert tb r H1) as (r' & -> & E).
    destruct (IH (mkTable (t_cols tb) (t_rows tb ++ [r']))) as (rs' & -> & Hb); [exact H2|].
    cbn [t_cols t_rows]. exists (r' :: rs'). rewrite <- app_assoc. split; [reflexivity|].
    change (r' :: rs') with ([r'] ++ rs'). change (r :: rs) with ([r] ++ rs).
    apply bag_eq_app; [|assumption]. apply bag_eq_single. now rewrite row_eqb_sym.
Qed.

Lemma replay_inserts t rs : forall X tbX,
  get_table X t = Some tbX ->
  replay X (map (CInsert t) rs) = set_table X t (mkTable (t_cols tbX) (t_rows tbX ++ rs)).
Proof.
  induction rs as [|r rs IH]; intros X tbX G; cbn [map replay fold_left].
  - rewrite app_nil_r. destruct tbX. symmetry. now apply set_table_same.
  - cbn [replay_change]. rewrite G. fold (replay (set_table X t (mkTable (t_cols tbX) (t_rows tbX ++ [r]))) (map (CInsert t) rs)).
    rewrite (IH _ (mkTable (t_cols tbX) (t_rows tbX ++ [r]))) by (eapply get_set_same; eauto).
    cbn [t_cols t_rows]. rewrite set_set_table, <- app_assoc. reflexivity.
Qed.

(** several clean rows inserted through [Database::insert_rows_batch] *)
Lemma api_insert_batch_clean d t rs :
  rows_clean (d_tabs d) t rs = true -> clean_effect d (fst (api_insert_batch d t rs)).
Proof.
  unfold rows_clean, api_insert_batch. destruct rs as [|r0 rs0]; [intros _; apply clean_effect_refl|].
  set (rs := r0 :: rs0).
  destruct (get_table (d_tabs d) t) as [tb|] eqn:G; [|intros _; apply clean_effect_refl].
  intros St. destruct (table_insert_many_clean rs tb St) as (rs' & -> & Hb). cbn [fst].
  exists (map (CInsert t) rs). split; [apply tx_grow_record|]. rewrite record_tabs. cbn [d_tabs].
  split; [eapply schema_set_table; eauto|]. split.
  - apply Forall_forall. intros c Hc. apply in_map_iff in Hc as (r & <- & Hr). cbn.
    exists tb. split; [assumption|]. rewrite forallb_forall in St. auto.
  - intros X HX. destruct (tabs_beq_get _ _ _ _ HX G) as (tbX & GX & Hc & Hb2).
    rewrite (replay_inserts t rs X tbX GX). apply tabs_beq_set; cbn; auto.
    apply bag_eq_app; assumption.
Qed.

Lemma count_matching_zero_update cols c k w rows :
  count_matching w rows = O -> update_rows cols c k w rows = (rows, Done tt).
Proof.
  unfold count_matching. induction rows as [|r rows IH]; cbn [filter update_rows]; [reflexivity|].
  destruct (matches w r); cbn [length]; [discriminate|]. intros H. now rewrite IH.
Qed.

Lemma count_matching_zero_filter w rows :
  count_matching w rows = O -> filter (fun r => negb (matches w r)) rows = rows.
Proof.
  unfold count_matching. induction rows as [|r rows IH]; cbn [filter]; [reflexivity|].
  destruct (matches w r); cbn [length negb]; [discriminate|]. intros H. now rewrite IH.
Qed.

Lemma count_matching_none rows : count_matching None rows = length rows.
Proof. unfold count_matching. induction rows; cbn; auto. Qed.

Lemma step_data_clean d o : is_data_op o = true -> op_clean d o = true -> clean_effect d (fst (step d o)).
Proof.
  destruct o; try discriminate; intros _; cbn [step op_clean].
  - (* OInsert *)
    unfold sql_insert. destruct (get_table (d_tabs d) t) as [tb|] eqn:G; [|intros _; apply clean_effect_refl].
    destruct (negb (forallb _ rows)); [intros _; apply clean_effect_refl|].
    destruct (coerce_rows (t_cols tb) rows) as [rs| |]; try (intros _; apply clean_effect_refl).
    intros St. destruct rs as [|r [|r2 rs]]; [apply clean_effect_refl| |].
    + apply api_insert_row_clean. unfold rows_clean. now rewrite G.
    + apply api_insert_batch_clean. unfold rows_clean. now rewrite G.
  - apply api_insert_row_clean.
  - apply api_insert_batch_clean.
  - (* OUpdate touching no row *)
    unfold sql_update. destruct (get_table (d_tabs d) t) as [tb|] eqn:G; [|intros _; apply clean_effect_refl].
    intros Hz. apply Nat.eqb_eq in Hz. rewrite Hz.
    destruct (_ <=? _)%nat; [apply clean_effect_refl|].
    rewrite (count_matching_zero_update _ _ _ _ _ Hz). cbn [fst].
    replace (mkTable (t_cols tb) (t_rows tb)) with tb by (destruct tb; reflexivity).
    rewrite (set_table_same _ _ _ G). apply clean_effect_same_tabs.
  - (* ODelete touching no row *)
    unfold sql_delete. destruct (get_table (d_tabs d) t) as [tb|] eqn:G; [|intros _; apply clean_effect_refl].
    intros Hz. apply Nat.eqb_eq in Hz. cbn [fst].
    assert (Hr : match w with None => [] | Some _ => filter (fun r => negb (matches w r)) (t_rows tb) end = t_rows tb).
    { destruct w; [now apply count_matching_zero_filter|].
      rewrite count_matching_none in Hz. destruct (t_rows tb); [reflexivity|discriminate]. }
    rewrite Hr. replace (mkTable (t_cols tb) (t_rows tb)) with tb by (destruct tb; reflexivity).
    rewrite (set_table_same _ _ _ G). apply clean_effect_same_tabs.
  - (* OCreateIndex *)
    intros _. unfold sql_create_index. repeat (destr_match; cbn [fst]); try apply clean_effect_refl.
    apply clean_effect_same_tabs.
  - (* ODropIndex *)
    intros _. unfold sql_drop_index. repeat (destr_match; cbn [fst]); try apply clean_effect_refl;
    apply clean_effect_same_tabs.
Qed.

(** * The invariant holds along every history *)
Lemma ginv_init d : d_tx d = None -> ginv d [].
Proof. unfold ginv. now intros ->. Qed.

Lemma ginv_step_data d g o : is_data_op o = true -> ginv d g -> ginv (fst (step d o)) (gstep d g o).
Proof.
  intros Hd H. unfold ginv in *.
  assert (Hg : gstep d g o = if op_clean d o then g else g_taint g) by (destruct o; try discriminate; reflexivity).
  rewrite Hg. destruct (d_tx d) as [x|] eqn:E.
  - destruct (op_clean d o) eqn:C.
    + destruct (step_data_clean d o Hd C) as (extra & HG & HS & HC & HR).
      unfold tx_grow in HG. rewrite E in HG. rewrite HG. cbn [x_log x_sps].
      eapply stack_inv_extend; eauto.
    + destruct (step_data_grow d o Hd) as (extra & HG).
      unfold tx_grow in HG. rewrite E in HG. rewrite HG. cbn [x_log x_sps].
      apply stack_inv_taint with (T := d_tabs d). assumption.
  - subst g. destruct (step_data_grow d o Hd) as (extra & HG).
    unfold tx_grow in HG. rewrite E in HG. rewrite HG. destruct (op_clean d o); reflexivity.
Qed.

Lemma ginv_step d g o : ginv d g -> ginv (fst (step d o)) (gstep d g o).
Proof.
  intros H. destruct (is_data_op o) eqn:Hd; [now apply ginv_step_data|].
  unfold ginv in *. destruct (d_tx d) as [x|] eqn:E.
  - (* inside a transaction *)
    destruct o; try discriminate Hd; cbn [step gstep].
    + unfold begin_txn. rewrite E. cbn [fst]. now rewrite E.
    + unfold commit_txn. rewrite E. reflexivity.
    + unfold rollback_txn. rewrite E. destruct (rebuild_defs _ _ _). reflexivity.
    + unfold create_savepoint. rewrite E. cbn [fst d_tx d_tabs x_log x_sps].
      apply stack_inv_push; [lia|assumption].
    + unfold release_savepoint. rewrite E.
      rewrite (stack_inv_positions _ _ n _ _ _ H).
      destruct (sp_position n (x_sps x)) as [j|]; cbn [fst d_tx d_tabs x_log x_sps]; [|now rewrite E].
      now apply stack_inv_remove.
    + unfold rollback_to_savepoint. rewrite E.
      rewrite (stack_inv_positions _ _ n _ _ _ H).
      destruct (sp_position n (x_sps x)) as [j|] eqn:P; cbn [fst]; [|now rewrite E].
      destruct (sp_position_nth n _ _ P) as (idx & Hn & Hnth). rewrite Hnth. cbn [snd].
      pose proof (stack_inv_bounds _ _ _ _ _ _ _ _ H Hn) as [_ Hidx].
      replace (length (x_log x) <? idx)%nat with false by (symmetry; apply Nat.ltb_ge; assumption).
      destruct (nth_error_same_length _ g _ _ (stack_inv_length _ _ _ _ _ H) Hn) as (e & He).
      destruct (g_dirty e) eqn:De.
      * assert (HC : forall T', stack_inv T' (firstn idx (x_log x)) 0 (firstn (S j) (x_sps x)) (firstn (S j) g)).
        { intros T'. eapply stack_inv_cut_dirty; eauto. }
        destruct (undo_all (d_tabs d) (rev (skipn idx (x_log x)))) as [T' [u| |]];
          cbn [fst d_tx d_tabs x_log x_sps]; apply HC.
      * destruct (stack_inv_nth _ _ _ _ _ _ _ _ _ H Hn He De) as (_ & C & B).
        destruct (undo_replay _ _ _ C B) as (T' & HU & HB & HS). rewrite HU.
        cbn [fst d_tx d_tabs x_log x_sps].
        eapply stack_inv_cut_clean; eauto.
        intros X HX. destruct (undo_replay _ _ _ C HX) as (T'' & HU' & HB' & _).
        rewrite HU in HU'. inversion HU'; subst. assumption.
  - (* no transaction *)
    subst g. destruct o; try discriminate Hd; cbn [step gstep].
    + unfold begin_txn. rewrite E. cbn. exact I.
    + unfold commit_txn. rewrite E. cbn [fst]. now rewrite E.
    + unfold rollback_txn. rewrite E. cbn [fst]. now rewrite E.
    + unfold create_savepoint. rewrite E. cbn [fst]. now rewrite E.
    + unfold release_savepoint. rewrite E. cbn [fst g_position]. now rewrite E.
    + unfold rollback_to_savepoint. rewrite E. cbn [fst g_position]. now rewrite E.
Qed.

Lemma grun_app d g a b : grun d g (a ++ b) = grun (fst (grun d g a)) (snd (grun d g a)) b.
Proof. revert d g; induction a as [|o a IH]; intros d g; cbn [grun app fst snd]; [reflexivity|apply IH]. Qed.

Lemma grun_fst ops : forall d g, fst (grun d g ops) = run d ops.
Proof. induction ops as [|o ops IH]; intros d g; cbn [grun run fold_left]; [reflexivity|apply IH]. Qed.

Theorem ginv_grun ops : forall d g, ginv d g -> ginv (fst (grun d g ops)) (snd (grun d g ops)).
Proof.
  induction ops as [|o ops IH]; intros d g H; cbn [grun]; [assumption|].
  apply IH. now apply ginv_step.
Qed.

(** * C14 *)

(** ROLLBACK TO a savepoint whose copy is clean: the statement succeeds, every table holds (as a
    bag) what it held when the savepoint was created, that savepoint stays and the later ones go.
    The savepoint is the FIRST of that name (duplicate names). *)
Theorem rollback_to_restores d g n j e :
  ginv d g -> g_position n g = Some j -> nth_error g j = Some e -> g_dirty e = false ->
  let res := step d (ORollbackTo n) in
  snd res = ROk 0 /\ tabs_beq (d_tabs (fst res)) (g_copy e) /\
  exists x x', d_tx d = Some x /\ d_tx (fst res) = Some x' /\
               x_sps x' = firstn (S j) (x_sps x) /\ sp_position n (x_sps x') = Some j.
Proof.
  intros H P He De res. unfold ginv in H. destruct (d_tx d) as [x|] eqn:E; [|subst g; discriminate].
  rewrite (stack_inv_positions _ _ n _ _ _ H) in P.
  destruct (sp_position_nth n _ _ P) as (idx & Hn & Hnth).
  pose proof (stack_inv_bounds _ _ _ _ _ _ _ _ H Hn) as [_ Hidx].
  destruct (stack_inv_nth _ _ _ _ _ _ _ _ _ H Hn He De) as (_ & C & B).
  destruct (undo_replay _ _ _ C B) as (T' & HU & HB & HS).
  unfold res. cbn [step]. unfold rollback_to_savepoint. rewrite E, P, Hnth. cbn [snd].
  replace (length (x_log x) <? idx)%nat with false by (symmetry; apply Nat.ltb_ge; assumption).
  rewrite HU. cbn [fst snd d_tabs d_tx]. split; [reflexivity|]. split; [assumption|].
  eexists _, _. split; [reflexivity|]. split; [reflexivity|]. cbn [x_sps].
  split; [reflexivity|]. now apply sp_position_first.
Qed.

(** the same, for the history that led there: any statements from any committed state *)
Theorem rollback_to_restores_history db0 ops n j e :
  d_tx db0 = None ->
  let d := fst (grun db0 [] ops) in
  let g := snd (grun db0 [] ops) in
  g_position n g = Some j -> nth_error g j = Some e -> g_dirty e = false ->
  let res := step d (ORollbackTo n) in
  snd res = ROk 0 /\ tabs_beq (d_tabs (fst res)) (g_copy e) /\
  exists x x', d_tx d = Some x /\ d_tx (fst res) = Some x' /\
               x_sps x' = firstn (S j) (x_sps x) /\ sp_position n (x_sps x') = Some j.
Proof.
  intros Hn d g. apply rollback_to_restores. apply ginv_grun. now apply ginv_init.
Qed.

(** whatever the history: the stack effect of ROLLBACK TO (first savepoint of that name kept, later
    ones destroyed, log cut), and [Vec::drain] never panics *)
Theorem rollback_to_stack d g n :
  ginv d g -> forall x, d_tx d = Some x ->
  match sp_position n (x_sps x) with
  | None => step d (ORollbackTo n) = (d, RErr)
  | Some j =>
      exists x' idx, nth_error (x_sps x) j = Some (n, idx) /\ (idx <= length (x_log x))%nat /\
        d_tx (fst (step d (ORollbackTo n))) = Some x' /\
        x_sps x' = firstn (S j) (x_sps x) /\ x_log x' = firstn idx (x_log x) /\
        sp_position n (x_sps x') = Some j
  end.
Proof.
  intros H x E. unfold ginv in H. rewrite E in H.
  destruct (sp_position n (x_sps x)) as [j|] eqn:P.
  - destruct (sp_position_nth n _ _ P) as (idx & Hn & Hnth).
    pose proof (stack_inv_bounds _ _ _ _ _ _ _ _ H Hn) as [_ Hidx].
    cbn [step]. unfold rollback_to_savepoint. rewrite E, P, Hnth. cbn [snd].
    replace (length (x_log x) <? idx)%nat with false by (symmetry; apply Nat.ltb_ge; assumption).
    destruct (undo_all _ _) as [T' [u| |]]; cbn [fst d_tx];
      eexists _, idx; (split; [exact Hn|]); (split; [exact Hidx|]); (split; [reflexivity|]); cbn [x_sps x_log];
      (split; [reflexivity|]); (split; [reflexivity|]); now apply sp_position_first.
  - cbn [step]. unfold rollback_to_savepoint. now rewrite E, P.
Qed.

Corollary rollback_to_stack_history db0 ops n :
  d_tx db0 = None ->
  let d := fst (grun db0 [] ops) in
  forall x, d_tx d = Some x ->
  match sp_position n (x_sps x) with
  | None => step d (ORollbackTo n) = (d, RErr)
  | Some j =>
      exists x' idx, nth_error (x_sps x) j = Some (n, idx) /\ (idx <= length (x_log x))%nat /\
        d_tx (fst (step d (ORollbackTo n))) = Some x' /\
        x_sps x' = firstn (S j) (x_sps x) /\ x_log x' = firstn idx (x_log x) /\
        sp_position n (x_sps x') = Some j
  end.
Proof.
  intros Hn d. exact (rollback_to_stack d (snd (grun db0 [] ops)) n (ginv_grun ops db0 [] (ginv_init db0 Hn))).
Qed.

(** RELEASE changes no data, for every state (hence after every history), and removes exactly the
    first savepoint of that name *)
Theorem release_no_data_change d n :
  let d' := fst (step d (ORelease n)) in
  d_tabs d' = d_tabs d /\ d_cat d' = d_cat d /\ d_uix d' = d_uix d.
Proof.
  cbn [step]. unfold release_savepoint. repeat (destr_match; cbn [fst]); auto.
Qed.

Theorem release_stack d n x :
  d_tx d = Some x ->
  match sp_position n (x_sps x) with
  | None => step d (ORelease n) = (d, RErr)
  | Some j => snd (step d (ORelease n)) = ROk 0 /\
              exists x', d_tx (fst (step d (ORelease n))) = Some x' /\
                         x_sps x' = remove_nth j (x_sps x) /\ x_log x' = x_log x
  end.
Proof.
  intros E. cbn [step]. unfold release_savepoint. rewrite E.
  destruct (sp_position n (x_sps x)); [|reflexivity]. cbn. eauto.
Qed.

(** SAVEPOINT changes no data and pushes its name *)
Theorem savepoint_pushes d n x :
  d_tx d = Some x ->
  let d' := fst (step d (OSavepoint n)) in
  d_tabs d' = d_tabs d /\
  exists x', d_tx d' = Some x' /\ x_sps x' = x_sps x ++ [(n, length (x_log x))] /\ x_log x' = x_log x.
Proof. intros E. cbn [step]. unfold create_savepoint. rewrite E. cbn. eauto. Qed.

(** * Insert-only segments, stated without the reference stack *)
Definition is_insert (o : op) : bool :=
  match o with OInsert _ _ | OApiInsert _ _ | OApiBatch _ _ => true | _ => false end.

(** an insert statement all of whose rows the normaliser leaves alone (decided on the schema) *)
Definition clean_insert (T : tables) (o : op) : bool :=
  is_insert o && op_clean (mkDb (mkCat [] []) T [] None) o.

Lemma op_clean_insert_schema d1 d2 o :
  schema_of (d_tabs d1) = schema_of (d_tabs d2) -> is_insert o = true -> op_clean d1 o = op_clean d2 o.
Proof.
  intros HS Hi. destruct o; try discriminate; cbn [op_clean]; unfold rows_clean.
  - destruct (get_table (d_tabs d1) t) as [tb|] eqn:G.
    + destruct (schema_get _ _ _ _ HS G) as (tb2 & -> & ->). reflexivity.
    + now rewrite (schema_get_none _ _ _ HS G).
  - destruct (get_table (d_tabs d1) t) as [tb|] eqn:G.
    + destruct (schema_get _ _ _ _ HS G) as (tb2 & -> & ->). reflexivity.
    + now rewrite (schema_get_none _ _ _ HS G).
  - destruct (get_table (d_tabs d1) t) as [tb|] eqn:G.
    + destruct (schema_get _ _ _ _ HS G) as (tb2 & -> & ->). reflexivity.
    + now rewrite (schema_get_none _ _ _ HS G).
Qed.

Lemma grun_clean_inserts T0 seg : forall d g,
  schema_of (d_tabs d) = schema_of T0 ->
  Forall (fun o => clean_insert T0 o = true) seg ->
  snd (grun d g seg) = g /\ schema_of (d_tabs (fst (grun d g seg))) = schema_of T0.
Proof.
  induction seg as [|o seg IH]; intros d g HS HF; cbn [grun fst snd]; [auto|].
  inversion HF as [|? ? Ho HF']; subst. unfold clean_insert in Ho. apply andb_true_iff in Ho as [Hi Hc].
  assert (Hc' : op_clean d o = true).
  { rewrite <- Hc. apply op_clean_insert_schema; [|assumption]. cbn [d_tabs]. assumption. }
  assert (Hd : is_data_op o = true) by (destruct o; try discriminate; reflexivity).
  assert (Hg : gstep d g o = g).
  { destruct o; try discriminate; cbn [gstep]; now rewrite Hc'. }
  rewrite Hg. apply IH; [|assumption].
  destruct (step_data_clean d o Hd Hc') as (extra & _ & HS' & _). congruence.
Qed.

Lemma g_position_app_fresh n e : forall g,
  g_position n g = None -> g_name e = n -> g_position n (g ++ [e]) = Some (length g).
Proof.
  induction g as [|e0 g IH]; cbn [g_position app length]; intros H He.
  - rewrite He, Z.eqb_refl. reflexivity.
  - destruct (g_name e0 =? n); [discriminate|].
    destruct (g_position n g); [discriminate|]. now rewrite IH.
Qed.

(** SAVEPOINT s; only inserts of rows the normaliser leaves alone; ROLLBACK TO s: every table is back
    (as a bag), from any state a history can reach *)
Theorem rollback_to_restores_insert_segment d g s seg :
  ginv d g -> d_tx d <> None -> g_position s g = None ->
  Forall (fun o => clean_insert (d_tabs d) o = true) seg ->
  let res := step (run (fst (step d (OSavepoint s))) seg) (ORollbackTo s) in
  snd res = ROk 0 /\ tabs_beq (d_tabs (fst res)) (d_tabs d).
Proof.
  intros H Hx P HF res.
  set (d1 := fst (step d (OSavepoint s))). set (g1 := gstep d g (OSavepoint s)).
  assert (H1 : ginv d1 g1) by (apply ginv_step; assumption).
  assert (Hg1 : g1 = g ++ [mkG s (d_tabs d) false]).
  { unfold g1. cbn [gstep]. destruct (d_tx d); [reflexivity|congruence]. }
  assert (HT1 : d_tabs d1 = d_tabs d).
  { unfold d1. cbn [step]. unfold create_savepoint. destruct (d_tx d); reflexivity. }
  destruct (grun_clean_inserts (d_tabs d) seg d1 g1) as (Hg2 & _); [now rewrite HT1|assumption|].
  pose proof (ginv_grun seg d1 g1 H1) as H2. rewrite Hg2, grun_fst in H2.
  destruct (rollback_to_restores (run d1 seg) g1 s (length g) (mkG s (d_tabs d) false) H2) as (R1 & R2 & _).
  - rewrite Hg1. now apply g_position_app_fresh.
  - rewrite Hg1, nth_error_app2, Nat.sub_diag by lia. reflexivity.
  - reflexivity.
  - split; assumption.
Qed.

Corollary rollback_to_restores_insert_segment_history db0 pre s seg :
  d_tx db0 = None ->
  let d := run db0 pre in
  (exists x, d_tx d = Some x /\ sp_position s (x_sps x) = None) ->
  Forall (fun o => clean_insert (d_tabs d) o = true) seg ->
  let res := step (run (fst (step d (OSavepoint s))) seg) (ORollbackTo s) in
  snd res = ROk 0 /\ tabs_beq (d_tabs (fst res)) (d_tabs d).
Proof.
  intros Hn d (x & Ex & Ps) HF.
  pose proof (ginv_grun pre db0 [] (ginv_init db0 Hn)) as H. rewrite grun_fst in H. fold d in H.
  apply (rollback_to_restores_insert_segment d (snd (grun db0 [] pre))); try assumption.
  - congruence.
  - unfold ginv in H. rewrite Ex in H. now rewrite (stack_inv_positions _ _ s _ _ _ H).
Qed.

(** * The unconditional statement is false of the faithful model *)

(** what "not restored" means: some row occurs a different number of times in some table *)
Definition differs (T T' : tables) : Prop :=
  exists t tb tb' r, get_table T t = Some tb /\ get_table T' t = Some tb' /\
                     count_row r (t_rows tb') <> count_row r (t_rows tb).

Lemma differs_not_beq T T' : differs T T' -> ~ tabs_beq T' T.
Proof.
  intros (t & tb & tb' & r & G & G' & Hc) HB.
  destruct (tabs_beq_get _ _ _ _ HB G') as (tb2 & G2 & _ & Hb). rewrite G in G2. inversion G2; subst.
  apply Hc. apply Hb.
Qed.

Definition wit14_db : db :=
  run (mkDb (mkCat [0] []) [(0, mkTable [TInt; TInt; TVarchar (Some 2%nat)] [])] [] None)
      [OInsert 0 [[LInt 1; LInt 10; LStr [97]]]; OBegin].

Definition after_segment (d : db) (s : spname) (seg : list op) : db * result :=
  step (run (fst (step d (OSavepoint s))) seg) (ORollbackTo s).

(** UPDATE records no change: ROLLBACK TO reports success and leaves the updated row *)
Theorem rollback_to_restores_refuted_update :
  exists d s seg, d_tx d <> None /\ snd (after_segment d s seg) = ROk 0 /\
                  differs (d_tabs d) (d_tabs (fst (after_segment d s seg))).
Proof.
  exists wit14_db, 1, [OUpdate 0 1%nat 11 None].
  split; [vm_compute; discriminate|]. split; [reflexivity|].
  exists 0, (mkTable [TInt; TInt; TVarchar (Some 2%nat)] [[VInteger 1; VInteger 10; VVarchar [97]]]),
         (mkTable [TInt; TInt; TVarchar (Some 2%nat)] [[VInteger 1; VInteger 11; VVarchar [97]]]),
         [VInteger 1; VInteger 10; VVarchar [97]].
  vm_compute. repeat split; discriminate.
Qed.

(** DELETE records no change either *)
Theorem rollback_to_restores_refuted_delete :
  exists d s seg, d_tx d <> None /\ snd (after_segment d s seg) = ROk 0 /\
                  differs (d_tabs d) (d_tabs (fst (after_segment d s seg))).
Proof.
  exists wit14_db, 1, [ODelete 0 (Some (1%nat, 10))].
  split; [vm_compute; discriminate|]. split; [reflexivity|].
  exists 0, (mkTable [TInt; TInt; TVarchar (Some 2%nat)] [[VInteger 1; VInteger 10; VVarchar [97]]]),
         (mkTable [TInt; TInt; TVarchar (Some 2%nat)] []),
         [VInteger 1; VInteger 10; VVarchar [97]].
  vm_compute. repeat split; discriminate.
Qed.

(** an inserted row that the table normalises (VARCHAR(2) value of three bytes, truncated on insert)
    is recorded un-normalised: [remove_row] does not find it, ROLLBACK TO fails and the row stays *)
Theorem rollback_to_restores_refuted_normalised_insert :
  exists d s seg, d_tx d <> None /\ snd (after_segment d s seg) = RErr /\
                  differs (d_tabs d) (d_tabs (fst (after_segment d s seg))).
Proof.
  exists wit14_db, 1, [OInsert 0 [[LInt 2; LInt 20; LStr [97; 98; 99]]]].
  split; [vm_compute; discriminate|]. split; [reflexivity|].
  exists 0, (mkTable [TInt; TInt; TVarchar (Some 2%nat)] [[VInteger 1; VInteger 10; VVarchar [97]]]),
         (mkTable [TInt; TInt; TVarchar (Some 2%nat)]
                  [[VInteger 1; VInteger 10; VVarchar [97]]; [VInteger 2; VInteger 20; VVarchar [97; 98]]]),
         [VInteger 2; VInteger 20; VVarchar [97; 98]].
  vm_compute. repeat split; discriminate.
Qed.

(** even when the UPDATE is recorded the way [TransactionChange::Update] suggests, [undo_change]
    looks for the OLD row (which is no longer in the table) and fails *)
Theorem undo_change_update_refuted :
  exists d s seg, d_tx d <> None /\ snd (after_segment d s seg) = RErr /\
                  differs (d_tabs d) (d_tabs (fst (after_segment d s seg))).
Proof.
  exists wit14_db, 1,
    [OUpdate 0 1%nat 11 None;
     OApiRecord (CUpdate 0 [VInteger 1; VInteger 10; VVarchar [97]] [VInteger 1; VInteger 11; VVarchar [97]])].
  split; [vm_compute; discriminate|]. split; [reflexivity|].
  exists 0, (mkTable [TInt; TInt; TVarchar (Some 2%nat)] [[VInteger 1; VInteger 10; VVarchar [97]]]),
         (mkTable [TInt; TInt; TVarchar (Some 2%nat)] [[VInteger 1; VInteger 11; VVarchar [97]]]),
         [VInteger 1; VInteger 10; VVarchar [97]].
  vm_compute. repeat split; discriminate.
Qed.

(** * Examples: the hypotheses of the positive theorems are met by non-trivial histories *)

(** duplicate names, nesting, a release, an UPDATE before the savepoint that is rolled back to and a
    DELETE that touches no row: the first S2 is clean although S1 is not *)
Example rollback_to_restores_example :
  let db0 := mkDb (mkCat [0; 1] []) [(0, mkTable [TInt; TInt] []); (1, mkTable [TInt; TChar 2%nat] [])] [] None in
  let ops := [OInsert 0 [[LInt 1; LInt 10]]; OBegin; OSavepoint 1; OUpdate 0 1%nat 11 None;
              OSavepoint 2; OInsert 1 [[LInt 1; LStr [97; 98]]]; OSavepoint 2; OSavepoint 3;
              OInsert 0 [[LInt 2; LInt 20]; [LInt 3; LInt 30]]; ORelease 3; ODelete 1 (Some (0%nat, 7))] in
  let d := fst (grun db0 [] ops) in
  let g := snd (grun db0 [] ops) in
  exists e, g_position 2 g = Some 1%nat /\ nth_error g 1 = Some e /\ g_dirty e = false /\
            map g_name g = [1; 2; 2] /\ map g_dirty g = [true; false; false] /\
            d_tabs d <> g_copy e /\
            snd (step d (ORollbackTo 2)) = ROk 0 /\ d_tabs (fst (step d (ORollbackTo 2))) = g_copy e.
Proof. vm_compute. eexists. repeat split; congruence. Qed.

Example rollback_to_restores_insert_segment_example :
  let d := wit14_db in
  let seg := [OInsert 0 [[LInt 2; LInt 20; LStr [97; 98]]; [LInt 3; LNull; LNull]];
              OApiInsert 0 [VInteger 1; VInteger 10; VVarchar [97]]] in
  forallb (clean_insert (d_tabs d)) seg = true /\
  d_tabs (run (fst (step d (OSavepoint 5))) seg) <> d_tabs d /\
  snd (after_segment d 5 seg) = ROk 0.
Proof. vm_compute. repeat split; congruence. Qed.
