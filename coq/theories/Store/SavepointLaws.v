(** Laws of the savepoint model (C14): the implementation's undo log against the reference
    "stack of deep copies", for every history. *)
From Coq Require Import List ZArith Bool Arith Lia.
From VibeSQL Require Import Base.LexOrd Value.SqlValue Value.ValueLaws Store.Txn Store.Savepoint Store.TxnLaws.
Import ListNotations.
Open Scope Z_scope.

(** * Replaying a log of recorded inserts on a copy of the tables *)
Definition replay_change (T : tables) (c : change) : tables :=
  match c with
  | CInsert t r =>
      match get_table T t with
      | Some tb => set_table T t (mkTable (t_cols tb) (t_rows tb ++ [r]))
      | None => T
      end
  | _ => T
  end.
Definition replay (T : tables) (cs : list change) : tables := fold_left replay_change cs T.

(** a log entry that describes a row really sitting in its table: an insert into an existing table of a
    row the normaliser leaves alone *)
Definition clean_change (T : tables) (c : change) : Prop :=
  match c with
  | CInsert t r => exists tb, get_table T t = Some tb /\ stable_row (t_cols tb) r = true
  | _ => False
  end.
Definition clean_log (T : tables) (cs : list change) : Prop := Forall (clean_change T) cs.

Lemma clean_change_schema T1 T2 c : schema_of T1 = schema_of T2 -> clean_change T1 c -> clean_change T2 c.
Proof.
  intros HS. destruct c; cbn; auto. intros (tb & G & St).
  destruct (schema_get _ _ _ _ HS G) as (tb2 & G2 & Hc). exists tb2. now rewrite Hc.
Qed.

Lemma clean_log_schema T1 T2 cs : schema_of T1 = schema_of T2 -> clean_log T1 cs -> clean_log T2 cs.
Proof. intros HS H. eapply Forall_impl; [|exact H]. intros c. now apply clean_change_schema. Qed.

Lemma replay_change_schema T c : schema_of (replay_change T c) = schema_of T.
Proof.
  destruct c; cbn; try reflexivity. destruct (get_table T t) eqn:G; [|reflexivity].
  eapply schema_set_table; eauto.
Qed.

Lemma replay_schema cs : forall T, schema_of (replay T cs) = schema_of T.
Proof.
  induction cs as [|c cs IH]; intros T; [reflexivity|]. cbn [replay fold_left].
  fold (replay (replay_change T c) cs). now rewrite IH, replay_change_schema.
Qed.

Lemma replay_app T a b : replay T (a ++ b) = replay (replay T a) b.
Proof. unfold replay. apply fold_left_app. Qed.

Lemma set_set_table T t tb1 tb2 : set_table (set_table T t tb1) t tb2 = set_table T t tb2.
Proof.
  induction T as [|[n tb0] T IH]; cbn [set_table]; [reflexivity|].
  destruct (n =? t) eqn:E; cbn [set_table]; rewrite E; [reflexivity|now rewrite IH].
Qed.

(** bag-equal tables stay bag-equal when the same clean change is replayed on both *)
Lemma replay_change_beq T1 T2 c : tabs_beq T1 T2 -> tabs_beq (replay_change T1 c) (replay_change T2 c).
Proof.
  intros H. destruct c; cbn; auto.
  destruct (get_table T1 t) as [tb1|] eqn:G1.
  - destruct (tabs_beq_get _ _ _ _ H G1) as (tb2 & G2 & Hc & Hb). rewrite G2.
    apply tabs_beq_set; cbn; auto. apply bag_eq_app; auto using bag_eq_refl.
  - rewrite (schema_get_none _ _ _ (tabs_beq_schema _ _ H) G1). assumption.
Qed.

Lemma replay_beq cs : forall T1 T2, tabs_beq T1 T2 -> tabs_beq (replay T1 cs) (replay T2 cs).
Proof.
  induction cs as [|c cs IH]; intros T1 T2 H; [assumption|]. cbn [replay fold_left].
  apply IH. now apply replay_change_beq.
Qed.

(** * The key lemma: undoing a clean log suffix in reverse takes tables that are (as bags) a copy plus
    the replayed suffix back to the copy.  [Table::remove_row] may remove a different, [==] row than
    the one the insert appended -- the bag is the same. *)
Lemma undo_replay cs : forall T X,
  clean_log T cs -> tabs_beq T (replay X cs) ->
  exists T', undo_all T (rev cs) = (T', Done tt) /\ tabs_beq T' X /\ schema_of T' = schema_of T.
Proof.
  induction cs as [|c pre IH] using rev_ind; intros T X HC HB.
  - exists T. cbn. auto.
  - apply Forall_app in HC as [HCpre HCc]. inversion HCc as [|? ? Hc _]; subst.
    rewrite replay_app in HB. cbn [replay fold_left] in HB. set (Y := replay X pre) in *.
    destruct c as [t r| |]; cbn in Hc; try contradiction. destruct Hc as (tbT & GT & St).
    assert (HSY : schema_of T = schema_of Y).
    { rewrite (tabs_beq_schema _ _ HB). apply replay_change_schema. }
    destruct (schema_get _ _ _ _ HSY GT) as (tbY & GY & HcY).
    cbn [replay_change] in HB. rewrite GY in HB.
    destruct (tabs_beq_get _ _ _ _ HB GT) as (tb2 & G2 & Hc2 & Hb2).
    rewrite (get_set_same _ _ _ _ GY) in G2. inversion G2; subst tb2. cbn [t_rows t_cols] in *.
    destruct (remove_first_undoes_append r r (t_rows tbT) (t_rows tbY) (row_eqb_refl r) Hb2) as (l' & Hl' & Hbl').
    set (T1 := set_table T t (mkTable (t_cols tbT) l')).
    assert (HB1 : tabs_beq T1 Y).
    { unfold T1. rewrite <- (set_table_same Y t tbY GY) at 1.
      rewrite <- (set_set_table Y t (mkTable (t_cols tbY) (t_rows tbY ++ [r])) tbY).
      apply tabs_beq_set; cbn; auto; try congruence. }
    assert (HS1 : schema_of T1 = schema_of T) by (unfold T1; eapply schema_set_table; eauto).
    destruct (IH T1 X) as (T' & HU & HB' & HS').
    + eapply clean_log_schema; [symmetry; exact HS1|assumption].
    + exact HB1.
    + exists T'. rewrite rev_app_distr. cbn [rev app undo_all undo_change].
      rewrite GT, Hl'. fold T1. rewrite HU. repeat split; auto. congruence.
Qed.

(** * The invariant that ties the savepoint stack to the stack of deep copies.
    [lo] threads the lower bound: snapshot indices never decrease along the stack. *)
Fixpoint stack_inv (T : tables) (log : list change) (lo : nat) (sps : list (spname * nat)) (g : ghost) : Prop :=
  match sps, g with
  | [], [] => True
  | (n, i) :: sps', e :: g' =>
      n = g_name e /\ (lo <= i)%nat /\ (i <= length log)%nat /\
      (g_dirty e = false ->
         clean_log T (skipn i log) /\ tabs_beq T (replay (g_copy e) (skipn i log)) /\
         Forall (fun e' => g_dirty e' = false) g') /\
      stack_inv T log i sps' g'
  | _, _ => False
  end.

Definition ginv (d : db) (g : ghost) : Prop :=
  match d_tx d with
  | None => g = []
  | Some x => stack_inv (d_tabs d) (x_log x) 0 (x_sps x) g
  end.

Lemma stack_inv_length T log lo sps g : stack_inv T log lo sps g -> length sps = length g.
Proof.
  revert lo g; induction sps as [|[n i] sps IH]; intros lo [|e g]; cbn; try tauto.
  intros (_ & _ & _ & _ & H). f_equal. eauto.
Qed.

Lemma stack_inv_weaken T log lo lo' sps g : (lo' <= lo)%nat -> stack_inv T log lo sps g -> stack_inv T log lo' sps g.
Proof.
  destruct sps as [|[n i] sps], g as [|e g]; cbn; try tauto.
  intros Hl (H1 & H2 & H3 & H4 & H5). repeat split; auto; try lia; apply H4; auto.
Qed.

(** every snapshot index on the stack is at least the threaded bound and at most the log length *)
Lemma stack_inv_bounds T log : forall sps g lo j n i,
  stack_inv T log lo sps g -> nth_error sps j = Some (n, i) -> (lo <= i <= length log)%nat.
Proof.
  induction sps as [|[n0 i0] sps IH]; intros [|e g] lo j n i H Hn; cbn in H; try tauto;
    try (destruct j; discriminate).
  destruct H as (H1 & H2 & H3 & H4 & H5). destruct j as [|j]; cbn in Hn.
  - inversion Hn; subst. lia.
  - specialize (IH g i0 j n i H5 Hn). lia.
Qed.

Lemma stack_inv_positions T log n : forall sps g lo,
  stack_inv T log lo sps g -> g_position n g = sp_position n sps.
Proof.
  induction sps as [|[n0 i0] sps IH]; intros [|e g] lo H; cbn in H; try tauto; try reflexivity.
  destruct H as (H1 & _ & _ & _ & H5). cbn [g_position sp_position]. subst n0.
  destruct (g_name e =? n); [reflexivity|]. now rewrite (IH g i0 H5).
Qed.

(** * Maintenance of the invariant *)

(** anything may happen to the tables and the log may grow, once every copy is marked dirty *)
Lemma stack_inv_taint T T' log extra : forall sps g lo,
  stack_inv T log lo sps g -> stack_inv T' (log ++ extra) lo sps (g_taint g).
Proof.
  induction sps as [|[n i] sps IH]; intros [|e g] lo H; cbn in H |- *; try tauto.
  destruct H as (H1 & H2 & H3 & H4 & H5). repeat split; auto.
  - rewrite app_length. lia.
  - discriminate.
  - discriminate.
  - discriminate.
Qed.

Lemma skipn_app_le {A} (i : nat) (l m : list A) : (i <= length l)%nat -> skipn i (l ++ m) = skipn i l ++ m.
Proof.
  intros H. rewrite skipn_app. replace (i - length l)%nat with O by lia. reflexivity.
Qed.

(** a statement that leaves tables and log alone *)
Lemma stack_inv_same T log lo sps g : stack_inv T log lo sps g -> stack_inv T log lo sps g.
Proof. auto. Qed.

(** the tables change to bag-equal-after-replay ones and the log grows by clean entries *)
Lemma stack_inv_extend T T' log extra :
  schema_of T' = schema_of T -> clean_log T extra ->
  (forall X, tabs_beq T X -> tabs_beq T' (replay X extra)) ->
  forall sps g lo, stack_inv T log lo sps g -> stack_inv T' (log ++ extra) lo sps g.
Proof.
  intros HS HC HR. induction sps as [|[n i] sps IH]; intros [|e g] lo H; cbn in H |- *; try tauto.
  destruct H as (H1 & H2 & H3 & H4 & H5). repeat split; auto.
  - rewrite app_length. lia.
  - destruct (H4 H) as (C & B & F). rewrite skipn_app_le by assumption.
    apply Forall_app; split; eapply clean_log_schema; try (symmetry; exact HS); assumption.
  - destruct (H4 H) as (C & B & F). rewrite skipn_app_le by assumption. rewrite replay_app. auto.
  - apply H4; assumption.
Qed.

(** SAVEPOINT: push a clean copy *)
Lemma stack_inv_push T log n : forall sps g lo,
  (lo <= length log)%nat -> stack_inv T log lo sps g ->
  stack_inv T log lo (sps ++ [(n, length log)]) (g ++ [mkG n T false]).
Proof.
  induction sps as [|[n0 i0] sps IH]; intros [|e g] lo Hlo H; cbn in H |- *; try tauto.
  - repeat split; auto. + constructor. + cbn. apply tabs_beq_refl. + rewrite skipn_all. constructor.
  - destruct H as (H1 & H2 & H3 & H4 & H5). repeat split; auto; try (apply H4; assumption).
    apply Forall_app; split; [apply H4; assumption|repeat constructor].
Qed.

Lemma Forall_remove_nth {A} (P : A -> Prop) j (l : list A) : Forall P l -> Forall P (remove_nth j l).
Proof.
  revert j; induction l as [|x l IH]; intros [|j] H; cbn; auto; inversion H; subst; auto.
Qed.

(** RELEASE: drop one entry on both sides *)
Lemma stack_inv_remove T log j : forall sps g lo,
  stack_inv T log lo sps g -> stack_inv T log lo (remove_nth j sps) (remove_nth j g).
Proof.
  induction j as [|j IH]; intros [|[n i] sps] [|e g] lo H; cbn in H |- *; try tauto.
  - destruct H as (_ & H2 & _ & _ & H5). eapply stack_inv_weaken; [|exact H5]. assumption.
  - destruct H as (H1 & H2 & H3 & H4 & H5). repeat split; auto; try (apply H4; assumption).
    apply Forall_remove_nth. apply H4; assumption.
Qed.

Lemma skipn_firstn_split {A} (i idx : nat) (l : list A) :
  (i <= idx)%nat -> skipn i l = skipn i (firstn idx l) ++ skipn idx l.
Proof.
  intros H. rewrite <- (firstn_skipn idx l) at 1.
  destruct (le_lt_dec idx (length l)) as [Hl|Hl].
  - rewrite skipn_app_le; [reflexivity|]. rewrite firstn_length_le by assumption. assumption.
  - rewrite (firstn_all2 l) by lia. rewrite (skipn_all2 l) by lia. now rewrite !app_nil_r.
Qed.

Lemma In_firstn_in {A} (x : A) n : forall l, In x (firstn n l) -> In x l.
Proof.
  induction n as [|n IH]; intros [|y l]; cbn; try tauto. intros [H|H]; auto.
Qed.

(** ROLLBACK TO a clean savepoint [j]: the log is cut at [idx], the stack after [j]; [T'] is what
    the undo loop produced, characterised by [P] *)
Lemma stack_inv_cut_clean T T' log idx :
  schema_of T' = schema_of T -> (idx <= length log)%nat ->
  (forall X, tabs_beq T (replay X (skipn idx log)) -> tabs_beq T' X) ->
  forall sps g lo j n,
    stack_inv T log lo sps g -> nth_error sps j = Some (n, idx) ->
    stack_inv T' (firstn idx log) lo (firstn (S j) sps) (firstn (S j) g).
Proof.
  intros HS Hidx HP. induction sps as [|[n0 i0] sps IH]; intros [|e g] lo j n H Hn; cbn in H; try tauto;
    try (destruct j; discriminate).
  destruct H as (H1 & H2 & H3 & H4 & H5).
  assert (Hi0 : (i0 <= idx)%nat).
  { destruct j as [|j]; cbn in Hn; [inversion Hn; lia|].
    pose proof (stack_inv_bounds _ _ _ _ _ _ _ _ H5 Hn). lia. }
  cbn [firstn stack_inv]. split; [assumption|]. split; [assumption|]. split.
  { rewrite firstn_length_le by assumption. assumption. }
  split.
  - intros Hd. destruct (H4 Hd) as (C & B & F).
    rewrite (skipn_firstn_split i0 idx log Hi0) in C, B.
    apply Forall_app in C as [C1 C2]. rewrite replay_app in B. repeat split.
    + eapply clean_log_schema; [symmetry; exact HS|assumption].
    + apply HP. assumption.
    + destruct j; [cbn; constructor|]. apply Forall_forall. intros e' He'.
      rewrite Forall_forall in F. apply F. eapply In_firstn_in; exact He'.
  - destruct j as [|j]; cbn in Hn.
    + destruct sps, g; cbn; auto.
    + eapply IH; eauto.
Qed.
