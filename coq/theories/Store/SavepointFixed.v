(** Model of the transaction layer WITH the repair proposed in
    fixes/C14-record-update-delete-and-undo.patch applied (definitions only):
    - [Database::insert_row] / [insert_rows_batch] record the row as the table stores it (also for
      the rows a failing batch managed to insert);
    - [UpdateExecutor] records [Update { old_row, new_row = stored row }] for every row it changed
      (also when a later row fails), [DeleteExecutor] records [Delete { row }] for every row it removed
      (also on the [Table::clear] fast path);
    - [undo_change]: Insert => remove_row(row); Update => remove_row(new_row) then put old_row back;
      Delete => put row back; "put back" is [Table::restore_row], which does not normalise again.
    The user-index side of the repair is not part of this model (C14 talks about table contents).
    Everything not redefined here is the faithful model of Store/Txn.v / Store/Savepoint.v. *)
From Coq Require Import List ZArith Bool Arith.
From VibeSQL Require Import Base.LexOrd Value.SqlValue Store.Txn Store.Savepoint.
Import ListNotations.
Open Scope Z_scope.

(** rows of a batch as the table stores them, up to the first row it rejects *)
Fixpoint normalize_many (cols : list coltype) (rs : list row) : list row * outcome unit :=
  match rs with
  | [] => ([], Done tt)
  | r :: rest =>
      match normalize_row cols r with
      | Done r' => let '(stored, st) := normalize_many cols rest in (r' :: stored, st)
      | Fail => ([], Fail)
      | Panicked => ([], Panicked)
      end
  end.

Definition api_insert_row_f (d : db) (t : tname) (r : row) : db * result :=
  match get_table (d_tabs d) t with
  | None => (d, RErr)
  | Some tb =>
      match normalize_row (t_cols tb) r with
      | Fail => (d, RErr)
      | Panicked => (d, RPanic)
      | Done r' =>
          (record (mkDb (d_cat d) (set_table (d_tabs d) t (mkTable (t_cols tb) (t_rows tb ++ [r'])))
                        (uix_insert (d_uix d) t r (length (t_rows tb))) (d_tx d))
                  [CInsert t r'], ROk 1)
      end
  end.

Definition api_insert_batch_f (d : db) (t : tname) (rs : list row) : db * result :=
  match rs with
  | [] => (d, ROk 0)
  | _ =>
    match get_table (d_tabs d) t with
    | None => (d, RErr)
    | Some tb =>
        let '(stored, st) := normalize_many (t_cols tb) rs in
        let T' := set_table (d_tabs d) t (mkTable (t_cols tb) (t_rows tb ++ stored)) in
        match st with
        | Done _ => (record (mkDb (d_cat d) T' (uix_insert_many (d_uix d) t rs (length (t_rows tb))) (d_tx d))
                            (map (CInsert t) stored), ROk (length rs))
        | Fail => (record (mkDb (d_cat d) T' (d_uix d) (d_tx d)) (map (CInsert t) stored), RErr)
        | Panicked => (mkDb (d_cat d) T' (d_uix d) (d_tx d), RPanic)     (* unwinding: nothing recorded *)
        end
    end
  end.

Definition sql_insert_f (d : db) (t : tname) (rows : list (list lit)) : db * result :=
  match get_table (d_tabs d) t with
  | None => (d, RErr)
  | Some tb =>
      if negb (forallb (fun ls => (length ls =? length (t_cols tb))%nat) rows) then (d, RErr)
      else
      match coerce_rows (t_cols tb) rows with
      | Fail => (d, RErr)
      | Panicked => (d, RPanic)
      | Done [] => (d, ROk 0)
      | Done [r] => api_insert_row_f d t r
      | Done rs => api_insert_batch_f d t rs
      end
  end.

(** the apply loop of UPDATE with the (old, stored new) pairs of the rows it changed *)
Fixpoint update_rows_f (cols : list coltype) (c : nat) (k : Z) (w : wclause) (rows : list row)
  : list row * list (row * row) * outcome unit :=
  match rows with
  | [] => ([], [], Done tt)
  | r :: rest =>
      if matches w r then
        match normalize_row cols (set_nth c (VInteger k) r) with
        | Done r' => let '(rest', ps, st) := update_rows_f cols c k w rest in (r' :: rest', (r, r') :: ps, st)
        | Fail => (r :: rest, [], Fail)
        | Panicked => (r :: rest, [], Panicked)
        end
      else let '(rest', ps, st) := update_rows_f cols c k w rest in (r :: rest', ps, st)
  end.

Definition sql_update_f (d : db) (t : tname) (c : nat) (k : Z) (w : wclause) : db * result :=
  match get_table (d_tabs d) t with
  | None => (d, RErr)
  | Some tb =>
      if (length (t_cols tb) <=? c)%nat
      then (d, match count_matching w (t_rows tb) with O => ROk 0 | S _ => RErr end)
      else
        let '(rows', ps, st) := update_rows_f (t_cols tb) c k w (t_rows tb) in
        let T' := set_table (d_tabs d) t (mkTable (t_cols tb) rows') in
        let log := map (fun p => CUpdate t (fst p) (snd p)) ps in
        match st with
        | Done _ => (record (mkDb (d_cat d) T' (uix_update_rows (d_uix d) t c k w 0 (t_rows tb)) (d_tx d)) log,
                     ROk (count_matching w (t_rows tb)))
        | Fail => (record (mkDb (d_cat d) T' (d_uix d) (d_tx d)) log, RErr)
        | Panicked => (mkDb (d_cat d) T' (d_uix d) (d_tx d), RPanic)
        end
  end.

Definition sql_delete_f (d : db) (t : tname) (w : wclause) : db * result :=
  match get_table (d_tabs d) t with
  | None => (d, RErr)
  | Some tb =>
      let gone := filter (matches w) (t_rows tb) in
      let rows' := filter (fun r => negb (matches w r)) (t_rows tb) in
      (record (mkDb (d_cat d) (set_table (d_tabs d) t (mkTable (t_cols tb) rows')) (uix_rebuild (d_uix d) t rows') (d_tx d))
              (map (CDelete t) gone),
       ROk (length gone))
  end.

Definition undo_change_f (T : tables) (c : change) : tables * outcome unit :=
  match c with
  | CInsert t r =>
      match get_table T t with
      | None => (T, Fail)
      | Some tb =>
          match remove_first r (t_rows tb) with
          | None => (T, Fail)
          | Some rows' => (set_table T t (mkTable (t_cols tb) rows'), Done tt)
          end
      end
  | CUpdate t old new =>
      match get_table T t with
      | None => (T, Fail)
      | Some tb =>
          match remove_first new (t_rows tb) with
          | None => (T, Fail)
          | Some rows' => (set_table T t (mkTable (t_cols tb) (rows' ++ [old])), Done tt)
          end
      end
  | CDelete t r =>
      match get_table T t with
      | None => (T, Fail)
      | Some tb => (set_table T t (mkTable (t_cols tb) (t_rows tb ++ [r])), Done tt)
      end
  end.

Fixpoint undo_all_f (T : tables) (cs : list change) : tables * outcome unit :=
  match cs with
  | [] => (T, Done tt)
  | c :: rest =>
      match undo_change_f T c with
      | (T', Done _) => undo_all_f T' rest
      | (T', Fail) => (T', Fail)
      | (T', Panicked) => (T', Panicked)
      end
  end.

Definition rollback_to_savepoint_f (d : db) (n : spname) : db * result :=
  match d_tx d with
  | None => (d, RErr)
  | Some x =>
      match sp_position n (x_sps x) with
      | None => (d, RErr)
      | Some j =>
          let idx := snd (nth j (x_sps x) (0, O)) in
          if (length (x_log x) <? idx)%nat then (d, RPanic)
          else
            let undo := rev (skipn idx (x_log x)) in
            let x' := mkTxn (x_cat x) (x_tabs x) (x_ixs x) (firstn (S j) (x_sps x)) (firstn idx (x_log x)) in
            match undo_all_f (d_tabs d) undo with
            | (T', Done _) => (mkDb (d_cat d) T' (d_uix d) (Some x'), ROk 0)
            | (T', Fail) => (mkDb (d_cat d) T' (d_uix d) (Some x'), RErr)
            | (T', Panicked) => (mkDb (d_cat d) T' (d_uix d) (Some x'), RPanic)
            end
      end
  end.

Definition step_f (d : db) (o : op) : db * result :=
  match o with
  | ORollbackTo n => rollback_to_savepoint_f d n
  | OInsert t rows => sql_insert_f d t rows
  | OApiInsert t r => api_insert_row_f d t r
  | OApiBatch t rs => api_insert_batch_f d t rs
  | OUpdate t c k w => sql_update_f d t c k w
  | ODelete t w => sql_delete_f d t w
  | _ => step d o
  end.

Definition run_f (d : db) (ops : list op) : db := fold_left (fun d o => fst (step_f d o)) ops d.

(** the reference: a stack of deep copies; a copy is tainted only by what no log can describe --
    a statement that panicked (unwinding skips the recording) or a raw [record_change] call *)
Definition op_clean_f (d : db) (o : op) : bool :=
  match o with
  | OApiRecord _ => false
  | _ => match snd (step_f d o) with RPanic => false | _ => true end
  end.

Definition gstep_f (d : db) (g : ghost) (o : op) : ghost :=
  match o with
  | OBegin => g
  | OCommit | ORollback => []
  | OSavepoint n => match d_tx d with None => g | Some _ => g ++ [mkG n (d_tabs d) false] end
  | ORelease n => match g_position n g with Some j => remove_nth j g | None => g end
  | ORollbackTo n => match g_position n g with Some j => firstn (S j) g | None => g end
  | _ => if op_clean_f d o then g else g_taint g
  end.

Fixpoint grun_f (d : db) (g : ghost) (ops : list op) : db * ghost :=
  match ops with
  | [] => (d, g)
  | o :: rest => grun_f (fst (step_f d o)) (gstep_f d g o) rest
  end.
