(** Laws of the access-path model [Store.PrivPaths] (C26).
    Part 1: theorems about ALL access programs (check-then-act discipline).
    Part 2: the finite table of the code's paths, decided by computation over [all_paths] and lifted with
    [forallb_forall] (the domain is the enumerated type [path]; [all_paths_complete] shows the list is exhaustive). *)
From Coq Require Import List Bool.
From VibeSQL Require Import Store.PrivPaths.
Import ListNotations.

(** * part 1: every program *)
Lemma tbl_eqb_eq : forall a b, tbl_eqb a b = true <-> a = b.
Proof. destruct a, b; cbn; split; intro H; try reflexivity; try discriminate. Qed.
Lemma access_eqb_eq : forall a b, access_eqb a b = true <-> a = b.
Proof. destruct a, b; cbn; split; intro H; try reflexivity; try discriminate. Qed.
Lemma ta_eqb_eq : forall x y, ta_eqb x y = true <-> x = y.
Proof.
  intros [t a] [t' a']. unfold ta_eqb. cbn. rewrite andb_true_iff, tbl_eqb_eq, access_eqb_eq.
  split; [intros [H1 H2]; congruence | intro H; inversion H; tauto].
Qed.
Lemma memp_In : forall x l, memp x l = true <-> In x l.
Proof.
  intros x l. unfold memp. rewrite existsb_exists. split.
  - intros [y [Hy E]]. apply ta_eqb_eq in E. subst. exact Hy.
  - intro H. exists x. split; [exact H | apply ta_eqb_eq; reflexivity].
Qed.

(** a guarded program never touches data the role may not touch - whatever the role holds *)
Theorem guarded_sound : forall held prog seen,
  guardedb seen prog = true ->
  (forall t a, In (t, a) seen -> held t a = true) ->
  forall e, In e (snd (run held prog)) -> permitted held e = true.
Proof.
  intros held. induction prog as [|act prog IH]; intros seen HG HS e He; [contradiction|].
  destruct act as [t a|t a|t|t a|t]; cbn in HG, He.
  - destruct (held t a) eqn:Hh; [|contradiction]. eapply IH; [exact HG| |exact He].
    intros t' a' [E|Hin]; [inversion E; subst; exact Hh | apply HS; exact Hin].
  - destruct (held t a) eqn:Hh; [|contradiction]. eapply IH; [exact HG| |exact He].
    intros t' a' [E|Hin]; [inversion E; subst; exact Hh | apply HS; exact Hin].
  - apply andb_true_iff in HG as [HM HG]. destruct He as [E|He].
    + subst e. cbn. apply HS. apply memp_In. exact HM.
    + eapply IH; eassumption.
  - apply andb_true_iff in HG as [HM HG]. destruct He as [E|He].
    + subst e. cbn. apply HS. apply memp_In. exact HM.
    + eapply IH; eassumption.
  - destruct He as [E|He]; [subst e; reflexivity | eapply IH; eassumption].
Qed.

Lemma no_hard_check_ok : forall held prog,
  forallb (fun a => negb (is_hard_check a)) prog = true -> fst (run held prog) = OOk.
Proof.
  intros held. induction prog as [|act prog IH]; intro H; [reflexivity|].
  cbn in H. apply andb_true_iff in H as [H1 H2].
  destruct act as [t a|t a|t|t a|t]; cbn in *; try discriminate; try (apply IH; exact H2).
  destruct (held t a); [apply IH; exact H2 | reflexivity].
Qed.

(** C26 denied_changes_nothing: when all aborting checks precede the first write, a refused statement has
    changed nothing *)
Theorem denied_changes_nothing : forall held prog,
  atomicb prog = true -> fst (run held prog) = ODenied ->
  filter is_change (snd (run held prog)) = [].
Proof.
  intros held. induction prog as [|act prog IH]; intros HA HD; [reflexivity|].
  destruct act as [t a|t a|t|t a|t]; cbn in *.
  - destruct (held t a); [apply IH; assumption | reflexivity].
  - destruct (held t a); [apply IH; assumption | reflexivity].
  - apply IH; assumption.
  - rewrite (no_hard_check_ok held prog HA) in HD. discriminate.
  - rewrite (no_hard_check_ok held prog HA) in HD. discriminate.
Qed.

(** a refused or swallowed check stops everything that follows: a statement that ends "denied" or skipped
    performed no access after the failing check (in particular a guarded, atomic program denied at its first
    check reads nothing) *)
Theorem lacking_is_denied : forall held prog seen t a,
  guardedb seen prog = true -> loudb prog = true ->
  (forall t' a', In (t', a') seen -> held t' a' = true) ->
  In (t, a) (flows prog) -> held t a = false ->
  fst (run held prog) = ODenied.
Proof.
  intros held. induction prog as [|act prog IH]; intros seen t a HG HL HS HF Hh; [contradiction|].
  unfold loudb in HL. cbn [forallb] in HL. apply andb_true_iff in HL as [HL1 HL2].
  destruct act as [t' a'|t' a'|t'|t' a'|t']; cbn in HG, HF, HL1 |- *; try discriminate.
  - destruct (held t' a') eqn:E; [|reflexivity]. eapply IH; try eassumption.
    intros t2 a2 [E2|Hin]; [inversion E2; subst; exact E | apply HS; exact Hin].
  - apply andb_true_iff in HG as [HM HG]. destruct HF as [E|HF].
    + inversion E; subst. apply memp_In in HM. apply HS in HM. congruence.
    + eapply IH; eassumption.
  - apply andb_true_iff in HG as [HM HG]. destruct HF as [E|HF].
    + inversion E; subst. apply memp_In in HM. apply HS in HM. congruence.
    + eapply IH; eassumption.
  - eapply IH; eassumption.
Qed.

(** with everything it checks and uses in hand, a program runs to completion *)
Theorem holding_all_is_ok : forall held prog,
  (forall t a, held t a = true) -> fst (run held prog) = OOk.
Proof.
  intros held prog H. induction prog as [|act prog IH]; [reflexivity|].
  destruct act as [t a|t a|t|t a|t]; cbn; try rewrite H; exact IH.
Qed.

(** * part 2: the code's paths *)
Lemma all_paths_complete : forall p : path, In p all_paths.
Proof. destruct p; cbn; tauto. Qed.

Lemma forall_paths : forall f : path -> bool, forallb f all_paths = true -> forall p, f p = true.
Proof. intros f H p. rewrite forallb_forall in H. apply H. apply all_paths_complete. Qed.

Definition same_set (a b : list (tbl * access)) : bool :=
  forallb (fun x => memp x b) a && forallb (fun x => memp x a) b.

(** the requirement lists are exactly the data flows of the programs: [required] was not tuned to the code *)
Lemma required_is_flows : forall p, same_set (required p) (flows (program p)) = true.
Proof. apply forall_paths. vm_compute. reflexivity. Qed.

(** every path of the current code is guarded, checks before it writes, and swallows no refusal *)
Lemma all_guarded : forall p, guardedb [] (program p) = true.
Proof. apply forall_paths. vm_compute. reflexivity. Qed.

Lemma all_atomic : forall p, atomicb (program p) = true.
Proof. apply forall_paths. vm_compute. reflexivity. Qed.

Lemma all_loud : forall p, loudb (program p) = true.
Proof. apply forall_paths. vm_compute. reflexivity. Qed.

(** C26 paths_complete: on every listed path, whatever the role holds, every row read is of a table it holds
    SELECT on and every row written of a table it holds the matching privilege on *)
Theorem paths_complete : forall p held e, In e (snd (run held (program p))) -> permitted held e = true.
Proof.
  intros p held e He. eapply (guarded_sound held (program p) []); [apply all_guarded|intros t a F; destruct F|exact He].
Qed.

(** "otherwise it fails": lacking a required privilege the statement is refused *)
Theorem paths_deny : forall p held t a,
  In (t, a) (required p) -> held t a = false -> fst (run held (program p)) = ODenied.
Proof.
  intros p held t a Hr Hh. eapply (lacking_is_denied held (program p) [] t a).
  - apply all_guarded.
  - apply all_loud.
  - intros t' a' F. destruct F.
  - pose proof (required_is_flows p) as H. unfold same_set in H. apply andb_true_iff in H as [H _].
    rewrite forallb_forall in H. apply memp_In. apply H. exact Hr.
  - exact Hh.
Qed.

(** "and changes nothing": a refused statement has written nothing *)
Theorem paths_denied_change_nothing : forall p held,
  fst (run held (program p)) = ODenied -> filter is_change (snd (run held (program p))) = [].
Proof. intros p held HD. apply denied_changes_nothing; [apply all_atomic | exact HD]. Qed.

(** both together, per required privilege *)
Theorem paths_lacking : forall p held t a,
  In (t, a) (required p) -> held t a = false ->
  fst (run held (program p)) = ODenied /\ filter is_change (snd (run held (program p))) = [].
Proof.
  intros p held t a Hr Hh. assert (HD := paths_deny p held t a Hr Hh).
  split; [exact HD | apply paths_denied_change_nothing; exact HD].
Qed.

(** ** the table before the C26 fixes: which paths were broken, and how *)
Definition before_unguarded : list path :=
  filter (fun p => negb (guardedb [] (program_before p))) all_paths.
Definition before_silent : list path := filter (fun p => negb (loudb (program_before p))) all_paths.
Definition before_partial : list path := filter (fun p => negb (atomicb (program_before p))) all_paths.

Lemma before_defects :
  before_unguarded =
    [P_count_star_order_by; P_count_star_limit; P_count_star_union_arm; P_count_star_with_cte; P_count_star_scalar_limit;
     P_in_index_order_by; P_in_index_group_by; P_in_index_partition_by; P_insert_select_bulk;
     P_on_duplicate_key_update; P_replace_into; P_insert_or_replace] /\
  before_silent = [P_window_partition_subquery; P_delete_where_subquery; P_delete_where_exists] /\
  before_partial = [P_truncate_multi_cascade].
Proof. vm_compute. repeat split. Qed.

(** the fixes changed nothing else *)
Lemma program_unchanged_elsewhere : forall p,
  In p before_unguarded \/ In p before_silent \/ In p before_partial \/ program p = program_before p.
Proof. destruct p; vm_compute; tauto. Qed.

(** examples: non-trivial instances of the hypotheses *)
Example ex_guarded_path :
  run (held_of [(TT, AIns); (TM, ASel)]) (program P_insert_select_subquery) = (ODenied, [ERead TM]).
Proof. vm_compute. reflexivity. Qed.

Example ex_bulk_now_refused :
  run (held_of [(TT, AIns)]) (program P_insert_select_bulk) = (ODenied, []) /\
  run (held_of [(TT, AIns)]) (program_before P_insert_select_bulk) = (OOk, [ERead TS; EWrite TT AIns]).
Proof. vm_compute. split; reflexivity. Qed.

Example ex_truncate_now_atomic :
  run (held_of [(TU, ADel); (TP, ADel)]) (program P_truncate_multi_cascade) = (ODenied, []) /\
  run (held_of [(TU, ADel); (TP, ADel)]) (program_before P_truncate_multi_cascade) = (ODenied, [EWrite TU ADel]).
Proof. vm_compute. split; reflexivity. Qed.

Example ex_all_held :
  run (held_of [(TU, AIns); (TU, ADel)]) (program P_replace_into) = (OOk, [EWrite TU ADel; EWrite TU AIns]).
Proof. vm_compute. reflexivity. Qed.
