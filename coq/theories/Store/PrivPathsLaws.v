(** Laws of the access-path model [Store.PrivPaths] (C26).
    Part 1: theorems about ALL access programs (check-then-act discipline).
    Part 2: the finite table of the code's paths, decided by computation over [all_paths] and lifted with
    [forallb_forall] (the domain is the enumerated type [path]; [all_paths_complete] shows the list is exhaustive). *)
From Coq Require Import List Bool.
From VibeSQL Require Import Store.PrivPaths.
Import ListNotations.

(** * part 1: every program *)
Lemma tbl_eqb_eq : forall a b, tbl_eqb a b = true <-> a = b.
Proof. destruct a, b; cbn; split; intro H; try reflexivity; try discriminate. Qed.
Lemma access_eqb_eq : forall a b, access_eqb a b = true <-> a = b.
Proof. destruct a, b; cbn; split; intro H; try reflexivity; try discriminate. Qed.
Lemma ta_eqb_eq : forall x y, ta_eqb x y = true <-> x = y.
Proof.
  intros [t a] [t' a']. unfold ta_eqb. cbn. rewrite andb_true_iff, tbl_eqb_eq, access_eqb_eq.
  split; [intros [H1 H2]; congruence | intro H; inversion H; tauto].
Qed.
Lemma memp_In : forall x l, memp x l = true <-> In x l.
Proof.
  intros x l. unfold memp. rewrite existsb_exists. split.
  - intros [y [Hy E]]. apply ta_eqb_eq in E. subst. exact Hy.
  - intro H. exists x. split; [exact H | apply ta_eqb_eq; reflexivity].
Qed.

(** a guarded program never touches data the role may not touch - whatever the role holds *)
Theorem guarded_sound : forall held prog seen,
  guardedb seen prog = true ->
  (forall t a, In (t, a) seen -> held t a = true) ->
  forall e, In e (snd (run held prog)) -> permitted held e = true.
Proof.
  intros held. induction prog as [|act prog IH]; intros seen HG HS e He; [contradiction|].
  destruct act as [t a|t a|t|t a|t]; cbn in HG, He.
  - destruct (held t a) eqn:Hh; [|contradiction]. eapply IH; [exact HG| |exact He].
    intros t' a' [E|Hin]; [inversion E; subst; exact Hh | apply HS; exact Hin].
  - destruct (held t a) eqn:Hh; [|contradiction]. eapply IH; [exact HG| |exact He].
    intros t' a' [E|Hin]; [inversion E; subst; exact Hh | apply HS; exact Hin].
  - apply andb_true_iff in HG as [HM HG]. destruct He as [E|He].
    + subst e. cbn. apply HS. apply memp_In. exact HM.
    + eapply IH; eassumption.
  - apply andb_true_iff in HG as [HM HG]. destruct He as [E|He].
    + subst e. cbn. apply HS. apply memp_In. exact HM.
    + eapply IH; eassumption.
  - destruct He as [E|He]; [subst e; reflexivity | eapply IH; eassumption].
Qed.

Lemma no_hard_check_ok : forall held prog,
  forallb (fun a => negb (is_hard_check a)) prog = true -> fst (run held prog) = OOk.
Proof.
  intros held. induction prog as [|act prog IH]; intro H; [reflexivity|].
  cbn in H. apply andb_true_iff in H as [H1 H2].
  destruct act as [t a|t a|t|t a|t]; cbn in *; try discriminate; try (apply IH; exact H2).
  destruct (held t a); [apply IH; exact H2 | reflexivity].
Qed.

(** C26 denied_changes_nothing: when all aborting checks precede the first write, a refused statement has
    changed nothing *)
Theorem denied_changes_nothing : forall held prog,
  atomicb prog = true -> fst (run held prog) = ODenied ->
  filter is_change (snd (run held prog)) = [].
Proof.
  intros held. induction prog as [|act prog IH]; intros HA HD; [reflexivity|].
  destruct act as [t a|t a|t|t a|t]; cbn in *.
  - destruct (held t a); [apply IH; assumption | reflexivity].
  - destruct (held t a); [apply IH; assumption | reflexivity].
  - apply IH; assumption.
  - rewrite (no_hard_check_ok held prog HA) in HD. discriminate.
  - rewrite (no_hard_check_ok held prog HA) in HD. discriminate.
Qed.

(** a refused or swallowed check stops everything that follows: a statement that ends "denied" or skipped
    performed no access after the failing check (in particular a guarded, atomic program denied at its first
    check reads nothing) *)
Theorem lacking_is_denied : forall held prog seen t a,
  guardedb seen prog = true -> loudb prog = true ->
  (forall t' a', In (t', a') seen -> held t' a' = true) ->
  In (t, a) (flows prog) -> held t a = false ->
  fst (run held prog) = ODenied.
Proof.
  intros held. induction prog as [|act prog IH]; intros seen t a HG HL HS HF Hh; [contradiction|].
  unfold loudb in HL. cbn [forallb] in HL. apply andb_true_iff in HL as [HL1 HL2].
  destruct act as [t' a'|t' a'|t'|t' a'|t']; cbn in HG, HF, HL1 |- *; try discriminate.
  - destruct (held t' a') eqn:E; [|reflexivity]. eapply IH; try eassumption.
    intros t2 a2 [E2|Hin]; [inversion E2; subst; exact E | apply HS; exact Hin].
  - apply andb_true_iff in HG as [HM HG]. destruct HF as [E|HF].
    + inversion E; subst. apply memp_In in HM. apply HS in HM. congruence.
    + eapply IH; eassumption.
  - apply andb_true_iff in HG as [HM HG]. destruct HF as [E|HF].
    + inversion E; subst. apply memp_In in HM. apply HS in HM. congruence.
    + eapply IH; eassumption.
  - eapply IH; eassumption.
Qed.

(** with everything it checks and uses in hand, a program runs to completion *)
Theorem holding_all_is_ok : forall held prog,
  (forall t a, held t a = true) -> fst (run held prog) = OOk.
Proof.
  intros held prog H. induction prog as [|act prog IH]; [reflexivity|].
  destruct act as [t a|t a|t|t a|t]; cbn; try rewrite H; exact IH.
Qed.

(** * part 2: the code's paths *)
Lemma all_paths_complete : forall p : path, In p all_paths.
Proof. destruct p; cbn; tauto. Qed.

Lemma forall_paths : forall f : path -> bool, forallb f all_paths = true -> forall p, f p = true.
Proof. intros f H p. rewrite forallb_forall in H. apply H. apply all_paths_complete. Qed.

Definition same_set (a b : list (tbl * access)) : bool :=
  forallb (fun x => memp x b) a && forallb (fun x => memp x a) b.

(** the requirement lists are exactly the data flows of the programs: [required] was not tuned to the code *)
Lemma required_is_flows : forall p, same_set (required p) (flows (program p)) = true.
Proof. apply forall_paths. vm_compute. reflexivity. Qed.

Lemma required_is_flows_fixed : forall p, same_set (required p) (flows (program_fixed p)) = true.
Proof. apply forall_paths. vm_compute. reflexivity. Qed.

(** exactly the listed paths are unguarded *)
Lemma guarded_iff_not_known : forall p, guardedb [] (program p) = negb (unguarded_known p).
Proof.
  intro p. apply Bool.eqb_prop.
  apply (forall_paths (fun p => Bool.eqb (guardedb [] (program p)) (negb (unguarded_known p)))). vm_compute. reflexivity.
Qed.

Lemma atomic_iff_not_known : forall p, atomicb (program p) = negb (partial_known p).
Proof.
  intro p. apply Bool.eqb_prop.
  apply (forall_paths (fun p => Bool.eqb (atomicb (program p)) (negb (partial_known p)))). vm_compute. reflexivity.
Qed.

Lemma loud_iff_not_known : forall p, loudb (program p) = negb (silent_known p).
Proof.
  intro p. apply Bool.eqb_prop.
  apply (forall_paths (fun p => Bool.eqb (loudb (program p)) (negb (silent_known p)))). vm_compute. reflexivity.
Qed.

Lemma fixed_all_good : forall p,
  guardedb [] (program_fixed p) && atomicb (program_fixed p) && loudb (program_fixed p) = true.
Proof. apply forall_paths. vm_compute. reflexivity. Qed.

Lemma fixed_only_known : forall p, defect_of p = None -> program_fixed p = program p.
Proof. destruct p; cbn; intro H; try reflexivity; discriminate. Qed.

(** C26 paths_complete (true version): on every path outside the listed classes, whatever the role holds,
    every row read is of a table it holds SELECT on and every row written of a table it holds the matching
    privilege on *)
Theorem paths_complete : forall p, unguarded_known p = false ->
  forall held e, In e (snd (run held (program p))) -> permitted held e = true.
Proof.
  intros p Hk held e He. eapply (guarded_sound held (program p) []); [|intros t a F; destruct F|exact He].
  rewrite guarded_iff_not_known, Hk. reflexivity.
Qed.

(** the full statement is false of the code: the five listed classes, each with a role that holds everything
    the path checks and still touches data it has no privilege on *)
Definition witness_held (p : path) : tbl -> access -> bool :=
  held_of (match p with
           | P_on_duplicate_key_update | P_replace_into | P_insert_or_replace => [(TU, AIns)]
           | _ => [(TM, ASel); (TT, AIns)]
           end).

Definition leaks (p : path) : bool :=
  existsb (fun e => negb (permitted (witness_held p) e)) (snd (run (witness_held p) (program p))) &&
  match fst (run (witness_held p) (program p)) with OOk => true | ODenied => false end.

Definition known_leaks (p : path) : bool := negb (unguarded_known p) || leaks p.

Lemma known_leak : forall p, known_leaks p = true.
Proof. apply forall_paths. vm_compute. reflexivity. Qed.

Theorem paths_complete_refuted : forall p, unguarded_known p = true ->
  exists held e, In e (snd (run held (program p))) /\ permitted held e = false /\ fst (run held (program p)) = OOk.
Proof.
  intros p Hk. pose proof (known_leak p) as H. unfold known_leaks in H. rewrite Hk in H. cbn [negb orb] in H.
  unfold leaks in H. apply andb_true_iff in H as [H1 H2].
  apply existsb_exists in H1 as [e [He Hp]]. exists (witness_held p), e. split; [exact He|]. split.
  - apply negb_true_iff in Hp. exact Hp.
  - destruct (fst (run (witness_held p) (program p))); [reflexivity | discriminate].
Qed.

(** "otherwise it fails": lacking a required privilege the statement is refused - on every path that is
    neither unguarded nor silent *)
Theorem paths_deny : forall p, unguarded_known p = false -> silent_known p = false ->
  forall held t a, In (t, a) (required p) -> held t a = false -> fst (run held (program p)) = ODenied.
Proof.
  intros p Hk Hs held t a Hr Hh. eapply (lacking_is_denied held (program p) [] t a).
  - rewrite guarded_iff_not_known, Hk. reflexivity.
  - rewrite loud_iff_not_known, Hs. reflexivity.
  - intros t' a' F. destruct F.
  - pose proof (required_is_flows p) as H. unfold same_set in H. apply andb_true_iff in H as [H _].
    rewrite forallb_forall in H. apply memp_In. apply H. exact Hr.
  - exact Hh.
Qed.

Theorem paths_deny_refuted : exists p held t a,
  unguarded_known p = false /\ In (t, a) (required p) /\ held t a = false /\ fst (run held (program p)) = OOk.
Proof.
  exists P_window_partition_subquery, (held_of [(TM, ASel)]), TS, ASel. vm_compute. repeat split. right. left. reflexivity.
Qed.

(** "and changes nothing": on every path outside the partial-truncate class a refused statement has written nothing *)
Theorem paths_denied_change_nothing : forall p, partial_known p = false ->
  forall held, fst (run held (program p)) = ODenied -> filter is_change (snd (run held (program p))) = [].
Proof.
  intros p Hk held HD. apply denied_changes_nothing; [|exact HD]. rewrite atomic_iff_not_known, Hk. reflexivity.
Qed.

Theorem paths_denied_change_nothing_refuted : exists p held,
  fst (run held (program p)) = ODenied /\ filter is_change (snd (run held (program p))) <> [].
Proof.
  exists P_truncate_multi_cascade, (held_of [(TU, ADel); (TP, ADel)]). vm_compute. split; [reflexivity | discriminate].
Qed.

(** after the proposed repairs every path is guarded, loud and atomic: the property holds of the whole table *)
Theorem paths_fixed_complete : forall p held,
  (forall e, In e (snd (run held (program_fixed p))) -> permitted held e = true) /\
  (forall t a, In (t, a) (required p) -> held t a = false ->
     fst (run held (program_fixed p)) = ODenied /\ filter is_change (snd (run held (program_fixed p))) = []).
Proof.
  intros p held. pose proof (fixed_all_good p) as H.
  apply andb_true_iff in H as [H HL]. apply andb_true_iff in H as [HG HA]. split.
  - intros e He. eapply (guarded_sound held (program_fixed p) []); [exact HG | intros t a F; destruct F | exact He].
  - intros t a Hr Hh.
    assert (HD : fst (run held (program_fixed p)) = ODenied).
    { eapply (lacking_is_denied held (program_fixed p) [] t a); try eassumption.
      - intros t' a' F. destruct F.
      - pose proof (required_is_flows_fixed p) as H. unfold same_set in H. apply andb_true_iff in H as [H _].
        rewrite forallb_forall in H. apply memp_In. apply H. exact Hr. }
    split; [exact HD | apply denied_changes_nothing; assumption].
Qed.

(** examples: non-trivial instances of the hypotheses *)
Example ex_guarded_path : unguarded_known P_insert_select_subquery = false /\
  run (held_of [(TT, AIns); (TM, ASel)]) (program P_insert_select_subquery) = (ODenied, [ERead TM]).
Proof. vm_compute. split; reflexivity. Qed.

Example ex_bulk_leak :
  run (held_of [(TT, AIns)]) (program P_insert_select_bulk) = (OOk, [ERead TS; EWrite TT AIns]).
Proof. vm_compute. reflexivity. Qed.

Example ex_partial_truncate :
  run (held_of [(TU, ADel); (TP, ADel)]) (program P_truncate_multi_cascade) = (ODenied, [EWrite TU ADel]).
Proof. vm_compute. reflexivity. Qed.
