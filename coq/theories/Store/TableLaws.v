(** C10/C15: laws of the storage-level model (Store/Table.v): key equality, association maps,
    "row i carries key k" ([keyed_at]), uniqueness ([uniq_on]), the specification of a hash
    index ([h_spec]: the map sends k to i iff row i carries k) and its relation to the
    from-scratch rebuild, list update / removal lemmas. *)
From Coq Require Import List ZArith Bool Arith Lia Permutation.
From VibeSQL Require Import Store.Table.
Import ListNotations.

(* ------------------------------------------------------------------------------------ *)
(** * Key equality *)

Lemma val_eqb_eq a b : val_eqb a b = true <-> a = b.
Proof.
  destruct a as [x|], b as [y|]; cbn; try (split; congruence).
  rewrite Z.eqb_eq. split; congruence.
Qed.

Lemma key_eqb_eq a b : key_eqb a b = true <-> a = b.
Proof.
  revert b; induction a as [|x a IH]; intros [|y b]; cbn; try (split; congruence).
  rewrite andb_true_iff, val_eqb_eq, IH. split; [intros [-> ->]; reflexivity | intros E; inversion E; auto].
Qed.

Lemma key_eqb_refl a : key_eqb a a = true.
Proof. apply key_eqb_eq; reflexivity. Qed.

Lemma key_eqb_neq a b : key_eqb a b = false <-> a <> b.
Proof.
  destruct (key_eqb a b) eqn:E.
  - apply key_eqb_eq in E. split; [discriminate | intros H; contradiction].
  - split; [intros _ H; apply key_eqb_eq in H; congruence | reflexivity].
Qed.

Lemma key_eqb_sym a b : key_eqb a b = key_eqb b a.
Proof.
  destruct (key_eqb a b) eqn:E1, (key_eqb b a) eqn:E2; try reflexivity.
  - apply key_eqb_eq in E1; subst. rewrite key_eqb_refl in E2; discriminate.
  - apply key_eqb_eq in E2; subst. rewrite key_eqb_refl in E1; discriminate.
Qed.

Lemma key_eq_dec (a b : key) : {a = b} + {a <> b}.
Proof.
  destruct (key_eqb a b) eqn:E; [left; apply key_eqb_eq; exact E | right; apply key_eqb_neq; exact E].
Qed.

Lemma key_mem_In k l : key_mem k l = true <-> In k l.
Proof.
  unfold key_mem. rewrite existsb_exists. split.
  - intros [x [Hin He]]. apply key_eqb_eq in He; subst; exact Hin.
  - intros H; exists k; split; [exact H | apply key_eqb_refl].
Qed.

(* ------------------------------------------------------------------------------------ *)
(** * Association maps *)

Lemma am_find_remove {V} k k' (m : amap V) :
  am_find k (am_remove k' m) = if key_eqb k k' then None else am_find k m.
Proof.
  induction m as [|[k0 v] m IH]; cbn.
  - destruct (key_eqb k k'); reflexivity.
  - destruct (key_eqb k' k0) eqn:E0.
    + apply key_eqb_eq in E0; subst k0. rewrite IH. destruct (key_eqb k k'); reflexivity.
    + cbn. rewrite IH. destruct (key_eqb k k0) eqn:E1; [|reflexivity].
      apply key_eqb_eq in E1; subst k0. rewrite key_eqb_sym, E0. reflexivity.
Qed.

Lemma am_find_insert {V} k k' (v : V) m :
  am_find k (am_insert k' v m) = if key_eqb k k' then Some v else am_find k m.
Proof.
  unfold am_insert; cbn. rewrite am_find_remove. destruct (key_eqb k k'); reflexivity.
Qed.

Definition am_equiv {V} (m1 m2 : amap V) : Prop := forall k, am_find k m1 = am_find k m2.

Lemma am_equiv_refl {V} (m : amap V) : am_equiv m m.
Proof. intros k; reflexivity. Qed.
Lemma am_equiv_sym {V} (m1 m2 : amap V) : am_equiv m1 m2 -> am_equiv m2 m1.
Proof. intros H k; symmetry; apply H. Qed.
Lemma am_equiv_trans {V} (m1 m2 m3 : amap V) : am_equiv m1 m2 -> am_equiv m2 m3 -> am_equiv m1 m3.
Proof. intros H1 H2 k; rewrite H1; apply H2. Qed.

Lemma am_equiv_insert {V} k (v : V) m1 m2 : am_equiv m1 m2 -> am_equiv (am_insert k v m1) (am_insert k v m2).
Proof. intros H k'. rewrite !am_find_insert, H. reflexivity. Qed.

Lemma am_mem_equiv {V} k (m1 m2 : amap V) : am_equiv m1 m2 -> am_mem k m1 = am_mem k m2.
Proof. intros H; unfold am_mem; rewrite H; reflexivity. Qed.

(* ------------------------------------------------------------------------------------ *)
(** * List update and removal *)

Lemma set_nth_length {A} i (x : A) l : length (set_nth i x l) = length l.
Proof. revert i; induction l as [|y l IH]; intros [|i]; cbn; auto. Qed.

Lemma nth_error_set_nth_eq {A} i (x : A) l : i < length l -> nth_error (set_nth i x l) i = Some x.
Proof. revert i; induction l as [|y l IH]; intros [|i] H; cbn in *; try lia; [reflexivity | apply IH; lia]. Qed.

Lemma nth_error_set_nth_neq {A} i j (x : A) l : i <> j -> nth_error (set_nth i x l) j = nth_error l j.
Proof.
  revert i j; induction l as [|y l IH]; intros [|i] [|j] H; cbn; try reflexivity; try congruence.
  apply IH; congruence.
Qed.

Lemma nth_error_set_nth {A} i j (x : A) l :
  nth_error (set_nth i x l) j = if (i =? j) && (i <? length l) then Some x else nth_error l j.
Proof.
  destruct (Nat.eqb_spec i j) as [->|Hne]; cbn [andb].
  - destruct (Nat.ltb_spec j (length l)).
    + apply nth_error_set_nth_eq; assumption.
    + rewrite (proj2 (nth_error_None l j)) by assumption.
      apply nth_error_None. rewrite set_nth_length; assumption.
  - apply nth_error_set_nth_neq; assumption.
Qed.

Lemma set_nth_same {A} i (x : A) l : nth_error l i = Some x -> set_nth i x l = l.
Proof.
  revert i; induction l as [|y l IH]; intros [|i] H; cbn in *; try congruence.
  f_equal; apply IH; assumption.
Qed.

Lemma nth_set_nth_neq i j (v : val) (r : row) : i <> j -> nth j (set_nth i v r) None = nth j r None.
Proof.
  revert i j; induction r as [|y r IH]; intros [|i] [|j] H; cbn; try reflexivity; try congruence.
  apply IH; congruence.
Qed.

(** rows surviving [remove_at_from]: a subsequence *)
Inductive subseq {A} : list A -> list A -> Prop :=
| sub_nil : subseq [] []
| sub_skip x l1 l2 : subseq l1 l2 -> subseq l1 (x :: l2)
| sub_keep x l1 l2 : subseq l1 l2 -> subseq (x :: l1) (x :: l2).

Lemma subseq_refl {A} (l : list A) : subseq l l.
Proof. induction l; constructor; assumption. Qed.

Lemma subseq_nil {A} (l : list A) : subseq [] l.
Proof. induction l; constructor; assumption. Qed.

Lemma remove_at_subseq n del rows : subseq (remove_at_from n del rows) rows.
Proof.
  revert n; induction rows as [|r rows IH]; intros n; cbn; [constructor|].
  destruct (existsb (Nat.eqb n) del); constructor; apply IH.
Qed.

Lemma subseq_In {A} (l1 l2 : list A) x : subseq l1 l2 -> In x l1 -> In x l2.
Proof. induction 1; cbn; intuition. Qed.

Lemma subseq_Forall {A} (P : A -> Prop) l1 l2 : subseq l1 l2 -> Forall P l2 -> Forall P l1.
Proof. intros Hs Hf. rewrite Forall_forall in *. intros x Hx; apply Hf; eapply subseq_In; eauto. Qed.

Lemma remove_at_nil n rows : remove_at_from n [] rows = rows.
Proof. revert n; induction rows as [|r rows IH]; intros n; cbn; [reflexivity | f_equal; apply IH]. Qed.

(* ------------------------------------------------------------------------------------ *)
(** * "row i carries key k" and uniqueness *)

Definition keyed_at (kf : row -> option key) (rows : list row) (i : nat) (k : key) : Prop :=
  exists r, nth_error rows i = Some r /\ kf r = Some k.

(** no two distinct positions carry the same key *)
Definition uniq_on (kf : row -> option key) (rows : list row) : Prop :=
  forall i j k, keyed_at kf rows i k -> keyed_at kf rows j k -> i = j.

Lemma somes_app kf a b : somes kf (a ++ b) = somes kf a ++ somes kf b.
Proof. unfold somes; apply flat_map_app. Qed.

Lemma In_somes kf rows k : In k (somes kf rows) <-> exists i, keyed_at kf rows i k.
Proof.
  unfold somes. rewrite in_flat_map. split.
  - intros [r [Hin Hk]]. destruct (kf r) as [k'|] eqn:E; cbn in Hk; [|contradiction].
    destruct Hk as [->|[]]. apply In_nth_error in Hin. destruct Hin as [i Hi].
    exists i, r; auto.
  - intros [i [r [Hi Hk]]]. exists r; split; [eapply nth_error_In; eauto | rewrite Hk; left; reflexivity].
Qed.

Lemma keyed_at_cons kf r rows i k :
  keyed_at kf (r :: rows) i k <-> (i = 0 /\ kf r = Some k) \/ (exists i', i = S i' /\ keyed_at kf rows i' k).
Proof.
  unfold keyed_at. destruct i as [|i]; cbn.
  - split.
    + intros [r' [E Hk]]; inversion E; subst; left; auto.
    + intros [[_ Hk]|[i' [E _]]]; [exists r; auto | discriminate].
  - split.
    + intros H; right; exists i; auto.
    + intros [[E _]|[i' [E H]]]; [discriminate | inversion E; subst; exact H].
Qed.

Lemma uniq_on_cons kf r rows :
  uniq_on kf (r :: rows) <-> uniq_on kf rows /\ (forall k, kf r = Some k -> ~ In k (somes kf rows)).
Proof.
  split.
  - intros H; split.
    + intros i j k Hi Hj. assert (S i = S j) as E; [|congruence].
      apply (H (S i) (S j) k); apply keyed_at_cons; right; eauto.
    + intros k Hk Hin. apply In_somes in Hin. destruct Hin as [i Hi].
      assert (0 = S i) as E; [|discriminate].
      apply (H 0 (S i) k); apply keyed_at_cons; [left; auto | right; eauto].
  - intros [Hu Hn] i j k Hi Hj.
    apply keyed_at_cons in Hi. apply keyed_at_cons in Hj.
    destruct Hi as [[-> Hki]|[i' [-> Hi]]], Hj as [[-> Hkj]|[j' [-> Hj]]].
    + reflexivity.
    + exfalso. apply (Hn k Hki). apply In_somes; eauto.
    + exfalso. apply (Hn k Hkj). apply In_somes; eauto.
    + f_equal. eapply Hu; eauto.
Qed.

Lemma uniq_on_NoDup kf rows : uniq_on kf rows <-> NoDup (somes kf rows).
Proof.
  induction rows as [|r rows IH].
  - cbn. split; [constructor | intros _ i j k [r [E _]]; destruct i; discriminate].
  - rewrite uniq_on_cons, IH. cbn [somes flat_map]. fold (somes kf rows).
    destruct (kf r) as [k|] eqn:E; cbn [app].
    + rewrite NoDup_cons_iff. split.
      * intros [Hn Hk]; split; [apply Hk; reflexivity | exact Hn].
      * intros [Hk Hn]; split; [exact Hn | intros k' E'; inversion E'; subst; exact Hk].
    + split; [intros [Hn _]; exact Hn | intros Hn; split; [exact Hn | discriminate]].
Qed.

Lemma somes_subseq kf l1 l2 : subseq l1 l2 -> subseq (somes kf l1) (somes kf l2).
Proof.
  induction 1; cbn [somes flat_map]; [constructor | |].
  - fold (somes kf l1) (somes kf l2). destruct (kf x); cbn; [constructor|]; assumption.
  - fold (somes kf l1) (somes kf l2). destruct (kf x); cbn; [constructor|]; assumption.
Qed.

Lemma subseq_NoDup {A} (l1 l2 : list A) : subseq l1 l2 -> NoDup l2 -> NoDup l1.
Proof.
  induction 1; intros Hn; [constructor | |].
  - inversion Hn; auto.
  - inversion Hn; subst. constructor; [|auto].
    intros Hin; apply H2. eapply subseq_In; eauto.
Qed.

Lemma uniq_on_subseq kf l1 l2 : subseq l1 l2 -> uniq_on kf l2 -> uniq_on kf l1.
Proof.
  intros Hs Hu. apply uniq_on_NoDup. apply uniq_on_NoDup in Hu.
  eapply subseq_NoDup; [apply somes_subseq; exact Hs | exact Hu].
Qed.

Lemma uniq_on_nil kf : uniq_on kf [].
Proof. intros i j k [r [E _]]; destruct i; discriminate. Qed.

Lemma keyed_at_app_last kf rows r i k :
  keyed_at kf (rows ++ [r]) i k <-> keyed_at kf rows i k \/ (i = length rows /\ kf r = Some k).
Proof.
  unfold keyed_at. split.
  - intros [r' [Hn Hk]]. destruct (Nat.lt_ge_cases i (length rows)) as [Hlt|Hge].
    + rewrite nth_error_app1 in Hn by assumption. left; eauto.
    + rewrite nth_error_app2 in Hn by assumption.
      destruct (i - length rows) as [|d] eqn:Ed; cbn in Hn.
      * inversion Hn; subst. right; split; [lia | assumption].
      * destruct d; discriminate.
  - intros [[r' [Hn Hk]]|[-> Hk]].
    + exists r'; split; [|assumption]. rewrite nth_error_app1; [assumption|].
      apply nth_error_Some; congruence.
    + exists r; split; [|assumption]. rewrite nth_error_app2 by lia. rewrite Nat.sub_diag; reflexivity.
Qed.

Lemma keyed_at_lt kf rows i k : keyed_at kf rows i k -> i < length rows.
Proof. intros [r [Hn _]]. apply nth_error_Some; congruence. Qed.

(** appending a row keeps uniqueness iff its key is new *)
Lemma uniq_on_app_last kf rows r :
  uniq_on kf rows -> (forall k, kf r = Some k -> forall i, ~ keyed_at kf rows i k) ->
  uniq_on kf (rows ++ [r]).
Proof.
  intros Hu Hnew i j k Hi Hj.
  apply keyed_at_app_last in Hi. apply keyed_at_app_last in Hj.
  destruct Hi as [Hi|[-> Hki]], Hj as [Hj|[-> Hkj]].
  - eapply Hu; eauto.
  - exfalso; eapply Hnew; eauto.
  - exfalso; eapply Hnew; eauto.
  - reflexivity.
Qed.

Lemma keyed_at_set_nth kf rows i new j k :
  i < length rows ->
  (keyed_at kf (set_nth i new rows) j k <-> (j = i /\ kf new = Some k) \/ (j <> i /\ keyed_at kf rows j k)).
Proof.
  intros Hlt. unfold keyed_at. rewrite nth_error_set_nth.
  destruct (Nat.eqb_spec i j) as [->|Hne]; cbn [andb].
  - apply Nat.ltb_lt in Hlt. rewrite Hlt. split.
    + intros [r [E Hk]]; inversion E; subst; left; auto.
    + intros [[_ Hk]|[Hn _]]; [exists new; auto | congruence].
  - split.
    + intros H; right; split; [congruence | exact H].
    + intros [[-> _]|[_ H]]; [congruence | exact H].
Qed.

(* ------------------------------------------------------------------------------------ *)
(** * Specification of a hash index, and the from-scratch rebuild *)

(** the map sends k to i exactly when row i carries k *)
Definition h_spec (kf : row -> option key) (rows : list row) (m : amap nat) : Prop :=
  forall k i, am_find k m = Some i <-> keyed_at kf rows i k.

Lemma h_rebuild_from_app kf n a b m :
  h_rebuild_from kf n (a ++ b) m = h_rebuild_from kf (n + length a) b (h_rebuild_from kf n a m).
Proof.
  revert n m; induction a as [|r a IH]; intros n m; cbn.
  - rewrite Nat.add_0_r; reflexivity.
  - rewrite IH. f_equal. lia.
Qed.

Lemma h_rebuild_app_last kf rows r :
  h_rebuild kf (rows ++ [r]) = h_insert kf r (length rows) (h_rebuild kf rows).
Proof. unfold h_rebuild. rewrite h_rebuild_from_app. reflexivity. Qed.

(** the rebuild maps k to the LAST position carrying k (HashMap::insert overwrites) *)
Lemma h_rebuild_find_some kf rows k i :
  am_find k (h_rebuild kf rows) = Some i -> keyed_at kf rows i k.
Proof.
  revert i; induction rows as [|r rows IH] using rev_ind; intros i H.
  - discriminate.
  - rewrite h_rebuild_app_last in H. unfold h_insert in H. apply keyed_at_app_last.
    destruct (kf r) as [k'|] eqn:E.
    + rewrite am_find_insert in H. destruct (key_eqb k k') eqn:Ek.
      * apply key_eqb_eq in Ek; subst. inversion H; subst. right; auto.
      * left; apply IH; exact H.
    + left; apply IH; exact H.
Qed.

Lemma h_rebuild_find_none kf rows k :
  am_find k (h_rebuild kf rows) = None -> forall i, ~ keyed_at kf rows i k.
Proof.
  induction rows as [|r rows IH] using rev_ind; intros H i Hi.
  - destruct Hi as [r [E _]]; destruct i; discriminate.
  - rewrite h_rebuild_app_last in H. unfold h_insert in H. apply keyed_at_app_last in Hi.
    destruct (kf r) as [k'|] eqn:E.
    + rewrite am_find_insert in H. destruct (key_eqb k k') eqn:Ek; [discriminate|].
      destruct Hi as [Hi|[_ Hk]]; [eapply IH; eauto|].
      inversion Hk; subst. rewrite key_eqb_refl in Ek; discriminate.
    + destruct Hi as [Hi|[_ Hk]]; [eapply IH; eauto | discriminate].
Qed.

Lemma h_rebuild_spec kf rows : uniq_on kf rows -> h_spec kf rows (h_rebuild kf rows).
Proof.
  intros Hu k i. split; [apply h_rebuild_find_some|].
  intros Hi. destruct (am_find k (h_rebuild kf rows)) as [j|] eqn:E.
  - apply h_rebuild_find_some in E. f_equal. eapply Hu; eauto.
  - exfalso. eapply h_rebuild_find_none; eauto.
Qed.

Lemma h_spec_equiv kf rows m1 m2 : h_spec kf rows m1 -> h_spec kf rows m2 -> am_equiv m1 m2.
Proof.
  intros H1 H2 k. destruct (am_find k m1) as [i|] eqn:E1.
  - symmetry. apply H2. apply H1. exact E1.
  - destruct (am_find k m2) as [j|] eqn:E2; [|reflexivity].
    apply H2 in E2. apply H1 in E2. congruence.
Qed.

Lemma h_spec_of_equiv kf rows m1 m2 : am_equiv m1 m2 -> h_spec kf rows m1 -> h_spec kf rows m2.
Proof. intros He H k i. rewrite <- He. apply H. Qed.

(** mirror <-> spec, under uniqueness *)
Lemma h_mirror_spec kf rows m :
  uniq_on kf rows -> (am_equiv m (h_rebuild kf rows) <-> h_spec kf rows m).
Proof.
  intros Hu. split.
  - intros He. eapply h_spec_of_equiv; [apply am_equiv_sym; exact He | apply h_rebuild_spec; exact Hu].
  - intros Hs. eapply h_spec_equiv; [exact Hs | apply h_rebuild_spec; exact Hu].
Qed.

Lemma h_spec_mem kf rows m k : h_spec kf rows m -> (am_mem k m = true <-> exists i, keyed_at kf rows i k).
Proof.
  intros Hs. unfold am_mem. split.
  - destruct (am_find k m) as [i|] eqn:E; [|discriminate]. intros _. exists i; apply Hs; exact E.
  - intros [i Hi]. apply Hs in Hi. rewrite Hi. reflexivity.
Qed.

Lemma h_spec_nil kf : h_spec kf [] [].
Proof. intros k i. cbn. split; [discriminate | intros [r [E _]]; destruct i; discriminate]. Qed.

(** Table::insert on one map *)
Lemma h_spec_insert kf rows r m :
  h_spec kf rows m -> uniq_on kf (rows ++ [r]) ->
  h_spec kf (rows ++ [r]) (h_insert kf r (length rows) m).
Proof.
  intros Hs Hu k i. rewrite keyed_at_app_last. unfold h_insert.
  destruct (kf r) as [k'|] eqn:E.
  - rewrite am_find_insert. destruct (key_eqb k k') eqn:Ek.
    + apply key_eqb_eq in Ek; subst k'. split.
      * intros H; inversion H; subst. right; auto.
      * intros [Hi|[-> _]]; [|reflexivity].
        f_equal. symmetry. apply (Hu i (length rows) k); apply keyed_at_app_last; [left; exact Hi | right; auto].
    + rewrite (Hs k i). split; [intros H; left; exact H|].
      intros [Hi|[_ Hk]]; [exact Hi|]. inversion Hk; subst. rewrite key_eqb_refl in Ek; discriminate.
  - rewrite (Hs k i). split; [intros H; left; exact H | intros [Hi|[_ Hk]]; [exact Hi | discriminate]].
Qed.

(** one row update on one map.  [m'] is any map that satisfies the lookup equation of
    "remove the old key (if it differs), bind the new key to i". *)
Lemma h_spec_update kf rows i old new m m' :
  h_spec kf rows m -> nth_error rows i = Some old ->
  uniq_on kf rows -> uniq_on kf (set_nth i new rows) ->
  (forall k, am_find k m' =
             if match kf new with Some kn => key_eqb k kn | None => false end then Some i
             else if match kf old with Some ko => key_eqb k ko | None => false end then None
                  else am_find k m) ->
  h_spec kf (set_nth i new rows) m'.
Proof.
  intros Hs Hold Hu Hu' Hm' k j.
  assert (Hlt : i < length rows) by (apply nth_error_Some; congruence).
  rewrite keyed_at_set_nth by assumption. rewrite Hm'.
  destruct (kf new) as [kn|] eqn:En.
  - destruct (key_eqb k kn) eqn:Ekn.
    + apply key_eqb_eq in Ekn; subst kn. split.
      * intros H; inversion H; subst. left; auto.
      * intros [[-> _]|[Hne Hj]]; [reflexivity|]. exfalso. apply Hne.
        apply (Hu' j i k); apply keyed_at_set_nth; auto.
    + destruct (kf old) as [ko|] eqn:Eo.
      * destruct (key_eqb k ko) eqn:Eko.
        -- apply key_eqb_eq in Eko; subst ko. split; [discriminate|].
           intros [[_ Hk]|[Hne Hj]]; [inversion Hk; subst; rewrite key_eqb_refl in Ekn; discriminate|].
           exfalso. apply Hne. apply (Hu j i k); [exact Hj | exists old; auto].
        -- rewrite (Hs k j). split.
           ++ intros Hj. right; split; [|exact Hj]. intros ->.
              destruct Hj as [r [Hr Hk]]. rewrite Hold in Hr; inversion Hr; subst r.
              rewrite Eo in Hk; inversion Hk; subst. rewrite key_eqb_refl in Eko; discriminate.
           ++ intros [[_ Hk]|[_ Hj]]; [inversion Hk; subst; rewrite key_eqb_refl in Ekn; discriminate | exact Hj].
      * rewrite (Hs k j). split.
        -- intros Hj. right; split; [|exact Hj]. intros ->.
           destruct Hj as [r [Hr Hk]]. rewrite Hold in Hr; inversion Hr; subst r. congruence.
        -- intros [[_ Hk]|[_ Hj]]; [inversion Hk; subst; rewrite key_eqb_refl in Ekn; discriminate | exact Hj].
  - destruct (kf old) as [ko|] eqn:Eo.
    + destruct (key_eqb k ko) eqn:Eko.
      * apply key_eqb_eq in Eko; subst ko. split; [discriminate|].
        intros [[_ Hk]|[Hne Hj]]; [discriminate|].
        exfalso. apply Hne. apply (Hu j i k); [exact Hj | exists old; auto].
      * rewrite (Hs k j). split.
        -- intros Hj. right; split; [|exact Hj]. intros ->.
           destruct Hj as [r [Hr Hk]]. rewrite Hold in Hr; inversion Hr; subst r.
           rewrite Eo in Hk; inversion Hk; subst. rewrite key_eqb_refl in Eko; discriminate.
        -- intros [[_ Hk]|[_ Hj]]; [discriminate | exact Hj].
    + rewrite (Hs k j). split.
      * intros Hj. right; split; [|exact Hj]. intros ->.
        destruct Hj as [r [Hr Hk]]. rewrite Hold in Hr; inversion Hr; subst r. congruence.
      * intros [[_ Hk]|[_ Hj]]; [discriminate | exact Hj].
Qed.

(** the lookup equations of the two Rust update routines *)
Lemma pk_upd_find cols old new i m k :
  am_find (proj cols old) m = Some i ->
  am_find k (pk_upd cols old new i m) =
    if key_eqb k (proj cols new) then Some i
    else if key_eqb k (proj cols old) then None else am_find k m.
Proof.
  intros Hold. unfold pk_upd. destruct (key_eqb (proj cols old) (proj cols new)) eqn:E.
  - apply key_eqb_eq in E. rewrite <- E. destruct (key_eqb k (proj cols old)) eqn:Ek; [|reflexivity].
    apply key_eqb_eq in Ek; subst k. exact Hold.
  - rewrite am_find_insert, am_find_remove. reflexivity.
Qed.

Lemma uq_upd_find cols old new i m k :
  am_find k (uq_upd cols old new i m) =
    if match uq_kf cols new with Some kn => key_eqb k kn | None => false end then Some i
    else if match uq_kf cols old with Some ko => key_eqb k ko | None => false end then None
         else am_find k m.
Proof.
  unfold uq_upd, uq_kf.
  set (ko := proj cols old) in *. set (kn := proj cols new) in *.
  destruct (has_null kn) eqn:Nn, (has_null ko) eqn:No, (key_eqb ko kn) eqn:E; cbn [negb andb];
    rewrite ?am_find_insert, ?am_find_remove;
    try (apply key_eqb_eq in E; try congruence; rewrite <- E);
    destruct (key_eqb k ko) eqn:Ek; try reflexivity;
    try (destruct (key_eqb k kn) eqn:Ek'; reflexivity).
Qed.
