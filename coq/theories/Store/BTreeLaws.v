(** C17 -- refinement proofs for the B+ tree model (Store/BTree.v): well-formedness [wf], the
    abstraction [abs] to a sorted association list, and for every operation "the answer is the
    ordered multimap's answer and well-formedness is kept". *)
From Coq Require Import List ZArith Bool Arith Lia Sorted.
From VibeSQL Require Import Store.BTree Store.BTreeLemmas.
Import ListNotations.
Local Open Scope nat_scope.
Arguments seg : simpl never.
Arguments Nat.div : simpl never.

(** * Well-formedness
    [wf m h lo hi t]: [t] has uniform depth [h], every leaf is a strictly sorted segment with non-empty
    row-id lists, separators are strictly increasing and bound their subtrees ([wfc]), all keys lie
    in [lo, hi), and every internal node has at least [m] keys ([m] = 1: no single-child internal
    node -- needed by delete; [m] = 0: what bulk_load guarantees). *)
Fixpoint wf (m : nat) (h : nat) (lo hi : bound) (t : node) : Prop :=
  match h with
  | O => False
  | S h' =>
    match t with
    | Leaf es => h' = 0 /\ seg lo hi es
    | Node ks cs => h' <> 0 /\ m <= length ks /\ wfc (wf m h') lo hi ks cs
    end
  end.

Lemma wf_node_unfold m h lo hi ks cs :
  wf m (S h) lo hi (Node ks cs) = (h <> 0 /\ m <= length ks /\ wfc (wf m h) lo hi ks cs).
Proof. reflexivity. Qed.
Lemma wf_leaf_unfold m h lo hi es : wf m (S h) lo hi (Leaf es) = (h = 0 /\ seg lo hi es).
Proof. reflexivity. Qed.

Definition WF (m : nat) (t : tree) : Prop := 1 <= height t /\ wf m (height t) None None (root t).

Lemma wf_seg m : forall h lo hi t, wf m h lo hi t -> seg lo hi (abs t).
Proof.
  induction h as [|h IH]; intros lo hi [es|ks cs] H; cbn in H; try tauto.
  destruct H as (_ & _ & H). cbn [abs]. eapply wfc_seg; eauto.
Qed.

Lemma wf_mono m h lo hi t : wf m h lo hi t -> wf 0 h lo hi t.
Proof.
  revert lo hi t. induction h as [|h IH]; intros lo hi [es|ks cs] H; cbn in *; try tauto.
  destruct H as (A & _ & C). repeat split; auto; [lia|]. eapply wfc_impl; eauto.
Qed.

Lemma flat_map_split (cs : list node) i c : nth_error cs i = Some c ->
  flat_map abs cs = flat_map abs (firstn i cs) ++ abs c ++ flat_map abs (skipn (S i) cs).
Proof.
  intros H. rewrite (firstn_skipn_nth cs i c H) at 1. rewrite flat_map_app'. reflexivity.
Qed.

Lemma div2_facts n : 2 * (n / 2) <= n /\ n < 2 * (n / 2) + 2.
Proof.
  pose proof (Nat.div_mod n 2 ltac:(lia)). pose proof (Nat.mod_upper_bound n 2 ltac:(lia)). lia.
Qed.

(** ** lookup *)
Lemma find_leaf_spec m k : forall h lo hi t, wf m h lo hi t -> inb lo hi k ->
  exists es, find_leaf h t k = Ok es /\ leaf_search es k = leaf_search (abs t) k.
Proof.
  induction h as [|h IH]; intros lo hi t H Hk; [contradiction|].
  destruct h as [|h'].
  - destruct t as [es|ks cs]; cbn in H; [|tauto]. exists es. cbn. auto.
  - destruct t as [es|ks cs]; [destruct H; discriminate|]. rewrite wf_node_unfold in H.
    destruct H as (_ & _ & H).
    destruct (wfc_at _ ks cs lo hi (fci ks k) H (fci_le ks k)) as (c & Hn & Hw & _).
    pose proof (wfc_route _ ks cs lo hi k H Hk) as Hr.
    destruct (IH _ _ c Hw Hr) as (es & He & Hs).
    exists es. split.
    + change (find_leaf (S (S h')) (Node ks cs) k) with
        (match nth_error cs (fci ks k) with None => Err Panic | Some c => find_leaf (S h') c k end).
      now rewrite Hn.
    + rewrite Hs. cbn [abs]. rewrite (flat_map_split cs _ c Hn).
      rewrite leaf_search_app_l, leaf_search_app_r; auto.
      * exact (wfc_suffix_kgt _ (wf_seg m (S h')) ks cs lo hi _ k H (fci_le ks k) (proj2 Hr)).
      * exact (wfc_prefix_klt _ (wf_seg m (S h')) ks cs lo hi _ k H (fci_le ks k) (proj1 Hr)).
Qed.

Theorem lookup_spec m t k : WF m t -> lookup t k = Ok (mm_lookup (abs (root t)) k).
Proof.
  intros [_ H]. unfold lookup.
  destruct (find_leaf_spec m k _ _ _ _ H) as (es & He & Hs); [split; exact I|].
  rewrite He. cbn. now rewrite Hs.
Qed.

Theorem multi_lookup_spec m t ks : WF m t ->
  multi_lookup t ks = Ok (flat_map (mm_lookup (abs (root t))) ks).
Proof.
  intros H. induction ks as [|k ks IH]; cbn; auto.
  rewrite (lookup_spec m t k H), IH. reflexivity.
Qed.


Section Laws.
  Variable d : nat.
  Variable ksz : key -> Z.
  Hypothesis d_ge : 4 <= d.

  Lemma half_ge : 2 <= half d.
  Proof. unfold half. pose proof (div2_facts d). lia. Qed.

  Lemma write_leaf_cases es : write_leaf ksz es = Ok (Leaf es) \/ write_leaf ksz es = Err PageOverflow.
  Proof. unfold write_leaf. destruct (fits_leaf ksz es); auto. Qed.
  Lemma write_node_cases ks cs : write_node ksz ks cs = Ok (Node ks cs) \/ write_node ksz ks cs = Err PageOverflow.
  Proof. unfold write_node. destruct (fits_node ksz ks cs); auto. Qed.

  Ltac wl := match goal with |- context [write_leaf _ ?x] =>
    destruct (write_leaf_cases x) as [-> | ->]; cbn [bind]; [|reflexivity] end.
  Ltac wn := match goal with |- context [write_node _ ?x ?y] =>
    destruct (write_node_cases x y) as [-> | ->]; cbn [bind]; [|reflexivity] end.

  (** ** insert *)
  Lemma ins_nth_set_nth {A} : forall (l : list A) i x y, i < length l ->
    ins_nth (S i) y (set_nth i x l) = firstn i l ++ x :: y :: skipn (S i) l.
  Proof.
    induction l as [|a l IH]; intros [|i] x y H; cbn in H; try lia; try reflexivity.
    rewrite set_nth_cons. unfold ins_nth. cbn [firstn skipn app]. f_equal. apply IH. lia.
  Qed.

  Lemma seg_nonempty_lo lo k e es : seg lo (Some k) (e :: es) -> lo_lt lo k.
  Proof.
    intros (_ & B & _). cbn in B. inversion B as [|? ? [H1 H2] _]; subst. cbn in H2.
    eapply lo_le_lt_trans; eauto.
  Qed.

  Definition ins_post (m h : nat) (lo hi : bound) (t : node) (k : key) (r : rowid) (res : result ins_res) : Prop :=
    match res with
    | Err e => e = PageOverflow
    | Ok (InsOne t') => wf m h lo hi t' /\ abs t' = leaf_insert (abs t) k r
    | Ok (InsSplit l sk rr) =>
      lo_lt lo sk /\ lt_hi sk hi /\ wf m h lo (Some sk) l /\ wf m h (Some sk) hi rr /\
      abs l ++ abs rr = leaf_insert (abs t) k r
    end.

  Lemma ins_leaf_spec m lo hi es k r : seg lo hi es -> inb lo hi k ->
    ins_post m 1 lo hi (Leaf es) k r (ins d ksz 1 (Leaf es) k r).
  Proof.
    intros Hs Hk. cbn [ins].
    pose proof (seg_insert lo hi es k r Hs Hk) as Hs'.
    set (es' := leaf_insert es k r) in *.
    destruct (d <=? length es') eqn:Ef.
    - apply Nat.leb_le in Ef. unfold leaf_split.
      pose proof (div2_facts (length es')) as [D1 D2].
      set (mid := length es' / 2) in *.
      destruct (skipn mid es') as [|[sk srs] rr] eqn:Er.
      { assert (length (skipn mid es') = 0) by now rewrite Er. rewrite skipn_length in H. lia. }
      cbn [bind].
      pose proof (firstn_skipn mid es') as Hsplit. rewrite Er in Hsplit. symmetry in Hsplit.
      rewrite Hsplit in Hs'. apply seg_split in Hs' as (Sl & Sr & Hin).
      wl.
      wl.
      cbn [ins_post wf abs].
      split; [|split; [apply Hin|split; [split; [reflexivity|exact Sl]|split; [split; [reflexivity|exact Sr]|symmetry; exact Hsplit]]]].
      destruct (firstn mid es') as [|e l] eqn:El.
      { assert (length (firstn mid es') = 0) by now rewrite El. rewrite firstn_length in H. lia. }
      eapply seg_nonempty_lo; eauto.
    - wl.
      cbn [ins_post wf abs]. tauto.
  Qed.

  Lemma ins_node_unfold h ks cs k r :
    ins d ksz (S (S h)) (Node ks cs) k r =
    let i := fci ks k in
    match nth_error cs i with
    | None => Err Panic
    | Some c =>
      bind (ins d ksz (S h) c k r) (fun res =>
      match res with
      | InsOne c' => Ok (InsOne (Node ks (set_nth i c' cs)))
      | InsSplit c1 sk c2 =>
        let p := lower_bound ks sk in
        let ks' := ins_nth p sk ks in
        let cs' := ins_nth (S p) c2 (set_nth i c1 cs) in
        if d <=? length cs' then
          bind (node_split ks' cs') (fun '((lk, lc), mk, (rk, rc)) =>
          bind (write_node ksz lk lc) (fun ln =>
          bind (write_node ksz rk rc) (fun rn => Ok (InsSplit ln mk rn))))
        else bind (write_node ksz ks' cs') (fun n => Ok (InsOne n))
      end)
    end.
  Proof. reflexivity. Qed.

  Lemma ins_spec m k r : m <= 1 -> forall h lo hi t, wf m h lo hi t -> inb lo hi k ->
    ins_post m h lo hi t k r (ins d ksz h t k r).
  Proof.
    intros Hm. induction h as [|h IH]; intros lo hi t H Hk; [contradiction|].
    destruct h as [|h'].
    - destruct t as [es|ks cs]; cbn in H; [|tauto]. apply ins_leaf_spec; tauto.
    - destruct t as [es|ks cs]; [destruct H; discriminate|]. rewrite wf_node_unfold in H.
      destruct H as (Hh & Hmk & H).
      rewrite ins_node_unfold. cbv zeta.
      pose proof (fci_le ks k) as Hi. set (i := fci ks k) in *.
      destruct (wfc_at _ ks cs lo hi i H Hi) as (c & Hn & Hw & Hr).
      pose proof (wfc_route _ ks cs lo hi k H Hk) as Hrt. fold i in Hrt.
      pose proof (wfc_length _ _ _ _ _ H) as Hlen.
      assert (Hil : i < length cs) by lia.
      rewrite Hn. specialize (IH _ _ c Hw Hrt).
      assert (Hl : klt k (flat_map abs (firstn i cs))).
      { exact (wfc_prefix_klt _ (wf_seg m (S h')) ks cs lo hi i k H Hi (proj1 Hrt)). }
      assert (Hg : kgt k (flat_map abs (skipn (S i) cs))).
      { exact (wfc_suffix_kgt _ (wf_seg m (S h')) ks cs lo hi i k H Hi (proj2 Hrt)). }
      assert (Habs : leaf_insert (abs (Node ks cs)) k r =
                     flat_map abs (firstn i cs) ++ leaf_insert (abs c) k r ++ flat_map abs (skipn (S i) cs)).
      { cbn [abs]. rewrite (flat_map_split cs i c Hn). rewrite leaf_insert_app_l by auto.
        now rewrite leaf_insert_app_r by auto. }
      destruct (ins d ksz (S h') c k r) as [[c'|c1 sk c2]|e]; cbn [bind]; cbn in IH.
      + (* no split below *)
        destruct IH as (Hw' & Ha'). split.
        * rewrite wf_node_unfold. repeat split; auto.
          specialize (Hr [] [c'] Hw'). cbn [app] in Hr. rewrite firstn_skipn in Hr. exact Hr.
        * rewrite Habs, <- Ha'. cbn [abs]. unfold set_nth. rewrite flat_map_app'. cbn. now rewrite app_nil_r || reflexivity.
      + (* the child split *)
        destruct IH as (Hlo & Hhi & Hw1 & Hw2 & Ha').
        rewrite (wfc_lower_bound _ ks cs lo hi i sk H Hi Hlo Hhi).
        rewrite ins_nth_set_nth by exact Hil. unfold ins_nth.
        set (ks' := firstn i ks ++ sk :: skipn i ks).
        set (cs' := firstn i cs ++ c1 :: c2 :: skipn (S i) cs).
        assert (Hw' : wfc (wf m (S h')) lo hi ks' cs').
        { apply (Hr [sk] [c1; c2]). cbn. tauto. }
        assert (Ha2 : flat_map abs cs' = leaf_insert (abs (Node ks cs)) k r).
        { rewrite Habs, <- Ha'. unfold cs'. rewrite flat_map_app'. cbn [flat_map]. now rewrite <- !app_assoc. }
        pose proof (wfc_length _ _ _ _ _ Hw') as Hlen'.
        assert (Hlk : length ks' = S (length ks)).
        { unfold ks'. rewrite app_length. cbn [length]. rewrite firstn_length, skipn_length. lia. }
        destruct (d <=? length cs') eqn:Ef.
        * apply Nat.leb_le in Ef. unfold node_split.
          pose proof (div2_facts (length ks')) as [D1 D2]. set (mid := length ks' / 2) in *.
          destruct (nth_error_Some_ex ks' mid ltac:(lia)) as (mk & Hmk'). rewrite Hmk'.
          destruct (S mid <=? length cs') eqn:E2; [|apply Nat.leb_gt in E2; lia].
          cbn [bind].
          pose proof (firstn_skipn_nth ks' mid mk Hmk') as Hks.
          assert (Hcs : cs' = firstn (S mid) cs' ++ skipn (S mid) cs') by now rewrite firstn_skipn.
          rewrite Hks, Hcs in Hw'. apply wfc_app_inv in Hw' as (A1 & A2 & A3 & A4).
          2:{ rewrite !firstn_length. lia. }
          wn.
          wn.
          cbn [ins_post]. split; [exact A1|]. split; [exact A2|].
          split; [|split].
          -- rewrite wf_node_unfold. split; [lia|]. split; [rewrite firstn_length; lia|exact A3].
          -- rewrite wf_node_unfold. split; [lia|]. split; [rewrite skipn_length; lia|exact A4].
          -- cbn [abs]. rewrite <- flat_map_app', <- Hcs. exact Ha2.
        * wn.
          cbn [ins_post]. split; [|exact Ha2]. rewrite wf_node_unfold. split; [lia|]. split; [lia|exact Hw'].
      + exact IH.
  Qed.

  Theorem insert_refines m t k r : m <= 1 -> WF m t ->
    match insert d ksz t k r with
    | Err e => e = PageOverflow
    | Ok t' => WF m t' /\ abs (root t') = mm_insert (abs (root t)) k r
    end.
  Proof.
    intros Hm [Hh H]. unfold insert.
    pose proof (ins_spec m k r Hm _ _ _ _ H (conj I I)) as P.
    destruct (ins d ksz (height t) (root t) k r) as [[n|l sk rr]|e]; cbn [bind]; cbn in P; auto.
    - destruct P as [P1 P2]. split; auto. split; auto.
    - destruct P as (_ & _ & P1 & P2 & P3).
      wn.
      split; [|exact P3 || (cbn; rewrite app_nil_r; exact P3)].
      split; cbn [height root]; [lia|]. cbn. repeat split; auto; lia.
  Qed.
End Laws.

(** * range_scan *)
Definition start_ok (s : option key) (is : bool) (k : key) : bool :=
  match s with None => true | Some st => (st <? k)%Z || ((k =? st)%Z && is) end.
Definition end_ok (e : option key) (ie : bool) (k : key) : bool :=
  match e with None => true | Some en => (k <? en)%Z || ((k =? en)%Z && ie) end.

Lemma in_range_split s e is ie k : in_range s e is ie k = start_ok s is k && end_ok e ie k.
Proof. reflexivity. Qed.

Lemma past_end_ok (e : option key) ie (k : key) :
  match e with Some en => (en <? k)%Z || ((k =? en)%Z && negb ie) | None => false end = negb (end_ok e ie k).
Proof.
  destruct e as [en|]; cbn; auto.
  destruct (en <? k)%Z eqn:A, (k <? en)%Z eqn:B, (k =? en)%Z eqn:C, ie; cbn; auto;
    try apply Z.ltb_lt in A; try apply Z.ltb_lt in B; try apply Z.eqb_eq in C;
    try apply Z.ltb_ge in A; try apply Z.ltb_ge in B; try apply Z.eqb_neq in C; lia.
Qed.

Lemma before_start_ok (st : key) is (k : key) :
  (k <? st)%Z || ((k =? st)%Z && negb is) = negb (start_ok (Some st) is k).
Proof.
  cbn. destruct (st <? k)%Z eqn:A, (k <? st)%Z eqn:B, (k =? st)%Z eqn:C, is; cbn; auto;
    try apply Z.ltb_lt in A; try apply Z.ltb_lt in B; try apply Z.eqb_eq in C;
    try apply Z.ltb_ge in A; try apply Z.ltb_ge in B; try apply Z.eqb_neq in C; lia.
Qed.

Lemma end_ok_mono e ie k k' : (k < k')%Z -> end_ok e ie k = false -> end_ok e ie k' = false.
Proof.
  destruct e as [en|]; cbn; auto. intros H.
  destruct (k <? en)%Z eqn:A, (k =? en)%Z eqn:C, (k' <? en)%Z eqn:A', (k' =? en)%Z eqn:C', ie; cbn; auto;
    try apply Z.ltb_lt in A; try apply Z.ltb_lt in A'; try apply Z.eqb_eq in C; try apply Z.eqb_eq in C';
    try apply Z.ltb_ge in A; try apply Z.ltb_ge in A'; try apply Z.eqb_neq in C; try apply Z.eqb_neq in C';
    try lia; try discriminate.
Qed.

Lemma start_ok_mono s is k k' : (k < k')%Z -> start_ok s is k = true -> start_ok s is k' = true.
Proof.
  destruct s as [st|]; cbn; auto. intros H.
  destruct (st <? k)%Z eqn:A, (k =? st)%Z eqn:C, (st <? k')%Z eqn:A', (k' =? st)%Z eqn:C', is; cbn; auto;
    try apply Z.ltb_lt in A; try apply Z.ltb_lt in A'; try apply Z.eqb_eq in C; try apply Z.eqb_eq in C';
    try apply Z.ltb_ge in A; try apply Z.ltb_ge in A'; try apply Z.eqb_neq in C; try apply Z.eqb_neq in C';
    try lia; try discriminate.
Qed.

Lemma range_all_past s e is ie k es :
  Forall (fun x => (k < x)%Z) (keys es) -> end_ok e ie k = false -> mm_range es s e is ie = [].
Proof.
  unfold mm_range. induction es as [|[k' rs] es IH]; cbn; intros H He; auto.
  inversion H; subst. cbn in H2. rewrite in_range_split, (end_ok_mono e ie k k' H2 He), andb_false_r.
  now apply IH.
Qed.

(** the scan loop computes the range filter on a strictly sorted list *)
Lemma scan_started s e is ie : forall es, StronglySorted Z.lt (keys es) ->
  Forall (fun x => start_ok s is x = true) (keys es) ->
  scan es s e is ie true = mm_range es s e is ie.
Proof.
  induction es as [|[k rs] es IH]; intros Hs Hst; [reflexivity|].
  cbn in Hs, Hst. inversion Hs; subst. inversion Hst; subst.
  cbn [scan]. rewrite past_end_ok. unfold mm_range. cbn [filter fst]. rewrite in_range_split, H3.
  destruct (end_ok e ie k) eqn:Ee; cbn [negb andb].
  - cbn [flat_map snd]. f_equal. now apply IH.
  - symmetry. apply (range_all_past s e is ie k es); auto.
Qed.

Lemma scan_unstarted st e is ie : forall es, StronglySorted Z.lt (keys es) ->
  scan es (Some st) e is ie false = mm_range es (Some st) e is ie.
Proof.
  induction es as [|[k rs] es IH]; intros Hs; [reflexivity|].
  cbn in Hs. inversion Hs; subst.
  cbn [scan]. rewrite past_end_ok, before_start_ok. unfold mm_range. cbn [filter fst]. rewrite in_range_split.
  destruct (end_ok e ie k) eqn:Ee; cbn [negb].
  - destruct (start_ok (Some st) is k) eqn:Es; cbn [negb andb].
    + cbn [flat_map snd]. f_equal. rewrite scan_started; auto.
      eapply Forall_impl; [|exact H2]. cbn beta. intros x Hx. eapply start_ok_mono; eauto.
    + now apply IH.
  - rewrite andb_false_r. symmetry. apply (range_all_past (Some st) e is ie k es); auto.
Qed.

Lemma range_skip_prefix st e is ie pre es : klt st pre ->
  mm_range (pre ++ es) (Some st) e is ie = mm_range es (Some st) e is ie.
Proof.
  unfold mm_range. induction pre as [|[k rs] pre IH]; cbn; intros H; auto.
  inversion H; subst. cbn in H2. rewrite in_range_split.
  assert (start_ok (Some st) is k = false) as ->.
  { cbn. destruct (st <? k)%Z eqn:A; [apply Z.ltb_lt in A; lia|].
    destruct (k =? st)%Z eqn:C; [apply Z.eqb_eq in C; lia|]. reflexivity. }
  cbn. now apply IH.
Qed.

(** general induction principle for the nested type [node] *)
Fixpoint node_ind' (P : node -> Prop) (Hl : forall es, P (Leaf es))
  (Hn : forall ks cs, Forall P cs -> P (Node ks cs)) (t : node) : P t :=
  match t with
  | Leaf es => Hl es
  | Node ks cs =>
    Hn ks cs ((fix go (l : list node) : Forall P l :=
                 match l with
                 | [] => Forall_nil P
                 | c :: r => Forall_cons c (node_ind' P Hl Hn c) (go r)
                 end) cs)
  end.

Lemma concat_leaves : forall t, concat (leaves t) = abs t.
Proof.
  apply node_ind'; intros.
  - cbn. now rewrite app_nil_r.
  - cbn. induction H as [|c cs Hc _ IH]; cbn; auto. now rewrite concat_app, Hc, IH.
Qed.

Lemma concat_flat_leaves cs : concat (flat_map leaves cs) = flat_map abs cs.
Proof. induction cs; cbn; auto. now rewrite concat_app, concat_leaves, IHcs. Qed.

Lemma leaves_from_spec m st : forall h lo hi t, wf m h lo hi t -> inb lo hi st ->
  exists ls pre, leaves_from h t st = Ok ls /\ abs t = pre ++ concat ls /\ klt st pre.
Proof.
  induction h as [|h IH]; intros lo hi t H Hk; [contradiction|].
  destruct h as [|h'].
  - destruct t as [es|ks cs]; cbn in H; [|tauto]. exists [es], []. cbn. rewrite app_nil_r.
    repeat split; auto. constructor.
  - destruct t as [es|ks cs]; [destruct H; discriminate|]. rewrite wf_node_unfold in H.
    destruct H as (_ & _ & H).
    destruct (wfc_at _ ks cs lo hi (fci ks st) H (fci_le ks st)) as (c & Hn & Hw & _).
    pose proof (wfc_route _ ks cs lo hi st H Hk) as Hr.
    destruct (IH _ _ c Hw Hr) as (ls & pre & He & Ha & Hp).
    exists (ls ++ flat_map leaves (skipn (S (fci ks st)) cs)), (flat_map abs (firstn (fci ks st) cs) ++ pre).
    split; [|split].
    + change (leaves_from (S (S h')) (Node ks cs) st) with
        (match nth_error cs (fci ks st) with
         | None => Err Panic
         | Some c => bind (leaves_from (S h') c st)
                       (fun l => Ok (l ++ flat_map leaves (skipn (S (fci ks st)) cs)))
         end).
      rewrite Hn, He. reflexivity.
    + cbn [abs]. rewrite (flat_map_split cs _ c Hn), Ha, concat_app, concat_flat_leaves.
      now rewrite <- !app_assoc.
    + apply klt_app; auto.
      exact (wfc_prefix_klt _ (wf_seg m (S h')) ks cs lo hi _ st H (fci_le ks st) (proj1 Hr)).
Qed.

Lemma leaves_leftmost_spec m : forall h lo hi t, wf m h lo hi t ->
  exists ls, leaves_leftmost h t = Ok ls /\ concat ls = abs t.
Proof.
  induction h as [|h IH]; intros lo hi t H; [contradiction|].
  destruct h as [|h'].
  - destruct t as [es|ks cs]; cbn in H; [|tauto]. exists [es]. cbn. now rewrite app_nil_r.
  - destruct t as [es|ks cs]; [destruct H; discriminate|]. rewrite wf_node_unfold in H.
    destruct H as (_ & _ & H).
    destruct (wfc_at _ ks cs lo hi 0 H ltac:(lia)) as (c & Hn & Hw & _).
    destruct cs as [|c0 rest]; [discriminate|]. cbn in Hn. inversion Hn; subst c0.
    destruct (IH _ _ c Hw) as (ls & He & Ha).
    exists (ls ++ flat_map leaves rest). split.
    + change (leaves_leftmost (S (S h')) (Node ks (c :: rest))) with
        (bind (leaves_leftmost (S h') c) (fun l => Ok (l ++ flat_map leaves rest))).
      rewrite He. reflexivity.
    + cbn [abs flat_map]. now rewrite concat_app, Ha, concat_flat_leaves.
Qed.

Theorem range_scan_spec m t s e is ie : WF m t ->
  range_scan t s e is ie = Ok (mm_range (abs (root t)) s e is ie).
Proof.
  intros [_ H]. unfold range_scan. pose proof (wf_seg m _ _ _ _ H) as (Hs & _ & _).
  destruct s as [st|].
  - destruct (leaves_from_spec m st _ _ _ _ H (conj I I)) as (ls & pre & He & Ha & Hp).
    rewrite He. cbn [bind]. f_equal. rewrite Ha in *. rewrite range_skip_prefix by auto.
    apply scan_unstarted. rewrite keys_app in Hs. apply sorted_app_inv in Hs. tauto.
  - destruct (leaves_leftmost_spec m _ _ _ _ H) as (ls & He & Ha).
    rewrite He. cbn [bind]. f_equal. rewrite Ha. apply scan_started; auto.
    apply Forall_forall. reflexivity.
Qed.
