(** Laws of the repaired GRANT ([Store.PrivFixed]): a session of a non-administrator role that holds no grant
    option on an object cannot make anybody's privileges on that object grow. *)
From Coq Require Import List Bool String Arith Lia.
From VibeSQL Require Import Store.Priv Store.PrivLaws Store.PrivFixed.
Import ListNotations.
Open Scope string_scope.

(** every grant of [G'] that carries the grant option is a grant of [G] *)
Definition wgo_sub (G' G : list grant) : Prop := forall g, In g G' -> g_wgo g = true -> In g G.

Lemma wgo_sub_refl : forall G, wgo_sub G G.
Proof. intros G g H _. exact H. Qed.

Lemma wgo_sub_trans : forall A B C, wgo_sub A B -> wgo_sub B C -> wgo_sub A C.
Proof. intros A B C H1 H2 g Hg Hw. apply H2; [apply H1; assumption | exact Hw]. Qed.

Lemma remove_wgo_sub : forall obj ge p gof G, wgo_sub (remove_grants obj ge p gof G) G.
Proof.
  intros obj ge p gof G g Hg Hw. unfold remove_grants in Hg. destruct gof.
  - apply in_map_iff in Hg as [g0 [E Hg0]]. destruct (matches obj ge p g0).
    + subst g. cbn in Hw. discriminate.
    + subst g. exact Hg0.
  - apply filter_In in Hg. tauto.
Qed.

Lemma fold_visit_wgo_sub : forall obj p gof (casc : list grant -> list string -> string -> option cstate),
  (forall G V x st, casc G V x = Some st -> wgo_sub (fst st) G) ->
  forall ds st0 st, fold_opt (visit_then casc obj p gof) ds st0 = Some st -> wgo_sub (fst st) (fst st0).
Proof.
  intros obj p gof casc IHc. induction ds as [|d ds IH]; intros st0 st H.
  - cbn in H. inversion H. apply wgo_sub_refl.
  - cbn [fold_opt] in H. unfold visit_then in H at 1. destruct (mem d (snd st0)).
    + apply IH. exact H.
    + destruct (casc (remove_grants obj d p gof (fst st0)) (d :: snd st0) d) as [st1|] eqn:E1; [|discriminate].
      apply IHc in E1. apply IH in H.
      eapply wgo_sub_trans; [exact H|]. eapply wgo_sub_trans; [exact E1 | apply remove_wgo_sub].
Qed.

Lemma cascade_wgo_sub : forall obj p gof fuel G V x st,
  revoke_cascade fuel obj p gof G V x = Some st -> wgo_sub (fst st) G.
Proof.
  intros obj p gof. induction fuel as [|f IH]; intros G V x st H; [discriminate|].
  cbn [revoke_cascade] in H. apply (fold_visit_wgo_sub obj p gof _ IH) in H. exact H.
Qed.

Lemma revoke_fold_wgo_sub : forall fuel obj gof casc prs G G',
  fold_opt (revoke_one fuel obj gof casc) prs G = Some G' -> wgo_sub G' G.
Proof.
  intros fuel obj gof casc. induction prs as [|[ge p] prs IH]; intros G G' H.
  - cbn in H. inversion H. apply wgo_sub_refl.
  - destruct casc; cbn [fold_opt revoke_one] in H.
    + apply IH in H. eapply wgo_sub_trans; [exact H | apply remove_wgo_sub].
    + destruct (revoke_cascade fuel obj p gof (remove_grants obj ge p gof G) [ge] ge) as [st1|] eqn:E1; [|discriminate].
      apply cascade_wgo_sub in E1. apply IH in H.
      eapply wgo_sub_trans; [exact H|]. eapply wgo_sub_trans; [exact E1 | apply remove_wgo_sub].
    + apply IH in H. eapply wgo_sub_trans; [exact H | apply remove_wgo_sub].
Qed.

Lemma exec_revoke_wgo_sub : forall s gof privs ot obj grantees casc,
  wgo_sub (st_grants (fst (exec_revoke s gof privs ot obj grantees casc))) (st_grants s).
Proof.
  intros. unfold exec_revoke.
  destruct (revoke_object_check s ot obj); [apply wgo_sub_refl|].
  destruct (negb (all_roles_exist s grantees)); [apply wgo_sub_refl|].
  destruct (_ && _); [apply wgo_sub_refl|].
  destruct (fold_opt _ _ _) as [G'|] eqn:EF; [|apply wgo_sub_refl].
  cbn. eapply revoke_fold_wgo_sub. exact EF.
Qed.

(** the invariant of an unprivileged session on [obj] *)
Definition powerless (s : state) (r obj : string) : Prop :=
  st_security s = true /\ st_role s = Some r /\ is_admin r = false /\
  forall g, In g (st_grants s) -> g_object g = obj -> g_grantee g = r -> g_wgo g = false.

Lemma powerless_may_grant : forall s r obj p, powerless s r obj -> may_grant s obj p = false.
Proof.
  intros s r obj p [_ [Hr [_ Hw]]]. unfold may_grant.
  destruct (existsb _ _) eqn:E; [|reflexivity]. exfalso.
  apply existsb_exists in E as [g [Hg E]]. apply andb_true_iff in E as [Hm Hwgo].
  apply matches_spec in Hm as [H1 [H2 H3]].
  unfold current_role in H2. rewrite Hr in H2.
  rewrite (Hw g Hg H1 H2) in Hwgo. discriminate.
Qed.

Lemma revoke_session_fields : forall s gof privs ot obj grantees casc,
  st_security (fst (exec_revoke s gof privs ot obj grantees casc)) = st_security s /\
  st_role (fst (exec_revoke s gof privs ot obj grantees casc)) = st_role s.
Proof.
  intros. unfold exec_revoke.
  destruct (revoke_object_check s ot obj); [split; reflexivity|].
  destruct (negb (all_roles_exist s grantees)); [split; reflexivity|].
  destruct (_ && _); [split; reflexivity|].
  destruct (fold_opt _ _ _); split; reflexivity.
Qed.

(** one session step: the invariant is kept and nobody's privileges on [obj] grow *)
Lemma step_fixed_powerless : forall s o r obj,
  powerless s r obj -> session_op o = true ->
  powerless (fst (step_fixed s o)) r obj /\
  forall r' q, has_privilege (fst (step_fixed s o)) r' obj q = true -> has_privilege s r' obj q = true.
Proof.
  intros s o r obj HP Hs. pose proof HP as [Hsec [Hrole [Hadm Hw]]].
  destruct o; cbn in Hs; try discriminate; cbn [step_fixed step].
  - (* CREATE ROLE *)
    unfold exec_create_role. destruct (role_exists s r0); cbn; (split; [exact HP | tauto]).
  - unfold exec_drop_role. destruct (role_exists s r0); cbn; (split; [exact HP | tauto]).
  - (* GRANT *)
    unfold exec_grant_fixed.
    destruct (grant_object_check s privs ot obj0) as [actual|e]; [|cbn; split; [exact HP | tauto]].
    destruct (all_roles_exist s grantees); [|cbn; split; [exact HP | tauto]].
    destruct (grant_authorised s obj0 (expand privs actual)) eqn:EA; [|cbn; split; [exact HP | tauto]].
    unfold grant_authorised in EA. rewrite Hsec in EA. unfold current_role in EA at 1. rewrite Hrole, Hadm in EA.
    cbn [negb orb] in EA.
    destruct (String.eqb obj0 obj) eqn:Eo.
    + apply String.eqb_eq in Eo. subst obj0.
      (* every expanded privilege would need a grant option the role does not have: the list is empty *)
      assert (Hnil : expand privs actual = []).
      { destruct (expand privs actual) as [|p l]; [reflexivity|]. cbn in EA.
        rewrite (powerless_may_grant s r obj p HP) in EA. discriminate. }
      rewrite Hnil. unfold new_grants. cbn [map].
      assert (Hf : flat_map (fun _ : string => @nil grant) grantees = []).
      { clear. induction grantees; [reflexivity | exact IHgrantees]. }
      rewrite Hf, app_nil_r. cbn. split.
      * repeat split; assumption.
      * tauto.
    + cbn [fst]. split.
      * repeat split; try assumption. intros g Hg Ho Hge. cbn [st_grants set_grants] in Hg.
        apply in_app_or in Hg as [Hg|Hg]; [apply Hw; assumption|].
        unfold new_grants in Hg. apply in_flat_map in Hg as [ge [_ Hg]]. apply in_map_iff in Hg as [p [E _]].
        subst g. cbn in Ho. subst obj0. rewrite String.eqb_refl in Eo. discriminate.
      * intros r' q H. unfold has_privilege in *. cbn [st_grants set_grants] in H.
        rewrite has_in_app in H. apply orb_true_iff in H as [H|H]; [exact H|].
        apply has_in_new_grants in H as [H _]. subst obj0. rewrite String.eqb_refl in Eo. discriminate.
  - (* REVOKE *)
    pose proof (exec_revoke_wgo_sub s gof privs ot obj0 grantees casc) as HS.
    pose proof (revoke_session_fields s gof privs ot obj0 grantees casc) as [F1 F2]. split.
    + repeat split; try congruence. intros g Hg Ho Hge.
      destruct (g_wgo g) eqn:E; [|reflexivity]. rewrite <- E. apply Hw; [|exact Ho|exact Hge]. apply HS; assumption.
    + intros r' q H.
      destruct (snd (exec_revoke s gof privs ot obj0 grantees casc)) eqn:ER.
      * pose proof (exec_revoke_has s gof privs ot obj0 grantees casc (fst (exec_revoke s gof privs ot obj0 grantees casc))) as HH.
        rewrite (pair_eta _ _ (exec_revoke s gof privs ot obj0 grantees casc)) in HH at 1. rewrite ER in HH.
        apply (HH eq_refl) in H. tauto.
      * pose proof (step_fail_unchanged s (ORevoke gof privs ot obj0 grantees casc)) as HF. cbn [step] in HF.
        rewrite HF in H by (rewrite ER; discriminate). exact H.
      * pose proof (step_fail_unchanged s (ORevoke gof privs ot obj0 grantees casc)) as HF. cbn [step] in HF.
        rewrite HF in H by (rewrite ER; discriminate). exact H.
  - (* check *) cbn. split; [exact HP | tauto].
  - (* add table *) destruct (table_exists s t); cbn; (split; [exact HP | tauto]).
  - cbn. split; [exact HP | tauto].
Qed.

(** C26 (after the repair of GRANT): whatever a non-administrator session without grant option on [obj] issues,
    no role ends up with a privilege on [obj] it did not have before *)
Theorem fixed_grant_no_escalation : forall h s r obj,
  powerless s r obj -> forallb session_op h = true ->
  forall r' q, has_privilege (exec_fixed s h) r' obj q = true -> has_privilege s r' obj q = true.
Proof.
  induction h as [|o h IH]; intros s r obj HP Hs r' q H; [exact H|].
  cbn in Hs. apply andb_true_iff in Hs as [Ho Hs]. cbn [exec_fixed] in H.
  destruct (step_fixed_powerless s o r obj HP Ho) as [HP' Hmono].
  apply Hmono. eapply IH; eassumption.
Qed.

(** the same session against the code as it is: one GRANT is enough (Store.PrivLaws.self_grant_escalates) *)
Example ex_powerless : powerless esc_state "R1" "T".
Proof. repeat split. intros g []. Qed.

Example ex_fixed_refuses :
  snd (step_fixed esc_state (OGrant [PSelect None] OTable "T" ["R1"] false)) = RErr EPermissionDenied /\
  snd (step esc_state (OGrant [PSelect None] OTable "T" ["R1"] false)) = ROk.
Proof. vm_compute. split; reflexivity. Qed.

(** the repaired GRANT behaves as the original for administrators and while security is disabled *)
Theorem fixed_grant_same_for_admin : forall s privs ot obj grantees wgo,
  st_security s = false \/ is_admin (current_role s) = true ->
  exec_grant_fixed s privs ot obj grantees wgo = exec_grant s privs ot obj grantees wgo.
Proof.
  intros s privs ot obj grantees wgo H. unfold exec_grant_fixed, exec_grant.
  destruct (grant_object_check s privs ot obj); [|reflexivity].
  destruct (all_roles_exist s grantees); [|reflexivity].
  unfold grant_authorised. destruct H as [H|H]; rewrite H; cbn; [reflexivity|].
  rewrite orb_true_r. reflexivity.
Qed.
