(** C12 laws, part 1: reflection lemmas, table lookup, the invariants, the property RI,
    and the "shrink" relation between databases that every DELETE-side action respects. *)
From Coq Require Import List ZArith Bool Arith Lia.
From VibeSQL Require Import Store.Fk.
Import ListNotations.

(* ------------------------------------------------------------------------------------ *)
(** * Equality tests *)

Lemma val_eqb_eq : forall a b, val_eqb a b = true <-> a = b.
Proof.
  intros [x|] [y|]; cbn; split; intros H; try congruence; try discriminate.
  - apply Z.eqb_eq in H. congruence.
  - inversion H. apply Z.eqb_refl.
Qed.

Lemma key_eqb_eq : forall a b, key_eqb a b = true <-> a = b.
Proof.
  induction a as [|x a IH]; intros [|y b]; cbn; split; intros H; try congruence; try discriminate.
  - apply andb_true_iff in H. destruct H as [H1 H2].
    apply val_eqb_eq in H1. apply IH in H2. congruence.
  - inversion H; subst. apply andb_true_iff. split.
    + apply val_eqb_eq; reflexivity.
    + apply IH; reflexivity.
Qed.

Lemma key_eqb_refl : forall a, key_eqb a a = true.
Proof. intros a. apply key_eqb_eq. reflexivity. Qed.

Lemma key_eqb_neq : forall a b, key_eqb a b = false <-> a <> b.
Proof.
  intros a b. split; intros H.
  - intros E. apply key_eqb_eq in E. congruence.
  - destruct (key_eqb a b) eqn:E; [|reflexivity]. apply key_eqb_eq in E. contradiction.
Qed.

Lemma key_mem_In : forall k l, key_mem k l = true <-> In k l.
Proof.
  intros k l. unfold key_mem. rewrite existsb_exists. split.
  - intros [x [Hx E]]. apply key_eqb_eq in E. subst. exact Hx.
  - intros H. exists k. split; [exact H|apply key_eqb_refl].
Qed.

Lemma key_mem_false : forall k l, key_mem k l = false <-> ~ In k l.
Proof.
  intros k l. split; intros H.
  - intros HI. apply key_mem_In in HI. congruence.
  - destruct (key_mem k l) eqn:E; [|reflexivity]. apply key_mem_In in E. contradiction.
Qed.

Lemma nat_mem_In : forall n l, nat_mem n l = true <-> In n l.
Proof.
  intros n l. unfold nat_mem. rewrite existsb_exists. split.
  - intros [x [Hx E]]. apply Nat.eqb_eq in E. subst. exact Hx.
  - intros H. exists n. split; [exact H|apply Nat.eqb_refl].
Qed.

Lemma rows_eqb_eq : forall a b, rows_eqb a b = true <-> a = b.
Proof.
  induction a as [|x a IH]; intros [|y b]; cbn; split; intros H; try congruence; try discriminate.
  - apply andb_true_iff in H. destruct H as [H1 H2].
    apply key_eqb_eq in H1. apply IH in H2. congruence.
  - inversion H; subst. apply andb_true_iff. split; [apply key_eqb_refl|apply IH; reflexivity].
Qed.

(* ------------------------------------------------------------------------------------ *)
(** * Table lookup *)

Definition names (d : db) : list nat := map t_name d.

Lemma get_table_In : forall d n t, get_table d n = Some t -> In t d /\ t_name t = n.
Proof.
  intros d n t H. unfold get_table in H. apply find_some in H. destruct H as [H1 H2].
  apply Nat.eqb_eq in H2. auto.
Qed.

Lemma In_get_table : forall d t, NoDup (names d) -> In t d -> get_table d (t_name t) = Some t.
Proof.
  induction d as [|x d IH]; intros t ND HI; [contradiction|].
  cbn in ND. inversion ND as [|? ? Hnotin ND']; subst.
  unfold get_table. cbn. destruct HI as [->|HI].
  - rewrite Nat.eqb_refl. reflexivity.
  - destruct (Nat.eqb (t_name x) (t_name t)) eqn:E.
    + apply Nat.eqb_eq in E. exfalso. apply Hnotin. rewrite E. apply in_map. exact HI.
    + apply IH; assumption.
Qed.

Lemma get_table_none : forall d n, get_table d n = None <-> ~ In n (names d).
Proof.
  induction d as [|x d IH]; intros n; cbn.
  - split; auto.
  - unfold get_table. cbn. destruct (Nat.eqb (t_name x) n) eqn:E.
    + apply Nat.eqb_eq in E. split; [discriminate|]. intros H. exfalso. apply H. left. exact E.
    + apply Nat.eqb_neq in E. fold (get_table d n). rewrite IH. split.
      * intros H [H1|H1]; [contradiction|]. apply H; exact H1.
      * intros H H1. apply H. right. exact H1.
Qed.

Lemma names_set_rows : forall d n rs, names (set_rows d n rs) = names d.
Proof.
  intros d n rs. unfold names, set_rows. rewrite map_map. apply map_ext.
  intros t. destruct (Nat.eqb (t_name t) n); reflexivity.
Qed.

Lemma get_set_rows_same : forall d n rs t,
  get_table d n = Some t -> get_table (set_rows d n rs) n = Some (with_rows t rs).
Proof.
  induction d as [|x d IH]; intros n rs t H; [discriminate|].
  unfold get_table in *. simpl in *. destruct (Nat.eqb (t_name x) n) eqn:E; simpl.
  - inversion H; subst. rewrite E. reflexivity.
  - rewrite E. apply IH. exact H.
Qed.

Lemma get_set_rows_other : forall d n m rs, n <> m -> get_table (set_rows d n rs) m = get_table d m.
Proof.
  induction d as [|x d IH]; intros n m rs Hne; [reflexivity|].
  unfold get_table in *. simpl. destruct (Nat.eqb (t_name x) n) eqn:E; simpl.
  - apply Nat.eqb_eq in E. destruct (Nat.eqb (t_name x) m) eqn:E2.
    + apply Nat.eqb_eq in E2. congruence.
    + apply IH. exact Hne.
  - destruct (Nat.eqb (t_name x) m) eqn:E2; [reflexivity|]. apply IH. exact Hne.
Qed.

Lemma get_set_rows : forall d n m rs,
  get_table (set_rows d n rs) m =
  if Nat.eqb n m then option_map (fun t => with_rows t rs) (get_table d m) else get_table d m.
Proof.
  intros d n m rs. destruct (Nat.eqb n m) eqn:E.
  - apply Nat.eqb_eq in E. subst m. destruct (get_table d n) eqn:G.
    + cbn. apply get_set_rows_same. exact G.
    + cbn. apply get_table_none. rewrite names_set_rows. apply get_table_none. exact G.
  - apply Nat.eqb_neq in E. apply get_set_rows_other. exact E.
Qed.

(* ------------------------------------------------------------------------------------ *)
(** * Cell / row order: a row whose cells were kept or set to NULL *)

Definition cell_le (a' a : val) : Prop := a' = a \/ a' = None.

Definition pk_same (opk : option (list nat)) (r' r : row) : Prop :=
  match opk with Some pk => proj pk r' = proj pk r | None => True end.

Definition row_le (opk : option (list nat)) (r' r : row) : Prop :=
  Forall2 cell_le r' r /\ pk_same opk r' r.

Lemma cell_le_refl : forall a, cell_le a a.
Proof. intros a. left. reflexivity. Qed.

Lemma cell_le_trans : forall a b c, cell_le a b -> cell_le b c -> cell_le a c.
Proof. unfold cell_le. intros a b c [H1|H1] [H2|H2]; subst; auto. Qed.

Lemma Forall2_refl : forall {A} (R : A -> A -> Prop) l, (forall a, R a a) -> Forall2 R l l.
Proof. intros A R l H. induction l; constructor; auto. Qed.

Lemma Forall2_trans : forall {A} (R : A -> A -> Prop) a b c,
  (forall x y z, R x y -> R y z -> R x z) -> Forall2 R a b -> Forall2 R b c -> Forall2 R a c.
Proof.
  intros A R a b c HT H1. revert c. induction H1; intros c H2; inversion H2; subst; constructor; eauto.
Qed.

Lemma row_le_refl : forall opk r, row_le opk r r.
Proof.
  intros opk r. split; [apply Forall2_refl; apply cell_le_refl|]. destruct opk; cbn; auto.
Qed.

Lemma row_le_trans : forall opk a b c, row_le opk a b -> row_le opk b c -> row_le opk a c.
Proof.
  intros opk a b c [H1 K1] [H2 K2]. split.
  - eapply Forall2_trans; [apply cell_le_trans|exact H1|exact H2].
  - destruct opk; cbn in *; congruence.
Qed.

Lemma Forall2_cell_nth : forall r' r c, Forall2 cell_le r' r -> cell_le (nth c r' None) (nth c r None).
Proof.
  intros r' r c H. revert c. induction H; intros c.
  - destruct c; left; reflexivity.
  - destruct c; cbn; auto.
Qed.

Lemma Forall2_len : forall {A B} (R : A -> B -> Prop) a b, Forall2 R a b -> length a = length b.
Proof. intros A B R a b H. induction H; cbn; auto. Qed.

Lemma row_le_length : forall opk r' r, row_le opk r' r -> length r' = length r.
Proof. intros opk r' r [H _]. eapply Forall2_len. exact H. Qed.

(** a NULL-free projection of the smaller row is the projection of the bigger one *)
Lemma proj_le_nonnull : forall cols r' r,
  Forall2 cell_le r' r -> has_null (proj cols r') = false -> proj cols r' = proj cols r.
Proof.
  induction cols as [|c cols IH]; intros r' r H HN; [reflexivity|].
  cbn in *. apply orb_false_iff in HN. destruct HN as [H1 H2].
  f_equal; [|apply IH; assumption].
  destruct (Forall2_cell_nth r' r c H) as [E|E]; [exact E|]. rewrite E in H1. discriminate.
Qed.

Lemma refs_le : forall fk k r' r, Forall2 cell_le r' r -> refs fk k r' = true -> refs fk k r = true.
Proof.
  intros fk k r' r H HR. unfold refs in *. apply andb_true_iff in HR. destruct HR as [H1 H2].
  apply negb_true_iff in H1. rewrite <- (proj_le_nonnull _ _ _ H H1). rewrite H1, H2. reflexivity.
Qed.

(* ------------------------------------------------------------------------------------ *)
(** * set_nth / set_cols *)

Lemma set_nth_length : forall {A} i (x : A) l, length (set_nth i x l) = length l.
Proof. intros A i x l. revert i. induction l; intros [|i]; cbn; auto. Qed.

Lemma nth_set_nth : forall i j (x : val) l,
  nth j (set_nth i x l) None = if Nat.eqb i j then (if Nat.ltb i (length l) then x else None) else nth j l None.
Proof.
  intros i j x l. revert i j. induction l as [|a l IH]; intros i j.
  - cbn. destruct i, j; cbn; try reflexivity. destruct (Nat.eqb i j); reflexivity.
  - destruct i, j; cbn; try reflexivity.
    rewrite IH. destruct (Nat.eqb i j); [|reflexivity].
    change (S i <? S (length l)) with (i <? length l). reflexivity.
Qed.

Lemma set_nth_none_le : forall i l, Forall2 cell_le (set_nth i None l) l.
Proof.
  intros i l. revert i. induction l as [|a l IH]; intros [|i]; cbn; constructor.
  - right; reflexivity.
  - apply Forall2_refl. apply cell_le_refl.
  - left; reflexivity.
  - apply IH.
Qed.

Lemma set_cols_length : forall cols vs r, length (set_cols cols vs r) = length r.
Proof.
  induction cols as [|c cols IH]; intros [|v vs] r; cbn; auto. rewrite IH. apply set_nth_length.
Qed.

Lemma set_cols_nulls_le : forall cols vs r,
  forallb is_null vs = true -> Forall2 cell_le (set_cols cols vs r) r.
Proof.
  induction cols as [|c cols IH]; intros [|v vs] r H; cbn; try (apply Forall2_refl; apply cell_le_refl).
  cbn in H. apply andb_true_iff in H. destruct H as [H1 H2].
  destruct v; [discriminate|].
  eapply Forall2_trans; [apply cell_le_trans|apply IH; exact H2|apply set_nth_none_le].
Qed.

Lemma forallb_is_null_map_none : forall {A} (l : list A), forallb is_null (map (fun _ => None) l) = true.
Proof. intros A l. induction l; cbn; auto. Qed.

(** outside the written columns nothing changes *)
Lemma nth_set_cols_other : forall cols vs r c, ~ In c cols -> nth c (set_cols cols vs r) None = nth c r None.
Proof.
  induction cols as [|a cols IH]; intros [|v vs] r c H; cbn; try reflexivity.
  rewrite IH.
  - rewrite nth_set_nth. destruct (Nat.eqb a c) eqn:E; [|reflexivity].
    apply Nat.eqb_eq in E. exfalso. apply H. left. exact E.
  - intros HI. apply H. right. exact HI.
Qed.

(* ------------------------------------------------------------------------------------ *)
(** * The property *)

(** every child row with a NULL-free foreign-key tuple has a parent row carrying that key in the
    referenced columns *)
Definition RI (d : db) : Prop :=
  forall ct fk r, In ct d -> In fk (t_fks ct) -> In r (t_rows ct) ->
    has_null (proj (fk_cols fk) r) = false ->
    exists pt pr, get_table d (fk_parent fk) = Some pt /\ In pr (t_rows pt)
                  /\ proj (fk_pcols fk) pr = proj (fk_cols fk) r.

(** no row references key [k] of table [p] *)
Definition unref (d : db) (p : nat) (k : key) : Prop :=
  forall ct fk r, In ct d -> In fk (t_fks ct) -> fk_parent fk = p -> In r (t_rows ct) -> refs fk k r = false.

(* ------------------------------------------------------------------------------------ *)
(** * Invariants other than RI *)

Definition arity_ok (d : db) : Prop := forall t r, In t d -> In r (t_rows t) -> length r = ncols t.

Definition keys_unique (d : db) : Prop :=
  forall t pk, In t d -> t_pk t = Some pk -> NoDup (map (proj pk) (t_rows t)).

Definition notnull_ok (d : db) : Prop := forall t r, In t d -> In r (t_rows t) -> notnull_okb t r = true.

(** PRIMARY KEY columns are NOT NULL (CREATE TABLE makes them so) and the key is not empty *)
Definition pk_cols_ok (d : db) : Prop :=
  forall t pk, In t d -> t_pk t = Some pk ->
    pk <> [] /\ forall c, In c pk -> c < ncols t /\ col_nullable t c = false.

(** primary-key values of stored rows are never NULL *)
Definition pk_nonnull (d : db) : Prop :=
  forall t pk r, In t d -> t_pk t = Some pk -> In r (t_rows t) -> has_null (proj pk r) = false.

Record inv (d : db) : Prop := mkInv {
  inv_names : NoDup (names d);
  inv_arity : arity_ok d;
  inv_std : schema_standard d = true;
  inv_keys : keys_unique d;
  inv_pkcols : pk_cols_ok d;
  inv_pknn : pk_nonnull d;
}.

(* ------------------------------------------------------------------------------------ *)
(** * Shrinking: rows are dropped (when [D] allows) or get cells set to NULL; schemas stay *)

Inductive srows (D : row -> Prop) (opk : option (list nat)) : list row -> list row -> Prop :=
| sr_nil : srows D opk [] []
| sr_drop : forall r l l', D r -> srows D opk l l' -> srows D opk (r :: l) l'
| sr_keep : forall r r' l l', row_le opk r' r -> srows D opk l l' -> srows D opk (r :: l) (r' :: l').

Definition same_schema (t t' : table) : Prop :=
  t_name t' = t_name t /\ t_cols t' = t_cols t /\ t_pk t' = t_pk t /\ t_fks t' = t_fks t.

Definition tshrink (D : table -> row -> Prop) (t t' : table) : Prop :=
  same_schema t t' /\ srows (D t) (t_pk t) (t_rows t) (t_rows t').

Definition dshrink (D : table -> row -> Prop) (d d' : db) : Prop := Forall2 (tshrink D) d d'.

Definition shrinks := dshrink (fun _ _ => True).

Lemma srows_refl : forall D opk l, srows D opk l l.
Proof. intros D opk l. induction l; [constructor|]. apply sr_keep; [apply row_le_refl|assumption]. Qed.

Lemma srows_weaken : forall (D D' : row -> Prop) opk l l',
  (forall r, In r l -> D r -> D' r) -> srows D opk l l' -> srows D' opk l l'.
Proof.
  intros D D' opk l l' H S. induction S.
  - constructor.
  - apply sr_drop; [apply H; [left; reflexivity|assumption]|]. apply IHS. intros; apply H; [right|]; assumption.
  - apply sr_keep; [assumption|]. apply IHS. intros; apply H; [right|]; assumption.
Qed.

(** every surviving row descends from an original row *)
Lemma srows_origin : forall D opk l l' r', srows D opk l l' -> In r' l' -> exists r, In r l /\ row_le opk r' r.
Proof.
  intros D opk l l' r' S. induction S; intros HI.
  - contradiction.
  - destruct (IHS HI) as [x [Hx Hle]]. exists x. split; [right|]; assumption.
  - destruct HI as [->|HI].
    + exists r. split; [left; reflexivity|assumption].
    + destruct (IHS HI) as [x [Hx Hle]]. exists x. split; [right|]; assumption.
Qed.

(** every original row survives (possibly rewritten) or was dropped with [D] *)
Lemma srows_fate : forall D opk l l' r, srows D opk l l' -> In r l -> D r \/ exists r', In r' l' /\ row_le opk r' r.
Proof.
  intros D opk l l' r S. induction S; intros HI.
  - contradiction.
  - destruct HI as [->|HI]; [left; assumption|]. apply IHS. exact HI.
  - destruct HI as [->|HI].
    + right. exists r'. split; [left; reflexivity|assumption].
    + destruct (IHS HI) as [HD|[x [Hx Hle]]]; [left; assumption|]. right. exists x. split; [right|]; assumption.
Qed.

Lemma srows_trans : forall (D1 D2 D : row -> Prop) opk a b c,
  (forall r, D1 r -> D r) ->
  (forall r' r, row_le opk r' r -> D2 r' -> D r) ->
  srows D1 opk a b -> srows D2 opk b c -> srows D opk a c.
Proof.
  intros D1 D2 D opk a b c H1 H2 S1. revert c. induction S1; intros c S2.
  - inversion S2; subst. constructor.
  - apply sr_drop; [apply H1; assumption|]. apply IHS1. exact S2.
  - inversion S2; subst.
    + apply sr_drop; [eapply H2; eassumption|]. apply IHS1. assumption.
    + apply sr_keep; [eapply row_le_trans; eassumption|]. apply IHS1. assumption.
Qed.

(** keys of the survivors: a sub-sequence of the original keys *)
Lemma srows_keys_nodup : forall D pk l l',
  srows D (Some pk) l l' -> NoDup (map (proj pk) l) -> NoDup (map (proj pk) l').
Proof.
  intros D pk l l' S. induction S as [| r l l' HD S IH | r r' l l' Hle S IH]; intros ND; cbn in *.
  - constructor.
  - inversion ND; subst. auto.
  - inversion ND as [|? ? Hn ND']; subst. constructor; [|auto].
    intros HI. apply in_map_iff in HI. destruct HI as [x [E Hx]].
    destruct (srows_origin _ _ _ _ _ S Hx) as [y [Hy [_ Hk]]].
    destruct Hle as [_ Hk']. unfold pk_same in *. apply Hn. apply in_map_iff. exists y.
    split; [|assumption]. rewrite <- Hk, E. exact Hk'.
Qed.

Lemma same_schema_refl : forall t, same_schema t t.
Proof. intros t. repeat split. Qed.

Lemma dshrink_refl : forall D d, dshrink D d d.
Proof.
  intros D d. unfold dshrink. apply Forall2_refl. intros t. split; [apply same_schema_refl|apply srows_refl].
Qed.

Lemma dshrink_names : forall D d d', dshrink D d d' -> names d' = names d.
Proof.
  intros D d d' H. induction H; cbn; [reflexivity|]. destruct H as [[Hn _] _]. unfold names in *. rewrite Hn, IHForall2. reflexivity.
Qed.

Lemma dshrink_get : forall D d d' n t,
  dshrink D d d' -> get_table d n = Some t -> exists t', get_table d' n = Some t' /\ tshrink D t t'.
Proof.
  intros D d d' n t H. induction H; intros G; [discriminate|].
  unfold get_table in *. cbn in *. destruct H as [[Hn Hs] Hr].
  rewrite Hn. destruct (Nat.eqb (t_name x) n) eqn:E.
  - inversion G; subst. exists y. split; [reflexivity|]. split; [split; assumption|assumption].
  - apply IHForall2. exact G.
Qed.

Lemma dshrink_get_rev : forall D d d' n t',
  dshrink D d d' -> get_table d' n = Some t' -> exists t, get_table d n = Some t /\ tshrink D t t'.
Proof.
  intros D d d' n t' H. induction H; intros G; [discriminate|].
  unfold get_table in *. cbn in *. destruct H as [[Hn Hs] Hr].
  rewrite Hn in G. destruct (Nat.eqb (t_name x) n) eqn:E.
  - inversion G; subst. exists x. split; [reflexivity|]. split; [split; assumption|assumption].
  - apply IHForall2. exact G.
Qed.

Lemma dshrink_In : forall D d d' t', dshrink D d d' -> In t' d' -> exists t, In t d /\ tshrink D t t'.
Proof.
  intros D d d' t' H. induction H; intros HI; [contradiction|].
  destruct HI as [->|HI].
  - exists x. split; [left; reflexivity|assumption].
  - destruct (IHForall2 HI) as [t [Ht Hs]]. exists t. split; [right|]; assumption.
Qed.

Lemma dshrink_In_fwd : forall D d d' t, dshrink D d d' -> In t d -> exists t', In t' d' /\ tshrink D t t'.
Proof.
  intros D d d' t H. induction H; intros HI; [contradiction|].
  destruct HI as [->|HI].
  - exists y. split; [left; reflexivity|assumption].
  - destruct (IHForall2 HI) as [t' [Ht Hs]]. exists t'. split; [right|]; assumption.
Qed.

Lemma dshrink_weaken : forall (D D' : table -> row -> Prop) d d',
  (forall t r, In t d -> In r (t_rows t) -> D t r -> D' t r) -> dshrink D d d' -> dshrink D' d d'.
Proof.
  intros D D' d d' H S. induction S; constructor.
  - destruct H0 as [Hs Hr]. split; [assumption|]. eapply srows_weaken; [|exact Hr].
    intros r Hin HD. apply H; [left; reflexivity|assumption|assumption].
  - apply IHS. intros t r Ht. apply H. right. exact Ht.
Qed.

Lemma dshrink_shrinks : forall D d d', dshrink D d d' -> shrinks d d'.
Proof. intros D d d' H. eapply dshrink_weaken; [|exact H]. auto. Qed.

(** references only disappear *)
Lemma unref_stable : forall d d' p k, shrinks d d' -> unref d p k -> unref d' p k.
Proof.
  intros d d' p k S U ct' fk r' Hct Hfk Hp Hr.
  destruct (dshrink_In _ _ _ _ S Hct) as [ct [Hc [[_ [_ [_ Hf]]] Hrows]]].
  destruct (srows_origin _ _ _ _ _ Hrows Hr) as [r [Hin [Hle _]]].
  destruct (refs fk k r') eqn:E; [|reflexivity].
  rewrite Hf in Hfk.
  pose proof (refs_le fk k r' r Hle E) as X. rewrite (U ct fk r Hc Hfk Hp Hin) in X. discriminate.
Qed.

(* ------------------------------------------------------------------------------------ *)
(** * Shrinking keeps the invariants *)

Lemma dshrink_trans : forall (D1 D2 D : table -> row -> Prop) a b c,
  (forall t r, D1 t r -> D t r) ->
  (forall t t1 r' r, same_schema t t1 -> row_le (t_pk t) r' r -> D2 t1 r' -> D t r) ->
  dshrink D1 a b -> dshrink D2 b c -> dshrink D a c.
Proof.
  intros D1 D2 D a b c H1 H2 S1. revert c. induction S1 as [|x y l l' Hxy S1 IH]; intros c S2.
  - inversion S2; subst. constructor.
  - inversion S2 as [|? z ? l'' Hyz S2']; subst. constructor; [|apply IH; assumption].
    destruct Hxy as [Sxy Rxy]. destruct Hyz as [Syz Ryz]. split.
    + destruct Sxy as [A1 [A2 [A3 A4]]]. destruct Syz as [B1 [B2 [B3 B4]]].
      repeat split; congruence.
    + destruct Sxy as [A1 [A2 [A3 A4]]]. rewrite A3 in Ryz.
      eapply srows_trans; [| |exact Rxy|exact Ryz].
      * intros r. apply H1.
      * intros r' r Hle HD. eapply H2; [|exact Hle|exact HD]. repeat split; assumption.
Qed.

Lemma shrinks_trans : forall a b c, shrinks a b -> shrinks b c -> shrinks a c.
Proof. intros a b c. apply dshrink_trans; auto. Qed.

Lemma forallb_ext' : forall {A} (f g : A -> bool) l, (forall x, f x = g x) -> forallb f l = forallb g l.
Proof. intros A f g l H. induction l; cbn; [reflexivity|]. rewrite H, IHl. reflexivity. Qed.

Lemma fk_standard_shrink : forall D d d' t t' fk,
  dshrink D d d' -> same_schema t t' -> fk_standard d' t' fk = fk_standard d t fk.
Proof.
  intros D d d' t t' fk S [_ [Hc _]]. unfold fk_standard, ncols. rewrite Hc.
  destruct (get_table d (fk_parent fk)) as [pt|] eqn:G.
  - destruct (dshrink_get _ _ _ _ _ S G) as [pt' [G' [[_ [_ [Hpk _]]] _]]]. rewrite G', Hpk. reflexivity.
  - destruct (get_table d' (fk_parent fk)) as [pt'|] eqn:G'; [|reflexivity].
    destruct (dshrink_get_rev _ _ _ _ _ S G') as [pt [G2 _]]. congruence.
Qed.

Lemma schema_standard_shrink : forall D d d', dshrink D d d' -> schema_standard d' = schema_standard d.
Proof.
  intros D d d' S. unfold schema_standard.
  assert (forall l l', Forall2 (tshrink D) l l' ->
    forallb (fun t => forallb (fk_standard d' t) (t_fks t)
       && match t_pk t with Some pk => strictly_ascending pk && forallb (fun c => Nat.ltb c (ncols t)) pk | None => true end) l' =
    forallb (fun t => forallb (fk_standard d t) (t_fks t)
       && match t_pk t with Some pk => strictly_ascending pk && forallb (fun c => Nat.ltb c (ncols t)) pk | None => true end) l) as X.
  { intros l l' F. induction F as [|x y l l' Hxy F IH]; [reflexivity|]. cbn [forallb]. rewrite IH. f_equal.
    destruct Hxy as [Hs _]. pose proof Hs as [A1 [A2 [A3 A4]]]. rewrite A3, A4. unfold ncols. rewrite A2. f_equal.
    apply forallb_ext'. intros fk. apply (fk_standard_shrink D d d' x y fk S Hs). }
  apply X. exact S.
Qed.

Lemma inv_shrinks : forall D d d', inv d -> dshrink D d d' -> inv d'.
Proof.
  intros D d d' I S. constructor.
  - rewrite (dshrink_names _ _ _ S). apply inv_names. exact I.
  - intros t' r' Ht Hr. destruct (dshrink_In _ _ _ _ S Ht) as [t [Hin [[_ [Hc _]] Hrows]]].
    destruct (srows_origin _ _ _ _ _ Hrows Hr) as [r [Hrin Hle]].
    rewrite (row_le_length _ _ _ Hle). unfold ncols. rewrite Hc. apply (inv_arity _ I); assumption.
  - rewrite (schema_standard_shrink _ _ _ S). apply inv_std. exact I.
  - intros t' pk Ht Hpk. destruct (dshrink_In _ _ _ _ S Ht) as [t [Hin [[_ [_ [Hp _]]] Hrows]]].
    rewrite Hp in Hpk. rewrite Hpk in Hrows. eapply srows_keys_nodup; [exact Hrows|].
    apply (inv_keys _ I); assumption.
  - intros t' pk Ht Hpk. destruct (dshrink_In _ _ _ _ S Ht) as [t [Hin [[_ [Hc [Hp _]]] _]]].
    rewrite Hp in Hpk. unfold ncols, col_nullable. rewrite Hc. apply (inv_pkcols _ I); assumption.
  - intros t' pk r' Ht Hpk Hr. destruct (dshrink_In _ _ _ _ S Ht) as [t [Hin [[_ [_ [Hp _]]] Hrows]]].
    rewrite Hp in Hpk. destruct (srows_origin _ _ _ _ _ Hrows Hr) as [r [Hrin [_ Hk]]].
    rewrite Hpk in Hk. cbn in Hk. rewrite Hk. eapply (inv_pknn _ I); eassumption.
Qed.

(* ------------------------------------------------------------------------------------ *)
(** * "good" transitions: rows are only dropped when nothing references their key any more *)

Definition droppable (d' : db) (t : table) (r : row) : Prop :=
  forall pk, t_pk t = Some pk -> unref d' (t_name t) (proj pk r).

Definition good (d d' : db) : Prop := dshrink (droppable d') d d'.

Lemma good_shrinks : forall d d', good d d' -> shrinks d d'.
Proof. intros d d'. apply dshrink_shrinks. Qed.

Lemma good_refl : forall d, good d d.
Proof. intros d. apply dshrink_refl. Qed.

Lemma good_trans : forall a b c, good a b -> good b c -> good a c.
Proof.
  intros a b c G1 G2. unfold good. eapply dshrink_trans; [| |exact G1|exact G2].
  - intros t r HD pk Hpk. eapply unref_stable; [apply good_shrinks; exact G2|]. apply HD. exact Hpk.
  - intros t t1 r' r [Hn [_ [Hp _]]] [_ Hk] HD pk Hpk.
    rewrite Hpk in Hk. cbn in Hk. rewrite <- Hk, <- Hn. apply HD. congruence.
Qed.

(** under a standard schema a foreign key points at the parent's primary key *)
Lemma std_fk : forall d ct fk, schema_standard d = true -> In ct d -> In fk (t_fks ct) ->
  fk_standard d ct fk = true.
Proof.
  intros d ct fk H Hct Hfk. unfold schema_standard in H. rewrite forallb_forall in H.
  specialize (H ct Hct). apply andb_true_iff in H. destruct H as [H _].
  rewrite forallb_forall in H. apply H. exact Hfk.
Qed.

Lemma list_nat_eqb_eq : forall a b, list_nat_eqb a b = true -> a = b.
Proof.
  induction a as [|x a IH]; intros [|y b] H; cbn in H; try discriminate; [reflexivity|].
  apply andb_true_iff in H. destruct H as [H1 H2]. apply Nat.eqb_eq in H1. f_equal; auto.
Qed.

Lemma fk_standard_parent : forall d ct fk, fk_standard d ct fk = true ->
  exists pt, get_table d (fk_parent fk) = Some pt /\ t_pk pt = Some (fk_pcols fk)
             /\ length (fk_cols fk) = length (fk_pcols fk).
Proof.
  intros d ct fk H. unfold fk_standard in H.
  apply andb_true_iff in H. destruct H as [_ H].
  destruct (get_table d (fk_parent fk)) as [pt|]; [|discriminate]. destruct (t_pk pt) as [pk|] eqn:Epk; [|discriminate].
  apply andb_true_iff in H. destruct H as [H1 H2]. apply list_nat_eqb_eq in H1. apply Nat.eqb_eq in H2.
  exists pt. subst pk. repeat split; auto.
Qed.

Theorem ri_good : forall d d', inv d -> RI d -> good d d' -> RI d'.
Proof.
  intros d d' I R G ct' fk r' Hct Hfk Hr HN.
  destruct (dshrink_In _ _ _ _ G Hct) as [ct [Hc [[Hn [_ [_ Hf]]] Hrows]]].
  destruct (srows_origin _ _ _ _ _ Hrows Hr) as [r [Hrin [Hle _]]].
  rewrite Hf in Hfk. pose proof (proj_le_nonnull _ _ _ Hle HN) as EP.
  assert (HN' : has_null (proj (fk_cols fk) r) = false) by (rewrite <- EP; exact HN).
  destruct (R ct fk r Hc Hfk Hrin HN') as [pt [pr [Gp [Hpr Ek]]]].
  destruct (dshrink_get _ _ _ _ _ G Gp) as [pt' [Gp' [[Hpn [_ [Hpp _]]] Hprows]]].
  destruct (fk_standard_parent d ct fk (std_fk _ _ _ (inv_std _ I) Hc Hfk)) as [pt2 [Gp2 [Hpk _]]].
  rewrite Gp in Gp2. inversion Gp2; subst pt2.
  destruct (srows_fate _ _ _ _ _ Hprows Hpr) as [HD|[pr' [Hin' [_ Hk']]]].
  - exfalso. specialize (HD _ Hpk). unfold unref in HD.
    assert (X : refs fk (proj (fk_pcols fk) pr) r' = false).
    { apply (HD ct' fk r' Hct); [rewrite Hf; exact Hfk| |exact Hr].
      apply get_table_In in Gp. destruct Gp as [_ Gn]. symmetry. exact Gn. }
    unfold refs in X. rewrite HN in X. cbn in X. rewrite EP, <- Ek in X. rewrite key_eqb_refl in X. discriminate.
  - exists pt', pr'. split; [exact Gp'|]. split; [exact Hin'|].
    rewrite Hpk in Hk'. cbn in Hk'. rewrite Hk', Ek, EP. reflexivity.
Qed.

(* ------------------------------------------------------------------------------------ *)
(** * Databases with the same schemas (rows arbitrary) *)

Definition sames (d d' : db) : Prop := Forall2 same_schema d d'.

Lemma sames_refl : forall d, sames d d.
Proof. intros d. apply Forall2_refl. apply same_schema_refl. Qed.

Lemma same_schema_trans : forall a b c, same_schema a b -> same_schema b c -> same_schema a c.
Proof. intros a b c [A1 [A2 [A3 A4]]] [B1 [B2 [B3 B4]]]. repeat split; congruence. Qed.

Lemma sames_trans : forall a b c, sames a b -> sames b c -> sames a c.
Proof. intros a b c. apply Forall2_trans. apply same_schema_trans. Qed.

Lemma dshrink_sames : forall D d d', dshrink D d d' -> sames d d'.
Proof. intros D d d' H. induction H; constructor; auto. destruct H; assumption. Qed.

Lemma sames_names : forall d d', sames d d' -> names d' = names d.
Proof.
  intros d d' H. induction H; cbn; [reflexivity|]. destruct H as [Hn _]. unfold names in *. rewrite Hn, IHForall2. reflexivity.
Qed.

Lemma sames_get : forall d d' n t, sames d d' -> get_table d n = Some t ->
  exists t', get_table d' n = Some t' /\ same_schema t t'.
Proof.
  intros d d' n t H. induction H; intros G; [discriminate|].
  unfold get_table in *. cbn in *. pose proof H as [Hn _].
  rewrite Hn. destruct (Nat.eqb (t_name x) n) eqn:E.
  - inversion G; subst. exists y. split; [reflexivity|assumption].
  - apply IHForall2. exact G.
Qed.

Lemma sames_get_rev : forall d d' n t', sames d d' -> get_table d' n = Some t' ->
  exists t, get_table d n = Some t /\ same_schema t t'.
Proof.
  intros d d' n t' H. induction H; intros G; [discriminate|].
  unfold get_table in *. cbn in *. pose proof H as [Hn _].
  rewrite Hn in G. destruct (Nat.eqb (t_name x) n) eqn:E.
  - inversion G; subst. exists x. split; [reflexivity|assumption].
  - apply IHForall2. exact G.
Qed.

Lemma sames_In : forall d d' t', sames d d' -> In t' d' -> exists t, In t d /\ same_schema t t'.
Proof.
  intros d d' t' H. induction H; intros HI; [contradiction|].
  destruct HI as [->|HI].
  - exists x. split; [left; reflexivity|assumption].
  - destruct (IHForall2 HI) as [t [Ht Hs]]. exists t. split; [right|]; assumption.
Qed.

Lemma sames_In_fwd : forall d d' t, sames d d' -> In t d -> exists t', In t' d' /\ same_schema t t'.
Proof.
  intros d d' t H. induction H; intros HI; [contradiction|].
  destruct HI as [->|HI].
  - exists y. split; [left; reflexivity|assumption].
  - destruct (IHForall2 HI) as [t' [Ht Hs]]. exists t'. split; [right|]; assumption.
Qed.

Lemma fk_standard_sames : forall d d' t t' fk,
  sames d d' -> same_schema t t' -> fk_standard d' t' fk = fk_standard d t fk.
Proof.
  intros d d' t t' fk S [_ [Hc _]]. unfold fk_standard, ncols. rewrite Hc.
  destruct (get_table d (fk_parent fk)) as [pt|] eqn:G.
  - destruct (sames_get _ _ _ _ S G) as [pt' [G' [_ [_ [Hpk _]]]]]. rewrite G', Hpk. reflexivity.
  - destruct (get_table d' (fk_parent fk)) as [pt'|] eqn:G'; [|reflexivity].
    destruct (sames_get_rev _ _ _ _ S G') as [pt [G2 _]]. congruence.
Qed.

Lemma schema_standard_sames : forall d d', sames d d' -> schema_standard d' = schema_standard d.
Proof.
  intros d d' S. unfold schema_standard.
  assert (forall l l', Forall2 same_schema l l' ->
    forallb (fun t => forallb (fk_standard d' t) (t_fks t)
       && match t_pk t with Some pk => strictly_ascending pk && forallb (fun c => Nat.ltb c (ncols t)) pk | None => true end) l' =
    forallb (fun t => forallb (fk_standard d t) (t_fks t)
       && match t_pk t with Some pk => strictly_ascending pk && forallb (fun c => Nat.ltb c (ncols t)) pk | None => true end) l) as X.
  { intros l l' F. induction F as [|x y l l' Hxy F IH]; [reflexivity|]. cbn [forallb]. rewrite IH. f_equal.
    pose proof Hxy as [A1 [A2 [A3 A4]]]. rewrite A3, A4. unfold ncols. rewrite A2. f_equal.
    apply forallb_ext'. intros fk. apply (fk_standard_sames d d' x y fk S Hxy). }
  apply X. exact S.
Qed.

Lemma set_rows_sames : forall d n rs, sames d (set_rows d n rs).
Proof.
  intros d n rs. unfold sames, set_rows. induction d as [|x d IH]; cbn; constructor; [|exact IH].
  destruct (Nat.eqb (t_name x) n); repeat split.
Qed.

Lemma pk_cols_ok_sames : forall d d', sames d d' -> pk_cols_ok d -> pk_cols_ok d'.
Proof.
  intros d d' S P t' pk Ht Hpk. destruct (sames_In _ _ _ S Ht) as [t [Hin [_ [Hc [Hp _]]]]].
  rewrite Hp in Hpk. unfold ncols, col_nullable. rewrite Hc. apply P; assumption.
Qed.
