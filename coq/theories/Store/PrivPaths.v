(** Access-path table of vibesql's executor (C26): for every statement shape that touches a table, the
    sequence of privilege checks and data accesses the code performs, read off the call graph, next to the
    privileges the property requires for that shape.

    Call graph facts (crates/vibesql-executor/src, tree as of the last [fix:] commit):
    - [PrivilegeChecker::check_select] is called in exactly one function, [select/scan/table.rs:
      execute_table_scan] (once for a view name, once for a base table; CTE names are not checked, their
      bodies are).  Every FROM item - plain, join side, join-reorder ([scan/reorder.rs]), derived table, view
      body, CTE body, set-operation arm - and every subquery executed through [SelectExecutor::execute]
      ([evaluator/*/subqueries.rs]) reaches it before [Database::get_table].  The index scan
      ([scan/index_scan]) is entered from [execute_table_scan] after the check.
    - three fast paths read a table without going through [execute_table_scan]; since the fixes
      "count-star-check-select", "in-subquery-index-check-select" and "bulk-transfer-check-select" each makes the
      same [check_select] call itself before it touches the table:
        [select/executor/aggregation/mod.rs: execute_with_aggregation] "fast path: simple COUNT( * )" ([row_count()]);
        [evaluator/combined/subqueries.rs: try_index_optimized_in_subquery] ([x IN (SELECT col FROM t)] with an
          index on [col]; reached from ORDER BY / GROUP BY / PARTITION BY expressions);
        [insert/bulk_transfer.rs: try_bulk_transfer] ([INSERT INTO d SELECT * FROM s], compatible schemas).
    - [check_insert]: [insert/execution.rs: execute_insert_internal] first statement, followed by [check_update] when
      the statement has ON DUPLICATE KEY UPDATE and [check_delete] when it is REPLACE / INSERT OR REPLACE (fix
      "upsert-replace-check"), all before any row is touched.
    - [check_update]: [update/mod.rs: execute_internal] first statement.  [check_delete]: [delete/executor.rs:
      execute_internal] first statement, [truncate/mod.rs] for every listed table before any work; under CASCADE
      [truncate/core.rs: validate_truncate_cascade] checks the dependency closure of EVERY listed table before the
      first one is truncated (fix "truncate-cascade-check-first"), then [execute_truncate_cascade] re-checks per table.
    - DELETE evaluates its WHERE clause per row and keeps a row whose predicate raises an error - except
      PermissionDenied, which fails the statement ([delete/executor.rs: collect_rows_with_scan], fix
      "delete-where-propagate-denied"); UPDATE propagates every error.  The window PARTITION BY clause maps evaluation
      errors to NULL inside [partition_rows], but [select/window/evaluation.rs] remembers the first error and fails
      the statement (fix "window-partition-propagate-error").  (The window ORDER BY clause is evaluated by a toy
      evaluator that never runs a subquery, for any role; not an access path.)
    - referential actions ([delete/integrity.rs], [update/foreign_keys.rs]) write the child table without a check
      (SQL: they run with the authority of the constraint, [ARefWrite] below; not counted as a defect).
    [program_before] keeps the table as it was before these fixes (13 unguarded, 3 silent, 1 partial path).
    Model file: definitions only. *)
From Coq Require Import List Bool.
Import ListNotations.

(** tables of the fixture the harness builds: T target (parent of C, FK ON DELETE/UPDATE CASCADE), S the
    protected source (indexed column k), M a second readable table, V a view over S, U a plain target,
    P a parent referenced by D (no action) *)
Inductive tbl : Type := TT | TS | TM | TV | TC | TU | TP | TD.
Inductive access : Type := ASel | AIns | AUpd | ADel.

Inductive action : Type :=
| ACheck (t : tbl) (a : access)       (* PrivilegeChecker call; failure aborts the statement with PermissionDenied *)
| ACheckSoft (t : tbl) (a : access)   (* the same call, but the caller swallows the error: the rest is skipped, the statement succeeds
                                         (no path of the current code does; DELETE's WHERE and the window PARTITION BY clause used to) *)
| ARead (t : tbl)                     (* rows of t flow into the result or decide the effect *)
| AWrite (t : tbl) (a : access)       (* rows of t are inserted / updated / deleted *)
| ARefWrite (t : tbl).                (* referential action on a child table *)

Definition tbl_eqb (a b : tbl) : bool :=
  match a, b with
  | TT, TT | TS, TS | TM, TM | TV, TV | TC, TC | TU, TU | TP, TP | TD, TD => true
  | _, _ => false
  end.
Definition access_eqb (a b : access) : bool :=
  match a, b with
  | ASel, ASel | AIns, AIns | AUpd, AUpd | ADel, ADel => true
  | _, _ => false
  end.
Definition ta_eqb (x y : tbl * access) : bool := tbl_eqb (fst x) (fst y) && access_eqb (snd x) (snd y).
Definition memp (x : tbl * access) (l : list (tbl * access)) : bool := existsb (ta_eqb x) l.

Inductive outcome : Type := OOk | ODenied.
Inductive event : Type := ERead (t : tbl) | EWrite (t : tbl) (a : access) | ERef (t : tbl).

(** execution of a statement's access program under the privileges [held] *)
Fixpoint run (held : tbl -> access -> bool) (prog : list action) : outcome * list event :=
  match prog with
  | [] => (OOk, [])
  | ACheck t a :: r => if held t a then run held r else (ODenied, [])
  | ACheckSoft t a :: r => if held t a then run held r else (OOk, [])
  | ARead t :: r => (fst (run held r), ERead t :: snd (run held r))
  | AWrite t a :: r => (fst (run held r), EWrite t a :: snd (run held r))
  | ARefWrite t :: r => (fst (run held r), ERef t :: snd (run held r))
  end.

(** what the property allows: reads need SELECT, writes the matching privilege, referential actions nothing *)
Definition permitted (held : tbl -> access -> bool) (e : event) : bool :=
  match e with
  | ERead t => held t ASel
  | EWrite t a => held t a
  | ERef _ => true
  end.

Definition is_change (e : event) : bool := match e with ERead _ => false | _ => true end.

(** every read / write is preceded by its check *)
Fixpoint guardedb (seen : list (tbl * access)) (prog : list action) : bool :=
  match prog with
  | [] => true
  | ACheck t a :: r => guardedb ((t, a) :: seen) r
  | ACheckSoft t a :: r => guardedb ((t, a) :: seen) r
  | ARead t :: r => memp (t, ASel) seen && guardedb seen r
  | AWrite t a :: r => memp (t, a) seen && guardedb seen r
  | ARefWrite _ :: r => guardedb seen r
  end.

Definition is_hard_check (a : action) : bool := match a with ACheck _ _ => true | _ => false end.
Definition is_soft_check (a : action) : bool := match a with ACheckSoft _ _ => true | _ => false end.

(** no check that can abort comes after a write *)
Fixpoint atomicb (prog : list action) : bool :=
  match prog with
  | [] => true
  | AWrite _ _ :: r => forallb (fun a => negb (is_hard_check a)) r
  | ARefWrite _ :: r => forallb (fun a => negb (is_hard_check a)) r
  | _ :: r => atomicb r
  end.

(** no swallowed check *)
Definition loudb (prog : list action) : bool := forallb (fun a => negb (is_soft_check a)) prog.

(** the data flows of a program: what it reads and writes (referential actions excluded) *)
Fixpoint flows (prog : list action) : list (tbl * access) :=
  match prog with
  | [] => []
  | ARead t :: r => (t, ASel) :: flows r
  | AWrite t a :: r => (t, a) :: flows r
  | _ :: r => flows r
  end.

(** ** the statement shapes *)
Inductive path : Type :=
(* reads of S *)
| P_scan | P_scan_where | P_index_scan | P_pk_lookup | P_order_limit
| P_join_inner | P_join_secret_left | P_join_comma | P_left_join
| P_derived | P_view | P_cte
| P_scalar_subquery | P_in_subquery_where | P_in_subquery_select_list | P_not_in_subquery
| P_exists_correlated | P_quantified_any | P_union
| P_count_star | P_sum | P_group_by
| P_count_star_order_by | P_count_star_limit | P_count_star_union_arm | P_count_star_with_cte | P_count_star_scalar_limit
| P_in_index_order_by | P_in_index_group_by | P_in_index_partition_by
| P_window_partition_subquery
(* writes *)
| P_insert_values | P_insert_select | P_insert_select_columns | P_insert_select_bulk | P_insert_select_subquery
| P_update_plain | P_update_pk | P_update_where_subquery | P_update_set_subquery | P_update_where_exists
| P_delete_where | P_delete_pk | P_delete_all | P_delete_where_subquery | P_delete_where_exists
| P_truncate | P_truncate_multi | P_truncate_cascade | P_truncate_multi_cascade
| P_on_duplicate_key_update | P_replace_into | P_insert_or_replace
| P_fk_cascade_delete | P_fk_cascade_update.

Definition all_paths : list path :=
  [ P_scan; P_scan_where; P_index_scan; P_pk_lookup; P_order_limit;
    P_join_inner; P_join_secret_left; P_join_comma; P_left_join;
    P_derived; P_view; P_cte;
    P_scalar_subquery; P_in_subquery_where; P_in_subquery_select_list; P_not_in_subquery;
    P_exists_correlated; P_quantified_any; P_union;
    P_count_star; P_sum; P_group_by;
    P_count_star_order_by; P_count_star_limit; P_count_star_union_arm; P_count_star_with_cte; P_count_star_scalar_limit;
    P_in_index_order_by; P_in_index_group_by; P_in_index_partition_by;
    P_window_partition_subquery;
    P_insert_values; P_insert_select; P_insert_select_columns; P_insert_select_bulk; P_insert_select_subquery;
    P_update_plain; P_update_pk; P_update_where_subquery; P_update_set_subquery; P_update_where_exists;
    P_delete_where; P_delete_pk; P_delete_all; P_delete_where_subquery; P_delete_where_exists;
    P_truncate; P_truncate_multi; P_truncate_cascade; P_truncate_multi_cascade;
    P_on_duplicate_key_update; P_replace_into; P_insert_or_replace;
    P_fk_cascade_delete; P_fk_cascade_update ].

Definition read_S : list action := [ACheck TS ASel; ARead TS].
Definition read_M : list action := [ACheck TM ASel; ARead TM].

(** the table as it was before the C26 fixes (kept for the record and for [PrivPathsLaws.before_*]) *)
Definition program_before (p : path) : list action :=
  match p with
  | P_scan | P_scan_where | P_index_scan | P_pk_lookup | P_order_limit
  | P_derived | P_cte | P_count_star | P_sum | P_group_by => read_S
  | P_join_inner | P_join_comma | P_left_join | P_union => read_M ++ read_S
  | P_join_secret_left => read_S ++ read_M
  | P_view => ACheck TV ASel :: read_S
  | P_scalar_subquery | P_in_subquery_where | P_in_subquery_select_list | P_not_in_subquery
  | P_exists_correlated | P_quantified_any => read_M ++ read_S
  (* the COUNT( * ) fast path: row_count() without a check *)
  | P_count_star_order_by | P_count_star_limit | P_count_star_union_arm | P_count_star_with_cte => [ARead TS]
  | P_count_star_scalar_limit => read_M ++ [ARead TS]
  (* the index-optimised IN (subquery): table.scan() without a check *)
  | P_in_index_order_by | P_in_index_group_by | P_in_index_partition_by => read_M ++ [ARead TS]
  (* window PARTITION BY: the subquery's refusal is swallowed *)
  | P_window_partition_subquery => read_M ++ [ACheckSoft TS ASel; ARead TS]
  | P_insert_values => [ACheck TT AIns; AWrite TT AIns]
  | P_insert_select | P_insert_select_columns => ACheck TT AIns :: read_S ++ [AWrite TT AIns]
  (* try_bulk_transfer: src_table.scan() without a check *)
  | P_insert_select_bulk => [ACheck TT AIns; ARead TS; AWrite TT AIns]
  | P_insert_select_subquery => ACheck TT AIns :: read_M ++ read_S ++ [AWrite TT AIns]
  | P_update_plain => [ACheck TU AUpd; AWrite TU AUpd]
  | P_update_pk => [ACheck TU AUpd; AWrite TU AUpd]
  | P_update_where_subquery | P_update_set_subquery | P_update_where_exists =>
      ACheck TU AUpd :: read_S ++ [AWrite TU AUpd]
  | P_delete_where | P_delete_pk | P_delete_all => [ACheck TU ADel; AWrite TU ADel]
  (* DELETE swallows errors of its WHERE clause *)
  | P_delete_where_subquery | P_delete_where_exists => [ACheck TU ADel; ACheckSoft TS ASel; ARead TS; AWrite TU ADel]
  | P_truncate => [ACheck TU ADel; AWrite TU ADel]
  | P_truncate_multi => [ACheck TU ADel; ACheck TM ADel; AWrite TU ADel; AWrite TM ADel]
  | P_truncate_cascade => [ACheck TP ADel; ACheck TD ADel; ACheck TP ADel; AWrite TD ADel; AWrite TP ADel]
  (* the closure of the second listed table is checked after the first one is truncated *)
  | P_truncate_multi_cascade =>
      [ACheck TU ADel; ACheck TP ADel; ACheck TU ADel; AWrite TU ADel;
       ACheck TD ADel; ACheck TP ADel; AWrite TD ADel; AWrite TP ADel]
  (* one INSERT check covers the update / delete of the existing row *)
  | P_on_duplicate_key_update => [ACheck TU AIns; AWrite TU AUpd; AWrite TU AIns]
  | P_replace_into | P_insert_or_replace => [ACheck TU AIns; AWrite TU ADel; AWrite TU AIns]
  | P_fk_cascade_delete => [ACheck TT ADel; AWrite TT ADel; ARefWrite TC]
  | P_fk_cascade_update => [ACheck TT AUpd; AWrite TT AUpd; ARefWrite TC]
  end.

(** what the code does on each path (checks in call order) *)
Definition program (p : path) : list action :=
  match p with
  | P_count_star_order_by | P_count_star_limit | P_count_star_union_arm | P_count_star_with_cte => read_S
  | P_count_star_scalar_limit | P_in_index_order_by | P_in_index_group_by | P_in_index_partition_by => read_M ++ read_S
  | P_insert_select_bulk => ACheck TT AIns :: read_S ++ [AWrite TT AIns]
  | P_on_duplicate_key_update => [ACheck TU AIns; ACheck TU AUpd; AWrite TU AUpd; AWrite TU AIns]
  | P_replace_into | P_insert_or_replace => [ACheck TU AIns; ACheck TU ADel; AWrite TU ADel; AWrite TU AIns]
  | P_delete_where_subquery | P_delete_where_exists => ACheck TU ADel :: read_S ++ [AWrite TU ADel]
  | P_window_partition_subquery => read_M ++ read_S
  | P_truncate_multi_cascade =>
      [ACheck TU ADel; ACheck TP ADel; ACheck TU ADel; ACheck TD ADel; ACheck TP ADel;
       AWrite TU ADel; AWrite TD ADel; AWrite TP ADel]
  | _ => program_before p
  end.

(** what the property requires of each shape (written down from the SQL text, independently of [program]) *)
Definition required (p : path) : list (tbl * access) :=
  match p with
  | P_scan | P_scan_where | P_index_scan | P_pk_lookup | P_order_limit
  | P_derived | P_view | P_cte | P_count_star | P_sum | P_group_by
  | P_count_star_order_by | P_count_star_limit | P_count_star_union_arm | P_count_star_with_cte => [(TS, ASel)]
  | P_join_inner | P_join_secret_left | P_join_comma | P_left_join | P_union
  | P_scalar_subquery | P_in_subquery_where | P_in_subquery_select_list | P_not_in_subquery
  | P_exists_correlated | P_quantified_any | P_count_star_scalar_limit
  | P_in_index_order_by | P_in_index_group_by | P_in_index_partition_by
  | P_window_partition_subquery => [(TM, ASel); (TS, ASel)]
  | P_insert_values => [(TT, AIns)]
  | P_insert_select | P_insert_select_columns | P_insert_select_bulk => [(TT, AIns); (TS, ASel)]
  | P_insert_select_subquery => [(TT, AIns); (TM, ASel); (TS, ASel)]
  | P_update_plain | P_update_pk => [(TU, AUpd)]
  | P_update_where_subquery | P_update_set_subquery | P_update_where_exists => [(TU, AUpd); (TS, ASel)]
  | P_delete_where | P_delete_pk | P_delete_all | P_truncate => [(TU, ADel)]
  | P_delete_where_subquery | P_delete_where_exists => [(TU, ADel); (TS, ASel)]
  | P_truncate_multi => [(TU, ADel); (TM, ADel)]
  | P_truncate_cascade => [(TP, ADel); (TD, ADel)]
  | P_truncate_multi_cascade => [(TU, ADel); (TP, ADel); (TD, ADel)]
  | P_on_duplicate_key_update => [(TU, AIns); (TU, AUpd)]
  | P_replace_into | P_insert_or_replace => [(TU, AIns); (TU, ADel)]
  | P_fk_cascade_delete => [(TT, ADel)]
  | P_fk_cascade_update => [(TT, AUpd)]
  end.

(** [held] from a list of granted (table, access) pairs *)
Definition held_of (l : list (tbl * access)) (t : tbl) (a : access) : bool := memp (t, a) l.
