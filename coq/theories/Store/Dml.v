(** C10/C15 model, part 4: the database state and [step : db -> stmt -> db * result] for
      INSERT ... VALUES (single / multi-row)      insert/execution.rs + Database::insert_row / insert_rows_batch
      INSERT INTO dst SELECT * FROM src           insert/bulk_transfer.rs (bulk path) or the VALUES path
      UPDATE (multi-row, key-changing)            update/mod.rs
      DELETE with / without WHERE                 delete/executor.rs
      TRUNCATE TABLE                              truncate/core.rs
      CREATE [UNIQUE] INDEX / DROP INDEX          index_ddl/{create_index,drop_index}.rs + index_maintenance.rs
      ALTER TABLE ADD PRIMARY KEY / UNIQUE / CHECK   alter/constraints.rs
      BEGIN / COMMIT / ROLLBACK, SAVEPOINT / ROLLBACK TO / RELEASE   database/{core,transactions}.rs
    with every validation phase in source order.  Tables have INTEGER columns, no triggers and
    no foreign keys; the set of tables is fixed (CREATE / DROP TABLE are outside the model).

    The user-defined indexes live in [Database::operations.index_manager], outside the table
    map; the model stores each index in the record of the table it belongs to ([t_uidx]).  The
    transaction snapshot clones the catalog, the table map and the index DEFINITIONS; ROLLBACK
    restores the tables, drops every index and re-creates the recorded ones from the restored rows.

    Executable definitions only. *)
From Coq Require Import List ZArith Bool Arith Lia.
From VibeSQL Require Import Store.Table Store.UserIndex Store.Constraints.
Import ListNotations.

(* ------------------------------------------------------------------------------------ *)
(** * Database state *)

(** TransactionChange: only Database::insert_row / insert_rows_batch record changes
    (TransactionChange::Insert { table, row }); UPDATE and DELETE record nothing. *)
Record txn := {
  x_snap : list table;                 (* original_tables (+ original_catalog: the schemas) *)
  x_saves : list (Z * nat);            (* savepoints: (name, snapshot_index) *)
  x_changes : list (nat * row);        (* (table, inserted row) *)
}.

Record db := { d_tabs : list table; d_txn : option txn }.

Inductive result :=
| ROk (n : nat)          (* row count / DDL done (0) *)
| RErrConstraint         (* ExecutorError::ConstraintViolation *)
| RErrStorage            (* a StorageError surfaced by the executor *)
| RErrOther              (* any other error (not found, already exists, column count, ...) *)
| RPanic.                (* the Rust code would panic *)

(* ------------------------------------------------------------------------------------ *)
(** * Statements *)

Inductive sexpr :=
| EConst (v : val)                     (* SET c = literal / NULL *)
| ECol (c : nat)                       (* SET c = other column *)
| EAddC (c : nat) (k : Z).             (* SET c = col + literal *)

Inductive stmt :=
| SInsert (t : nat) (rows : list row)
| SInsertSelect (dst src : nat) (sel : list row)   (* sel = what SELECT * FROM src returns (used by the non-bulk path only) *)
| SUpdate (t : nat) (asg : list (nat * sexpr)) (w : option pred)
| SDelete (t : nat) (w : option pred)
| STruncate (t : nat)
| SCreateIndex (name : Z) (t : nat) (uniq : bool) (cols : list nat)
| SDropIndex (name : Z)
| SAddPk (t : nat) (cols : list nat)
| SAddUnique (t : nat) (cols : list nat)
| SAddCheck (t : nat) (c : pred)
| SBegin | SCommit | SRollback
| SSavepoint (name : Z) | SRollbackTo (name : Z) | SRelease (name : Z).

(* ------------------------------------------------------------------------------------ *)
(** * Database::insert_row / insert_rows_batch (database/operations.rs) on one table *)

(** insert_row: storage-level unique-index check, Table::insert, then the user indexes.
    Returns the table and whether the call succeeded (a failure happens before any mutation). *)
Definition db_insert_row (t : table) (r : row) : table * bool :=
  if uidx_unique_violation (t_uidx t) r then (t, false)       (* UniqueConstraintViolation *)
  else
    let n := length (t_rows t) in
    match tbl_insert t r with
    | inl _ => (t, false)
    | inr t' => (set_uidx t' (uidx_for_insert (t_uidx t') r n), true)
    end.

(** [for row in &rows { table.insert(row.clone())?; }]: a failing row leaves the earlier ones in *)
Fixpoint tbl_insert_all (t : table) (rows : list row) : table * bool :=
  match rows with
  | [] => (t, true)
  | r :: rest => match tbl_insert t r with inl _ => (t, false) | inr t' => tbl_insert_all t' rest end
  end.

Fixpoint uidx_add_all (us : list uindex) (n : nat) (rows : list row) : list uindex :=
  match rows with
  | [] => us
  | r :: rest => uidx_add_all (uidx_for_insert us r n) (S n) rest
  end.

(** insert_rows_batch: every row is checked against the user indexes AS THEY ARE BEFORE THE
    BATCH, then all rows go into the table, then all rows go into the user indexes *)
Definition db_insert_batch (t : table) (rows : list row) : table * bool :=
  if existsb (uidx_unique_violation (t_uidx t)) rows then (t, false)
  else
    let n := length (t_rows t) in
    let '(t1, ok) := tbl_insert_all t rows in
    if ok then (set_uidx t1 (uidx_add_all (t_uidx t1) n rows), true) else (t1, false).

(* ------------------------------------------------------------------------------------ *)
(** * INSERT ... VALUES (execute_insert_internal) *)

(** returns the new table, the result and the rows recorded as TransactionChange::Insert *)
Definition do_insert_values (t : table) (rows : list row) : table * result * list row :=
  let s := t_sch t in
  (* validate_row_column_counts *)
  if negb (forallb (fun r => length r =? s_ncols s) rows) then (t, RErrOther, [])
  else if negb (rv_validate_all t [] (map (fun _ => []) (s_uniqs s)) rows) then (t, RErrConstraint, [])
  else
    match rows with
    | [] => (t, ROk 0, [])
    | [r] =>
        let '(t', ok) := db_insert_row t r in
        if ok then (t', ROk 1, [r]) else (t', RErrStorage, [])
    | _ =>
        let '(t', ok) := db_insert_batch t rows in
        if ok then (t', ROk (length rows), rows) else (t', RErrStorage, [])
    end.

(* ------------------------------------------------------------------------------------ *)
(** * INSERT INTO dst SELECT * FROM src *)

(** check_schema_compatibility: same column count, same types (all INTEGER here), and a NOT
    NULL destination column requires a NOT NULL source column *)
Definition bulk_compatible (d s : schema) : bool :=
  (s_ncols d =? s_ncols s)
  && (length (s_notnull d) =? length (s_notnull s))
  && forallb (fun p => negb (fst p && negb (snd p))) (combine (s_notnull d) (s_notnull s)).

(** execute_bulk_transfer, phase A: every source row is validated against the destination AS IT IS
    BEFORE THE STATEMENT and against the rows in front of it in the batch; nothing is inserted
    until all rows have passed, so a constraint failure leaves the table unchanged. *)
Fixpoint bulk_validate (t : table) (seen_pk : list key) (seen_uq : list (list key)) (src : list row) : bool :=
  match src with
  | [] => true
  | r :: rest =>
      let s := t_sch t in
      bulk_pk_ok t seen_pk r
      && bulk_unique_ok (s_uniqs s) seen_uq (t_uqidx t) r
      && checks_ok (s_checks_enf s) r
      && bulk_validate t
           (match s_pk s with Some cols => seen_pk ++ [proj cols r] | None => seen_pk end)
           (bulk_seen_uq_push (s_uniqs s) seen_uq r) rest
  end.

(** phase B: Database::insert_row for every row; a storage-level failure (UNIQUE index, NOT
    NULL) at row k leaves rows < k inserted.  Returns (table, result, inserted rows). *)
Fixpoint bulk_insert (t : table) (src : list row) (cnt : nat) (ins : list row) : table * result * list row :=
  match src with
  | [] => (t, ROk cnt, ins)
  | r :: rest =>
      let '(t', ok) := db_insert_row t r in
      if ok then bulk_insert t' rest (S cnt) (ins ++ [r]) else (t', RErrStorage, ins)
  end.

(** The bulk path reads the source table's rows directly ([src_table.scan()]).  The fallback
    executes the SELECT through the query executor, whose row order is its own business (it is
    not always the storage order): [sel] stands for whatever it returned. *)
Definition do_insert_select (dst : table) (same : bool) (src_sch : schema) (src_rows sel : list row)
  : table * result * list row :=
  if negb same && bulk_compatible (t_sch dst) src_sch then
    if bulk_validate dst [] (map (fun _ => []) (s_uniqs (t_sch dst))) src_rows
    then bulk_insert dst src_rows 0 [] else (dst, RErrConstraint, [])
  else if negb (s_ncols src_sch =? s_ncols (t_sch dst)) then (dst, RErrOther, [])
  else do_insert_values dst sel.

(* ------------------------------------------------------------------------------------ *)
(** * Row selection shared by UPDATE (row_selector.rs) and DELETE (executor.rs) *)

Fixpoint scan_from (n : nat) (w : option pred) (rows : list row) : list (nat * row) :=
  match rows with
  | [] => []
  | r :: rest =>
      let keep := match w with Some p => pred_true p r | None => true end in
      if keep then (n, r) :: scan_from (S n) w rest else scan_from (S n) w rest
  end.

(** extract_primary_key_lookup: WHERE <single pk column> = <literal>.  The right-hand side must be
    an [Expression::Literal]; the parser reads a negative number as unary minus applied to a
    literal, so [c = -5] does not qualify and goes through the scan. *)
Definition pk_lookup (s : schema) (w : option pred) : option key :=
  match w, s_pk s with
  | Some (PCmpC c OEq v), Some [pc] => if (c =? pc) && (0 <=? v)%Z then Some [Some v] else None
  | _, _ => None
  end.

(** [None] = panic ([table.scan()[row_index]] out of bounds) *)
Definition select_rows (t : table) (w : option pred) : option (list (nat * row)) :=
  match pk_lookup (t_sch t) w, t_pkidx t with
  | Some k, Some m =>
      match am_find k m with
      | Some i => match nth_error (t_rows t) i with Some r => Some [(i, r)] | None => None end
      | None => Some []
      end
  | _, _ => Some (scan_from 0 w (t_rows t))
  end.

(* ------------------------------------------------------------------------------------ *)
(** * UPDATE *)

Definition I64_MIN : Z := -9223372036854775808.
Definition I64_MAX : Z := 9223372036854775807.

(** [None] = evaluation error: i64 overflow in [+] / [-] (checked_add / checked_sub ->
    ExecutorError "BIGINT value is out of range") *)
Definition eval_sexpr (e : sexpr) (r : row) : option val :=
  match e with
  | EConst v => Some v
  | ECol c => Some (nth c r None)
  | EAddC c k =>
      match nth c r None with
      | None => Some None
      | Some x => let y := (x + k)%Z in
                  if (I64_MIN <=? y)%Z && (y <=? I64_MAX)%Z then Some (Some y) else None
      end
  end.

(** ValueUpdater::apply_assignments: every right-hand side reads the ORIGINAL row *)
Fixpoint apply_asg (orig : row) (asg : list (nat * sexpr)) (acc : row) : option row :=
  match asg with
  | [] => Some acc
  | (c, e) :: rest =>
      match eval_sexpr e orig with
      | None => None
      | Some v => apply_asg orig rest (set_nth c v acc)
      end
  end.

Inductive upd_plan := UEvalErr | UConstraint | UPlan (us : list (nat * row * row)).

(** step 6 of UpdateExecutor::execute_internal: build and validate (against the pre-statement
    table) the list (index, old row, new row) *)
Fixpoint upd_build (t : table) (asg : list (nat * sexpr)) (cands : list (nat * row))
         (acc : list (nat * row * row)) : upd_plan :=
  match cands with
  | [] => UPlan acc
  | (i, old) :: rest =>
      match apply_asg old asg old with
      | None => UEvalErr
      | Some new =>
          if upd_validate t old new then upd_build t asg rest (acc ++ [(i, old, new)])
          else UConstraint
      end
  end.

(** step 8: update_row_selective for every planned row; a failing row leaves the earlier
    ones updated *)
Fixpoint upd_apply_rows (t : table) (changed : list nat) (us : list (nat * row * row)) : table * bool :=
  match us with
  | [] => (t, true)
  | (i, _, new) :: rest =>
      match tbl_update_row_selective t i new changed with
      | inl _ => (t, false)
      | inr t' => upd_apply_rows t' changed rest
      end
  end.

(** afterwards: Database::update_indexes_for_update for every planned row *)
Fixpoint upd_apply_uidx (us : list uindex) (ups : list (nat * row * row)) : list uindex :=
  match ups with
  | [] => us
  | (i, old, new) :: rest => upd_apply_uidx (uidx_for_update us old new i) rest
  end.

Definition do_update (t : table) (asg : list (nat * sexpr)) (w : option pred) : table * result :=
  if negb (forallb (fun a => fst a <? s_ncols (t_sch t)) asg) then (t, RErrOther)
  else
    match select_rows t w with
    | None => (t, RPanic)
    | Some cands =>
        match upd_build t asg cands [] with
        | UEvalErr => (t, RErrOther)
        | UConstraint => (t, RErrConstraint)
        | UPlan ups =>
            let '(t', ok) := upd_apply_rows t (map fst asg) ups in
            if ok then (set_uidx t' (upd_apply_uidx (t_uidx t') ups), ROk (length ups))
            else (t', RErrStorage)
        end
    end.

(* ------------------------------------------------------------------------------------ *)
(** * DELETE / TRUNCATE *)

(** Database::rebuild_indexes(table): every user index of the table is rebuilt from the
    table's current rows (IndexManager::rebuild_indexes) *)
Definition db_rebuild_uidx (t : table) : table := set_uidx t (uidx_rebuild (t_uidx t) (t_rows t)).

(** DELETE: without WHERE (no triggers, not FK-referenced) the executor takes the truncate fast
    path: [Table::clear], then [Database::rebuild_indexes].  With WHERE it removes the selected
    rows with [Table::delete_where] (positions shift, the hash maps are rebuilt) and then calls
    [Database::rebuild_indexes]. *)
Definition do_delete (t : table) (w : option pred) : table * result :=
  match w with
  | None => (db_rebuild_uidx (tbl_clear t), ROk (length (t_rows t)))
  | Some _ =>
      match select_rows t w with
      | None => (t, RPanic)
      | Some sel =>
          let '(t', n) := tbl_delete_at t (map fst sel) in (db_rebuild_uidx t', ROk n)
      end
  end.

(** TRUNCATE TABLE (truncate/core.rs execute_truncate): Table::clear, rebuild_indexes *)
Definition do_truncate (t : table) : table * result :=
  (db_rebuild_uidx (tbl_clear t), ROk (length (t_rows t))).

(* ------------------------------------------------------------------------------------ *)
(** * CREATE / DROP INDEX *)

Definition index_exists (name : Z) (ts : list table) : bool :=
  existsb (fun t => existsb (fun u => Z.eqb (ui_name u) name) (t_uidx t)) ts.

(** IndexManager::create_index: a UNIQUE index over rows that already hold a duplicate NULL-free
    key is refused (checked in [step]); otherwise the data is built from the current rows *)
Definition do_create_index (t : table) (name : Z) (uniq : bool) (cols : list nat) : table :=
  set_uidx t (t_uidx t ++ [{| ui_name := name; ui_unique := uniq; ui_cols := cols;
                              ui_data := ui_rebuild cols (t_rows t) |}]).

Definition do_drop_index (name : Z) (t : table) : table :=
  set_uidx t (filter (fun u => negb (Z.eqb (ui_name u) name)) (t_uidx t)).

(* ------------------------------------------------------------------------------------ *)
(** * ALTER TABLE ADD CONSTRAINT (alter/constraints.rs): no existing row is validated *)

Definition sch_with_pk (s : schema) (cols : list nat) : schema :=
  {| s_ncols := s_ncols s; s_notnull := s_notnull s; s_pk := Some cols; s_uniqs := s_uniqs s;
     s_checks_enf := s_checks_decl s;          (* the catalog copy is replaced by the storage copy *)
     s_checks_decl := s_checks_decl s |}.
Definition sch_with_unique (s : schema) (cols : list nat) : schema :=
  {| s_ncols := s_ncols s; s_notnull := s_notnull s; s_pk := s_pk s; s_uniqs := s_uniqs s ++ [cols];
     s_checks_enf := s_checks_decl s;
     s_checks_decl := s_checks_decl s |}.
Definition sch_with_check (s : schema) (c : pred) : schema :=
  {| s_ncols := s_ncols s; s_notnull := s_notnull s; s_pk := s_pk s; s_uniqs := s_uniqs s;
     s_checks_enf := s_checks_enf s;           (* only Table::schema changes, not the catalog *)
     s_checks_decl := s_checks_decl s ++ [c] |}.

Definition cols_valid (s : schema) (cols : list nat) : bool := forallb (fun c => c <? s_ncols s) cols.

Definition do_add_pk (t : table) (cols : list nat) : table * result :=
  if negb (cols_valid (t_sch t) cols) then (t, RErrOther)
  else match s_pk (t_sch t) with
       | Some _ => (t, RErrConstraint)     (* "Table already has a PRIMARY KEY constraint" *)
       | None => (tbl_rebuild_indexes (set_sch t (sch_with_pk (t_sch t) cols)), ROk 0)
       end.

Definition do_add_unique (t : table) (cols : list nat) : table * result :=
  if negb (cols_valid (t_sch t) cols) then (t, RErrOther)
  else (tbl_rebuild_indexes (set_sch t (sch_with_unique (t_sch t) cols)), ROk 0).

Definition do_add_check (t : table) (c : pred) : table * result :=
  (set_sch t (sch_with_check (t_sch t) c), ROk 0).

(* ------------------------------------------------------------------------------------ *)
(** * Transactions *)

(** rollback_transaction: catalog and table map are replaced by the snapshot; then every index of
    the index manager is dropped and the indexes that existed at BEGIN (their definitions are
    part of the snapshot) are created again from the restored rows with
    [IndexManager::create_index] -- which refuses a UNIQUE index over duplicate keys: the first
    refusal aborts the loop (error returned, the remaining indexes stay dropped).
    The engine walks the definitions in HashMap order; the model walks them table by table in
    list order, which only matters when a re-creation is refused. *)
Fixpoint recreate_uidx (defs : list uindex) (rows : list row) : list uindex * bool :=
  match defs with
  | [] => ([], true)
  | u :: rest =>
      if ui_unique u && has_dup (somes (uq_kf (ui_cols u)) rows) then ([], false)
      else let '(l, ok) := recreate_uidx rest rows in
           (ui_set_data u (ui_rebuild (ui_cols u) rows) :: l, ok)
  end.

Fixpoint restore_tabs (snap : list table) : list table * bool :=
  match snap with
  | [] => ([], true)
  | s :: rest =>
      let '(us, ok) := recreate_uidx (t_uidx s) (t_rows s) in
      if ok then let '(ts, ok2) := restore_tabs rest in (set_uidx s us :: ts, ok2)
      else (set_uidx s us :: map (fun t => set_uidx t []) rest, false)
  end.

Fixpoint save_pos (name : Z) (l : list (Z * nat)) (n : nat) : option (nat * nat) :=
  match l with
  | [] => None
  | (nm, idx) :: r => if Z.eqb nm name then Some (n, idx) else save_pos name r (S n)
  end.

Fixpoint upd_nth {A} (i : nat) (f : A -> A) (l : list A) : list A :=
  match l, i with
  | [], _ => []
  | x :: r, O => f x :: r
  | x :: r, S i' => x :: upd_nth i' f r
  end.

(** undo_change(Insert) = Table::remove_row, applied to the drained changes in reverse order;
    the first failure (RowNotFound) aborts with the earlier undos applied *)
Fixpoint undo_all (ts : list table) (chs : list (nat * row)) : list table * bool :=
  match chs with
  | [] => (ts, true)
  | (ti, r) :: rest =>
      match nth_error ts ti with
      | None => (ts, false)
      | Some t =>
          match tbl_remove_row t r with
          | inl _ => (ts, false)
          | inr t' => undo_all (upd_nth ti (fun _ => t') ts) rest
          end
      end
  end.

Fixpoint remove_nth {A} (i : nat) (l : list A) : list A :=
  match l, i with
  | [], _ => []
  | _ :: r, O => r
  | x :: r, S i' => x :: remove_nth i' r
  end.

(* ------------------------------------------------------------------------------------ *)
(** * step *)

Definition record_inserts (d : option txn) (ti : nat) (rows : list row) : option txn :=
  match d with
  | Some x => Some {| x_snap := x_snap x; x_saves := x_saves x;
                      x_changes := x_changes x ++ map (fun r => (ti, r)) rows |}
  | None => None
  end.

Definition on_table (d : db) (ti : nat) (f : table -> table * result) : db * result :=
  match nth_error (d_tabs d) ti with
  | None => (d, RErrOther)                       (* TableNotFound *)
  | Some t => let '(t', r) := f t in
              ({| d_tabs := upd_nth ti (fun _ => t') (d_tabs d); d_txn := d_txn d |}, r)
  end.

Definition step (d : db) (s : stmt) : db * result :=
  match s with
  | SInsert ti rows =>
      match nth_error (d_tabs d) ti with
      | None => (d, RErrOther)
      | Some t =>
          let '(t', r, ins) := do_insert_values t rows in
          ({| d_tabs := upd_nth ti (fun _ => t') (d_tabs d); d_txn := record_inserts (d_txn d) ti ins |}, r)
      end
  | SInsertSelect dst src sel =>
      match nth_error (d_tabs d) dst, nth_error (d_tabs d) src with
      | Some td, Some ts =>
          let '(t', r, ins) := do_insert_select td (dst =? src) (t_sch ts) (t_rows ts) sel in
          ({| d_tabs := upd_nth dst (fun _ => t') (d_tabs d); d_txn := record_inserts (d_txn d) dst ins |}, r)
      | _, _ => (d, RErrOther)
      end
  | SUpdate ti asg w => on_table d ti (fun t => do_update t asg w)
  | SDelete ti w => on_table d ti (fun t => do_delete t w)
  | STruncate ti => on_table d ti do_truncate
  | SCreateIndex name ti uniq cols =>
      match nth_error (d_tabs d) ti with
      | None => (d, RErrOther)
      | Some t =>
          if negb (cols_valid (t_sch t) cols) then (d, RErrOther)        (* ColumnNotFound *)
          else if index_exists name (d_tabs d) then (d, RErrOther)        (* IndexAlreadyExists *)
          else if uniq && has_dup (somes (uq_kf cols) (t_rows t)) then (d, RErrStorage)   (* UniqueConstraintViolation *)
          else ({| d_tabs := upd_nth ti (fun t => do_create_index t name uniq cols) (d_tabs d);
                   d_txn := d_txn d |}, ROk 0)
      end
  | SDropIndex name =>
      if index_exists name (d_tabs d)
      then ({| d_tabs := map (do_drop_index name) (d_tabs d); d_txn := d_txn d |}, ROk 0)
      else (d, RErrOther)                                                (* IndexNotFound *)
  | SAddPk ti cols => on_table d ti (fun t => do_add_pk t cols)
  | SAddUnique ti cols => on_table d ti (fun t => do_add_unique t cols)
  | SAddCheck ti c => on_table d ti (fun t => do_add_check t c)
  | SBegin =>
      match d_txn d with
      | Some _ => (d, RErrOther)                 (* "Transaction already active" *)
      | None => ({| d_tabs := d_tabs d;
                    d_txn := Some {| x_snap := d_tabs d; x_saves := []; x_changes := [] |} |}, ROk 0)
      end
  | SCommit =>
      match d_txn d with
      | None => (d, RErrOther)
      | Some _ => ({| d_tabs := d_tabs d; d_txn := None |}, ROk 0)
      end
  | SRollback =>
      match d_txn d with
      | None => (d, RErrOther)
      | Some x => let '(ts, ok) := restore_tabs (x_snap x) in
                  ({| d_tabs := ts; d_txn := None |}, if ok then ROk 0 else RErrOther)
      end
  | SSavepoint name =>
      match d_txn d with
      | None => (d, RErrOther)
      | Some x => ({| d_tabs := d_tabs d;
                      d_txn := Some {| x_snap := x_snap x;
                                       x_saves := x_saves x ++ [(name, length (x_changes x))];
                                       x_changes := x_changes x |} |}, ROk 0)
      end
  | SRollbackTo name =>
      match d_txn d with
      | None => (d, RErrOther)
      | Some x =>
          match save_pos name (x_saves x) 0 with
          | None => (d, RErrOther)               (* savepoint not found *)
          | Some (pos, idx) =>
              let undo := rev (skipn idx (x_changes x)) in
              let x' := {| x_snap := x_snap x; x_saves := firstn (S pos) (x_saves x);
                           x_changes := firstn idx (x_changes x) |} in
              let '(ts, ok) := undo_all (d_tabs d) undo in
              ({| d_tabs := ts; d_txn := Some x' |}, if ok then ROk 0 else RErrOther)
          end
      end
  | SRelease name =>
      match d_txn d with
      | None => (d, RErrOther)
      | Some x =>
          match save_pos name (x_saves x) 0 with
          | None => (d, RErrOther)
          | Some (pos, _) =>
              ({| d_tabs := d_tabs d;
                  d_txn := Some {| x_snap := x_snap x; x_saves := remove_nth pos (x_saves x);
                                   x_changes := x_changes x |} |}, ROk 0)
          end
      end
  end.

Definition run (d : db) (ss : list stmt) : db := fold_left (fun d s => fst (step d s)) ss d.

(** a schema as CREATE TABLE produces it: both copies carry the same CHECK list *)
Definition mk_schema (n : nat) (nn : list bool) (pk : option (list nat)) (uq : list (list nat))
           (cs : list pred) : schema :=
  {| s_ncols := n; s_notnull := nn; s_pk := pk; s_uniqs := uq; s_checks_enf := cs; s_checks_decl := cs |}.

Definition db_init (schemas : list schema) : db :=
  {| d_tabs := map table_new schemas; d_txn := None |}.
