(** C17 -- the code with both proposed repairs (fixes/C17-bulk-load-separator.patch and
    fixes/C17-rebalance-single-child.patch): every history on a bulk-loaded index refines the
    ordered multimap built from the loaded entries. *)
From Coq Require Import List ZArith Sorted.
From VibeSQL Require Import Store.BTree Store.BTreeLemmas Store.BTreeLaws Store.BTreeDelete
  Store.BTreeCheck Store.BTreeSeq Store.BTreeBulk.
Import ListNotations.

Theorem patched_bulk_then_run (d : nat) (ksz : key -> Z) (d_ge : 4 <= d)
  (es : list (key * rowid)) (ops : list op) :
  StronglySorted Z.le (map fst es) ->
  match bulk_load_fixed d ksz es with
  | Ok t => refines (run d ksz true t ops) (mm_run (mm_of_list es) ops)
  | Err e => e = PageOverflow
  end.
Proof.
  intros Hs. pose proof (bulk_load_fixed_spec d ksz es Hs) as P.
  destruct (bulk_load_fixed d ksz es) as [t|e]; [|exact P].
  destruct P as [P1 P2]. rewrite <- P2. apply run_refines_guarded; auto.
Qed.

(** the same history on the code as it is panics *)
Example patched_vs_unpatched :
  match bulk_load_fixed 5 c17_ksz (c17_entries 10) with
  | Ok t => run 5 c17_ksz true t [ODelete 9%Z; OLookup 8%Z] = [ABool true; ARows [8%Z]] /\
            run 5 c17_ksz false t [ODelete 9%Z; OLookup 8%Z] = [AErr Panic]
  | Err _ => False
  end.
Proof. vm_compute. split; reflexivity. Qed.
