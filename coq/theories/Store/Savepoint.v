(** Savepoints (C14) and the statement-level transition function of the transaction model.
    Executable definitions only.

    Modelled code: crates/vibesql-storage/src/database/transactions.rs
    ([TransactionManager::{create_savepoint, rollback_to_savepoint, release_savepoint}]),
    crates/vibesql-storage/src/database/core.rs ([Database::{create_savepoint, rollback_to_savepoint,
    undo_change, release_savepoint}]) and crates/vibesql-executor/src/transaction.rs (the six
    executors only forward to the [Database] methods and wrap the error). *)
From Coq Require Import List ZArith Bool Arith.
From VibeSQL Require Import Base.LexOrd Value.SqlValue Store.Txn.
Import ListNotations.
Open Scope Z_scope.

(** [savepoints.iter().position(|sp| sp.name == name)] : the FIRST (oldest) savepoint of that name *)
Fixpoint sp_position (n : spname) (sps : list (spname * nat)) : option nat :=
  match sps with
  | [] => None
  | (n', _) :: rest =>
      if n' =? n then Some O
      else match sp_position n rest with Some j => Some (S j) | None => None end
  end.

(** [Vec::remove(idx)] *)
Fixpoint remove_nth {A} (j : nat) (l : list A) : list A :=
  match j, l with
  | _, [] => []
  | O, _ :: l' => l'
  | S j', x :: l' => x :: remove_nth j' l'
  end.

(** [TransactionManager::create_savepoint] *)
Definition create_savepoint (d : db) (n : spname) : db * result :=
  match d_tx d with
  | None => (d, RErr)
  | Some x =>
      (mkDb (d_cat d) (d_tabs d) (d_uix d)
            (Some (mkTxn (x_cat x) (x_tabs x) (x_ixs x) (x_sps x ++ [(n, length (x_log x))]) (x_log x))), ROk 0)
  end.

(** [TransactionManager::release_savepoint] : removes that one entry only *)
Definition release_savepoint (d : db) (n : spname) : db * result :=
  match d_tx d with
  | None => (d, RErr)
  | Some x =>
      match sp_position n (x_sps x) with
      | None => (d, RErr)
      | Some j =>
          (mkDb (d_cat d) (d_tabs d) (d_uix d)
                (Some (mkTxn (x_cat x) (x_tabs x) (x_ixs x) (remove_nth j (x_sps x)) (x_log x))), ROk 0)
      end
  end.

(** [Database::undo_change] on the tables (user indexes are not touched by an undo).  Returns the
    tables as the call leaves them together with its status: a [CUpdate] whose [remove_row] succeeded
    and whose [insert] failed leaves the table without the old row. *)
Definition undo_change (T : tables) (c : change) : tables * outcome unit :=
  match c with
  | CInsert t r =>
      match get_table T t with
      | None => (T, Fail)                                     (* TableNotFound *)
      | Some tb =>
          match remove_first r (t_rows tb) with
          | None => (T, Fail)                                 (* RowNotFound *)
          | Some rows' => (set_table T t (mkTable (t_cols tb) rows'), Done tt)
          end
      end
  | CUpdate t old _ =>                                        (* remove_row(&old_row)?; insert(old_row)? *)
      match get_table T t with
      | None => (T, Fail)
      | Some tb =>
          match remove_first old (t_rows tb) with
          | None => (T, Fail)
          | Some rows' =>
              match table_insert (mkTable (t_cols tb) rows') old with
              | Done tb' => (set_table T t tb', Done tt)
              | Fail => (set_table T t (mkTable (t_cols tb) rows'), Fail)
              | Panicked => (set_table T t (mkTable (t_cols tb) rows'), Panicked)
              end
          end
      end
  | CDelete t r =>
      match get_table T t with
      | None => (T, Fail)
      | Some tb =>
          match table_insert tb r with
          | Done tb' => (set_table T t tb', Done tt)
          | Fail => (T, Fail)
          | Panicked => (T, Panicked)
          end
      end
  end.

(** [for change in changes_to_undo.into_iter().rev() { self.undo_change(change)?; }] over an already
    reversed list: stops at the first failure and keeps what was undone so far *)
Fixpoint undo_all (T : tables) (cs : list change) : tables * outcome unit :=
  match cs with
  | [] => (T, Done tt)
  | c :: rest =>
      match undo_change T c with
      | (T', Done _) => undo_all T' rest
      | (T', Fail) => (T', Fail)
      | (T', Panicked) => (T', Panicked)
      end
  end.

(** [Database::rollback_to_savepoint] = [TransactionManager::rollback_to_savepoint] (first savepoint
    of that name; [changes.drain(snapshot_index..)] -- which panics when [snapshot_index > len] --;
    [savepoints.truncate(idx + 1)]) followed by the undo loop.  The log and the savepoint stack are
    already cut when the undo loop runs, whatever it returns. *)
Definition rollback_to_savepoint (d : db) (n : spname) : db * result :=
  match d_tx d with
  | None => (d, RErr)
  | Some x =>
      match sp_position n (x_sps x) with
      | None => (d, RErr)
      | Some j =>
          let idx := snd (nth j (x_sps x) (0, O)) in
          if (length (x_log x) <? idx)%nat then (d, RPanic)           (* Vec::drain range start > len *)
          else
            let undo := rev (skipn idx (x_log x)) in
            let x' := mkTxn (x_cat x) (x_tabs x) (x_ixs x) (firstn (S j) (x_sps x)) (firstn idx (x_log x)) in
            match undo_all (d_tabs d) undo with
            | (T', Done _) => (mkDb (d_cat d) T' (d_uix d) (Some x'), ROk 0)
            | (T', Fail) => (mkDb (d_cat d) T' (d_uix d) (Some x'), RErr)
            | (T', Panicked) => (mkDb (d_cat d) T' (d_uix d) (Some x'), RPanic)
            end
      end
  end.

(** * Statements *)
Inductive op : Type :=
| OBegin
| OCommit
| ORollback
| OSavepoint (n : spname)
| ORelease (n : spname)
| ORollbackTo (n : spname)
| OInsert (t : tname) (rows : list (list lit))          (* INSERT INTO t VALUES (..),(..) *)
| OApiInsert (t : tname) (r : row)                      (* Database::insert_row(t, r) *)
| OApiBatch (t : tname) (rs : list row)                 (* Database::insert_rows_batch(t, rs) *)
| OApiRecord (c : change)                               (* Database::record_change(c) *)
| OUpdate (t : tname) (c : nat) (k : Z) (w : wclause)   (* UPDATE t SET c = k [WHERE ..] *)
| ODelete (t : tname) (w : wclause)                     (* DELETE FROM t [WHERE ..] *)
| OCreateIndex (i : iname) (t : tname) (c : nat)        (* CREATE INDEX i ON t (c) *)
| ODropIndex (i : iname).                               (* DROP INDEX i *)

Definition step (d : db) (o : op) : db * result :=
  match o with
  | OBegin => begin_txn d
  | OCommit => commit_txn d
  | ORollback => rollback_txn d
  | OSavepoint n => create_savepoint d n
  | ORelease n => release_savepoint d n
  | ORollbackTo n => rollback_to_savepoint d n
  | OInsert t rows => sql_insert d t rows
  | OApiInsert t r => api_insert_row d t r
  | OApiBatch t rs => api_insert_batch d t rs
  | OApiRecord c => (record d [c], ROk 0)
  | OUpdate t c k w => sql_update d t c k w
  | ODelete t w => sql_delete d t w
  | OCreateIndex i t c => sql_create_index d i t c
  | ODropIndex i => sql_drop_index d i
  end.

Definition run (d : db) (ops : list op) : db := fold_left (fun d o => fst (step d o)) ops d.

(** statements that may appear between BEGIN and the closing ROLLBACK / COMMIT *)
Definition inside (o : op) : bool :=
  match o with OCommit | ORollback => false | _ => true end.

(** * The reference of C14: a stack of deep copies.
    Every live savepoint carries the copy of the tables taken when it was created, and one flag:
    [dirty] = since that moment some statement changed table data without leaving an undoable trace in
    the change log (or put something in the log that does not describe a table change). *)
Record gsp : Type := mkG { g_name : spname; g_copy : tables; g_dirty : bool }.
Definition ghost := list gsp.

Fixpoint g_position (n : spname) (g : ghost) : option nat :=
  match g with
  | [] => None
  | e :: rest =>
      if g_name e =? n then Some O
      else match g_position n rest with Some j => Some (S j) | None => None end
  end.

Definition g_taint (g : ghost) : ghost := map (fun e => mkG (g_name e) (g_copy e) true) g.

(** does the statement leave (tables, change log) in step: either nothing changes, or every row that
    enters a table is recorded as the row that is stored *)
Definition rows_clean (T : tables) (t : tname) (rs : list row) : bool :=
  match get_table T t with
  | None => true                                        (* the call fails before any change *)
  | Some tb => forallb (stable_row (t_cols tb)) rs
  end.

Definition op_clean (d : db) (o : op) : bool :=
  match o with
  | OBegin | OCommit | ORollback | OSavepoint _ | ORelease _ | ORollbackTo _ => true
  | OCreateIndex _ _ _ | ODropIndex _ => true
  | OApiInsert t r => rows_clean (d_tabs d) t [r]
  | OApiBatch t rs => rows_clean (d_tabs d) t rs
  | OInsert t rows =>
      match get_table (d_tabs d) t with
      | None => true
      | Some tb =>
          if negb (forallb (fun ls => (length ls =? length (t_cols tb))%nat) rows) then true
          else match coerce_rows (t_cols tb) rows with
               | Done rs => forallb (stable_row (t_cols tb)) rs
               | _ => true                               (* fails before any change *)
               end
      end
  | OUpdate t _ _ w | ODelete t w =>
      match get_table (d_tabs d) t with
      | None => true
      | Some tb => (count_matching w (t_rows tb) =? 0)%nat     (* touches no row *)
      end
  | OApiRecord _ => false
  end.

(** the reference moves with the statement just executed on [d] (the state BEFORE the statement) *)
Definition gstep (d : db) (g : ghost) (o : op) : ghost :=
  match o with
  | OBegin => g
  | OCommit | ORollback => []
  | OSavepoint n => match d_tx d with None => g | Some _ => g ++ [mkG n (d_tabs d) false] end
  | ORelease n => match g_position n g with Some j => remove_nth j g | None => g end
  | ORollbackTo n => match g_position n g with Some j => firstn (S j) g | None => g end
  | _ => if op_clean d o then g else g_taint g
  end.

Fixpoint grun (d : db) (g : ghost) (ops : list op) : db * ghost :=
  match ops with
  | [] => (d, g)
  | o :: rest => grun (fst (step d o)) (gstep d g o) rest
  end.
