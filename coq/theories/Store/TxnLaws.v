(** Laws of the transaction model (C13): what BEGIN ... ROLLBACK / COMMIT restores, for every
    statement sequence; plus the bag / table lemmas shared with Store/SavepointLaws.v. *)
From Coq Require Import List ZArith Bool Arith Lia.
From VibeSQL Require Import Base.LexOrd Value.SqlValue Value.ValueLaws Store.Txn Store.Savepoint.
Import ListNotations.
Open Scope Z_scope.

(** * [row_eqb] is an equivalence (from the C21 laws of [SqlValue::eq]) *)
Lemma row_eqb_refl r : row_eqb r r = true.
Proof. induction r as [|x r IH]; cbn [row_eqb]; [reflexivity|]. now rewrite eqb_refl_thm, IH. Qed.

Lemma row_eqb_sym a b : row_eqb a b = row_eqb b a.
Proof.
  revert b; induction a as [|x a IH]; intros [|y b]; cbn [row_eqb]; try reflexivity.
  now rewrite eqb_sym_thm, IH.
Qed.

Lemma row_eqb_trans a b c : row_eqb a b = true -> row_eqb b c = true -> row_eqb a c = true.
Proof.
  revert b c; induction a as [|x a IH]; intros [|y b] [|z c]; cbn [row_eqb]; try discriminate; auto.
  intros H1 H2. apply andb_true_iff in H1 as [H1 H1']. apply andb_true_iff in H2 as [H2 H2'].
  apply andb_true_iff; split; [eapply eqb_trans_thm; eauto | eapply IH; eauto].
Qed.

(** rows that are [==] are indistinguishable by [==] *)
Lemma row_eqb_congr a b c : row_eqb a b = true -> row_eqb c a = row_eqb c b.
Proof.
  intros H. destruct (row_eqb c a) eqn:E1, (row_eqb c b) eqn:E2; try reflexivity.
  - rewrite (row_eqb_trans c a b E1 H) in E2; discriminate.
  - rewrite row_eqb_sym in H. rewrite (row_eqb_trans c b a E2 H) in E1; discriminate.
Qed.

(** * Bags modulo [==] *)
Lemma count_row_nil r : count_row r [] = O.
Proof. reflexivity. Qed.

Lemma count_row_cons r x l :
  count_row r (x :: l) = ((if row_eqb r x then 1 else 0) + count_row r l)%nat.
Proof. unfold count_row; cbn [filter]. destruct (row_eqb r x); reflexivity. Qed.

Lemma count_row_app r l1 l2 : count_row r (l1 ++ l2) = (count_row r l1 + count_row r l2)%nat.
Proof. unfold count_row. now rewrite filter_app, app_length. Qed.

Lemma count_row_congr a b l : row_eqb a b = true -> count_row a l = count_row b l.
Proof.
  intros H; induction l as [|x l IH]; [reflexivity|].
  rewrite !count_row_cons, IH. f_equal.
  rewrite (row_eqb_sym a x), (row_eqb_sym b x). now rewrite (row_eqb_congr a b x H).
Qed.

Lemma bag_eq_refl l : bag_eq l l.
Proof. intro; reflexivity. Qed.
Lemma bag_eq_sym a b : bag_eq a b -> bag_eq b a.
Proof. intros H r; symmetry; apply H. Qed.
Lemma bag_eq_trans a b c : bag_eq a b -> bag_eq b c -> bag_eq a c.
Proof. intros H1 H2 r; now rewrite H1. Qed.

Lemma bag_eq_app a b c d : bag_eq a b -> bag_eq c d -> bag_eq (a ++ c) (b ++ d).
Proof. intros H1 H2 r. now rewrite !count_row_app, H1, H2. Qed.

Lemma bag_eq_single a b : row_eqb a b = true -> bag_eq [a] [b].
Proof.
  intros H r. rewrite !count_row_cons, !count_row_nil. now rewrite (row_eqb_congr a b r H).
Qed.

(** [Table::remove_row]: what it removes, counted *)
Lemma remove_first_count r l l' :
  remove_first r l = Some l' ->
  forall c, count_row c l = ((if row_eqb c r then 1 else 0) + count_row c l')%nat.
Proof.
  revert l'; induction l as [|x l IH]; intros l' H c; cbn [remove_first] in H; [discriminate|].
  destruct (row_eqb x r) eqn:E.
  - inversion H; subst l'. rewrite count_row_cons. f_equal.
    now rewrite (row_eqb_congr x r c E).
  - destruct (remove_first r l) as [rest|] eqn:R; [|discriminate]. inversion H; subst l'.
    rewrite !count_row_cons, (IH rest eq_refl c). lia.
Qed.

Lemma remove_first_found r l : (0 < count_row r l)%nat -> exists l', remove_first r l = Some l'.
Proof.
  induction l as [|x l IH]; intros H; [cbn in H; lia|].
  cbn [remove_first]. destruct (row_eqb x r) eqn:E; [eauto|].
  rewrite count_row_cons, (row_eqb_sym r x), E in H. cbn in H.
  destruct (IH H) as [l' ->]. eauto.
Qed.

Lemma remove_first_none r l : remove_first r l = None -> count_row r l = O.
Proof.
  intros H. destruct (count_row r l) eqn:E; [reflexivity|].
  destruct (remove_first_found r l) as [l' Hl']; [lia|]. congruence.
Qed.

(** the undo of a recorded insert: the table holds (as a bag) [base] plus one row [==] to the
    recorded one; [remove_row] finds such a row and leaves [base] *)
Lemma remove_first_undoes_append r r' l base :
  row_eqb r r' = true -> bag_eq l (base ++ [r']) ->
  exists l', remove_first r l = Some l' /\ bag_eq l' base.
Proof.
  intros E H.
  assert (Hpos : (0 < count_row r l)%nat).
  { rewrite (H r), count_row_app, count_row_cons, E. lia. }
  destruct (remove_first_found r l Hpos) as [l' Hl']. exists l'; split; [assumption|].
  intros c. pose proof (remove_first_count r l l' Hl' c) as Hc.
  rewrite (H c), count_row_app, count_row_cons, count_row_nil in Hc.
  rewrite (row_eqb_congr r' r c) in Hc by (now rewrite row_eqb_sym). lia.
Qed.

(** * Tables *)
Lemma set_table_same T t tb : get_table T t = Some tb -> set_table T t tb = T.
Proof.
  induction T as [|[n tb0] T IH]; cbn [get_table set_table]; [discriminate|].
  destruct (n =? t) eqn:E; intros H; [inversion H; reflexivity|]. now rewrite IH.
Qed.

Lemma get_set_same T t tb tb' : get_table T t = Some tb -> get_table (set_table T t tb') t = Some tb'.
Proof.
  induction T as [|[n tb0] T IH]; cbn [get_table set_table]; [discriminate|].
  destruct (n =? t) eqn:E; intros H; cbn [get_table]; rewrite E; [reflexivity|auto].
Qed.

Lemma get_set_other T t t' tb' : t' <> t -> get_table (set_table T t tb') t' = get_table T t'.
Proof.
  intros Hne. induction T as [|[n tb0] T IH]; cbn [get_table set_table]; [reflexivity|].
  destruct (n =? t) eqn:E; cbn [get_table].
  - apply Z.eqb_eq in E; subst n. destruct (t =? t') eqn:E'; [apply Z.eqb_eq in E'; congruence|reflexivity].
  - destruct (n =? t'); [reflexivity|apply IH].
Qed.

Lemma get_set_none T t tb' : get_table T t = None -> set_table T t tb' = T.
Proof.
  induction T as [|[n tb0] T IH]; cbn [get_table set_table]; [reflexivity|].
  destruct (n =? t); [discriminate|]. intros H; now rewrite IH.
Qed.

(** the schema (table names with their column lists) *)
Definition schema_of (T : tables) : list (tname * list coltype) := map (fun e => (fst e, t_cols (snd e))) T.

Lemma schema_set_table T t tb tb' :
  get_table T t = Some tb -> t_cols tb' = t_cols tb -> schema_of (set_table T t tb') = schema_of T.
Proof.
  induction T as [|[n tb0] T IH]; cbn [get_table set_table schema_of map]; [discriminate|].
  destruct (n =? t) eqn:E; intros H Hc; cbn [schema_of map fst snd].
  - inversion H; subst tb0. now rewrite Hc.
  - f_equal. now apply IH.
Qed.

Lemma schema_get T1 T2 t tb1 :
  schema_of T1 = schema_of T2 -> get_table T1 t = Some tb1 ->
  exists tb2, get_table T2 t = Some tb2 /\ t_cols tb2 = t_cols tb1.
Proof.
  revert T2; induction T1 as [|[n a] T1 IH]; intros [|[m b] T2] HS H; cbn in *; try discriminate.
  inversion HS; subst m. destruct (n =? t); [inversion H; subst a; eauto|eauto].
Qed.

Lemma schema_get_none T1 T2 t :
  schema_of T1 = schema_of T2 -> get_table T1 t = None -> get_table T2 t = None.
Proof.
  revert T2; induction T1 as [|[n a] T1 IH]; intros [|[m b] T2] HS H; cbn in *; try discriminate; auto.
  inversion HS; subst m. destruct (n =? t); [discriminate|eauto].
Qed.

Lemma tabs_beq_refl T : tabs_beq T T.
Proof. induction T as [|[n tb] T IH]; cbn; auto using bag_eq_refl. Qed.

Lemma tabs_beq_sym T1 T2 : tabs_beq T1 T2 -> tabs_beq T2 T1.
Proof.
  revert T2; induction T1 as [|[n a] T1 IH]; intros [|[m b] T2]; cbn; auto.
  intros (H1 & H2 & H3 & H4); auto using bag_eq_sym.
Qed.

Lemma tabs_beq_trans T1 T2 T3 : tabs_beq T1 T2 -> tabs_beq T2 T3 -> tabs_beq T1 T3.
Proof.
  revert T2 T3; induction T1 as [|[n a] T1 IH]; intros [|[m b] T2] [|[k c] T3]; cbn; try tauto.
  intros (H1 & H2 & H3 & H4) (G1 & G2 & G3 & G4).
  split; [congruence|]. split; [congruence|].
  split; [eapply bag_eq_trans; eauto | eapply IH; eauto].
Qed.

Lemma tabs_beq_schema T1 T2 : tabs_beq T1 T2 -> schema_of T1 = schema_of T2.
Proof.
  revert T2; induction T1 as [|[n a] T1 IH]; intros [|[m b] T2]; cbn; try tauto.
  intros (H1 & H2 & H3 & H4). subst m. rewrite H2. f_equal. auto.
Qed.

Lemma tabs_beq_get T1 T2 t tb1 :
  tabs_beq T1 T2 -> get_table T1 t = Some tb1 ->
  exists tb2, get_table T2 t = Some tb2 /\ t_cols tb1 = t_cols tb2 /\ bag_eq (t_rows tb1) (t_rows tb2).
Proof.
  revert T2; induction T1 as [|[n a] T1 IH]; intros [|[m b] T2]; cbn; try tauto; try discriminate.
  intros (H1 & H2 & H3 & H4) H. subst m. destruct (n =? t); [inversion H; subst a; eauto|eauto].
Qed.

Lemma tabs_beq_set T1 T2 t tb1 tb2 :
  tabs_beq T1 T2 -> t_cols tb1 = t_cols tb2 -> bag_eq (t_rows tb1) (t_rows tb2) ->
  tabs_beq (set_table T1 t tb1) (set_table T2 t tb2).
Proof.
  revert T2; induction T1 as [|[n a] T1 IH]; intros [|[m b] T2]; cbn; try tauto.
  intros (H1 & H2 & H3 & H4) Hc Hb. subst m. destruct (n =? t); cbn; auto.
Qed.

(** replacing a table by one with the same columns and the same bag of rows changes nothing *)
Lemma tabs_beq_set_l T1 T2 t tb tb1 :
  tabs_beq T1 T2 -> get_table T1 t = Some tb -> t_cols tb1 = t_cols tb ->
  bag_eq (t_rows tb1) (t_rows tb) -> tabs_beq (set_table T1 t tb1) T2.
Proof.
  intros H G Hc Hb. destruct (tabs_beq_get _ _ _ _ H G) as (tb2 & G2 & Hc2 & Hb2).
  rewrite <- (set_table_same T2 t tb2 G2).
  apply tabs_beq_set; [assumption|congruence|eapply bag_eq_trans; eauto].
Qed.

(** * Frame facts about the statements *)
Definition snap_of (d : db) : option (catalog * tables) :=
  match d_tx d with Some x => Some (x_cat x, x_tabs x) | None => None end.

Lemma record_cat d cs : d_cat (record d cs) = d_cat d.
Proof. unfold record; destruct (d_tx d) eqn:E; reflexivity. Qed.
Lemma record_tabs d cs : d_tabs (record d cs) = d_tabs d.
Proof. unfold record; destruct (d_tx d) eqn:E; reflexivity. Qed.
Lemma record_uix d cs : d_uix (record d cs) = d_uix d.
Proof. unfold record; destruct (d_tx d) eqn:E; reflexivity. Qed.
Lemma record_snap d cs : snap_of (record d cs) = snap_of d.
Proof. unfold record, snap_of; destruct (d_tx d) eqn:E; cbn; rewrite ?E; reflexivity. Qed.
Lemma record_tx_some d cs : d_tx d <> None -> d_tx (record d cs) <> None.
Proof. unfold record; destruct (d_tx d) eqn:E; cbn; congruence. Qed.
Lemma record_tx_none d cs : d_tx d = None -> record d cs = d.
Proof. unfold record; intros ->; reflexivity. Qed.

Ltac destr_match :=
  match goal with
  | |- context [match ?x with _ => _ end] => destruct x eqn:?
  end.

(** every statement other than COMMIT / ROLLBACK keeps an active transaction active and its
    (catalog, tables) snapshot untouched *)
Lemma step_inside_snap d o :
  inside o = true -> d_tx d <> None -> snap_of (fst (step d o)) = snap_of d.
Proof.
  intros Hi Hx. destruct (d_tx d) as [x|] eqn:E; [clear Hx|congruence].
  assert (HS : snap_of d = Some (x_cat x, x_tabs x)) by (unfold snap_of; now rewrite E).
  destruct o; try discriminate Hi; cbn [step].
  - unfold begin_txn. rewrite E. reflexivity.
  - unfold create_savepoint. rewrite E. cbn [fst]. rewrite HS. reflexivity.
  - unfold release_savepoint. rewrite E. destruct (sp_position n (x_sps x)); cbn [fst]; rewrite HS; reflexivity.
  - unfold rollback_to_savepoint. rewrite E. destruct (sp_position n (x_sps x)); [|reflexivity].
    destruct (_ <? _)%nat; [reflexivity|].
    destruct (undo_all _ _) as [T' [u| |]]; cbn [fst]; rewrite HS; reflexivity.
  - unfold sql_insert. repeat (destr_match; cbn [fst]; try reflexivity).
    + unfold api_insert_row. repeat (destr_match; cbn [fst]; try reflexivity). now rewrite record_snap.
    + unfold api_insert_batch. repeat (destr_match; cbn [fst]; try reflexivity). now rewrite record_snap.
  - unfold api_insert_row. repeat (destr_match; cbn [fst]; try reflexivity). now rewrite record_snap.
  - unfold api_insert_batch. repeat (destr_match; cbn [fst]; try reflexivity). now rewrite record_snap.
  - cbn [fst]. apply record_snap.
  - unfold sql_update. repeat (destr_match; cbn [fst]; try reflexivity).
  - unfold sql_delete. repeat (destr_match; cbn [fst]; try reflexivity).
  - unfold sql_create_index. repeat (destr_match; cbn [fst]; try reflexivity).
  - unfold sql_drop_index. repeat (destr_match; cbn [fst]; try reflexivity).
Qed.

Lemma snap_of_some_tx d : snap_of d <> None <-> d_tx d <> None.
Proof. unfold snap_of; destruct (d_tx d); split; congruence. Qed.

Lemma run_inside_snap ops : forall d,
  Forall (fun o => inside o = true) ops -> d_tx d <> None -> snap_of (run d ops) = snap_of d.
Proof.
  induction ops as [|o ops IH]; intros d HF Hx; [reflexivity|].
  inversion HF as [|? ? Ho HF']; subst. cbn [run fold_left]. fold (run (fst (step d o)) ops).
  pose proof (step_inside_snap d o Ho Hx) as Hs.
  rewrite IH; [assumption|assumption|]. apply snap_of_some_tx. rewrite Hs. now apply snap_of_some_tx.
Qed.

Lemma run_app d a b : run d (a ++ b) = run (run d a) b.
Proof. unfold run. apply fold_left_app. Qed.

(** * C13, the part that holds for every statement sequence: tables and catalog come back *)
Theorem rollback_restores_tables_catalog db ops :
  d_tx db = None -> Forall (fun o => inside o = true) ops ->
  let after := run (fst (step db OBegin)) ops in
  let res := step after ORollback in
  snd res = ROk 0 /\ d_cat (fst res) = d_cat db /\ d_tabs (fst res) = d_tabs db /\
  d_tx (fst res) = None /\ d_uix (fst res) = d_uix after.
Proof.
  intros Hn HF after res.
  assert (Hb : snap_of (fst (step db OBegin)) = Some (d_cat db, d_tabs db)).
  { cbn [step]. unfold begin_txn. rewrite Hn. reflexivity. }
  assert (Ha : snap_of after = Some (d_cat db, d_tabs db)).
  { unfold after. rewrite run_inside_snap; [assumption|assumption|].
    apply snap_of_some_tx. rewrite Hb. discriminate. }
  unfold res. cbn [step]. unfold rollback_txn. unfold snap_of in Ha.
  destruct (d_tx after) as [x|]; [|discriminate]. inversion Ha; subst. cbn. auto.
Qed.

(** COMMIT keeps everything the last statement left (only the transaction state goes away) *)
Theorem commit_keeps d :
  d_tx d <> None ->
  let res := step d OCommit in
  snd res = ROk 0 /\ d_cat (fst res) = d_cat d /\ d_tabs (fst res) = d_tabs d /\
  d_uix (fst res) = d_uix d /\ d_tx (fst res) = None.
Proof.
  intros Hx res. unfold res. cbn [step]. unfold commit_txn.
  destruct (d_tx d); [cbn; auto|congruence].
Qed.

Lemma q_point_ext d1 d2 :
  d_tabs d1 = d_tabs d2 -> d_uix d1 = d_uix d2 -> forall t c k o, q_point d1 t c k o = q_point d2 t c k o.
Proof. intros H1 H2 t c k o. unfold q_point. now rewrite H1, H2. Qed.

Theorem commit_keeps_obs db ops :
  d_tx db = None -> Forall (fun o => inside o = true) ops ->
  let after := run (fst (step db OBegin)) ops in
  obs_eq (fst (step after OCommit)) after.
Proof.
  intros Hn HF after.
  assert (Hx : d_tx after <> None).
  { apply snap_of_some_tx. unfold after. rewrite run_inside_snap; try assumption.
    - cbn [step]. unfold begin_txn, snap_of. rewrite Hn. cbn. discriminate.
    - cbn [step]. unfold begin_txn. rewrite Hn. cbn. discriminate. }
  destruct (commit_keeps after Hx) as (_ & H1 & H2 & H3 & _).
  unfold obs_eq. repeat split; try assumption.
  - unfold storage_index_listing. now rewrite H3.
  - apply q_point_ext; assumption.
Qed.

(** * Which statements leave the user indexes (storage side) alone *)
Definition table_indexed (U : list uindex) (t : tname) : bool := existsb (fun ix => ix_table ix =? t) U.

Definition leaves_indexes (U : list uindex) (o : op) : bool :=
  match o with
  | OCreateIndex _ _ _ => false
  | ODropIndex i => negb (has_uix U i)
  | OInsert t _ | OApiInsert t _ | OApiBatch t _ | OUpdate t _ _ _ | ODelete t _ => negb (table_indexed U t)
  | _ => true
  end.

Lemma uix_rebuild_unindexed U t rows : table_indexed U t = false -> uix_rebuild U t rows = U.
Proof.
  unfold table_indexed, uix_rebuild. induction U as [|ix U IH]; cbn [existsb map]; [reflexivity|].
  intros H. apply orb_false_iff in H as [H1 H2]. rewrite H1, IH by assumption. reflexivity.
Qed.

Lemma uix_insert_unindexed U t r pos : table_indexed U t = false -> uix_insert U t r pos = U.
Proof.
  unfold table_indexed, uix_insert. induction U as [|ix U IH]; cbn [existsb map]; [reflexivity|].
  intros H. apply orb_false_iff in H as [H1 H2]. rewrite H1, IH by assumption. reflexivity.
Qed.

Lemma uix_insert_many_unindexed U t rs pos : table_indexed U t = false -> uix_insert_many U t rs pos = U.
Proof.
  intros H. revert pos; induction rs as [|r rs IH]; intros pos; cbn [uix_insert_many]; [reflexivity|].
  rewrite uix_insert_unindexed by assumption. apply IH.
Qed.

Lemma uix_update_unindexed U t old new pos : table_indexed U t = false -> uix_update U t old new pos = U.
Proof.
  unfold table_indexed, uix_update. induction U as [|ix U IH]; cbn [existsb map]; [reflexivity|].
  intros H. apply orb_false_iff in H as [H1 H2]. rewrite H1, IH by assumption. reflexivity.
Qed.

Lemma uix_update_rows_unindexed U t c k w pos rows :
  table_indexed U t = false -> uix_update_rows U t c k w pos rows = U.
Proof.
  intros H. revert pos; induction rows as [|r rows IH]; intros pos; cbn [uix_update_rows]; [reflexivity|].
  destruct (matches w r); [rewrite uix_update_unindexed by assumption|]; apply IH.
Qed.

Lemma uix_remove_absent U i : has_uix U i = false -> uix_remove U i = U.
Proof.
  unfold has_uix. induction U as [|ix U IH]; cbn [existsb uix_remove]; [reflexivity|].
  intros H. apply orb_false_iff in H as [H1 H2]. rewrite H1, IH by assumption. reflexivity.
Qed.

Lemma api_insert_row_uix d t r :
  table_indexed (d_uix d) t = false -> d_uix (fst (api_insert_row d t r)) = d_uix d.
Proof.
  intros H. unfold api_insert_row. repeat (destr_match; cbn [fst]; try reflexivity).
  rewrite record_uix. cbn [d_uix]. now apply uix_insert_unindexed.
Qed.

Lemma api_insert_batch_uix d t rs :
  table_indexed (d_uix d) t = false -> d_uix (fst (api_insert_batch d t rs)) = d_uix d.
Proof.
  intros H. unfold api_insert_batch. repeat (destr_match; cbn [fst]; try reflexivity).
  rewrite record_uix. cbn [d_uix]. now apply uix_insert_many_unindexed.
Qed.

Lemma step_leaves_uix d o : leaves_indexes (d_uix d) o = true -> d_uix (fst (step d o)) = d_uix d.
Proof.
  destruct o; cbn [leaves_indexes step]; intros H; try apply negb_true_iff in H.
  - unfold begin_txn; destruct (d_tx d); reflexivity.
  - unfold commit_txn; destruct (d_tx d); reflexivity.
  - unfold rollback_txn; destruct (d_tx d); reflexivity.
  - unfold create_savepoint; destruct (d_tx d); reflexivity.
  - unfold release_savepoint; repeat (destr_match; cbn [fst]; try reflexivity).
  - unfold rollback_to_savepoint; repeat (destr_match; cbn [fst]; try reflexivity).
  - unfold sql_insert. repeat (destr_match; cbn [fst]; try reflexivity).
    + now apply api_insert_row_uix.
    + now apply api_insert_batch_uix.
  - now apply api_insert_row_uix.
  - now apply api_insert_batch_uix.
  - cbn [fst]. apply record_uix.
  - unfold sql_update. repeat (destr_match; cbn [fst d_uix]; try reflexivity).
    now apply uix_update_rows_unindexed.
  - unfold sql_delete. destruct (get_table (d_tabs d) t); cbn [fst d_uix]; [|reflexivity].
    now apply uix_rebuild_unindexed.
  - discriminate.
  - unfold sql_drop_index. rewrite H. repeat (destr_match; cbn [fst d_uix]; try reflexivity).
    now apply uix_remove_absent.
Qed.

Lemma run_leaves_uix ops : forall d,
  Forall (fun o => leaves_indexes (d_uix d) o = true) ops -> d_uix (run d ops) = d_uix d.
Proof.
  induction ops as [|o ops IH]; intros d HF; [reflexivity|].
  inversion HF as [|? ? Ho HF']; subst. cbn [run fold_left]. fold (run (fst (step d o)) ops).
  pose proof (step_leaves_uix d o Ho) as Hs. rewrite IH; [assumption|].
  rewrite Hs. assumption.
Qed.

(** * C13 under the exact side condition "no statement of the transaction touches a user index":
    the rolled-back database IS the database before BEGIN (so every observation and every
    continuation agrees) *)
Theorem rollback_restores db ops :
  d_tx db = None -> Forall (fun o => inside o = true) ops ->
  Forall (fun o => leaves_indexes (d_uix db) o = true) ops ->
  fst (step (run (fst (step db OBegin)) ops) ORollback) = db.
Proof.
  intros Hn HF HL.
  destruct (rollback_restores_tables_catalog db ops Hn HF) as (_ & H1 & H2 & H3 & H4).
  assert (H5 : d_uix (run (fst (step db OBegin)) ops) = d_uix db).
  { rewrite run_leaves_uix.
    - cbn [step]. unfold begin_txn. rewrite Hn. reflexivity.
    - cbn [step]. unfold begin_txn. rewrite Hn. cbn [fst d_uix]. assumption. }
  rewrite H5 in H4.
  destruct (fst (step (run (fst (step db OBegin)) ops) ORollback)) as [c T U x].
  destruct db as [c0 T0 U0 x0]. cbn in *. congruence.
Qed.

Corollary rollback_restores_obs db ops :
  d_tx db = None -> Forall (fun o => inside o = true) ops ->
  Forall (fun o => leaves_indexes (d_uix db) o = true) ops ->
  obs_eq (fst (step (run (fst (step db OBegin)) ops) ORollback)) db.
Proof.
  intros. rewrite rollback_restores by assumption. unfold obs_eq; auto.
Qed.

(** ... and whatever is executed afterwards cannot tell the difference *)
Corollary rollback_then_continue db ops epilogue :
  d_tx db = None -> Forall (fun o => inside o = true) ops ->
  Forall (fun o => leaves_indexes (d_uix db) o = true) ops ->
  run (fst (step (run (fst (step db OBegin)) ops) ORollback)) epilogue = run db epilogue.
Proof. intros. now rewrite rollback_restores. Qed.

(** the special case named in the property: no user index exists and none is created *)
Definition creates_index (o : op) : bool := match o with OCreateIndex _ _ _ => true | _ => false end.

Corollary rollback_restores_without_user_indexes db ops :
  d_tx db = None -> d_uix db = [] ->
  Forall (fun o => inside o = true) ops -> Forall (fun o => creates_index o = false) ops ->
  fst (step (run (fst (step db OBegin)) ops) ORollback) = db.
Proof.
  intros Hn HU HF HC. apply rollback_restores; try assumption.
  rewrite HU. apply Forall_forall. intros o Ho.
  rewrite Forall_forall in HC. specialize (HC o Ho). destruct o; try reflexivity; discriminate.
Qed.

(** in general the observation after ROLLBACK differs from the one before BEGIN exactly by its index
    part: storage index listing, and point queries evaluated on the RESTORED tables through whatever
    the indexes hold after the transaction *)
Theorem rollback_obs_iff_index_part db ops :
  d_tx db = None -> Forall (fun o => inside o = true) ops ->
  let after := run (fst (step db OBegin)) ops in
  let rolled := fst (step after ORollback) in
  obs_eq rolled db <->
  (storage_index_listing after = storage_index_listing db /\
   forall t c k o, q_point (mkDb (d_cat db) (d_tabs db) (d_uix after) None) t c k o = q_point db t c k o).
Proof.
  intros Hn HF after rolled.
  destruct (rollback_restores_tables_catalog db ops Hn HF) as (_ & H1 & H2 & H3 & H4).
  fold after in H1, H2, H3, H4. fold rolled in H1, H2, H3, H4.
  assert (HQ : forall t c k o, q_point rolled t c k o = q_point (mkDb (d_cat db) (d_tabs db) (d_uix after) None) t c k o).
  { apply q_point_ext; cbn; assumption. }
  unfold obs_eq. split.
  - intros (_ & _ & HL & Hq). split.
    + unfold storage_index_listing in *. now rewrite <- H4.
    + intros. now rewrite <- HQ.
  - intros (HL & Hq). repeat split; try assumption.
    + unfold storage_index_listing in *. now rewrite H4.
    + intros. now rewrite HQ.
Qed.

(** * The full statement is false of the faithful model: user-index data is outside the snapshot.
    T0 (g, a) holds (1, 10) and has an index on [a]; BEGIN; UPDATE T0 SET a = 11 WHERE g = 1;
    ROLLBACK; then [SELECT * FROM T0 WHERE a = 10] finds nothing although the row is back. *)
Definition wit13_db : db :=
  run (mkDb (mkCat [0] []) [(0, mkTable [TInt; TInt] [])] [] None)
      [OInsert 0 [[LInt 1; LInt 10]]; OCreateIndex 0 0 1%nat].
Definition wit13_ops : list op := [OUpdate 0 1%nat 11 (Some (0%nat, 1))].

Theorem rollback_restores_refuted :
  exists db ops t c k o,
    d_tx db = None /\ Forall (fun o => inside o = true) ops /\
    q_point (fst (step (run (fst (step db OBegin)) ops) ORollback)) t c k o <> q_point db t c k o.
Proof.
  exists wit13_db, wit13_ops, 0, 1%nat, 10, false.
  split; [reflexivity|]. split; [repeat constructor|]. vm_compute. discriminate.
Qed.

(** index DDL inside a transaction is not undone either: the storage side keeps the index *)
Theorem rollback_ddl_refuted :
  exists db ops,
    d_tx db = None /\ Forall (fun o => inside o = true) ops /\
    storage_index_listing (fst (step (run (fst (step db OBegin)) ops) ORollback)) <> storage_index_listing db.
Proof.
  exists (mkDb (mkCat [0] []) [(0, mkTable [TInt; TInt] [])] [] None), [OCreateIndex 0 0 1%nat].
  split; [reflexivity|]. split; [repeat constructor|]. vm_compute. discriminate.
Qed.

(** the hypotheses of the positive theorems are satisfiable by a non-trivial input *)
Example rollback_restores_example :
  let db := run (mkDb (mkCat [0; 1] []) [(0, mkTable [TInt; TInt] []); (1, mkTable [TInt; TVarchar (Some 2%nat)] [])] [] None)
                [OInsert 0 [[LInt 1; LInt 10]]; OCreateIndex 0 0 1%nat; OInsert 1 [[LInt 1; LStr [97]]]] in
  let ops := [OInsert 1 [[LInt 2; LStr [97; 98; 99]]]; OSavepoint 1; OUpdate 1 0%nat 5 None; ODelete 1 (Some (0%nat, 5));
              ORollbackTo 1; OBegin] in
  d_tx db = None /\ forallb inside ops = true /\ forallb (leaves_indexes (d_uix db)) ops = true /\
  d_tabs (run (fst (step db OBegin)) ops) <> d_tabs db /\
  fst (step (run (fst (step db OBegin)) ops) ORollback) = db.
Proof. vm_compute. repeat split; congruence. Qed.

(** * Transactions that only add rows: the user indexes are NOT restored, yet no query can tell
    immediately after ROLLBACK -- the left-over entries point past the end of the restored tables.
    (A later INSERT can tell: see [rollback_insert_only_continuation_refuted].) *)

Lemma ikey_eqb_eq a b : ikey_eqb a b = true <-> a = b.
Proof.
  destruct a, b; cbn; split; intros H; try discriminate; try reflexivity.
  - apply Z.eqb_eq in H. now subst.
  - inversion H. apply Z.eqb_refl.
Qed.

Lemma ikey_eqb_sym a b : ikey_eqb a b = ikey_eqb b a.
Proof. destruct a, b; cbn; try reflexivity. apply Z.eqb_sym. Qed.

Lemma idx_lookup_push k k' p d :
  idx_lookup k (idx_push k' p d) = idx_lookup k d ++ (if ikey_eqb k' k then [p] else []).
Proof.
  induction d as [|[k0 l] d IH]; cbn [idx_push idx_lookup].
  - destruct (ikey_eqb k' k); reflexivity.
  - destruct (ikey_eqb k0 k') eqn:E0; cbn [idx_lookup].
    + apply ikey_eqb_eq in E0; subst k0. destruct (ikey_eqb k' k); [reflexivity|now rewrite app_nil_r].
    + destruct (ikey_eqb k0 k) eqn:E1; [|exact IH].
      apply ikey_eqb_eq in E1; subst k0. rewrite ikey_eqb_sym, E0. now rewrite app_nil_r.
Qed.

(** statements under which tables only grow and no index key of an existing row changes *)
Definition col_indexed (U : list uindex) (t : tname) (c : nat) : bool :=
  existsb (fun ix => (ix_table ix =? t) && (ix_col ix =? c)%nat) U.

Definition grows_only (U : list uindex) (o : op) : bool :=
  match o with
  | OBegin | OSavepoint _ | ORelease _ | OApiRecord _ => true
  | OInsert _ _ | OApiInsert _ _ | OApiBatch _ _ => true
  | OUpdate t c _ _ => negb (col_indexed U t c)
  | _ => false
  end.

(** [U] extends [U0]: same indexes in the same order, and under every key the row-index list of
    [U0] followed by row indices that are at least [lo t] for the index's table [t] *)
Fixpoint uix_extends (lo : tname -> nat) (U0 U : list uindex) : Prop :=
  match U0, U with
  | [], [] => True
  | ix0 :: U0', ix :: U' =>
      ix_name ix = ix_name ix0 /\ ix_table ix = ix_table ix0 /\ ix_col ix = ix_col ix0 /\
      (forall k, exists extra, idx_lookup k (ix_data ix) = idx_lookup k (ix_data ix0) ++ extra /\
                               Forall (fun p => (lo (ix_table ix0) <= p)%nat) extra) /\
      uix_extends lo U0' U'
  | _, _ => False
  end.

Lemma uix_extends_refl lo U : uix_extends lo U U.
Proof.
  induction U as [|ix U IH]; cbn; auto. repeat split; auto. intros k. exists []. now rewrite app_nil_r.
Qed.

Definition rows_len (T : tables) (t : tname) : nat :=
  match get_table T t with Some tb => length (t_rows tb) | None => O end.

Lemma uix_extends_insert lo U0 U t r pos :
  (lo t <= pos)%nat -> uix_extends lo U0 U -> uix_extends lo U0 (uix_insert U t r pos).
Proof.
  intros Hp. revert U; induction U0 as [|ix0 U0 IH]; intros [|ix U]; cbn; try tauto.
  intros (H1 & H2 & H3 & H4 & H5). destruct (ix_table ix =? t) eqn:E; cbn.
  - split; [assumption|]. split; [assumption|]. split; [assumption|]. split; [|exact (IH _ H5)].
    intros k. destruct (H4 k) as (extra & He & Hf).
    rewrite idx_lookup_push, He, <- app_assoc. eexists; split; [reflexivity|].
    apply Forall_app; split; [assumption|]. destruct (ikey_eqb _ k); constructor; [|constructor].
    apply Z.eqb_eq in E. rewrite <- H2, E. assumption.
  - split; [assumption|]. split; [assumption|]. split; [assumption|]. split; [assumption|exact (IH _ H5)].
Qed.

Lemma uix_extends_insert_many lo U0 t rs : forall U pos,
  (lo t <= pos)%nat -> uix_extends lo U0 U -> uix_extends lo U0 (uix_insert_many U t rs pos).
Proof.
  induction rs as [|r rs IH]; intros U pos Hp H; cbn [uix_insert_many]; [assumption|].
  apply IH; [lia|]. now apply uix_extends_insert.
Qed.

Lemma nth_set_nth_other c c' v r : c <> c' -> nth c' (set_nth c v r) VNull = nth c' r VNull.
Proof.
  revert c c'; induction r as [|x r IH]; intros [|c] [|c'] H; cbn; try reflexivity; try congruence.
  apply IH. congruence.
Qed.

Lemma uix_update_unindexed_col U t c v r pos :
  col_indexed U t c = false -> uix_update U t r (set_nth c v r) pos = U.
Proof.
  unfold col_indexed, uix_update. induction U as [|ix U IH]; cbn [existsb map]; [reflexivity|].
  intros H. apply orb_false_iff in H as [H1 H2]. rewrite IH by assumption.
  destruct (ix_table ix =? t) eqn:E; [|reflexivity]. cbn in H1.
  assert (Hc : c <> ix_col ix).
  { intros ->. rewrite Nat.eqb_refl in H1. discriminate. }
  unfold row_key. rewrite (nth_set_nth_other c (ix_col ix) v r Hc).
  assert (Hk : ikey_eqb (key_of_cell (nth (ix_col ix) r VNull)) (key_of_cell (nth (ix_col ix) r VNull)) = true)
    by now apply ikey_eqb_eq.
  now rewrite Hk.
Qed.

Lemma uix_update_rows_unindexed_col U t c k w : forall rows pos,
  col_indexed U t c = false -> uix_update_rows U t c k w pos rows = U.
Proof.
  induction rows as [|r rows IH]; intros pos H; cbn [uix_update_rows]; [reflexivity|].
  destruct (matches w r); [rewrite uix_update_unindexed_col by assumption|]; now apply IH.
Qed.

(** table lengths *)
Lemma rows_len_set_same T t tb tb' :
  get_table T t = Some tb -> rows_len (set_table T t tb') t = length (t_rows tb').
Proof. intros G. unfold rows_len. now rewrite (get_set_same _ _ _ _ G). Qed.

Lemma rows_len_set_other T t t' tb' : t' <> t -> rows_len (set_table T t tb') t' = rows_len T t'.
Proof. intros H. unfold rows_len. now rewrite get_set_other. Qed.

Lemma rows_len_set_ge T t tb tb' t' :
  get_table T t = Some tb -> (length (t_rows tb) <= length (t_rows tb'))%nat ->
  (rows_len T t' <= rows_len (set_table T t tb') t')%nat.
Proof.
  intros G Hl. destruct (Z.eq_dec t' t) as [->|Hne].
  - rewrite (rows_len_set_same _ _ _ _ G). unfold rows_len. rewrite G. assumption.
  - rewrite rows_len_set_other by assumption. lia.
Qed.

Lemma table_insert_length tb r tb' : table_insert tb r = Done tb' -> length (t_rows tb') = S (length (t_rows tb)).
Proof.
  unfold table_insert. destruct (normalize_row _ _); try discriminate. intros H; inversion H; subst.
  cbn. rewrite app_length. cbn. lia.
Qed.

Lemma table_insert_many_length rs : forall tb tb' st,
  table_insert_many tb rs = (tb', st) -> (length (t_rows tb) <= length (t_rows tb'))%nat.
Proof.
  induction rs as [|r rs IH]; intros tb tb' st H; cbn [table_insert_many] in H.
  - inversion H; subst. lia.
  - destruct (table_insert tb r) as [tb1| |] eqn:E; try (inversion H; subst; lia).
    apply table_insert_length in E. apply IH in H. lia.
Qed.

Lemma update_rows_length cols c k w : forall rows rows' st,
  update_rows cols c k w rows = (rows', st) -> length rows' = length rows.
Proof.
  induction rows as [|r rows IH]; intros rows' st H; cbn [update_rows] in H.
  - inversion H; reflexivity.
  - destruct (matches w r).
    + destruct (normalize_row _ _); try (inversion H; reflexivity).
      destruct (update_rows cols c k w rows) as [rest st'] eqn:E. inversion H; subst. cbn. f_equal. eauto.
    + destruct (update_rows cols c k w rows) as [rest st'] eqn:E. inversion H; subst. cbn. f_equal. eauto.
Qed.

(** the invariant of a growing transaction, relative to the state at BEGIN *)
Definition grown (T0 : tables) (U0 : list uindex) (d : db) : Prop :=
  (forall t, (rows_len T0 t <= rows_len (d_tabs d) t)%nat) /\ uix_extends (rows_len T0) U0 (d_uix d).

Lemma col_indexed_extends lo U0 U t c : uix_extends lo U0 U -> col_indexed U t c = col_indexed U0 t c.
Proof.
  revert U; induction U0 as [|ix0 U0 IH]; intros [|ix U]; cbn; try tauto.
  intros (H1 & H2 & H3 & H4 & H5). unfold col_indexed in *. cbn [existsb]. rewrite H2, H3. f_equal. auto.
Qed.

Lemma api_insert_row_grown T0 U0 d t r : grown T0 U0 d -> grown T0 U0 (fst (api_insert_row d t r)).
Proof.
  intros [HL HU]. unfold api_insert_row.
  destruct (get_table (d_tabs d) t) as [tb|] eqn:G; [|split; assumption].
  destruct (table_insert tb r) as [tb'| |] eqn:E; try (split; assumption).
  cbn [fst]. pose proof (table_insert_length _ _ _ E) as Hlen. split.
  - intros t'. rewrite record_tabs. cbn [d_tabs]. specialize (HL t').
    pose proof (rows_len_set_ge (d_tabs d) t tb tb' t' G). lia.
  - rewrite record_uix. cbn [d_uix]. apply uix_extends_insert; [|assumption].
    specialize (HL t). unfold rows_len in HL at 2. rewrite G in HL. assumption.
Qed.

Lemma api_insert_batch_grown T0 U0 d t rs : grown T0 U0 d -> grown T0 U0 (fst (api_insert_batch d t rs)).
Proof.
  intros [HL HU]. unfold api_insert_batch. destruct rs as [|r0 rs0]; [split; assumption|].
  destruct (get_table (d_tabs d) t) as [tb|] eqn:G; [|split; assumption].
  destruct (table_insert_many tb (r0 :: rs0)) as [tb' st] eqn:E.
  pose proof (table_insert_many_length _ _ _ _ E) as Hlen.
  assert (HL' : forall t', (rows_len T0 t' <= rows_len (set_table (d_tabs d) t tb') t')%nat).
  { intros t'. specialize (HL t'). pose proof (rows_len_set_ge (d_tabs d) t tb tb' t' G Hlen). lia. }
  destruct st as [u| |]; cbn [fst]; split; rewrite ?record_tabs, ?record_uix; cbn [d_tabs d_uix]; auto.
  apply uix_extends_insert_many; [|assumption].
  specialize (HL t). unfold rows_len in HL at 2. rewrite G in HL. assumption.
Qed.

Lemma step_grown T0 U0 d o :
  grows_only U0 o = true -> grown T0 U0 d -> grown T0 U0 (fst (step d o)).
Proof.
  intros Hg H. destruct o; try discriminate Hg; cbn [step].
  - unfold begin_txn. destruct (d_tx d); assumption.
  - unfold create_savepoint. destruct (d_tx d); assumption.
  - unfold release_savepoint. repeat (destr_match; cbn [fst]); assumption.
  - unfold sql_insert. repeat (destr_match; cbn [fst]); try assumption.
    + now apply api_insert_row_grown.
    + now apply api_insert_batch_grown.
  - now apply api_insert_row_grown.
  - now apply api_insert_batch_grown.
  - cbn [fst]. destruct H as [HL HU]. split; [now rewrite record_tabs|now rewrite record_uix].
  - cbn [grows_only] in Hg. apply negb_true_iff in Hg. destruct H as [HL HU].
    rewrite <- (col_indexed_extends _ _ _ t c HU) in Hg.
    unfold sql_update. destruct (get_table (d_tabs d) t) as [tb|] eqn:G; [|split; assumption].
    destruct (_ <=? _)%nat; [split; assumption|].
    destruct (update_rows (t_cols tb) c k w (t_rows tb)) as [rows' st] eqn:E.
    pose proof (update_rows_length _ _ _ _ _ _ _ E) as Hlen.
    assert (HL' : forall t', (rows_len T0 t' <= rows_len (set_table (d_tabs d) t (mkTable (t_cols tb) rows')) t')%nat).
    { intros t'. specialize (HL t').
      pose proof (rows_len_set_ge (d_tabs d) t tb (mkTable (t_cols tb) rows') t' G). cbn [t_rows] in *. lia. }
    destruct st as [u| |]; cbn [fst]; split; cbn [d_tabs d_uix]; auto.
    now rewrite uix_update_rows_unindexed_col.
Qed.

Lemma run_grown T0 U0 ops : forall d,
  Forall (fun o => grows_only U0 o = true) ops -> grown T0 U0 d -> grown T0 U0 (run d ops).
Proof.
  induction ops as [|o ops IH]; intros d HF H; [assumption|].
  inversion HF as [|? ? Ho HF']; subst. cbn [run fold_left]. fold (run (fst (step d o)) ops).
  apply IH; [assumption|]. now apply step_grown.
Qed.

Lemma fetch_rows_app rows a b : fetch_rows rows (a ++ b) = fetch_rows rows a ++ fetch_rows rows b.
Proof.
  induction a as [|i a IH]; cbn [fetch_rows app]; [reflexivity|].
  destruct (nth_error rows i); cbn; now rewrite IH.
Qed.

Lemma fetch_rows_beyond rows extra : Forall (fun p => (length rows <= p)%nat) extra -> fetch_rows rows extra = [].
Proof.
  induction extra as [|p extra IH]; intros H; [reflexivity|]. inversion H; subst. cbn [fetch_rows].
  destruct (nth_error rows p) eqn:E; [|auto].
  assert (p < length rows)%nat by (apply nth_error_Some; congruence). lia.
Qed.

Lemma q_point_extends T0 c0 U0 U x t c k o :
  uix_extends (rows_len T0) U0 U ->
  q_point (mkDb c0 T0 U x) t c k o = q_point (mkDb c0 T0 U0 x) t c k o.
Proof.
  intros HU. unfold q_point. cbn [d_tabs d_uix]. destruct (get_table T0 t) as [tb|] eqn:G; [|reflexivity].
  revert U HU. induction U0 as [|ix0 U0 IH]; intros [|ix U]; cbn [uix_extends find_uix]; try tauto.
  intros (H1 & H2 & H3 & H4 & H5). rewrite H2, H3.
  destruct ((ix_table ix0 =? t) && (ix_col ix0 =? c)%nat) eqn:E; [|now apply IH].
  destruct (H4 (Some k)) as (extra & -> & Hf). rewrite fetch_rows_app, filter_app.
  rewrite (fetch_rows_beyond (t_rows tb) extra); [now rewrite app_nil_r|].
  apply andb_true_iff in E as [E _]. apply Z.eqb_eq in E. rewrite E in Hf.
  unfold rows_len in Hf. now rewrite G in Hf.
Qed.

Lemma listing_extends lo U0 U : uix_extends lo U0 U -> storage_index_listing (mkDb (mkCat [] []) [] U None) = storage_index_listing (mkDb (mkCat [] []) [] U0 None).
Proof.
  unfold storage_index_listing. cbn [d_uix]. revert U; induction U0 as [|ix0 U0 IH]; intros [|ix U]; cbn; try tauto.
  intros (H1 & H2 & H3 & H4 & H5). rewrite H1, H2, H3. f_equal. auto.
Qed.

(** C13 for growing transactions (INSERTs through SQL or the storage API, UPDATEs of un-indexed
    columns, SAVEPOINT / RELEASE), with any user indexes in any state: every observation right after
    ROLLBACK equals the one before BEGIN *)
Theorem rollback_restores_obs_growing db ops :
  d_tx db = None -> Forall (fun o => grows_only (d_uix db) o = true) ops ->
  obs_eq (fst (step (run (fst (step db OBegin)) ops) ORollback)) db.
Proof.
  intros Hn HF.
  assert (HI : Forall (fun o => inside o = true) ops).
  { eapply Forall_impl; [|exact HF]. intros o Ho. destruct o; try reflexivity; discriminate. }
  destruct (rollback_restores_tables_catalog db ops Hn HI) as (_ & H1 & H2 & H3 & H4).
  set (after := run (fst (step db OBegin)) ops) in *.
  assert (HG : grown (d_tabs db) (d_uix db) after).
  { unfold after. apply run_grown; [assumption|].
    cbn [step]. unfold begin_txn. rewrite Hn. cbn [fst]. split; cbn; [lia|apply uix_extends_refl]. }
  destruct HG as [_ HU].
  set (rolled := fst (step after ORollback)) in *.
  unfold obs_eq. split; [assumption|]. split; [assumption|]. split.
  - unfold storage_index_listing. rewrite H4.
    pose proof (listing_extends _ _ _ HU) as HL. unfold storage_index_listing in HL. cbn [d_uix] in HL. exact HL.
  - intros t c k o.
    destruct rolled as [rc rT rU rx] eqn:ER. cbn [d_cat d_tabs d_uix d_tx] in *. subst rc rT rU rx.
    destruct db as [c0 T0 U0 x0]. cbn [d_cat d_tabs d_uix d_tx] in *. subst x0.
    now apply q_point_extends.
Qed.

(** ... but the indexes are not restored, and one more committed INSERT shows it: the stale entry and
    the new entry point at the same position and the row is answered twice *)
Theorem rollback_insert_only_continuation_refuted :
  exists db ops epilogue t c k o,
    d_tx db = None /\ Forall (fun o => grows_only (d_uix db) o = true) ops /\
    q_point (run (fst (step (run (fst (step db OBegin)) ops) ORollback)) epilogue) t c k o
    <> q_point (run db epilogue) t c k o.
Proof.
  exists (run (mkDb (mkCat [1] []) [(1, mkTable [TInt; TInt] [])] [] None) [OCreateIndex 2 1 1%nat]),
         [OInsert 1 [[LInt 1; LInt 5]]], [OInsert 1 [[LInt 2; LInt 5]]], 1, 1%nat, 5, false.
  split; [reflexivity|]. split; [repeat constructor|]. vm_compute. discriminate.
Qed.

Example rollback_restores_obs_growing_example :
  let db := run (mkDb (mkCat [0] []) [(0, mkTable [TInt; TInt; TInt] [])] [] None)
                [OInsert 0 [[LInt 1; LInt 5; LInt 7]]; OCreateIndex 0 0 1%nat] in
  let ops := [OInsert 0 [[LInt 2; LInt 5; LInt 8]; [LInt 3; LInt 6; LNull]]; OSavepoint 1;
              OUpdate 0 2%nat 9 (Some (1%nat, 5)); OApiInsert 0 [VInteger 4; VNull; VNull]] in
  d_tx db = None /\ forallb (grows_only (d_uix db)) ops = true /\
  d_uix (fst (step (run (fst (step db OBegin)) ops) ORollback)) <> d_uix db.
Proof. vm_compute. repeat split; congruence. Qed.
