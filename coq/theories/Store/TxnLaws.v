(** Laws of the transaction model (C13): what BEGIN ... ROLLBACK / COMMIT restores, for every
    statement sequence (ROLLBACK rebuilds the user indexes since fixes/C13-rollback-rebuilds-user-indexes); plus the bag / table lemmas shared with Store/SavepointLaws.v. *)
From Coq Require Import List ZArith Bool Arith Lia.
From VibeSQL Require Import Base.LexOrd Value.SqlValue Value.ValueLaws Store.Txn Store.Savepoint.
Import ListNotations.
Open Scope Z_scope.

(** * [row_eqb] is an equivalence (from the C21 laws of [SqlValue::eq]) *)
Lemma row_eqb_refl r : row_eqb r r = true.
Proof. induction r as [|x r IH]; cbn [row_eqb]; [reflexivity|]. now rewrite eqb_refl_thm, IH. Qed.

Lemma row_eqb_sym a b : row_eqb a b = row_eqb b a.
Proof.
  revert b; induction a as [|x a IH]; intros [|y b]; cbn [row_eqb]; try reflexivity.
  now rewrite eqb_sym_thm, IH.
Qed.

Lemma row_eqb_trans a b c : row_eqb a b = true -> row_eqb b c = true -> row_eqb a c = true.
Proof.
  revert b c; induction a as [|x a IH]; intros [|y b] [|z c]; cbn [row_eqb]; try discriminate; auto.
  intros H1 H2. apply andb_true_iff in H1 as [H1 H1']. apply andb_true_iff in H2 as [H2 H2'].
  apply andb_true_iff; split; [eapply eqb_trans_thm; eauto | eapply IH; eauto].
Qed.

(** rows that are [==] are indistinguishable by [==] *)
Lemma row_eqb_congr a b c : row_eqb a b = true -> row_eqb c a = row_eqb c b.
Proof.
  intros H. destruct (row_eqb c a) eqn:E1, (row_eqb c b) eqn:E2; try reflexivity.
  - rewrite (row_eqb_trans c a b E1 H) in E2; discriminate.
  - rewrite row_eqb_sym in H. rewrite (row_eqb_trans c b a E2 H) in E1; discriminate.
Qed.

(** * Bags modulo [==] *)
Lemma count_row_nil r : count_row r [] = O.
Proof. reflexivity. Qed.

Lemma count_row_cons r x l :
  count_row r (x :: l) = ((if row_eqb r x then 1 else 0) + count_row r l)%nat.
Proof. unfold count_row; cbn [filter]. destruct (row_eqb r x); reflexivity. Qed.

Lemma count_row_app r l1 l2 : count_row r (l1 ++ l2) = (count_row r l1 + count_row r l2)%nat.
Proof. unfold count_row. now rewrite filter_app, app_length. Qed.

Lemma count_row_congr a b l : row_eqb a b = true -> count_row a l = count_row b l.
Proof.
  intros H; induction l as [|x l IH]; [reflexivity|].
  rewrite !count_row_cons, IH. f_equal.
  rewrite (row_eqb_sym a x), (row_eqb_sym b x). now rewrite (row_eqb_congr a b x H).
Qed.

Lemma bag_eq_refl l : bag_eq l l.
Proof. intro; reflexivity. Qed.
Lemma bag_eq_sym a b : bag_eq a b -> bag_eq b a.
Proof. intros H r; symmetry; apply H. Qed.
Lemma bag_eq_trans a b c : bag_eq a b -> bag_eq b c -> bag_eq a c.
Proof. intros H1 H2 r; now rewrite H1. Qed.

Lemma bag_eq_app a b c d : bag_eq a b -> bag_eq c d -> bag_eq (a ++ c) (b ++ d).
Proof. intros H1 H2 r. now rewrite !count_row_app, H1, H2. Qed.

Lemma bag_eq_single a b : row_eqb a b = true -> bag_eq [a] [b].
Proof.
  intros H r. rewrite !count_row_cons, !count_row_nil. now rewrite (row_eqb_congr a b r H).
Qed.

(** [Table::remove_row]: what it removes, counted *)
Lemma remove_first_count r l l' :
  remove_first r l = Some l' ->
  forall c, count_row c l = ((if row_eqb c r then 1 else 0) + count_row c l')%nat.
Proof.
  revert l'; induction l as [|x l IH]; intros l' H c; cbn [remove_first] in H; [discriminate|].
  destruct (row_eqb x r) eqn:E.
  - inversion H; subst l'. rewrite count_row_cons. f_equal.
    now rewrite (row_eqb_congr x r c E).
  - destruct (remove_first r l) as [rest|] eqn:R; [|discriminate]. inversion H; subst l'.
    rewrite !count_row_cons, (IH rest eq_refl c). lia.
Qed.

Lemma remove_first_found r l : (0 < count_row r l)%nat -> exists l', remove_first r l = Some l'.
Proof.
  induction l as [|x l IH]; intros H; [cbn in H; lia|].
  cbn [remove_first]. destruct (row_eqb x r) eqn:E; [eauto|].
  rewrite count_row_cons, (row_eqb_sym r x), E in H. cbn in H.
  destruct (IH H) as [l' ->]. eauto.
Qed.

Lemma remove_first_none r l : remove_first r l = None -> count_row r l = O.
Proof.
  intros H. destruct (count_row r l) eqn:E; [reflexivity|].
  destruct (remove_first_found r l) as [l' Hl']; [lia|]. congruence.
Qed.

(** the undo of a recorded insert: the table holds (as a bag) [base] plus one row [==] to the
    recorded one; [remove_row] finds such a row and leaves [base] *)
Lemma remove_first_undoes_append r r' l base :
  row_eqb r r' = true -> bag_eq l (base ++ [r']) ->
  exists l', remove_first r l = Some l' /\ bag_eq l' base.
Proof.
  intros E H.
  assert (Hpos : (0 < count_row r l)%nat).
  { rewrite (H r), count_row_app, count_row_cons, E. lia. }
  destruct (remove_first_found r l Hpos) as [l' Hl']. exists l'; split; [assumption|].
  intros c. pose proof (remove_first_count r l l' Hl' c) as Hc.
  rewrite (H c), count_row_app, count_row_cons, count_row_nil in Hc.
  rewrite (row_eqb_congr r' r c) in Hc by (now rewrite row_eqb_sym). lia.
Qed.

(** * Tables *)
Lemma set_table_same T t tb : get_table T t = Some tb -> set_table T t tb = T.
Proof.
  induction T as [|[n tb0] T IH]; cbn [get_table set_table]; [discriminate|].
  destruct (n =? t) eqn:E; intros H; [inversion H; reflexivity|]. now rewrite IH.
Qed.

Lemma get_set_same T t tb tb' : get_table T t = Some tb -> get_table (set_table T t tb') t = Some tb'.
Proof.
  induction T as [|[n tb0] T IH]; cbn [get_table set_table]; [discriminate|].
  destruct (n =? t) eqn:E; intros H; cbn [get_table]; rewrite E; [reflexivity|auto].
Qed.

Lemma get_set_other T t t' tb' : t' <> t -> get_table (set_table T t tb') t' = get_table T t'.
Proof.
  intros Hne. induction T as [|[n tb0] T IH]; cbn [get_table set_table]; [reflexivity|].
  destruct (n =? t) eqn:E; cbn [get_table].
  - apply Z.eqb_eq in E; subst n. destruct (t =? t') eqn:E'; [apply Z.eqb_eq in E'; congruence|reflexivity].
  - destruct (n =? t'); [reflexivity|apply IH].
Qed.

Lemma get_set_none T t tb' : get_table T t = None -> set_table T t tb' = T.
Proof.
  induction T as [|[n tb0] T IH]; cbn [get_table set_table]; [reflexivity|].
  destruct (n =? t); [discriminate|]. intros H; now rewrite IH.
Qed.

(** the schema (table names with their column lists) *)
Definition schema_of (T : tables) : list (tname * list coltype) := map (fun e => (fst e, t_cols (snd e))) T.

Lemma schema_set_table T t tb tb' :
  get_table T t = Some tb -> t_cols tb' = t_cols tb -> schema_of (set_table T t tb') = schema_of T.
Proof.
  induction T as [|[n tb0] T IH]; cbn [get_table set_table schema_of map]; [discriminate|].
  destruct (n =? t) eqn:E; intros H Hc; cbn [schema_of map fst snd].
  - inversion H; subst tb0. now rewrite Hc.
  - f_equal. now apply IH.
Qed.

Lemma schema_get T1 T2 t tb1 :
  schema_of T1 = schema_of T2 -> get_table T1 t = Some tb1 ->
  exists tb2, get_table T2 t = Some tb2 /\ t_cols tb2 = t_cols tb1.
Proof.
  revert T2; induction T1 as [|[n a] T1 IH]; intros [|[m b] T2] HS H; cbn in *; try discriminate.
  inversion HS; subst m. destruct (n =? t); [inversion H; subst a; eauto|eauto].
Qed.

Lemma schema_get_none T1 T2 t :
  schema_of T1 = schema_of T2 -> get_table T1 t = None -> get_table T2 t = None.
Proof.
  revert T2; induction T1 as [|[n a] T1 IH]; intros [|[m b] T2] HS H; cbn in *; try discriminate; auto.
  inversion HS; subst m. destruct (n =? t); [discriminate|eauto].
Qed.

Lemma tabs_beq_refl T : tabs_beq T T.
Proof. induction T as [|[n tb] T IH]; cbn; auto using bag_eq_refl. Qed.

Lemma tabs_beq_sym T1 T2 : tabs_beq T1 T2 -> tabs_beq T2 T1.
Proof.
  revert T2; induction T1 as [|[n a] T1 IH]; intros [|[m b] T2]; cbn; auto.
  intros (H1 & H2 & H3 & H4); auto using bag_eq_sym.
Qed.

Lemma tabs_beq_trans T1 T2 T3 : tabs_beq T1 T2 -> tabs_beq T2 T3 -> tabs_beq T1 T3.
Proof.
  revert T2 T3; induction T1 as [|[n a] T1 IH]; intros [|[m b] T2] [|[k c] T3]; cbn; try tauto.
  intros (H1 & H2 & H3 & H4) (G1 & G2 & G3 & G4).
  split; [congruence|]. split; [congruence|].
  split; [eapply bag_eq_trans; eauto | eapply IH; eauto].
Qed.

Lemma tabs_beq_schema T1 T2 : tabs_beq T1 T2 -> schema_of T1 = schema_of T2.
Proof.
  revert T2; induction T1 as [|[n a] T1 IH]; intros [|[m b] T2]; cbn; try tauto.
  intros (H1 & H2 & H3 & H4). subst m. rewrite H2. f_equal. auto.
Qed.

Lemma tabs_beq_get T1 T2 t tb1 :
  tabs_beq T1 T2 -> get_table T1 t = Some tb1 ->
  exists tb2, get_table T2 t = Some tb2 /\ t_cols tb1 = t_cols tb2 /\ bag_eq (t_rows tb1) (t_rows tb2).
Proof.
  revert T2; induction T1 as [|[n a] T1 IH]; intros [|[m b] T2]; cbn; try tauto; try discriminate.
  intros (H1 & H2 & H3 & H4) H. subst m. destruct (n =? t); [inversion H; subst a; eauto|eauto].
Qed.

Lemma tabs_beq_set T1 T2 t tb1 tb2 :
  tabs_beq T1 T2 -> t_cols tb1 = t_cols tb2 -> bag_eq (t_rows tb1) (t_rows tb2) ->
  tabs_beq (set_table T1 t tb1) (set_table T2 t tb2).
Proof.
  revert T2; induction T1 as [|[n a] T1 IH]; intros [|[m b] T2]; cbn; try tauto.
  intros (H1 & H2 & H3 & H4) Hc Hb. subst m. destruct (n =? t); cbn; auto.
Qed.

(** replacing a table by one with the same columns and the same bag of rows changes nothing *)
Lemma tabs_beq_set_l T1 T2 t tb tb1 :
  tabs_beq T1 T2 -> get_table T1 t = Some tb -> t_cols tb1 = t_cols tb ->
  bag_eq (t_rows tb1) (t_rows tb) -> tabs_beq (set_table T1 t tb1) T2.
Proof.
  intros H G Hc Hb. destruct (tabs_beq_get _ _ _ _ H G) as (tb2 & G2 & Hc2 & Hb2).
  rewrite <- (set_table_same T2 t tb2 G2).
  apply tabs_beq_set; [assumption|congruence|eapply bag_eq_trans; eauto].
Qed.

(** * Frame facts about the statements *)
Definition snap_of (d : db) : option (catalog * tables * list (iname * tname * nat)) :=
  match d_tx d with Some x => Some (x_cat x, x_tabs x, x_ixs x) | None => None end.

Lemma record_cat d cs : d_cat (record d cs) = d_cat d.
Proof. unfold record; destruct (d_tx d) eqn:E; reflexivity. Qed.
Lemma record_tabs d cs : d_tabs (record d cs) = d_tabs d.
Proof. unfold record; destruct (d_tx d) eqn:E; reflexivity. Qed.
Lemma record_uix d cs : d_uix (record d cs) = d_uix d.
Proof. unfold record; destruct (d_tx d) eqn:E; reflexivity. Qed.
Lemma record_snap d cs : snap_of (record d cs) = snap_of d.
Proof. unfold record, snap_of; destruct (d_tx d) eqn:E; cbn; rewrite ?E; reflexivity. Qed.
Lemma record_tx_some d cs : d_tx d <> None -> d_tx (record d cs) <> None.
Proof. unfold record; destruct (d_tx d) eqn:E; cbn; congruence. Qed.
Lemma record_tx_none d cs : d_tx d = None -> record d cs = d.
Proof. unfold record; intros ->; reflexivity. Qed.

Ltac destr_match :=
  match goal with
  | |- context [match ?x with _ => _ end] => destruct x eqn:?
  end.

(** every statement other than COMMIT / ROLLBACK keeps an active transaction active and its
    (catalog, tables, index definitions) snapshot untouched *)
Lemma step_inside_snap d o :
  inside o = true -> d_tx d <> None -> snap_of (fst (step d o)) = snap_of d.
Proof.
  intros Hi Hx. destruct (d_tx d) as [x|] eqn:E; [clear Hx|congruence].
  assert (HS : snap_of d = Some (x_cat x, x_tabs x, x_ixs x)) by (unfold snap_of; now rewrite E).
  destruct o; try discriminate Hi; cbn [step].
  - unfold begin_txn. rewrite E. reflexivity.
  - unfold create_savepoint. rewrite E. cbn [fst]. rewrite HS. reflexivity.
  - unfold release_savepoint. rewrite E. destruct (sp_position n (x_sps x)); cbn [fst]; rewrite HS; reflexivity.
  - unfold rollback_to_savepoint. rewrite E. destruct (sp_position n (x_sps x)); [|reflexivity].
    destruct (_ <? _)%nat; [reflexivity|].
    destruct (undo_all _ _) as [T' [u| |]]; cbn [fst]; rewrite HS; reflexivity.
  - unfold sql_insert. repeat (destr_match; cbn [fst]; try reflexivity).
    + unfold api_insert_row. repeat (destr_match; cbn [fst]; try reflexivity). now rewrite record_snap.
    + unfold api_insert_batch. repeat (destr_match; cbn [fst]; try reflexivity). now rewrite record_snap.
  - unfold api_insert_row. repeat (destr_match; cbn [fst]; try reflexivity). now rewrite record_snap.
  - unfold api_insert_batch. repeat (destr_match; cbn [fst]; try reflexivity). now rewrite record_snap.
  - cbn [fst]. apply record_snap.
  - unfold sql_update. repeat (destr_match; cbn [fst]; try reflexivity).
  - unfold sql_delete. repeat (destr_match; cbn [fst]; try reflexivity).
  - unfold sql_create_index. repeat (destr_match; cbn [fst]; try reflexivity).
  - unfold sql_drop_index. repeat (destr_match; cbn [fst]; try reflexivity).
Qed.

Lemma snap_of_some_tx d : snap_of d <> None <-> d_tx d <> None.
Proof. unfold snap_of; destruct (d_tx d); split; congruence. Qed.

Lemma run_inside_snap ops : forall d,
  Forall (fun o => inside o = true) ops -> d_tx d <> None -> snap_of (run d ops) = snap_of d.
Proof.
  induction ops as [|o ops IH]; intros d HF Hx; [reflexivity|].
  inversion HF as [|? ? Ho HF']; subst. cbn [run fold_left]. fold (run (fst (step d o)) ops).
  pose proof (step_inside_snap d o Ho Hx) as Hs.
  rewrite IH; [assumption|assumption|]. apply snap_of_some_tx. rewrite Hs. now apply snap_of_some_tx.
Qed.

Lemma run_app d a b : run d (a ++ b) = run (run d a) b.
Proof. unfold run. apply fold_left_app. Qed.

(** * C13: what ROLLBACK yields, exactly, for every statement sequence *)

(** the database with every user index dropped and created again from its table *)
Definition refresh (d : db) : db :=
  mkDb (d_cat d) (d_tabs d) (fst (rebuild_defs (d_tabs d) (ix_defs (d_uix d)) [])) None.
(** every index definition can be rebuilt (its table exists, its column is in range, names differ) *)
Definition refresh_ok (d : db) : bool := snd (rebuild_defs (d_tabs d) (ix_defs (d_uix d)) []).

Lemma begin_snap db : d_tx db = None ->
  snap_of (fst (step db OBegin)) = Some (d_cat db, d_tabs db, ix_defs (d_uix db)).
Proof. intros Hn. cbn [step]. unfold begin_txn. rewrite Hn. reflexivity. Qed.

Lemma after_snap db ops : d_tx db = None -> Forall (fun o => inside o = true) ops ->
  snap_of (run (fst (step db OBegin)) ops) = Some (d_cat db, d_tabs db, ix_defs (d_uix db)).
Proof.
  intros Hn HF. rewrite run_inside_snap; [now apply begin_snap|assumption|].
  apply snap_of_some_tx. rewrite (begin_snap db Hn). discriminate.
Qed.

(** BEGIN; any statements; ROLLBACK leaves exactly [refresh db]: catalog and tables of [db], no
    transaction, and every user index [db] had, rebuilt from its table -- whatever the statements did
    to rows, to index entries or to the set of indexes *)
Theorem rollback_is_refresh db ops :
  d_tx db = None -> Forall (fun o => inside o = true) ops ->
  let res := step (run (fst (step db OBegin)) ops) ORollback in
  fst res = refresh db /\ snd res = (if refresh_ok db then ROk 0 else RErr).
Proof.
  intros Hn HF res. pose proof (after_snap db ops Hn HF) as Ha.
  unfold res. set (after := run (fst (step db OBegin)) ops) in *.
  cbn [step]. unfold rollback_txn. unfold snap_of in Ha.
  destruct (d_tx after) as [x|]; [|discriminate]. injection Ha as Hc Ht Hi. rewrite Hc, Ht, Hi.
  unfold refresh, refresh_ok.
  destruct (rebuild_defs (d_tabs db) (ix_defs (d_uix db)) []) as [U ok]. cbn. auto.
Qed.

(** in particular tables and catalog always come back *)
Corollary rollback_restores_tables_catalog db ops :
  d_tx db = None -> Forall (fun o => inside o = true) ops ->
  let res := step (run (fst (step db OBegin)) ops) ORollback in
  d_cat (fst res) = d_cat db /\ d_tabs (fst res) = d_tabs db /\ d_tx (fst res) = None.
Proof.
  intros Hn HF res. destruct (rollback_is_refresh db ops Hn HF) as [H _]. fold res in H. rewrite H.
  cbn. auto.
Qed.

(** COMMIT keeps everything the last statement left (only the transaction state goes away) *)
Theorem commit_keeps d :
  d_tx d <> None ->
  let res := step d OCommit in
  snd res = ROk 0 /\ d_cat (fst res) = d_cat d /\ d_tabs (fst res) = d_tabs d /\
  d_uix (fst res) = d_uix d /\ d_tx (fst res) = None.
Proof.
  intros Hx res. unfold res. cbn [step]. unfold commit_txn.
  destruct (d_tx d); [cbn; auto|congruence].
Qed.

Lemma q_point_ext d1 d2 :
  d_tabs d1 = d_tabs d2 -> d_uix d1 = d_uix d2 -> forall t c k o, q_point d1 t c k o = q_point d2 t c k o.
Proof. intros H1 H2 t c k o. unfold q_point. now rewrite H1, H2. Qed.

Theorem commit_keeps_obs db ops :
  d_tx db = None -> Forall (fun o => inside o = true) ops ->
  let after := run (fst (step db OBegin)) ops in
  obs_eq (fst (step after OCommit)) after.
Proof.
  intros Hn HF after.
  assert (Hx : d_tx after <> None).
  { apply snap_of_some_tx. unfold after. rewrite (after_snap db ops Hn HF). discriminate. }
  destruct (commit_keeps after Hx) as (_ & H1 & H2 & H3 & _).
  unfold obs_eq. repeat split; try assumption.
  - unfold storage_index_listing. now rewrite H3.
  - apply q_point_ext; assumption.
Qed.

(** * Indexes that say the same: same definitions in the same order, same row indices under every key
    (the association lists may list the keys in different orders) *)
Fixpoint uix_equiv (U1 U2 : list uindex) : Prop :=
  match U1, U2 with
  | [], [] => True
  | a :: U1', b :: U2' =>
      ix_name a = ix_name b /\ ix_table a = ix_table b /\ ix_col a = ix_col b /\
      (forall k, idx_lookup k (ix_data a) = idx_lookup k (ix_data b)) /\ uix_equiv U1' U2'
  | _, _ => False
  end.

Lemma uix_equiv_refl U : uix_equiv U U.
Proof. induction U as [|ix U IH]; cbn; auto. Qed.

Lemma uix_equiv_defs U1 U2 : uix_equiv U1 U2 -> ix_defs U1 = ix_defs U2.
Proof.
  revert U2; induction U1 as [|a U1 IH]; intros [|b U2]; cbn; try tauto.
  intros (H1 & H2 & H3 & _ & H5). rewrite H1, H2, H3. f_equal. auto.
Qed.

Lemma q_point_equiv c1 c2 T U1 U2 x1 x2 t c k o :
  uix_equiv U1 U2 -> q_point (mkDb c1 T U1 x1) t c k o = q_point (mkDb c2 T U2 x2) t c k o.
Proof.
  intros HU. unfold q_point. cbn [d_tabs d_uix]. destruct (get_table T t) as [tb|]; [|reflexivity].
  revert U2 HU; induction U1 as [|a U1 IH]; intros [|b U2]; cbn [uix_equiv find_uix]; try tauto.
  intros (H1 & H2 & H3 & H4 & H5). rewrite H2, H3.
  destruct ((ix_table b =? t) && (ix_col b =? c)%nat); [now rewrite H4|now apply IH].
Qed.

(** the user indexes of [d] are what a rebuild would produce *)
Definition fresh (d : db) : Prop := refresh_ok d = true /\ uix_equiv (d_uix (refresh d)) (d_uix d).

Lemma fresh_of_eq d : refresh_ok d = true -> d_uix (refresh d) = d_uix d -> fresh d.
Proof. intros H1 H2. split; [assumption|]. rewrite H2. apply uix_equiv_refl. Qed.

(** * C13: from a state whose user indexes mirror their tables, BEGIN; ANY statements; ROLLBACK
    restores every observation -- index DDL and changes of indexed columns included *)
Theorem rollback_restores db ops :
  d_tx db = None -> fresh db -> Forall (fun o => inside o = true) ops ->
  let res := step (run (fst (step db OBegin)) ops) ORollback in
  snd res = ROk 0 /\ d_cat (fst res) = d_cat db /\ d_tabs (fst res) = d_tabs db /\
  d_tx (fst res) = None /\ uix_equiv (d_uix (fst res)) (d_uix db) /\ obs_eq (fst res) db.
Proof.
  intros Hn [Hok Heq] HF res. destruct (rollback_is_refresh db ops Hn HF) as [H1 H2].
  fold res in H1, H2. rewrite H1, H2, Hok.
  split; [reflexivity|]. split; [reflexivity|]. split; [reflexivity|]. split; [reflexivity|].
  split; [exact Heq|]. unfold obs_eq. split; [reflexivity|]. split; [reflexivity|]. split.
  - unfold storage_index_listing. now apply uix_equiv_defs.
  - intros t c k o. destruct db as [c0 T0 U0 x0]. unfold refresh in *. cbn [d_cat d_tabs d_uix] in *.
    now apply q_point_equiv.
Qed.

(** the case named in the property: no user index before BEGIN -- the rolled-back database IS the
    database before BEGIN, also when the transaction created indexes, and no continuation can tell *)
Corollary rollback_restores_without_user_indexes db ops :
  d_tx db = None -> d_uix db = [] -> Forall (fun o => inside o = true) ops ->
  let res := step (run (fst (step db OBegin)) ops) ORollback in
  fst res = db /\ snd res = ROk 0.
Proof.
  intros Hn HU HF res. destruct (rollback_is_refresh db ops Hn HF) as [H1 H2]. fold res in H1, H2.
  rewrite H1, H2. unfold refresh, refresh_ok. rewrite HU. cbn.
  destruct db as [c T U x]. cbn in *. subst. auto.
Qed.

Corollary rollback_then_continue_without_user_indexes db ops epilogue :
  d_tx db = None -> d_uix db = [] -> Forall (fun o => inside o = true) ops ->
  run (fst (step (run (fst (step db OBegin)) ops) ORollback)) epilogue = run db epilogue.
Proof.
  intros Hn HU HF. destruct (rollback_restores_without_user_indexes db ops Hn HU HF) as [H _].
  now rewrite H.
Qed.

(** for every state and every statement sequence: the observation after ROLLBACK equals the one
    before BEGIN exactly when rebuilding the indexes of the ORIGINAL state changes no observation *)
Theorem rollback_obs_iff db ops :
  d_tx db = None -> Forall (fun o => inside o = true) ops ->
  obs_eq (fst (step (run (fst (step db OBegin)) ops) ORollback)) db <-> obs_eq (refresh db) db.
Proof.
  intros Hn HF. destruct (rollback_is_refresh db ops Hn HF) as [H _]. now rewrite H.
Qed.

(** * The two histories that refuted C13 before the repair are now restored *)
Definition wit13_db : db :=
  run (mkDb (mkCat [0] []) [(0, mkTable [TInt; TInt] [])] [] None)
      [OInsert 0 [[LInt 1; LInt 10]]; OCreateIndex 0 0 1%nat].
Definition wit13_ops : list op := [OUpdate 0 1%nat 11 (Some (0%nat, 1))].

(** UPDATE of an indexed column inside the transaction (was: C13_rollback_restores_refuted) *)
Theorem rollback_restores_former_witness_update :
  d_uix (run (fst (step wit13_db OBegin)) wit13_ops) <> d_uix wit13_db /\
  fst (step (run (fst (step wit13_db OBegin)) wit13_ops) ORollback) = wit13_db.
Proof. vm_compute. split; [discriminate|reflexivity]. Qed.

(** CREATE INDEX inside the transaction (was: C13_rollback_ddl_refuted) *)
Theorem rollback_restores_former_witness_ddl :
  let db := mkDb (mkCat [0] []) [(0, mkTable [TInt; TInt] [])] [] None in
  storage_index_listing (run (fst (step db OBegin)) [OCreateIndex 0 0 1%nat]) <> storage_index_listing db /\
  fst (step (run (fst (step db OBegin)) [OCreateIndex 0 0 1%nat]) ORollback) = db.
Proof. vm_compute. split; [discriminate|reflexivity]. Qed.

(** * Without the freshness hypothesis the statement is still false: ROLLBACK TO SAVEPOINT leaves user
    indexes stale (C14's undo does not maintain them), and a later BEGIN; ROLLBACK repairs them -- the
    answer of a query after ROLLBACK then differs from the (wrong) answer before BEGIN.
    T0 = {(1,10), (2,20)}, index on a; BEGIN; SAVEPOINT; INSERT (1,10); ROLLBACK TO (removes the FIRST
    (1,10), rows shift); COMMIT: [a = 20] finds nothing.  BEGIN; ROLLBACK: it finds (2,20). *)
Definition wit13_stale_db : db :=
  run (mkDb (mkCat [0] []) [(0, mkTable [TInt; TInt] [])] [] None)
      [OInsert 0 [[LInt 1; LInt 10]; [LInt 2; LInt 20]]; OCreateIndex 0 0 1%nat;
       OBegin; OSavepoint 1; OInsert 0 [[LInt 1; LInt 10]]; ORollbackTo 1; OCommit].

Theorem rollback_restores_stale_refuted :
  exists db ops t c k o,
    d_tx db = None /\ Forall (fun o => inside o = true) ops /\
    q_point (fst (step (run (fst (step db OBegin)) ops) ORollback)) t c k o <> q_point db t c k o.
Proof.
  exists wit13_stale_db, [], 0, 1%nat, 20, false.
  split; [reflexivity|]. split; [constructor|]. vm_compute. discriminate.
Qed.

(** the hypotheses of the positive theorem are satisfiable by a non-trivial input: two tables, two
    indexes, a transaction that inserts, updates an indexed column, deletes, drops and creates indexes *)
Example rollback_restores_example :
  let db := run (mkDb (mkCat [0; 1] []) [(0, mkTable [TInt; TInt] []); (1, mkTable [TInt; TVarchar (Some 2%nat)] [])] [] None)
                [OInsert 0 [[LInt 1; LInt 10]; [LInt 2; LInt 10]]; OCreateIndex 0 0 1%nat; OCreateIndex 1 1 0%nat;
                 OInsert 1 [[LInt 1; LStr [97]]]; OUpdate 0 1%nat 12 (Some (0%nat, 1)); ODelete 0 (Some (0%nat, 7))] in
  let ops := [OInsert 1 [[LInt 2; LStr [97; 98; 99]]]; OSavepoint 1; OUpdate 0 1%nat 5 None; ODelete 0 (Some (0%nat, 2));
              ODropIndex 1; OCreateIndex 2 1 0%nat; ORollbackTo 1; OBegin] in
  d_tx db = None /\ refresh_ok db = true /\ forallb inside ops = true /\
  d_tabs (run (fst (step db OBegin)) ops) <> d_tabs db /\
  ix_defs (d_uix (run (fst (step db OBegin)) ops)) <> ix_defs (d_uix db) /\
  (forall k, idx_lookup k (ix_data (nth 0 (d_uix (refresh db)) (mkIx 0 0 0 []))) = idx_lookup k (ix_data (nth 0 (d_uix db) (mkIx 0 0 0 [])))) /\
  fst (step (run (fst (step db OBegin)) ops) ORollback) = refresh db.
Proof.
  vm_compute. repeat split; try congruence.
Qed.
