(** Laws of the transaction model (C13): what BEGIN ... ROLLBACK / COMMIT restores, for every
    statement sequence; plus the bag / table lemmas shared with Store/SavepointLaws.v. *)
From Coq Require Import List ZArith Bool Arith Lia.
From VibeSQL Require Import Base.LexOrd Value.SqlValue Value.ValueLaws Store.Txn Store.Savepoint.
Import ListNotations.
Open Scope Z_scope.

(** * [row_eqb] is an equivalence (from the C21 laws of [SqlValue::eq]) *)
Lemma row_eqb_refl r : row_eqb r r = true.
Proof. induction r as [|x r IH]; cbn [row_eqb]; [reflexivity|]. now rewrite eqb_refl_thm, IH. Qed.

Lemma row_eqb_sym a b : row_eqb a b = row_eqb b a.
Proof.
  revert b; induction a as [|x a IH]; intros [|y b]; cbn [row_eqb]; try reflexivity.
  now rewrite eqb_sym_thm, IH.
Qed.

Lemma row_eqb_trans a b c : row_eqb a b = true -> row_eqb b c = true -> row_eqb a c = true.
Proof.
  revert b c; induction a as [|x a IH]; intros [|y b] [|z c]; cbn [row_eqb]; try discriminate; auto.
  intros H1 H2. apply andb_true_iff in H1 as [H1 H1']. apply andb_true_iff in H2 as [H2 H2'].
  apply andb_true_iff; split; [eapply eqb_trans_thm; eauto | eapply IH; eauto].
Qed.

(** rows that are [==] are indistinguishable by [==] *)
Lemma row_eqb_congr a b c : row_eqb a b = true -> row_eqb c a = row_eqb c b.
Proof.
  intros H. destruct (row_eqb c a) eqn:E1, (row_eqb c b) eqn:E2; try reflexivity.
  - rewrite (row_eqb_trans c a b E1 H) in E2; discriminate.
  - rewrite row_eqb_sym in H. rewrite (row_eqb_trans c b a E2 H) in E1; discriminate.
Qed.

(** * Bags modulo [==] *)
Lemma count_row_nil r : count_row r [] = O.
Proof. reflexivity. Qed.

Lemma count_row_cons r x l :
  count_row r (x :: l) = ((if row_eqb r x then 1 else 0) + count_row r l)%nat.
Proof. unfold count_row; cbn [filter]. destruct (row_eqb r x); reflexivity. Qed.

Lemma count_row_app r l1 l2 : count_row r (l1 ++ l2) = (count_row r l1 + count_row r l2)%nat.
Proof. unfold count_row. now rewrite filter_app, app_length. Qed.

Lemma count_row_congr a b l : row_eqb a b = true -> count_row a l = count_row b l.
Proof.
  intros H; induction l as [|x l IH]; [reflexivity|].
  rewrite !count_row_cons, IH. f_equal.
  rewrite (row_eqb_sym a x), (row_eqb_sym b x). now rewrite (row_eqb_congr a b x H).
Qed.

Lemma bag_eq_refl l : bag_eq l l.
Proof. intro; reflexivity. Qed.
Lemma bag_eq_sym a b : bag_eq a b -> bag_eq b a.
Proof. intros H r; symmetry; apply H. Qed.
Lemma bag_eq_trans a b c : bag_eq a b -> bag_eq b c -> bag_eq a c.
Proof. intros H1 H2 r; now rewrite H1. Qed.

Lemma bag_eq_app a b c d : bag_eq a b -> bag_eq c d -> bag_eq (a ++ c) (b ++ d).
Proof. intros H1 H2 r. now rewrite !count_row_app, H1, H2. Qed.

Lemma bag_eq_single a b : row_eqb a b = true -> bag_eq [a] [b].
Proof.
  intros H r. rewrite !count_row_cons, !count_row_nil. now rewrite (row_eqb_congr a b r H).
Qed.

(** [Table::remove_row]: what it removes, counted *)
Lemma remove_first_count r l l' :
  remove_first r l = Some l' ->
  forall c, count_row c l = ((if row_eqb c r then 1 else 0) + count_row c l')%nat.
Proof.
  revert l'; induction l as [|x l IH]; intros l' H c; cbn [remove_first] in H; [discriminate|].
  destruct (row_eqb x r) eqn:E.
  - inversion H; subst l'. rewrite count_row_cons. f_equal.
    now rewrite (row_eqb_congr x r c E).
  - destruct (remove_first r l) as [rest|] eqn:R; [|discriminate]. inversion H; subst l'.
    rewrite !count_row_cons, (IH rest eq_refl c). lia.
Qed.

Lemma remove_first_found r l : (0 < count_row r l)%nat -> exists l', remove_first r l = Some l'.
Proof.
  induction l as [|x l IH]; intros H; [cbn in H; lia|].
  cbn [remove_first]. destruct (row_eqb x r) eqn:E; [eauto|].
  rewrite count_row_cons, (row_eqb_sym r x), E in H. cbn in H.
  destruct (IH H) as [l' ->]. eauto.
Qed.

Lemma remove_first_none r l : remove_first r l = None -> count_row r l = O.
Proof.
  intros H. destruct (count_row r l) eqn:E; [reflexivity|].
  destruct (remove_first_found r l) as [l' Hl']; [lia|]. congruence.
Qed.

(** the undo of a recorded insert: the table holds (as a bag) [base] plus one row [==] to the
    recorded one; [remove_row] finds such a row and leaves [base] *)
Lemma remove_first_undoes_append r r' l base :
  row_eqb r r' = true -> bag_eq l (base ++ [r']) ->
  exists l', remove_first r l = Some l' /\ bag_eq l' base.
Proof.
  intros E H.
  assert (Hpos : (0 < count_row r l)%nat).
  { rewrite (H r), count_row_app, count_row_cons, E. lia. }
  destruct (remove_first_found r l Hpos) as [l' Hl']. exists l'; split; [assumption|].
  intros c. pose proof (remove_first_count r l l' Hl' c) as Hc.
  rewrite (H c), count_row_app, count_row_cons, count_row_nil in Hc.
  rewrite (row_eqb_congr r' r c) in Hc by (now rewrite row_eqb_sym). lia.
Qed.

(** * Tables *)
Lemma set_table_same T t tb : get_table T t = Some tb -> set_table T t tb = T.
Proof.
  induction T as [|[n tb0] T IH]; cbn [get_table set_table]; [discriminate|].
  destruct (n =? t) eqn:E; intros H; [inversion H; reflexivity|]. now rewrite IH.
Qed.

Lemma get_set_same T t tb tb' : get_table T t = Some tb -> get_table (set_table T t tb') t = Some tb'.
Proof.
  induction T as [|[n tb0] T IH]; cbn [get_table set_table]; [discriminate|].
  destruct (n =? t) eqn:E; intros H; cbn [get_table]; rewrite E; [reflexivity|auto].
Qed.

Lemma get_set_other T t t' tb' : t' <> t -> get_table (set_table T t tb') t' = get_table T t'.
Proof.
  intros Hne. induction T as [|[n tb0] T IH]; cbn [get_table set_table]; [reflexivity|].
  destruct (n =? t) eqn:E; cbn [get_table].
  - apply Z.eqb_eq in E; subst n. destruct (t =? t') eqn:E'; [apply Z.eqb_eq in E'; congruence|reflexivity].
  - destruct (n =? t'); [reflexivity|apply IH].
Qed.

Lemma get_set_none T t tb' : get_table T t = None -> set_table T t tb' = T.
Proof.
  induction T as [|[n tb0] T IH]; cbn [get_table set_table]; [reflexivity|].
  destruct (n =? t); [discriminate|]. intros H; now rewrite IH.
Qed.

(** the schema (table names with their column lists) *)
Definition schema_of (T : tables) : list (tname * list coltype) := map (fun e => (fst e, t_cols (snd e))) T.

Lemma schema_set_table T t tb tb' :
  get_table T t = Some tb -> t_cols tb' = t_cols tb -> schema_of (set_table T t tb') = schema_of T.
Proof.
  induction T as [|[n tb0] T IH]; cbn [get_table set_table schema_of map]; [discriminate|].
  destruct (n =? t) eqn:E; intros H Hc; cbn [schema_of map fst snd].
  - inversion H; subst tb0. now rewrite Hc.
  - f_equal. now apply IH.
Qed.

Lemma schema_get T1 T2 t tb1 :
  schema_of T1 = schema_of T2 -> get_table T1 t = Some tb1 ->
  exists tb2, get_table T2 t = Some tb2 /\ t_cols tb2 = t_cols tb1.
Proof.
  revert T2; induction T1 as [|[n a] T1 IH]; intros [|[m b] T2] HS H; cbn in *; try discriminate.
  inversion HS; subst m. destruct (n =? t); [inversion H; subst a; eauto|eauto].
Qed.

Lemma schema_get_none T1 T2 t :
  schema_of T1 = schema_of T2 -> get_table T1 t = None -> get_table T2 t = None.
Proof.
  revert T2; induction T1 as [|[n a] T1 IH]; intros [|[m b] T2] HS H; cbn in *; try discriminate; auto.
  inversion HS; subst m. destruct (n =? t); [discriminate|eauto].
Qed.

Lemma tabs_beq_refl T : tabs_beq T T.
Proof. induction T as [|[n tb] T IH]; cbn; auto using bag_eq_refl. Qed.

Lemma tabs_beq_sym T1 T2 : tabs_beq T1 T2 -> tabs_beq T2 T1.
Proof.
  revert T2; induction T1 as [|[n a] T1 IH]; intros [|[m b] T2]; cbn; auto.
  intros (H1 & H2 & H3 & H4); auto using bag_eq_sym.
Qed.

Lemma tabs_beq_trans T1 T2 T3 : tabs_beq T1 T2 -> tabs_beq T2 T3 -> tabs_beq T1 T3.
Proof.
  revert T2 T3; induction T1 as [|[n a] T1 IH]; intros [|[m b] T2] [|[k c] T3]; cbn; try tauto.
  intros (H1 & H2 & H3 & H4) (G1 & G2 & G3 & G4).
  split; [congruence|]. split; [congruence|].
  split; [eapply bag_eq_trans; eauto | eapply IH; eauto].
Qed.

Lemma tabs_beq_schema T1 T2 : tabs_beq T1 T2 -> schema_of T1 = schema_of T2.
Proof.
  revert T2; induction T1 as [|[n a] T1 IH]; intros [|[m b] T2]; cbn; try tauto.
  intros (H1 & H2 & H3 & H4). subst m. rewrite H2. f_equal. auto.
Qed.

Lemma tabs_beq_get T1 T2 t tb1 :
  tabs_beq T1 T2 -> get_table T1 t = Some tb1 ->
  exists tb2, get_table T2 t = Some tb2 /\ t_cols tb1 = t_cols tb2 /\ bag_eq (t_rows tb1) (t_rows tb2).
Proof.
  revert T2; induction T1 as [|[n a] T1 IH]; intros [|[m b] T2]; cbn; try tauto; try discriminate.
  intros (H1 & H2 & H3 & H4) H. subst m. destruct (n =? t); [inversion H; subst a; eauto|eauto].
Qed.

Lemma tabs_beq_set T1 T2 t tb1 tb2 :
  tabs_beq T1 T2 -> t_cols tb1 = t_cols tb2 -> bag_eq (t_rows tb1) (t_rows tb2) ->
  tabs_beq (set_table T1 t tb1) (set_table T2 t tb2).
Proof.
  revert T2; induction T1 as [|[n a] T1 IH]; intros [|[m b] T2]; cbn; try tauto.
  intros (H1 & H2 & H3 & H4) Hc Hb. subst m. destruct (n =? t); cbn; auto.
Qed.

(** replacing a table by one with the same columns and the same bag of rows changes nothing *)
Lemma tabs_beq_set_l T1 T2 t tb tb1 :
  tabs_beq T1 T2 -> get_table T1 t = Some tb -> t_cols tb1 = t_cols tb ->
  bag_eq (t_rows tb1) (t_rows tb) -> tabs_beq (set_table T1 t tb1) T2.
Proof.
  intros H G Hc Hb. destruct (tabs_beq_get _ _ _ _ H G) as (tb2 & G2 & Hc2 & Hb2).
  rewrite <- (set_table_same T2 t tb2 G2).
  apply tabs_beq_set; [assumption|congruence|eapply bag_eq_trans; eauto].
Qed.

(** * Frame facts about the statements *)
Definition snap_of (d : db) : option (catalog * tables) :=
  match d_tx d with Some x => Some (x_cat x, x_tabs x) | None => None end.

Lemma record_cat d cs : d_cat (record d cs) = d_cat d.
Proof. unfold record; destruct (d_tx d) eqn:E; reflexivity. Qed.
Lemma record_tabs d cs : d_tabs (record d cs) = d_tabs d.
Proof. unfold record; destruct (d_tx d) eqn:E; reflexivity. Qed.
Lemma record_uix d cs : d_uix (record d cs) = d_uix d.
Proof. unfold record; destruct (d_tx d) eqn:E; reflexivity. Qed.
Lemma record_snap d cs : snap_of (record d cs) = snap_of d.
Proof. unfold record, snap_of; destruct (d_tx d) eqn:E; cbn; rewrite ?E; reflexivity. Qed.
Lemma record_tx_some d cs : d_tx d <> None -> d_tx (record d cs) <> None.
Proof. unfold record; destruct (d_tx d) eqn:E; cbn; congruence. Qed.
Lemma record_tx_none d cs : d_tx d = None -> record d cs = d.
Proof. unfold record; intros ->; reflexivity. Qed.

Ltac destr_match :=
  match goal with
  | |- context [match ?x with _ => _ end] => destruct x eqn:?
  end.

(** every statement other than COMMIT / ROLLBACK keeps an active transaction active and its
    (catalog, tables) snapshot untouched *)
Lemma step_inside_snap d o :
  inside o = true -> d_tx d <> None -> snap_of (fst (step d o)) = snap_of d.
Proof.
  intros Hi Hx. destruct (d_tx d) as [x|] eqn:E; [clear Hx|congruence].
  assert (HS : snap_of d = Some (x_cat x, x_tabs x)) by (unfold snap_of; now rewrite E).
  destruct o; try discriminate Hi; cbn [step].
  - unfold begin_txn. rewrite E. reflexivity.
  - unfold create_savepoint. rewrite E. cbn [fst]. rewrite HS. reflexivity.
  - unfold release_savepoint. rewrite E. destruct (sp_position n (x_sps x)); cbn [fst]; rewrite HS; reflexivity.
  - unfold rollback_to_savepoint. rewrite E. destruct (sp_position n (x_sps x)); [|reflexivity].
    destruct (_ <? _)%nat; [reflexivity|].
    destruct (undo_all _ _) as [T' [u| |]]; cbn [fst]; rewrite HS; reflexivity.
  - unfold sql_insert. repeat (destr_match; cbn [fst]; try reflexivity).
    + unfold api_insert_row. repeat (destr_match; cbn [fst]; try reflexivity). now rewrite record_snap.
    + unfold api_insert_batch. repeat (destr_match; cbn [fst]; try reflexivity). now rewrite record_snap.
  - unfold api_insert_row. repeat (destr_match; cbn [fst]; try reflexivity). now rewrite record_snap.
  - unfold api_insert_batch. repeat (destr_match; cbn [fst]; try reflexivity). now rewrite record_snap.
  - cbn [fst]. apply record_snap.
  - unfold sql_update. repeat (destr_match; cbn [fst]; try reflexivity).
  - unfold sql_delete. repeat (destr_match; cbn [fst]; try reflexivity).
  - unfold sql_create_index. repeat (destr_match; cbn [fst]; try reflexivity).
  - unfold sql_drop_index. repeat (destr_match; cbn [fst]; try reflexivity).
Qed.

Lemma snap_of_some_tx d : snap_of d <> None <-> d_tx d <> None.
Proof. unfold snap_of; destruct (d_tx d); split; congruence. Qed.

Lemma run_inside_snap ops : forall d,
  Forall (fun o => inside o = true) ops -> d_tx d <> None -> snap_of (run d ops) = snap_of d.
Proof.
  induction ops as [|o ops IH]; intros d HF Hx; [reflexivity|].
  inversion HF as [|? ? Ho HF']; subst. cbn [run fold_left]. fold (run (fst (step d o)) ops).
  pose proof (step_inside_snap d o Ho Hx) as Hs.
  rewrite IH; [assumption|assumption|]. apply snap_of_some_tx. rewrite Hs. now apply snap_of_some_tx.
Qed.

Lemma run_app d a b : run d (a ++ b) = run (run d a) b.
Proof. unfold run. apply fold_left_app. Qed.

(** * C13, the part that holds for every statement sequence: tables and catalog come back *)
Theorem rollback_restores_tables_catalog db ops :
  d_tx db = None -> Forall (fun o => inside o = true) ops ->
  let after := run (fst (step db OBegin)) ops in
  let res := step after ORollback in
  snd res = ROk 0 /\ d_cat (fst res) = d_cat db /\ d_tabs (fst res) = d_tabs db /\
  d_tx (fst res) = None /\ d_uix (fst res) = d_uix after.
Proof.
  intros Hn HF after res.
  assert (Hb : snap_of (fst (step db OBegin)) = Some (d_cat db, d_tabs db)).
  { cbn [step]. unfold begin_txn. rewrite Hn. reflexivity. }
  assert (Ha : snap_of after = Some (d_cat db, d_tabs db)).
  { unfold after. rewrite run_inside_snap; [assumption|assumption|].
    apply snap_of_some_tx. rewrite Hb. discriminate. }
  unfold res. cbn [step]. unfold rollback_txn. unfold snap_of in Ha.
  destruct (d_tx after) as [x|]; [|discriminate]. inversion Ha; subst. cbn. auto.
Qed.

(** COMMIT keeps everything the last statement left (only the transaction state goes away) *)
Theorem commit_keeps d :
  d_tx d <> None ->
  let res := step d OCommit in
  snd res = ROk 0 /\ d_cat (fst res) = d_cat d /\ d_tabs (fst res) = d_tabs d /\
  d_uix (fst res) = d_uix d /\ d_tx (fst res) = None.
Proof.
  intros Hx res. unfold res. cbn [step]. unfold commit_txn.
  destruct (d_tx d); [cbn; auto|congruence].
Qed.

Lemma q_point_ext d1 d2 :
  d_tabs d1 = d_tabs d2 -> d_uix d1 = d_uix d2 -> forall t c k o, q_point d1 t c k o = q_point d2 t c k o.
Proof. intros H1 H2 t c k o. unfold q_point. now rewrite H1, H2. Qed.

Theorem commit_keeps_obs db ops :
  d_tx db = None -> Forall (fun o => inside o = true) ops ->
  let after := run (fst (step db OBegin)) ops in
  obs_eq (fst (step after OCommit)) after.
Proof.
  intros Hn HF after.
  assert (Hx : d_tx after <> None).
  { apply snap_of_some_tx. unfold after. rewrite run_inside_snap; try assumption.
    - cbn [step]. unfold begin_txn, snap_of. rewrite Hn. cbn. discriminate.
    - cbn [step]. unfold begin_txn. rewrite Hn. cbn. discriminate. }
  destruct (commit_keeps after Hx) as (_ & H1 & H2 & H3 & _).
  unfold obs_eq. repeat split; try assumption.
  - unfold storage_index_listing. now rewrite H3.
  - apply q_point_ext; assumption.
Qed.

(** * Which statements leave the user indexes (storage side) alone *)
Definition table_indexed (U : list uindex) (t : tname) : bool := existsb (fun ix => ix_table ix =? t) U.

Definition leaves_indexes (U : list uindex) (o : op) : bool :=
  match o with
  | OCreateIndex _ _ _ => false
  | ODropIndex i => negb (has_uix U i)
  | OInsert t _ | OApiInsert t _ | OApiBatch t _ | OUpdate t _ _ _ => negb (table_indexed U t)
  | _ => true
  end.

Lemma uix_insert_unindexed U t r pos : table_indexed U t = false -> uix_insert U t r pos = U.
Proof.
  unfold table_indexed, uix_insert. induction U as [|ix U IH]; cbn [existsb map]; [reflexivity|].
  intros H. apply orb_false_iff in H as [H1 H2]. rewrite H1, IH by assumption. reflexivity.
Qed.

Lemma uix_insert_many_unindexed U t rs pos : table_indexed U t = false -> uix_insert_many U t rs pos = U.
Proof.
  intros H. revert pos; induction rs as [|r rs IH]; intros pos; cbn [uix_insert_many]; [reflexivity|].
  rewrite uix_insert_unindexed by assumption. apply IH.
Qed.

Lemma uix_update_unindexed U t old new pos : table_indexed U t = false -> uix_update U t old new pos = U.
Proof.
  unfold table_indexed, uix_update. induction U as [|ix U IH]; cbn [existsb map]; [reflexivity|].
  intros H. apply orb_false_iff in H as [H1 H2]. rewrite H1, IH by assumption. reflexivity.
Qed.

Lemma uix_update_rows_unindexed U t c k w pos rows :
  table_indexed U t = false -> uix_update_rows U t c k w pos rows = U.
Proof.
  intros H. revert pos; induction rows as [|r rows IH]; intros pos; cbn [uix_update_rows]; [reflexivity|].
  destruct (matches w r); [rewrite uix_update_unindexed by assumption|]; apply IH.
Qed.

Lemma uix_remove_absent U i : has_uix U i = false -> uix_remove U i = U.
Proof.
  unfold has_uix. induction U as [|ix U IH]; cbn [existsb uix_remove]; [reflexivity|].
  intros H. apply orb_false_iff in H as [H1 H2]. rewrite H1, IH by assumption. reflexivity.
Qed.

Lemma api_insert_row_uix d t r :
  table_indexed (d_uix d) t = false -> d_uix (fst (api_insert_row d t r)) = d_uix d.
Proof.
  intros H. unfold api_insert_row. repeat (destr_match; cbn [fst]; try reflexivity).
  rewrite record_uix. cbn [d_uix]. now apply uix_insert_unindexed.
Qed.

Lemma api_insert_batch_uix d t rs :
  table_indexed (d_uix d) t = false -> d_uix (fst (api_insert_batch d t rs)) = d_uix d.
Proof.
  intros H. unfold api_insert_batch. repeat (destr_match; cbn [fst]; try reflexivity).
  rewrite record_uix. cbn [d_uix]. now apply uix_insert_many_unindexed.
Qed.

Lemma step_leaves_uix d o : leaves_indexes (d_uix d) o = true -> d_uix (fst (step d o)) = d_uix d.
Proof.
  destruct o; cbn [leaves_indexes step]; intros H; try apply negb_true_iff in H.
  - unfold begin_txn; destruct (d_tx d); reflexivity.
  - unfold commit_txn; destruct (d_tx d); reflexivity.
  - unfold rollback_txn; destruct (d_tx d); reflexivity.
  - unfold create_savepoint; destruct (d_tx d); reflexivity.
  - unfold release_savepoint; repeat (destr_match; cbn [fst]; try reflexivity).
  - unfold rollback_to_savepoint; repeat (destr_match; cbn [fst]; try reflexivity).
  - unfold sql_insert. repeat (destr_match; cbn [fst]; try reflexivity).
    + now apply api_insert_row_uix.
    + now apply api_insert_batch_uix.
  - now apply api_insert_row_uix.
  - now apply api_insert_batch_uix.
  - cbn [fst]. apply record_uix.
  - unfold sql_update. repeat (destr_match; cbn [fst d_uix]; try reflexivity).
    now apply uix_update_rows_unindexed.
  - unfold sql_delete. repeat (destr_match; cbn [fst]; try reflexivity).
  - discriminate.
  - unfold sql_drop_index. rewrite H. repeat (destr_match; cbn [fst d_uix]; try reflexivity).
    now apply uix_remove_absent.
Qed.

Lemma run_leaves_uix ops : forall d,
  Forall (fun o => leaves_indexes (d_uix d) o = true) ops -> d_uix (run d ops) = d_uix d.
Proof.
  induction ops as [|o ops IH]; intros d HF; [reflexivity|].
  inversion HF as [|? ? Ho HF']; subst. cbn [run fold_left]. fold (run (fst (step d o)) ops).
  pose proof (step_leaves_uix d o Ho) as Hs. rewrite IH; [assumption|].
  rewrite Hs. assumption.
Qed.

(** * C13 under the exact side condition "no statement of the transaction touches a user index":
    the rolled-back database IS the database before BEGIN (so every observation and every
    continuation agrees) *)
Theorem rollback_restores db ops :
  d_tx db = None -> Forall (fun o => inside o = true) ops ->
  Forall (fun o => leaves_indexes (d_uix db) o = true) ops ->
  fst (step (run (fst (step db OBegin)) ops) ORollback) = db.
Proof.
  intros Hn HF HL.
  destruct (rollback_restores_tables_catalog db ops Hn HF) as (_ & H1 & H2 & H3 & H4).
  assert (H5 : d_uix (run (fst (step db OBegin)) ops) = d_uix db).
  { rewrite run_leaves_uix.
    - cbn [step]. unfold begin_txn. rewrite Hn. reflexivity.
    - cbn [step]. unfold begin_txn. rewrite Hn. cbn [fst d_uix]. assumption. }
  rewrite H5 in H4.
  destruct (fst (step (run (fst (step db OBegin)) ops) ORollback)) as [c T U x].
  destruct db as [c0 T0 U0 x0]. cbn in *. congruence.
Qed.

Corollary rollback_restores_obs db ops :
  d_tx db = None -> Forall (fun o => inside o = true) ops ->
  Forall (fun o => leaves_indexes (d_uix db) o = true) ops ->
  obs_eq (fst (step (run (fst (step db OBegin)) ops) ORollback)) db.
Proof.
  intros. rewrite rollback_restores by assumption. unfold obs_eq; auto.
Qed.

(** ... and whatever is executed afterwards cannot tell the difference *)
Corollary rollback_then_continue db ops epilogue :
  d_tx db = None -> Forall (fun o => inside o = true) ops ->
  Forall (fun o => leaves_indexes (d_uix db) o = true) ops ->
  run (fst (step (run (fst (step db OBegin)) ops) ORollback)) epilogue = run db epilogue.
Proof. intros. now rewrite rollback_restores. Qed.

(** the special case named in the property: no user index exists and none is created *)
Definition creates_index (o : op) : bool := match o with OCreateIndex _ _ _ => true | _ => false end.

Corollary rollback_restores_without_user_indexes db ops :
  d_tx db = None -> d_uix db = [] ->
  Forall (fun o => inside o = true) ops -> Forall (fun o => creates_index o = false) ops ->
  fst (step (run (fst (step db OBegin)) ops) ORollback) = db.
Proof.
  intros Hn HU HF HC. apply rollback_restores; try assumption.
  rewrite HU. apply Forall_forall. intros o Ho.
  rewrite Forall_forall in HC. specialize (HC o Ho). destruct o; try reflexivity; discriminate.
Qed.

(** in general the observation after ROLLBACK differs from the one before BEGIN exactly by its index
    part: storage index listing, and point queries evaluated on the RESTORED tables through whatever
    the indexes hold after the transaction *)
Theorem rollback_obs_iff_index_part db ops :
  d_tx db = None -> Forall (fun o => inside o = true) ops ->
  let after := run (fst (step db OBegin)) ops in
  let rolled := fst (step after ORollback) in
  obs_eq rolled db <->
  (storage_index_listing after = storage_index_listing db /\
   forall t c k o, q_point (mkDb (d_cat db) (d_tabs db) (d_uix after) None) t c k o = q_point db t c k o).
Proof.
  intros Hn HF after rolled.
  destruct (rollback_restores_tables_catalog db ops Hn HF) as (_ & H1 & H2 & H3 & H4).
  fold after in H1, H2, H3, H4. fold rolled in H1, H2, H3, H4.
  assert (HQ : forall t c k o, q_point rolled t c k o = q_point (mkDb (d_cat db) (d_tabs db) (d_uix after) None) t c k o).
  { apply q_point_ext; cbn; assumption. }
  unfold obs_eq. split.
  - intros (_ & _ & HL & Hq). split.
    + unfold storage_index_listing in *. now rewrite <- H4.
    + intros. now rewrite <- HQ.
  - intros (HL & Hq). repeat split; try assumption.
    + unfold storage_index_listing in *. now rewrite H4.
    + intros. now rewrite HQ.
Qed.

(** * The full statement is false of the faithful model: user-index data is outside the snapshot.
    T0 (g, a) holds (1, 10) and has an index on [a]; BEGIN; UPDATE T0 SET a = 11 WHERE g = 1;
    ROLLBACK; then [SELECT * FROM T0 WHERE a = 10] finds nothing although the row is back. *)
Definition wit13_db : db :=
  run (mkDb (mkCat [0] []) [(0, mkTable [TInt; TInt] [])] [] None)
      [OInsert 0 [[LInt 1; LInt 10]]; OCreateIndex 0 0 1%nat].
Definition wit13_ops : list op := [OUpdate 0 1%nat 11 (Some (0%nat, 1))].

Theorem rollback_restores_refuted :
  exists db ops t c k o,
    d_tx db = None /\ Forall (fun o => inside o = true) ops /\
    q_point (fst (step (run (fst (step db OBegin)) ops) ORollback)) t c k o <> q_point db t c k o.
Proof.
  exists wit13_db, wit13_ops, 0, 1%nat, 10, false.
  split; [reflexivity|]. split; [repeat constructor|]. vm_compute. discriminate.
Qed.

(** index DDL inside a transaction is not undone either: the storage side keeps the index *)
Theorem rollback_ddl_refuted :
  exists db ops,
    d_tx db = None /\ Forall (fun o => inside o = true) ops /\
    storage_index_listing (fst (step (run (fst (step db OBegin)) ops) ORollback)) <> storage_index_listing db.
Proof.
  exists (mkDb (mkCat [0] []) [(0, mkTable [TInt; TInt] [])] [] None), [OCreateIndex 0 0 1%nat].
  split; [reflexivity|]. split; [repeat constructor|]. vm_compute. discriminate.
Qed.

(** the hypotheses of the positive theorems are satisfiable by a non-trivial input *)
Example rollback_restores_example :
  let db := run (mkDb (mkCat [0; 1] []) [(0, mkTable [TInt; TInt] []); (1, mkTable [TInt; TVarchar (Some 2%nat)] [])] [] None)
                [OInsert 0 [[LInt 1; LInt 10]]; OCreateIndex 0 0 1%nat; OInsert 1 [[LInt 1; LStr [97]]]] in
  let ops := [OInsert 1 [[LInt 2; LStr [97; 98; 99]]]; OSavepoint 1; OUpdate 1 0%nat 5 None; ODelete 0 None;
              ORollbackTo 1; OBegin] in
  d_tx db = None /\ forallb inside ops = true /\ forallb (leaves_indexes (d_uix db)) ops = true /\
  d_tabs (run (fst (step db OBegin)) ops) <> d_tabs db /\
  fst (step (run (fst (step db OBegin)) ops) ORollback) = db.
Proof. vm_compute. repeat split; congruence. Qed.
