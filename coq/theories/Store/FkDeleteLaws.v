(** C12 laws, part 2: the DELETE side (delete/integrity.rs, delete/executor.rs).
    Every action of the cascade machinery is a "good" transition, and a successful
    check_no_child_references leaves the parent key unreferenced. *)
From Coq Require Import List ZArith Bool Arith Lia.
From VibeSQL Require Import Store.Fk Store.FkLaws.
Import ListNotations.

(* ------------------------------------------------------------------------------------ *)
(** * The ghost log only grows *)

Definition suffix_of (w : world) (o : outcome) : Prop :=
  match o with
  | OOk w' | OErr _ w' => exists l, snd w' = l ++ snd w
  | OCrash => True
  end.

Lemma app_eq_self : forall {A} (l x : list A), l ++ x = x -> l = [].
Proof.
  intros A l x H. assert (L : length (l ++ x) = length x) by (rewrite H; reflexivity).
  rewrite app_length in L. destruct l; [reflexivity|]. cbn in L. lia.
Qed.

Lemma suffix_clean2 : forall {A} (l1 l2 x : list A), l2 ++ l1 ++ x = x -> l1 = [] /\ l2 = [].
Proof.
  intros A l1 l2 x H. rewrite app_assoc in H. apply app_eq_self in H.
  apply app_eq_nil in H. tauto.
Qed.

Lemma suffix_refl : forall w : world, exists l : list event, snd w = l ++ snd w.
Proof. intros w. exists []. reflexivity. Qed.

Lemma suffix_bind : forall w o f,
  suffix_of w o -> (forall w1, suffix_of w1 (f w1)) -> suffix_of w (bind o f).
Proof.
  intros w o f H1 H2. destruct o as [w1|e w1|]; cbn in *; auto.
  specialize (H2 w1). destruct H1 as [l1 E1]. destruct (f w1) as [w2|e w2|]; cbn in *; auto;
  destruct H2 as [l2 E2]; exists (l2 ++ l1); rewrite E2, E1, app_assoc; reflexivity.
Qed.

(* ------------------------------------------------------------------------------------ *)
(** * Building shrink steps *)

Lemma set_rows_notin : forall d n rs, ~ In n (names d) -> set_rows d n rs = d.
Proof.
  induction d as [|y d IH]; intros n rs H; [reflexivity|]. cbn.
  destruct (Nat.eqb (t_name y) n) eqn:E.
  - apply Nat.eqb_eq in E. exfalso. apply H. left. exact E.
  - f_equal. apply IH. intros HI. apply H. right. exact HI.
Qed.

Lemma set_rows_dshrink : forall (D : table -> row -> Prop) d n t rs,
  NoDup (names d) -> get_table d n = Some t ->
  srows (D t) (t_pk t) (t_rows t) rs -> dshrink D d (set_rows d n rs).
Proof.
  intros D d n t rs ND G S. apply get_table_In in G. destruct G as [Hin Hn].
  unfold dshrink, set_rows. induction d as [|x d IH]; [constructor|].
  cbn in ND. inversion ND as [|? ? Hnotin ND']; subst. cbn. constructor.
  - destruct (Nat.eqb (t_name x) (t_name t)) eqn:E.
    + apply Nat.eqb_eq in E. destruct Hin as [->|Hin].
      * split; [repeat split|cbn; exact S].
      * exfalso. apply Hnotin. rewrite E. apply in_map. exact Hin.
    + split; [apply same_schema_refl|apply srows_refl].
  - destruct Hin as [->|Hin].
    + assert (X : map (fun t0 => if Nat.eqb (t_name t0) (t_name t) then with_rows t0 rs else t0) d = d)
        by (apply (set_rows_notin d (t_name t) rs); exact Hnotin).
      rewrite X. apply Forall2_refl. intros y. split; [apply same_schema_refl|apply srows_refl].
    + apply IH; assumption.
Qed.

Lemma srows_filter : forall (D : row -> Prop) opk (f : row -> bool) l,
  (forall r, In r l -> f r = false -> D r) -> srows D opk l (filter f l).
Proof.
  intros D opk f l H. induction l as [|r l IH]; cbn; [constructor|].
  destruct (f r) eqn:E.
  - apply sr_keep; [apply row_le_refl|]. apply IH. intros; apply H; [right|]; assumption.
  - apply sr_drop; [apply H; [left; reflexivity|exact E]|]. apply IH. intros; apply H; [right|]; assumption.
Qed.

Lemma srows_pointwise : forall (D : row -> Prop) opk l l',
  Forall2 (fun r' r => row_le opk r' r) l' l -> srows D opk l l'.
Proof. intros D opk l l' H. induction H; constructor; assumption. Qed.

(* ------------------------------------------------------------------------------------ *)
(** * update_row loops: collect (index, new row), then write them one after the other *)

Lemma set_nth_app : forall {A} (pre : list A) x y rest, set_nth (length pre) x (pre ++ y :: rest) = pre ++ x :: rest.
Proof. intros A pre x y rest. induction pre; cbn; [reflexivity|]. rewrite IHpre. reflexivity. Qed.

(** the exact result of the two loops: every hit row is rewritten, in place; when a rewritten
    row violates NOT NULL the loop stops there (earlier rows stay rewritten) *)
Lemma apply_collect : forall t hit f rows pre,
  exists rs' ok,
    apply_updates t (collect_updates_from (length pre) hit f rows) (pre ++ rows) = (pre ++ rs', ok)
    /\ Forall2 (fun r' r => r' = r \/ (hit r = true /\ r' = f r /\ notnull_okb t r' = true)) rs' rows
    /\ (ok = true -> rs' = map (fun r => if hit r then f r else r) rows
                     /\ forall r, In r rows -> hit r = true -> notnull_okb t (f r) = true)
    /\ (ok = false -> exists r, In r rows /\ hit r = true /\ notnull_okb t (f r) = false).
Proof.
  intros t hit f rows. induction rows as [|r rows IH]; intros pre.
  - exists [], true. cbn. repeat split; auto; try discriminate.
  - cbn [collect_updates_from]. destruct (hit r) eqn:Eh.
    + cbn [apply_updates]. destruct (notnull_okb t (f r)) eqn:En.
      * rewrite set_nth_app.
        specialize (IH (pre ++ [f r])). rewrite app_length in IH. cbn [length] in IH.
        replace (length pre + 1) with (S (length pre)) in IH by lia.
        rewrite <- app_assoc in IH. cbn [app] in IH.
        destruct IH as [rs' [ok [E1 [E2 [E3 E4]]]]].
        exists (f r :: rs'), ok. rewrite <- app_assoc in E1. cbn [app] in E1.
        split; [exact E1|]. split; [constructor; [right; auto|exact E2]|]. split.
        -- intros Hok. destruct (E3 Hok) as [E3a E3b]. split.
           ++ cbn [map]. rewrite Eh. f_equal. exact E3a.
           ++ intros x [<-|Hx] Hh; [exact En|apply E3b; assumption].
        -- intros Hok. destruct (E4 Hok) as [x [Hx1 Hx2]]. exists x. split; [right; exact Hx1|exact Hx2].
      * exists (r :: rows), false. split; [reflexivity|]. split.
        -- apply Forall2_refl. intros; left; reflexivity.
        -- split; [discriminate|]. intros _. exists r. split; [left; reflexivity|auto].
    + specialize (IH (pre ++ [r])). rewrite app_length in IH. cbn [length] in IH.
      replace (length pre + 1) with (S (length pre)) in IH by lia.
      rewrite <- app_assoc in IH. cbn [app] in IH.
      destruct IH as [rs' [ok [E1 [E2 [E3 E4]]]]].
      exists (r :: rs'), ok. rewrite <- app_assoc in E1. cbn [app] in E1.
      split; [exact E1|]. split; [constructor; [left; reflexivity|exact E2]|]. split.
      * intros Hok. destruct (E3 Hok) as [E3a E3b]. split.
        -- cbn [map]. rewrite Eh. f_equal. exact E3a.
        -- intros x [<-|Hx] Hh; [congruence|apply E3b; assumption].
      * intros Hok. destruct (E4 Hok) as [x [Hx1 Hx2]]. exists x. split; [right; exact Hx1|exact Hx2].
Qed.

(* ------------------------------------------------------------------------------------ *)
(** * SET NULL / SET DEFAULT (with NULL defaults) *)

Definition norefs (d : db) (cn : nat) (fk : fkdecl) (k : key) : Prop :=
  forall ct r, get_table d cn = Some ct -> In r (t_rows ct) -> refs fk k r = false.

Lemma norefs_stable : forall d d' cn fk k, shrinks d d' -> norefs d cn fk k -> norefs d' cn fk k.
Proof.
  intros d d' cn fk k S N ct' r' G Hr.
  destruct (dshrink_get_rev _ _ _ _ _ S G) as [ct [G0 [_ Hrows]]].
  destruct (srows_origin _ _ _ _ _ Hrows Hr) as [r [Hin [Hle _]]].
  destruct (refs fk k r') eqn:E; [|reflexivity].
  pose proof (refs_le fk k r' r Hle E) as X. rewrite (N ct r G0 Hin) in X. discriminate.
Qed.

Lemma nth_set_cols_none : forall cols vs r c,
  forallb is_null vs = true -> length vs = length cols -> In c cols ->
  nth c (set_cols cols vs r) None = None.
Proof.
  induction cols as [|a cols IH]; intros [|v vs] r c Hn Hl Hc; cbn in *; try contradiction; try discriminate.
  apply andb_true_iff in Hn. destruct Hn as [Hv Hn]. destruct v; [discriminate|].
  destruct (in_dec Nat.eq_dec c cols) as [Hin|Hnin].
  - apply IH; [exact Hn|lia|exact Hin].
  - destruct Hc as [->|Hc]; [|contradiction].
    rewrite nth_set_cols_other by exact Hnin. rewrite nth_set_nth. rewrite Nat.eqb_refl.
    destruct (c <? length r); reflexivity.
Qed.

Lemma nulled_has_null : forall cols vs r,
  cols <> [] -> forallb is_null vs = true -> length vs = length cols ->
  has_null (proj cols (set_cols cols vs r)) = true.
Proof.
  intros cols vs r Hne Hn Hl. destruct cols as [|c cols]; [contradiction|].
  unfold has_null, proj. cbn [map existsb].
  rewrite (nth_set_cols_none (c :: cols) vs r c Hn Hl (or_introl eq_refl)). reflexivity.
Qed.

Lemma notnull_okb_nth : forall t r c, notnull_okb t r = true -> c < ncols t -> col_nullable t c = false ->
  nth c r None <> None.
Proof.
  intros t r c H Hc Hnn. unfold notnull_okb in H. rewrite forallb_forall in H.
  specialize (H c). rewrite in_seq in H. specialize (H ltac:(lia)).
  rewrite Hnn in H. cbn in H. destruct (nth c r None); [discriminate|discriminate].
Qed.

Lemma proj_eq_of_notnull : forall t pk r' r,
  Forall2 cell_le r' r -> notnull_okb t r' = true ->
  (forall c, In c pk -> c < ncols t /\ col_nullable t c = false) -> proj pk r' = proj pk r.
Proof.
  intros t pk r' r H Hn Hpk. unfold proj. apply map_ext_in. intros c Hc.
  destruct (Forall2_cell_nth r' r c H) as [E|E]; [exact E|].
  exfalso. destruct (Hpk c Hc) as [H1 H2]. exact (notnull_okb_nth t r' c Hn H1 H2 E).
Qed.

Lemma Forall2_imp : forall {A B} (P Q : A -> B -> Prop) l l',
  (forall a b, P a b -> Q a b) -> Forall2 P l l' -> Forall2 Q l l'.
Proof. intros A B P Q l l' H F. induction F; constructor; auto. Qed.

Lemma rewrite_children_spec : forall (D : table -> row -> Prop) cn fk k vs d ev ct,
  inv d -> get_table d cn = Some ct -> fk_cols fk <> [] ->
  forallb is_null vs = true -> length vs = length (fk_cols fk) ->
  match rewrite_children cn fk k vs (d, ev) with
  | OOk (d', ev') => ev' = ev /\ dshrink D d d' /\ norefs d' cn fk k
  | OErr _ (d', ev') => ev' = ev /\ dshrink D d d'
  | OCrash => False
  end.
Proof.
  intros D cn fk k vs d ev ct I G Hne Hn Hl. unfold rewrite_children. cbn [fst snd]. rewrite G.
  destruct (apply_collect ct (refs fk k) (set_cols (fk_cols fk) vs) (t_rows ct) []) as [rs' [ok [E1 [E2 [E3 _]]]]].
  cbn [length app] in E1. rewrite E1.
  assert (SR : srows (D ct) (t_pk ct) (t_rows ct) rs').
  { apply srows_pointwise. eapply Forall2_imp; [|exact E2]. intros r' r [->|[Hh [-> Hnn]]]; [apply row_le_refl|].
    split; [apply set_cols_nulls_le; exact Hn|].
    destruct (t_pk ct) as [pk|] eqn:Epk; cbn; [|exact Logic.I].
    apply (proj_eq_of_notnull ct); [apply set_cols_nulls_le; exact Hn|exact Hnn|].
    apply get_table_In in G. destruct G as [Gin _].
    apply (proj2 (inv_pkcols _ I ct pk Gin Epk)). }
  assert (DS : dshrink D d (set_rows d cn rs')).
  { eapply set_rows_dshrink; [apply inv_names; exact I|exact G|exact SR]. }
  destruct ok.
  - split; [reflexivity|]. split; [exact DS|].
    intros ct' r G' Hr. rewrite (get_set_rows_same _ _ _ _ G) in G'. inversion G'; subst ct'. cbn in Hr.
    rewrite (proj1 (E3 eq_refl)) in Hr. apply in_map_iff in Hr. destruct Hr as [x [Ex Hx]].
    destruct (refs fk k x) eqn:Er.
    + subst r. unfold refs. rewrite (nulled_has_null _ _ _ Hne Hn Hl). reflexivity.
    + subst r. exact Er.
  - split; [reflexivity|exact DS].
Qed.

Lemma std_fk_cols_nonempty : forall d ct fk, inv d -> In ct d -> In fk (t_fks ct) -> fk_cols fk <> [].
Proof.
  intros d ct fk I Hc Hf E.
  destruct (fk_standard_parent d ct fk (std_fk _ _ _ (inv_std _ I) Hc Hf)) as [pt [G [Hpk Hl]]].
  apply get_table_In in G. destruct G as [Gin _].
  destruct (inv_pkcols _ I pt _ Gin Hpk) as [Hne _].
  rewrite E in Hl. cbn in Hl. destruct (fk_pcols fk); [contradiction|discriminate].
Qed.

(* ------------------------------------------------------------------------------------ *)
(** * Suffix lemmas (unconditional) *)

Lemma rewrite_children_suffix : forall cn fk k vs w, suffix_of w (rewrite_children cn fk k vs w).
Proof.
  intros cn fk k vs w. unfold rewrite_children. destruct (get_table (fst w) cn); [|apply suffix_refl].
  destruct (apply_updates t _ _) as [rs' ok]. destruct ok; cbn; exists []; reflexivity.
Qed.

Lemma set_null_suffix : forall cn fk k w, suffix_of w (set_null cn fk k w).
Proof. intros. apply rewrite_children_suffix. Qed.

Lemma set_default_suffix : forall cn fk k w, suffix_of w (set_default cn fk k w).
Proof.
  intros cn fk k w. unfold set_default. destruct (get_table (fst w) cn); [|apply suffix_refl].
  destruct (forallb is_null (fk_defaults t fk)).
  - apply rewrite_children_suffix.
  - pose proof (rewrite_children_suffix cn fk k (fk_defaults t fk) (log EvSetDefault w)) as H.
    destruct (rewrite_children cn fk k (fk_defaults t fk) (log EvSetDefault w)) as [w'|e w'|]; cbn in *; auto;
    destruct H as [l E]; exists (l ++ [EvSetDefault]); rewrite E, <- app_assoc; reflexivity.
Qed.

Lemma each_row_suffix : forall (f : row -> world -> outcome) rs w,
  (forall r w, suffix_of w (f r w)) -> suffix_of w (each_row f rs w).
Proof.
  intros f rs. induction rs as [|r rs IH]; intros w H; cbn; [apply suffix_refl|].
  apply suffix_bind; [apply H|]. intros w1. apply IH. exact H.
Qed.

Lemma cascade_delete_suffix : forall rec cn fk k w,
  (forall p r w, suffix_of w (rec p r w)) -> suffix_of w (cascade_delete rec cn fk k w).
Proof.
  intros rec cn fk k w H. unfold cascade_delete. destruct (get_table (fst w) cn); [|apply suffix_refl].
  apply suffix_bind; [apply each_row_suffix; intros; apply H|].
  intros w1. destruct (get_table (fst w1) cn); [|apply suffix_refl].
  destruct (forallb _ _); cbn; [exists []; reflexivity|exists [EvStaleCascadeRow]; reflexivity].
Qed.

Lemma run_actions_suffix : forall rec acts k w,
  (forall p r w, suffix_of w (rec p r w)) -> suffix_of w (run_actions rec acts k w).
Proof.
  intros rec acts k. induction acts as [|[cn fk] acts IH]; intros w H; cbn; [apply suffix_refl|].
  destruct (fk_ondel fk); try apply suffix_refl;
    (apply suffix_bind; [|intros w1; apply IH; exact H]).
  - apply cascade_delete_suffix. exact H.
  - apply set_null_suffix.
  - apply set_default_suffix.
Qed.

Lemma check_body_suffix : forall rec ord p r w,
  (forall p r w, suffix_of w (rec p r w)) -> suffix_of w (check_body rec ord p r w).
Proof.
  intros rec ord p r w H. unfold check_body. destruct (get_table (fst w) p); [|apply suffix_refl].
  destruct (t_pk t); [|apply suffix_refl]. destruct (negb (has_any_fks (fst w))); [apply suffix_refl|].
  apply run_actions_suffix. exact H.
Qed.

Lemma check_suffix : forall fuel ord p r w, suffix_of w (check fuel ord p r w).
Proof.
  induction fuel as [|f IH]; intros ord p r w; cbn; [exact Logic.I|].
  apply check_body_suffix. intros. apply IH.
Qed.

(* ------------------------------------------------------------------------------------ *)
(** * The cascade *)

Section Cascade.
Variable ord : list nat.

Definition ord_ok (d : db) : Prop := forall t, In t d -> In (t_name t) ord.

Lemma ord_ok_shrinks : forall D d d', dshrink D d d' -> ord_ok d -> ord_ok d'.
Proof.
  intros D d d' S O t' Ht. destruct (dshrink_In _ _ _ _ S Ht) as [t [Hin [[Hn _] _]]].
  rewrite Hn. apply O. exact Hin.
Qed.

(** what the recursive call is assumed to do (proved for [check f] by induction on the fuel) *)
Definition rec_ok (rec : nat -> row -> world -> outcome) : Prop :=
  (forall p r w, suffix_of w (rec p r w)) /\
  (forall p r w pt, get_table (fst w) p = Some pt -> t_pk pt = None ->
      rec p r w = OOk w \/ rec p r w = OCrash) /\
  (forall p r w, inv (fst w) -> ord_ok (fst w) ->
    match rec p r w with
    | OOk w' => snd w' = snd w ->
        good (fst w) (fst w') /\
        (forall pt pk, get_table (fst w) p = Some pt -> t_pk pt = Some pk -> unref (fst w') p (proj pk r))
    | OErr _ w' => snd w' = snd w -> good (fst w) (fst w')
    | OCrash => True
    end).

Lemma each_row_spec : forall rec cn, rec_ok rec -> forall rs w, inv (fst w) -> ord_ok (fst w) ->
  match each_row (rec cn) rs w with
  | OOk w' => snd w' = snd w ->
      good (fst w) (fst w') /\
      (forall pt pk, get_table (fst w) cn = Some pt -> t_pk pt = Some pk ->
         forall r, In r rs -> unref (fst w') cn (proj pk r))
  | OErr _ w' => snd w' = snd w -> good (fst w) (fst w')
  | OCrash => True
  end.
Proof.
  intros rec cn [RS [RN RC]] rs. induction rs as [|r rs IH]; intros w I O; cbn [each_row].
  - intros _. split; [apply good_refl|]. intros pt pk _ _ x [].
  - pose proof (RS cn r w) as S1. pose proof (RC cn r w I O) as C1.
    destruct (rec cn r w) as [w1|e w1|]; cbn [bind]; [|exact C1|exact Logic.I].
    cbn in S1. destruct S1 as [l1 E1].
    pose proof (each_row_suffix (rec cn) rs w1 (fun r0 w0 => RS cn r0 w0)) as S2.
    destruct (each_row (rec cn) rs w1) as [w2|e w2|] eqn:E2; [| |exact Logic.I].
    + cbn in S2. destruct S2 as [l2 E2']. intros Hc.
      assert (K : l1 = [] /\ l2 = []) by (apply (suffix_clean2 l1 l2 (snd w)); rewrite <- E1, <- E2'; exact Hc).
      destruct K as [-> ->]. cbn in E1, E2'.
      destruct (C1 E1) as [G1 U1].
      assert (I1 : inv (fst w1)) by (eapply inv_shrinks; [exact I|exact G1]).
      assert (O1 : ord_ok (fst w1)) by (eapply ord_ok_shrinks; [exact G1|exact O]).
      specialize (IH w1 I1 O1). rewrite E2 in IH. destruct (IH E2') as [G2 U2].
      split; [eapply good_trans; eassumption|].
      intros pt pk Gp Hpk x [->|Hx].
      * eapply unref_stable; [apply good_shrinks; exact G2|]. eapply U1; eassumption.
      * destruct (dshrink_get _ _ _ _ _ G1 Gp) as [pt1 [Gp1 [[_ [_ [Hp _]]] _]]].
        eapply U2; [exact Gp1|congruence|exact Hx].
    + cbn in S2. destruct S2 as [l2 E2']. intros Hc.
      assert (K : l1 = [] /\ l2 = []) by (apply (suffix_clean2 l1 l2 (snd w)); rewrite <- E1, <- E2'; exact Hc).
      destruct K as [-> ->]. cbn in E1, E2'.
      destruct (C1 E1) as [G1 U1].
      assert (I1 : inv (fst w1)) by (eapply inv_shrinks; [exact I|exact G1]).
      assert (O1 : ord_ok (fst w1)) by (eapply ord_ok_shrinks; [exact G1|exact O]).
      specialize (IH w1 I1 O1). rewrite E2 in IH.
      eapply good_trans; [exact G1|apply IH; exact E2'].
Qed.

Lemma each_row_nopk : forall rec cn, rec_ok rec -> forall rs w pt,
  get_table (fst w) cn = Some pt -> t_pk pt = None ->
  each_row (rec cn) rs w = OOk w \/ each_row (rec cn) rs w = OCrash.
Proof.
  intros rec cn [_ [RN _]] rs. induction rs as [|r rs IH]; intros w pt G Hpk; cbn; [left; reflexivity|].
  destruct (RN cn r w pt G Hpk) as [E|E]; rewrite E; cbn; [|right; reflexivity].
  eapply IH; eassumption.
Qed.

Lemma NoDup_map_inj : forall {A B} (f : A -> B) l a b,
  NoDup (map f l) -> In a l -> In b l -> f a = f b -> a = b.
Proof.
  intros A B f l. induction l as [|x l IH]; intros a b ND Ha Hb E; [contradiction|].
  cbn in ND. inversion ND as [|? ? Hn ND']; subst.
  destruct Ha as [->|Ha]; destruct Hb as [->|Hb]; auto.
  - exfalso. apply Hn. rewrite E. apply in_map. exact Hb.
  - exfalso. apply Hn. rewrite <- E. apply in_map. exact Ha.
Qed.

Lemma cascade_delete_spec : forall rec, rec_ok rec -> forall cn fk k w ct,
  inv (fst w) -> ord_ok (fst w) -> get_table (fst w) cn = Some ct ->
  match cascade_delete rec cn fk k w with
  | OOk w' => snd w' = snd w -> good (fst w) (fst w') /\ norefs (fst w') cn fk k
  | OErr _ w' => snd w' = snd w -> good (fst w) (fst w')
  | OCrash => True
  end.
Proof.
  intros rec RO cn fk k w ct I O G. unfold cascade_delete. rewrite G.
  set (rtd := filter (refs fk k) (t_rows ct)).
  pose proof (each_row_spec rec cn RO rtd w I O) as C1.
  pose proof (each_row_suffix (rec cn) rtd w (fun r0 w0 => proj1 RO cn r0 w0)) as S1.
  pose proof (each_row_nopk rec cn RO rtd w ct G) as N1.
  destruct (each_row (rec cn) rtd w) as [w1|e w1|] eqn:E1; cbn [bind]; [|exact C1|exact Logic.I].
  cbn in S1. destruct S1 as [l1 El1].
  destruct (get_table (fst w1) cn) as [ct1|] eqn:G1.
  2:{ intros Hc. apply C1. exact Hc. }
  destruct (forallb (fun r => key_mem r (t_rows ct1)) rtd) eqn:Est.
  2:{ cbn. intros Hc. exfalso. rewrite El1 in Hc.
      assert (X : length (EvStaleCascadeRow :: l1 ++ snd w) = length (snd w)) by (rewrite Hc; reflexivity).
      cbn in X. rewrite app_length in X. lia. }
  cbn [fst snd]. intros Hc. destruct (C1 Hc) as [G01 U1].
  assert (I1 : inv (fst w1)) by (eapply inv_shrinks; [exact I|exact G01]).
  destruct (dshrink_get _ _ _ _ _ G01 G) as [ct1' [G1' [[Hn1 [Hc1 [Hp1 Hf1]]] Hrows1]]].
  rewrite G1 in G1'. inversion G1'; subst ct1'. clear G1'.
  set (rs' := filter (fun r => negb (key_mem r rtd)) (t_rows ct1)).
  (* dropped rows are rows of rtd, whose keys are unreferenced *)
  assert (DROP : forall r, In r (t_rows ct1) -> negb (key_mem r rtd) = false ->
                  forall pk, t_pk ct1 = Some pk -> unref (fst w1) cn (proj pk r)).
  { intros r Hr Hf pk Hpk. apply negb_false_iff in Hf. apply key_mem_In in Hf.
    eapply U1; [exact G|congruence|exact Hf]. }
  assert (SH : shrinks (fst w1) (set_rows (fst w1) cn rs')).
  { eapply set_rows_dshrink; [apply inv_names; exact I1|exact G1|]. apply srows_filter. auto. }
  assert (GD : good (fst w1) (set_rows (fst w1) cn rs')).
  { unfold good. eapply set_rows_dshrink; [apply inv_names; exact I1|exact G1|].
    apply srows_filter. intros r Hr Hf pk Hpk.
    apply get_table_In in G1. destruct G1 as [_ Gn]. rewrite Gn.
    eapply unref_stable; [exact SH|]. eapply DROP; eassumption. }
  split; [eapply good_trans; eassumption|].
  (* no surviving row of the child table references the key *)
  intros ct2 x' G2 Hx'. rewrite (get_set_rows_same _ _ _ _ G1) in G2. inversion G2; subst ct2. cbn in Hx'.
  unfold rs' in Hx'. apply filter_In in Hx'. destruct Hx' as [Hx1 Hx2].
  apply negb_true_iff in Hx2. apply key_mem_false in Hx2.
  destruct (refs fk k x') eqn:Er; [|reflexivity]. exfalso. apply Hx2.
  destruct (t_pk ct) as [pk|] eqn:Epk.
  - destruct (srows_origin _ _ _ _ _ Hrows1 Hx1) as [x [Hx [Hle Hk]]].
    assert (Hxr : In x rtd) by (apply filter_In; split; [exact Hx|exact (refs_le _ _ _ _ Hle Er)]).
    rewrite forallb_forall in Est. pose proof (Est x Hxr) as Hpres. apply key_mem_In in Hpres.
    assert (x' = x).
    { cbn in Hk.
      eapply (NoDup_map_inj (proj pk)); [|exact Hx1|exact Hpres|exact Hk].
      apply get_table_In in G1. destruct G1 as [Gin _].
      apply (inv_keys _ I1 ct1 pk Gin). congruence. }
    subst x'. exact Hxr.
  - destruct (N1 eq_refl) as [N|N]; [|discriminate]. inversion N; subst w1.
    rewrite G in G1. inversion G1; subst ct1.
    apply filter_In. split; assumption.
Qed.

Lemma set_null_spec : forall cn fk k w ct,
  inv (fst w) -> get_table (fst w) cn = Some ct -> In fk (t_fks ct) ->
  match set_null cn fk k w with
  | OOk w' => snd w' = snd w -> good (fst w) (fst w') /\ norefs (fst w') cn fk k
  | OErr _ w' => snd w' = snd w -> good (fst w) (fst w')
  | OCrash => True
  end.
Proof.
  intros cn fk k [d ev] ct I G Hf. cbn [fst snd] in *. unfold set_null.
  assert (Hne : fk_cols fk <> []).
  { apply get_table_In in G. destruct G as [Gin _]. eapply std_fk_cols_nonempty; eassumption. }
  pose proof (fun D => rewrite_children_spec D cn fk k (map (fun _ => None) (fk_cols fk)) d ev ct I G Hne
                        (forallb_is_null_map_none _) (map_length _ _)) as H.
  destruct (rewrite_children cn fk k (map (fun _ : nat => None) (fk_cols fk)) (d, ev)) as [[d' ev']|e [d' ev']|].
  - intros _. destruct (H (droppable d')) as [_ [H1 H2]]. split; assumption.
  - intros _. destruct (H (droppable d')) as [_ H1]. exact H1.
  - exact Logic.I.
Qed.

Lemma set_default_spec : forall cn fk k w ct,
  inv (fst w) -> get_table (fst w) cn = Some ct -> In fk (t_fks ct) ->
  match set_default cn fk k w with
  | OOk w' => snd w' = snd w -> good (fst w) (fst w') /\ norefs (fst w') cn fk k
  | OErr _ w' => snd w' = snd w -> good (fst w) (fst w')
  | OCrash => True
  end.
Proof.
  intros cn fk k [d ev] ct I G Hf. cbn [fst snd] in *. unfold set_default. cbn [fst]. rewrite G.
  assert (Hne : fk_cols fk <> []).
  { apply get_table_In in G. destruct G as [Gin _]. eapply std_fk_cols_nonempty; eassumption. }
  destruct (forallb is_null (fk_defaults ct fk)) eqn:En.
  - pose proof (fun D => rewrite_children_spec D cn fk k (fk_defaults ct fk) d ev ct I G Hne En
                          (map_length _ _)) as H.
    destruct (rewrite_children cn fk k (fk_defaults ct fk) (d, ev)) as [[d' ev']|e [d' ev']|].
    + intros _. destruct (H (droppable d')) as [_ [H1 H2]]. split; assumption.
    + intros _. destruct (H (droppable d')) as [_ H1]. exact H1.
    + exact Logic.I.
  - pose proof (rewrite_children_suffix cn fk k (fk_defaults ct fk) (log EvSetDefault (d, ev))) as S.
    destruct (rewrite_children cn fk k (fk_defaults ct fk) (log EvSetDefault (d, ev))) as [w'|e w'|];
      [| |exact Logic.I]; cbn in S; destruct S as [l E]; intros Hc; exfalso; rewrite E in Hc;
      assert (X : length (l ++ EvSetDefault :: ev) = length ev) by (rewrite Hc; reflexivity);
      rewrite app_length in X; cbn in X; lia.
Qed.

Lemma run_actions_spec : forall rec, rec_ok rec -> forall acts k w,
  inv (fst w) -> ord_ok (fst w) ->
  (forall cn fk, In (cn, fk) acts -> exists ct, get_table (fst w) cn = Some ct /\ In fk (t_fks ct)) ->
  match run_actions rec acts k w with
  | OOk w' => snd w' = snd w ->
      good (fst w) (fst w') /\ (forall cn fk, In (cn, fk) acts -> norefs (fst w') cn fk k)
  | OErr _ w' => snd w' = snd w -> good (fst w) (fst w')
  | OCrash => True
  end.
Proof.
  intros rec RO acts k. induction acts as [|[cn fk] acts IH]; intros w I O HA; cbn [run_actions].
  - intros _. split; [apply good_refl|]. intros ? ? [].
  - destruct (HA cn fk (or_introl eq_refl)) as [ct [G Hf]].
    assert (STEP : forall o1,
      suffix_of w o1 ->
      match o1 with
      | OOk w' => snd w' = snd w -> good (fst w) (fst w') /\ norefs (fst w') cn fk k
      | OErr _ w' => snd w' = snd w -> good (fst w) (fst w')
      | OCrash => True
      end ->
      match bind o1 (run_actions rec acts k) with
      | OOk w' => snd w' = snd w ->
          good (fst w) (fst w') /\ (forall cn0 fk0, In (cn0, fk0) ((cn, fk) :: acts) -> norefs (fst w') cn0 fk0 k)
      | OErr _ w' => snd w' = snd w -> good (fst w) (fst w')
      | OCrash => True
      end).
    { intros o1 S1 C1. destruct o1 as [w1|e w1|]; cbn [bind]; [|exact C1|exact Logic.I].
      cbn in S1. destruct S1 as [l1 E1].
      pose proof (run_actions_suffix rec acts k w1 (proj1 RO)) as S2.
      destruct (run_actions rec acts k w1) as [w2|e w2|] eqn:E2; [| |exact Logic.I];
        cbn in S2; destruct S2 as [l2 E2']; intros Hc;
        assert (K : l1 = [] /\ l2 = []) by (apply (suffix_clean2 l1 l2 (snd w)); rewrite <- E1, <- E2'; exact Hc);
        destruct K as [-> ->]; cbn in E1, E2'; destruct (C1 E1) as [G1 N1];
        assert (I1 : inv (fst w1)) by (eapply inv_shrinks; [exact I|exact G1]);
        assert (O1 : ord_ok (fst w1)) by (eapply ord_ok_shrinks; [exact G1|exact O]);
        assert (HA1 : forall cn0 fk0, In (cn0, fk0) acts ->
                        exists ct0, get_table (fst w1) cn0 = Some ct0 /\ In fk0 (t_fks ct0))
          by (intros cn0 fk0 Hin; destruct (HA cn0 fk0 (or_intror Hin)) as [ct0 [G0 Hf0]];
              destruct (dshrink_get _ _ _ _ _ G1 G0) as [ct0' [G0' [[_ [_ [_ Hfk]]] _]]];
              exists ct0'; split; [exact G0'|rewrite Hfk; exact Hf0]);
        specialize (IH w1 I1 O1 HA1); rewrite E2 in IH.
      - destruct (IH E2') as [G2 N2]. split; [eapply good_trans; eassumption|].
        intros cn0 fk0 [Heq|Hin].
        + inversion Heq; subst. eapply norefs_stable; [apply good_shrinks; exact G2|exact N1].
        + apply N2. exact Hin.
      - eapply good_trans; [exact G1|apply IH; exact E2']. }
    destruct (fk_ondel fk).
    + intros _. apply good_refl.
    + intros _. apply good_refl.
    + apply STEP; [apply cascade_delete_suffix; exact (proj1 RO)|].
      eapply cascade_delete_spec; eassumption.
    + apply STEP; [apply set_null_suffix|]. eapply set_null_spec; eassumption.
    + apply STEP; [apply set_default_suffix|]. eapply set_default_spec; eassumption.
Qed.

Lemma collect_In : forall d p k cn fk,
  In (cn, fk) (collect_actions ord d p k) <->
  In cn ord /\ exists ct, get_table d cn = Some ct /\ In fk (t_fks ct) /\ fk_parent fk = p
                          /\ existsb (refs fk k) (t_rows ct) = true.
Proof.
  intros d p k cn fk. unfold collect_actions. rewrite in_flat_map. split.
  - intros [cn' [Hord H]]. destruct (get_table d cn') as [ct|] eqn:G; [|contradiction].
    apply in_map_iff in H. destruct H as [fk' [E Hf]]. inversion E; subst.
    apply filter_In in Hf. destruct Hf as [Hf Hb]. apply andb_true_iff in Hb. destruct Hb as [Hb1 Hb2].
    apply Nat.eqb_eq in Hb1. split; [exact Hord|]. exists ct. auto.
  - intros [Hord [ct [G [Hf [Hp Hb]]]]]. exists cn. split; [exact Hord|]. rewrite G.
    apply in_map_iff. exists fk. split; [reflexivity|]. apply filter_In. split; [exact Hf|].
    apply andb_true_iff. split; [apply Nat.eqb_eq; exact Hp|exact Hb].
Qed.

Lemma check_body_ok : forall rec, rec_ok rec -> rec_ok (check_body rec ord).
Proof.
  intros rec RO. split; [|split].
  - intros p r w. apply check_body_suffix. exact (proj1 RO).
  - intros p r w pt G Hpk. unfold check_body. rewrite G, Hpk. left. reflexivity.
  - intros p r w I O. unfold check_body. destruct (get_table (fst w) p) as [pt|] eqn:G.
    2:{ intros _. apply good_refl. }
    destruct (t_pk pt) as [pk|] eqn:Epk.
    2:{ intros _. split; [apply good_refl|]. intros pt0 pk0 E0 Hpk0. inversion E0; subst. congruence. }
    destruct (has_any_fks (fst w)) eqn:HF; cbn [negb].
    2:{ intros _. split; [apply good_refl|]. intros pt0 pk0 _ _ ct fk x Hct Hfk _ _.
        exfalso. unfold has_any_fks in HF.
        assert (X : existsb (fun t => match t_fks t with [] => false | _ :: _ => true end) (fst w) = true).
        { apply existsb_exists. exists ct. split; [exact Hct|]. destruct (t_fks ct); [contradiction|reflexivity]. }
        congruence. }
    pose proof (run_actions_spec rec RO (collect_actions ord (fst w) p (proj pk r)) (proj pk r) w I O) as H.
    assert (HA : forall cn fk, In (cn, fk) (collect_actions ord (fst w) p (proj pk r)) ->
                   exists ct, get_table (fst w) cn = Some ct /\ In fk (t_fks ct)).
    { intros cn fk Hin. apply collect_In in Hin. destruct Hin as [_ [ct [G1 [Hf _]]]]. exists ct. auto. }
    specialize (H HA).
    destruct (run_actions rec (collect_actions ord (fst w) p (proj pk r)) (proj pk r) w) as [w'|e w'|];
      [|exact H|exact Logic.I].
    intros Hc. destruct (H Hc) as [G1 N1]. split; [exact G1|].
    intros pt0 pk0 E0 Hpk0. inversion E0; subst pt0. rewrite Epk in Hpk0. inversion Hpk0; subst pk0.
    intros ct' fk x' Hct' Hfk' Hp Hx'.
    destruct (dshrink_In _ _ _ _ G1 Hct') as [ct [Hct [[Hn [_ [_ Hf]]] Hrows]]].
    rewrite Hf in Hfk'.
    pose proof (In_get_table _ _ (inv_names _ I) Hct) as Gc.
    destruct (existsb (refs fk (proj pk r)) (t_rows ct)) eqn:Eb.
    + assert (Hin : In (t_name ct, fk) (collect_actions ord (fst w) p (proj pk r))).
      { apply collect_In. split; [apply O; exact Hct|]. exists ct. auto. }
      pose proof (N1 _ _ Hin) as N.
      assert (I1 : inv (fst w')) by (eapply inv_shrinks; [exact I|exact G1]).
      apply (N ct'); [|exact Hx']. rewrite <- Hn. apply In_get_table; [apply inv_names; exact I1|exact Hct'].
    + destruct (srows_origin _ _ _ _ _ Hrows Hx') as [x [Hx [Hle _]]].
      destruct (refs fk (proj pk r) x') eqn:Er; [|reflexivity].
      pose proof (refs_le _ _ _ _ Hle Er) as Er'.
      assert (X : existsb (refs fk (proj pk r)) (t_rows ct) = true)
        by (apply existsb_exists; exists x; auto).
      congruence.
Qed.

Theorem check_ok : forall fuel, rec_ok (check fuel ord).
Proof.
  induction fuel as [|f IH].
  - split; [|split]; cbn.
    + intros; exact Logic.I.
    + intros; right; reflexivity.
    + intros; exact Logic.I.
  - change (check (S f) ord) with (check_body (check f ord) ord). apply check_body_ok. exact IH.
Qed.

End Cascade.

(* ------------------------------------------------------------------------------------ *)
(** * The DELETE statement *)

Lemma srows_delete_by_index : forall (D : row -> Prop) opk idx l i,
  (forall r, In r l -> D r) -> srows D opk l (delete_by_index_from i idx l).
Proof.
  intros D opk idx l. induction l as [|r l IH]; intros i H; cbn; [constructor|].
  destruct (nat_mem i idx).
  - apply sr_drop; [apply H; left; reflexivity|]. apply IH. intros; apply H; right; assumption.
  - apply sr_keep; [apply row_le_refl|]. apply IH. intros; apply H; right; assumption.
Qed.

Lemma srows_nil : forall (D : row -> Prop) opk l, (forall r, In r l -> D r) -> srows D opk l [].
Proof.
  intros D opk l H. induction l as [|r l IH]; [constructor|].
  apply sr_drop; [apply H; left; reflexivity|]. apply IH. intros; apply H; right; assumption.
Qed.

Lemma not_referenced_unref : forall d t k, is_fk_referenced d t = false -> unref d t k.
Proof.
  intros d t k H ct fk r Hct Hfk Hp _. exfalso. unfold is_fk_referenced in H.
  assert (X : existsb (fun t0 => existsb (fun fk0 => Nat.eqb (fk_parent fk0) t) (t_fks t0)) d = true).
  { apply existsb_exists. exists ct. split; [exact Hct|]. apply existsb_exists. exists fk.
    split; [exact Hfk|apply Nat.eqb_eq; exact Hp]. }
  congruence.
Qed.

Lemma is_fk_referenced_shrinks : forall D d d' t, dshrink D d d' -> is_fk_referenced d' t = is_fk_referenced d t.
Proof.
  intros D d d' t S. unfold is_fk_referenced. induction S as [|x y l l' Hxy S IH]; [reflexivity|].
  cbn. destruct Hxy as [[_ [_ [_ Hf]]] _]. rewrite Hf, IH. reflexivity.
Qed.

Theorem exec_delete_good : forall fuel ord d t wh d' ev r,
  inv d -> ord_ok ord d ->
  exec_delete fuel ord d t wh = ((d', ev), r) -> ev = [] -> good d d'.
Proof.
  intros fuel ord d t wh d' ev r I O E Hev. unfold exec_delete in E.
  destruct (get_table d t) as [tb|] eqn:G.
  2:{ inversion E; subst. apply good_refl. }
  destruct ((match wh with None => true | Some _ => false end) && negb (is_fk_referenced d t)) eqn:Efast.
  - inversion E; subst. apply andb_true_iff in Efast. destruct Efast as [_ Hnr]. apply negb_true_iff in Hnr.
    assert (SH : shrinks d (set_rows d t [])).
    { eapply set_rows_dshrink; [apply inv_names; exact I|exact G|]. apply srows_nil. auto. }
    unfold good. eapply set_rows_dshrink; [apply inv_names; exact I|exact G|].
    apply srows_nil. intros x _ pk _. apply not_referenced_unref.
    rewrite (is_fk_referenced_shrinks _ _ _ _ SH). apply get_table_In in G. destruct G as [_ Gn]. rewrite Gn. exact Hnr.
  - clear Efast. set (sel := select_from 0 wh (t_rows tb)) in *.
    pose proof (each_row_spec ord (check fuel ord) t (check_ok ord fuel) (map snd sel) (d, []) I O) as C1.
    destruct (each_row (check fuel ord t) (map snd sel) (d, [])) as [[dw evw]|e [dw evw]|] eqn:E1.
    + cbn [fst snd] in *.
      destruct (get_table dw t) as [tb'|] eqn:G'.
      2:{ inversion E; subst. apply C1. reflexivity. }
      destruct (t_pk tb') as [pk|] eqn:Epk.
      * destruct (rows_eqb (delete_by_index_from 0 (map fst sel) (t_rows tb'))
                   (delete_by_key pk (map (fun p => proj pk (snd p)) sel) (t_rows tb'))) eqn:Eq.
        -- cbn [fst snd] in E. inversion E; subst. apply rows_eqb_eq in Eq. rewrite Eq.
           destruct (C1 eq_refl) as [G1 U1].
           assert (I1 : inv dw) by (eapply inv_shrinks; [exact I|exact G1]).
           destruct (dshrink_get _ _ _ _ _ G1 G) as [tb2 [G2 [[_ [_ [Hp _]]] _]]].
           rewrite G' in G2. inversion G2; subst tb2.
           set (rs' := delete_by_key pk (map (fun p => proj pk (snd p)) sel) (t_rows tb')).
           assert (DROP : forall x, In x (t_rows tb') ->
                     negb (key_mem (proj pk x) (map (fun p => proj pk (snd p)) sel)) = false ->
                     unref dw t (proj pk x)).
           { intros x Hx Hf. apply negb_false_iff in Hf. apply key_mem_In in Hf.
             apply in_map_iff in Hf. destruct Hf as [[i s] [Es Hs]]. cbn in Es. rewrite <- Es.
             eapply U1; [exact G|congruence|]. apply in_map_iff. exists (i, s). auto. }
           assert (SH : shrinks dw (set_rows dw t rs')).
           { eapply set_rows_dshrink; [apply inv_names; exact I1|exact G'|]. apply srows_filter. auto. }
           eapply good_trans; [exact G1|].
           unfold good. eapply set_rows_dshrink; [apply inv_names; exact I1|exact G'|].
           apply srows_filter. intros x Hx Hf pk0 Hpk0. rewrite Epk in Hpk0. inversion Hpk0; subst pk0.
           apply get_table_In in G'. destruct G' as [_ Gn]. rewrite Gn.
           eapply unref_stable; [exact SH|]. apply DROP; assumption.
        -- cbn [fst snd log] in E. inversion E; subst. discriminate.
      * cbn [fst snd] in E. inversion E; subst. destruct (C1 eq_refl) as [G1 _].
        assert (I1 : inv dw) by (eapply inv_shrinks; [exact I|exact G1]).
        eapply good_trans; [exact G1|].
        unfold good. eapply set_rows_dshrink; [apply inv_names; exact I1|exact G'|].
        apply srows_delete_by_index. intros x _ pk0 Hpk0. congruence.
    + unfold partial_mark in E. cbn [fst snd log] in *. destruct (db_rows_eqb d dw).
      * inversion E; subst. apply C1. reflexivity.
      * inversion E; subst. discriminate.
    + inversion E; subst. apply good_refl.
Qed.
